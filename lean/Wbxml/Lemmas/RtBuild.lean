/-
  Round trip (C03), part 1: the WBXML tree builder over the events the specification assigns to an
  element (`Spec.evElem`) reconstructs the tree that can be read off the element by structural
  recursion (`nodeOfElem`): one element node per element, one text node per maximal run of
  non-empty character data (`addKid` merges adjacent character data), processing instructions
  dropped — provided `syncmlDataType` answers `normal` at every character-data event, for which
  "no element is called `Data`" is a sufficient decidable condition (`noDataEvents`).
-/
import Wbxml.Lemmas.EncWRt
namespace Wbxml.Lemmas.Rt
open Wbxml Wbxml.Model Wbxml.Spec Wbxml.Lemmas.ParserSafe Wbxml.Lemmas.ParseSer

/-! ### `syncmlDataType` answers `normal` unless the innermost open element is called `Data` -/

def dataName : Bytes := b!"Data"

/-- No element start in the list is called `Data`. -/
def noDataEvent : Event → Bool
  | .startElt n _ => !(n.xmlName == dataName)
  | _ => true

def noDataEvents (es : List Event) : Bool := es.all noDataEvent

theorem noDataEvents_cons (e : Event) (es : List Event) :
    noDataEvents (e :: es) = (noDataEvent e && noDataEvents es) := by simp [noDataEvents]
theorem noDataEvents_append (a b : List Event) : noDataEvents (a ++ b) = (noDataEvents a && noDataEvents b) := by
  simp [noDataEvents]

theorem syncml_normal {f : Frame} {rest : List Frame} {n : Name} {a : List Attr} (hk : f.kind = .elt n a)
    (hn : (n.xmlName == dataName) = false) : syncmlDataType (f :: rest) = .normal := by
  unfold syncmlDataType
  simp only [hk]
  cases rest with
  | nil => rfl
  | cons g rest' =>
    simp only [materialize, materialize.materializeAux, Frame.close, hk, Node.eltName?]
    have : (some n.xmlName == some b!"Data") = false := by
      have : (some n.xmlName == some b!"Data") = (n.xmlName == dataName) := rfl
      rw [this, hn]
    simp only [this, Bool.false_eq_true, ↓reduceIte]

variable (main : List Lang) (emb : Nat → Bytes → Option Tree)

/-- A character-data event under an open element that is not called `Data`: a text child. -/
theorem step_chars_normal {b : BState} {f : Frame} {rest : List Frame} {n : Name} {a : List Attr}
    (herr : b.error = none) (hs : b.stack = f :: rest) (hk : f.kind = .elt n a)
    (hn : (n.xmlName == dataName) = false) (s : Bytes) :
    buildStep main emb b (.chars s) = { b with stack := { f with kids := addKid f.kids (.text s) } :: rest } := by
  have he : b.error.isSome = false := by rw [herr]; rfl
  have hty : syncmlDataType b.stack = .normal := by rw [hs]; exact syncml_normal hk hn
  unfold buildStep
  simp only [he, Bool.false_eq_true, if_false, hty]
  exact attach_cons hs _

theorem step_charsEv {b : BState} {f : Frame} {rest : List Frame} {n : Name} {a : List Attr}
    (herr : b.error = none) (hs : b.stack = f :: rest) (hk : f.kind = .elt n a)
    (hn : (n.xmlName == dataName) = false) (s : Bytes) :
    (charsEv s).foldl (buildStep main emb) b = { b with stack := { f with kids := addChars f.kids s } :: rest } := by
  unfold charsEv addChars
  split
  · simp only [List.foldl_nil]
    cases b; simp only at hs; subst hs; rfl
  · rw [List.foldl_cons, List.foldl_nil, step_chars_normal main emb herr hs hk hn]

/-- An element start when no CDATA section is open and the root slot is free. -/
theorem step_start_top {b : BState} (herr : b.error = none) (hroot : b.stack = [] → b.root = none)
    (htop : ∀ f rest, b.stack = f :: rest → IsElt f) (n : Name) (a : List Attr) :
    buildStep main emb b (.startElt n a) = { b with stack := { kind := .elt n a, kids := [] } :: b.stack } := by
  have hl : b.leaveCdata = b := by
    cases hs : b.stack with
    | nil => unfold BState.leaveCdata; rw [hs]
    | cons f rest => exact leaveCdata_elt hs (htop f rest hs)
  have he : b.error.isSome = false := by rw [herr]; rfl
  unfold buildStep
  simp only [he, Bool.false_eq_true, if_false, hl]
  split
  · rename_i hst hr
    rw [hroot hst] at hr; cases hr
  · rfl


theorem setTop_self {b : BState} {f : Frame} {rest : List Frame} (hs : b.stack = f :: rest) :
    ({ b with stack := { f with kids := f.kids } :: rest } : BState) = b := by
  cases b; simp only at hs; subst hs; rfl

/-! ### The builder over the events of an element -/

mutual
/-- **Builder reconstruction, element.** In a state without error whose innermost open frame (if
    any) is an element and whose root slot is free when nothing is open, the events of a grammar
    element attach exactly the node read off the element. -/
theorem run_elem (c : Ctx) : ∀ (e : Elem) (pg : Pages) (b : BState), b.error = none →
    (b.stack = [] → b.root = none) → (∀ f rest, b.stack = f :: rest → IsElt f) →
    noDataEvents (evElem c pg e).1 = true →
    (evElem c pg e).1.foldl (buildStep main emb) b = b.attach (nodeOfElem c pg e)
  | .mk sw tag attrs content, pg, b, herr, hroot, htop, hnd => by
    rw [evElem_mk] at hnd ⊢
    rw [nodeOfElem_mk]
    simp only [noDataEvents_cons, noDataEvents_append, Bool.and_eq_true, noDataEvent, Bool.not_eq_true'] at hnd
    obtain ⟨hn, hbody, _⟩ := hnd
    simp only
    rw [List.foldl_cons, List.foldl_append, step_start_top main emb herr hroot htop,
      run_content c content _ _
        ({ b with stack := { kind := .elt (tagName c (swPage sw pg.tag) tag).1 (evAttrs c pg.attr attrs).1,
                             kids := [] } :: b.stack } : BState)
        _ b.stack _ _ herr rfl rfl hn hbody, List.foldl_cons, List.foldl_nil,
      step_endElt_elt main emb (b := { b with stack := _ :: b.stack }) herr rfl ⟨_, _, rfl⟩]
    rfl
theorem run_content (c : Ctx) : ∀ (content : Option (List Item)) (own : Option TagRow) (pg : Pages)
    (b : BState) (f : Frame) (rest : List Frame) (n : Name) (a : List Attr), b.error = none → b.stack = f :: rest →
    f.kind = .elt n a → (n.xmlName == dataName) = false → noDataEvents (evContent c own pg content).1 = true →
    (evContent c own pg content).1.foldl (buildStep main emb) b =
      { b with stack := { f with kids := kidsOfContent c own pg content f.kids } :: rest }
  | none, own, pg, b, f, rest, n, a, herr, hs, hk, hn, hnd => by
    rw [evContent_none, kidsOfContent_none, List.foldl_nil, setTop_self hs]
  | some items, own, pg, b, f, rest, n, a, herr, hs, hk, hn, hnd => by
    rw [evContent_some] at hnd ⊢
    rw [kidsOfContent_some]
    exact run_items c items own pg b f rest n a herr hs hk hn hnd
theorem run_items (c : Ctx) : ∀ (items : List Item) (own : Option TagRow) (pg : Pages)
    (b : BState) (f : Frame) (rest : List Frame) (n : Name) (a : List Attr), b.error = none → b.stack = f :: rest →
    f.kind = .elt n a → (n.xmlName == dataName) = false → noDataEvents (evItems c own pg items).1 = true →
    (evItems c own pg items).1.foldl (buildStep main emb) b =
      { b with stack := { f with kids := kidsOfItems c own pg items f.kids } :: rest }
  | [], own, pg, b, f, rest, n, a, herr, hs, hk, hn, hnd => by
    rw [evItems_nil, kidsOfItems_nil, List.foldl_nil, setTop_self hs]
  | it :: more, own, pg, b, f, rest, n, a, herr, hs, hk, hn, hnd => by
    rw [evItems_cons] at hnd ⊢
    simp only [noDataEvents_append, Bool.and_eq_true] at hnd
    simp only
    rw [List.foldl_append, run_item c it own pg b f rest n a herr hs hk hn hnd.1,
      run_items c more own _
        ({ b with stack := { f with kids := kidOfItem c own pg it f.kids } :: rest } : BState)
        { f with kids := kidOfItem c own pg it f.kids } rest n a herr rfl hk hn hnd.2,
      kidsOfItems_cons]
theorem run_item (c : Ctx) : ∀ (it : Item) (own : Option TagRow) (pg : Pages)
    (b : BState) (f : Frame) (rest : List Frame) (n : Name) (a : List Attr), b.error = none → b.stack = f :: rest →
    f.kind = .elt n a → (n.xmlName == dataName) = false → noDataEvents (evItem c own pg it).1 = true →
    (evItem c own pg it).1.foldl (buildStep main emb) b =
      { b with stack := { f with kids := kidOfItem c own pg it f.kids } :: rest }
  | .elem e, own, pg, b, f, rest, n, a, herr, hs, hk, hn, hnd => by
    rw [evItem_elem] at hnd ⊢
    rw [kidOfItem_elem, run_elem c e pg b herr (fun h => by rw [hs] at h; cases h)
      (fun f' rest' h => by rw [hs] at h; cases h; exact ⟨n, a, hk⟩) hnd, attach_cons hs]
  | .str s, own, pg, b, f, rest, n, a, herr, hs, hk, hn, hnd => by
    rw [evItem_str, kidOfItem_str]; exact step_charsEv main emb herr hs hk hn _
  | .entity code, own, pg, b, f, rest, n, a, herr, hs, hk, hn, hnd => by
    rw [evItem_entity, kidOfItem_entity]; exact step_charsEv main emb herr hs hk hn _
  | .opaque d, own, pg, b, f, rest, n, a, herr, hs, hk, hn, hnd => by
    rw [evItem_opaque, kidOfItem_opaque]; exact step_charsEv main emb herr hs hk hn _
  | .ext sw x, own, pg, b, f, rest, n, a, herr, hs, hk, hn, hnd => by
    rw [evItem_ext, kidOfItem_ext]; exact step_charsEv main emb herr hs hk hn _
  | .pi p, own, pg, b, f, rest, n, a, herr, hs, hk, hn, hnd => by
    rw [evItem_pi, kidOfItem_pi]
    simp only [List.foldl_cons, List.foldl_nil]
    unfold evPi
    rw [step_pi, setTop_self hs]
end


/-! ### The builder over the events of a document -/

theorem evPis_onlyPi (c : Ctx) : ∀ (ps : List Attribute) (ap : Nat), ∀ e ∈ (evPis c ap ps).1, ∃ t d, e = Event.pi t d
  | [], ap, e, he => by simp [evPis] at he
  | p :: ps, ap, e, he => by
    simp only [evPis, List.mem_cons] at he
    rcases he with he | he
    · exact ⟨_, _, by rw [he]; rfl⟩
    · exact evPis_onlyPi c ps _ e he

theorem step_endDoc (b : BState) : buildStep main emb b .endDoc = b := by
  unfold buildStep; split <;> rfl

/-- The root node the specification's reading of a document stands for. -/
def rootOfDoc (cfg : PCfg) (d : Doc) (l : Lang) : Node :=
  nodeOfElem (headerCtx cfg d.hdr l) ⟨0, (evPis (headerCtx cfg d.hdr l) 0 d.pre).2⟩ d.root

/-- The tree read off a document of the grammar by structural recursion (`none` when the header
    selects no language: the specification assigns no events then). -/
def treeOfEventsSpec (main : List Lang) (cfg : PCfg) (d : Doc) : Option Tree :=
  match headerLang cfg d.hdr with
  | none => none
  | some l => some { lang := main.find? (fun x => x.id == l.id), origCharset := headerCharset cfg d.hdr,
                     root := some (rootOfDoc cfg d l) }

/-- **Builder reconstruction, document.** Over the events the specification assigns to a document
    in which no element is called `Data`, the tree builder ends without error, with nothing open,
    and with the root read off the document. -/
theorem run_doc (cfg : PCfg) (d : Doc) (l : Lang) (hl : headerLang cfg d.hdr = some l)
    (hnd : noDataEvents (Spec.events cfg d) = true) :
    (Spec.events cfg d).foldl (buildStep main emb) {} =
      { stack := [], root := some (rootOfDoc cfg d l), lang := main.find? (fun x => x.id == l.id),
        charset := headerCharset cfg d.hdr, error := none } := by
  unfold Spec.events at hnd ⊢
  rw [hl] at hnd ⊢
  simp only at hnd ⊢
  simp only [noDataEvents_cons, noDataEvents_append, Bool.and_eq_true] at hnd
  have e0 : buildStep main emb {} (Event.startDoc (headerCtx cfg d.hdr l).charset l.id) =
      { charset := headerCharset cfg d.hdr, lang := main.find? (fun x => x.id == l.id) } := rfl
  rw [List.foldl_cons, e0, List.foldl_append, run_onlyPi main emb (evPis_onlyPi _ _ _), List.foldl_append,
    run_elem main emb _ d.root _ _ rfl (fun _ => rfl) (fun f rest h => by cases h) hnd.2.2.1,
    List.foldl_append, run_onlyPi main emb (evPis_onlyPi _ _ _), List.foldl_cons, List.foldl_nil, step_endDoc]
  rfl

end Wbxml.Lemmas.Rt
