/-
  XML generation modes and the READER (C07, second half): what `wbxml_tree_from_xml` builds from a
  conforming reading of the compact, the canonical and the indented rendering of one tree.

  * `readNode_congr`: the tree read back depends on the printer options only through the printed
    character data (`printedText`) and the attribute-value normalisation — so the canonical and the
    compact rendering read back to the SAME tree when white space is kept (`-k`) and no attribute
    value carries a literal TAB / LF.
  * `BlankRelL`: a child list that differs from the printed one only by blank (space / line feed)
    octets: blank-only text nodes inserted anywhere, blank octets at either end of a text — what a
    conforming reader reports for indented output, where the printer adds white space between
    markup (`C07.indent_adds_only_whitespace`). `blankRel_norm`: such a list has the same
    normalisation (`normKidsAcc`) under an encoder configuration that drops and trims white space.
-/
import Wbxml.Lemmas.RtSecond
import Wbxml.Lemmas.EncWXmlModes
namespace Wbxml.Lemmas.Rt
open Wbxml Wbxml.Model Wbxml.Spec Wbxml.Lemmas.EncW Wbxml.Lemmas.X2W

/-! ### Compact against canonical -/

/-- The two printer configurations print the same character data and the same attribute values,
    as a reader sees them, for the node `n`. -/
def sameAttrs (ca cb : XCfg) (attrs : List Attr) : Bool :=
  attrs.all (fun a => attrNormalize (ca.gen == 2) (cstrOf a.value) == attrNormalize (cb.gen == 2) (cstrOf a.value))

mutual
def sameRead (ca cb : XCfg) : Node → Bool
  | .elt _ attrs kids => sameAttrs ca cb attrs && sameReadL ca cb kids
  | .text s => printedText ca s == printedText cb s
  | .cdata _ => true
  | .tree _ _ _ => true
def sameReadL (ca cb : XCfg) : List Node → Bool
  | [] => true
  | k :: r => sameRead ca cb k && sameReadL ca cb r
end

theorem xmlAttrsOf_congr (ca cb : XCfg) (hl : ca.lang = cb.lang) (attrs : List Attr) (h : sameAttrs ca cb attrs = true) :
    xmlAttrsOf ca attrs = xmlAttrsOf cb attrs := by
  unfold xmlAttrsOf
  rw [hl]
  split
  · apply List.map_congr_left
    intro a ha
    simp only [sameAttrs, List.all_eq_true, beq_iff_eq] at h
    rw [h a ha]
  · rfl

mutual
/-- The tree `wbxml_tree_from_xml` builds depends on the printer's options only through what a
    reader sees of character data and attribute values. -/
theorem readNode_congr (lang : Lang) (ca cb : XCfg) (hl : ca.lang = cb.lang) :
    ∀ (n : Node), sameRead ca cb n = true → readNode lang ca n = readNode lang cb n
  | .elt name attrs kids, h => by
    rw [sameRead, Bool.and_eq_true] at h
    rw [readNode_elt, readNode_elt, xmlAttrsOf_congr ca cb hl attrs h.1, readKidsAcc_congr lang ca cb hl kids [] h.2]
  | .text s, h => by
    rw [sameRead, beq_iff_eq] at h
    rw [readNode_text, readNode_text, h]
  | .cdata _, _ => by rw [readNode, readNode]
  | .tree _ _ _, _ => by rw [readNode, readNode]
theorem readKidsAcc_congr (lang : Lang) (ca cb : XCfg) (hl : ca.lang = cb.lang) :
    ∀ (ks acc : List Node), sameReadL ca cb ks = true → readKidsAcc lang ca ks acc = readKidsAcc lang cb ks acc
  | [], acc, _ => by rw [readKidsAcc_nil, readKidsAcc_nil]
  | k :: r, acc, h => by
    rw [sameReadL, Bool.and_eq_true] at h
    rw [readKidsAcc_cons, readKidsAcc_cons, readNode_congr lang ca cb hl k h.1, readKidsAcc_congr lang ca cb hl r _ h.2]
end

/-- With white space kept, the printed character data is the text itself in every generation mode. -/
theorem printedText_keep (c : XCfg) (hi : c.ignoreEmpty = false) (hr : c.removeBlanks = false) (s : Bytes) :
    printedText c s = s := by
  unfold printedText
  simp [hi, hr]

mutual
/-- Two configurations that keep white space read back the same tree from every node whose
    attribute values carry no literal TAB / LF (`attrsReadable` for a non-canonical mode). -/
theorem sameRead_keep (ca cb : XCfg) (hia : ca.ignoreEmpty = false) (hra : ca.removeBlanks = false)
    (hib : cb.ignoreEmpty = false) (hrb : cb.removeBlanks = false) :
    ∀ (n : Node), attrsReadable ca n = true → attrsReadable cb n = true → sameRead ca cb n = true
  | .elt name attrs kids, ha, hb => by
    rw [attrsReadable, Bool.and_eq_true] at ha hb
    rw [sameRead, Bool.and_eq_true]
    refine ⟨?_, sameReadL_keep ca cb hia hra hib hrb kids ha.2 hb.2⟩
    simp only [sameAttrs, List.all_eq_true, beq_iff_eq]
    intro a hm
    have h1 := List.all_eq_true.mp ha.1 a hm
    have h2 := List.all_eq_true.mp hb.1 a hm
    simp only [attrReadable, Bool.and_eq_true] at h1 h2
    rw [attrNormalize_id _ _ h1.2, attrNormalize_id _ _ h2.2]
  | .text s, _, _ => by
    rw [sameRead, printedText_keep ca hia hra, printedText_keep cb hib hrb]
    exact beq_self_eq_true s
  | .cdata _, _, _ => by rw [sameRead]
  | .tree _ _ _, _, _ => by rw [sameRead]
theorem sameReadL_keep (ca cb : XCfg) (hia : ca.ignoreEmpty = false) (hra : ca.removeBlanks = false)
    (hib : cb.ignoreEmpty = false) (hrb : cb.removeBlanks = false) :
    ∀ (ks : List Node), attrsReadableL ca ks = true → attrsReadableL cb ks = true → sameReadL ca cb ks = true
  | [], _, _ => by rw [sameReadL]
  | k :: r, ha, hb => by
    rw [attrsReadableL, Bool.and_eq_true] at ha hb
    rw [sameReadL, sameRead_keep ca cb hia hra hib hrb k ha.1 hb.1, sameReadL_keep ca cb hia hra hib hrb r ha.2 hb.2]
    rfl
end

mutual
/-- What survives compact printing survives canonical printing (TAB / LF are escaped there). -/
theorem attrsReadable_canonical (ca cb : XCfg) (hb : (cb.gen == 2) = true) :
    ∀ (n : Node), attrsReadable ca n = true → attrsReadable cb n = true
  | .elt name attrs kids, h => by
    rw [attrsReadable, Bool.and_eq_true] at h ⊢
    refine ⟨?_, attrsReadableL_canonical ca cb hb kids h.2⟩
    rw [List.all_eq_true] at h ⊢
    intro a hm
    have := h.1 a hm
    simp only [attrReadable, Bool.and_eq_true] at this ⊢
    exact ⟨this.1, by rw [hb]; rfl⟩
  | .text _, _ => by rw [attrsReadable]
  | .cdata _, _ => by rw [attrsReadable]
  | .tree _ _ _, _ => by rw [attrsReadable]
theorem attrsReadableL_canonical (ca cb : XCfg) (hb : (cb.gen == 2) = true) :
    ∀ (ks : List Node), attrsReadableL ca ks = true → attrsReadableL cb ks = true
  | [], _ => by rw [attrsReadableL]
  | k :: r, h => by
    rw [attrsReadableL, Bool.and_eq_true] at h
    rw [attrsReadableL, attrsReadable_canonical ca cb hb k h.1, attrsReadableL_canonical ca cb hb r h.2]
    rfl
end

/-! ### Indented output: blank octets between markup -/

/-- `ksW` is `ks` as printed under `c`, plus blank (space / line feed) octets: blank-only text nodes
    inserted anywhere in a child list, blank octets at either end of a printed text; a text that is
    printed as nothing may be absent. Elements keep name, attributes and order. -/
inductive BlankRelL (c : XCfg) : List Node → List Node → Prop
  | nil : BlankRelL c [] []
  | ins (w : Bytes) (ks ksW : List Node) : w.all isBlankB = true → BlankRelL c ks ksW →
      BlankRelL c ks (.text w :: ksW)
  | text (s b1 b2 : Bytes) (ks ksW : List Node) : b1.all isBlankB = true → b2.all isBlankB = true →
      BlankRelL c ks ksW → BlankRelL c (.text s :: ks) (.text (b1 ++ printedText c s ++ b2) :: ksW)
  | gone (s : Bytes) (ks ksW : List Node) : printedText c s = [] → BlankRelL c ks ksW →
      BlankRelL c (.text s :: ks) ksW
  | elt (name : Name) (attrs : List Attr) (kids kidsW ks ksW : List Node) : BlankRelL c kids kidsW →
      BlankRelL c ks ksW → BlankRelL c (.elt name attrs kids :: ks) (.elt name attrs kidsW :: ksW)

theorem blank_isSpace (w : Bytes) (h : w.all isBlankB = true) : w.all isSpaceC = true := by
  rw [List.all_eq_true] at h ⊢
  intro x hx
  have := h x hx
  simp only [isBlankB, Bool.or_eq_true, beq_iff_eq] at this
  rcases this with rfl | rfl <;> rfl

theorem dropWhile_append_all (p : UInt8 → Bool) : ∀ (b x : Bytes), b.all p = true → (b ++ x).dropWhile p = x.dropWhile p
  | [], x, _ => rfl
  | a :: b, x, h => by
    simp only [List.all_cons, Bool.and_eq_true] at h
    rw [List.cons_append, List.dropWhile_cons_of_pos h.1, dropWhile_append_all p b x h.2]

theorem strip_blank_left (b x : Bytes) (h : b.all isSpaceC = true) : stripBlanks (b ++ x) = stripBlanks x := by
  unfold stripBlanks
  rw [dropWhile_append_all _ b x h]

theorem dropWhile_append_of_ne (p : UInt8 → Bool) : ∀ (x y : Bytes), x.dropWhile p ≠ [] →
    (x ++ y).dropWhile p = x.dropWhile p ++ y
  | [], y, h => absurd rfl h
  | a :: x, y, h => by
    by_cases ha : p a = true
    · rw [List.dropWhile_cons_of_pos ha] at h
      rw [List.cons_append, List.dropWhile_cons_of_pos ha, List.dropWhile_cons_of_pos ha,
        dropWhile_append_of_ne p x y h]
    · rw [List.cons_append, List.dropWhile_cons_of_neg ha, List.dropWhile_cons_of_neg ha]
      rfl

theorem strip_blank_right (x b : Bytes) (h : b.all isSpaceC = true) : stripBlanks (x ++ b) = stripBlanks x := by
  unfold stripBlanks
  by_cases hx : x.dropWhile isSpaceC = []
  · have hall : (x ++ b).all isSpaceC = true := by
      rw [List.all_append, Bool.and_eq_true]
      exact ⟨List.all_eq_true.mpr ((dropWhile_nil_iff _ x).mp hx), h⟩
    have : (x ++ b).dropWhile isSpaceC = [] := (dropWhile_nil_iff _ _).mpr (List.all_eq_true.mp hall)
    rw [this, hx]
  · rw [dropWhile_append_of_ne _ x b hx, List.reverse_append,
      dropWhile_append_all _ b.reverse _ (by rw [List.all_reverse]; exact h)]

theorem normText_blank (wc : WCfg) (hi : wc.ignoreEmpty = true) (w : Bytes) (h : w.all isBlankB = true) :
    normText wc w = [] := by
  unfold normText
  simp only [hi, blank_isSpace w h, Bool.and_self, ↓reduceIte]

/-- Blank octets around a text do not change its normalisation when the encoder drops and trims
    white space. -/
theorem normText_blank_ext (wc : WCfg) (hr : wc.removeBlanks = true) (b1 p b2 : Bytes)
    (h1 : b1.all isBlankB = true) (h2 : b2.all isBlankB = true) : normText wc (b1 ++ p ++ b2) = normText wc p := by
  unfold normText
  have hall : (b1 ++ p ++ b2).all isSpaceC = p.all isSpaceC := by
    rw [List.all_append, List.all_append, blank_isSpace b1 h1, blank_isSpace b2 h2]
    simp
  rw [hall, hr]
  simp only [↓reduceIte]
  rw [strip_blank_right _ b2 (blank_isSpace b2 h2), strip_blank_left b1 p (blank_isSpace b1 h1)]

/-- **Blank octets between markup do not survive the encoder's normalisation** (white space dropped
    and trimmed, i.e. without `-k`; `flagsOk`: the printer removed nothing the encoder would keep). -/
theorem blankRel_norm (c : XCfg) (wc : WCfg) (hs : isSyncml wc.lang.id = false) (hf : flagsOk c wc = true)
    (hi : wc.ignoreEmpty = true) (hr : wc.removeBlanks = true) {ks ksW : List Node} (h : BlankRelL c ks ksW) :
    ∀ acc, normKidsAcc wc ksW acc = normKidsAcc wc ks acc := by
  induction h with
  | nil => intro acc; rfl
  | ins w ks ksW hw _ ih =>
    intro acc
    rw [normKidsAcc_cons, normNode_text, normText_blank wc hi w hw, ih]
    rfl
  | text s b1 b2 ks ksW h1 h2 _ ih =>
    intro acc
    rw [normKidsAcc_cons, normKidsAcc_cons, normNode_text, normNode_text, normText_blank_ext wc hr _ _ _ h1 h2,
      normText_printed c wc hs hf, ih]
  | gone s ks ksW hp _ ih =>
    intro acc
    rw [normKidsAcc_cons, normNode_text, ← normText_printed c wc hs hf, hp, normText_nil wc hs, ih]
    rfl
  | elt name attrs kids kidsW ks ksW _ _ ihk ih =>
    intro acc
    rw [normKidsAcc_cons, normKidsAcc_cons, normNode_elt, normNode_elt, ihk, ih]

/-- … for a root element. -/
theorem blankRel_norm_node (c : XCfg) (wc : WCfg) (hs : isSyncml wc.lang.id = false) (hf : flagsOk c wc = true)
    (hi : wc.ignoreEmpty = true) (hr : wc.removeBlanks = true) (name : Name) (attrs : List Attr) (kids kidsW : List Node)
    (h : BlankRelL c kids kidsW) : normNode wc (.elt name attrs kidsW) = normNode wc (.elt name attrs kids) := by
  rw [normNode_elt, normNode_elt, blankRel_norm c wc hs hf hi hr h]

/-- The options under which the blank-extended tree is read: as printed, nothing removed again. -/
def keepAll (c : XCfg) : XCfg := { c with gen := 0, ignoreEmpty := false, removeBlanks := false }

end Wbxml.Lemmas.Rt
