/- Small arithmetic facts shared by the codec proofs: the C `|` of a value whose low `k` bits are
   clear with a value below `2^k` is their sum; bytes built from non-zero numbers are non-zero. -/
import Wbxml.Prim.Basic
namespace Wbxml.Lemmas.Codec
open Wbxml

theorem or_mul_pow (a b k : Nat) (h : b < 2 ^ k) : a * 2 ^ k ||| b = a * 2 ^ k + b := by
  rw [← Nat.shiftLeft_eq, ← Nat.shiftLeft_add_eq_or_of_lt h]

theorem ofNat_ne_zero (n : Nat) (h0 : 0 < n) (h : n < 256) : UInt8.ofNat n ≠ 0 := by
  intro e
  have := congrArg UInt8.toNat e
  rw [UInt8.toNat_ofNat'] at this
  simp at this; omega

theorem toNat_ofNat_lt (n : Nat) (h : n < 256) : (UInt8.ofNat n).toNat = n := by
  rw [UInt8.toNat_ofNat']; omega

theorem ofNat_eq_iff (n : Nat) (b : UInt8) (h : n < 256) : UInt8.ofNat n = b ↔ n = b.toNat := by
  constructor
  · intro e; rw [← e, toNat_ofNat_lt n h]
  · intro e; rw [e, UInt8.ofNat_toNat]

end Wbxml.Lemmas.Codec
