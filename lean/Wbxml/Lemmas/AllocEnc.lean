/-
  C16 — specifications of the hand-unwound encoder functions in the ledger monad.
-/
import Wbxml.Model.AllocEnc
import Wbxml.Lemmas.AllocCont
namespace Wbxml.Model.Alloc
open Wbxml
set_option linter.unusedSimpArgs false
set_option linter.unusedVariables false
set_option linter.unnecessarySimpa false

/-! ### String-table elements -/

def ownedEltOpt : Option StrElt → List Nat
  | none => []
  | some e => e.owned

theorem strEltCreate_spec (string : ABuf) (stat : Bool) (s : Ledger) (wf : s.WF) :
    Good (strEltCreate string stat) s (fun r s' =>
      Clean s s' [] (match r with | none => [] | some e => [e.hdr]) ∧ (s.hits < s'.hits → r = none) ∧
      (∀ e, r = some e → e.string = string ∧ e.stat = stat)) := by
  unfold strEltCreate
  simp only [bind_eq, pure_eq]
  refine Good.bind (malloc_spec s wf) ?_
  intro h s1 ⟨c1, h1⟩
  cases h with
  | none => simp only [good_ret]; exact ⟨c1, by simp, by simp⟩
  | some h =>
    simp only [good_ret]
    refine ⟨by simpa using c1, ?_, by simp⟩
    intro hh; have := h1 hh; simp at this

theorem strEltDestroy_spec (e : Option StrElt) (s : Ledger) (wf : s.WF) (own : Owns s (ownedEltOpt e)) :
    Good (strEltDestroy e) s (fun _ s' => Clean s s' (ownedEltOpt e) [] ∧ s'.hits = s.hits ∧ s'.next = s.next) := by
  cases e with
  | none => simp only [strEltDestroy, pure_eq, good_ret, ownedEltOpt]; exact ⟨Clean.rfl wf, by simp, by simp⟩
  | some e =>
    simp only [ownedEltOpt, StrElt.owned] at own ⊢
    obtain ⟨hl, hn, own'⟩ := Owns.cons_iff.1 own
    unfold strEltDestroy
    simp only [bind_eq, pure_eq]
    refine Good.bind (deref_spec e.hdr s hl) ?_
    intro _ s0 e0; subst e0
    cases hst : e.stat with
    | true =>
      simp only [hst, Bool.not_true, Bool.false_eq_true, if_false, if_true, Prog.bind] at hn own' ⊢
      refine (free_spec (some e.hdr) s0 wf (by intro a ha; cases ha; exact hl)).mono ?_
      intro _ s1 ⟨c1, h1, n1⟩
      exact ⟨by simpa using c1, h1, n1⟩
    | false =>
      simp only [hst, Bool.not_false, if_true, Bool.false_eq_true, if_false] at hn own' ⊢
      refine Good.bind (bufDestroy_spec (some e.string) s0 wf (by simpa [ownedBufOpt] using own')) ?_
      intro _ s1 ⟨c1, h1, n1⟩
      have hl1 : e.hdr ∈ s1.live := (c1.live _).2 (Or.inl ⟨hl, by simpa [ownedBufOpt] using hn⟩)
      refine (free_spec (some e.hdr) s1 c1.wf (by intro a ha; cases ha; exact hl1)).mono ?_
      intro _ s2 ⟨c2, h2, n2⟩
      refine ⟨⟨?_, by simp, by simp, by rw [c2.sched, c1.sched], by have := c1.next; have := c2.next; omega,
        by have := c1.hits; have := c2.hits; omega, c2.wf⟩, by omega, by omega⟩
      intro i
      rw [c2.live, c1.live]
      simp only [ownedBufOpt, Option.toList, List.mem_cons, List.not_mem_nil, or_false]
      grind

theorem elt_destroys : Destroys StrElt.owned (fun x => strEltDestroy (some x)) := by
  intro e s wf own
  exact strEltDestroy_spec (some e) s wf own

/-! ### The encoder object -/

abbrev strListOwned (l : Option (AList StrElt)) : List Nat := listOwned StrElt.owned l

theorem AEnc.owned_eq (e : AEnc) : e.owned = e.hdr :: (strListOwned e.strstbl ++ ownedBufOpt e.output) := by
  cases h : e.strstbl <;> simp [AEnc.owned, ownedStrList, strListOwned, listOwned, h, AList.owned, cellsOwned]

def ownedEncOpt : Option AEnc → List Nat
  | none => []
  | some e => e.owned

theorem encCreate_spec (s : Ledger) (wf : s.WF) :
    Good encCreate s (fun r s' => Clean s s' [] (ownedEncOpt r) ∧ (s.hits < s'.hits → r = none) ∧
      (∀ e, r = some e → e.output = none ∧ ∃ l, e.strstbl = some l ∧ l.cells = [])) := by
  unfold encCreate
  simp only [bind_eq, pure_eq]
  refine Good.bind (malloc_spec s wf) ?_
  intro h s1 ⟨c1, h1⟩
  cases h with
  | none => simp only [good_ret, ownedEncOpt]; exact ⟨c1, by simp, by simp⟩
  | some h =>
    simp only
    have hh1 : ¬ s.hits < s1.hits := by intro hh; have := h1 hh; simp at this
    refine Good.bind (listCreate_spec (ι := StrElt) s1 c1.wf) ?_
    intro l s2 ⟨c2, h2, e2⟩
    have hl2 : h ∈ s2.live := (c2.live h).2 (Or.inl ⟨(c1.live h).2 (Or.inr (by simp)), by simp⟩)
    have hn1 := c1.next; have hn2 := c2.next; have hhh1 := c1.hits; have hhh2 := c2.hits
    cases l with
    | none =>
      simp only
      refine Good.bind (free_spec (some h) s2 c2.wf (by intro a ha; cases ha; exact hl2)) ?_
      intro _ s3 ⟨c3, h3, n3⟩
      simp only [good_ret, ownedEncOpt]
      refine ⟨⟨?_, by simp, by simp, by rw [c3.sched, c2.sched, c1.sched], by omega, by omega, c3.wf⟩, by simp, by simp⟩
      intro i
      rw [c3.live, c2.live, c1.live]
      have a1 := wf i; have a2 := c1.fresh i
      simp only [Option.toList, List.mem_singleton, List.not_mem_nil, not_false_eq_true, and_true, or_false, false_or] at *
      grind
    | some l =>
      simp only [good_ret, ownedEncOpt, AEnc.owned_eq, strListOwned, listOwned, e2 l rfl, cellsOwned, List.flatMap_nil, ownedBufOpt, List.append_nil]
      have f1 := c1.fresh h (by simp); have f2 := c2.fresh l.hdr (by simp)
      simp only [List.not_mem_nil, false_or] at f1 f2
      refine ⟨⟨?_, ?_, ?_, by rw [c2.sched, c1.sched], by omega, by omega, c2.wf⟩, ?_, by simp [e2 l rfl]⟩
      · intro i
        rw [c2.live, c1.live]
        simp only [Option.toList, List.mem_cons, List.not_mem_nil, not_false_eq_true, and_true, or_false]
        grind
      · intro i hi
        simp only [List.mem_cons, List.not_mem_nil, or_false] at hi
        rcases hi with rfl | rfl
        · exact Or.inr ⟨by omega, by omega⟩
        · exact Or.inr ⟨by omega, by omega⟩
      · simp only [List.nodup_cons, List.mem_cons, List.not_mem_nil, or_false, not_false_eq_true, List.nodup_nil, and_true]
        omega
      · intro hh
        exfalso
        have b2 := h2
        simp at b2
        omega

theorem encDestroy_spec (e : Option AEnc) (s : Ledger) (wf : s.WF) (own : Owns s (ownedEncOpt e)) :
    Good (encDestroy e) s (fun _ s' => Clean s s' (ownedEncOpt e) [] ∧ s'.hits = s.hits ∧ s'.next = s.next) := by
  cases e with
  | none => simp only [encDestroy, pure_eq, good_ret, ownedEncOpt]; exact ⟨Clean.rfl wf, by simp, by simp⟩
  | some e =>
    simp only [ownedEncOpt, AEnc.owned_eq] at own ⊢
    obtain ⟨hl, hn, own'⟩ := Owns.cons_iff.1 own
    obtain ⟨ownL, ownO, disj⟩ := Owns.append_iff.1 own'
    unfold encDestroy
    simp only [bind_eq]
    refine Good.bind (deref_spec e.hdr s hl) ?_
    intro _ s0 e0; subst e0
    refine Good.bind (bufDestroy_spec e.output s0 wf ownO) ?_
    intro _ s1 ⟨c1, h1, n1⟩
    have ownL1 : Owns s1 (strListOwned e.strstbl) := c1.keeps ownL disj
    refine Good.bind (listDestroy_spec StrElt.owned _ elt_destroys e.strstbl s1 c1.wf ownL1) ?_
    intro _ s2 ⟨c2, h2, n2⟩
    have hl2 : e.hdr ∈ s2.live := by
      refine (c2.live _).2 (Or.inl ⟨(c1.live _).2 (Or.inl ⟨hl, fun hm => hn (List.mem_append_right _ hm)⟩), fun hm => hn (List.mem_append_left _ hm)⟩)
    refine (free_spec (some e.hdr) s2 c2.wf (by intro x hx; cases hx; exact hl2)).mono ?_
    intro _ s3 ⟨c3, h3, n3⟩
    have hn1 := c1.next; have hn2 := c2.next; have hn3 := c3.next
    have hh1 := c1.hits; have hh2 := c2.hits; have hh3 := c3.hits
    refine ⟨⟨?_, by simp, by simp, by rw [c3.sched, c2.sched, c1.sched], by omega, by omega, c3.wf⟩, by omega, by omega⟩
    intro i
    rw [c3.live, c2.live, c1.live]
    have a1 := disj i
    simp only [strListOwned, Option.toList, List.mem_cons, List.mem_append, List.not_mem_nil, or_false] at *
    generalize listOwned StrElt.owned e.strstbl = L at *
    generalize ownedBufOpt e.output = O at *
    clear c1 c2 c3 own own' ownL ownO ownL1 disj
    grind

/-- Steps that keep the encoder struct and its string table and only touch the output buffer. -/
def EncStep (e : AEnc) (s : Ledger) (e' : AEnc) (s' : Ledger) : Prop :=
  e'.hdr = e.hdr ∧ Clean s s' e.owned e'.owned ∧ (∀ o, e'.output = some o → o.ok) ∧ e'.useStrtbl = e.useStrtbl

theorem encInitOutput_spec (e : AEnc) (s : Ledger) (wf : s.WF) (own : Owns s e.owned)
    (hok : ∀ o, e.output = some o → o.ok) :
    Good (encInitOutput e) s (fun r s' =>
      EncStep e s r.1 s' ∧ r.1.strstbl = e.strstbl ∧ r.1.strstblLen = e.strstblLen ∧
      (s.hits < s'.hits → r.2 = false) ∧ (r.2 = true → r.1.output.isSome)) := by
  have hl : e.hdr ∈ s.live := own.2 _ (by simp [AEnc.owned])
  unfold encInitOutput
  simp only [bind_eq, pure_eq]
  refine Good.bind (deref_spec e.hdr s hl) ?_
  intro _ s0 e0; subst e0
  cases ho : e.output with
  | some o =>
    simp only [Option.isSome_some, if_true, good_ret]
    exact ⟨⟨by simp, Clean.id wf own, hok, by simp⟩, by simp, by simp, by omega, by simp [ho]⟩
  | none =>
    simp only [Option.isSome_none, Bool.false_eq_true, if_false]
    refine Good.bind (bufCreate_spec (some []) DOC_BLOCK s0 wf) ?_
    intro b s1 ⟨c1, h1, _, ok1⟩
    cases b with
    | none =>
      simp only [good_ret]
      refine ⟨⟨by simp, ?_, hok, by simp⟩, by simp, by simp, by simp, by simp⟩
      refine ⟨?_, fun i hi => Or.inl hi, own.1, c1.sched, c1.next, c1.hits, c1.wf⟩
      intro i; rw [c1.live]; have := own.2 i; simp only [ownedBufOpt]; grind
    | some b =>
      simp only [good_ret]
      have hfb : ∀ i ∈ b.owned, s0.next < i ∧ i ≤ s1.next := by
        intro i hi; have := c1.fresh i (by simpa [ownedBufOpt] using hi); simpa using this
      have hold : ∀ i ∈ e.owned, i ≤ s0.next := fun i hi => wf i (own.2 i hi)
      have eo : ∀ i, i ∈ ({ e with output := some b } : AEnc).owned ↔ i ∈ e.owned ∨ i ∈ b.owned := by
        intro i
        simp only [AEnc.owned_eq, ho, ownedBufOpt, List.mem_cons, List.mem_append, List.append_nil]
        grind
      refine ⟨⟨by simp, ⟨?_, ?_, ?_, c1.sched, c1.next, c1.hits, c1.wf⟩, ?_, by simp⟩, by simp, by simp, ?_, by simp⟩
      · intro i; rw [c1.live, eo]
        have a1 := own.2 i; have a2 := hfb i; have a3 := hold i
        simp only [ownedBufOpt, List.not_mem_nil, not_false_eq_true, and_true]
        clear c1 eo hfb hold own hok
        grind
      · intro i hi
        rcases (eo i).1 hi with h | h
        · exact Or.inl h
        · exact Or.inr (hfb i h)
      · have hn := own.1
        have hb : b.owned.Nodup := by simpa [ownedBufOpt] using c1.nodup
        simp only [AEnc.owned_eq, ho, ownedBufOpt, List.append_nil, strListOwned] at hn hold ⊢
        simp only [List.nodup_cons, List.nodup_append, List.mem_append, List.mem_cons] at hn hold ⊢
        generalize listOwned StrElt.owned e.strstbl = L at *
        clear c1 eo own hok
        grind
      · intro o ho'; cases ho'; exact ok1 b rfl
      · intro hh; have := h1 hh; simp at this

/-- Replacing the output buffer by its grown version. -/
theorem enc_output_step {e : AEnc} {out out' : ABuf} {s s' : Ledger} (wf : s.WF) (ho : e.output = some out)
    (own : Owns s e.owned) (c : Clean s s' out.owned out'.owned) :
    Clean s s' e.owned ({ e with output := some out' } : AEnc).owned := by
  have hold : ∀ i ∈ e.owned, i ≤ s.next := fun i hi => wf i (own.2 i hi)
  have hn := own.1
  simp only [AEnc.owned_eq, ho, ownedBufOpt, strListOwned] at own hold hn ⊢
  generalize listOwned StrElt.owned e.strstbl = L at *
  refine ⟨?_, ?_, ?_, c.sched, c.next, c.hits, c.wf⟩
  · intro i
    rw [c.live]
    have a1 := own.2 i; have a2 := c.fresh i; have a3 := hold i
    simp only [List.nodup_cons, List.nodup_append, List.mem_append, List.mem_cons] at *
    clear c own hold
    grind
  · intro i hi
    have a2 := c.fresh i
    simp only [List.mem_append, List.mem_cons] at *
    grind
  · have hb := c.nodup
    have a2 := c.fresh
    simp only [List.nodup_cons, List.nodup_append, List.mem_append, List.mem_cons] at *
    clear c own
    grind

theorem encodeBody_spec (chunks : List Bytes) (e : AEnc) (s : Ledger) (wf : s.WF) (own : Owns s e.owned)
    (hout : ∃ o, e.output = some o ∧ o.ok) :
    Good (encodeBody e chunks) s (fun r s' =>
      EncStep e s r.1 s' ∧ r.1.strstbl = e.strstbl ∧ r.1.strstblLen = e.strstblLen ∧ r.1.output.isSome ∧
      (s.hits < s'.hits → r.2 ≠ OK) ∧
      (∀ i, i ∈ s.live → i ∉ ownedBufOpt e.output → i ∈ s'.live ∧ i ∉ ownedBufOpt r.1.output)) := by
  induction chunks generalizing e s with
  | nil =>
    obtain ⟨o, ho, hk⟩ := hout
    simp only [encodeBody, pure_eq, good_ret]
    exact ⟨⟨by simp, Clean.id wf own, fun o' ho' => by rw [ho] at ho'; cases ho'; exact hk, by simp⟩, by simp, by simp, by simp [ho], by simp,
      fun i hi hn => ⟨hi, hn⟩⟩
  | cons chunk rest ih =>
    obtain ⟨o, ho, hk⟩ := hout
    unfold encodeBody
    simp only [ho, bind_eq, pure_eq]
    have ownO : Owns s o.owned := by
      refine ⟨?_, fun i hi => own.2 i ?_⟩
      · have := own.1
        simp only [AEnc.owned_eq, ho, ownedBufOpt, List.nodup_cons, List.nodup_append] at this
        exact this.2.2.1
      · simp only [AEnc.owned_eq, ho, ownedBufOpt, List.mem_cons, List.mem_append]; exact Or.inr (Or.inr hi)
    refine Good.bind (bufAppendData_spec o (some chunk) s wf ownO hk) ?_
    intro r s1 hr
    obtain ⟨o1, ok⟩ := r
    obtain ⟨eh, es, c1, h1, k1⟩ := hr
    simp only at eh es c1 h1 k1 ⊢
    have cE := enc_output_step wf ho own c1
    have hkeep1 : ∀ i, i ∈ s.live → i ∉ o.owned → i ∈ s1.live ∧ i ∉ o1.owned := by
      intro i hi hn
      refine ⟨(c1.live i).2 (Or.inl ⟨hi, hn⟩), ?_⟩
      intro hm
      rcases c1.fresh i hm with h | h
      · exact hn h
      · have := wf i hi; omega
    cases ok with
    | false =>
      simp only [Bool.not_false, if_true, good_ret]
      exact ⟨⟨by simp, cE, fun o' ho' => by cases ho'; exact k1 hk, by simp⟩, by simp, by simp, by simp, by simp [EAPPEND, OK],
        fun i hi hn => by simpa [ownedBufOpt] using hkeep1 i hi (by simpa [ho, ownedBufOpt] using hn)⟩
    | true =>
      simp only [Bool.not_true, Bool.false_eq_true, if_false]
      have own1 : Owns s1 ({ e with output := some o1 } : AEnc).owned := cE.owns
      refine (ih { e with output := some o1 } s1 c1.wf own1 ⟨o1, rfl, k1 hk⟩).mono ?_
      intro r s2 ⟨⟨e1, c2, k2, u2⟩, e2, e3, e4, h2, kp2⟩
      refine ⟨⟨by simpa using e1, Clean.trans_recycle wf cE c2, k2, by simpa using u2⟩, by simpa using e2, by simpa using e3, e4, ?_, ?_⟩
      · intro hh
        by_cases hA : s1.hits < s2.hits
        · exact h2 hA
        · exfalso
          have b1 := h1; simp at b1
          have := c1.hits; have := c2.hits
          omega
      · intro i hi hn
        have ⟨a, b⟩ := hkeep1 i hi (by simpa [ho, ownedBufOpt] using hn)
        exact kp2 i a (by simpa [ownedBufOpt] using b)

/-- The buffer mutators of the header, without the report of the failure (`BufStep` minus `hits`). -/
def BufKeep (b : ABuf) (s : Ledger) (b' : ABuf) (s' : Ledger) : Prop :=
  b'.hdr = b.hdr ∧ b'.isStatic = b.isStatic ∧ Clean s s' b.owned b'.owned ∧ (b.ok → b'.ok)

theorem BufStep.keep {b : ABuf} {s s' : Ledger} {r : ABuf × Bool} (h : BufStep b s r s') : BufKeep b s r.1 s' :=
  ⟨h.1, h.2.1, h.2.2.1, h.2.2.2.2⟩

theorem BufKeep.trans {b b1 b2 : ABuf} {s s1 s2 : Ledger} (wf : s.WF) (h1 : BufKeep b s b1 s1) (h2 : BufKeep b1 s1 b2 s2) :
    BufKeep b s b2 s2 :=
  ⟨h2.1.trans h1.1, h2.2.1.trans h1.2.1, Clean.trans_recycle wf h1.2.2.1 h2.2.2.1, fun hk => h2.2.2.2 (h1.2.2.2 hk)⟩

theorem strtblConstruct_spec (elts : List StrElt) (h : ABuf) (s : Ledger) (wf : s.WF) (own : Owns s h.owned) (hok : h.ok)
    (hstr : ∀ x ∈ elts, x.string.hdr ∈ s.live ∧ x.string.hdr ∉ h.owned) :
    Good (strtblConstruct h elts) s (fun r s' => BufKeep h s r.1 s' ∧ (s.hits < s'.hits → r.2 ≠ OK)) := by
  induction elts generalizing h s with
  | nil =>
    simp only [strtblConstruct, pure_eq, good_ret]
    exact ⟨⟨rfl, rfl, Clean.id wf own, id⟩, by simp⟩
  | cons elt rest ih =>
    unfold strtblConstruct
    simp only [bind_eq, pure_eq]
    refine Good.bind (bufAppend_spec h (some elt.string) s wf own hok (fun x hx => by cases hx; exact (hstr elt (by simp)).1)) ?_
    intro r s1 hr
    obtain ⟨h1, ok1⟩ := r
    have k1 := hr.keep
    obtain ⟨_, _, c1, hh1, _⟩ := hr
    simp only at k1 c1 hh1 ⊢
    cases ok1 with
    | false => simp only [Bool.not_false, if_true, good_ret]; exact ⟨k1, by simp [EAPPEND, OK]⟩
    | true =>
      simp only [Bool.not_true, Bool.false_eq_true, if_false]
      have own1 : Owns s1 h1.owned := c1.owns
      refine Good.bind (bufAppendChar_spec h1 0 s1 c1.wf own1 (k1.2.2.2 hok)) ?_
      intro r2 s2 hr2
      obtain ⟨h2, ok2⟩ := r2
      have k2 := hr2.keep
      obtain ⟨_, _, c2, hh2, _⟩ := hr2
      simp only at k2 c2 hh2 ⊢
      have k12 := BufKeep.trans wf k1 k2
      cases ok2 with
      | false => simp only [Bool.not_false, if_true, good_ret]; exact ⟨k12, by simp [EAPPEND, OK]⟩
      | true =>
        simp only [Bool.not_true, Bool.false_eq_true, if_false]
        have own2 : Owns s2 h2.owned := c2.owns
        have hstr2 : ∀ x ∈ rest, x.string.hdr ∈ s2.live ∧ x.string.hdr ∉ h2.owned := by
          intro x hx
          obtain ⟨hl, hn⟩ := hstr x (List.mem_cons_of_mem _ hx)
          have hle := wf _ hl
          have hn2 : x.string.hdr ∉ h2.owned := by
            intro hm
            rcases k12.2.2.1.fresh _ hm with h | h
            · exact hn h
            · omega
          exact ⟨(k12.2.2.1.live _).2 (Or.inl ⟨hl, hn⟩), hn2⟩
        refine (ih h2 s2 c2.wf own2 (k12.2.2.2 hok) hstr2).mono ?_
        intro r3 s3 ⟨k3, hh3⟩
        refine ⟨BufKeep.trans wf k12 k3, ?_⟩
        intro hh
        by_cases hA : s2.hits < s3.hits
        · exact hh3 hA
        · exfalso
          have b1 := hh1; have b2 := hh2; simp at b1 b2
          have := c1.hits; have := c2.hits; have := k3.2.2.1.hits
          omega

theorem BufKeep.pres {h h' : ABuf} {s s' : Ledger} (wf : s.WF) (k : BufKeep h s h' s') {x : Nat}
    (hl : x ∈ s.live) (hn : x ∉ h.owned) : x ∈ s'.live ∧ x ∉ h'.owned := by
  have hle := wf _ hl
  have hn2 : x ∉ h'.owned := by
    intro hm
    rcases k.2.2.1.fresh _ hm with h | h
    · exact hn h
    · omega
  exact ⟨(k.2.2.1.live _).2 (Or.inl ⟨hl, hn⟩), hn2⟩

/-- One `wbxml_buffer_append_*` of the header followed by `if (!ok) return EAPPEND`. -/
theorem header_step (h : ABuf) (s : Ledger) (wf : s.WF) (own : Owns s h.owned) (hok : h.ok)
    (p : Prog (ABuf × Bool)) (hp : Good p s (BufStep h s))
    (k : ABuf × Bool → Prog (ABuf × Nat)) (Q : ABuf × Nat → Ledger → Prop)
    (hfail : ∀ h1 s1, BufKeep h s h1 s1 → Q (h1, EAPPEND) s1)
    (hnext : ∀ h1 s1, BufKeep h s h1 s1 → s1.hits = s.hits → Good (k (h1, true)) s1 Q) :
    Good (Prog.bind p (fun r => if (!r.2) = true then Prog.ret (r.1, EAPPEND) else k r)) s Q := by
  refine Good.bind hp ?_
  intro r s1 hr
  obtain ⟨h1, ok⟩ := r
  have k1 := hr.keep
  obtain ⟨_, _, c1, hh1, _⟩ := hr
  cases ok with
  | false => simp only [Bool.not_false, if_true, good_ret]; exact hfail h1 s1 k1
  | true =>
    simp only [Bool.not_true, Bool.false_eq_true, if_false]
    refine hnext h1 s1 k1 ?_
    have b1 := hh1; simp at b1
    have := c1.hits; omega

theorem fillHeader_spec (e : AEnc) (h : ABuf) (version publicId : Nat) (s : Ledger) (wf : s.WF)
    (own : Owns s h.owned) (hok : h.ok)
    (hstr : ∀ l, e.strstbl = some l → ∀ x ∈ l.items, x.string.hdr ∈ s.live ∧ x.string.hdr ∉ h.owned) :
    Good (fillHeader e h version publicId) s (fun r s' => BufKeep h s r.1 s' ∧ (s.hits < s'.hits → r.2 ≠ OK)) := by
  unfold fillHeader
  simp only [bind_eq, pure_eq]
  refine header_step h s wf own hok _ (bufAppendChar_spec h _ s wf own hok) _ _ ?_ ?_
  · intro h1 s1 k1; exact ⟨k1, by simp [EAPPEND, OK]⟩
  · intro h1 s1 k1 e1
    simp only
    have own1 : Owns s1 h1.owned := k1.2.2.1.owns
    have wf1 := k1.2.2.1.wf
    refine header_step h1 s1 wf1 own1 (k1.2.2.2 hok) _ (bufAppendData_spec h1 _ s1 wf1 own1 (k1.2.2.2 hok)) _ _ ?_ ?_
    · intro h2 s2 k2; exact ⟨BufKeep.trans wf k1 k2, by simp [EAPPEND, OK]⟩
    · intro h2 s2 k2 e2
      simp only
      have k12 := BufKeep.trans wf k1 k2
      have own2 : Owns s2 h2.owned := k2.2.2.1.owns
      have wf2 := k2.2.2.1.wf
      have hstep3 : Good (if (version != 0) = true then bufAppendData h2 (some (mbOctets CHARSET_UTF8)) else Prog.ret (h2, true)) s2 (BufStep h2 s2) := by
        by_cases hv : (version != 0) = true
        · simp only [hv, if_true]; exact bufAppendData_spec h2 _ s2 wf2 own2 (k12.2.2.2 hok)
        · simp only [hv, Bool.false_eq_true, if_false, good_ret]; exact BufStep.same wf2 own2 true
      refine header_step h2 s2 wf2 own2 (k12.2.2.2 hok) _ hstep3 _ _ ?_ ?_
      · intro h3 s3 k3; exact ⟨BufKeep.trans wf k12 k3, by simp [EAPPEND, OK]⟩
      · intro h3 s3 k3 e3
        simp only
        have k13 := BufKeep.trans wf k12 k3
        have own3 : Owns s3 h3.owned := k3.2.2.1.owns
        have wf3 := k3.2.2.1.wf
        refine header_step h3 s3 wf3 own3 (k13.2.2.2 hok) _ (bufAppendData_spec h3 _ s3 wf3 own3 (k13.2.2.2 hok)) _ _ ?_ ?_
        · intro h4 s4 k4; exact ⟨BufKeep.trans wf k13 k4, by simp [EAPPEND, OK]⟩
        · intro h4 s4 k4 e4
          simp only
          have k14 := BufKeep.trans wf k13 k4
          have own4 : Owns s4 h4.owned := k4.2.2.1.owns
          have wf4 := k4.2.2.1.wf
          by_cases hu : e.useStrtbl = true
          · simp only [hu, if_true]
            cases hl : e.strstbl with
            | none => simp only [good_ret]; exact ⟨k14, fun hh => by omega⟩
            | some l =>
              simp only
              have hstr4 : ∀ x ∈ l.items, x.string.hdr ∈ s4.live ∧ x.string.hdr ∉ h4.owned := by
                intro x hx
                obtain ⟨a, b⟩ := hstr l hl x hx
                exact k14.pres wf a b
              refine (strtblConstruct_spec l.items h4 s4 wf4 own4 (k14.2.2.2 hok) hstr4).mono ?_
              intro r s5 ⟨k5, hh5⟩
              refine ⟨BufKeep.trans wf k14 k5, ?_⟩
              intro hh
              exact hh5 (by omega)
          · simp only [hu, Bool.false_eq_true, if_false, good_ret]
            exact ⟨k14, fun hh => by omega⟩

def ownedResult : Option (Nat × Bytes) → List Nat
  | none => []
  | some r => [r.1]

/-- `wbxml_build_result`: the encoder is only read; the header buffer never outlives the call; the
    result block is the only thing produced, and only with `WBXML_OK`. -/
theorem buildResult_spec (e : AEnc) (version publicId : Nat) (s : Ledger) (wf : s.WF) (hl : e.hdr ∈ s.live)
    (hout : ∀ o, e.output = some o → o.hdr ∈ s.live ∧ o.ok)
    (hstr : ∀ l, e.strstbl = some l → ∀ x ∈ l.items, x.string.hdr ∈ s.live) :
    Good (buildResult e version publicId) s (fun r s' =>
      Clean s s' [] (ownedResult r.2) ∧ (r.1 ≠ OK → r.2 = none) ∧ (s.hits < s'.hits → r.1 ≠ OK)) := by
  unfold buildResult
  simp only [bind_eq, pure_eq]
  refine Good.bind (deref_spec e.hdr s hl) ?_
  intro _ s0 e0; subst e0
  refine Good.bind (bufCreate_spec (some []) HEADER_BLOCK s0 wf) ?_
  intro header s1 ⟨c1, h1, _, ok1⟩
  have hn1 := c1.next; have hh1 := c1.hits
  cases header with
  | none => simp only [good_ret, ownedResult]; exact ⟨by simpa [ownedBufOpt] using c1, by simp, by simp [ENOMEM, OK]⟩
  | some header =>
    simp only
    have hh1' : ¬ s0.hits < s1.hits := by intro hh; have := h1 hh; simp at this
    have own1 : Owns s1 header.owned := by simpa [ownedBufOpt] using c1.owns
    have hfH : ∀ i ∈ header.owned, s0.next < i ∧ i ≤ s1.next := by
      intro i hi; have := c1.fresh i (by simpa [ownedBufOpt] using hi); simpa using this
    have hstr1 : ∀ l, e.strstbl = some l → ∀ x ∈ l.items, x.string.hdr ∈ s1.live ∧ x.string.hdr ∉ header.owned := by
      intro l hl' x hx
      have hx0 := hstr l hl' x hx
      refine ⟨(c1.live _).2 (Or.inl ⟨hx0, by simp⟩), ?_⟩
      intro hm; have := hfH _ hm; have := wf _ hx0; omega
    refine Good.bind (fillHeader_spec e header version publicId s1 c1.wf own1 (ok1 header rfl) hstr1) ?_
    intro r2 s2 ⟨k2, h2⟩
    obtain ⟨header2, ret⟩ := r2
    simp only at k2 h2 ⊢
    obtain ⟨_, _, c2, okk2⟩ := k2
    have hn2 := c2.next; have hh2 := c2.hits
    have own2 : Owns s2 header2.owned := c2.owns
    -- the header's blocks are all younger than everything live before the call
    have hfH2 : ∀ i ∈ header2.owned, s0.next < i ∧ i ≤ s2.next := by
      intro i hi
      rcases c2.fresh i hi with h | h
      · have := hfH i h; omega
      · omega
    -- destroying the header gives back exactly the state before the call (plus `extra`)
    have hdestroy : ∀ (s3 : Ledger) (extra : List Nat), s3.WF → Owns s3 header2.owned →
        (∀ i, i ∈ s3.live ↔ i ∈ s2.live ∨ i ∈ extra) → (∀ i ∈ extra, s2.next < i) →
        Good (bufDestroy (some header2)) s3 (fun _ s4 =>
          (∀ i, i ∈ s4.live ↔ i ∈ s0.live ∨ i ∈ extra) ∧ s4.sched = s3.sched ∧ s4.next = s3.next ∧ s4.hits = s3.hits ∧ s4.WF) := by
      intro s3 extra wf3 own3 hl3 hex
      refine (bufDestroy_spec (some header2) s3 wf3 (by simpa [ownedBufOpt] using own3)).mono ?_
      intro _ s4 ⟨c4, h4, n4⟩
      refine ⟨?_, c4.sched, n4, h4, c4.wf⟩
      intro i
      rw [c4.live, hl3, c2.live, c1.live]
      have a1 := hfH i; have a2 := hfH2 i; have a3 := wf i; have a4 := hex i
      simp only [ownedBufOpt, List.not_mem_nil, not_false_eq_true, and_true, or_false]
      clear c1 c2 c4 own1 own2 own3 hstr hstr1 hfH hfH2 hl3 hex
      grind
    by_cases hret : ret = OK
    · subst hret
      simp only [bne_self_eq_false, Bool.false_eq_true, if_false]
      refine Good.bind (malloc_spec s2 c2.wf) ?_
      intro r s3 ⟨c3, h3⟩
      have hn3 := c3.next; have hh3 := c3.hits
      have own3 : Owns s3 header2.owned := c3.keeps own2 (by simp)
      cases r with
      | none =>
        simp only
        refine Good.bind (hdestroy s3 [] c3.wf own3 (by intro i; rw [c3.live]; simp) (by simp)) ?_
        intro _ s4 ⟨l4, sc4, n4, hh4, wf4⟩
        simp only [good_ret, ownedResult]
        refine ⟨⟨by intro i; rw [l4]; simp, by simp, by simp, by rw [sc4, c3.sched, c2.sched, c1.sched], by omega, by omega, wf4⟩, by simp, by simp [ENOMEM, OK]⟩
      | some r =>
        simp only
        have hfr : s2.next < r ∧ r ≤ s3.next := by have := c3.fresh r (by simp); simpa using this
        have hhl3 : header2.hdr ∈ s3.live := own3.2 _ (by simp [ABuf.owned])
        refine Good.bind (bufCstr_spec header2 s3 hhl3) ?_
        intro hb s3' ⟨e3', hbs⟩; have e3'' := e3'.symm; subst e3''
        have hob : Good (match e.output with | none => Prog.ret (some ([] : Bytes)) | some o => bufCstr o) s3
            (fun r s' => s' = s3 ∧ r.isSome) := by
          cases ho : e.output with
          | none => simp [good_ret]
          | some o =>
            obtain ⟨hol, hok⟩ := hout o ho
            have : o.hdr ∈ s3.live := by
              refine (c3.live _).2 (Or.inl ⟨(c2.live _).2 (Or.inl ⟨(c1.live _).2 (Or.inl ⟨hol, by simp⟩), ?_⟩), by simp⟩)
              intro hm; have := hfH _ hm; have := wf _ hol; omega
            exact (bufCstr_spec o s3 this).mono fun r s' ⟨a, b⟩ => ⟨a, b hok⟩
        refine Good.bind hob ?_
        intro ob s3' ⟨e3', hobs⟩; have e3'' := e3'.symm; subst e3''
        refine Good.bind (hdestroy s3 [r] c3.wf own3 (by intro i; rw [c3.live]; simp) (by intro i hi; simp at hi; omega)) ?_
        intro _ s4 ⟨l4, sc4, n4, hh4, wf4⟩
        have hbs' := hbs (okk2 (ok1 header rfl))
        obtain ⟨hbv, hhb⟩ : ∃ v, hb = some v := by cases hb <;> simp_all
        obtain ⟨obv, hob'⟩ : ∃ v, ob = some v := by cases ob <;> simp_all
        subst hhb; subst hob'
        simp only [good_ret, ownedResult]
        refine ⟨⟨by intro i; rw [l4]; simp, ?_, by simp, by rw [sc4, c3.sched, c2.sched, c1.sched], by omega, by omega, wf4⟩, by simp, ?_⟩
        · intro i hi; simp at hi; subst hi; exact Or.inr ⟨by omega, by omega⟩
        · intro hh
          exfalso
          have b2 := h2; have b3 := h3
          simp at b2 b3
          omega
    · have hb : (ret != OK) = true := by simpa using hret
      simp only [hb, if_true]
      refine Good.bind (hdestroy s2 [] c2.wf own2 (by simp) (by simp)) ?_
      intro _ s4 ⟨l4, sc4, n4, hh4, wf4⟩
      simp only [good_ret, ownedResult]
      exact ⟨⟨by intro i; rw [l4]; simp, by simp, by simp, by rw [sc4, c2.sched, c1.sched], by omega, by omega, wf4⟩, by simp, fun _ => hret⟩

/-! ### String table -/

theorem strtblAddElement_spec (e : AEnc) (elt : StrElt) (s : Ledger) (wf : s.WF) (own : Owns s (e.owned ++ elt.owned)) :
    Good (strtblAddElement e elt) s (fun r s' =>
      r.1.hdr = e.hdr ∧ r.1.output = e.output ∧ r.1.useStrtbl = e.useStrtbl ∧
      Clean s s' (e.owned ++ elt.owned) (r.1.owned ++ (if r.2.2 then [] else elt.owned)) ∧
      (s.hits < s'.hits → r.2.1 = false) ∧ (r.2.2 = true → r.2.1 = true) ∧
      (∀ l', r.1.strstbl = some l' → ∀ x ∈ l'.items,
        (∃ l, e.strstbl = some l ∧ x ∈ l.items) ∨ (x.stat = elt.stat ∧ x.string = elt.string))) := by
  obtain ⟨ownE, ownX, disj⟩ := Owns.append_iff.1 own
  have hl : e.hdr ∈ s.live := ownE.2 _ (by simp [AEnc.owned])
  unfold strtblAddElement
  simp only [bind_eq, pure_eq]
  refine Good.bind (deref_spec e.hdr s hl) ?_
  intro _ s0 e0; subst e0
  have hsame : ∀ s1 : Ledger, Clean s0 s1 [] [] →
      Clean s0 s1 (e.owned ++ elt.owned) (e.owned ++ (if false = true then [] else elt.owned)) := by
    intro s1 c1
    have cid := Clean.id wf own
    simp only [Bool.false_eq_true, if_false]
    refine ⟨?_, fun i hi => Or.inl hi, cid.nodup, c1.sched, c1.next, c1.hits, c1.wf⟩
    intro i; rw [c1.live]; have := cid.live i; grind
  cases hs : e.strstbl with
  | none => simp only [good_ret]; exact ⟨by simp, by simp, by simp, hsame s0 (Clean.rfl wf), by simp, by simp, by simp [hs]⟩
  | some l =>
    simp only
    split
    · simp only [good_ret]; exact ⟨by simp, by simp, by simp, hsame s0 (Clean.rfl wf), by simp, by simp, fun l' hl' x hx => Or.inl ⟨l', by rw [← hl', hs], hx⟩⟩
    · have hll : l.hdr ∈ s0.live := ownE.2 _ (by simp [AEnc.owned_eq, hs, strListOwned, listOwned])
      refine Good.bind (listAppend_spec l { elt with offset := e.strstblLen } s0 wf hll) ?_
      intro r s1 ⟨eh, h1, hcase⟩
      obtain ⟨l1, ok⟩ := r
      simp only at eh h1 hcase ⊢
      rcases hcase with ⟨hok, hl1, c1⟩ | ⟨hok, cid, hcells, c1⟩
      · subst hok
        simp only [Bool.not_false, if_true, good_ret]
        exact ⟨by simp, by simp, by simp, hsame s1 c1, by simp, by simp, fun l' hl' x hx => Or.inl ⟨l', by rw [← hl', hs], hx⟩⟩
      · subst hok
        simp only [Bool.not_true, Bool.false_eq_true, if_false, good_ret, if_true, List.append_nil]
        have hfc : s0.next < cid ∧ cid ≤ s1.next := by have := c1.fresh cid (by simp); simpa using this
        have hold : ∀ i ∈ e.owned ++ elt.owned, i ≤ s0.next := fun i hi => wf i (own.2 i hi)
        have eX : ({ elt with offset := e.strstblLen } : StrElt).owned = elt.owned := rfl
        have eo : ∀ i, i ∈ ({ e with strstbl := some l1, strstblLen := e.strstblLen + ({ elt with offset := e.strstblLen } : StrElt).string.len + 1 } : AEnc).owned ↔
            i ∈ e.owned ∨ i = cid ∨ i ∈ elt.owned := by
          intro i
          simp only [AEnc.owned_eq, hs, strListOwned, listOwned, eh, hcells, cellsOwned_append, List.mem_cons, List.mem_append]
          simp only [cellsOwned, List.flatMap_cons, List.flatMap_nil, List.append_nil, List.mem_cons, eX]
          grind
        refine ⟨by simp, by simp, by simp, ⟨?_, ?_, ?_, c1.sched, c1.next, c1.hits, c1.wf⟩, ?_, by simp, ?_⟩
        rotate_right
        · intro l' hl' x hx
          simp only [Option.some.injEq] at hl'
          subst hl'
          simp only [AList.items, hcells, List.map_append, List.map_cons, List.map_nil, List.mem_append, List.mem_singleton] at hx
          rcases hx with hx | hx
          · exact Or.inl ⟨l, rfl, by simpa [AList.items] using hx⟩
          · subst hx; exact Or.inr ⟨rfl, rfl⟩
        · intro i
          rw [c1.live, eo]
          have a1 := own.2 i; have a2 := hold i
          simp only [List.mem_append, List.mem_singleton, List.not_mem_nil, not_false_eq_true, and_true] at *
          clear c1 eo own ownE ownX hold hsame
          grind
        · intro i hi
          rcases (eo i).1 hi with h | h | h
          · exact Or.inl (List.mem_append_left _ h)
          · subst h; exact Or.inr hfc
          · exact Or.inl (List.mem_append_right _ h)
        · have hn := own.1
          simp only [AEnc.owned_eq, hs, strListOwned, listOwned, eh, hcells, cellsOwned_append] at hn hold ⊢
          simp only [cellsOwned, List.flatMap_cons, List.flatMap_nil, List.append_nil, eX] at hn hold ⊢
          simp only [List.nodup_cons, List.nodup_append, List.mem_append, List.mem_cons] at hn hold ⊢
          clear c1 eo own ownE ownX hsame disj
          grind
        · intro hh; have := h1 hh; simp at this

/-- What the items of `strings` own: nothing when the buffers are borrowed from the tree. -/
def strOi (stat : Bool) (b : ABuf) : List Nat := if stat then [] else b.owned

theorem string_destroys (stat : Bool) : Destroys (strOi stat) (destroyString stat) := by
  intro b s wf own
  unfold destroyString
  cases stat with
  | true => simp only [if_true, pure_eq, good_ret, strOi]; exact ⟨Clean.rfl wf, by simp, by simp⟩
  | false =>
    simp only [Bool.false_eq_true, if_false, strOi] at own ⊢
    exact bufDestroy_spec (some b) s wf (by simpa [ownedBufOpt] using own)

end Wbxml.Model.Alloc
