/-
  Lemmas for the SI/EMN %Datetime codec (C12): the digit/BCD tables are finite (10 digits, 100 two-digit
  numbers) and checked exhaustively; everything about dates is derived from them symbolically.
-/
import Wbxml.Model.Typed.Datetime
import Wbxml.Spec.Calendar
namespace Wbxml.Lemmas.Typed
open Wbxml Wbxml.Model.Typed Wbxml.Spec.Calendar

/-! ### digits -/

theorem dig_congr {a b : Nat} (h : a % 10 = b % 10) : dig a = dig b := by
  unfold dig; rw [h]

theorem isDigit_dig_tbl : ∀ k, k < 10 → isDigit (UInt8.ofNat (48 + k)) = true := by decide

theorem isDigit_dig (n : Nat) : isDigit (dig n) = true :=
  isDigit_dig_tbl (n % 10) (Nat.mod_lt _ (by decide))

theorem pair_tbl : ∀ x, x < 10 → ∀ y, y < 10 →
    nibble (UInt8.ofNat (48 + x)) * 16 ||| nibble (UInt8.ofNat (48 + y)) = UInt8.ofNat (16 * x + y) := by decide

/-- Two ASCII digits pack into one BCD octet. -/
theorem pair_bcd (a b : Nat) :
    nibble (dig a) * 16 ||| nibble (dig b) = UInt8.ofNat (16 * (a % 10) + b % 10) :=
  pair_tbl (a % 10) (Nat.mod_lt _ (by decide)) (b % 10) (Nat.mod_lt _ (by decide))

theorem hexPairs_d2 (n : Nat) (rest : Bytes) : hexPairs (d2 n ++ rest) = bcd n :: hexPairs rest := by
  simp only [d2, List.cons_append, List.nil_append, hexPairs, pair_bcd, bcd]

theorem bcd_zero_tbl : ∀ n, n < 100 → (bcd n == 0) = decide (n = 0) := by decide

theorem binToHex_bcd_tbl : ∀ n, n < 100 → binToHex [bcd n] = d2 n := by decide

theorem binToHex_cons (b : UInt8) (bs : Bytes) : binToHex (b :: bs) = binToHex [b] ++ binToHex bs := by
  simp [binToHex]

theorem binToHex_bcd (n : Nat) (h : n < 100) (rest : Bytes) :
    binToHex (bcd n :: rest) = d2 n ++ binToHex rest := by
  rw [binToHex_cons, binToHex_bcd_tbl n h]

/-! ### the year: two octets, four digits -/

theorem d4_eq (y : Nat) : d4 y = d2 (y / 100) ++ d2 (y % 100) := by
  simp only [d4, d2, List.cons_append, List.nil_append]
  have h1 : dig (y / 1000) = dig (y / 100 / 10) := dig_congr (by omega)
  have h2 : dig (y / 10) = dig (y % 100 / 10) := dig_congr (by omega)
  have h3 : dig y = dig (y % 100) := dig_congr (by omega)
  rw [h1, h2, h3]

/-! ### encoder -/

theorem sep_facts :
    isDigit 0x2D = false ∧ isDigit 0x54 = false ∧ isDigit 0x3A = false ∧ isDigit 0x5A = false := by decide

/-- The filter loop keeps exactly the fourteen digits of the canonical form. -/
theorem dtFilter_canon (d : DateTime) : dtFilter (canon d) = .ok (digits14 d) := by
  simp [canon, digits14, d4, d2, dtFilter, isDigit_dig, sep_facts, Except.map]

theorem hexPairs_digits14 (d : DateTime) : hexPairs (digits14 d) = bcd7 d := by
  unfold digits14 bcd7
  rw [d4_eq]
  simp only [List.append_assoc]
  rw [hexPairs_d2, hexPairs_d2, hexPairs_d2, hexPairs_d2, hexPairs_d2, hexPairs_d2]
  have : d2 d.second = d2 d.second ++ [] := by simp
  rw [this, hexPairs_d2]
  simp [hexPairs]

/-- Removing trailing zero octets keeps the first `keptOctets` octets: it stops at the latest at the day. -/
theorem stripZeros_bcd7 (d : DateTime) (h : d.Valid) :
    stripZeros (bcd7 d) = (bcd7 d).take (keptOctets d) := by
  obtain ⟨_, _, _, hd1, hd2, hh, hm, hs⟩ := h
  have hd31 := daysInMonth_le d.year d.month
  have zs := bcd_zero_tbl d.second (by omega)
  have zm := bcd_zero_tbl d.minute (by omega)
  have zh := bcd_zero_tbl d.hour (by omega)
  have zd := bcd_zero_tbl d.day (by omega)
  have hd0 : (bcd d.day == 0) = false := by rw [zd]; simp; omega
  unfold stripZeros bcd7 keptOctets
  by_cases s0 : d.second = 0
  · by_cases m0 : d.minute = 0
    · by_cases h0 : d.hour = 0
      · simp [s0, m0, h0, List.dropWhile, hd0, show (bcd 0 == 0) = true by decide]
      · have : (bcd d.hour == 0) = false := by rw [zh]; simp [h0]
        simp [s0, m0, h0, List.dropWhile, this, show (bcd 0 == 0) = true by decide]
    · have : (bcd d.minute == 0) = false := by rw [zm]; simp [m0]
      simp [s0, m0, List.dropWhile, this, show (bcd 0 == 0) = true by decide]
  · have : (bcd d.second == 0) = false := by rw [zs]; simp [s0]
    simp [s0, this]

/-- What `wbxml_encode_datetime` puts into the opaque for a canonical date-time. -/
theorem datetimePayload_canon (d : DateTime) (h : d.Valid) :
    datetimePayload (canon d) = .ok ((bcd7 d).take (keptOctets d)) := by
  simp [datetimePayload, dtFilter_canon, Except.map, hexPairs_digits14, stripZeros_bcd7 d h]

/-! ### parser -/

theorem decodeHex8 (a b c d e f g h : UInt8) :
    decodeHex [a, b, c, d, e, f, g, h] =
      .ok ([a, b, c, d, 0x2D, e, f, 0x2D, g, h, 0x54] ++ b!"00:00:00" ++ [0x5A]) := by rfl

theorem decodeHex10 (a b c d e f g h i j : UInt8) :
    decodeHex [a, b, c, d, e, f, g, h, i, j] =
      .ok ([a, b, c, d, 0x2D, e, f, 0x2D, g, h, 0x54, i, j] ++ b!":00:00" ++ [0x5A]) := by rfl

theorem decodeHex12 (a b c d e f g h i j k l : UInt8) :
    decodeHex [a, b, c, d, e, f, g, h, i, j, k, l] =
      .ok ([a, b, c, d, 0x2D, e, f, 0x2D, g, h, 0x54, i, j, 0x3A, k, l] ++ b!":00" ++ [0x5A]) := by rfl

theorem decodeHex14 (a b c d e f g h i j k l m n : UInt8) :
    decodeHex [a, b, c, d, e, f, g, h, i, j, k, l, m, n] =
      .ok [a, b, c, d, 0x2D, e, f, 0x2D, g, h, 0x54, i, j, 0x3A, k, l, 0x3A, m, n, 0x5A] := by rfl

theorem d2_zero : d2 0 = b!"00" := by decide
theorem dig_zero : dig 0 = 48 := by decide
theorem binToHex_nil : binToHex [] = [] := rfl

/-- Decoding the first `k` BCD octets (k = 4 … 7) gives the canonical form with the omitted fields zero. -/
theorem decodeDatetime_take (d : DateTime) (h : d.Valid) (k : Nat) (hk : 4 ≤ k ∧ k ≤ 7) :
    decodeDatetime ((bcd7 d).take k) = .ok (canon (truncTo d k)) := by
  obtain ⟨hy, _, hmo, _, hd2, hh, hm, hs⟩ := h
  have hd31 := daysInMonth_le d.year d.month
  have e1 := binToHex_bcd (d.year / 100) (by omega)
  have e2 := binToHex_bcd (d.year % 100) (by omega)
  have e3 := binToHex_bcd d.month (by omega)
  have e4 := binToHex_bcd d.day (by omega)
  have e5 := binToHex_bcd d.hour (by omega)
  have e6 := binToHex_bcd d.minute (by omega)
  have e7 := binToHex_bcd d.second (by omega)
  have hk' : k = 4 ∨ k = 5 ∨ k = 6 ∨ k = 7 := by omega
  unfold decodeDatetime bcd7 canon truncTo
  rw [d4_eq]
  rcases hk' with rfl | rfl | rfl | rfl
  · simp only [List.take, e1, e2, e3, e4, binToHex_nil, d2, List.cons_append, List.nil_append, decodeHex8]
    simp [dig_zero]
  · simp only [List.take, e1, e2, e3, e4, e5, binToHex_nil, d2, List.cons_append, List.nil_append, decodeHex10]
    simp [dig_zero]
  · simp only [List.take, e1, e2, e3, e4, e5, e6, binToHex_nil, d2, List.cons_append, List.nil_append, decodeHex12]
    simp [dig_zero]
  · simp only [List.take, e1, e2, e3, e4, e5, e6, e7, binToHex_nil, d2, List.cons_append, List.nil_append, decodeHex14]
    simp

theorem keptOctets_range (d : DateTime) : 4 ≤ keptOctets d ∧ keptOctets d ≤ 7 := by
  unfold keptOctets; repeat' split
  all_goals omega

/-- The omitted octets were zero: truncating to `keptOctets` does not change the date-time. -/
theorem truncTo_kept (d : DateTime) : truncTo d (keptOctets d) = d := by
  unfold truncTo keptOctets
  cases d with
  | mk y mo dd h m s =>
    simp only
    by_cases s0 : s = 0 <;> by_cases m0 : m = 0 <;> by_cases h0 : h = 0 <;> simp [s0, m0, h0]

end Wbxml.Lemmas.Typed
