/-
  Lemmas about the code-page reader of `Model/Flow.lean` (`tok`, `Reads`, `readGo`, `pagesAfter`).
-/
import Wbxml.Model.Flow
namespace Wbxml.Model.Flow
open Wbxml Wbxml.Model

/-! ## The helpers do not look beyond what they consume, and consume something -/

theorem skipMb_append (x y : Bytes) {r} (h : skipMb x = some r) : skipMb (x ++ y) = some (r ++ y) := by
  induction x with
  | nil => simp [skipMb] at h
  | cons b x ih =>
    simp only [skipMb, List.cons_append] at h ⊢
    split at h
    · rename_i hb; simp only [hb, if_true]; exact ih h
    · rename_i hb; simp only [hb, if_false]; cases h; rfl

theorem skipMb_length (x : Bytes) {r} (h : skipMb x = some r) : r.length < x.length := by
  induction x with
  | nil => simp [skipMb] at h
  | cons b x ih =>
    simp only [skipMb] at h
    split at h
    · have := ih h; simp only [List.length_cons]; omega
    · cases h; simp

theorem readMb_append (x y : Bytes) (acc : Nat) {n r} (h : readMb acc x = some (n, r)) :
    readMb acc (x ++ y) = some (n, r ++ y) := by
  induction x generalizing acc with
  | nil => simp [readMb] at h
  | cons b x ih =>
    simp only [readMb, List.cons_append] at h ⊢
    split at h
    · rename_i hb; simp only [hb, if_true]; exact ih _ h
    · rename_i hb; simp only [hb, if_false]; cases h; rfl

theorem readMb_length (x : Bytes) (acc : Nat) {n r} (h : readMb acc x = some (n, r)) : r.length < x.length := by
  induction x generalizing acc with
  | nil => simp [readMb] at h
  | cons b x ih =>
    simp only [readMb] at h
    split at h
    · have := ih _ h; simp only [List.length_cons]; omega
    · cases h; simp

theorem skipStr_append (x y : Bytes) {r} (h : skipStr x = some r) : skipStr (x ++ y) = some (r ++ y) := by
  induction x with
  | nil => simp [skipStr] at h
  | cons b x ih =>
    simp only [skipStr, List.cons_append] at h ⊢
    split at h
    · rename_i hb; simp only [hb, if_true]; cases h; rfl
    · rename_i hb; simp only [hb]; exact ih h

theorem skipStr_length (x : Bytes) {r} (h : skipStr x = some r) : r.length < x.length := by
  induction x with
  | nil => simp [skipStr] at h
  | cons b x ih =>
    simp only [skipStr] at h
    split at h
    · cases h; simp
    · have := ih h; simp only [List.length_cons]; omega

theorem skipN_append (n : Nat) (x y : Bytes) {r} (h : skipN n x = some r) : skipN n (x ++ y) = some (r ++ y) := by
  unfold skipN at h ⊢
  split at h
  · rename_i hn
    cases h
    have : n ≤ (x ++ y).length := by simp only [List.length_append]; omega
    simp only [this, if_true, List.drop_append_of_le_length hn]
  · cases h

theorem skipN_length (n : Nat) (x : Bytes) {r} (h : skipN n x = some r) : r.length ≤ x.length := by
  unfold skipN at h
  split at h
  · cases h; simp only [List.length_drop]; omega
  · cases h

/-- Reading one token does not look beyond it. -/
theorem tok_append (a : Bool) (p : Pages) (x y : Bytes) {a1 p1 rest}
    (h : tok a p x = some (a1, p1, rest)) : tok a p (x ++ y) = some (a1, p1, rest ++ y) := by
  cases x with
  | nil => simp [tok] at h
  | cons b r =>
    simp only [tok, List.cons_append] at h ⊢
    cases hk : tokKind a b.toNat with
    | switchPage =>
      simp only [hk] at h ⊢
      cases r with
      | nil => simp at h
      | cons pg r' => simp only [List.cons_append] at h ⊢; cases h; rfl
    | single a' => simp only [hk] at h ⊢; cases h; rfl
    | mb a' =>
      simp only [hk] at h ⊢
      cases hs : skipMb r with
      | none => simp [hs] at h
      | some r' => simp only [hs] at h; cases h; simp only [skipMb_append r y hs]
    | str =>
      simp only [hk] at h ⊢
      cases hs : skipStr r with
      | none => simp [hs] at h
      | some r' => simp only [hs] at h; cases h; simp only [skipStr_append r y hs]
    | opaq =>
      simp only [hk] at h ⊢
      cases hm : readMb 0 r with
      | none => simp [hm] at h
      | some nr =>
        obtain ⟨n, r'⟩ := nr
        simp only [hm] at h
        cases hs : skipN n r' with
        | none => simp [hs] at h
        | some r'' =>
          simp only [hs] at h; cases h
          simp only [readMb_append r y 0 hm, skipN_append n r' y hs]

/-- Every token consumes at least one byte. -/
theorem tok_length (a : Bool) (p : Pages) (x : Bytes) {a1 p1 rest}
    (h : tok a p x = some (a1, p1, rest)) : rest.length < x.length := by
  cases x with
  | nil => simp [tok] at h
  | cons b r =>
    simp only [tok] at h
    cases hk : tokKind a b.toNat with
    | switchPage =>
      simp only [hk] at h
      cases r with
      | nil => simp at h
      | cons pg r' => simp only at h; cases h; simp only [List.length_cons]; omega
    | single a' => simp only [hk] at h; cases h; simp
    | mb a' =>
      simp only [hk] at h
      cases hs : skipMb r with
      | none => simp [hs] at h
      | some r' =>
        simp only [hs] at h; cases h
        have := skipMb_length r hs; simp only [List.length_cons]; omega
    | str =>
      simp only [hk] at h
      cases hs : skipStr r with
      | none => simp [hs] at h
      | some r' =>
        simp only [hs] at h; cases h
        have := skipStr_length r hs; simp only [List.length_cons]; omega
    | opaq =>
      simp only [hk] at h
      cases hm : readMb 0 r with
      | none => simp [hm] at h
      | some nr =>
        obtain ⟨n, r'⟩ := nr
        simp only [hm] at h
        cases hs : skipN n r' with
        | none => simp [hs] at h
        | some r'' =>
          simp only [hs] at h; cases h
          have h1 := readMb_length r 0 hm
          have h2 := skipN_length n r' hs
          simp only [List.length_cons]; omega

/-! ## `Reads` -/

/-- Reading a concatenation: read the first part, go on from the space and pages reached. -/
theorem Reads.append {a p x a1 p1 y a2 p2} (h1 : Reads a p x a1 p1) (h2 : Reads a1 p1 y a2 p2) :
    Reads a p (x ++ y) a2 p2 := by
  induction h1 with
  | nil a p => simpa using h2
  | step ht _ ih => exact Reads.step (tok_append _ _ _ y ht) (ih h2)

/-- The reader is deterministic. -/
theorem Reads.det {a p x a1 p1 a2 p2} (h1 : Reads a p x a1 p1) (h2 : Reads a p x a2 p2) :
    a1 = a2 ∧ p1 = p2 := by
  induction h1 with
  | nil a p =>
    cases h2 with
    | nil => exact ⟨rfl, rfl⟩
    | step ht _ => simp [tok] at ht
  | step ht _ ih =>
    cases h2 with
    | nil => simp [tok] at ht
    | step ht' hr' =>
      rw [ht] at ht'
      cases ht'
      exact ih hr'

/-- The executable reader is sound … -/
theorem readGo_sound (f : Nat) (a : Bool) (p : Pages) (bs : Bytes) {a' p'}
    (h : readGo f a p bs = some (a', p')) : Reads a p bs a' p' := by
  induction f generalizing a p bs with
  | zero => simp [readGo] at h
  | succ f ih =>
    cases bs with
    | nil => simp only [readGo] at h; cases h; exact Reads.nil _ _
    | cons b r =>
      simp only [readGo] at h
      cases ht : tok a p (b :: r) with
      | none => simp [ht] at h
      | some v =>
        obtain ⟨a1, p1, rest⟩ := v
        simp only [ht] at h
        exact Reads.step ht (ih _ _ _ h)

/-- … and complete: `length + 1` units of fuel are enough. -/
theorem readGo_complete {a p bs a' p'} (h : Reads a p bs a' p') (f : Nat) (hf : bs.length < f) :
    readGo f a p bs = some (a', p') := by
  induction h generalizing f with
  | nil a p =>
    cases f with
    | zero => omega
    | succ f => rfl
  | @step a p bs a1 p1 rest a2 p2 ht _ ih =>
    cases f with
    | zero => omega
    | succ f =>
      cases bs with
      | nil => simp [tok] at ht
      | cons b r =>
        have hl := tok_length _ _ _ ht
        simp only [readGo, ht]
        exact ih f (by simp only [List.length_cons] at hl hf; omega)

/-- `pagesAfter` is the function the relation `Reads` (content space to content space) defines. -/
theorem pagesAfter_iff (p : Pages) (bs : Bytes) (p' : Pages) :
    pagesAfter p bs = some p' ↔ Reads false p bs false p' := by
  constructor
  · intro h
    unfold pagesAfter at h
    cases hg : readGo (bs.length + 1) false p bs with
    | none => simp [hg] at h
    | some v =>
      obtain ⟨a1, p1⟩ := v
      cases a1 with
      | true => simp [hg] at h
      | false => simp only [hg] at h; cases h; exact readGo_sound _ _ _ _ hg
  · intro h
    unfold pagesAfter
    rw [readGo_complete h (bs.length + 1) (Nat.lt_succ_self _)]

theorem pagesAfter_nil (p : Pages) : pagesAfter p [] = some p :=
  (pagesAfter_iff p [] p).2 (Reads.nil _ _)

theorem pagesAfter_append {p x p1 y p2} (h1 : pagesAfter p x = some p1) (h2 : pagesAfter p1 y = some p2) :
    pagesAfter p (x ++ y) = some p2 :=
  (pagesAfter_iff _ _ _).2 (((pagesAfter_iff _ _ _).1 h1).append ((pagesAfter_iff _ _ _).1 h2))

end Wbxml.Model.Flow
