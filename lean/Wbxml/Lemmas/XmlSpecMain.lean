/-
  The printer model `xmlNode` / `xmlNodes` (compact and canonical generation) against the specification
  reader: by induction on the printer's recursion, what it appends for a node satisfying `okNode` is a
  `Piece` that is read back as `vNode` (`piece_nodes`).
-/
import Wbxml.Lemmas.XmlSpecView
namespace Wbxml.Lemmas.XmlSpec
open Wbxml Wbxml.Model Wbxml.Spec Wbxml.Spec.Xml Wbxml.Lemmas.EncW Wbxml.Lemmas.XmlPrint Wbxml.Lemmas.XmlNs

theorem xmlText_view (c : XCfg) (s : Bytes) (st st' : XSt) (hcd : st.inCdata = false)
    (h : xmlText c s st = .ok st') :
    st'.out = st.out ++ xmlEscape (c.gen == 2) (vText c st.curTag s) ∧ st'.inCdata = false := by
  rw [xmlText_core] at h
  unfold xmlTextCore at h
  unfold vText
  simp only [hcd, Bool.not_false, Bool.true_and, Bool.false_eq_true, ↓reduceIte] at h ⊢
  by_cases h1 : ((!isBinaryTag st.curTag && c.gen != 2 && c.ignoreEmpty) && s.all isSpaceC) = true
  · simp only [h1, ↓reduceIte, Except.ok.injEq] at h
    subst h
    simp [h1, xmlEscape, hcd]
  · simp only [h1, Bool.false_eq_true, ↓reduceIte] at h ⊢
    by_cases hb : isBinaryTag st.curTag = true
    · simp only [hb, ↓reduceIte] at h ⊢
      generalize textStr c.lang.id st.curTag _ = s3 at h ⊢
      split at h
      · cases h
      · simp only [Except.ok.injEq] at h
        subst h
        simp [hcd]
    · simp only [hb, Bool.false_eq_true, ↓reduceIte, Except.ok.injEq] at h ⊢
      subst h
      simp [hcd]

theorem xmlText_incdata (c : XCfg) (s : Bytes) (st : XSt) (hcd : st.inCdata = true) :
    xmlText c s st = .ok { st with out := st.out ++ cdataText s, inContent := true } := by
  simp [xmlText, hcd]

theorem vAttrs_bytes (c : XCfg) (p : Parent) (name : Name) (attrs : List Attr) :
    (vAttrs c p name attrs).flatMap PAttr.bytes =
      nsDecl c p name ++ (if c.lang.attrs.isSome then attrs.flatMap (attrBytes (c.gen == 2)) else []) := by
  rw [nsDecl_eq]
  unfold vAttrs
  rw [List.flatMap_append]
  congr 1
  · cases declaredNs c p name <;> simp [declBytes, PAttr.bytes]
  · split
    · induction attrs with
      | nil => rfl
      | cons a r ih => simp [attrBytes, PAttr.bytes, List.flatMap_cons] at ih ⊢; exact ih
    · rfl

theorem vAttrs_ok (c : XCfg) (p : Parent) (name : Name) (attrs : List Attr) (h : attrsOk c p name attrs = true) :
    (∀ a ∈ vAttrs c p name attrs, a.ok) ∧ (∀ a ∈ vAttrs c p name attrs, xmlChars a.ev = true) ∧
    nodup ((vAttrs c p name attrs).map (·.name)) = true := by
  unfold attrsOk at h
  simp only [Bool.and_eq_true] at h
  obtain ⟨⟨h1, h2⟩, h3⟩ := h
  refine ⟨?_, ?_, h3⟩
  · intro a ha
    unfold vAttrs at ha
    rcases List.mem_append.mp ha with ha | ha
    · cases hd : declaredNs c p name with
      | none => simp [hd] at ha
      | some ns =>
        simp only [hd, List.mem_singleton] at ha
        subst ha
        simp only [hd, Bool.and_eq_true] at h1
        exact ⟨(by decide : isName b!"xmlns" = true), fun rest => areads_raw ns rest h1.1⟩
    · split at ha
      · rename_i hs
        simp only [hs, ↓reduceIte, List.all_eq_true, Bool.and_eq_true] at h2
        obtain ⟨x, hx, rfl⟩ := List.mem_map.mp ha
        exact ⟨(h2 x hx).1, fun rest => areads_escape _ _ rest⟩
      · cases ha
  · intro a ha
    unfold vAttrs at ha
    rcases List.mem_append.mp ha with ha | ha
    · cases hd : declaredNs c p name with
      | none => simp [hd] at ha
      | some ns =>
        simp only [hd, List.mem_singleton] at ha
        subst ha
        simp only [hd, Bool.and_eq_true] at h1
        exact h1.2
    · split at ha
      · rename_i hs
        simp only [hs, ↓reduceIte, List.all_eq_true, Bool.and_eq_true] at h2
        obtain ⟨x, hx, rfl⟩ := List.mem_map.mp ha
        exact xmlChars_escape _ _ (h2 x hx).2
      · cases ha


theorem Piece.congr {P : Bytes} {F G : List XItem → List XItem} (h : ∀ R, F R = G R) (hp : Piece P F) : Piece P G := by
  have : F = G := funext h
  rw [← this]; exact hp

/-- What an element node denotes. -/
def xelem (c : XCfg) (p : Parent) (name : Name) (attrs : List Attr) (kids : List Node) : XItem :=
  .elem name.xmlName ((vAttrs c p name attrs).map PAttr.view) (vNodes c (childScope p name) (tagOf name) kids [])

/-- NUL is not an XML character: what the printer wrote for a representable node has none, and the
    C-string copy of an embedded document's rendering is the whole rendering. -/
theorem xmlChars_noNul (P : Bytes) (h : xmlChars P = true) : noNul P = true := by
  revert h
  refine allCp_induct isChar (fun P => noNul P = true) rfl ?_ ?_ P
  · intro a r _ hp _ ih
    have ha : a ≠ 0 := by intro e; subst e; simp [isChar] at hp
    have : noNul (a :: r) = ((a != 0) && noNul r) := rfl
    rw [this, ih]; simp [ha]
  · intro ch c r _ hch _ _ _ _ ih
    rw [noNul_append, ih, Bool.and_true]
    simp only [noNul, List.all_eq_true, bne_iff_ne, ne_eq]
    intro b hb e
    subst e
    have := hch 0 hb
    simp at this

theorem cstrOf_of_noNul (P : Bytes) (h : noNul P = true) : cstrOf P = P := by
  have := cstrOf_append P []
  simpa [h, cstrOf_nil] using this

theorem piece_nodes : ∀ (f : Nat) (c : XCfg), (c.gen == 1) = false →
    (∀ (p : Parent) (n : Node) (st st' : XSt), st.inCdata = false → okNode c p st.curTag n = true →
      xmlNode c p f n st = .ok st' →
      st'.inCdata = false ∧ st'.curTag = none ∧ ∃ P, st'.out = st.out ++ P ∧ Piece P (vNode c p st.curTag n) ∧
        ∀ name attrs kids, n = .elt name attrs kids → EPiece P (xelem c p name attrs kids)) ∧
    (∀ (p : Parent) (l : List Node) (st st' : XSt), st.inCdata = false → okNodes c p st.curTag l = true →
      xmlNodes c p f l st = .ok st' →
      st'.inCdata = false ∧ ∃ P, st'.out = st.out ++ P ∧ Piece P (vNodes c p st.curTag l)) := by
  intro f
  induction f with
  | zero =>
    intro c hgen
    exact ⟨fun _ _ _ _ _ _ h => by simp [xmlNode] at h, fun _ _ _ _ _ _ h => by simp [xmlNodes] at h⟩
  | succ f ih =>
    intro c hgen
    obtain ⟨ihN, ihL⟩ := ih c hgen
    constructor
    · intro p n st st' hcd hok h
      cases n with
      | elt name attrs kids =>
        simp only [okNode, Bool.and_eq_true] at hok
        obtain ⟨⟨hname, hattrs⟩, hkids⟩ := hok
        simp only [xmlNode, bind, Except.bind, pure, Except.pure, xmlTag_out, hgen, Bool.false_eq_true, ↓reduceIte,
          List.append_nil] at h
        obtain ⟨haok, hachars, hnd⟩ := vAttrs_ok c p name attrs hattrs
        have hst2 : (if c.lang.attrs.isSome = true then
              List.foldl (fun st a => xmlAttr c a st)
                { out := st.out ++ [60] ++ name.xmlName ++ nsDecl c p name, indent := st.indent,
                  inContent := st.inContent, inCdata := st.inCdata, curTag := tagOf name } attrs
            else
              { out := st.out ++ [60] ++ name.xmlName ++ nsDecl c p name, indent := st.indent,
                inContent := st.inContent, inCdata := st.inCdata, curTag := tagOf name }) =
            ({ out := st.out ++ (60 :: (name.xmlName ++ (vAttrs c p name attrs).flatMap PAttr.bytes)), indent := st.indent,
               inContent := st.inContent, inCdata := st.inCdata, curTag := tagOf name } : XSt) := by
          rw [vAttrs_bytes]
          split
          · rw [xmlAttrs_out]; simp
          · simp
        rw [hst2] at h
        cases kids with
        | nil =>
          cases f with
          | zero => simp [xmlNodes] at h
          | succ f' =>
            simp only [xmlNodes, xmlEndAttrs, List.isEmpty_nil, ↓reduceIte, hgen, Bool.false_eq_true, List.append_nil,
              Except.ok.injEq] at h
            subst h
            refine ⟨hcd, rfl, 60 :: (name.xmlName ++ ((vAttrs c p name attrs).flatMap PAttr.bytes ++ b!"/>")), by simp, ?_, ?_⟩
            · exact (Piece.emptyElem name.xmlName hname _ haok hachars hnd).congr (fun R => by simp [vNode, vNodes])
            · intro n2 a2 k2 he
              injection he with e1 e2 e3
              subst e1; subst e2; subst e3
              have := EPiece.emptyElem name.xmlName hname _ haok hnd
              simpa [xelem, vNodes] using this
        | cons k ks =>
          simp only [xmlEndAttrs, List.isEmpty_cons, Bool.false_eq_true, ↓reduceIte, hgen, Bool.false_and] at h
          split at h
          · cases h
          · rename_i v hv
            simp only [Except.ok.injEq] at h
            have key := fun (st3 : XSt) (h3 : xmlNodes c (childScope p name) f (k :: ks) st3 = .ok v)
              (a : st3.inCdata = false) (b : okNodes c (childScope p name) st3.curTag (k :: ks) = true) =>
              ihL (childScope p name) (k :: ks) st3 v a b h3
            obtain ⟨hcdv, PK, hov, hpk⟩ := key _ hv hcd hkids
            subst h
            simp only [xmlEndTag, hgen, Bool.false_and, Bool.false_eq_true, ↓reduceIte, List.append_nil]
            refine ⟨hcdv, trivial,
              60 :: (name.xmlName ++ ((vAttrs c p name attrs).flatMap PAttr.bytes ++ (62 :: (PK ++ (b!"</" ++ name.xmlName ++ [62]))))),
              by rw [hov]; simp, ?_, ?_⟩
            · exact (Piece.elem name.xmlName hname _ haok hachars hnd PK _ hpk).congr (fun R => by simp [vNode])
            · intro n2 a2 k2 he
              injection he with e1 e2 e3
              subst e1; subst e2; subst e3
              exact EPiece.elem name.xmlName hname _ haok hnd PK _ hpk
      | text s =>
        simp only [okNode] at hok
        rw [xmlNode_text] at h
        cases h1 : xmlText c s st with
        | error e => rw [h1] at h; cases h
        | ok st1 =>
          rw [h1] at h
          simp only [Except.map, Except.ok.injEq] at h
          subst h
          obtain ⟨ho, hc1⟩ := xmlText_view c s st st1 hcd h1
          exact ⟨hc1, rfl, _, ho, (Piece.text _ _ hok).congr (fun R => by simp [vNode]), fun _ _ _ he => by cases he⟩
      | cdata kids =>
        simp only [xmlNode, bind, Except.bind, pure, Except.pure] at h
        match kids, hok with
        | [], _ =>
          cases f with
          | zero => simp [xmlNodes, bind, Except.bind] at h
          | succ f' =>
            simp only [xmlNodes, Except.ok.injEq] at h
            subst h
            refine ⟨rfl, rfl, b!"<![CDATA[" ++ (cdataText [] ++ b!"]]>"), by simp [cdataText], ?_, fun _ _ _ he => by cases he⟩
            exact (Piece.cdata [] rfl).congr (fun R => by simp [vNode, eolNorm, addText_nil])
        | [.text s], hok =>
          simp only [okNode] at hok
          cases f with
          | zero => simp [xmlNodes, bind, Except.bind] at h
          | succ f' =>
            cases f' with
            | zero => simp [xmlNodes, xmlNode, bind, Except.bind] at h
            | succ f'' =>
              simp only [xmlNodes, bind, Except.bind, xmlNode_text] at h
              rw [xmlText_incdata c s _ rfl] at h
              simp only [Except.map, Except.ok.injEq] at h
              subst h
              refine ⟨rfl, rfl, b!"<![CDATA[" ++ (cdataText s ++ b!"]]>"), by simp, ?_, fun _ _ _ he => by cases he⟩
              exact (Piece.cdata s hok).congr (fun R => by simp [vNode])
        | (.text _) :: _ :: _, hok => simp [okNode] at hok
        | (.elt _ _ _) :: _, hok => simp [okNode] at hok
        | (.cdata _) :: _, hok => simp [okNode] at hok
        | (.tree _ _ _) :: _, hok => simp [okNode] at hok
      | tree l cs r =>
        cases l with
        | none => simp [okNode] at hok
        | some l =>
          cases r with
          | none => simp [okNode] at hok
          | some r =>
            simp only [okNode] at hok
            simp only [xmlNode, bind, Except.bind, pure, Except.pure] at h
            split at h
            · cases h
            · rename_i st1 h1
              simp only [Except.ok.injEq] at h
              subst h
              have hg' : (({ c with lang := l } : XCfg).gen == 1) = false := hgen
              obtain ⟨_, _, P, ho, hp, _⟩ := (ih { c with lang := l } hg').1 .none r { indent := st.indent } st1 rfl hok h1
              have hout : st1.out = P := by rw [ho]; rfl
              refine ⟨hcd, rfl, P, ?_, hp.congr (fun R => by simp [vNode]), fun _ _ _ he => by cases he⟩
              show st.out ++ cstrOf st1.out = st.out ++ P
              rw [hout, cstrOf_of_noNul P (xmlChars_noNul P hp.chars)]
    · intro p l st st' hcd hok h
      cases l with
      | nil =>
        simp only [xmlNodes, Except.ok.injEq] at h
        subst h
        exact ⟨hcd, [], by simp, Piece.nil.congr (fun R => by simp [vNodes])⟩
      | cons n rest =>
        simp only [okNodes, Bool.and_eq_true] at hok
        simp only [xmlNodes, bind, Except.bind] at h
        cases h1 : xmlNode c p f n st with
        | error e => rw [h1] at h; cases h
        | ok st1 =>
          rw [h1] at h
          simp only at h
          obtain ⟨hcd1, hct1, P1, ho1, hp1, _⟩ := ihN p n st st1 hcd hok.1 h1
          obtain ⟨hcd2, P2, ho2, hp2⟩ := ihL p rest st1 st' hcd1 (by rw [hct1]; exact hok.2) h
          refine ⟨hcd2, P1 ++ P2, by rw [ho2, ho1, List.append_assoc], ?_⟩
          rw [hct1] at hp2
          exact (hp1.comp hp2).congr (fun R => by simp [vNodes])

end Wbxml.Lemmas.XmlSpec
