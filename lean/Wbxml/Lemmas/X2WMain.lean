/-
  C02: `treeOfXml` delivers trees `treeToWbxml` is total on (`treeOfXml_ok`), asks only for documents
  whose Expat run is missing (`treeOfXml_need`), and the frozen state after an unknown root.
-/
import Wbxml.Lemmas.X2WShape
namespace Wbxml.Lemmas.X2W
open Wbxml Wbxml.Model

/-- How `treeOfXml` answers the builder's requests for embedded documents (fuel `f` left). -/
def subOf (main : List Lang) (env : List (Bytes × ExpatRun)) (f : Nat) : Bytes → Option (Except Nat Tree) :=
  fun doc =>
    match treeOfXml main env f doc with
    | .ok t => some (Except.ok t)
    | .err e => some (Except.error e)
    | .need _ => none

/-- `treeOfXml` with one unit of fuel spent, in terms of `subOf`. -/
theorem treeOfXml_succ (main : List Lang) (env : List (Bytes × ExpatRun)) (f : Nat) (xml : Bytes) :
    treeOfXml main env (f + 1) xml =
      (if xml.isEmpty then .err 12 else
        match env.find? (fun p => p.1 == xml) with
        | none => .need xml
        | some (_, run) =>
          let b := run.events.foldl (xbuildStep main xml (subOf main env f)) {}
          match b.need with
          | some d =>
            (match treeOfXml main env f d with
             | .need d' => .need d'
             | _ => .need d)
          | none =>
            if !run.ok then .err 104
            else match b.error with
              | some e => .err e
              | none => .ok { lang := b.lang, origCharset := b.charset, root := b.root }) := by
  rw [treeOfXml]
  rfl

/-- What `treeOfXml` promises: a tree the encoder is total on, a non-zero error code, or a request. -/
def ResOk : X2TRes → Prop
  | .ok t => treeOk t = true
  | .err c => c ≠ 0
  | .need _ => True

theorem subOk_of (main : List Lang) (env : List (Bytes × ExpatRun)) (f : Nat)
    (h : ∀ doc, ResOk (treeOfXml main env f doc)) : SubOk (subOf main env f) := by
  intro doc
  have := h doc
  unfold subOf
  constructor
  · intro t ht
    cases hr : treeOfXml main env f doc with
    | ok t' => rw [hr] at ht this; simp only [Option.some.injEq, Except.ok.injEq] at ht; subst ht; exact this
    | err e => rw [hr] at ht; simp at ht
    | need d => rw [hr] at ht; simp at ht
  · intro e he
    cases hr : treeOfXml main env f doc with
    | ok t' => rw [hr] at he; simp at he
    | err e' => rw [hr] at he this; simp only [Option.some.injEq, Except.error.injEq] at he; subst he; exact this
    | need d => rw [hr] at he; simp at he

/-- **The tree `wbxml_tree_from_xml` delivers is one `wbxml_tree_to_wbxml` is total on**: every name
    is a non-empty C string, every embedded document (and the document itself, when it has a
    language) has a root, every language is an entry of the main table. Error codes are non-zero. -/
theorem treeOfXml_ok (main : List Lang) (env : List (Bytes × ExpatRun)) (hm : MainOk main) (he : EnvWf env) :
    ∀ (f : Nat) (xml : Bytes), ResOk (treeOfXml main env f xml)
  | 0, xml => by rw [treeOfXml]; simp [ResOk]
  | f + 1, xml => by
    have ih := treeOfXml_ok main env hm he f
    have hsub := subOk_of main env f ih
    rw [treeOfXml_succ]
    split
    · simp [ResOk]
    · split
      · trivial
      · rename_i k run hfind
        have hmem : (k, run) ∈ env := List.mem_of_find?_eq_some hfind
        simp only
        split
        · split <;> trivial
        · rename_i hneed
          split
          · simp [ResOk]
          · rename_i hok
            have hok' : run.ok = true := by simpa using hok
            have hw : WfDoc run.events := he _ hmem hok'
            have hb := fold_ok (main := main) xml hsub run.events {} (bOk_init main) (wfDoc_named hw)
            split
            · rename_i e herr
              exact hb.err e herr
            · rename_i herr
              show treeOk _ = true
              unfold treeOk
              simp only
              cases hl : (List.foldl (xbuildStep main xml (subOf main env f)) {} run.events).lang with
              | none => unfold nodeOk; rfl
              | some l =>
                have hlm := hm l (hb.lang l hl)
                rcases run_doc main xml (subOf main env f) hw with hf | hr
                · rcases hf with hf | hf
                  · change (List.foldl (xbuildStep main xml (subOf main env f)) {} run.events).need.isSome = true at hf
                    rw [hneed] at hf; cases hf
                  · change (List.foldl (xbuildStep main xml (subOf main env f)) {} run.events).error.isSome = true at hf
                    rw [herr] at hf; cases hf
                · change (List.foldl (xbuildStep main xml (subOf main env f)) {} run.events).root.isSome = true at hr
                  cases hroot : (List.foldl (xbuildStep main xml (subOf main env f)) {} run.events).root with
                  | none => rw [hroot] at hr; cases hr
                  | some r =>
                    unfold nodeOk
                    simp only [hlm, Bool.true_and]
                    exact hb.root r hroot

/-! ### A request names a document whose run is missing -/

theorem attach_need (b : XBState) (n : Node) : (b.attach n).need = b.need := by
  unfold XBState.attach
  split
  · rfl
  · split <;> rfl

theorem xPop_need (b : XBState) : (xPop b).need = b.need := by
  unfold xPop
  split
  · rfl
  · split
    · simp only
      rw [attach_need]
    · rfl
    · rw [attach_need]

def isEndElt : XEvent → Bool
  | .endElt _ _ => true
  | _ => false

/-- Only the end-element callback touches `need`. -/
theorem step_need_other (main : List Lang) (input : Bytes) (sub : Bytes → Option (Except Nat Tree))
    (b : XBState) (e : XEvent) (he : isEndElt e = false) : (xbuildStep main input sub b e).need = b.need := by
  by_cases hneed : b.need.isSome = true
  · rw [step_need _ _ _ _ _ hneed]
  cases e with
  | endElt name idx => simp [isEndElt] at he
  | xmlDecl v enc =>
    unfold xbuildStep; rw [if_neg hneed]; simp only
    split
    · split <;> rfl
    · rfl
  | doctype sysid pubid =>
    unfold xbuildStep; rw [if_neg hneed]; simp only
    split <;> rfl
  | pi => unfold xbuildStep; rw [if_neg hneed]
  | startCdata =>
    unfold xbuildStep; rw [if_neg hneed]; simp only
    split <;> rfl
  | endCdata =>
    unfold xbuildStep; rw [if_neg hneed]; simp only
    split
    · rfl
    · split
      · rfl
      · rw [attach_need]
  | chars s =>
    unfold xbuildStep; rw [if_neg hneed]
    simp (config := { zeta := false }) only []
    split
    · rfl
    · extract_lets ty s' b1
      have hb1 : b1.need = b.need := by
        unfold b1
        split
        · split
          · extract_lets fic
            split
            · rfl
            · split <;> rfl
          · rfl
        · rfl
      split
      · split
        · split
          · exact hb1
          · rw [attach_need]; exact hb1
        · rw [attach_need]; exact hb1
      · exact hb1
  | startElt name attrs idx =>
    unfold xbuildStep; rw [if_neg hneed]
    simp (config := { zeta := false }) only []
    split
    · rfl
    · split
      · rfl
      · extract_lets isRoot b1
        have hb1 : b1.need = b.need := by
          unfold b1
          split
          · split <;> rfl
          · rfl
        split
        · exact hb1
        · split
          · exact hb1
          · split
            · exact hb1
            · split
              · exact hb1
              · exact hb1


/-- A step either leaves `need` alone or sets it to a document `sub` could not answer. -/
theorem step_need_inv (main : List Lang) (input : Bytes) (sub : Bytes → Option (Except Nat Tree))
    (b : XBState) (e : XEvent) :
    (xbuildStep main input sub b e).need = b.need ∨
      ∃ d, (xbuildStep main input sub b e).need = some d ∧ sub d = none := by
  by_cases hneed : b.need.isSome = true
  · rw [step_need _ _ _ _ _ hneed]; exact Or.inl rfl
  have hnone : b.need = none := by cases hb : b.need with | none => rfl | some d => simp [hb] at hneed
  cases e with
  | endElt name idx =>
    rw [step_endElt _ _ _ _ _ _ hnone, ← decodeTop_need b]
    generalize decodeTop b = b2
    unfold endTail
    split
    · exact Or.inl rfl
    · split
      · exact Or.inl rfl
      · split
        · split
          · simp only
            split
            · exact Or.inl rfl
            · split
              · exact Or.inl rfl
              · split
                · exact Or.inl rfl
                · split
                  · exact Or.inl rfl
                  · split
                    · rename_i hs
                      exact Or.inr ⟨_, rfl, hs⟩
                    · exact Or.inl rfl
                    · left; rw [attach_need]
          · exact Or.inl rfl
        · left; exact xPop_need b2
  | _ => exact Or.inl (step_need_other main input sub b _ rfl)

theorem fold_need_inv (main : List Lang) (input : Bytes) (sub : Bytes → Option (Except Nat Tree)) :
    ∀ (evs : List XEvent) (b : XBState), (∀ d, b.need = some d → sub d = none) →
      ∀ d, (evs.foldl (xbuildStep main input sub) b).need = some d → sub d = none
  | [], b, h, d, hd => h d hd
  | e :: evs, b, h, d, hd => by
    refine fold_need_inv main input sub evs (xbuildStep main input sub b e) ?_ d hd
    intro d' hd'
    rcases step_need_inv main input sub b e with e1 | ⟨d2, e2, hs⟩
    · rw [e1] at hd'; exact h d' hd'
    · rw [e2] at hd'
      simp only [Option.some.injEq] at hd'
      subst hd'; exact hs

/-- **`.need d` means Expat's run for `d` is missing from `env`** (and `d` is the document itself or
    an embedded document met on the way). -/
theorem treeOfXml_need (main : List Lang) (env : List (Bytes × ExpatRun)) :
    ∀ (f : Nat) (xml d : Bytes), treeOfXml main env f xml = .need d → env.find? (fun p => p.1 == d) = none
  | 0, xml, d, h => by rw [treeOfXml] at h; cases h
  | f + 1, xml, d, h => by
    rw [treeOfXml_succ] at h
    split at h
    · cases h
    · split at h
      · rename_i hfind
        simp only [X2TRes.need.injEq] at h
        subst h; exact hfind
      · simp only at h
        split at h
        · rename_i d0 hd0
          have hsub : subOf main env f d0 = none :=
            fold_need_inv main xml (subOf main env f) _ {} (by intro d h; cases h) d0 hd0
          unfold subOf at hsub
          cases hr : treeOfXml main env f d0 with
          | ok t => rw [hr] at hsub; cases hsub
          | err e => rw [hr] at hsub; cases hsub
          | need d' =>
            rw [hr] at h
            simp only [X2TRes.need.injEq] at h
            subst h
            exact treeOfXml_need main env f d0 d' hr
        · split at h
          · cases h
          · split at h <;> cases h

/-! ### After an error at the root element nothing moves -/

theorem step_frozen (main : List Lang) (input : Bytes) (sub : Bytes → Option (Except Nat Tree))
    (b : XBState) (ev : XEvent) (e0 : Nat) (hn : b.need = none) (hst : b.stack = []) (herr : b.error = some e0) :
    (xbuildStep main input sub b ev).need = none ∧ (xbuildStep main input sub b ev).stack = [] ∧
      (xbuildStep main input sub b ev).error = some e0 := by
  have hneed : ¬ (b.need.isSome = true) := by rw [hn]; exact Bool.false_ne_true
  have hes : b.error.isSome = true := by rw [herr]; rfl
  cases ev with
  | endElt name idx =>
    rw [step_endElt _ _ _ _ _ _ hn]
    have hd : decodeTop b = b := by unfold decodeTop; rw [hst]
    rw [hd]
    unfold endTail
    rw [if_pos hes]
    exact ⟨hn, hst, herr⟩
  | xmlDecl v enc =>
    unfold xbuildStep; rw [if_neg hneed]; simp only
    split
    · split <;> exact ⟨hn, hst, herr⟩
    · exact ⟨hn, hst, herr⟩
  | doctype sysid pubid =>
    unfold xbuildStep; rw [if_neg hneed]; simp only
    split <;> exact ⟨hn, hst, herr⟩
  | pi => unfold xbuildStep; rw [if_neg hneed]; exact ⟨hn, hst, herr⟩
  | startCdata => unfold xbuildStep; rw [if_neg hneed]; simp only [hes, Bool.true_or, ↓reduceIte]; exact ⟨hn, hst, herr⟩
  | endCdata => unfold xbuildStep; rw [if_neg hneed]; simp only [hes, Bool.true_or, ↓reduceIte]; exact ⟨hn, hst, herr⟩
  | chars s => unfold xbuildStep; rw [if_neg hneed]; simp only [hes, Bool.true_or, ↓reduceIte]; exact ⟨hn, hst, herr⟩
  | startElt name attrs idx => unfold xbuildStep; rw [if_neg hneed]; simp only [hes, ↓reduceIte]; exact ⟨hn, hst, herr⟩

theorem fold_frozen (main : List Lang) (input : Bytes) (sub : Bytes → Option (Except Nat Tree)) (e0 : Nat) :
    ∀ (evs : List XEvent) (b : XBState), b.need = none → b.stack = [] → b.error = some e0 →
      (evs.foldl (xbuildStep main input sub) b).need = none ∧ (evs.foldl (xbuildStep main input sub) b).error = some e0
  | [], b, hn, _, he => ⟨hn, he⟩
  | ev :: evs, b, hn, hst, he => by
    obtain ⟨a1, a2, a3⟩ := step_frozen main input sub b ev e0 hn hst he
    exact fold_frozen main input sub e0 evs _ a1 a2 a3

/-- A prolog whose DOCTYPEs the table does not know leaves the language open. -/
theorem fold_prolog_unknown (main : List Lang) (input : Bytes) (sub : Bytes → Option (Except Nat Tree)) :
    ∀ (pro : List XEvent), pro.all isPrologEv = true →
      (∀ sysid pubid, XEvent.doctype sysid pubid ∈ pro → searchTable main pubid sysid none = none) →
      ∀ (b : XBState), b.need = none → b.lang = none →
        (pro.foldl (xbuildStep main input sub) b).lang = none
  | [], _, _, b, _, hl => hl
  | ev :: pro, hp, hd, b, hn, hl => by
    simp only [List.all_cons, Bool.and_eq_true] at hp
    have hneed : ¬ (b.need.isSome = true) := by rw [hn]; exact Bool.false_ne_true
    have hstep : (xbuildStep main input sub b ev).lang = none ∧ (xbuildStep main input sub b ev).need = none := by
      cases ev with
      | xmlDecl v enc =>
        unfold xbuildStep; rw [if_neg hneed]; simp only
        split
        · split <;> exact ⟨hl, hn⟩
        · exact ⟨hl, hn⟩
      | doctype sysid pubid =>
        unfold xbuildStep; rw [if_neg hneed]; simp only
        rw [hd sysid pubid (by simp)]
        exact ⟨hl, hn⟩
      | pi => unfold xbuildStep; rw [if_neg hneed]; exact ⟨hl, hn⟩
      | _ => simp [isPrologEv] at hp
    exact fold_prolog_unknown main input sub pro hp.2 (fun s p h => hd s p (by simp [h])) _ hstep.2 hstep.1

end Wbxml.Lemmas.X2W
