/-
  Round-trip lemmas (C03): what `wbxml_tree_from_wbxml` makes of the header — the language and the
  character set of the resulting tree are those of the `startDoc` event, which the header alone
  determines.
-/
import Wbxml.Lemmas.EncWDoc
import Wbxml.Lemmas.ParserSafeBuild
import Wbxml.Lemmas.ParseSerHeader
namespace Wbxml.Lemmas.EncW
open Wbxml Wbxml.Model Wbxml.Spec Wbxml.Lemmas.ParserSafe

def notStartDoc (e : Event) : Prop := ∀ cs l, e ≠ Event.startDoc cs l

theorem bal_notStartDoc {es : List Event} (h : Bal es) : ∀ e ∈ es, notStartDoc e := by
  induction h with
  | nil => intro e he; cases he
  | chars s _ ih =>
    intro e he
    rcases List.mem_cons.mp he with rfl | he
    · intro cs l h; cases h
    · exact ih e he
  | pi t d _ ih =>
    intro e he
    rcases List.mem_cons.mp he with rfl | he
    · intro cs l h; cases h
    · exact ih e he
  | elt n attrs n' _ _ ihb ihe =>
    intro e he
    rcases List.mem_cons.mp he with rfl | he
    · intro cs l h; cases h
    · rcases List.mem_append.mp he with he | he
      · exact ihb e he
      · rcases List.mem_cons.mp he with rfl | he
        · intro cs l h; cases h
        · exact ihe e he

theorem onlyPi_notStartDoc {es : List Event} (h : OnlyPi es) : ∀ e ∈ es, notStartDoc e := by
  intro e he cs l heq
  obtain ⟨t, d, hp⟩ := h e he
  rw [hp] at heq; cases heq

/-- The events of a successful run: `startDoc` with the header's character set and language, and
    no other `startDoc`. -/
theorem parse_events_head {cfg : PCfg} {bs : Bytes} (h : (parse cfg bs).result = .ok ()) :
    ∃ s l rest, parseHeader cfg bs = .ok (s, l) ∧
      (parse cfg bs).events = Event.startDoc s.charset l.id :: rest ∧ ∀ e ∈ rest, notStartDoc e := by
  rcases parse_anatomy cfg bs with ⟨c, _, h', _⟩ | ⟨s, l, c, _, _, h', _⟩ | ⟨s, l, ev, s', hh, hb, _, hev, _⟩
  · rw [h'] at h; cases h
  · rw [h'] at h; cases h
  · unfold parseBody at hb
    obtain ⟨⟨ev1, s1⟩, h1, hb⟩ := bind_eq_ok2 hb
    obtain ⟨⟨ev2, s2⟩, h2, h3⟩ := bind_eq_ok2 hb
    dsimp only at h2 h3
    obtain ⟨pis1, e1, p1⟩ := piLoop_events _ _ _ _ h1
    obtain ⟨n, attrs, body, e2, p2⟩ := (elem_content_events _).1 _ _ _ h2
    obtain ⟨pis2, e3, p3⟩ := piLoop_events _ _ _ _ h3
    dsimp only at e1 e2 e3
    refine ⟨s, l, pis1 ++ (Event.startElt n attrs :: (body ++ Event.endElt n :: (pis2 ++ [Event.endDoc]))), hh, ?_, ?_⟩
    · rw [hev, e3, e2, e1]; simp
    · intro e he
      rcases List.mem_append.mp he with he | he
      · exact onlyPi_notStartDoc p1 e he
      · rcases List.mem_cons.mp he with rfl | he
        · intro cs l h; cases h
        · rcases List.mem_append.mp he with he | he
          · exact bal_notStartDoc p2 e he
          · rcases List.mem_cons.mp he with rfl | he
            · intro cs l h; cases h
            · rcases List.mem_append.mp he with he | he
              · exact onlyPi_notStartDoc p3 e he
              · simp only [List.mem_cons, List.mem_nil_iff, or_false] at he
                subst he; intro cs l h; cases h

theorem attach_lang (b : BState) (n : Node) : (b.attach n).lang = b.lang ∧ (b.attach n).charset = b.charset := by
  unfold BState.attach
  split
  · exact ⟨rfl, rfl⟩
  · split <;> exact ⟨rfl, rfl⟩

theorem leaveCdata_lang (b : BState) : b.leaveCdata.lang = b.lang ∧ b.leaveCdata.charset = b.charset := by
  unfold BState.leaveCdata
  repeat' split
  all_goals exact ⟨rfl, rfl⟩

/-- Only `startDoc` sets the language and the character set of the tree under construction. -/
theorem buildStep_lang (main : List Lang) (emb : Nat → Bytes → Option Tree) (b : BState) (e : Event)
    (h : notStartDoc e) :
    (buildStep main emb b e).lang = b.lang ∧ (buildStep main emb b e).charset = b.charset := by
  unfold buildStep
  split
  · exact ⟨rfl, rfl⟩
  · cases e with
    | startDoc cs l => exact absurd rfl (h cs l)
    | endDoc => exact ⟨rfl, rfl⟩
    | pi t d => exact ⟨rfl, rfl⟩
    | startElt n attrs =>
      simp only
      split <;> exact leaveCdata_lang b
    | endElt n =>
      simp only
      repeat' split
      all_goals first
        | exact ⟨rfl, rfl⟩
        | exact attach_lang _ _
    | chars s =>
      simp only
      repeat' split
      all_goals first
        | exact ⟨rfl, rfl⟩
        | exact attach_lang _ _

theorem foldl_buildStep_lang (main : List Lang) (emb : Nat → Bytes → Option Tree) (es : List Event) (b : BState)
    (h : ∀ e ∈ es, notStartDoc e) :
    (es.foldl (buildStep main emb) b).lang = b.lang ∧ (es.foldl (buildStep main emb) b).charset = b.charset := by
  induction es generalizing b with
  | nil => exact ⟨rfl, rfl⟩
  | cons e rest ih =>
    rw [List.foldl_cons]
    have h1 := buildStep_lang main emb b e (h e List.mem_cons_self)
    have h2 := ih (buildStep main emb b e) (fun x hx => h x (List.mem_cons_of_mem _ hx))
    exact ⟨h2.1.trans h1.1, h2.2.trans h1.2⟩

/-- `wbxml_tree_from_wbxml`: the tree's language is the entry of the main table with the id the
    header selected, its original charset the header's effective character set. -/
theorem treeOfWbxml_header (main : List Lang) (f forced metaCs : Nat) (bs : Bytes) (t' : Tree)
    (h : treeOfWbxml main (f + 1) forced metaCs bs = .ok t') :
    ∃ s l, parseHeader { main := main, langForced := forced, metaCharset := metaCs } bs = .ok (s, l) ∧
      t'.lang = main.find? (fun x => x.id == l.id) ∧ t'.origCharset = s.charset := by
  rw [treeOfWbxml] at h
  split at h
  · cases h
  · rename_i hres
    split at h
    · cases h
    · injection h with h
      have hok : (parse { main := main, langForced := forced, metaCharset := metaCs } bs).result = .ok () := by
        rw [hres]
      obtain ⟨s, l, rest, hh, hev, hrest⟩ := parse_events_head hok
      refine ⟨s, l, hh, ?_, ?_⟩
      · rw [← h]
        simp only [hev, List.foldl_cons]
        rw [(foldl_buildStep_lang main _ rest _ hrest).1]
        rfl
      · rw [← h]
        simp only [hev, List.foldl_cons]
        rw [(foldl_buildStep_lang main _ rest _ hrest).2]
        rfl

/-- The default reader of `wbxml_tree_from_wbxml`. -/
def pcfgOf (main : List Lang) (forced metaCs : Nat) : PCfg :=
  { main := main, langForced := forced, metaCharset := metaCs }

theorem charsets_ok (main : List Lang) (forced metaCs : Nat) (cs : Nat) (h : cs = 3 ∨ cs = 106) :
    (pcfgOf main forced metaCs).charsets.contains cs = true := by
  rcases h with rfl | rfl <;> simp [pcfgOf]

end Wbxml.Lemmas.EncW
