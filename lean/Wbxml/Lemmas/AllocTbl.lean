/-
  C16 — what the string-table chain does to the *contents* of the table and of `one_ref`,
  independently of the ledger (`Always`): the table stays well-formed (offsets consecutive from 0
  and adding up to `strstbl_len`, no two entries with the same bytes) on every exit, and the
  elements of `one_ref` are made from the strings handed in.
-/
import Wbxml.Lemmas.AllocWords
namespace Wbxml.Model.Alloc
open Wbxml
set_option linter.unusedSimpArgs false
set_option linter.unusedVariables false
set_option linter.unnecessarySimpa false

/-- Offsets are consecutive: each entry starts where the previous one (plus its terminator) ended,
    and the total is `len`. -/
def offsOk : Nat → List StrElt → Nat → Prop
  | off, [], len => off = len
  | off, x :: r, len => x.offset = off ∧ offsOk (off + x.string.len + 1) r len

theorem offsOk_append (off : Nat) (xs : List StrElt) (len : Nat) (x : StrElt) (h : offsOk off xs len)
    (hx : x.offset = len) : offsOk off (xs ++ [x]) (len + x.string.len + 1) := by
  induction xs generalizing off with
  | nil => simp only [offsOk] at h; subst h; simp [offsOk, hx]
  | cons y r ih => simp only [offsOk, List.cons_append] at h ⊢; exact ⟨h.1, ih _ h.2⟩

/-- The string table of the encoder is well-formed. -/
def TblInv (e : AEnc) : Prop :=
  ∃ l, e.strstbl = some l ∧ offsOk 0 l.items e.strstblLen ∧ (l.items.map (·.string.bytes)).Nodup

theorem listAppend_always {ι : Type} (l : AList ι) (item : ι) :
    Always (listAppend l item) (fun r =>
      (r.2 = false ∧ r.1 = l) ∨ (r.2 = true ∧ ∃ c, r.1 = { l with cells := l.cells ++ [(c, item)] })) := by
  intro s
  unfold listAppend
  simp only [bind_eq, pure_eq, deref, malloc, Prog.bind, run]
  by_cases hl : l.hdr ∈ s.live <;> by_cases hf : s.fails (s.next + 1) = true <;> simp [hl, hf]

theorem strEltCreate_always (string : ABuf) (stat : Bool) :
    Always (strEltCreate string stat) (fun r => ∀ x, r = some x → x.string = string ∧ x.stat = stat) := by
  intro s
  unfold strEltCreate
  simp only [bind_eq, pure_eq, malloc, Prog.bind, run]
  by_cases hf : s.fails (s.next + 1) = true <;> simp [hf]

theorem strtblAddElement_always (e : AEnc) (elt : StrElt) :
    Always (strtblAddElement e elt) (fun r => TblInv e → TblInv r.1) := by
  unfold strtblAddElement
  simp only [bind_eq, pure_eq]
  refine Always.seq fun _ => ?_
  cases hs : e.strstbl with
  | none => exact Always.ret id
  | some l =>
    simp only
    split
    · exact Always.ret id
    · rename_i hany
      refine Always.bind (listAppend_always l { elt with offset := e.strstblLen }) ?_
      intro r hr
      obtain ⟨l1, ok⟩ := r
      simp only at hr ⊢
      rcases hr with ⟨hok, _⟩ | ⟨hok, c, hl1⟩
      · subst hok; exact Always.ret id
      · subst hok
        simp only [Bool.not_true, Bool.false_eq_true, if_false]
        refine Always.ret ?_
        rintro ⟨l0, hl0, ho, hn⟩
        rw [hs] at hl0; cases hl0
        refine ⟨l1, rfl, ?_, ?_⟩
        · have : l1.items = l.items ++ [{ elt with offset := e.strstblLen }] := by simp [hl1, AList.items]
          rw [this]
          exact offsOk_append 0 l.items e.strstblLen _ ho rfl
        · have : l1.items = l.items ++ [{ elt with offset := e.strstblLen }] := by simp [hl1, AList.items]
          rw [this, List.map_append, List.nodup_append]
          refine ⟨hn, by simp, ?_⟩
          intro a ha b hb hab
          simp only [List.map_cons, List.map_nil, List.mem_singleton] at hb
          subst hab; subst hb
          apply hany
          obtain ⟨y, hy, hye⟩ := List.mem_map.1 ha
          exact List.any_eq_true.2 ⟨y, hy, by simp [hye]⟩

/-- Second loop of `wbxml_strtbl_check_references`: the table stays well-formed, and `one_ref` only
    contains references it was given. -/
theorem splitRefs_always (cells : List (Nat × StrElt)) (e : AEnc) (rHdr : Nat) (result : AList StrElt) :
    Always (splitRefs e rHdr result cells) (fun r =>
      (TblInv e → TblInv r.1) ∧
      (∀ one, r.2 = some one → ∀ x ∈ one.items, x ∈ result.items ∨ x ∈ cells.map (·.2))) := by
  induction cells generalizing e result with
  | nil =>
    simp only [splitRefs, pure_eq]
    exact Always.ret ⟨id, fun one h x hx => by cases h; exact Or.inl hx⟩
  | cons c rest ih =>
    obtain ⟨c, ref⟩ := c
    unfold splitRefs
    simp only [bind_eq, pure_eq]
    refine Always.seq fun _ => Always.seq fun _ => Always.seq fun _ => Always.seq fun _ => ?_
    split
    · refine Always.seq fun ref' => ?_
      cases ref' with
      | none =>
        simp only
        refine Always.seq fun _ => Always.seq fun _ => Always.seq fun _ => ?_
        exact Always.ret ⟨id, fun one h => by cases h⟩
      | some ref2 =>
        simp only
        refine Always.bind (strtblAddElement_always e ref2) ?_
        intro r hr
        obtain ⟨e2, ok, added⟩ := r
        simp only at hr ⊢
        split
        · refine Always.seq fun _ => Always.seq fun _ => Always.seq fun _ => ?_
          exact Always.ret ⟨hr, fun one h => by cases h⟩
        · refine Always.seq fun _ => ?_
          refine (ih e2 result).mono ?_
          intro r ⟨h1, h2⟩
          refine ⟨fun h => h1 (hr h), fun one ho x hx => ?_⟩
          rcases h2 one ho x hx with h | h
          · exact Or.inl h
          · exact Or.inr (by simp only [List.map_cons, List.mem_cons]; exact Or.inr h)
    · refine Always.bind (listAppend_always result ref) ?_
      intro r hr
      obtain ⟨res2, ok⟩ := r
      simp only at hr ⊢
      rcases hr with ⟨hok, _⟩ | ⟨hok, cid, hres⟩
      · subst hok
        simp only [Bool.not_false, if_true]
        refine Always.seq fun _ => Always.seq fun _ => Always.seq fun _ => ?_
        exact Always.ret ⟨id, fun one h => by cases h⟩
      · subst hok
        simp only [Bool.not_true, Bool.false_eq_true, if_false]
        refine (ih e res2).mono ?_
        intro r ⟨h1, h2⟩
        refine ⟨h1, fun one ho x hx => ?_⟩
        rcases h2 one ho x hx with h | h
        · simp only [hres, AList.items, List.map_append, List.map_cons, List.map_nil, List.mem_append, List.mem_singleton] at h
          rcases h with h | h
          · exact Or.inl h
          · subst h; exact Or.inr (by simp)
        · exact Or.inr (by simp only [List.map_cons, List.mem_cons]; exact Or.inr h)

/-- First loop: every reference is made from one of the strings handed in, with the `stat` flag of
    the call. -/
theorem countRefs_always (cells : List (Nat × ABuf)) (stat : Bool) (sHdr : Nat) (referenced : AList StrElt) :
    Always (countRefs stat sHdr referenced cells) (fun r =>
      ∀ ref', r = some ref' → ∀ x ∈ ref'.items,
        (∃ y ∈ referenced.items, y.string = x.string ∧ y.stat = x.stat) ∨
        (x.stat = stat ∧ x.string ∈ cells.map (·.2))) := by
  induction cells generalizing referenced with
  | nil =>
    simp only [countRefs, pure_eq]
    exact Always.ret fun ref' h x hx => by cases h; exact Or.inl ⟨x, hx, rfl, rfl⟩
  | cons c rest ih =>
    obtain ⟨c, string⟩ := c
    unfold countRefs
    simp only [bind_eq, pure_eq]
    refine Always.seq fun _ => Always.seq fun _ => Always.seq fun _ => ?_
    cases hb : bumpCount string.bytes referenced.cells with
    | some cells' =>
      simp only
      refine Always.seq fun _ => ?_
      refine (ih { referenced with cells := cells' }).mono ?_
      intro r h ref' hr x hx
      rcases h ref' hr x hx with ⟨y, hy, e1, e2⟩ | ⟨h1, h2⟩
      · obtain ⟨z, hz, f1, f2⟩ := bumpCount_items _ _ _ hb y hy
        exact Or.inl ⟨z, hz, f1.trans e1, f2.trans e2⟩
      · exact Or.inr ⟨h1, by simp only [List.map_cons, List.mem_cons]; exact Or.inr h2⟩
    | none =>
      simp only
      refine Always.bind (strEltCreate_always string stat) ?_
      intro ref hr
      cases ref with
      | none =>
        simp only
        refine Always.seq fun _ => Always.seq fun _ => Always.seq fun _ => ?_
        exact Always.ret fun ref' h => by cases h
      | some ref0 =>
        simp only
        obtain ⟨es, et⟩ := hr ref0 rfl
        refine Always.bind (listAppend_always referenced { ref0 with count := ref0.count + 1 }) ?_
        intro r hr2
        obtain ⟨ref3, ok⟩ := r
        simp only at hr2 ⊢
        rcases hr2 with ⟨hok, _⟩ | ⟨hok, cid, hres⟩
        · subst hok
          simp only [Bool.not_false, if_true]
          refine Always.seq fun _ => Always.seq fun _ => Always.seq fun _ => ?_
          exact Always.ret fun ref' h => by cases h
        · subst hok
          simp only [Bool.not_true, Bool.false_eq_true, if_false]
          refine (ih ref3).mono ?_
          intro r h ref' hr x hx
          rcases h ref' hr x hx with ⟨y, hy, e1, e2⟩ | ⟨h1, h2⟩
          · simp only [hres, AList.items, List.map_append, List.map_cons, List.map_nil, List.mem_append, List.mem_singleton] at hy
            rcases hy with hy | hy
            · exact Or.inl ⟨y, hy, e1, e2⟩
            · subst hy
              simp only at e1 e2
              exact Or.inr ⟨by rw [← e2, et], by rw [← e1, es]; simp⟩
          · exact Or.inr ⟨h1, by simp only [List.map_cons, List.mem_cons]; exact Or.inr h2⟩

theorem listCreate_always {ι : Type} : Always (listCreate (ι := ι)) (fun r => ∀ l, r = some l → l.cells = []) := by
  intro s
  unfold listCreate
  simp only [bind_eq, pure_eq, malloc, Prog.bind, run]
  by_cases hf : s.fails (s.next + 1) = true <;> simp [hf]

/-- `wbxml_strtbl_check_references`: the table stays well-formed on every exit; the elements of
    `one_ref` carry strings of `*strings` and the `stat` flag of the call. -/
theorem checkReferences_always (e : AEnc) (strings : AList ABuf) (stat : Bool) :
    Always (checkReferences e strings stat) (fun r =>
      (TblInv e → TblInv r.1) ∧
      (∀ one, r.2.2.2 = some one → ∀ x ∈ one.items, x.stat = stat ∧ x.string ∈ strings.items)) := by
  unfold checkReferences
  simp only [bind_eq, pure_eq]
  refine Always.bind listCreate_always ?_
  intro referenced hc
  cases referenced with
  | none => exact Always.ret ⟨id, fun one h => by cases h⟩
  | some referenced =>
    simp only
    have hcells := hc referenced rfl
    refine Always.bind (countRefs_always strings.cells stat strings.hdr referenced) ?_
    intro ref' hr
    cases ref' with
    | none => exact Always.ret ⟨id, fun one h => by cases h⟩
    | some ref' =>
      simp only
      have hprov : ∀ x ∈ ref'.items, x.stat = stat ∧ x.string ∈ strings.items := by
        intro x hx
        rcases hr ref' rfl x hx with ⟨y, hy, _⟩ | h
        · simp [AList.items, hcells] at hy
        · exact h
      refine Always.seq fun _ => ?_
      refine Always.bind listCreate_always ?_
      intro result hres
      cases result with
      | none =>
        simp only
        refine Always.seq fun _ => ?_
        exact Always.ret ⟨id, fun one h => by cases h⟩
      | some result =>
        simp only
        have hrc := hres result rfl
        refine Always.bind (splitRefs_always ref'.cells e ref'.hdr result) ?_
        intro r ⟨h1, h2⟩
        obtain ⟨e5, oneRef⟩ := r
        cases oneRef with
        | none => exact Always.ret ⟨h1, fun one h => by cases h⟩
        | some one =>
          simp only
          refine Always.seq fun _ => ?_
          refine Always.ret ⟨h1, fun one' ho x hx => ?_⟩
          cases ho
          rcases h2 one rfl x hx with h | h
          · simp [AList.items, hrc] at h
          · exact hprov x h

end Wbxml.Model.Alloc
