/-
  C18 lemmas, part 14: the canonical API history of an XML event list, the class of event lists on
  which the XML front end (`Model/TreeOfXml.lean`) does nothing beyond the API calls (`plainEvents`),
  and the agreement of the two name look-ups (`xmlElt` of the front end, `xmlEltName` / `xmlAttr` of the
  API model).
-/
import Wbxml.Model.TreeHeap
import Wbxml.Model.TreeOfXml
set_option linter.unusedSimpArgs false
set_option linter.unusedVariables false
namespace Wbxml.Model.TreeHeap
open Wbxml Wbxml.Model

/-! ### The document-order API history of an event list -/

/-- `cnt` is the address the next created node gets (one fresh cell per `wbxml_tree_add_*` call),
    `ps` the open nodes, innermost first (`ps.head?` is the current parent; NULL before the root). -/
def histGo : Nat → List Nat → List XEvent → List Op
  | _, _, [] => []
  | cnt, ps, e :: es =>
    match e with
    | .startElt name attrs _ => .addXmlEltAttrs ps.head? name attrs :: histGo (cnt + 1) (cnt :: ps) es
    | .endElt _ _ => histGo cnt ps.tail es
    | .chars s => .addText ps.head? s :: histGo (cnt + 1) ps es
    | .startCdata => .addCdata ps.head? :: histGo (cnt + 1) (cnt :: ps) es
    | .endCdata => histGo cnt ps.tail es
    | _ => histGo cnt ps es

/-- The calls a client issues to build, in document order, the document Expat reports as `es`:
    `wbxml_tree_add_xml_elt_with_attrs` under the current parent for a start tag (the new node becomes
    the current parent), `wbxml_tree_add_text` for character data, `wbxml_tree_add_cdata` for the start of
    a CDATA section (the CDATA node becomes the current parent, its text is added below it), one step up
    at an end tag / at the end of a CDATA section.  Prolog events produce no call. -/
def apiHistoryOf (es : List XEvent) : List Op := histGo 0 [] es

/-! ### The event lists covered -/

/-- What `plainEvents` remembers about an open node: an element (and whether character data directly
    below it is handled by the front end as a plain text child), or a CDATA section. -/
inductive POpen where
  | elt (textOK : Bool)
  | cdata
  deriving DecidableEq, Repr

inductive PPhase where
  | prolog                       -- before the root element
  | body (stk : List POpen)      -- inside the root element; innermost open node first
  | epilog                       -- after the root element
  deriving DecidableEq, Repr

/-- Character data directly below the element `name` is attached as a text child and nothing else:
    the element is not binary-flagged (ActiveSync: the front end collects the text and attaches its
    base64 DECODING at the end tag) and is not called `Data` (SyncML: depending on `Meta/Type` of the
    surrounding command the front end wraps the text in a CDATA node and rewrites a lone LF). -/
def textPlain (L : Lang) (name : Bytes) : Bool :=
  !isBinaryName (xmlEltName L name).1 && !((xmlEltName L name).1.xmlName == b!"Data")

/-- The attribute is handed to `wbxml_tree_node_add_xml_attr` under the name Expat reports (the
    namespace-aware parser reports `xml:lang` as `http://www.w3.org/XML/1998/namespace|lang`, which the
    front end maps back to `xml:lang` first). -/
def attrPlain (nv : Bytes × Bytes) : Bool := !(xmlNsUri.isPrefixOf nv.1)

/-- A start tag below the root with one of these names starts an embedded DevInf / DM-DDF document:
    the front end skips to the end tag and re-parses the byte range as a document of its own. -/
def embeddedName (name : Bytes) : Bool := name == devinfName || name == mgmtName

/-- The innermost open ELEMENT (a CDATA section stands for the element that owns it). -/
def textAllowed : List POpen → Bool
  | .elt ok :: _ => ok
  | .cdata :: .elt ok :: _ => ok
  | _ => false

/-- One event; `none` = not covered. -/
def plainStep (L : Lang) (ph : PPhase) (e : XEvent) : Option PPhase :=
  match e with
  | .pi => some ph
  | .xmlDecl _ _ => some ph
  | .doctype _ _ =>
    (match ph with
     | .prolog => some .prolog
     | _ => none)
  | .startElt name attrs _ =>
    (match ph with
     | .prolog => if attrs.all attrPlain then some (.body [.elt (textPlain L name)]) else none
     | .body (.elt ok :: r) =>
       if !embeddedName name && attrs.all attrPlain then some (.body (.elt (textPlain L name) :: .elt ok :: r))
       else none
     | _ => none)
  | .endElt _ _ =>
    (match ph with
     | .body [.elt _] => some .epilog
     | .body (.elt _ :: p :: r) => some (.body (p :: r))
     | _ => none)
  | .startCdata =>
    (match ph with
     | .body (.elt ok :: r) => some (.body (.cdata :: .elt ok :: r))
     | _ => none)
  | .endCdata =>
    (match ph with
     | .body (.cdata :: p :: r) => some (.body (p :: r))
     | _ => none)
  | .chars _ =>
    (match ph with
     | .body stk => if textAllowed stk then some (.body stk) else none
     | _ => none)

def plainFrom (L : Lang) : PPhase → List XEvent → Bool
  | ph, [] => (match ph with
    | .body _ => false
    | _ => true)
  | ph, e :: es =>
    match plainStep L ph e with
    | some ph' => plainFrom L ph' es
    | none => false

/-- The event lists for which `api_tree_equals_parsed_partial` is proved; `L` is the language the
    front end selects (DOCTYPE, else root element).
    * shape: what Expat reports for a well-formed document — prolog (XML declaration, DOCTYPE,
      processing instructions), ONE root element with properly nested content, epilog; a CDATA section
      sits below an element and contains character data only; element content and CDATA content may be
      interleaved with processing instructions (no call, no effect on either side);
    * a start tag below the root is not `syncml:devinf|DevInf` / `syncml:dmddf1.2|MgmtTree` (`embeddedName`);
    * no attribute is reported in the XML namespace (`attrPlain`);
    * character data occurs only where the innermost open element satisfies `textPlain`. -/
def plainEvents (L : Lang) (es : List XEvent) : Bool := plainFrom L .prolog es

/-! ### Reading `plainStep` backwards -/

theorem plainStep_start_prolog {L : Lang} {name : Bytes} {attrs : List (Bytes × Bytes)} {idx : Nat} {ph' : PPhase}
    (h : plainStep L .prolog (.startElt name attrs idx) = some ph') :
    attrs.all attrPlain = true ∧ ph' = .body [.elt (textPlain L name)] := by
  simp only [plainStep] at h
  by_cases hc : attrs.all attrPlain = true
  · rw [if_pos hc] at h; injection h with h; exact ⟨hc, h.symm⟩
  · rw [if_neg hc] at h; cases h

theorem plainStep_start_body {L : Lang} {stk : List POpen} {name : Bytes} {attrs : List (Bytes × Bytes)} {idx : Nat}
    {ph' : PPhase} (h : plainStep L (.body stk) (.startElt name attrs idx) = some ph') :
    ∃ ok r, stk = .elt ok :: r ∧ embeddedName name = false ∧ attrs.all attrPlain = true ∧
      ph' = .body (.elt (textPlain L name) :: .elt ok :: r) := by
  cases stk with
  | nil => simp [plainStep] at h
  | cons p r =>
    cases p with
    | cdata => simp [plainStep] at h
    | elt ok =>
      simp only [plainStep] at h
      by_cases hc : (!embeddedName name && attrs.all attrPlain) = true
      · rw [if_pos hc] at h; injection h with h
        simp only [Bool.and_eq_true, Bool.not_eq_true'] at hc
        exact ⟨ok, r, rfl, hc.1, hc.2, h.symm⟩
      · rw [if_neg hc] at h; cases h

theorem plainStep_end_body {L : Lang} {stk : List POpen} {name : Bytes} {idx : Nat} {ph' : PPhase}
    (h : plainStep L (.body stk) (.endElt name idx) = some ph') :
    ∃ ok, (stk = [.elt ok] ∧ ph' = .epilog) ∨ ∃ p r, stk = .elt ok :: p :: r ∧ ph' = .body (p :: r) := by
  cases stk with
  | nil => simp [plainStep] at h
  | cons p r =>
    cases p with
    | cdata => simp [plainStep] at h
    | elt ok =>
      cases r with
      | nil => simp only [plainStep] at h; injection h with h; exact ⟨ok, Or.inl ⟨rfl, h.symm⟩⟩
      | cons p' r' => simp only [plainStep] at h; injection h with h; exact ⟨ok, Or.inr ⟨p', r', rfl, h.symm⟩⟩

theorem plainStep_startCdata_body {L : Lang} {stk : List POpen} {ph' : PPhase}
    (h : plainStep L (.body stk) .startCdata = some ph') :
    ∃ ok r, stk = .elt ok :: r ∧ ph' = .body (.cdata :: .elt ok :: r) := by
  cases stk with
  | nil => simp [plainStep] at h
  | cons p r =>
    cases p with
    | cdata => simp [plainStep] at h
    | elt ok => simp only [plainStep] at h; injection h with h; exact ⟨ok, r, rfl, h.symm⟩

theorem plainStep_endCdata_body {L : Lang} {stk : List POpen} {ph' : PPhase}
    (h : plainStep L (.body stk) .endCdata = some ph') :
    ∃ p r, stk = .cdata :: p :: r ∧ ph' = .body (p :: r) := by
  cases stk with
  | nil => simp [plainStep] at h
  | cons p r =>
    cases p with
    | elt ok => simp [plainStep] at h
    | cdata =>
      cases r with
      | nil => simp [plainStep] at h
      | cons p' r' => simp only [plainStep] at h; injection h with h; exact ⟨p', r', rfl, h.symm⟩

theorem plainStep_chars_body {L : Lang} {stk : List POpen} {t : Bytes} {ph' : PPhase}
    (h : plainStep L (.body stk) (.chars t) = some ph') : textAllowed stk = true ∧ ph' = .body stk := by
  simp only [plainStep] at h
  by_cases hc : textAllowed stk = true
  · rw [if_pos hc] at h; injection h with h; exact ⟨hc, h.symm⟩
  · rw [if_neg hc] at h; cases h

/-! ### `strrchr(name, '|')` on both sides -/

theorem lastIndexOf_go_none (b : UInt8) : ∀ (s : Bytes) (i : Nat) (best : Option Nat), b ∉ s →
    lastIndexOf.go b i best s = best
  | [], _, _, _ => rfl
  | c :: r, i, best, h => by
    simp only [List.mem_cons, not_or] at h
    have hc : (c == b) = false := by
      cases hcb : (c == b) with
      | false => rfl
      | true =>
        have hcb' : c = b := by simpa using hcb
        exact absurd hcb'.symm h.1
    simp only [lastIndexOf.go, hc, Bool.false_eq_true, if_false]
    exact lastIndexOf_go_none b r (i + 1) best h.2

theorem lastIndexOf_go_split (b : UInt8) (post : Bytes) (hpost : b ∉ post) : ∀ (pre : Bytes) (i : Nat) (best : Option Nat),
    lastIndexOf.go b i best (pre ++ b :: post) = some (i + pre.length)
  | [], i, best => by
    simp only [List.nil_append, lastIndexOf.go, beq_self_eq_true, if_true, List.length_nil, Nat.add_zero]
    exact lastIndexOf_go_none b post (i + 1) (some i) hpost
  | c :: pre, i, best => by
    simp only [List.cons_append, lastIndexOf.go, List.length_cons]
    rw [lastIndexOf_go_split b post hpost pre (i + 1)]
    congr 1; omega

theorem exists_last_split (b : UInt8) : ∀ (s : Bytes), b ∈ s → ∃ pre post, s = pre ++ b :: post ∧ b ∉ post
  | [], h => by simp at h
  | c :: r, h => by
    by_cases hr : b ∈ r
    · obtain ⟨pre, post, e, hp⟩ := exists_last_split b r hr
      exact ⟨c :: pre, post, by rw [e]; rfl, hp⟩
    · simp only [List.mem_cons] at h
      rcases h with h | h
      · subst h; exact ⟨[], r, rfl, hr⟩
      · exact absurd h hr

theorem dropWhile_append_stop {α : Type} (p : α → Bool) (y : α) (m : List α) (hy : p y = false) :
    ∀ (l : List α), (∀ x, x ∈ l → p x = true) →
      (l ++ y :: m).dropWhile p = y :: m ∧ (l ++ y :: m).takeWhile p = l
  | [], _ => by simp [List.dropWhile, List.takeWhile, hy]
  | a :: l, h => by
    have ha := h a (by simp)
    have ih := dropWhile_append_stop p y m hy l (fun x hx => h x (by simp [hx]))
    simp only [List.cons_append, List.dropWhile, List.takeWhile, ha, ih.1, ih.2]
    exact ⟨trivial, trivial⟩

/-- The split of the API model (`splitNs`) is the split of the front end. -/
theorem splitNs_eq (name : Bytes) :
    splitNs name = (match lastIndexOf 124 name with
      | some i => (name.take i, name.drop (i + 1))
      | none => ([], name)) := by
  by_cases hm : (124 : UInt8) ∈ name
  · obtain ⟨pre, post, e, hp⟩ := exists_last_split 124 name hm
    have hl : lastIndexOf 124 name = some pre.length := by
      unfold lastIndexOf
      rw [e, lastIndexOf_go_split 124 post hp pre 0 none]; simp
    have hc : name.contains 124 = true := by simpa using hm
    have hrev : name.reverse = post.reverse ++ 124 :: pre.reverse := by
      rw [e]; simp
    have hall : ∀ x, x ∈ post.reverse → (x != 124) = true := by
      intro x hx
      have hx' : x ∈ post := by simpa using hx
      simp only [bne_iff_ne, ne_eq]
      intro ex; exact hp (ex ▸ hx')
    have hd := dropWhile_append_stop (fun x : UInt8 => x != 124) 124 pre.reverse (by simp) post.reverse hall
    simp only [splitNs, hc, if_true, hl, hrev, hd.1, hd.2, List.drop_succ_cons, List.drop_zero, List.reverse_reverse]
    rw [e]
    have h1 : (pre ++ 124 :: post).take pre.length = pre := by simp
    have h2 : (pre ++ 124 :: post).drop (pre.length + 1) = post := by
      have : pre ++ 124 :: post = (pre ++ [124]) ++ post := by simp
      rw [this]
      have hlen : (pre ++ [(124 : UInt8)]).length = pre.length + 1 := by simp
      rw [← hlen, List.drop_left]
    rw [h1, h2]
  · have hl : lastIndexOf 124 name = none := by
      unfold lastIndexOf; exact lastIndexOf_go_none 124 name 0 none hm
    have hc : name.contains 124 = false := by simpa using hm
    simp only [splitNs, hc, hl, Bool.false_eq_true, if_false]

/-! ### The two name look-ups agree -/

/-- The attribute as the front end stores it. -/
def xmlAttrFront (L : Lang) (nv : Bytes × Bytes) : Attr :=
  let n := if xmlNsUri.isPrefixOf nv.1 then b!"xml:" ++ nv.1.drop xmlNsUri.length else nv.1
  let an := match L.attrs with
    | some t => (match encAttr t n nv.2 with
      | some (r, _) => AName.token r
      | none => AName.literal n)
    | none => AName.literal n
  { name := an, value := nv.2 }

theorem xmlAttrFront_plain (L : Lang) (nv : Bytes × Bytes) (h : attrPlain nv = true) :
    xmlAttrFront L nv = xmlAttr L nv := by
  have hp : xmlNsUri.isPrefixOf nv.1 = false := by
    unfold attrPlain at h
    cases hx : xmlNsUri.isPrefixOf nv.1 with
    | false => rfl
    | true => rw [hx] at h; cases h
  unfold xmlAttrFront xmlAttr
  simp only [hp, Bool.false_eq_true, if_false]
  rfl

theorem map_xmlAttrFront_plain (L : Lang) : ∀ (attrs : List (Bytes × Bytes)), attrs.all attrPlain = true →
    attrs.map (xmlAttrFront L) = attrs.map (xmlAttr L)
  | [], _ => rfl
  | a :: r, h => by
    simp only [List.all_cons, Bool.and_eq_true] at h
    simp only [List.map_cons, xmlAttrFront_plain L a h.1, map_xmlAttrFront_plain L r h.2]

/-- `wbxml_tree_add_xml_elt_with_attrs` as the front end calls it, in terms of the API model's
    look-ups. -/
theorem xmlElt_eq_api (L : Lang) (name : Bytes) (attrs : List (Bytes × Bytes)) :
    xmlElt L name attrs =
      ({ kind := .elt (xmlEltName L name).1 (attrs.map (xmlAttrFront L)), kids := [] }, (xmlEltName L name).2) := by
  unfold xmlElt xmlEltName
  rw [splitNs_eq]
  cases lastIndexOf 124 name with
  | none =>
    simp only
    cases L.tags with
    | none => rfl
    | some tags =>
      simp only
      cases encTag tags _ name <;> rfl
  | some i =>
    simp only
    cases L.tags with
    | none => rfl
    | some tags =>
      simp only
      cases encTag tags _ (List.drop (i + 1) name) <;> rfl

theorem xmlElt_plain (L : Lang) (name : Bytes) (attrs : List (Bytes × Bytes)) (h : attrs.all attrPlain = true) :
    xmlElt L name attrs =
      ({ kind := .elt (xmlEltName L name).1 (attrs.map (xmlAttr L)), kids := [] }, (xmlEltName L name).2) := by
  rw [xmlElt_eq_api, map_xmlAttrFront_plain L attrs h]

end Wbxml.Model.TreeHeap
