/-
  WBXML encoder proofs: `parse_text` / `wbxml_encode_value_element_buffer` (content context) write a
  list of content items of the grammar that are not elements (`Leaf`): inline strings, string-table
  references, Wireless-Village extension tokens, opaque data.
-/
import Wbxml.Lemmas.EncWAttr
namespace Wbxml.Lemmas.EncW
open Wbxml Wbxml.Model Wbxml.Spec Wbxml.Lemmas.ParseSer
open Wbxml.Model.Codec (mbEncode)

theorem bind_ok_someO {α : Type} (x : Except Err α) (f : α → WSt) (st2 : WSt)
    (h : (x >>= fun a => pure (some (f a))) = (.ok (some st2) : Except Err (Option WSt))) :
    ∃ a, x = .ok a ∧ st2 = f a := bind_ok_some x f st2 h

/-- `wbxml_encode_wv_content` writes one leaf. -/
theorem wvContentW_some (c : WCfg) (s : Bytes) (st st1 : WSt) (hs : nulFree s = true)
    (h : wvContentW c s st = .ok (some st1)) :
    ∃ it, Leaf c st.strtbl it ∧ st1 = st.emit (serItem it) := by
  unfold wvContentW at h
  simp only at h
  split at h
  · -- integer
    cases hx : Typed.encodeWvInt s with
    | error e => rw [hx] at h; cases h
    | ok r =>
      rw [hx] at h
      cases r with
      | none => cases h
      | some item =>
        have h' : (Except.ok (some (st.emit item)) : Except Err (Option WSt)) = .ok (some st1) := h
        injection h' with h'; injection h' with h'
        obtain ⟨p, rfl⟩ := encodeWvInt_shape s item hx
        exact ⟨.opaque p, .opq p, by rw [← h', serItem_opaque]⟩
  · -- date and time
    obtain ⟨item, hi, rfl⟩ := bind_ok_some _ (fun item : Typed.WvItem => st.emit item.bytes) _ h
    rcases encodeWvDate_shape s item hi with hb | ⟨p, hb⟩
    · exact ⟨.str (.inl s), .inl s hs, by rw [hb, serItem_str]⟩
    · exact ⟨.opaque p, .opq p, by rw [hb, serItem_opaque]⟩
  · -- extension token
    split at h
    · cases h
    · rename_i exts hexts
      split at h
      · rename_i r hr
        have h' : (Except.ok (some (st.emit (extW r.token))) : Except Err (Option WSt)) = .ok (some st1) := h
        injection h' with h'; injection h' with h'
        refine ⟨.ext none (.tbl 0 (r.token % 256)), .ext _ (by simp [hexts]) (Nat.mod_lt _ (by decide)), ?_⟩
        rw [← h', serItem_extT0]; rfl
      · cases h

/-- `wbxml_encode_drmrel_content` writes one OPAQUE. -/
theorem drmrelContentW_some (c : WCfg) (parent : Option Name) (s : Bytes) (st st1 : WSt)
    (h : drmrelContentW parent s st = .ok (some st1)) :
    ∃ it, Leaf c st.strtbl it ∧ st1 = st.emit (serItem it) := by
  unfold drmrelContentW at h
  split at h
  · split at h
    · obtain ⟨d, _, rfl⟩ := bind_ok_some _ (fun d => st.emit (opaqueW d)) _ h
      exact ⟨.opaque d, .opq d, by rw [serItem_opq]⟩
    · cases h
  · cases h

/-- What a typed content text is written as (the payload `p` of the single OPAQUE), and why. -/
def TypedOut (c : WCfg) (parent : Option Name) (s : Bytes) (cur : Option TagRow) (p : Bytes) : Prop :=
  (isWv c.lang.id = true ∧ ∃ t, cur = some t ∧
     ((Typed.wvEncKind t.page t.token = .integer ∧ p.length ≤ 4) ∨
      (Typed.wvEncKind t.page t.token = .dateTime ∧ p.length = 6))) ∨
  (c.lang.id = 1801 ∧ ∃ r, parent = some (.token r) ∧ isKvRow c.lang.id r = true ∧
     Codec.b64DecodeE (b64TextW s) = .ok p)

theorem wvContentW_some' (c : WCfg) (s : Bytes) (st st1 : WSt) (hs : nulFree s = true)
    (h : wvContentW c s st = .ok (some st1)) :
    ∃ it, Leaf c st.strtbl it ∧ st1 = st.emit (serItem it) ∧
      (opqsItem it = [] ∨ ∃ p, it = .opaque p ∧ ∃ t, st.curTag = some t ∧
        ((Typed.wvEncKind t.page t.token = .integer ∧ p.length ≤ 4) ∨
         (Typed.wvEncKind t.page t.token = .dateTime ∧ p.length = 6))) := by
  have hext : (match c.lang.exts with
      | none => pure none
      | some exts =>
        match encExt exts s with
        | some r => pure (some (st.emit (extW r.token)))
        | none => pure none : Except Err (Option WSt)) = .ok (some st1) →
      ∃ it, Leaf c st.strtbl it ∧ st1 = st.emit (serItem it) ∧ opqsItem it = [] := by
    intro h
    split at h
    · cases h
    · rename_i exts hexts
      split at h
      · rename_i r hr
        have h' : (Except.ok (some (st.emit (extW r.token))) : Except Err (Option WSt)) = .ok (some st1) := h
        injection h' with h'; injection h' with h'
        refine ⟨.ext none (.tbl 0 (r.token % 256)), .ext _ (by simp [hexts]) (Nat.mod_lt _ (by decide)), ?_, opqsItem_ext _ _⟩
        rw [← h', serItem_extT0]; rfl
      · cases h
  unfold wvContentW at h
  cases hct : st.curTag with
  | none =>
    rw [hct] at h
    obtain ⟨it, h1, h2, h3⟩ := hext h
    exact ⟨it, h1, h2, Or.inl h3⟩
  | some t =>
    rw [hct] at h
    simp only at h
    cases hk : Typed.wvEncKind t.page t.token with
    | integer =>
      rw [hk] at h
      simp only at h
      cases hx : Typed.encodeWvInt s with
      | error e => rw [hx] at h; cases h
      | ok r =>
        rw [hx] at h
        cases r with
        | none => cases h
        | some item =>
          have h' : (Except.ok (some (st.emit item)) : Except Err (Option WSt)) = .ok (some st1) := h
          injection h' with h'; injection h' with h'
          obtain ⟨p, rfl, hp⟩ := encodeWvInt_shape' s item hx
          exact ⟨.opaque p, .opq p, by rw [← h', serItem_opaque], Or.inr ⟨p, rfl, t, rfl, Or.inl ⟨hk, hp⟩⟩⟩
    | dateTime =>
      rw [hk] at h
      simp only at h
      obtain ⟨item, hi, rfl⟩ := bind_ok_some _ (fun item : Typed.WvItem => st.emit item.bytes) _ h
      rcases encodeWvDate_shape' s item hi with hb | ⟨p, hb, hp⟩
      · exact ⟨.str (.inl s), .inl s hs, by rw [hb, serItem_str], Or.inl (opqsItem_str _)⟩
      · exact ⟨.opaque p, .opq p, by rw [hb, serItem_opaque], Or.inr ⟨p, rfl, t, rfl, Or.inr ⟨hk, hp⟩⟩⟩
    | other =>
      rw [hk] at h
      obtain ⟨it, h1, h2, h3⟩ := hext h
      exact ⟨it, h1, h2, Or.inl h3⟩

theorem drmrelContentW_some' (parent : Option Name) (s : Bytes) (st st1 : WSt)
    (h : drmrelContentW parent s st = .ok (some st1)) :
    ∃ p, st1 = st.emit (serItem (.opaque p)) ∧ ∃ r, parent = some (.token r) ∧
      (r.page == 0 && r.token == 0x0C) = true ∧ Codec.b64DecodeE (b64TextW s) = .ok p := by
  unfold drmrelContentW at h
  split at h
  · rename_i r
    split at h
    · rename_i hr
      obtain ⟨d, hd, rfl⟩ := bind_ok_some _ (fun d => st.emit (opaqueW d)) _ h
      exact ⟨d, by rw [serItem_opq], r, rfl, hr, hd⟩
    · cases h
  · cases h

theorem opqs_velts_all (l : List VElt) : opqsItems (l.flatMap itemsOfVElt) = [] := by
  induction l with
  | nil => simp [opqsItems_nil]
  | cons e es ih =>
    rw [List.flatMap_cons, opqsItems_append, ih, List.append_nil]
    cases e with
    | str s =>
      simp only [itemsOfVElt]
      split
      · rw [opqsItems_cons, opqsItem_str, opqsItems_nil]; rfl
      · rw [opqsItems_nil]
    | ref o => simp only [itemsOfVElt]; rw [opqsItems_cons, opqsItem_str, opqsItems_nil]; rfl
    | ext r => simp only [itemsOfVElt]; rw [opqsItems_cons, opqsItem_ext, opqsItems_nil]; rfl
    | tok r => simp only [itemsOfVElt]; rw [opqsItems_nil]

theorem nulFree_syncmlTypeText (id : Nat) (s : Bytes) (hs : nulFree s = true) :
    nulFree (syncmlTypeText id s) = true := by
  unfold syncmlTypeText
  split
  · simp only
    split
    · decide
    · split
      · decide
      · exact hs
  · exact hs

/-- Content context of `wbxml_encode_value_element_buffer`. -/
theorem encContentValueW_spec' (c : WCfg) (parent : Option Name) (s : Bytes) (st st' : WSt)
    (hs : nulFree s = true) (h : encContentValueW c parent s st = .ok st') :
    ∃ items, st' = st.emit (serItems items) ∧ (∀ it ∈ items, Leaf c st.strtbl it) ∧
      (opqsItems items = [] ∨ ∃ p, items = [.opaque p] ∧ s ≠ [] ∧ TypedOut c parent s st.curTag p) := by
  unfold encContentValueW at h
  split at h
  · injection h with h; subst h
    exact ⟨[], by rw [serItems_nil, emit_nil], (by intro it hit; cases hit), Or.inl opqsItems_nil⟩
  · rename_i hne
    have hsne : s ≠ [] := fun e => hne (by rw [e]; rfl)
    -- generic path from a list that is already inside its classes
    have generic : ∀ l0 : List VElt, (∀ e ∈ l0, VOk c st.strtbl e ∧ notTok e) →
        (do let l ← (if c.useStrtbl = true then splitByStrtbl st.strtbl l0 else pure l0)
            pure (emitVElts st l) : Except Err WSt) = .ok st' →
        ∃ items, st' = st.emit (serItems items) ∧ (∀ it ∈ items, Leaf c st.strtbl it) ∧ opqsItems items = [] := by
      intro l0 hl0 h
      have hcut : CutStable (fun e => VOk c st.strtbl e ∧ notTok e) :=
        fun s i h => ⟨⟨(vok_cut c st.strtbl s i h.1).1, trivial⟩, ⟨(vok_cut c st.strtbl s i h.1).2, trivial⟩⟩
      have fin : ∀ l : List VElt, (∀ e ∈ l, VOk c st.strtbl e ∧ notTok e) →
          ∃ items, emitVElts st l = st.emit (serItems items) ∧ (∀ it ∈ items, Leaf c st.strtbl it) ∧
            opqsItems items = [] :=
        fun l hl => ⟨_, emitVElts_content l (fun e he => (hl e he).2) st,
          flatMap_itemsOfVElt_leaf c st.strtbl l (fun e he => (hl e he).1), opqs_velts_all l⟩
      cases hu : c.useStrtbl with
      | false =>
        simp only [hu, Bool.false_eq_true, ↓reduceIte] at h
        have h' : (Except.ok (emitVElts st l0) : Except Err WSt) = .ok st' := h
        injection h' with h'; subst h'
        exact fin l0 hl0
      | true =>
        simp only [hu, ↓reduceIte] at h
        cases hl2 : splitByStrtbl st.strtbl l0 with
        | error e => rw [hl2] at h; cases h
        | ok l2 =>
          rw [hl2] at h
          have h' : (Except.ok (emitVElts st l2) : Except Err WSt) = .ok st' := h
          injection h' with h'; subst h'
          exact fin l2 (splitByStrtbl_all _ hcut st.strtbl (fun e he => ⟨⟨e, he, rfl⟩, trivial⟩) _ _ hl0 hl2)
    have hstart : ∀ e ∈ [VElt.str (syncmlTypeText c.lang.id s)], VOk c st.strtbl e ∧ notTok e := by
      intro e he
      simp only [List.mem_cons, List.mem_nil_iff, or_false] at he
      subst he
      exact ⟨nulFree_syncmlTypeText _ _ hs, trivial⟩
    have tail : (do
          let l : List VElt := [.str (syncmlTypeText c.lang.id s)]
          let l := match c.lang.exts with
            | some exts => splitByExts exts l
            | none => l
          let l ← (if c.useStrtbl = true then splitByStrtbl st.strtbl l else pure l)
          pure (emitVElts st l) : Except Err WSt) = .ok st' →
        ∃ items, st' = st.emit (serItems items) ∧ (∀ it ∈ items, Leaf c st.strtbl it) ∧ opqsItems items = [] := by
      intro h
      cases hx : c.lang.exts with
      | none => rw [hx] at h; exact generic _ hstart h
      | some exts =>
        rw [hx] at h
        refine generic _ ?_ h
        exact splitByExts_all (fun e => VOk c st.strtbl e ∧ notTok e) ⟨nulFree_nil, trivial⟩ exts
          (fun r hr => ⟨⟨exts, hx, hr⟩, trivial⟩) _ hstart
    -- the language specific pre-passes
    cases hwv : (if isWv c.lang.id = true then wvContentW c s st else pure none) with
    | error e => rw [hwv] at h; cases h
    | ok r1 =>
      rw [hwv] at h
      cases r1 with
      | some st1 =>
        have h' : (Except.ok st1 : Except Err WSt) = .ok st' := h
        injection h' with h'; subst h'
        split at hwv
        · rename_i hisWv
          obtain ⟨it, hit, rfl, hk⟩ := wvContentW_some' c s st st1 hs hwv
          refine ⟨[it], by rw [serItems_cons, serItems_nil, List.append_nil],
            (by intro x hx; simp only [List.mem_cons, List.mem_nil_iff, or_false] at hx; subst hx; exact hit), ?_⟩
          rcases hk with hk | ⟨p, rfl, t, ht, hk⟩
          · exact Or.inl (by rw [opqsItems_cons, hk, opqsItems_nil]; rfl)
          · exact Or.inr ⟨p, rfl, hsne, Or.inl ⟨hisWv, t, ht, hk⟩⟩
        · cases hwv
      | none =>
        have h2 : (do
            let r2 ← (if (c.lang.id == 1801) = true then drmrelContentW parent s st else pure none)
            match r2 with
            | some st => pure st
            | none => do
              let l : List VElt := [.str (syncmlTypeText c.lang.id s)]
              let l := match c.lang.exts with
                | some exts => splitByExts exts l
                | none => l
              let l ← (if c.useStrtbl = true then splitByStrtbl st.strtbl l else pure l)
              pure (emitVElts st l) : Except Err WSt) = .ok st' := h
        cases hdr : (if (c.lang.id == 1801) = true then drmrelContentW parent s st else pure none) with
        | error e => rw [hdr] at h2; cases h2
        | ok r2 =>
          rw [hdr] at h2
          cases r2 with
          | some st1 =>
            have h' : (Except.ok st1 : Except Err WSt) = .ok st' := h2
            injection h' with h'; subst h'
            split at hdr
            · rename_i hisD
              obtain ⟨p, rfl, r, hpar, hr, hdec⟩ := drmrelContentW_some' parent s st st1 hdr
              have hid : c.lang.id = 1801 := by simpa using hisD
              refine ⟨[.opaque p], by rw [serItems_cons, serItems_nil, List.append_nil],
                (by intro x hx; simp only [List.mem_cons, List.mem_nil_iff, or_false] at hx; subst hx; exact .opq p), ?_⟩
              refine Or.inr ⟨p, rfl, hsne, Or.inr ⟨hid, r, hpar, ?_, hdec⟩⟩
              simp only [isKvRow, hid, beq_self_eq_true, Bool.true_and]
              simpa using hr
            · cases hdr
          | none =>
            obtain ⟨items, h1, h2, h3⟩ := tail h2
            exact ⟨items, h1, h2, Or.inl h3⟩


theorem encContentValueW_spec (c : WCfg) (parent : Option Name) (s : Bytes) (st st' : WSt)
    (hs : nulFree s = true) (h : encContentValueW c parent s st = .ok st') :
    ∃ items, st' = st.emit (serItems items) ∧ ∀ it ∈ items, Leaf c st.strtbl it := by
  obtain ⟨items, h1, h2, _⟩ := encContentValueW_spec' c parent s st st' hs h
  exact ⟨items, h1, h2⟩

theorem syncmlTypeText_nil (id : Nat) : syncmlTypeText id [] = [] := by
  unfold syncmlTypeText
  split
  · have h1 : caseEq [] b!"application/vnd.syncml-devinf+xml" = false := by decide
    have h2 : caseEq [] b!"application/vnd.syncml.dmtnds+xml" = false := by decide
    simp [h1, h2]
  · rfl

theorem langOk_noexts {l : Lang} (h : langOk l = true) (hw : isWv l.id = false) : l.exts = none := by
  cases hx : l.exts with
  | none => rfl
  | some x =>
    have := langOk_exts h (by simp [hx])
    rw [hw] at this; cases this

/-- **Text is preserved by the value encoder** (generic path: every language but Wireless Village
    and DRMREL, whose typed content is C12's subject): a reader whose string table resolves the
    encoder's table reads back exactly the text (`syncmlTypeText` is the SyncML `+xml` → `+wbxml`
    media-type rewriting), whether or not a string table is used and whatever it contains. -/
theorem encContentValueW_text (c : WCfg) (parent : Option Name) (s : Bytes) (st st' : WSt)
    (hs : nulFree s = true) (hl : langOk c.lang = true) (hnw : isWv c.lang.id = false)
    (hnd : (c.lang.id == 1801) = false) (h : encContentValueW c parent s st = .ok st') :
    ∃ items, st' = st.emit (serItems items) ∧ (∀ it ∈ items, Leaf c st.strtbl it) ∧
      (s = [] → items = []) ∧ opqsItems items = [] ∧
      ∀ ctx : Ctx, Resolves ctx.tbl st.strtbl → ∀ own pg,
        (s ≠ [] → charsCat (evItems ctx own pg items).1 = syncmlTypeText c.lang.id s) ∧
        (evItems ctx own pg items).1.flatMap toks = (syncmlTypeText c.lang.id s).map .ch := by
  unfold encContentValueW at h
  split at h
  · rename_i he
    injection h with h; subst h
    have hse : s = [] := List.isEmpty_iff.mp he
    exact ⟨[], by rw [serItems_nil, emit_nil], (by intro it hit; cases hit), fun _ => rfl, opqsItems_nil,
      fun _ _ _ _ => ⟨fun hne => absurd hse hne, by subst hse; rw [evItems_nil, syncmlTypeText_nil]; rfl⟩⟩
  · simp only [hnw, Bool.false_eq_true, ↓reduceIte, hnd, langOk_noexts hl hnw] at h
    have h' : (do
        let l ← (if c.useStrtbl = true then splitByStrtbl st.strtbl [VElt.str (syncmlTypeText c.lang.id s)]
          else pure [VElt.str (syncmlTypeText c.lang.id s)])
        pure (emitVElts st l) : Except Err WSt) = .ok st' := h
    have h0 : ∀ e ∈ [VElt.str (syncmlTypeText c.lang.id s)], (VOk c st.strtbl e ∧ notTok e) ∧ strOrRef e := by
      intro e he
      simp only [List.mem_cons, List.mem_nil_iff, or_false] at he
      subst he
      exact ⟨⟨nulFree_syncmlTypeText _ _ hs, trivial⟩, trivial⟩
    have fin : ∀ l : List VElt, (∀ e ∈ l, (VOk c st.strtbl e ∧ notTok e) ∧ strOrRef e) →
        (∀ tb, Resolves tb st.strtbl → l.flatMap (vval tb) = syncmlTypeText c.lang.id s) →
        emitVElts st l = st' →
        ∃ items, st' = st.emit (serItems items) ∧ (∀ it ∈ items, Leaf c st.strtbl it) ∧
          (s = [] → items = []) ∧ opqsItems items = [] ∧
          ∀ ctx : Ctx, Resolves ctx.tbl st.strtbl → ∀ own pg,
            (s ≠ [] → charsCat (evItems ctx own pg items).1 = syncmlTypeText c.lang.id s) ∧
            (evItems ctx own pg items).1.flatMap toks = (syncmlTypeText c.lang.id s).map .ch := by
      intro l hl hcat he
      refine ⟨l.flatMap itemsOfVElt, ?_, flatMap_itemsOfVElt_leaf c st.strtbl l (fun e he => (hl e he).1.1), ?_,
        opqs_velts l (fun e he => (hl e he).2), ?_⟩
      · rw [← he]; exact emitVElts_content l (fun e he => (hl e he).1.2) st
      · intro hse; rename_i hne; exact absurd (by rw [hse]; rfl) hne
      · intro ctx hres own pg
        refine ⟨fun _ => ?_, ?_⟩
        · rw [evItems_velts ctx own pg l (fun e he => (hl e he).2), hcat ctx.tbl hres]
        · rw [evItems_velts_toks ctx own pg l (fun e he => (hl e he).2), hcat ctx.tbl hres]
    cases hu : c.useStrtbl with
    | false =>
      simp only [hu, Bool.false_eq_true, ↓reduceIte] at h'
      have := ok_inj h'
      exact fin _ h0 (fun tb _ => by simp [vval]) this
    | true =>
      simp only [hu, ↓reduceIte] at h'
      obtain ⟨l2, hl2, h'⟩ := bind_ok' h'
      have := ok_inj h'
      have hcut : CutStable (fun e => (VOk c st.strtbl e ∧ notTok e) ∧ strOrRef e) :=
        fun s i h => ⟨⟨⟨(vok_cut c st.strtbl s i h.1.1).1, trivial⟩, trivial⟩,
          ⟨⟨(vok_cut c st.strtbl s i h.1.1).2, trivial⟩, trivial⟩⟩
      have hl2ok := splitByStrtbl_all _ hcut st.strtbl (fun e he => ⟨⟨⟨e, he, rfl⟩, trivial⟩, trivial⟩) _ _ h0 hl2
      refine fin l2 hl2ok ?_ this
      intro tb hres
      rw [splitByStrtbl_concat c st.strtbl tb hres st.strtbl (fun _ h => h) _ _ (fun e he => (h0 e he).1.1) hl2]
      simp [vval]


/-- The character data a text node stands for after the documented normalisations: white-space-only
    text dropped and blanks trimmed unless white space is kept, the text read as a C string, the
    SyncML `+xml` media types written as `+wbxml`. -/
def normText (c : WCfg) (s : Bytes) : Bytes :=
  if c.ignoreEmpty && s.all isSpaceC then []
  else syncmlTypeText c.lang.id (cstrOf (if c.removeBlanks then stripBlanks s else s))

/-- Which OPAQUE a text node may be written as: none; the raw octets under a binary-flagged
    `current_tag`; or the single typed one (outside CDATA, for text that is not silent). -/
def TextOut (c : WCfg) (parent : Option Name) (s : Bytes) (st : WSt) (items : List Item) : Prop :=
  opqsItems items = [] ∨ (isBinaryTag st.curTag = true ∧ items = [.opaque s]) ∨
  ∃ p, items = [.opaque p] ∧ textSilent c s = false ∧ st.inCdata = false ∧ TypedOut c parent (textArg c s) st.curTag p

/-- `parse_text`: leaves only; neither code page nor the string table changes; outside CDATA and
    binary-flagged elements, in a language whose content is not typed, a reader gets exactly the
    octets of `normText`. -/
theorem encTextW_spec' (c : WCfg) (parent : Option Name) (s : Bytes) (st st' : WSt) (hinv : StrInv st)
    (h : encTextW c parent s st = .ok st') :
    ∃ items, (∀ it ∈ items, Leaf c st.strtbl it) ∧ st'.out = st.out ++ serItems items ∧
      st'.tagPage = st.tagPage ∧ st'.attrPage = st.attrPage ∧ st'.strtbl = st.strtbl ∧
      st'.strtblLen = st.strtblLen ∧ st'.inCdata = st.inCdata ∧
      (isWv c.lang.id = false → (c.lang.id == 1801) = false → langOk c.lang = true →
        st.inCdata = false → isBinaryTag st.curTag = false →
        opqsItems items = [] ∧
        ∀ ctx : Ctx, Resolves ctx.tbl st.strtbl → ∀ own pg,
          (evItems ctx own pg items).1.flatMap toks = (normText c s).map .ch) ∧
      TextOut c parent s st items := by
  have hA : ∀ k s', ({ st with textNo := st.textNo + 1 } : WSt).aliasWrite k s' = { st with textNo := st.textNo + 1 } :=
    fun k s' => aliasWrite_eq _ k s' hinv.noAlias
  unfold encTextW at h
  simp only [hA, ite_self] at h
  split at h
  · rename_i hbin
    injection h with h; subst h
    refine ⟨[.opaque s], by intro it hit; simp only [List.mem_cons, List.mem_nil_iff, or_false] at hit; subst hit; exact .opq s,
      by rw [serItems_cons, serItems_nil, serItem_opq]; simp, rfl, rfl, rfl, rfl, rfl, ?_, Or.inr (Or.inl ⟨hbin, rfl⟩)⟩
    intro _ _ _ _ hb
    have : isBinaryTag st.curTag = true := hbin
    rw [hb] at this; cases this
  · split at h
    · rename_i hskip
      injection h with h; subst h
      refine ⟨[], (by intro it hit; cases hit), by rw [serItems_nil, List.append_nil], rfl, rfl, rfl, rfl, rfl, ?_,
        Or.inl opqsItems_nil⟩
      intro _ _ _ hcd _
      refine ⟨opqsItems_nil, ?_⟩
      intro ctx _ own pg
      have hskip' : (!st.inCdata && c.ignoreEmpty && s.all isSpaceC) = true := hskip
      rw [hcd] at hskip'
      simp only [Bool.not_false, Bool.true_and] at hskip'
      rw [evItems_nil]
      simp [normText, hskip']
    · rename_i hskip
      split at h
      · rename_i hcd1
        have hcd1' : st.inCdata = true := hcd1
        split at h
        · cases h
        · injection h with h; subst h
          refine ⟨[], (by intro it hit; cases hit), by rw [serItems_nil, List.append_nil], rfl, rfl, rfl, rfl, rfl, ?_,
            Or.inl opqsItems_nil⟩
          intro _ _ _ hcd _
          rw [hcd1'] at hcd; cases hcd
      · rename_i hcd1
        have hcd0 : st.inCdata = false := by simpa using hcd1
        have hskip0 : (c.ignoreEmpty && s.all isSpaceC) = false := by
          have hskip' : ¬ (!st.inCdata && c.ignoreEmpty && s.all isSpaceC) = true := hskip
          rw [hcd0] at hskip'
          simpa using hskip'
        have harg : cstrOf (if (!st.inCdata && c.removeBlanks) = true then stripBlanks s else s) = textArg c s := by
          simp only [textArg, hcd0, Bool.not_false, Bool.true_and]
        obtain ⟨items, hst, hleaf, hcls⟩ := encContentValueW_spec' c parent _ _ st' (nulFree_cstrOf _) h
        have hout : TextOut c parent s st items := by
          rcases hcls with hno | ⟨p, hp1, hp2, hp3⟩
          · exact Or.inl hno
          · refine Or.inr (Or.inr ⟨p, hp1, ?_, hcd0, ?_⟩)
            · rw [harg] at hp2
              simp only [textSilent, hskip0, Bool.false_or, List.isEmpty_eq_false_iff]
              exact hp2
            · rw [harg] at hp3; exact hp3
        by_cases hp : isWv c.lang.id = false ∧ (c.lang.id == 1801) = false ∧ langOk c.lang = true
        · obtain ⟨items2, hst2, hleaf2, _, hnoq, htxt⟩ :=
            encContentValueW_text c parent _ _ st' (nulFree_cstrOf _) hp.2.2 hp.1 hp.2.1 h
          subst hst2
          refine ⟨items2, hleaf2, rfl, rfl, rfl, rfl, rfl, rfl, ?_, Or.inl hnoq⟩
          intro _ _ _ hcd _
          refine ⟨hnoq, ?_⟩
          intro ctx hres own pg
          have hskip' : ¬ (!st.inCdata && c.ignoreEmpty && s.all isSpaceC) = true := hskip
          rw [hcd] at hskip'
          simp only [Bool.not_false, Bool.true_and] at hskip'
          rw [(htxt ctx hres own pg).2]
          simp only [normText, hskip', Bool.false_eq_true, ↓reduceIte, hcd, Bool.not_false, Bool.true_and]
        · subst hst
          refine ⟨items, hleaf, rfl, rfl, rfl, rfl, rfl, rfl, ?_, hout⟩
          intro h1 h2 h3
          exact absurd ⟨h1, h2, h3⟩ hp

theorem encTextW_spec (c : WCfg) (parent : Option Name) (s : Bytes) (st st' : WSt) (hinv : StrInv st)
    (h : encTextW c parent s st = .ok st') :
    ∃ items, (∀ it ∈ items, Leaf c st.strtbl it) ∧ st'.out = st.out ++ serItems items ∧
      st'.tagPage = st.tagPage ∧ st'.attrPage = st.attrPage ∧ st'.strtbl = st.strtbl ∧
      st'.strtblLen = st.strtblLen ∧ st'.inCdata = st.inCdata ∧
      (isWv c.lang.id = false → (c.lang.id == 1801) = false → langOk c.lang = true →
        st.inCdata = false → isBinaryTag st.curTag = false →
        opqsItems items = [] ∧
        ∀ ctx : Ctx, Resolves ctx.tbl st.strtbl → ∀ own pg,
          (evItems ctx own pg items).1.flatMap toks = (normText c s).map .ch) := by
  obtain ⟨items, h1, h2, h3, h4, h5, h6, h7, h8, _⟩ := encTextW_spec' c parent s st st' hinv h
  exact ⟨items, h1, h2, h3, h4, h5, h6, h7, h8⟩

end Wbxml.Lemmas.EncW
