/-
  WBXML encoder proofs: `parse_text` / `wbxml_encode_value_element_buffer` (content context) write a
  list of content items of the grammar that are not elements (`Leaf`): inline strings, string-table
  references, Wireless-Village extension tokens, opaque data.
-/
import Wbxml.Lemmas.EncWAttr
namespace Wbxml.Lemmas.EncW
open Wbxml Wbxml.Model Wbxml.Spec Wbxml.Lemmas.ParseSer
open Wbxml.Model.Codec (mbEncode)

theorem bind_ok_someO {α : Type} (x : Except Err α) (f : α → WSt) (st2 : WSt)
    (h : (x >>= fun a => pure (some (f a))) = (.ok (some st2) : Except Err (Option WSt))) :
    ∃ a, x = .ok a ∧ st2 = f a := bind_ok_some x f st2 h

/-- `wbxml_encode_wv_content` writes one leaf. -/
theorem wvContentW_some (c : WCfg) (s : Bytes) (st st1 : WSt) (hs : nulFree s = true)
    (h : wvContentW c s st = .ok (some st1)) :
    ∃ it, Leaf c st.strtbl it ∧ st1 = st.emit (serItem it) := by
  unfold wvContentW at h
  simp only at h
  split at h
  · -- integer
    cases hx : Typed.encodeWvInt s with
    | error e => rw [hx] at h; cases h
    | ok r =>
      rw [hx] at h
      cases r with
      | none => cases h
      | some item =>
        have h' : (Except.ok (some (st.emit item)) : Except Err (Option WSt)) = .ok (some st1) := h
        injection h' with h'; injection h' with h'
        obtain ⟨p, rfl⟩ := encodeWvInt_shape s item hx
        exact ⟨.opaque p, .opq p, by rw [← h', serItem_opaque]⟩
  · -- date and time
    obtain ⟨item, hi, rfl⟩ := bind_ok_some _ (fun item : Typed.WvItem => st.emit item.bytes) _ h
    rcases encodeWvDate_shape s item hi with hb | ⟨p, hb⟩
    · exact ⟨.str (.inl s), .inl s hs, by rw [hb, serItem_str]⟩
    · exact ⟨.opaque p, .opq p, by rw [hb, serItem_opaque]⟩
  · -- extension token
    split at h
    · cases h
    · rename_i exts hexts
      split at h
      · rename_i r hr
        have h' : (Except.ok (some (st.emit (extW r.token))) : Except Err (Option WSt)) = .ok (some st1) := h
        injection h' with h'; injection h' with h'
        refine ⟨.ext none (.tbl 0 (r.token % 256)), .ext _ (by simp [hexts]) (Nat.mod_lt _ (by decide)), ?_⟩
        rw [← h', serItem_extT0]; rfl
      · cases h

/-- `wbxml_encode_drmrel_content` writes one OPAQUE. -/
theorem drmrelContentW_some (c : WCfg) (parent : Option Name) (s : Bytes) (st st1 : WSt)
    (h : drmrelContentW parent s st = .ok (some st1)) :
    ∃ it, Leaf c st.strtbl it ∧ st1 = st.emit (serItem it) := by
  unfold drmrelContentW at h
  split at h
  · split at h
    · obtain ⟨d, _, rfl⟩ := bind_ok_some _ (fun d => st.emit (opaqueW d)) _ h
      exact ⟨.opaque d, .opq d, by rw [serItem_opq]⟩
    · cases h
  · cases h

/-- What a typed content text is written as (the payload `p` of the single OPAQUE), and why. -/
def TypedOut (c : WCfg) (parent : Option Name) (s : Bytes) (cur : Option TagRow) (p : Bytes) : Prop :=
  (isWv c.lang.id = true ∧ ∃ t, cur = some t ∧
     ((Typed.wvEncKind t.page t.token = .integer ∧ p.length ≤ 4) ∨
      (Typed.wvEncKind t.page t.token = .dateTime ∧ p.length = 6))) ∨
  (c.lang.id = 1801 ∧ ∃ r, parent = some (.token r) ∧ isKvRow c.lang.id r = true ∧
     Codec.b64DecodeE (b64TextW s) = .ok p)

theorem wvContentW_some' (c : WCfg) (s : Bytes) (st st1 : WSt) (hs : nulFree s = true)
    (h : wvContentW c s st = .ok (some st1)) :
    ∃ it, Leaf c st.strtbl it ∧ st1 = st.emit (serItem it) ∧
      (opqsItem it = [] ∨ ∃ p, it = .opaque p ∧ ∃ t, st.curTag = some t ∧
        ((Typed.wvEncKind t.page t.token = .integer ∧ p.length ≤ 4) ∨
         (Typed.wvEncKind t.page t.token = .dateTime ∧ p.length = 6))) := by
  have hext : (match c.lang.exts with
      | none => pure none
      | some exts =>
        match encExt exts s with
        | some r => pure (some (st.emit (extW r.token)))
        | none => pure none : Except Err (Option WSt)) = .ok (some st1) →
      ∃ it, Leaf c st.strtbl it ∧ st1 = st.emit (serItem it) ∧ opqsItem it = [] := by
    intro h
    split at h
    · cases h
    · rename_i exts hexts
      split at h
      · rename_i r hr
        have h' : (Except.ok (some (st.emit (extW r.token))) : Except Err (Option WSt)) = .ok (some st1) := h
        injection h' with h'; injection h' with h'
        refine ⟨.ext none (.tbl 0 (r.token % 256)), .ext _ (by simp [hexts]) (Nat.mod_lt _ (by decide)), ?_, opqsItem_ext _ _⟩
        rw [← h', serItem_extT0]; rfl
      · cases h
  unfold wvContentW at h
  cases hct : st.curTag with
  | none =>
    rw [hct] at h
    obtain ⟨it, h1, h2, h3⟩ := hext h
    exact ⟨it, h1, h2, Or.inl h3⟩
  | some t =>
    rw [hct] at h
    simp only at h
    cases hk : Typed.wvEncKind t.page t.token with
    | integer =>
      rw [hk] at h
      simp only at h
      cases hx : Typed.encodeWvInt s with
      | error e => rw [hx] at h; cases h
      | ok r =>
        rw [hx] at h
        cases r with
        | none => cases h
        | some item =>
          have h' : (Except.ok (some (st.emit item)) : Except Err (Option WSt)) = .ok (some st1) := h
          injection h' with h'; injection h' with h'
          obtain ⟨p, rfl, hp⟩ := encodeWvInt_shape' s item hx
          exact ⟨.opaque p, .opq p, by rw [← h', serItem_opaque], Or.inr ⟨p, rfl, t, rfl, Or.inl ⟨hk, hp⟩⟩⟩
    | dateTime =>
      rw [hk] at h
      simp only at h
      obtain ⟨item, hi, rfl⟩ := bind_ok_some _ (fun item : Typed.WvItem => st.emit item.bytes) _ h
      rcases encodeWvDate_shape' s item hi with hb | ⟨p, hb, hp⟩
      · exact ⟨.str (.inl s), .inl s hs, by rw [hb, serItem_str], Or.inl (opqsItem_str _)⟩
      · exact ⟨.opaque p, .opq p, by rw [hb, serItem_opaque], Or.inr ⟨p, rfl, t, rfl, Or.inr ⟨hk, hp⟩⟩⟩
    | other =>
      rw [hk] at h
      obtain ⟨it, h1, h2, h3⟩ := hext h
      exact ⟨it, h1, h2, Or.inl h3⟩

theorem drmrelContentW_some' (parent : Option Name) (s : Bytes) (st st1 : WSt)
    (h : drmrelContentW parent s st = .ok (some st1)) :
    ∃ p, st1 = st.emit (serItem (.opaque p)) ∧ ∃ r, parent = some (.token r) ∧
      (r.page == 0 && r.token == 0x0C) = true ∧ Codec.b64DecodeE (b64TextW s) = .ok p := by
  unfold drmrelContentW at h
  split at h
  · rename_i r
    split at h
    · rename_i hr
      obtain ⟨d, hd, rfl⟩ := bind_ok_some _ (fun d => st.emit (opaqueW d)) _ h
      exact ⟨d, by rw [serItem_opq], r, rfl, hr, hd⟩
    · cases h
  · cases h

theorem opqs_velts_all (l : List VElt) : opqsItems (l.flatMap itemsOfVElt) = [] := by
  induction l with
  | nil => simp [opqsItems_nil]
  | cons e es ih =>
    rw [List.flatMap_cons, opqsItems_append, ih, List.append_nil]
    cases e with
    | str s =>
      simp only [itemsOfVElt]
      split
      · rw [opqsItems_cons, opqsItem_str, opqsItems_nil]; rfl
      · rw [opqsItems_nil]
    | ref o => simp only [itemsOfVElt]; rw [opqsItems_cons, opqsItem_str, opqsItems_nil]; rfl
    | ext r => simp only [itemsOfVElt]; rw [opqsItems_cons, opqsItem_ext, opqsItems_nil]; rfl
    | tok r => simp only [itemsOfVElt]; rw [opqsItems_nil]

theorem nulFree_syncmlTypeText (id : Nat) (s : Bytes) (hs : nulFree s = true) :
    nulFree (syncmlTypeText id s) = true := by
  unfold syncmlTypeText
  split
  · simp only
    split
    · decide
    · split
      · decide
      · exact hs
  · exact hs

/-- Content context of `wbxml_encode_value_element_buffer`. -/
theorem encContentValueW_spec' (c : WCfg) (parent : Option Name) (s : Bytes) (st st' : WSt)
    (hs : nulFree s = true) (h : encContentValueW c parent s st = .ok st') :
    ∃ items, st' = st.emit (serItems items) ∧ (∀ it ∈ items, Leaf c st.strtbl it) ∧
      (opqsItems items = [] ∨ ∃ p, items = [.opaque p] ∧ s ≠ [] ∧ TypedOut c parent s st.curTag p) := by
  unfold encContentValueW at h
  split at h
  · injection h with h; subst h
    exact ⟨[], by rw [serItems_nil, emit_nil], (by intro it hit; cases hit), Or.inl opqsItems_nil⟩
  · rename_i hne
    have hsne : s ≠ [] := fun e => hne (by rw [e]; rfl)
    -- generic path from a list that is already inside its classes
    have generic : ∀ l0 : List VElt, (∀ e ∈ l0, VOk c st.strtbl e ∧ notTok e) →
        (do let l ← (if c.useStrtbl = true then splitByStrtbl st.strtbl l0 else pure l0)
            pure (emitVElts st l) : Except Err WSt) = .ok st' →
        ∃ items, st' = st.emit (serItems items) ∧ (∀ it ∈ items, Leaf c st.strtbl it) ∧ opqsItems items = [] := by
      intro l0 hl0 h
      have hcut : CutStable (fun e => VOk c st.strtbl e ∧ notTok e) :=
        fun s i h => ⟨⟨(vok_cut c st.strtbl s i h.1).1, trivial⟩, ⟨(vok_cut c st.strtbl s i h.1).2, trivial⟩⟩
      have fin : ∀ l : List VElt, (∀ e ∈ l, VOk c st.strtbl e ∧ notTok e) →
          ∃ items, emitVElts st l = st.emit (serItems items) ∧ (∀ it ∈ items, Leaf c st.strtbl it) ∧
            opqsItems items = [] :=
        fun l hl => ⟨_, emitVElts_content l (fun e he => (hl e he).2) st,
          flatMap_itemsOfVElt_leaf c st.strtbl l (fun e he => (hl e he).1), opqs_velts_all l⟩
      cases hu : c.useStrtbl with
      | false =>
        simp only [hu, Bool.false_eq_true, ↓reduceIte] at h
        have h' : (Except.ok (emitVElts st l0) : Except Err WSt) = .ok st' := h
        injection h' with h'; subst h'
        exact fin l0 hl0
      | true =>
        simp only [hu, ↓reduceIte] at h
        cases hl2 : splitByStrtbl st.strtbl l0 with
        | error e => rw [hl2] at h; cases h
        | ok l2 =>
          rw [hl2] at h
          have h' : (Except.ok (emitVElts st l2) : Except Err WSt) = .ok st' := h
          injection h' with h'; subst h'
          exact fin l2 (splitByStrtbl_all _ hcut st.strtbl (fun e he => ⟨⟨e, he, rfl⟩, trivial⟩) _ _ hl0 hl2)
    have hstart : ∀ e ∈ [VElt.str (syncmlTypeText c.lang.id s)], VOk c st.strtbl e ∧ notTok e := by
      intro e he
      simp only [List.mem_cons, List.mem_nil_iff, or_false] at he
      subst he
      exact ⟨nulFree_syncmlTypeText _ _ hs, trivial⟩
    have tail : (do
          let l : List VElt := [.str (syncmlTypeText c.lang.id s)]
          let l := match c.lang.exts with
            | some exts => splitByExts exts l
            | none => l
          let l ← (if c.useStrtbl = true then splitByStrtbl st.strtbl l else pure l)
          pure (emitVElts st l) : Except Err WSt) = .ok st' →
        ∃ items, st' = st.emit (serItems items) ∧ (∀ it ∈ items, Leaf c st.strtbl it) ∧ opqsItems items = [] := by
      intro h
      cases hx : c.lang.exts with
      | none => rw [hx] at h; exact generic _ hstart h
      | some exts =>
        rw [hx] at h
        refine generic _ ?_ h
        exact splitByExts_all (fun e => VOk c st.strtbl e ∧ notTok e) ⟨nulFree_nil, trivial⟩ exts
          (fun r hr => ⟨⟨exts, hx, hr⟩, trivial⟩) _ hstart
    -- the language specific pre-passes
    cases hwv : (if isWv c.lang.id = true then wvContentW c s st else pure none) with
    | error e => rw [hwv] at h; cases h
    | ok r1 =>
      rw [hwv] at h
      cases r1 with
      | some st1 =>
        have h' : (Except.ok st1 : Except Err WSt) = .ok st' := h
        injection h' with h'; subst h'
        split at hwv
        · rename_i hisWv
          obtain ⟨it, hit, rfl, hk⟩ := wvContentW_some' c s st st1 hs hwv
          refine ⟨[it], by rw [serItems_cons, serItems_nil, List.append_nil],
            (by intro x hx; simp only [List.mem_cons, List.mem_nil_iff, or_false] at hx; subst hx; exact hit), ?_⟩
          rcases hk with hk | ⟨p, rfl, t, ht, hk⟩
          · exact Or.inl (by rw [opqsItems_cons, hk, opqsItems_nil]; rfl)
          · exact Or.inr ⟨p, rfl, hsne, Or.inl ⟨hisWv, t, ht, hk⟩⟩
        · cases hwv
      | none =>
        have h2 : (do
            let r2 ← (if (c.lang.id == 1801) = true then drmrelContentW parent s st else pure none)
            match r2 with
            | some st => pure st
            | none => do
              let l : List VElt := [.str (syncmlTypeText c.lang.id s)]
              let l := match c.lang.exts with
                | some exts => splitByExts exts l
                | none => l
              let l ← (if c.useStrtbl = true then splitByStrtbl st.strtbl l else pure l)
              pure (emitVElts st l) : Except Err WSt) = .ok st' := h
        cases hdr : (if (c.lang.id == 1801) = true then drmrelContentW parent s st else pure none) with
        | error e => rw [hdr] at h2; cases h2
        | ok r2 =>
          rw [hdr] at h2
          cases r2 with
          | some st1 =>
            have h' : (Except.ok st1 : Except Err WSt) = .ok st' := h2
            injection h' with h'; subst h'
            split at hdr
            · rename_i hisD
              obtain ⟨p, rfl, r, hpar, hr, hdec⟩ := drmrelContentW_some' parent s st st1 hdr
              have hid : c.lang.id = 1801 := by simpa using hisD
              refine ⟨[.opaque p], by rw [serItems_cons, serItems_nil, List.append_nil],
                (by intro x hx; simp only [List.mem_cons, List.mem_nil_iff, or_false] at hx; subst hx; exact .opq p), ?_⟩
              refine Or.inr ⟨p, rfl, hsne, Or.inr ⟨hid, r, hpar, ?_, hdec⟩⟩
              simp only [isKvRow, hid, beq_self_eq_true, Bool.true_and]
              simpa using hr
            · cases hdr
          | none =>
            obtain ⟨items, h1, h2, h3⟩ := tail h2
            exact ⟨items, h1, h2, Or.inl h3⟩


theorem encContentValueW_spec (c : WCfg) (parent : Option Name) (s : Bytes) (st st' : WSt)
    (hs : nulFree s = true) (h : encContentValueW c parent s st = .ok st') :
    ∃ items, st' = st.emit (serItems items) ∧ ∀ it ∈ items, Leaf c st.strtbl it := by
  obtain ⟨items, h1, h2, _⟩ := encContentValueW_spec' c parent s st st' hs h
  exact ⟨items, h1, h2⟩

theorem syncmlTypeText_nil (id : Nat) : syncmlTypeText id [] = [] := by
  unfold syncmlTypeText
  split
  · have h1 : caseEq [] b!"application/vnd.syncml-devinf+xml" = false := by decide
    have h2 : caseEq [] b!"application/vnd.syncml.dmtnds+xml" = false := by decide
    simp [h1, h2]
  · rfl

theorem langOk_noexts {l : Lang} (h : langOk l = true) (hw : isWv l.id = false) : l.exts = none := by
  cases hx : l.exts with
  | none => rfl
  | some x =>
    have := langOk_exts h (by simp [hx])
    rw [hw] at this; cases this

/-- **Text is preserved by the value encoder** (generic path: every language but Wireless Village
    and DRMREL, whose typed content is C12's subject): a reader whose string table resolves the
    encoder's table reads back exactly the text (`syncmlTypeText` is the SyncML `+xml` → `+wbxml`
    media-type rewriting), whether or not a string table is used and whatever it contains. -/
theorem encContentValueW_text' (c : WCfg) (parent : Option Name) (s : Bytes) (st st' : WSt)
    (hs : nulFree s = true) (hl : langOk c.lang = true) (hnw : isWv c.lang.id = false)
    (hnd : (if (c.lang.id == 1801) = true then drmrelContentW parent s st else pure none) = .ok none)
    (h : encContentValueW c parent s st = .ok st') :
    ∃ items, st' = st.emit (serItems items) ∧ (∀ it ∈ items, Leaf c st.strtbl it) ∧
      (s = [] → items = []) ∧ opqsItems items = [] ∧
      ∀ ctx : Ctx, Resolves ctx.tbl st.strtbl → ∀ own pg,
        (s ≠ [] → charsCat (evItems ctx own pg items).1 = syncmlTypeText c.lang.id s) ∧
        (evItems ctx own pg items).1.flatMap toks = (syncmlTypeText c.lang.id s).map .ch := by
  unfold encContentValueW at h
  split at h
  · rename_i he
    injection h with h; subst h
    have hse : s = [] := List.isEmpty_iff.mp he
    exact ⟨[], by rw [serItems_nil, emit_nil], (by intro it hit; cases hit), fun _ => rfl, opqsItems_nil,
      fun _ _ _ _ => ⟨fun hne => absurd hse hne, by subst hse; rw [evItems_nil, syncmlTypeText_nil]; rfl⟩⟩
  · simp only [hnw, Bool.false_eq_true, ↓reduceIte, langOk_noexts hl hnw] at h
    rw [hnd] at h
    have h' : (do
        let l ← (if c.useStrtbl = true then splitByStrtbl st.strtbl [VElt.str (syncmlTypeText c.lang.id s)]
          else pure [VElt.str (syncmlTypeText c.lang.id s)])
        pure (emitVElts st l) : Except Err WSt) = .ok st' := h
    have h0 : ∀ e ∈ [VElt.str (syncmlTypeText c.lang.id s)], (VOk c st.strtbl e ∧ notTok e) ∧ strOrRef e := by
      intro e he
      simp only [List.mem_cons, List.mem_nil_iff, or_false] at he
      subst he
      exact ⟨⟨nulFree_syncmlTypeText _ _ hs, trivial⟩, trivial⟩
    have fin : ∀ l : List VElt, (∀ e ∈ l, (VOk c st.strtbl e ∧ notTok e) ∧ strOrRef e) →
        (∀ tb, Resolves tb st.strtbl → l.flatMap (vval tb) = syncmlTypeText c.lang.id s) →
        emitVElts st l = st' →
        ∃ items, st' = st.emit (serItems items) ∧ (∀ it ∈ items, Leaf c st.strtbl it) ∧
          (s = [] → items = []) ∧ opqsItems items = [] ∧
          ∀ ctx : Ctx, Resolves ctx.tbl st.strtbl → ∀ own pg,
            (s ≠ [] → charsCat (evItems ctx own pg items).1 = syncmlTypeText c.lang.id s) ∧
            (evItems ctx own pg items).1.flatMap toks = (syncmlTypeText c.lang.id s).map .ch := by
      intro l hl hcat he
      refine ⟨l.flatMap itemsOfVElt, ?_, flatMap_itemsOfVElt_leaf c st.strtbl l (fun e he => (hl e he).1.1), ?_,
        opqs_velts l (fun e he => (hl e he).2), ?_⟩
      · rw [← he]; exact emitVElts_content l (fun e he => (hl e he).1.2) st
      · intro hse; rename_i hne; exact absurd (by rw [hse]; rfl) hne
      · intro ctx hres own pg
        refine ⟨fun _ => ?_, ?_⟩
        · rw [evItems_velts ctx own pg l (fun e he => (hl e he).2), hcat ctx.tbl hres]
        · rw [evItems_velts_toks ctx own pg l (fun e he => (hl e he).2), hcat ctx.tbl hres]
    cases hu : c.useStrtbl with
    | false =>
      simp only [hu, Bool.false_eq_true, ↓reduceIte] at h'
      have := ok_inj h'
      exact fin _ h0 (fun tb _ => by simp [vval]) this
    | true =>
      simp only [hu, ↓reduceIte] at h'
      obtain ⟨l2, hl2, h'⟩ := bind_ok' h'
      have := ok_inj h'
      have hcut : CutStable (fun e => (VOk c st.strtbl e ∧ notTok e) ∧ strOrRef e) :=
        fun s i h => ⟨⟨⟨(vok_cut c st.strtbl s i h.1.1).1, trivial⟩, trivial⟩,
          ⟨⟨(vok_cut c st.strtbl s i h.1.1).2, trivial⟩, trivial⟩⟩
      have hl2ok := splitByStrtbl_all _ hcut st.strtbl (fun e he => ⟨⟨⟨e, he, rfl⟩, trivial⟩, trivial⟩) _ _ h0 hl2
      refine fin l2 hl2ok ?_ this
      intro tb hres
      rw [splitByStrtbl_concat c st.strtbl tb hres st.strtbl (fun _ h => h) _ _ (fun e he => (h0 e he).1.1) hl2]
      simp [vval]


/-- The character data a text node stands for after the documented normalisations: white-space-only
    text dropped and blanks trimmed unless white space is kept, the text read as a C string, the
    SyncML `+xml` media types written as `+wbxml`. -/
def normText (c : WCfg) (s : Bytes) : Bytes :=
  if c.ignoreEmpty && s.all isSpaceC then []
  else syncmlTypeText c.lang.id (cstrOf (if c.removeBlanks then stripBlanks s else s))

theorem encContentValueW_text (c : WCfg) (parent : Option Name) (s : Bytes) (st st' : WSt)
    (hs : nulFree s = true) (hl : langOk c.lang = true) (hnw : isWv c.lang.id = false)
    (hnd : (c.lang.id == 1801) = false) (h : encContentValueW c parent s st = .ok st') :
    ∃ items, st' = st.emit (serItems items) ∧ (∀ it ∈ items, Leaf c st.strtbl it) ∧
      (s = [] → items = []) ∧ opqsItems items = [] ∧
      ∀ ctx : Ctx, Resolves ctx.tbl st.strtbl → ∀ own pg,
        (s ≠ [] → charsCat (evItems ctx own pg items).1 = syncmlTypeText c.lang.id s) ∧
        (evItems ctx own pg items).1.flatMap toks = (syncmlTypeText c.lang.id s).map .ch :=
  encContentValueW_text' c parent s st st' hs hl hnw (by simp only [hnd, Bool.false_eq_true, ↓reduceIte]; rfl) h

/-- Outside a `ds:KeyValue` token element `wbxml_encode_drmrel_content` declines. -/
theorem drmrel_none (l : Lang) (parent : Option Name) (s : Bytes) (st : WSt) (h : kvPar l parent = false)
    (hid : l.id = 1801) : drmrelContentW parent s st = .ok none := by
  unfold drmrelContentW
  cases parent with
  | none => rfl
  | some nm =>
    cases nm with
    | literal x => rfl
    | token r =>
      simp only [kvPar, isKvRow, hid, beq_self_eq_true, Bool.true_and] at h
      simp only [h, Bool.false_eq_true, ↓reduceIte]
      rfl

/-- **The character data a reader gets for a text node**, as a function of the source text, the name
    of the enclosing element and the encoder's `current_tag` (every language but Wireless Village):
    the raw octets under a binary-flagged tag (ActiveSync); under a DRMREL `ds:KeyValue` token
    element the base64 text `decode_base64_value` makes of the octets the encoder's base64 decoder
    makes of the text (RFC 4648 re-encoding, C12); `normText` otherwise. No option other than the
    white-space policy is looked at. -/
def vText (c : WCfg) (parent : Option Name) (cur : Option TagRow) (s : Bytes) : Bytes :=
  if isBinaryTag cur then s
  else if kvPar c.lang parent && !textSilent c s then
    match Codec.b64DecodeE (b64TextW (textArg c s)) with
    | .ok p => (match decodeBase64Value p with | .ok b => b | .error _ => [])
    | .error _ => normText c s
  else normText c s

/-- What `encTextW_spec'` says about the reader's view of the items of a text node — every language
    but Wireless Village; `own` is the reader's own tag at the place of the text (same page and token
    as `current_tag` / as the parent's row: `Pos.cur`, `Pos.par`). -/
def TextViewT (c : WCfg) (parent : Option Name) (s : Bytes) (st : WSt) (items : List Item) : Prop :=
  isWv c.lang.id = false → langOk c.lang = true → typedLangOk c.lang = true → st.inCdata = false →
  ∀ ctx : Ctx, ctx.lang = c.lang → Resolves ctx.tbl st.strtbl → ∀ own : Option TagRow,
    (∀ r, st.curTag = some r → ∃ r', own = some r' ∧ r'.page = r.page ∧ r'.token = r.token ∧
      ∃ tags, c.lang.tags = some tags ∧ r ∈ tags) →
    (∀ r0, parent = some (.token r0) → ∃ r', own = some r' ∧ r'.page = r0.page ∧ r'.token = r0.token) →
    ∀ pg, (evItems ctx own pg items).1.flatMap toks = (vText c parent st.curTag s).map .ch

theorem kvPar_id (l : Lang) (parent : Option Name) (h : kvPar l parent = true) : l.id = 1801 := by
  cases parent with
  | none => cases h
  | some nm =>
    cases nm with
    | literal x => cases h
    | token r =>
      simp only [kvPar, isKvRow, Bool.and_eq_true, beq_iff_eq] at h
      exact h.1.1

theorem opaque_toks (ctx : Ctx) (own : Option TagRow) (pg : Pages) (d b : Bytes)
    (h : (opaqueText ctx own d).getD [] = b) :
    (evItems ctx own pg [.opaque d]).1.flatMap toks = b.map .ch := by
  rw [evItems_cons, evItems_nil, evItem_opaque]
  simp only [List.append_nil, h, toks_charsEv]

/-- Which OPAQUE a text node may be written as: none; the raw octets under a binary-flagged
    `current_tag`; or the single typed one (outside CDATA, for text that is not silent). -/
def TextOut (c : WCfg) (parent : Option Name) (s : Bytes) (st : WSt) (items : List Item) : Prop :=
  opqsItems items = [] ∨ (isBinaryTag st.curTag = true ∧ items = [.opaque s]) ∨
  ∃ p, items = [.opaque p] ∧ textSilent c s = false ∧ st.inCdata = false ∧ TypedOut c parent (textArg c s) st.curTag p

/-- Under a `ds:KeyValue` token element (DRMREL) the value encoder writes nothing for an empty text
    and otherwise exactly one OPAQUE: the octets its base64 decoder makes of the text. -/
theorem encContentValueW_kv (c : WCfg) (parent : Option Name) (a : Bytes) (st st' : WSt)
    (hw : isWv c.lang.id = false) (hk : kvPar c.lang parent = true)
    (h : encContentValueW c parent a st = .ok st') :
    (a = [] ∧ st' = st) ∨ (a ≠ [] ∧ ∃ p, Codec.b64DecodeE (b64TextW a) = .ok p ∧ st' = st.emit (opaqueW p)) := by
  have hid := kvPar_id _ _ hk
  have hid' : (c.lang.id == 1801) = true := by simp [hid]
  unfold encContentValueW at h
  split at h
  · rename_i he
    injection h with h
    exact Or.inl ⟨List.isEmpty_iff.mp he, h.symm⟩
  · rename_i hne
    have hane : a ≠ [] := fun e => hne (by rw [e]; rfl)
    simp only [hw, Bool.false_eq_true, ↓reduceIte] at h
    cases hd : drmrelContentW parent a st with
    | error e => rw [hd] at h; cases h
    | ok r2 =>
      rw [hd] at h
      cases r2 with
      | none =>
        exfalso
        unfold drmrelContentW at hd
        cases parent with
        | none => cases hk
        | some nm =>
          cases nm with
          | literal x => cases hk
          | token r =>
            simp only [kvPar, isKvRow, hid, beq_self_eq_true, Bool.true_and] at hk
            simp only [hk, ↓reduceIte] at hd
            cases hx : Codec.b64DecodeE (b64TextW a) with
            | error e => rw [hx] at hd; cases hd
            | ok d => rw [hx] at hd; cases hd
      | some st1 =>
        have h' : (Except.ok st1 : Except Err WSt) = .ok st' := h
        injection h' with h'; subst h'
        obtain ⟨p, hp, _, _, _, hdec⟩ := drmrelContentW_some' parent a st st1 hd
        exact Or.inr ⟨hane, p, hdec, by rw [hp, serItem_opq]⟩

/-- `parse_text`: leaves only; neither code page nor the string table changes; outside CDATA and
    binary-flagged elements, in a language whose content is not typed, a reader gets exactly the
    octets of `normText`; in every language but Wireless Village a reader at the same position gets
    the octets of `vText` (`TextViewT`). -/
theorem encTextW_spec' (c : WCfg) (parent : Option Name) (s : Bytes) (st st' : WSt) (hinv : StrInv st)
    (h : encTextW c parent s st = .ok st') :
    ∃ items, (∀ it ∈ items, Leaf c st.strtbl it) ∧ st'.out = st.out ++ serItems items ∧
      st'.tagPage = st.tagPage ∧ st'.attrPage = st.attrPage ∧ st'.strtbl = st.strtbl ∧
      st'.strtblLen = st.strtblLen ∧ st'.inCdata = st.inCdata ∧
      (isWv c.lang.id = false → (c.lang.id == 1801) = false → langOk c.lang = true →
        st.inCdata = false → isBinaryTag st.curTag = false →
        opqsItems items = [] ∧
        ∀ ctx : Ctx, Resolves ctx.tbl st.strtbl → ∀ own pg,
          (evItems ctx own pg items).1.flatMap toks = (normText c s).map .ch) ∧
      TextOut c parent s st items ∧ TextViewT c parent s st items := by
  have hA : ∀ k s', ({ st with textNo := st.textNo + 1 } : WSt).aliasWrite k s' = { st with textNo := st.textNo + 1 } :=
    fun k s' => aliasWrite_eq _ k s' hinv.noAlias
  unfold encTextW at h
  simp only [hA, ite_self] at h
  split at h
  · rename_i hbin
    injection h with h; subst h
    have hbin' : isBinaryTag st.curTag = true := hbin
    refine ⟨[.opaque s], by intro it hit; simp only [List.mem_cons, List.mem_nil_iff, or_false] at hit; subst hit; exact .opq s,
      by rw [serItems_cons, serItems_nil, serItem_opq]; simp, rfl, rfl, rfl, rfl, rfl, ?_, Or.inr (Or.inl ⟨hbin, rfl⟩), ?_⟩
    · intro _ _ _ _ hb
      rw [hb] at hbin'; cases hbin'
    · intro _ _ htl _ ctx hlang _ own hcur _ pg
      cases hct : st.curTag with
      | none => rw [hct] at hbin'; cases hbin'
      | some r =>
        obtain ⟨r', hown, hpage, htok, tags, ht, hm⟩ := hcur r hct
        have hu : typedOpt ctx.lang.id own = false := by
          rw [hown, hlang]
          show typedRow c.lang.id r' = false
          rw [typedRow_congr _ r r' hpage htok]
          exact typedLangOk_binary htl ht hm (by rw [← hct]; exact hbin')
        rw [opaque_toks ctx own pg s s (by rw [opaqueText_untyped ctx own s hu]; rfl)]
        rw [← hct]
        simp only [vText, hbin', ↓reduceIte]
  · rename_i hnbin
    have hnb : isBinaryTag st.curTag = false := by
      cases hb : isBinaryTag st.curTag with
      | false => rfl
      | true => exact absurd hb hnbin
    split at h
    · rename_i hskip
      injection h with h; subst h
      refine ⟨[], (by intro it hit; cases hit), by rw [serItems_nil, List.append_nil], rfl, rfl, rfl, rfl, rfl, ?_,
        Or.inl opqsItems_nil, ?_⟩
      · intro _ _ _ hcd _
        refine ⟨opqsItems_nil, ?_⟩
        intro ctx _ own pg
        have hskip' : (!st.inCdata && c.ignoreEmpty && s.all isSpaceC) = true := hskip
        rw [hcd] at hskip'
        simp only [Bool.not_false, Bool.true_and] at hskip'
        rw [evItems_nil]
        simp [normText, hskip']
      · intro _ _ _ hcd ctx _ _ own _ _ pg
        have hskip' : (!st.inCdata && c.ignoreEmpty && s.all isSpaceC) = true := hskip
        rw [hcd] at hskip'
        simp only [Bool.not_false, Bool.true_and] at hskip'
        rw [evItems_nil]
        simp [vText, hnb, textSilent, normText, hskip']
    · rename_i hskip
      split at h
      · rename_i hcd1
        have hcd1' : st.inCdata = true := hcd1
        split at h
        · cases h
        · injection h with h; subst h
          refine ⟨[], (by intro it hit; cases hit), by rw [serItems_nil, List.append_nil], rfl, rfl, rfl, rfl, rfl, ?_,
            Or.inl opqsItems_nil, ?_⟩
          · intro _ _ _ hcd _
            rw [hcd1'] at hcd; cases hcd
          · intro _ _ _ hcd
            rw [hcd1'] at hcd; cases hcd
      · rename_i hcd1
        have hcd0 : st.inCdata = false := by simpa using hcd1
        have hskip0 : (c.ignoreEmpty && s.all isSpaceC) = false := by
          have hskip' : ¬ (!st.inCdata && c.ignoreEmpty && s.all isSpaceC) = true := hskip
          rw [hcd0] at hskip'
          simpa using hskip'
        have harg : cstrOf (if (!st.inCdata && c.removeBlanks) = true then stripBlanks s else s) = textArg c s := by
          simp only [textArg, hcd0, Bool.not_false, Bool.true_and]
        rw [harg] at h
        have hsil : textSilent c s = (textArg c s).isEmpty := by simp only [textSilent, hskip0, Bool.false_or]
        have hnorm : normText c s = syncmlTypeText c.lang.id (textArg c s) := by
          simp only [normText, hskip0, Bool.false_eq_true, ↓reduceIte, textArg]
        by_cases hp : isWv c.lang.id = false ∧ ((c.lang.id == 1801) = false ∨ kvPar c.lang parent = false) ∧
            langOk c.lang = true
        · -- the generic path
          have hkvF : kvPar c.lang parent = false := by
            rcases hp.2.1 with h1 | h1
            · cases hk : kvPar c.lang parent with
              | false => rfl
              | true =>
                have := kvPar_id _ _ hk
                rw [this] at h1; cases h1
            · exact h1
          have hdr : (if (c.lang.id == 1801) = true then
              drmrelContentW parent (textArg c s) { st with textNo := st.textNo + 1 } else pure none) = .ok none := by
            by_cases hid : (c.lang.id == 1801) = true
            · simp only [hid, ↓reduceIte]
              exact drmrel_none c.lang parent _ _ hkvF (by simpa using hid)
            · simp only [hid]; rfl
          obtain ⟨items2, hst2, hleaf2, _, hnoq, htxt⟩ :=
            encContentValueW_text' c parent _ _ st' (nulFree_cstrOf _) hp.2.2 hp.1 hdr h
          subst hst2
          refine ⟨items2, hleaf2, rfl, rfl, rfl, rfl, rfl, rfl, ?_, Or.inl hnoq, ?_⟩
          · intro _ _ _ _ _
            refine ⟨hnoq, ?_⟩
            intro ctx hres own pg
            rw [(htxt ctx hres own pg).2, hnorm]
            rfl
          · intro _ _ _ _ ctx _ hres own _ _ pg
            rw [(htxt ctx hres own pg).2]
            simp only [vText, hnb, Bool.false_eq_true, ↓reduceIte, hkvF, Bool.false_and, hnorm]
            rfl
        · by_cases hk : isWv c.lang.id = false ∧ kvPar c.lang parent = true
          · -- DRMREL `ds:KeyValue`
            have hid := kvPar_id _ _ hk.2
            rcases encContentValueW_kv c parent _ _ st' hk.1 hk.2 h with ⟨ha, hst⟩ | ⟨ha, p, hdec, hst⟩
            · subst hst
              refine ⟨[], (by intro it hit; cases hit), by rw [serItems_nil, List.append_nil], rfl, rfl, rfl, rfl, rfl, ?_,
                Or.inl opqsItems_nil, ?_⟩
              · intro _ h2
                rw [hid] at h2; cases h2
              · intro _ _ _ _ ctx _ _ own _ _ pg
                rw [evItems_nil]
                have : textSilent c s = true := by rw [hsil, ha]; rfl
                simp only [vText, hnb, Bool.false_eq_true, ↓reduceIte, this, Bool.not_true, Bool.and_false, hnorm, ha,
                  syncmlTypeText_nil]
                rfl
            · subst hst
              have hsilF : textSilent c s = false := by
                rw [hsil]
                cases hx : textArg c s with
                | nil => exact absurd hx ha
                | cons _ _ => rfl
              obtain ⟨r, hpar, hkvr⟩ : ∃ r, parent = some (.token r) ∧ isKvRow c.lang.id r = true := by
                cases parent with
                | none => cases hk.2
                | some nm =>
                  cases nm with
                  | literal x => cases hk.2
                  | token r => exact ⟨r, rfl, hk.2⟩
              refine ⟨[.opaque p], (by intro it hit; simp only [List.mem_cons, List.mem_nil_iff, or_false] at hit; subst hit; exact .opq p),
                by rw [serItems_cons, serItems_nil, serItem_opq]; simp, rfl, rfl, rfl, rfl, rfl, ?_,
                Or.inr (Or.inr ⟨p, rfl, hsilF, hcd0, Or.inr ⟨hid, r, hpar, hkvr, hdec⟩⟩), ?_⟩
              · intro _ h2
                rw [hid] at h2; cases h2
              · intro _ _ _ _ ctx hlang _ own _ hparO pg
                obtain ⟨r', hown, hpage, htok⟩ := hparO r hpar
                have hid' : ctx.lang.id = 1801 := by rw [hlang]; exact hid
                have hkr' : (r'.page == 0 && r'.token == 0x0C) = true := by
                  have := hkvr
                  simp only [isKvRow, hid, beq_self_eq_true, Bool.true_and, ← hpage, ← htok] at this
                  exact this
                have hot : (opaqueText ctx own p).getD [] = (match decodeBase64Value p with | .ok b => b | .error _ => []) := by
                  rw [hown]
                  simp only [opaqueText, decodeOpaqueContent, hid', isWv, Nat.reduceBEq, Bool.or_self, Bool.false_eq_true,
                    ↓reduceIte, beq_self_eq_true, hkr']
                  cases decodeBase64Value p <;> rfl
                rw [opaque_toks ctx own pg p _ hot]
                simp only [vText, hnb, Bool.false_eq_true, ↓reduceIte, hk.2, hsilF, Bool.not_false, Bool.and_self, hdec]
          · -- Wireless Village, or tables outside `langOk`: nothing is claimed about the view
            obtain ⟨items, hst, hleaf, hcls⟩ := encContentValueW_spec' c parent _ _ st' (nulFree_cstrOf _) h
            have hout : TextOut c parent s st items := by
              rcases hcls with hno | ⟨p, hp1, hp2, hp3⟩
              · exact Or.inl hno
              · refine Or.inr (Or.inr ⟨p, hp1, ?_, hcd0, hp3⟩)
                simp only [textSilent, hskip0, Bool.false_or, List.isEmpty_eq_false_iff]
                exact hp2
            subst hst
            refine ⟨items, hleaf, rfl, rfl, rfl, rfl, rfl, rfl, ?_, hout, ?_⟩
            · intro h1 h2 h3
              exact absurd ⟨h1, Or.inl h2, h3⟩ hp
            · intro h1 h3 _ _
              exfalso
              cases hkv : kvPar c.lang parent with
              | false => exact hp ⟨h1, Or.inr hkv, h3⟩
              | true => exact hk ⟨h1, hkv⟩

theorem encTextW_spec (c : WCfg) (parent : Option Name) (s : Bytes) (st st' : WSt) (hinv : StrInv st)
    (h : encTextW c parent s st = .ok st') :
    ∃ items, (∀ it ∈ items, Leaf c st.strtbl it) ∧ st'.out = st.out ++ serItems items ∧
      st'.tagPage = st.tagPage ∧ st'.attrPage = st.attrPage ∧ st'.strtbl = st.strtbl ∧
      st'.strtblLen = st.strtblLen ∧ st'.inCdata = st.inCdata ∧
      (isWv c.lang.id = false → (c.lang.id == 1801) = false → langOk c.lang = true →
        st.inCdata = false → isBinaryTag st.curTag = false →
        opqsItems items = [] ∧
        ∀ ctx : Ctx, Resolves ctx.tbl st.strtbl → ∀ own pg,
          (evItems ctx own pg items).1.flatMap toks = (normText c s).map .ch) := by
  obtain ⟨items, h1, h2, h3, h4, h5, h6, h7, h8, _⟩ := encTextW_spec' c parent s st st' hinv h
  exact ⟨items, h1, h2, h3, h4, h5, h6, h7, h8⟩

end Wbxml.Lemmas.EncW
