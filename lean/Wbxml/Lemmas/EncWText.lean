/-
  WBXML encoder proofs: `parse_text` / `wbxml_encode_value_element_buffer` (content context) write a
  list of content items of the grammar that are not elements (`Leaf`): inline strings, string-table
  references, Wireless-Village extension tokens, opaque data.
-/
import Wbxml.Lemmas.EncWAttr
namespace Wbxml.Lemmas.EncW
open Wbxml Wbxml.Model Wbxml.Spec Wbxml.Lemmas.ParseSer
open Wbxml.Model.Codec (mbEncode)

theorem bind_ok_someO {α : Type} (x : Except Err α) (f : α → WSt) (st2 : WSt)
    (h : (x >>= fun a => pure (some (f a))) = (.ok (some st2) : Except Err (Option WSt))) :
    ∃ a, x = .ok a ∧ st2 = f a := bind_ok_some x f st2 h

/-- `wbxml_encode_wv_content` writes one leaf. -/
theorem wvContentW_some (c : WCfg) (s : Bytes) (st st1 : WSt) (hs : nulFree s = true)
    (h : wvContentW c s st = .ok (some st1)) :
    ∃ it, Leaf c st.strtbl it ∧ st1 = st.emit (serItem it) := by
  unfold wvContentW at h
  simp only at h
  split at h
  · -- integer
    cases hx : Typed.encodeWvInt s with
    | error e => rw [hx] at h; cases h
    | ok r =>
      rw [hx] at h
      cases r with
      | none => cases h
      | some item =>
        have h' : (Except.ok (some (st.emit item)) : Except Err (Option WSt)) = .ok (some st1) := h
        injection h' with h'; injection h' with h'
        obtain ⟨p, rfl⟩ := encodeWvInt_shape s item hx
        exact ⟨.opaque p, .opq p, by rw [← h', serItem_opaque]⟩
  · -- date and time
    obtain ⟨item, hi, rfl⟩ := bind_ok_some _ (fun item : Typed.WvItem => st.emit item.bytes) _ h
    rcases encodeWvDate_shape s item hi with hb | ⟨p, hb⟩
    · exact ⟨.str (.inl s), .inl s hs, by rw [hb, serItem_str]⟩
    · exact ⟨.opaque p, .opq p, by rw [hb, serItem_opaque]⟩
  · -- extension token
    split at h
    · cases h
    · rename_i exts hexts
      split at h
      · rename_i r hr
        have h' : (Except.ok (some (st.emit (extW r.token))) : Except Err (Option WSt)) = .ok (some st1) := h
        injection h' with h'; injection h' with h'
        refine ⟨.ext none (.tbl 0 (r.token % 256)), .ext _ (by simp [hexts]) (Nat.mod_lt _ (by decide)), ?_⟩
        rw [← h', serItem_extT0]; rfl
      · cases h

/-- `wbxml_encode_drmrel_content` writes one OPAQUE. -/
theorem drmrelContentW_some (c : WCfg) (parent : Option Name) (s : Bytes) (st st1 : WSt)
    (h : drmrelContentW parent s st = .ok (some st1)) :
    ∃ it, Leaf c st.strtbl it ∧ st1 = st.emit (serItem it) := by
  unfold drmrelContentW at h
  split at h
  · split at h
    · obtain ⟨d, _, rfl⟩ := bind_ok_some _ (fun d => st.emit (opaqueW d)) _ h
      exact ⟨.opaque d, .opq d, by rw [serItem_opq]⟩
    · cases h
  · cases h

theorem nulFree_syncmlTypeText (id : Nat) (s : Bytes) (hs : nulFree s = true) :
    nulFree (syncmlTypeText id s) = true := by
  unfold syncmlTypeText
  split
  · simp only
    split
    · decide
    · split
      · decide
      · exact hs
  · exact hs

/-- Content context of `wbxml_encode_value_element_buffer`. -/
theorem encContentValueW_spec (c : WCfg) (parent : Option Name) (s : Bytes) (st st' : WSt)
    (hs : nulFree s = true) (h : encContentValueW c parent s st = .ok st') :
    ∃ items, st' = st.emit (serItems items) ∧ ∀ it ∈ items, Leaf c st.strtbl it := by
  unfold encContentValueW at h
  split at h
  · injection h with h; subst h
    exact ⟨[], by rw [serItems_nil, emit_nil], by intro it hit; cases hit⟩
  · -- generic path from a list that is already inside its classes
    have generic : ∀ l0 : List VElt, (∀ e ∈ l0, VOk c st.strtbl e ∧ notTok e) →
        (do let l ← (if c.useStrtbl = true then splitByStrtbl st.strtbl l0 else pure l0)
            pure (emitVElts st l) : Except Err WSt) = .ok st' →
        ∃ items, st' = st.emit (serItems items) ∧ ∀ it ∈ items, Leaf c st.strtbl it := by
      intro l0 hl0 h
      have hcut : CutStable (fun e => VOk c st.strtbl e ∧ notTok e) :=
        fun s i h => ⟨⟨(vok_cut c st.strtbl s i h.1).1, trivial⟩, ⟨(vok_cut c st.strtbl s i h.1).2, trivial⟩⟩
      have fin : ∀ l : List VElt, (∀ e ∈ l, VOk c st.strtbl e ∧ notTok e) →
          ∃ items, emitVElts st l = st.emit (serItems items) ∧ ∀ it ∈ items, Leaf c st.strtbl it :=
        fun l hl => ⟨_, emitVElts_content l (fun e he => (hl e he).2) st,
          flatMap_itemsOfVElt_leaf c st.strtbl l (fun e he => (hl e he).1)⟩
      cases hu : c.useStrtbl with
      | false =>
        simp only [hu, Bool.false_eq_true, ↓reduceIte] at h
        have h' : (Except.ok (emitVElts st l0) : Except Err WSt) = .ok st' := h
        injection h' with h'; subst h'
        exact fin l0 hl0
      | true =>
        simp only [hu, ↓reduceIte] at h
        cases hl2 : splitByStrtbl st.strtbl l0 with
        | error e => rw [hl2] at h; cases h
        | ok l2 =>
          rw [hl2] at h
          have h' : (Except.ok (emitVElts st l2) : Except Err WSt) = .ok st' := h
          injection h' with h'; subst h'
          exact fin l2 (splitByStrtbl_all _ hcut st.strtbl (fun e he => ⟨⟨e, he, rfl⟩, trivial⟩) _ _ hl0 hl2)
    have hstart : ∀ e ∈ [VElt.str (syncmlTypeText c.lang.id s)], VOk c st.strtbl e ∧ notTok e := by
      intro e he
      simp only [List.mem_cons, List.mem_nil_iff, or_false] at he
      subst he
      exact ⟨nulFree_syncmlTypeText _ _ hs, trivial⟩
    have tail : (do
          let l : List VElt := [.str (syncmlTypeText c.lang.id s)]
          let l := match c.lang.exts with
            | some exts => splitByExts exts l
            | none => l
          let l ← (if c.useStrtbl = true then splitByStrtbl st.strtbl l else pure l)
          pure (emitVElts st l) : Except Err WSt) = .ok st' →
        ∃ items, st' = st.emit (serItems items) ∧ ∀ it ∈ items, Leaf c st.strtbl it := by
      intro h
      cases hx : c.lang.exts with
      | none => rw [hx] at h; exact generic _ hstart h
      | some exts =>
        rw [hx] at h
        refine generic _ ?_ h
        exact splitByExts_all (fun e => VOk c st.strtbl e ∧ notTok e) ⟨nulFree_nil, trivial⟩ exts
          (fun r hr => ⟨⟨exts, hx, hr⟩, trivial⟩) _ hstart
    -- the language specific pre-passes
    cases hwv : (if isWv c.lang.id = true then wvContentW c s st else pure none) with
    | error e => rw [hwv] at h; cases h
    | ok r1 =>
      rw [hwv] at h
      cases r1 with
      | some st1 =>
        have h' : (Except.ok st1 : Except Err WSt) = .ok st' := h
        injection h' with h'; subst h'
        split at hwv
        · obtain ⟨it, hit, rfl⟩ := wvContentW_some c s st st1 hs hwv
          exact ⟨[it], by rw [serItems_cons, serItems_nil, List.append_nil],
            by intro x hx; simp only [List.mem_cons, List.mem_nil_iff, or_false] at hx; subst hx; exact hit⟩
        · cases hwv
      | none =>
        have h2 : (do
            let r2 ← (if (c.lang.id == 1801) = true then drmrelContentW parent s st else pure none)
            match r2 with
            | some st => pure st
            | none => do
              let l : List VElt := [.str (syncmlTypeText c.lang.id s)]
              let l := match c.lang.exts with
                | some exts => splitByExts exts l
                | none => l
              let l ← (if c.useStrtbl = true then splitByStrtbl st.strtbl l else pure l)
              pure (emitVElts st l) : Except Err WSt) = .ok st' := h
        cases hdr : (if (c.lang.id == 1801) = true then drmrelContentW parent s st else pure none) with
        | error e => rw [hdr] at h2; cases h2
        | ok r2 =>
          rw [hdr] at h2
          cases r2 with
          | some st1 =>
            have h' : (Except.ok st1 : Except Err WSt) = .ok st' := h2
            injection h' with h'; subst h'
            split at hdr
            · obtain ⟨it, hit, rfl⟩ := drmrelContentW_some c parent s st st1 hdr
              exact ⟨[it], by rw [serItems_cons, serItems_nil, List.append_nil],
                by intro x hx; simp only [List.mem_cons, List.mem_nil_iff, or_false] at hx; subst hx; exact hit⟩
            · cases hdr
          | none => exact tail h2


/-- `parse_text`: leaves only; neither code page nor the string table changes. -/
theorem encTextW_spec (c : WCfg) (parent : Option Name) (s : Bytes) (st st' : WSt) (hinv : StrInv st)
    (h : encTextW c parent s st = .ok st') :
    ∃ items, (∀ it ∈ items, Leaf c st.strtbl it) ∧ st'.out = st.out ++ serItems items ∧
      st'.tagPage = st.tagPage ∧ st'.attrPage = st.attrPage ∧ st'.strtbl = st.strtbl ∧
      st'.strtblLen = st.strtblLen := by
  have hA : ∀ k s', ({ st with textNo := st.textNo + 1 } : WSt).aliasWrite k s' = { st with textNo := st.textNo + 1 } :=
    fun k s' => aliasWrite_eq _ k s' hinv.noAlias
  have nil : ∀ st1 : WSt, st1.out = st.out → st1.tagPage = st.tagPage → st1.attrPage = st.attrPage →
      st1.strtbl = st.strtbl → st1.strtblLen = st.strtblLen →
      ∃ items, (∀ it ∈ items, Leaf c st.strtbl it) ∧ st1.out = st.out ++ serItems items ∧
      st1.tagPage = st.tagPage ∧ st1.attrPage = st.attrPage ∧ st1.strtbl = st.strtbl ∧
      st1.strtblLen = st.strtblLen :=
    fun st1 h1 h2 h3 h4 h5 => ⟨[], (by intro it hit; cases hit), by rw [serItems_nil, List.append_nil, h1], h2, h3, h4, h5⟩
  unfold encTextW at h
  simp only [hA, ite_self] at h
  split at h
  · injection h with h; subst h
    exact ⟨[.opaque s], by intro it hit; simp only [List.mem_cons, List.mem_nil_iff, or_false] at hit; subst hit; exact .opq s,
      by rw [serItems_cons, serItems_nil, serItem_opq]; simp, rfl, rfl, rfl, rfl⟩
  · split at h
    · injection h with h; subst h
      exact nil _ rfl rfl rfl rfl rfl
    · split at h
      · split at h
        · cases h
        · injection h with h; subst h
          exact nil _ rfl rfl rfl rfl rfl
      · obtain ⟨items, hst, hleaf⟩ := encContentValueW_spec c parent _ _ st' (nulFree_cstrOf _) h
        subst hst
        exact ⟨items, hleaf, rfl, rfl, rfl, rfl, rfl⟩

end Wbxml.Lemmas.EncW
