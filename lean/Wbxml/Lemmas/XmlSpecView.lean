/-
  What a tree denotes as the printer model writes it (`vNode`, `vText`, `vAttrs`), the precondition
  (`okNode`), and the pieces of output the specification reader reads back (`Piece`).
-/
import Wbxml.Lemmas.XmlSpecChars
import Wbxml.Lemmas.XmlSpecElem
import Wbxml.Lemmas.XmlNs
namespace Wbxml.Lemmas.XmlSpec
open Wbxml Wbxml.Model Wbxml.Spec Wbxml.Spec.Xml Wbxml.Lemmas.EncW Wbxml.Lemmas.XmlPrint Wbxml.Lemmas.XmlNs

/-! ## What a tree denotes, as the printer model writes it -/

/-- The character data `xml_encode_text` writes (escaped) for a text node outside a CDATA section, in an
    element whose tag is `cur` (`none` after the first child: the encoder forgets the current tag after
    every node): nothing for ignorable white space, blanks stripped (both unless white space is kept,
    in canonical generation, or in a binary element), the SyncML media type rewritten, base64 in a
    binary element. -/
def vText (c : XCfg) (cur : Option TagRow) (s : Bytes) : Bytes :=
  let skipWs := !isBinaryTag cur && c.gen != 2
  if skipWs && c.ignoreEmpty && s.all isSpaceC then []
  else
    let s3 := textStr c.lang.id cur (if skipWs && c.removeBlanks then stripBlanks s else s)
    if isBinaryTag cur then b64EncodeGo s3 else s3

/-- The attributes of a start tag: the namespace declaration `xml_encode_tag` adds (an ordinary
    attribute `xmlns` for a reader without namespace processing), then — in a language with an
    attribute table — the element's attributes, names and values read as C strings. -/
def vAttrs (c : XCfg) (p : Parent) (name : Name) (attrs : List Attr) : List PAttr :=
  (match declaredNs c p name with
   | some ns => [{ name := b!"xmlns", ev := ns, v := ns }]
   | none => []) ++
  (if c.lang.attrs.isSome then
     attrs.map fun a => { name := cstrOf a.name.xmlName, ev := xmlEscape (c.gen == 2) (cstrOf a.value),
                          v := attNorm (c.gen == 2) (cstrOf a.value) }
   else [])

mutual
/-- What a node contributes to the content list `R` of its parent. -/
def vNode (c : XCfg) (p : Parent) (cur : Option TagRow) : Node → List XItem → List XItem
  | .elt name attrs kids, R =>
    .elem name.xmlName ((vAttrs c p name attrs).map PAttr.view) (vNodes c (childScope p name) (tagOf name) kids []) :: R
  | .text s, R => addText (vText c cur s) R
  | .cdata kids, R =>
    match kids with
    | [.text s] => addText (eolNorm s) R
    | _ => R
  | .tree lang _ root, R =>
    -- an embedded document: its root, printed by an encoder of its own (its language, no enclosing
    -- element, no current tag)
    match lang, root with
    | some l, some r => vNode { c with lang := l } .none none r R
    | _, _ => R
def vNodes (c : XCfg) (p : Parent) (cur : Option TagRow) : List Node → List XItem → List XItem
  | [], R => R
  | n :: rest, R => vNode c p cur n (vNodes c p none rest R)
end

/-- The precondition, attribute by attribute. -/
def attrsOk (c : XCfg) (p : Parent) (name : Name) (attrs : List Attr) : Bool :=
  (match declaredNs c p name with
   | some ns => ns.all isPlainAtt && xmlChars ns
   | none => true) &&
  (if c.lang.attrs.isSome then
     attrs.all fun a => isName (cstrOf a.name.xmlName) && xmlChars (cstrOf a.value)
   else true) &&
  nodup ((vAttrs c p name attrs).map (·.name))

mutual
def okNode (c : XCfg) (p : Parent) (cur : Option TagRow) : Node → Bool
  | .elt name attrs kids =>
    isName name.xmlName && attrsOk c p name attrs && okNodes c (childScope p name) (tagOf name) kids
  | .text s => xmlChars (vText c cur s)
  | .cdata kids =>
    match kids with
    | [] => true
    | [.text s] => xmlChars s
    | _ => false
  | .tree lang _ root =>
    match lang, root with
    | some l, some r => okNode { c with lang := l } .none none r
    | _, _ => false
def okNodes (c : XCfg) (p : Parent) (cur : Option TagRow) : List Node → Bool
  | [] => true
  | n :: rest => okNode c p cur n && okNodes c p none rest
end

/-- `P` is what the printer wrote for something that contributes `F` to a content list. -/
structure Piece (P : Bytes) (F : List XItem → List XItem) : Prop where
  chars : xmlChars P = true
  gt : ∀ X, gtFree X = true → gtFree (P ++ X) = true
  reads : ∀ X R rest', gtFree X = true → Reads X (R, rest') → Reads (P ++ X) (F R, rest')

theorem Piece.nil : Piece [] (fun R => R) := ⟨rfl, fun _ h => h, fun _ _ _ _ h => h⟩

theorem Piece.comp {P1 P2 : Bytes} {F1 F2 : List XItem → List XItem} (h1 : Piece P1 F1) (h2 : Piece P2 F2) :
    Piece (P1 ++ P2) (fun R => F1 (F2 R)) :=
  ⟨xmlChars_append _ _ h1.chars h2.chars,
   fun X hX => by rw [List.append_assoc]; exact h1.gt _ (h2.gt X hX),
   fun X R rest' hX hR => by rw [List.append_assoc]; exact h1.reads _ _ _ (h2.gt X hX) (h2.reads X R rest' hX hR)⟩

theorem Piece.text (c : Bool) (s : Bytes) (hs : xmlChars s = true) : Piece (xmlEscape c s) (addText s) :=
  ⟨xmlChars_escape c s hs, fun X hX => by rw [gtFree_escape]; exact hX,
   fun X R rest' hX hR => reads_escape c s X R rest' hX hR⟩

theorem Piece.cdata (s : Bytes) (hs : xmlChars s = true) :
    Piece (b!"<![CDATA[" ++ (cdataText s ++ b!"]]>")) (addText (eolNorm s)) := by
  refine ⟨xmlChars_append _ _ (by decide) (xmlChars_append _ _ (xmlChars_cdataText s hs) (by decide)),
    fun X _ => by simp [gtFree], fun X R rest' _ hR => ?_⟩
  have := reads_cdata s X R rest' hR
  simpa [List.append_assoc] using this


theorem xmlChars_flatMap {α : Type} (f : α → Bytes) (l : List α) (h : ∀ a ∈ l, xmlChars (f a) = true) :
    xmlChars (l.flatMap f) = true := by
  induction l with
  | nil => rfl
  | cons a l ih =>
    rw [List.flatMap_cons]
    exact xmlChars_append _ _ (h a List.mem_cons_self) (ih fun x hx => h x (List.mem_cons_of_mem _ hx))

theorem PAttr.chars (a : PAttr) (hn : xmlChars a.name = true) (he : xmlChars a.ev = true) : xmlChars a.bytes = true := by
  unfold PAttr.bytes
  rw [xmlChars_cons_ascii 32 _ (by decide)]
  refine (Bool.and_eq_true _ _).mpr ⟨by decide, xmlChars_append _ _ hn ?_⟩
  rw [xmlChars_cons_ascii 61 _ (by decide), xmlChars_cons_ascii 34 _ (by decide)]
  simp only [Bool.and_eq_true]
  exact ⟨by decide, by decide, xmlChars_append _ _ he (by decide)⟩

/-- An empty-element tag. -/
theorem Piece.emptyElem (n : Bytes) (hn : isName n = true) (l : List PAttr) (hl : ∀ a ∈ l, a.ok)
    (hc : ∀ a ∈ l, xmlChars a.ev = true) (hnd : nodup (l.map (·.name)) = true) :
    Piece (60 :: (n ++ (l.flatMap PAttr.bytes ++ b!"/>"))) (fun R => .elem n (l.map PAttr.view) [] :: R) := by
  refine ⟨?_, fun X _ => by simp [gtFree], fun X R rest' _ hR => ?_⟩
  · rw [xmlChars_cons_ascii 60 _ (by decide)]
    refine (Bool.and_eq_true _ _).mpr ⟨by decide, xmlChars_append _ _ (isName_xmlChars n hn) (xmlChars_append _ _ ?_ (by decide))⟩
    exact xmlChars_flatMap _ l fun a ha => a.chars (isName_xmlChars _ (hl a ha).1) (hc a ha)
  · obtain ⟨a, n', rfl, ha⟩ := isName_head n hn
    obtain ⟨_, h47, h33, _⟩ := nameStartByte_facts a ha
    have e : 60 :: (a :: n' ++ (l.flatMap PAttr.bytes ++ b!"/>")) ++ X =
        60 :: a :: ((n' ++ (l.flatMap PAttr.bytes ++ b!"/>")) ++ X) := by simp
    rw [e]
    refine reads_element a _ X _ R rest' h47 h33 ?_ hR
    intro f hf
    have := element_reads_empty (a :: n') hn l hl hnd X f (by simpa [tagEnd] using hf)
    simpa [tagEnd] using this

/-- An element with content. -/
theorem Piece.elem (n : Bytes) (hn : isName n = true) (l : List PAttr) (hl : ∀ a ∈ l, a.ok)
    (hc : ∀ a ∈ l, xmlChars a.ev = true) (hnd : nodup (l.map (·.name)) = true)
    (K : Bytes) (FK : List XItem → List XItem) (hK : Piece K FK) :
    Piece (60 :: (n ++ (l.flatMap PAttr.bytes ++ (62 :: (K ++ (b!"</" ++ n ++ [62]))))))
      (fun R => .elem n (l.map PAttr.view) (FK []) :: R) := by
  refine ⟨?_, fun X _ => by simp [gtFree], fun X R rest' _ hR => ?_⟩
  · rw [xmlChars_cons_ascii 60 _ (by decide)]
    refine (Bool.and_eq_true _ _).mpr ⟨by decide, xmlChars_append _ _ (isName_xmlChars n hn) (xmlChars_append _ _ ?_ ?_)⟩
    · exact xmlChars_flatMap _ l fun a ha => a.chars (isName_xmlChars _ (hl a ha).1) (hc a ha)
    · rw [xmlChars_cons_ascii 62 _ (by decide)]
      refine (Bool.and_eq_true _ _).mpr ⟨by decide, xmlChars_append _ _ hK.chars
        (xmlChars_append _ _ (xmlChars_append _ _ (by decide) (isName_xmlChars n hn)) (by decide))⟩
  · obtain ⟨a, n', rfl, ha⟩ := isName_head n hn
    obtain ⟨_, h47, h33, _⟩ := nameStartByte_facts a ha
    have e : 60 :: (a :: n' ++ (l.flatMap PAttr.bytes ++ (62 :: (K ++ (b!"</" ++ (a :: n') ++ [62]))))) ++ X =
        60 :: a :: ((n' ++ (l.flatMap PAttr.bytes ++ (62 :: (K ++ (b!"</" ++ (a :: n') ++ [62]))))) ++ X) := by simp
    rw [e]
    refine reads_element a _ X _ R rest' h47 h33 ?_ hR
    intro f hf
    have hk : Reads (K ++ (b!"</" ++ (a :: n') ++ 62 :: X)) (FK [], b!"</" ++ (a :: n') ++ 62 :: X) :=
      hK.reads _ [] _ (by simp [gtFree]) (by simpa using reads_endtag ((a :: n') ++ 62 :: X))
    have := element_reads (a :: n') hn l hl hnd K (FK []) X hk f (by simpa [tagEnd] using hf)
    simpa [tagEnd] using this


/-- `P` is an element as the printer wrote it: `element` reads it as `e`, whatever follows. -/
def EPiece (P : Bytes) (e : XItem) : Prop := ∀ X f, (P ++ X).length ≤ f → element f (P ++ X) = some (e, X)

theorem EPiece.emptyElem (n : Bytes) (hn : isName n = true) (l : List PAttr) (hl : ∀ a ∈ l, a.ok)
    (hnd : nodup (l.map (·.name)) = true) :
    EPiece (60 :: (n ++ (l.flatMap PAttr.bytes ++ b!"/>"))) (.elem n (l.map PAttr.view) []) := by
  intro X f hf
  have e : 60 :: (n ++ (l.flatMap PAttr.bytes ++ b!"/>")) ++ X =
      60 :: (n ++ (l.flatMap PAttr.bytes ++ (tagEnd true ++ X))) := by simp [tagEnd]
  rw [e] at hf ⊢
  exact element_reads_empty n hn l hl hnd X f hf

theorem EPiece.elem (n : Bytes) (hn : isName n = true) (l : List PAttr) (hl : ∀ a ∈ l, a.ok)
    (hnd : nodup (l.map (·.name)) = true) (K : Bytes) (FK : List XItem → List XItem) (hK : Piece K FK) :
    EPiece (60 :: (n ++ (l.flatMap PAttr.bytes ++ (62 :: (K ++ (b!"</" ++ n ++ [62]))))))
      (.elem n (l.map PAttr.view) (FK [])) := by
  intro X f hf
  have e : 60 :: (n ++ (l.flatMap PAttr.bytes ++ (62 :: (K ++ (b!"</" ++ n ++ [62]))))) ++ X =
      60 :: (n ++ (l.flatMap PAttr.bytes ++ (tagEnd false ++ (K ++ (b!"</" ++ n ++ 62 :: X))))) := by simp [tagEnd]
  rw [e] at hf ⊢
  have hk : Reads (K ++ (b!"</" ++ n ++ 62 :: X)) (FK [], b!"</" ++ n ++ 62 :: X) :=
    hK.reads _ [] _ (by simp [gtFree]) (by simpa using reads_endtag (n ++ 62 :: X))
  exact element_reads n hn l hl hnd K (FK []) X hk f hf

end Wbxml.Lemmas.XmlSpec
