/- Lemmas about the multi-byte integer model (`Model/Codec/MbUint.lean`). -/
import Wbxml.Model.Codec.MbUint
import Wbxml.Lemmas.CodecBits
namespace Wbxml.Lemmas.Codec
open Wbxml Wbxml.Model.Codec

theorem or128 (a b : Nat) (h : b < 128) : a * 128 ||| b = a * 128 + b := or_mul_pow a b 7 h

theorem x80_or (x : Nat) : 0x80 ||| x % 128 = 128 + x % 128 :=
  or128 1 (x % 128) (Nat.mod_lt _ (by decide))

/-- `(uint << 7) | (cur_byte & 0x7F)` in 32 bits. -/
theorem acc_step (acc b : Nat) :
    (acc * 128 % 2 ^ 32) ||| (b % 128) = (acc % 2 ^ 25) * 128 + b % 128 := by
  have h : acc * 128 % 2 ^ 32 = (acc % 2 ^ 25) * 128 := by omega
  rw [h, or128 _ _ (Nat.mod_lt _ (by decide))]

/-- One reader step in arithmetic form. -/
theorem dec_cons (l acc : Nat) (b : UInt8) (rest : Bytes) :
    mbDecodeLoop (l + 1) acc (b :: rest) =
      if b.toNat < 128 then .ok ((acc % 2 ^ 25) * 128 + b.toNat, rest)
      else mbDecodeLoop l ((acc % 2 ^ 25) * 128 + (b.toNat - 128)) rest := by
  have hb := b.toNat_lt
  simp only [mbDecodeLoop, acc_step]
  by_cases h : b.toNat < 128
  · have h1 : b.toNat / 128 % 2 = 0 := by omega
    have h2 : b.toNat % 128 = b.toNat := by omega
    simp [h, h1, h2]
  · have h1 : ¬ (b.toNat / 128 % 2 = 0) := by omega
    have h2 : b.toNat % 128 = b.toNat - 128 := by omega
    simp [h, h1, h2]

/-- Final octet of the writer: `value & 0x7f`. -/
def lo (x : Nat) : UInt8 := UInt8.ofNat (x % 128)
/-- Non-final octet of the writer: `0x80 | (value & 0x7f)`. -/
def hi (x : Nat) : UInt8 := UInt8.ofNat (0x80 ||| x % 128)

theorem toNat_lo (x : Nat) : (lo x).toNat = x % 128 := by
  rw [lo, UInt8.toNat_ofNat']; omega
theorem toNat_hi (x : Nat) : (hi x).toNat = 128 + x % 128 := by
  rw [hi, UInt8.toNat_ofNat', x80_or]; omega

theorem low_lt (x : Nat) : x % 128 < 128 := Nat.mod_lt _ (by decide)
theorem high_not_lt (x : Nat) : ¬ (128 + x % 128 < 128) := by omega

/-- The writer's output, case by case (the loop unrolled over its four possible iterations). -/
theorem mbEncode_eq (v : Nat) (hv : v < 2 ^ 32) : mbEncode v =
    if v / 128 = 0 then [lo v]
    else if v / 128 / 128 = 0 then [hi (v / 128), lo v]
    else if v / 128 / 128 / 128 = 0 then [hi (v / 128 / 128), hi (v / 128), lo v]
    else if v / 128 / 128 / 128 / 128 = 0 then [hi (v / 128 / 128 / 128), hi (v / 128 / 128), hi (v / 128), lo v]
    else [hi (v / 128 / 128 / 128 / 128), hi (v / 128 / 128 / 128), hi (v / 128 / 128), hi (v / 128), lo v] := by
  have hv' : v % 2 ^ 32 = v := Nat.mod_eq_of_lt hv
  simp only [mbEncode, hv', lo, hi]
  by_cases h1 : v / 128 = 0
  · simp only [mbEncodeLoop, h1, Nat.lt_irrefl, ↓reduceIte]
  have p1 : v / 128 > 0 := by omega
  by_cases h2 : v / 128 / 128 = 0
  · simp only [mbEncodeLoop, p1, h1, h2, Nat.lt_irrefl, ↓reduceIte]
  have p2 : v / 128 / 128 > 0 := by omega
  by_cases h3 : v / 128 / 128 / 128 = 0
  · simp only [mbEncodeLoop, p1, p2, h1, h2, h3, Nat.lt_irrefl, ↓reduceIte]
  have p3 : v / 128 / 128 / 128 > 0 := by omega
  by_cases h4 : v / 128 / 128 / 128 / 128 = 0
  · simp only [mbEncodeLoop, p1, p2, p3, h1, h2, h3, h4, Nat.lt_irrefl, ↓reduceIte]
  have p4 : v / 128 / 128 / 128 / 128 > 0 := by omega
  simp only [mbEncodeLoop, p1, p2, p3, p4, h1, h2, h3, h4, ↓reduceIte]

/-- Octets that all carry the continuation flag use the reader's budget up; when it reaches zero the
    result is error 70 whatever follows. -/
theorem dec_all_high (pre : Bytes) (h : ∀ b ∈ pre, 128 ≤ b.toNat) (acc : Nat) (rest : Bytes) :
    mbDecodeLoop pre.length acc (pre ++ rest) = .error (.code 70) := by
  induction pre generalizing acc with
  | nil => simp [mbDecodeLoop]
  | cons b t ih =>
    have hb : ¬ (b.toNat < 128) := by have := h b (by simp); omega
    rw [List.length_cons, List.cons_append, dec_cons]
    simp only [hb, ↓reduceIte]
    exact ih (fun x hx => h x (by simp [hx])) _

/-- Octets that all carry the continuation flag followed by the end of the buffer: error 45. -/
theorem dec_truncated (pre : Bytes) (h : ∀ b ∈ pre, 128 ≤ b.toNat) (l acc : Nat) (hl : pre.length < l) :
    mbDecodeLoop l acc pre = .error (.code 45) := by
  induction pre generalizing acc l with
  | nil =>
    cases l with
    | zero => simp at hl
    | succ l => simp [mbDecodeLoop]
  | cons b t ih =>
    cases l with
    | zero => simp at hl
    | succ l =>
      have hb : ¬ (b.toNat < 128) := by have := h b (by simp); omega
      rw [dec_cons]
      simp only [hb, ↓reduceIte]
      exact ih (fun x hx => h x (by simp [hx])) _ _ (by simpa using hl)

end Wbxml.Lemmas.Codec
