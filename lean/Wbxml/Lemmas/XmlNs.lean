/-
  Namespace declarations of the XML printer model (`Model/EncXml.lean`, `xml_encode_tag` after fix
  3c27455), used by `Props/C05.lean`:
    * the scope `xmlNode` hands down (`childScope`) is the nearest token-element ancestor;
    * what `xmlTag` declares, as an exact equation;
    * the default namespace in scope at an element (`nsInScope`) is the one of its code page.
-/
import Wbxml.Lemmas.FlowXml
import Wbxml.Lemmas.XmlPrint
namespace Wbxml.Lemmas.XmlNs
open Wbxml Wbxml.Model Wbxml.Lemmas.XmlPrint

/-! ### Scopes -/

/-- The scope values `xmlNode` produces: nothing above with a code page, or a token element. -/
def isScope : Parent → Bool
  | .none => true
  | .elt (.token _) => true
  | _ => false

/-- The code page a scope stands for. -/
def scopePage : Parent → Option Nat
  | .elt (.token r) => some r.page
  | _ => none

/-- Explicit scope (page of the nearest token-element ancestor, `none` at the root) of the children
    of an element called `name` whose own scope is `s`. -/
def childPage (s : Option Nat) : Name → Option Nat
  | .token r => some r.page
  | .literal _ => s

/-- The last token name of a list of names (ancestors, root first). -/
def lastToken : List Name → Option TagRow
  | [] => none
  | n :: rest =>
    match lastToken rest with
    | some r => some r
    | none => (match n with | .token r => some r | .literal _ => none)

/-- Walk down a tree along `path` (child indices; through elements and CDATA nodes, not into
    embedded documents, which are printed as documents of their own) with an explicit scope: the
    node reached and the page of its nearest token-element ancestor. -/
def scopeAt : Option Nat → Node → List Nat → Option (Option Nat × Node)
  | s, n, [] => some (s, n)
  | s, n, i :: rest =>
    match n with
    | .elt name _ kids =>
      (match kids[i]? with
       | some k => scopeAt (childPage s name) k rest
       | none => none)
    | .cdata kids =>
      (match kids[i]? with
       | some k => scopeAt s k rest
       | none => none)
    | _ => none

/-- The same walk, scope-free: the names of the elements passed on the way (root first, the node
    reached not included, CDATA nodes are transparent) and the node reached. -/
def pathTo : Node → List Nat → Option (List Name × Node)
  | n, [] => some ([], n)
  | n, i :: rest =>
    match n with
    | .elt name _ kids =>
      (match kids[i]? with
       | some k => (pathTo k rest).map fun x => (name :: x.1, x.2)
       | none => none)
    | .cdata kids =>
      (match kids[i]? with
       | some k => pathTo k rest
       | none => none)
    | _ => none

theorem childScope_isScope (p : Parent) (name : Name) (h : isScope p = true) :
    isScope (childScope p name) = true := by
  cases name with
  | token r => rfl
  | literal s => exact h

theorem scopePage_childScope (p : Parent) (name : Name) :
    scopePage (childScope p name) = childPage (scopePage p) name := by
  cases name <;> rfl

theorem foldl_childScope_isScope (names : List Name) (p : Parent) (h : isScope p = true) :
    isScope (names.foldl childScope p) = true := by
  induction names generalizing p with
  | nil => exact h
  | cons n rest ih => exact ih _ (childScope_isScope p n h)

theorem scopePage_foldl (names : List Name) (p : Parent) :
    scopePage (names.foldl childScope p) = names.foldl childPage (scopePage p) := by
  induction names generalizing p with
  | nil => rfl
  | cons n rest ih => simp only [List.foldl_cons, ih, scopePage_childScope]

/-- The explicit scope after a list of ancestors is the page of the last token name among them. -/
theorem foldl_childPage_last (names : List Name) (s : Option Nat) :
    names.foldl childPage s = (match lastToken names with | some r => some r.page | none => s) := by
  induction names generalizing s with
  | nil => rfl
  | cons n rest ih =>
    simp only [List.foldl_cons, ih, lastToken]
    cases lastToken rest with
    | some r => rfl
    | none => cases n <;> rfl

/-- … and the model's scope value is that token element itself. -/
theorem foldl_childScope_last (names : List Name) (p : Parent) :
    names.foldl childScope p = (match lastToken names with | some r => .elt (.token r) | none => p) := by
  induction names generalizing p with
  | nil => rfl
  | cons n rest ih =>
    simp only [List.foldl_cons, ih, lastToken]
    cases lastToken rest with
    | some r => rfl
    | none => cases n <;> rfl

theorem lastToken_append_token (names : List Name) (r : TagRow) : lastToken (names ++ [.token r]) = some r := by
  induction names with
  | nil => rfl
  | cons n rest ih => simp only [List.cons_append, lastToken, ih]

theorem lastToken_append_literal (names : List Name) (s : Bytes) :
    lastToken (names ++ [.literal s]) = lastToken names := by
  induction names with
  | nil => rfl
  | cons n rest ih => simp only [List.cons_append, lastToken, ih]

theorem scopeAt_pathTo (path : List Nat) (s : Option Nat) (n : Node) :
    scopeAt s n path = (pathTo n path).map fun x => (x.1.foldl childPage s, x.2) := by
  induction path generalizing s n with
  | nil => rfl
  | cons i rest ih =>
    cases n with
    | elt name attrs kids =>
      simp only [scopeAt, pathTo]
      cases kids[i]? with
      | none => rfl
      | some k =>
        simp only [ih]
        cases pathTo k rest <;> rfl
    | cdata kids =>
      simp only [scopeAt, pathTo]
      cases kids[i]? with
      | none => rfl
      | some k => exact ih s k
    | text t => rfl
    | tree l cs r => rfl

/-! ### `xmlNode` only appends, and prints a sub-node with the folded scope -/

open Wbxml.Model.Flow in
theorem sh_self (st : XSt) : sh st.out { st with out := [] } = st := by
  cases st; simp [sh]

open Wbxml.Model.Flow in
theorem xmlNode_append (c : XCfg) (p : Parent) (f : Nat) (n : Node) (st st' : XSt)
    (h : xmlNode c p f n st = .ok st') : ∃ x, st'.out = st.out ++ x := by
  have h1 := (xml_sh f).1 c p n st.out { st with out := [] }
  rw [sh_self, h] at h1
  cases hk : xmlNode c p f n { st with out := [] } with
  | error e => rw [hk] at h1; cases h1
  | ok r => rw [hk] at h1; simp only [shE, Except.ok.injEq] at h1; exact ⟨r.out, by rw [h1]; rfl⟩

open Wbxml.Model.Flow in
theorem xmlNodes_append (c : XCfg) (p : Parent) (f : Nat) (ns : List Node) (st st' : XSt)
    (h : xmlNodes c p f ns st = .ok st') : ∃ x, st'.out = st.out ++ x := by
  have h1 := (xml_sh f).2 c p ns st.out { st with out := [] }
  rw [sh_self, h] at h1
  cases hk : xmlNodes c p f ns { st with out := [] } with
  | error e => rw [hk] at h1; cases h1
  | ok r => rw [hk] at h1; simp only [shE, Except.ok.injEq] at h1; exact ⟨r.out, by rw [h1]; rfl⟩

open Wbxml.Model.Flow in
theorem xmlEndTag_append (c : XCfg) (name : Name) (kids : List Node) (st : XSt) :
    ∃ x, (xmlEndTag c name kids st).out = st.out ++ x := by
  have h1 := xmlEndTag_sh c name kids st.out { st with out := [] }
  rw [sh_self] at h1
  exact ⟨_, by rw [h1]; rfl⟩

/-- A child of a sibling list is printed by a call of `xmlNode` with the list's scope, and what that
    call has written is an initial part of the output. -/
theorem xmlNodes_get (c : XCfg) (q : Parent) (kids : List Node) :
    ∀ (f : Nat) (s0 s1 : XSt) (i : Nat) (k : Node), xmlNodes c q f kids s0 = .ok s1 → kids[i]? = some k →
      ∃ g a b post, xmlNode c q g k a = .ok b ∧ s1.out = b.out ++ post := by
  induction kids with
  | nil => intro f s0 s1 i k _ hk; simp at hk
  | cons n rest ih =>
    intro f s0 s1 i k h hk
    cases f with
    | zero => rw [Flow.xmlNodes_zero] at h; cases h
    | succ f =>
      rw [Flow.xmlNodes_cons] at h
      cases hn : xmlNode c q f n s0 with
      | error e => rw [hn] at h; cases h
      | ok t =>
        rw [hn] at h
        cases i with
        | zero =>
          simp only [List.getElem?_cons_zero, Option.some.injEq] at hk
          subst hk
          obtain ⟨x, hx⟩ := xmlNodes_append c q f rest t s1 h
          exact ⟨f, s0, t, x, hn, hx⟩
        | succ j =>
          simp only [List.getElem?_cons_succ] at hk
          exact ih f t s1 j k h hk

/-- **The scope of a sub-node.** If `xmlNode` prints `n` under scope `p` and `path` leads from `n` to
    the node `m` past the elements `names`, then `m` is printed by a call of `xmlNode` whose scope is
    `names.foldl childScope p`, and what that call has written when it returns is an initial part of
    the whole output. -/
theorem xmlNode_sub (c : XCfg) (path : List Nat) :
    ∀ (p : Parent) (f : Nat) (n : Node) (st st' : XSt) (names : List Name) (m : Node),
      xmlNode c p f n st = .ok st' → pathTo n path = some (names, m) →
      ∃ g a b post, xmlNode c (names.foldl childScope p) g m a = .ok b ∧ st'.out = b.out ++ post := by
  induction path with
  | nil =>
    intro p f n st st' names m h hp
    simp only [pathTo, Option.some.injEq, Prod.mk.injEq] at hp
    obtain ⟨rfl, rfl⟩ := hp
    exact ⟨f, st, st', [], h, by simp⟩
  | cons i rest ih =>
    intro p f n st st' names m h hp
    cases f with
    | zero => rw [Flow.xmlNode_zero] at h; cases h
    | succ f =>
      cases n with
      | elt name attrs kids =>
        simp only [pathTo] at hp
        cases hk : kids[i]? with
        | none => rw [hk] at hp; cases hp
        | some k =>
          simp only [hk] at hp
          cases hpk : pathTo k rest with
          | none => rw [hpk] at hp; cases hp
          | some x =>
            rw [hpk] at hp
            simp only [Option.map_some, Option.some.injEq, Prod.mk.injEq] at hp
            obtain ⟨rfl, rfl⟩ := hp
            rw [Flow.xmlNode_elt] at h
            cases hl : xmlNodes c (childScope p name) f kids (Flow.xmlOpen c p name attrs kids st) with
            | error e => rw [hl] at h; cases h
            | ok s1 =>
              rw [hl] at h
              obtain ⟨g, a, b, post, hb, hs1⟩ := xmlNodes_get c _ kids f _ s1 i k hl hk
              obtain ⟨g', a', b', post', hb', hb1⟩ := ih (childScope p name) g k a b x.1 x.2 hb (by rw [hpk])
              refine ⟨g', a', b', ?_, hb', ?_⟩
              · exact post' ++ post ++
                  (if kids.isEmpty then [] else (xmlEndTag c name kids { s1 with out := [] }).out)
              · simp only [Except.ok.injEq] at h
                subst h
                cases hke : kids.isEmpty with
                | true => simp [hs1, hb1]
                | false =>
                  have h1 := Flow.xmlEndTag_sh c name kids s1.out { s1 with out := [] }
                  rw [sh_self] at h1
                  simp only [Bool.false_eq_true, ↓reduceIte]
                  rw [h1]
                  simp [Flow.sh, hs1, hb1]
      | cdata kids =>
        simp only [pathTo] at hp
        cases hk : kids[i]? with
        | none => rw [hk] at hp; cases hp
        | some k =>
          rw [hk] at hp
          rw [Flow.xmlNode_cdata] at h
          cases hl : xmlNodes c p f kids { st with inCdata := true, out := st.out ++ b!"<![CDATA[" } with
          | error e => rw [hl] at h; cases h
          | ok s1 =>
            rw [hl] at h
            obtain ⟨g, a, b, post, hb, hs1⟩ := xmlNodes_get c _ kids f _ s1 i k hl hk
            obtain ⟨g', a', b', post', hb', hb1⟩ := ih p g k a b names m hb hp
            refine ⟨g', a', b', post' ++ post ++ b!"]]>", hb', ?_⟩
            simp only [Except.ok.injEq] at h
            subst h
            simp [hs1, hb1]
      | text t => simp [pathTo] at hp
      | tree l cs r => simp [pathTo] at hp

open Wbxml.Model.Flow in
theorem xmlOpen_tag (c : XCfg) (p : Parent) (name : Name) (attrs : List Attr) (kids : List Node) (st : XSt) :
    ∃ x, (xmlOpen c p name attrs kids st).out = (xmlTag c p name st).out ++ x := by
  have he : ∀ s : XSt, ∃ x, (xmlEndAttrs c kids s).out = s.out ++ x := by
    intro s
    have h1 := xmlEndAttrs_sh c kids s.out { s with out := [] }
    rw [sh_self] at h1
    exact ⟨_, by rw [h1]; rfl⟩
  simp only [xmlOpen]
  split
  · obtain ⟨x, hx⟩ := he (attrs.foldl (fun st a => xmlAttr c a st) (xmlTag c p name st))
    rw [hx, xmlAttrs_out]
    exact ⟨_, List.append_assoc _ _ _⟩
  · exact he _

/-- What a call of `xmlNode` on an element has written starts with the start tag `xmlTag` writes under
    the call's scope. -/
theorem xmlNode_elt_tag (c : XCfg) (q : Parent) (g : Nat) (name : Name) (attrs : List Attr) (kids : List Node)
    (a b : XSt) (h : xmlNode c q g (.elt name attrs kids) a = .ok b) :
    ∃ x, b.out = (xmlTag c q name a).out ++ x := by
  cases g with
  | zero => rw [Flow.xmlNode_zero] at h; cases h
  | succ g =>
    rw [Flow.xmlNode_elt] at h
    cases hl : xmlNodes c (childScope q name) g kids (Flow.xmlOpen c q name attrs kids a) with
    | error e => rw [hl] at h; cases h
    | ok s1 =>
      rw [hl] at h
      simp only [Except.ok.injEq] at h
      subst h
      obtain ⟨x1, hx1⟩ := xmlOpen_tag c q name attrs kids a
      obtain ⟨x2, hx2⟩ := xmlNodes_append c _ g kids _ s1 hl
      cases hke : kids.isEmpty with
      | true => exact ⟨x1 ++ x2, by simp [hx2, hx1]⟩
      | false =>
        obtain ⟨x3, hx3⟩ := xmlEndTag_append c name kids s1
        exact ⟨x1 ++ x2 ++ x3, by simp [hx3, hx2, hx1]⟩

/-! ### What `xmlTag` declares -/

/-- Does an element on page `page` have to declare its namespace under scope `p`: there is no token
    element above, or the nearest one lives on another page. -/
def scopeDiffers : Parent → Nat → Bool
  | .none, _ => true
  | .elt (.token pr), page => pr.page != page
  | _, _ => false

/-- The default namespace `xml_encode_tag` declares in the start tag of `name` under scope `p`. -/
def declaredNs (c : XCfg) (p : Parent) (name : Name) : Option Bytes :=
  match c.lang.ns, name with
  | some ns, .token r => if scopeDiffers p r.page then nsOfPageX ns r.page else none
  | _, _ => none

/-- ` xmlns="…"`, or nothing. -/
def declBytes : Option Bytes → Bytes
  | some n => b!" xmlns=\"" ++ n ++ [34]
  | none => []

theorem scopeDiffers_iff (p : Parent) (page : Nat) :
    scopeDiffers p page = true ↔ (p = .none ∨ ∃ pr, p = .elt (.token pr) ∧ pr.page ≠ page) := by
  cases p with
  | none => simp [scopeDiffers]
  | other => simp [scopeDiffers]
  | elt n =>
    cases n with
    | literal s => simp [scopeDiffers]
    | token pr =>
      simp only [scopeDiffers, bne_iff_ne, ne_eq, reduceCtorEq, Parent.elt.injEq, Name.token.injEq, false_or]
      constructor
      · intro h; exact ⟨pr, rfl, h⟩
      · rintro ⟨pr', rfl, h⟩; exact h

theorem nsDecl_eq (c : XCfg) (p : Parent) (name : Name) : nsDecl c p name = declBytes (declaredNs c p name) := by
  cases hns : c.lang.ns with
  | none => cases name <;> cases p <;> simp [nsDecl, declaredNs, declBytes, hns]
  | some ns =>
    cases name with
    | literal s => cases p <;> simp [nsDecl, declaredNs, declBytes, hns]
    | token r =>
      cases p with
      | none =>
        simp only [nsDecl, declaredNs, scopeDiffers, hns, ↓reduceIte]
        cases nsOfPageX ns r.page <;> rfl
      | other => simp [nsDecl, declaredNs, scopeDiffers, declBytes, hns]
      | elt pn =>
        cases pn with
        | literal s => simp [nsDecl, declaredNs, scopeDiffers, declBytes, hns]
        | token pr =>
          simp only [nsDecl, declaredNs, scopeDiffers, hns]
          by_cases hp : (pr.page != r.page) = true
          · simp only [hp, ↓reduceIte]
            cases nsOfPageX ns r.page <;> rfl
          · simp [hp, declBytes]

/-- `xmlTag` looks at its scope only through `isScope` and `scopePage`. -/
theorem declaredNs_congr (c : XCfg) (p q : Parent) (name : Name) (hp : isScope p = true) (hq : isScope q = true)
    (h : scopePage p = scopePage q) : declaredNs c p name = declaredNs c q name := by
  have hd : ∀ page, scopeDiffers p page = scopeDiffers q page := by
    intro page
    cases p with
    | other => cases hp
    | none =>
      cases q with
      | other => cases hq
      | none => rfl
      | elt qn => cases qn with
        | literal s => cases hq
        | token qr => cases h
    | elt pn =>
      cases pn with
      | literal s => cases hp
      | token pr =>
        cases q with
        | other => cases hq
        | none => cases h
        | elt qn => cases qn with
          | literal s => cases hq
          | token qr =>
            simp only [scopePage, Option.some.injEq] at h
            simp only [scopeDiffers, h]
  simp only [declaredNs, hd]

/-! ### The namespace in scope -/

/-- The default namespace in scope inside an element `name` printed under scope `p`, when `cur` is in
    scope around it: what its start tag declares, else `cur`. -/
def nsAfter (c : XCfg) (p : Parent) (cur : Option Bytes) (name : Name) : Option Bytes :=
  match declaredNs c p name with
  | some n => some n
  | none => cur

/-- The default namespace a namespace-aware reader has in scope after the start tags of the
    elements `names` (outermost first), the first of them printed under scope `p` with `cur` in
    scope around it: every start tag is printed under the scope `xmlNode` hands down
    (`childScope`), and a declaration replaces the current value. -/
def nsInScope (c : XCfg) : Parent → Option Bytes → List Name → Option Bytes
  | _, cur, [] => cur
  | p, cur, name :: rest => nsInScope c (childScope p name) (nsAfter c p cur name) rest

theorem nsInScope_append (c : XCfg) (names : List Name) (p : Parent) (cur : Option Bytes) (name : Name) :
    nsInScope c p cur (names ++ [name]) =
      nsAfter c (names.foldl childScope p) (nsInScope c p cur names) name := by
  induction names generalizing p cur with
  | nil => rfl
  | cons n rest ih => simp only [List.cons_append, nsInScope, List.foldl_cons, ih]

/-- Every token name of the list lives on a page with a row in the namespace table. -/
def namesHaveRows (ns : List NsRow) (names : List Name) : Bool :=
  names.all fun n => match n with
    | .token r => (nsOfPageX ns r.page).isSome
    | .literal _ => true

mutual
/-- Every token element of the tree (embedded documents excluded: they are documents of their own,
    with their own language) lives on a page with a row in the namespace table. -/
def pagesHaveRows (ns : List NsRow) : Node → Bool
  | .elt name _ kids =>
    (match name with
     | .token r => (nsOfPageX ns r.page).isSome
     | .literal _ => true) && pagesHaveRowsL ns kids
  | .cdata kids => pagesHaveRowsL ns kids
  | _ => true
def pagesHaveRowsL (ns : List NsRow) : List Node → Bool
  | [] => true
  | n :: rest => pagesHaveRows ns n && pagesHaveRowsL ns rest
end

theorem pagesHaveRowsL_get (ns : List NsRow) (kids : List Node) (i : Nat) (k : Node)
    (h : pagesHaveRowsL ns kids = true) (hk : kids[i]? = some k) : pagesHaveRows ns k = true := by
  induction kids generalizing i with
  | nil => simp at hk
  | cons n rest ih =>
    simp only [pagesHaveRowsL, Bool.and_eq_true] at h
    cases i with
    | zero => simp only [List.getElem?_cons_zero, Option.some.injEq] at hk; exact hk ▸ h.1
    | succ j => simp only [List.getElem?_cons_succ] at hk; exact ih j h.2 hk

theorem pathTo_haveRows (ns : List NsRow) (path : List Nat) :
    ∀ (n : Node) (names : List Name) (m : Node), pagesHaveRows ns n = true → pathTo n path = some (names, m) →
      namesHaveRows ns names = true ∧ pagesHaveRows ns m = true := by
  induction path with
  | nil =>
    intro n names m h hp
    simp only [pathTo, Option.some.injEq, Prod.mk.injEq] at hp
    obtain ⟨rfl, rfl⟩ := hp
    exact ⟨rfl, h⟩
  | cons i rest ih =>
    intro n names m h hp
    cases n with
    | elt name attrs kids =>
      simp only [pathTo] at hp
      simp only [pagesHaveRows, Bool.and_eq_true] at h
      cases hk : kids[i]? with
      | none => rw [hk] at hp; cases hp
      | some k =>
        simp only [hk] at hp
        cases hpk : pathTo k rest with
        | none => rw [hpk] at hp; cases hp
        | some x =>
          rw [hpk] at hp
          simp only [Option.map_some, Option.some.injEq, Prod.mk.injEq] at hp
          obtain ⟨rfl, rfl⟩ := hp
          obtain ⟨h1, h2⟩ := ih k x.1 x.2 (pagesHaveRowsL_get ns kids i k h.2 hk) (by rw [hpk])
          refine ⟨?_, h2⟩
          simp only [namesHaveRows, List.all_cons, Bool.and_eq_true]
          exact ⟨h.1, h1⟩
    | cdata kids =>
      simp only [pathTo] at hp
      simp only [pagesHaveRows] at h
      cases hk : kids[i]? with
      | none => rw [hk] at hp; cases hp
      | some k =>
        rw [hk] at hp
        exact ih k names m (pagesHaveRowsL_get ns kids i k h hk) hp
    | text t => simp [pathTo] at hp
    | tree l cs r => simp [pathTo] at hp

/-- The invariant along a path: the namespace in scope is the one of the scope's page. -/
def ScopeNs (ns : List NsRow) (p : Parent) (cur : Option Bytes) : Prop :=
  isScope p = true ∧
  match scopePage p with
  | some page => cur = nsOfPageX ns page ∧ (nsOfPageX ns page).isSome = true
  | none => True

theorem scopeNs_step (c : XCfg) (ns : List NsRow) (hns : c.lang.ns = some ns) (p : Parent) (cur : Option Bytes)
    (name : Name) (h : ScopeNs ns p cur) (hrow : namesHaveRows ns [name] = true) :
    ScopeNs ns (childScope p name) (nsAfter c p cur name) := by
  obtain ⟨hs, hc⟩ := h
  cases name with
  | literal s =>
    refine ⟨hs, ?_⟩
    have : nsAfter c p cur (.literal s) = cur := by simp [nsAfter, declaredNs]
    rw [this]
    exact hc
  | token r =>
    refine ⟨rfl, ?_⟩
    simp only [namesHaveRows, List.all_cons, List.all_nil, Bool.and_true] at hrow
    show nsAfter c p cur (.token r) = nsOfPageX ns r.page ∧ _
    refine ⟨?_, hrow⟩
    obtain ⟨n, hn⟩ := Option.isSome_iff_exists.mp hrow
    cases p with
    | other => cases hs
    | none => simp [nsAfter, declaredNs, hns, scopeDiffers, hn]
    | elt pn =>
      cases pn with
      | literal s => cases hs
      | token pr =>
        simp only [scopePage] at hc
        by_cases hp : pr.page = r.page
        · have : scopeDiffers (.elt (.token pr)) r.page = false := by simp [scopeDiffers, hp]
          simp only [nsAfter, declaredNs, hns, this, Bool.false_eq_true, ↓reduceIte]
          rw [hc.1, hp]
        · have : scopeDiffers (.elt (.token pr)) r.page = true := by simp [scopeDiffers, hp]
          simp [nsAfter, declaredNs, hns, this, hn]

theorem scopeNs_path (c : XCfg) (ns : List NsRow) (hns : c.lang.ns = some ns) (names : List Name) :
    ∀ (p : Parent) (cur : Option Bytes), ScopeNs ns p cur → namesHaveRows ns names = true →
      ScopeNs ns (names.foldl childScope p) (nsInScope c p cur names) := by
  induction names with
  | nil => intro p cur h _; exact h
  | cons n rest ih =>
    intro p cur h hrow
    simp only [namesHaveRows, List.all_cons, Bool.and_eq_true] at hrow
    simp only [List.foldl_cons, nsInScope]
    refine ih _ _ (scopeNs_step c ns hns p cur n h ?_) ?_
    · simp only [namesHaveRows, List.all_cons, List.all_nil, Bool.and_true]; exact hrow.1
    · exact hrow.2

/-- Path form: after the start tags of `names` and of the token element `r`, from the root, the
    namespace in scope is the one of `r`'s page. -/
theorem nsInScope_path (c : XCfg) (ns : List NsRow) (hns : c.lang.ns = some ns) (names : List Name) (r : TagRow)
    (hrow : namesHaveRows ns (names ++ [.token r]) = true) :
    nsInScope c .none none (names ++ [.token r]) = nsOfPageX ns r.page := by
  have h := scopeNs_path c ns hns (names ++ [.token r]) .none none ⟨rfl, trivial⟩ hrow
  obtain ⟨_, h2⟩ := h
  rw [scopePage_foldl, foldl_childPage_last, lastToken_append_token] at h2
  exact h2.1

end Wbxml.Lemmas.XmlNs
