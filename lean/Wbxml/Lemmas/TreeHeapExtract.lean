/-
  C18 lemmas, part 7: `wbxml_tree_extract_node` keeps the invariant — for a node inside the tree
  (unlinked from parent and siblings, becomes a detached top) and for a node that has no parent
  (the root: the tree becomes empty; an already detached node: nothing changes, which is the
  behaviour after the repair recorded in known_findings.json).
-/
import Wbxml.Lemmas.TreeHeapAdd
set_option linter.unusedSimpArgs false
set_option linter.unusedVariables false
namespace Wbxml.Model.TreeHeap
open Wbxml Wbxml.Model

/-- Where an address of the shape sits: at the top level of the chain, or in the children chain of
    exactly one parent `P` (and then its cell says `parent = P`). -/
theorem Loc.locate (v : View) (n : Nat) (cn : Cell) (hcn : v n = some cn) :
    ∀ (t : BT) (par prv : Option Nat), Loc (LinkF v) par prv t → n ∈ t.ids → t.ids.Nodup →
      (n ∈ t.tops ∧ cn.parent = par) ∨
      (∃ P, P ∈ t.ids ∧ n ∈ (BT.kidsOf P t).tops ∧ cn.parent = some P)
  | .nil, _, _, _, h, _ => by simp at h
  | .node i ch nx, par, prv, ⟨ha, hc, hn⟩, h, hnd => by
    obtain ⟨hi1, hi2, hcn', hnn, hd⟩ := BT.nodup_node.mp hnd
    rcases BT.mem_node.mp h with h | h | h
    · left
      subst h
      refine ⟨by simp [BT.tops], ?_⟩
      cases par with
      | none => obtain ⟨c, hc', hp, _⟩ := ha; rw [hcn] at hc'; injection hc' with hc'; subst hc'; exact hp
      | some p => obtain ⟨c, hc', hp, _⟩ := ha; rw [hcn] at hc'; injection hc' with hc'; subst hc'; exact hp
    · right
      rcases Loc.locate v n cn hcn ch (some i) none hc h hcn' with ⟨h1, h2⟩ | ⟨P, hP, h1, h2⟩
      · refine ⟨i, BT.mem_node.mpr (Or.inl rfl), ?_, h2⟩
        simp [BT.kidsOf, h1]
      · refine ⟨P, BT.mem_node.mpr (Or.inr (Or.inl hP)), ?_, h2⟩
        have hiP : ¬ i = P := fun e => hi1 (e ▸ hP)
        simp [BT.kidsOf, hiP, hP, h1]
    · rcases Loc.locate v n cn hcn nx par (some i) hn h hnn with ⟨h1, h2⟩ | ⟨P, hP, h1, h2⟩
      · left; exact ⟨by simp [BT.tops, h1], h2⟩
      · right
        refine ⟨P, BT.mem_node.mpr (Or.inr (Or.inr hP)), ?_, h2⟩
        have hiP : ¬ i = P := fun e => hi2 (e ▸ hP)
        have hPc : P ∉ ch.ids := fun hx => hd P hx hP
        simp [BT.kidsOf, hiP, hPc, h1]

/-- The siblings a top-level node of a chain points to are top-level nodes of that chain. -/
theorem Match.top_neighbours {v : View} (par : Option Nat) (n : Nat) (cn : Cell) (hcn : v n = some cn) :
    ∀ (t : BT) (prv : Option Nat), Match v par prv t → n ∈ t.tops →
      (∀ q, cn.prev = some q → prv = some q ∨ q ∈ t.tops) ∧ (∀ x, cn.next = some x → x ∈ t.tops)
  | .nil, _, _, h => by simp [BT.tops] at h
  | .node i ch nx, prv, ⟨⟨c, hc, hp, hpv, hf, hnx, hb⟩, mc, mn⟩, h => by
    by_cases e : i = n
    · subst e
      rw [hcn] at hc; injection hc with hc; subst hc
      refine ⟨fun q hq => Or.inl (by rw [← hpv]; exact hq), ?_⟩
      intro x hx
      rw [hnx] at hx
      cases nx with
      | nil => simp at hx
      | node y cy my => simp at hx; subst hx; simp [BT.tops]
    · simp only [BT.tops, List.mem_cons] at h
      have hn' : n ∈ nx.tops := by
        rcases h with h | h
        · exact absurd h.symm e
        · exact h
      obtain ⟨h1, h2⟩ := Match.top_neighbours par n cn hcn nx (some i) mn hn'
      refine ⟨?_, fun x hx => by simp [BT.tops, h2 x hx]⟩
      intro q hq
      rcases h1 q hq with h | h
      · injection h with h; subst h; right; simp [BT.tops]
      · right; simp [BT.tops, h]

/-- A top-level node of a chain is not inside the sub-tree of another top-level node. -/
theorem BT.top_not_in_kids (n q : Nat) (K : BT) (hnd : K.ids.Nodup) (hn : n ∈ K.tops) (hq : q ∈ K.tops)
    (hne : q ≠ n) : q ∉ (BT.chainKids n K).ids := by
  have h1 := BT.tops_sub _ _ (BT.tops_chainRemove n K q hq hne)
  exact ((BT.mem_chainRemove n K q hnd hn).mp h1).2.2

/-! ### A node without parent -/

theorem cell_eta_links (c : Cell) (h1 : c.next = none) (h2 : c.prev = none) :
    ({ c with next := none, prev := none } : Cell) = c := by
  cases c; simp_all

theorem extract_top {s : St} {G : BT} (hF : Forest s G) {n : Nat} {cn : Cell} (hcn : s.cellAt n = some cn)
    (hp : cn.parent = none) :
    ∃ s', extractNode s n = .ok s' ∧ Forest s' G ∧ s'.cellAt = s.cellAt ∧
      s'.root = (if s.root = some n then none else s.root) ∧ s'.lang = s.lang ∧ s'.charset = s.charset ∧
      s'.curPage = s.curPage ∧ s'.heap.length = s.heap.length := by
  have hn := hF.parent_none_top hcn hp
  obtain ⟨c', hc', h1, h2, h3, h4, h5, h6⟩ := Loc.top_facts s.cellAt n G none hF.m hn
  rw [hcn] at hc'; injection hc' with hc'; subst hc'
  by_cases hr : s.root = some n
  · -- the root leaves: tree->root = node->next = NULL
    have hcn' : ({ s with root := (none : Option Nat) } : St).cellAt n = some cn := hcn
    obtain ⟨s1, e1, v1, m1⟩ := upd_step hcn' (fun c => { c with next := none, prev := none }) (fun _ => rfl)
    have hv : s1.cellAt = s.cellAt := by
      rw [v1]; funext j
      by_cases hj : j = n
      · subst hj; simp [cell_eta_links cn h3 h2]; exact hcn.symm
      · rw [vset_ne _ _ hj]; rfl
    refine ⟨s1, ?_, ?_, hv, ?_, m1.2.1, m1.2.2.1, m1.2.2.2.1, m1.2.2.2.2⟩
    · simp only [extractNode, extractNodeG, extractFixed, St.updOpt, deref_of_cellAt hcn, bind, Except.bind, h1, hr, h3, h2,
        pure, Except.pure, bne_self_eq_false, Bool.and_false, Bool.false_eq_true, if_false]
      exact e1
    · refine ⟨by rw [hv]; exact hF.m, hF.nodup, by rw [hv]; exact hF.cover, ?_⟩
      intro r hr'; rw [m1.1] at hr'; cases hr'
    · rw [m1.1]; simp [hr]
  · -- an already detached node: nothing to do
    obtain ⟨s1, e1, v1, m1⟩ := upd_step hcn (fun c => { c with next := none, prev := none }) (fun _ => rfl)
    have hv : s1.cellAt = s.cellAt := by
      rw [v1]; funext j
      by_cases hj : j = n
      · subst hj; simp [cell_eta_links cn h3 h2]; exact hcn.symm
      · rw [vset_ne _ _ hj]
    have hbne : (s.root != some n) = true := by
      simp only [bne_iff_ne, ne_eq]; exact hr
    refine ⟨s1, ?_, ?_, hv, ?_, m1.2.1, m1.2.2.1, m1.2.2.2.1, m1.2.2.2.2⟩
    · simp only [extractNode, extractNodeG, extractFixed, St.updOpt, deref_of_cellAt hcn, bind, Except.bind, h1, hbne, h3, h2,
        pure, Except.pure, Bool.and_self, if_true]
      exact e1
    · refine ⟨by rw [hv]; exact hF.m, hF.nodup, by rw [hv]; exact hF.cover, ?_⟩
      intro r hr'; rw [m1.1] at hr'; exact hF.root r hr'
    · rw [m1.1]; simp [hr]

/-! ### A node inside the tree -/

/-- The view after an optional update. -/
def vmap (v : View) (o : Option Nat) (f : Cell → Cell) : View :=
  fun j => if o = some j then (v j).map f else v j

theorem updOpt_step {s : St} {o : Option Nat} {f : Cell → Cell}
    (h : ∀ x, o = some x → ∃ c, s.cellAt x = some c) (hl : ∀ c, (f c).live = c.live) :
    ∃ s', s.updOpt o f = .ok s' ∧ s'.cellAt = vmap s.cellAt o f ∧ SameMeta s s' := by
  cases o with
  | none =>
    refine ⟨s, rfl, ?_, SameMeta.refl s⟩
    funext j; simp [vmap]
  | some x =>
    obtain ⟨c, hc⟩ := h x rfl
    obtain ⟨s', e, v, m⟩ := upd_step hc f hl
    refine ⟨s', e, ?_, m⟩
    rw [v]; funext j
    by_cases hj : j = x
    · subst hj; simp [vmap, hc]
    · have : ¬ (some x = some j) := fun e => hj (Option.some.inj e).symm
      simp [vmap, vset_ne _ _ hj, this]

theorem extract_inner {s : St} {G : BT} (hF : Forest s G) {n P : Nat} {cn : Cell}
    (hcn : s.cellAt n = some cn) (hp : cn.parent = some P) :
    ∃ s', extractNode s n = .ok s' ∧ SameMeta s s' ∧
      Forest s' (BT.snoc (BT.setKids P (BT.chainRemove n (BT.kidsOf P G)) G)
        (.node n (BT.chainKids n (BT.kidsOf P G)) .nil)) := by
  have hnG := hF.cover n cn hcn
  -- where n sits
  have hloc : P ∈ G.ids ∧ n ∈ (BT.kidsOf P G).tops := by
    rcases Loc.locate s.cellAt n cn hcn G none none hF.m hnG hF.nodup with ⟨_, h2⟩ | ⟨P', hP', h1, h2⟩
    · rw [hp] at h2; cases h2
    · rw [hp] at h2; injection h2 with h2; subst h2; exact ⟨hP', h1⟩
  obtain ⟨hPG, hnK⟩ := hloc
  obtain ⟨cP, hcP, hPf, hPb, mK⟩ := hF.cell_kids hPG
  have hKnd := BT.kidsOf_nodup P G hF.nodup
  have hnKi : n ∈ (BT.kidsOf P G).ids := BT.tops_sub _ _ hnK
  have hPn : P ≠ n := fun e => hKnd.2 (e ▸ hnKi)
  obtain ⟨_, l2, l3, l4, l5⟩ := Match.top_links (some P) n cn hcn _ none mK hnK
  obtain ⟨p1, p2, p3⟩ := Match.prev_ne_next (some P) n cn hcn _ none hKnd.1 (by intro p h; cases h) mK hnK
  obtain ⟨t1, t2⟩ := Match.top_neighbours (some P) n cn hcn _ none mK hnK
  have hq_top : ∀ q, cn.prev = some q → q ∈ (BT.kidsOf P G).tops := by
    intro q hq; rcases t1 q hq with h | h
    · cases h
    · exact h
  have hq_facts : ∀ q, cn.prev = some q → q ∈ (BT.kidsOf P G).ids ∧ q ≠ n ∧ q ≠ P ∧ cn.next ≠ some q := by
    intro q hq
    have h1 := BT.tops_sub _ _ (hq_top q hq)
    exact ⟨h1, fun e => p2 (by rw [hq, e]), fun e => hKnd.2 (e ▸ h1), p1 q hq⟩
  have hx_facts : ∀ x, cn.next = some x → x ∈ (BT.kidsOf P G).ids ∧ x ≠ n ∧ x ≠ P ∧ cn.prev ≠ some x := by
    intro x hx
    have h1 := BT.tops_sub _ _ (t2 x hx)
    exact ⟨h1, fun e => p3 (by rw [hx, e]), fun e => hKnd.2 (e ▸ h1), fun h => p1 x h hx⟩
  -- run the code
  obtain ⟨s1, e1, v1, m1⟩ := updOpt_step (s := s) (o := if cP.first = some n then some P else none)
    (f := fun c => { c with first := cn.next })
    (by intro x hx; split at hx
        · injection hx with hx; subst hx; exact ⟨cP, hcP⟩
        · cases hx) (fun _ => rfl)
  have hn1 : s1.cellAt n = some cn := by
    rw [v1]; unfold vmap
    have : ¬ ((if cP.first = some n then some P else none) = some n) := by
      split
      · intro h; injection h with h; exact hPn h
      · intro h; cases h
    simp [this, hcn]
  obtain ⟨s2, e2, v2, m2⟩ := upd_step hn1 (fun c => { c with parent := none }) (fun _ => rfl)
  obtain ⟨s3, e3, v3, m3⟩ := updOpt_step (s := s2) (o := cn.next) (f := fun c => { c with prev := cn.prev })
    (by intro x hx
        obtain ⟨hxK, hxn, hxP, _⟩ := hx_facts x hx
        obtain ⟨cx, hcx⟩ := Match.live _ _ _ mK x hxK
        refine ⟨cx, ?_⟩
        rw [v2, vset_ne _ _ hxn, v1]; unfold vmap
        have : ¬ ((if cP.first = some n then some P else none) = some x) := by
          split
          · intro h; injection h with h; exact hxP h.symm
          · intro h; cases h
        simp [this, hcx]) (fun _ => rfl)
  obtain ⟨s4, e4, v4, m4⟩ := updOpt_step (s := s3) (o := cn.prev) (f := fun c => { c with next := cn.next })
    (by intro q hq
        obtain ⟨hqK, hqn, hqP, hqx⟩ := hq_facts q hq
        obtain ⟨cq, hcq⟩ := Match.live _ _ _ mK q hqK
        refine ⟨cq, ?_⟩
        rw [v3]; unfold vmap
        simp only [hqx, if_false]
        rw [v2, vset_ne _ _ hqn, v1]; unfold vmap
        have : ¬ ((if cP.first = some n then some P else none) = some q) := by
          split
          · intro h; injection h with h; exact hqP h.symm
          · intro h; cases h
        simp [this, hcq]) (fun _ => rfl)
  have hn4 : s4.cellAt n = some { cn with parent := none } := by
    rw [v4]; unfold vmap; simp only [p2, if_false]
    rw [v3]; unfold vmap; simp only [p3, if_false]
    rw [v2]; simp
  obtain ⟨s5, e5, v5, m5⟩ := upd_step hn4 (fun c => { c with next := none, prev := none }) (fun _ => rfl)
  have hmeta : SameMeta s s5 := (((m1.trans m2).trans m3).trans m4).trans m5
  -- the final view
  have hv_other : ∀ i, i ≠ P → i ≠ n → some i ≠ cn.next → some i ≠ cn.prev → s5.cellAt i = s.cellAt i := by
    intro i hiP hin hix hiq
    have h1 : ¬ ((if cP.first = some n then some P else none) = some i) := by
      split
      · intro h; injection h with h; exact hiP h.symm
      · intro h; cases h
    rw [v5, vset_ne _ _ hin, v4]; unfold vmap; simp only [hiq.symm, if_false]
    rw [v3]; unfold vmap; simp only [hix.symm, if_false]
    rw [v2, vset_ne _ _ hin, v1]; unfold vmap; simp only [h1, if_false]
  have hv_n : s5.cellAt n = some { cn with parent := none, next := none, prev := none } := by rw [v5]; simp
  have hv_P : s5.cellAt P = some { cP with first := if cP.first = some n then cn.next else cP.first } := by
    have hPx : ¬ (cn.next = some P) := fun h => (hx_facts P h).2.2.1 rfl
    have hPq : ¬ (cn.prev = some P) := fun h => (hq_facts P h).2.2.1 rfl
    rw [v5, vset_ne _ _ hPn, v4]; unfold vmap; simp only [hPq, if_false]
    rw [v3]; unfold vmap; simp only [hPx, if_false]
    rw [v2, vset_ne _ _ hPn, v1]; unfold vmap
    by_cases hc : cP.first = some n
    · simp [hc, hcP]
    · simp [hc, hcP]
  have hv_q : ∀ q c, cn.prev = some q → s.cellAt q = some c → s5.cellAt q = some { c with next := cn.next } := by
    intro q c hq hc
    obtain ⟨hqK, hqn, hqP, hqx⟩ := hq_facts q hq
    have h1 : ¬ ((if cP.first = some n then some P else none) = some q) := by
      split
      · intro h; injection h with h; exact hqP h.symm
      · intro h; cases h
    rw [v5, vset_ne _ _ hqn, v4]; unfold vmap; simp only [hq, if_true]
    rw [v3]; unfold vmap; simp only [hqx, if_false]
    rw [v2, vset_ne _ _ hqn, v1]; unfold vmap; simp [h1, hc]
  have hv_x : ∀ x c, cn.next = some x → s.cellAt x = some c → s5.cellAt x = some { c with prev := cn.prev } := by
    intro x c hx hc
    obtain ⟨hxK, hxn, hxP, hxq⟩ := hx_facts x hx
    have h1 : ¬ ((if cP.first = some n then some P else none) = some x) := by
      split
      · intro h; injection h with h; exact hxP h.symm
      · intro h; cases h
    rw [v5, vset_ne _ _ hxn, v4]; unfold vmap; simp only [hxq, if_false]
    rw [v3]; unfold vmap; simp only [hx, if_true]
    rw [v2, vset_ne _ _ hxn, v1]; unfold vmap; simp [h1, hc]
  refine ⟨s5, ?_, hmeta, ?_⟩
  · simp only [extractNode, extractNodeG, deref_of_cellAt hcn, bind, Except.bind, hp, deref_of_cellAt hcP, e1, e2, e3,
      e4]
    exact e5
  · -- the new forest
    have hchain := Match.chainRemove (v := s.cellAt) (v' := s5.cellAt) (some P) n cn hcn _ none hKnd.1
      (by intro p h; cases h) hnK
      (by intro j hj hjn hjq hjx
          exact hv_other j (fun e => hKnd.2 (e ▸ hj)) hjn hjx hjq)
      hv_q hv_x mK
    have hchn := BT.chainKids_nodup n _ hKnd.1 hnK
    have hchn_sub : ∀ j, j ∈ (BT.chainKids n (BT.kidsOf P G)).ids → j ∈ (BT.kidsOf P G).ids :=
      fun j hj => BT.chainKids_sub n _ j hj
    have hbr : cP.pay.isBranch = true := by
      rcases hPb with h | h
      · exact h
      · rw [h] at hnK; simp [BT.tops] at hnK
    have hset_nd : (BT.setKids P (BT.chainRemove n (BT.kidsOf P G)) G).ids.Nodup :=
      BT.nodup_setKids P _ G hF.nodup (BT.nodup_chainRemove n _ hKnd.1)
        (fun j hj _ => BT.chainRemove_ids n _ j hj)
    have hmem_set : ∀ j, j ∈ (BT.setKids P (BT.chainRemove n (BT.kidsOf P G)) G).ids →
        j ≠ n ∧ j ∉ (BT.chainKids n (BT.kidsOf P G)).ids := by
      intro j hj
      rcases (BT.mem_setKids P _ G j hF.nodup).mp hj with ⟨_, h2⟩ | ⟨_, h2⟩
      · exact ⟨fun e => h2 (e ▸ hnKi), fun h => h2 (hchn_sub j h)⟩
      · have := (BT.mem_chainRemove n _ j hKnd.1 hnK).mp h2
        exact ⟨this.2.1, this.2.2⟩
    refine ⟨?_, ?_, ?_, ?_⟩
    · apply Loc.top_snoc
      · apply Loc.setKids P _ G none none hF.nodup _ _ ((loc_some_iff _ _ P none).mpr hchain.1) hF.m
        · intro i hi hiP hik par prv f nn l
          apply LinkF.congr _ l
          apply hv_other i hiP (fun e => hik (e ▸ hnKi))
          · intro e
            exact hik (hx_facts i e.symm).1
          · intro e
            exact hik (hq_facts i e.symm).1
        · intro par prv f nn l
          apply LinkF.set_first _ hcP _ hbr l
          rw [hv_P, hchain.2, ← hPf]
      · refine ⟨_, hv_n, rfl, rfl, l4, rfl, ?_⟩
        by_cases hb : cn.pay.isBranch = true
        · exact Or.inl hb
        · right
          have hb' : cn.pay.isBranch = false := by
            cases h : cn.pay.isBranch <;> simp_all
          rw [Match.leaf _ _ _ mK n cn hnK hcn hb']; rfl
      · apply Match.frame _ _ _ _ l5
        intro j hj
        have hjK := hchn_sub j hj
        apply hv_other j (fun e => hKnd.2 (e ▸ hjK)) (fun e => hchn.2 (e ▸ hj))
        · intro e
          have hx := hx_facts j e.symm
          exact BT.top_not_in_kids n j _ hKnd.1 hnK (t2 j e.symm) hx.2.1 hj
        · intro e
          have hq := hq_facts j e.symm
          exact BT.top_not_in_kids n j _ hKnd.1 hnK (hq_top j e.symm) hq.2.1 hj
    · apply BT.snoc_nodup _ _ hset_nd (BT.nodup_node.mpr ⟨hchn.2, by simp, hchn.1, by simp, by simp⟩)
      intro j hj hj2
      have := hmem_set j hj
      rcases BT.mem_node.mp hj2 with h | h | h
      · exact this.1 h
      · exact this.2 h
      · simp at h
    · intro i ci hci
      have hlive : ∃ c0, s.cellAt i = some c0 := by
        by_cases hiP : i = P
        · exact ⟨cP, hiP ▸ hcP⟩
        · by_cases hin : i = n
          · exact ⟨cn, hin ▸ hcn⟩
          · by_cases hix : some i = cn.next
            · exact Match.live _ _ _ mK i (hx_facts i hix.symm).1
            · by_cases hiq : some i = cn.prev
              · exact Match.live _ _ _ mK i (hq_facts i hiq.symm).1
              · rw [hv_other i hiP hin hix hiq] at hci; exact ⟨ci, hci⟩
      obtain ⟨c0, hc0⟩ := hlive
      have hiG := hF.cover i c0 hc0
      rw [BT.snoc_ids]
      by_cases hin : i = n
      · right; exact BT.mem_node.mpr (Or.inl hin)
      · by_cases hik : i ∈ (BT.chainKids n (BT.kidsOf P G)).ids
        · right; exact BT.mem_node.mpr (Or.inr (Or.inl hik))
        · left
          rw [BT.mem_setKids P _ G i hF.nodup]
          by_cases hiK : i ∈ (BT.kidsOf P G).ids
          · right; exact ⟨hPG, (BT.mem_chainRemove n _ i hKnd.1 hnK).mpr ⟨hiK, hin, hik⟩⟩
          · left; exact ⟨hiG, hiK⟩
    · intro r hr
      rw [hmeta.1] at hr
      rw [BT.tops_snoc, BT.tops_setKids]
      exact Or.inl (hF.root r hr)

end Wbxml.Model.TreeHeap
