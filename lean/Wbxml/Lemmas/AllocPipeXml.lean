/-
  C16 — the WBXML → tree → XML conversion: the parser / tree-building half
  (`Lemmas/AllocLoopE.lean`) composed with the XML output half (`Lemmas/AllocXmlC.lean`).
-/
import Wbxml.Model.AllocPipeXml
import Wbxml.Lemmas.AllocLoopE
import Wbxml.Lemmas.AllocXmlC
import Wbxml.Lemmas.AllocTreeXmlB
import Wbxml.Lemmas.AllocEncTree
namespace Wbxml.Model.Alloc
open Wbxml
set_option linter.unusedSimpArgs false
set_option linter.unusedVariables false
set_option linter.unnecessarySimpa false

/-- No request of either half is benign: a delivered failure is an error code, whatever it hit. -/
theorem wbxml2xml_spec (d : Doc) (hd : d.wf) (g : XGen) (l : XLang) (xtree : TCtx → XNode)
    (hx : ∀ c, ∀ t ∈ (xtree c).bufs, t.hdr ∈ c.owned) (s : Ledger) (wf : s.WF) :
    Good (wbxml2xml d g l xtree) s (fun r s' =>
      Clean s s' [] (ownedResult r.2) ∧ (r.1 ≠ OK → r.2 = none) ∧ (s.hits < s'.hits → r.1 ≠ OK)) := by
  unfold wbxml2xml
  simp only [bind_eq, pure_eq]
  refine Good.bind (treeFromWbxml_spec d hd s wf) ?_
  intro r1 s1 ⟨cl1, e1, h1, _⟩
  obtain ⟨ret, c0⟩ := r1
  simp only at cl1 e1 h1 ⊢
  have hh1 := cl1.hits
  cases c0 with
  | none =>
    simp only
    exact good_ret.2 ⟨by simpa [ownedCtxOpt, ownedResult] using cl1, fun _ => rfl, fun hh => h1 hh⟩
  | some c =>
    simp only [ownedCtxOpt] at cl1 ⊢
    have hret : ret = OK := by
      by_cases h : ret = OK
      · exact h
      · have := e1 h; simp at this
    subst hret
    have hno1 : ¬ s.hits < s1.hits := fun hh => h1 hh rfl
    refine Good.bind (treeToXml_spec g l (xtree c) s1 cl1.wf (fun t ht => cl1.owns.2 _ (hx c t ht))) ?_
    intro r s2 ⟨c2, n2, rep2⟩
    have hh2 := c2.hits
    have cX2 : Clean s s2 [] (c.owned ++ ownedResult r.2) := Clean.trans_prod cl1 c2
    refine Good.bind (treeDestroy_spec c s2 c2.wf cX2.owns.left) ?_
    intro _ s3 ⟨d3, hd3, nd3⟩
    have cX3 : Clean s s3 [] (ownedResult r.2) := by simpa using Clean.step_r _ wf cX2 d3
    exact good_ret.2 ⟨cX3, n2, fun hh => rep2 (by omega)⟩

/-- The benign requests of the XML → tree → WBXML conversion: those of the encoder half (`TreeBenign`),
    seen from the start of the conversion.  The Expat call-backs have none. -/
def XPipeBenign (binRow : Nat → Bool) (events : List XEvent) (parseOk : Bool) (useStrtbl : Bool) (texts : TCtx → List ABuf)
    (s : Ledger) (k : Nat) : Prop :=
  ∃ c s1, run (treeFromXml binRow events parseOk) s = (.ok (OK, some c), s1) ∧ TreeBenign useStrtbl (texts c) s1 k

theorem xml2wbxml_spec (binRow : Nat → Bool) (events : List XEvent) (parseOk : Bool) (useStrtbl : Bool) (texts : TCtx → List ABuf)
    (htexts : ∀ c, ∀ t ∈ texts c, t.hdr ∈ c.owned) (body : TCtx → List Bytes) (version publicId : Nat)
    (s : Ledger) (wf : s.WF) :
    Good (xml2wbxml binRow events parseOk useStrtbl texts body version publicId) s (fun r s' =>
      Clean s s' [] (ownedResult r.2) ∧ (r.1 ≠ OK → r.2 = none) ∧
      (useStrtbl = false → s.hits < s'.hits → r.1 ≠ OK) ∧
      (∀ k, s.fails k = true → s.next < k → k ≤ s'.next → ¬ XPipeBenign binRow events parseOk useStrtbl texts s k → r.1 ≠ OK)) := by
  unfold xml2wbxml
  simp only [bind_eq, pure_eq]
  refine Good.bind (treeFromXml_spec binRow events parseOk s wf).with_run ?_
  intro r1 s1 ⟨⟨cl1, e1, h1, _⟩, hr1⟩
  obtain ⟨ret, c0⟩ := r1
  simp only at cl1 e1 h1 hr1 ⊢
  have hh1 := cl1.hits
  cases c0 with
  | none =>
    simp only
    exact good_ret.2 ⟨by simpa [ownedCtxOpt, ownedResult] using cl1, fun _ => rfl, fun _ hh => h1 hh,
      fun k hf a b _ => h1 (hits_of_fail hr1 hf a b)⟩
  | some c =>
    simp only [ownedCtxOpt] at cl1 ⊢
    have hret : ret = OK := by
      by_cases h : ret = OK
      · exact h
      · have := e1 h; simp at this
    subst hret
    have hno1 : ¬ s.hits < s1.hits := fun hh => h1 hh rfl
    have htx : ∀ t ∈ texts c, t.hdr ∈ s1.live := fun t ht => cl1.owns.2 _ (htexts c t ht)
    refine Good.bind (treeToWbxml_spec useStrtbl (texts c) (body c) version publicId s1 cl1.wf htx) ?_
    intro r s2 ⟨c2, n2, u2, rep2⟩
    have hh2 := c2.hits
    have cX2 : Clean s s2 [] (c.owned ++ ownedResult r.2) := Clean.trans_prod cl1 c2
    refine Good.bind (treeDestroy_spec c s2 c2.wf cX2.owns.left) ?_
    intro _ s3 ⟨d3, hd3, nd3⟩
    have cX3 : Clean s s3 [] (ownedResult r.2) := by simpa using Clean.step_r _ wf cX2 d3
    refine good_ret.2 ⟨cX3, n2, fun hu hh => u2 hu (by omega), fun k hf a b hnb => ?_⟩
    by_cases hk : k ≤ s1.next
    · exact absurd (hits_of_fail hr1 hf a hk) hno1
    · have hf1 : s1.fails k = true := by
        simp only [Ledger.fails, cl1.sched] at hf ⊢
        exact hf
      refine rep2 k hf1 (by omega) (by omega) (fun hb => hnb ⟨c, s1, hr1, hb⟩)

/-- XML → tree → XML: no request of either half is benign. -/
theorem xml2xml_spec (binRow : Nat → Bool) (events : List XEvent) (parseOk : Bool) (g : XGen) (l : XLang) (xtree : TCtx → XNode)
    (hx : ∀ c, ∀ t ∈ (xtree c).bufs, t.hdr ∈ c.owned) (s : Ledger) (wf : s.WF) :
    Good (xml2xml binRow events parseOk g l xtree) s (fun r s' =>
      Clean s s' [] (ownedResult r.2) ∧ (r.1 ≠ OK → r.2 = none) ∧ (s.hits < s'.hits → r.1 ≠ OK)) := by
  unfold xml2xml
  simp only [bind_eq, pure_eq]
  refine Good.bind (treeFromXml_spec binRow events parseOk s wf) ?_
  intro r1 s1 ⟨cl1, e1, h1, _⟩
  obtain ⟨ret, c0⟩ := r1
  simp only at cl1 e1 h1 ⊢
  have hh1 := cl1.hits
  cases c0 with
  | none =>
    simp only
    exact good_ret.2 ⟨by simpa [ownedCtxOpt, ownedResult] using cl1, fun _ => rfl, fun hh => h1 hh⟩
  | some c =>
    simp only [ownedCtxOpt] at cl1 ⊢
    have hret : ret = OK := by
      by_cases h : ret = OK
      · exact h
      · have := e1 h; simp at this
    subst hret
    have hno1 : ¬ s.hits < s1.hits := fun hh => h1 hh rfl
    refine Good.bind (treeToXml_spec g l (xtree c) s1 cl1.wf (fun t ht => cl1.owns.2 _ (hx c t ht))) ?_
    intro r s2 ⟨c2, n2, rep2⟩
    have hh2 := c2.hits
    have cX2 : Clean s s2 [] (c.owned ++ ownedResult r.2) := Clean.trans_prod cl1 c2
    refine Good.bind (treeDestroy_spec c s2 c2.wf cX2.owns.left) ?_
    intro _ s3 ⟨d3, hd3, nd3⟩
    have cX3 : Clean s s3 [] (ownedResult r.2) := by simpa using Clean.step_r _ wf cX2 d3
    exact good_ret.2 ⟨cX3, n2, fun hh => rep2 (by omega)⟩

end Wbxml.Model.Alloc
