/-
  WBXML encoder proofs: `wbxml_encode_tag` writes `[switchPage] stag` of the grammar.
  Also: the hypotheses on trees (`nodeOver`: token names are rows of the language's tables) and the
  relation `TblExt` between the string table before and after a step.
-/
import Wbxml.Lemmas.EncWSplit
namespace Wbxml.Lemmas.EncW
open Wbxml Wbxml.Model Wbxml.Spec Wbxml.Lemmas.ParseSer
open Wbxml.Model.Codec (mbEncode)

/-! ### Trees over a language -/

/-- A token name is a row of the language's tag table. -/
def nameOver (l : Lang) : Name → Bool
  | .token r => match l.tags with | some t => t.contains r | none => false
  | .literal _ => true

/-- A token attribute name is a row of the language's attribute table; values are shorter than
    2^32 octets (`WB_ULONG` lengths). -/
def attrOver (l : Lang) (a : Attr) : Bool :=
  decide (a.value.length < 4294967296) &&
  match a.name with
  | .token r => (match l.attrs with | some t => t.contains r | none => true)
  | .literal _ => true

mutual
/-- Every token name below is a row of the tables of `l` (embedded documents are not looked into:
    they are written as one OPAQUE). -/
def nodeOver (l : Lang) : Node → Bool
  | .elt name attrs kids => nameOver l name && attrs.all (attrOver l) && nodesOver l kids
  | .text _ => true
  | .cdata kids => nodesOver l kids
  | .tree _ _ _ => true
def nodesOver (l : Lang) : List Node → Bool
  | [] => true
  | n :: rest => nodeOver l n && nodesOver l rest
end

/-! ### The string table across a step -/

structure TblExt (c : WCfg) (st st' : WSt) : Prop where
  pre : st.strtbl <+: st'.strtbl
  inv : StrInv st → StrInv st'
  no : c.useStrtbl = false → st'.strtbl = st.strtbl

theorem TblExt.refl (c : WCfg) (st : WSt) : TblExt c st st := ⟨List.prefix_refl _, id, fun _ => rfl⟩

theorem TblExt.trans {c : WCfg} {a b d : WSt} (h1 : TblExt c a b) (h2 : TblExt c b d) : TblExt c a d :=
  ⟨h1.pre.trans h2.pre, fun h => h2.inv (h1.inv h), fun h => (h2.no h).trans (h1.no h)⟩

theorem TblExt.of_eq {c : WCfg} {st st' : WSt} (h1 : st'.strtbl = st.strtbl) (h2 : st'.strtblLen = st.strtblLen) :
    TblExt c st st' := ⟨h1 ▸ List.prefix_refl _, fun h => h.of_eq h1 h2, fun _ => h1⟩

theorem TblExt.add (c : WCfg) (hu : c.useStrtbl = true) (st : WSt) (s : Bytes) :
    TblExt c st (strtblAdd st s none).1 :=
  ⟨strtblAdd_prefix _ _ _, strtblAdd_inv _ _, fun h => by rw [hu] at h; cases h⟩

/-! ### Table look-ups return rows of the table -/

theorem encTagLoop1_mem (cur : Nat) (name : Bytes) (l : List TagRow) (f : Bool) (r : TagRow)
    (h : encTagLoop1 cur name l f = some r) : r ∈ l := by
  induction l generalizing f with
  | nil => simp [encTagLoop1] at h
  | cons x xs ih =>
    simp only [encTagLoop1] at h
    split at h
    · split at h
      · injection h with h; subst h; exact List.mem_cons_self
      · exact List.mem_cons_of_mem _ (ih _ h)
    · split at h
      · cases h
      · exact List.mem_cons_of_mem _ (ih _ h)

theorem encTag_mem (tags : List TagRow) (cur : Option Nat) (name : Bytes) (r : TagRow)
    (h : encTag tags cur name = some r) : r ∈ tags := by
  unfold encTag at h
  cases cur with
  | none => exact List.mem_of_find?_eq_some h
  | some c =>
    simp only at h
    cases h1 : encTagLoop1 c name tags false with
    | some r' => rw [h1] at h; injection h with h; subst h; exact encTagLoop1_mem _ _ _ _ _ h1
    | none => rw [h1] at h; exact List.mem_of_find?_eq_some h

/-! ### `wbxml_encode_tag` -/

/-- The row `wbxml_encode_tag` works with (`current_tag` afterwards). -/
def foundOf (c : WCfg) (name : Name) (st : WSt) : Option TagRow :=
  match name with
  | .token r => some r
  | .literal s =>
    match c.lang.tags with
    | some tags => encTag tags (some st.tagPage) (cstrOf s)
    | none => none

theorem foundOf_mem (c : WCfg) (name : Name) (st : WSt) (hn : nameOver c.lang name = true) (r : TagRow)
    (h : foundOf c name st = some r) : ∃ tags, c.lang.tags = some tags ∧ r ∈ tags := by
  cases name with
  | token r' =>
    simp only [foundOf] at h; injection h with h; subst h
    simp only [nameOver] at hn
    cases ht : c.lang.tags with
    | none => simp [ht] at hn
    | some tags => exact ⟨tags, rfl, by simpa [ht] using hn⟩
  | literal s =>
    simp only [foundOf] at h
    cases ht : c.lang.tags with
    | none => simp [ht] at h
    | some tags => rw [ht] at h; exact ⟨tags, rfl, encTag_mem _ _ _ _ h⟩

theorem encTagLoop1_name (cur : Nat) (name : Bytes) (l : List TagRow) (f : Bool) (r : TagRow)
    (h : encTagLoop1 cur name l f = some r) : r.name = name := by
  induction l generalizing f with
  | nil => simp [encTagLoop1] at h
  | cons x xs ih =>
    simp only [encTagLoop1] at h
    split at h
    · split at h
      · rename_i hn
        injection h with h; subst h; simpa using hn
      · exact ih _ h
    · split at h
      · cases h
      · exact ih _ h

theorem encTag_name (tags : List TagRow) (cur : Option Nat) (name : Bytes) (r : TagRow)
    (h : encTag tags cur name = some r) : r.name = name := by
  unfold encTag at h
  cases cur with
  | none =>
    have := List.find?_some h
    simpa using this
  | some c =>
    simp only at h
    cases h1 : encTagLoop1 c name tags false with
    | some r' => rw [h1] at h; injection h with h; subst h; exact encTagLoop1_name _ _ _ _ _ h1
    | none =>
      rw [h1] at h
      have := List.find?_some h
      simp only [Bool.and_eq_true, beq_iff_eq] at this
      exact this.2

/-- The row `wbxml_encode_tag` works with carries the node's name. -/
theorem foundOf_name (c : WCfg) (name : Name) (st : WSt) (r : TagRow) (h : foundOf c name st = some r) :
    r.name = name.cName := by
  cases name with
  | token r' => simp only [foundOf] at h; injection h with h; subst h; rfl
  | literal s =>
    simp only [foundOf] at h
    cases ht : c.lang.tags with
    | none => simp [ht] at h
    | some tags => rw [ht] at h; exact encTag_name _ _ _ _ h

theorem tagBits_fin : ∀ (t : Fin 64) (a b : Bool),
    (t.val ||| (if a then 0x40 else 0) ||| (if b then 0x80 else 0)) = t.val + tagFlags b a ∧
    ((t.val + tagFlags b a) &&& 0x3F == 0) = (t.val == 0) := by decide

theorem tagBits (t : Nat) (ht : t < 64) (a b : Bool) :
    (t ||| (if a then 0x40 else 0) ||| (if b then 0x80 else 0)) = t + tagFlags b a ∧
    ((t + tagFlags b a) &&& 0x3F == 0) = (t == 0) := tagBits_fin ⟨t, ht⟩ a b

theorem tagRange (r : TagRow) (h : tagRowRange r = true) : 5 ≤ r.token ∧ r.token < 64 ∧ r.page < 256 := by
  simp only [tagRowRange, Bool.and_eq_true, decide_eq_true_eq] at h
  omega

/-- `wbxml_encode_tag_token`: `SWITCH_PAGE p` exactly when the tag page changes, then the token;
    afterwards the tracked tag page is the token's page. -/
theorem tagTokenW_out (token page : Nat) (st : WSt) :
    (tagTokenW token page st).out = st.out ++ (serSw (swFor st.tagPage page) ++ [UInt8.ofNat token]) ∧
    (tagTokenW token page st).tagPage = page % 256 ∧ (tagTokenW token page st).attrPage = st.attrPage ∧
    (tagTokenW token page st).strtbl = st.strtbl ∧ (tagTokenW token page st).strtblLen = st.strtblLen := by
  unfold tagTokenW swFor
  by_cases h : (st.tagPage != page % 256) = true
  · simp only [h, ↓reduceIte, emit_out, serSw, byte_mod, List.append_assoc, emit_tagPage]
    exact ⟨by simp, trivial, rfl, rfl, rfl⟩
  · simp only [h, Bool.false_eq_true, ↓reduceIte, emit_out, serSw, List.nil_append, emit_tagPage, true_and]
    simp only [bne_iff_ne, ne_eq, Decidable.not_not] at h
    exact ⟨h, rfl, rfl, rfl⟩

theorem tagLiteralW_eq (c : WCfg) (name : Bytes) (mask : Nat) (st : WSt) :
    tagLiteralW c name mask st =
      if c.useStrtbl = true then
        .ok ((strtblAdd st name none).1.emit (UInt8.ofNat (0x04 ||| mask) :: mbEncode (strtblAdd st name none).2))
      else .error (.code EW.strtblDisabled) := by
  unfold tagLiteralW
  cases c.useStrtbl <;> rfl

theorem attrLiteralW_eq (c : WCfg) (name : Bytes) (st : WSt) :
    attrLiteralW c name st =
      if c.useStrtbl = true then
        .ok ((strtblAdd st name none).1.emit (0x04 :: mbEncode (strtblAdd st name none).2))
      else .error (.code EW.strtblDisabled) := by
  unfold attrLiteralW
  cases c.useStrtbl <;> rfl

/-- What `wbxml_encode_tag` may write as `[switchPage] stag`: a row of the tag table under its own
    page (switch exactly when the page in force differs), or a literal whose index is the offset
    of a string-table entry. -/
inductive TagOk (c : WCfg) (tbl : List StrEntry) (tp : Nat) (nm : Bytes) : Option Nat → Tag → Prop
  | tok (tags : List TagRow) (r : TagRow) : c.lang.tags = some tags → r ∈ tags → r.name = nm →
      TagOk c tbl tp nm (swFor tp r.page) (.tok r.token)
  | lit (off : Nat) : (∃ e ∈ tbl, e.offset = off ∧ e.str = nm) → TagOk c tbl tp nm none (.lit off)

/-- How the tag written relates to `current_tag`: a token tag is the row found, under its page; a
    literal tag is written exactly when no row was found. -/
def TagLink (c : WCfg) (name : Name) (st : WSt) (sw : Option Nat) (tag : Tag) : Prop :=
  match foundOf c name st with
  | some r => sw = swFor st.tagPage r.page ∧ tag = .tok r.token
  | none => sw = none ∧ ∃ off, tag = .lit off

theorem encTagW_spec' (c : WCfg) (name : Name) (hc ha : Bool) (st st' : WSt)
    (hl : langOk c.lang = true) (hn : nameOver c.lang name = true)
    (h : encTagW c name hc ha st = .ok st') :
    ∃ sw tag, st'.out = st.out ++ (serSw sw ++ serTag (tagFlags ha hc) tag) ∧
      st'.tagPage = swPage sw st.tagPage ∧ st'.attrPage = st.attrPage ∧
      st'.curTag = foundOf c name st ∧
      TblExt c st st' ∧ TagOk c st'.strtbl st.tagPage name.cName sw tag ∧ TagLink c name st sw tag := by
  have hfound : ∀ found, found = foundOf c name st →
      (match found with
        | some r => r.token % 256
        | none => 0 : Nat) = (match found with | some r => r.token | none => 0 : Nat) ∧
      (∀ r, found = some r → 5 ≤ r.token ∧ r.token < 64 ∧ r.page < 256 ∧
        ∃ tags, c.lang.tags = some tags ∧ r ∈ tags) := by
    intro found hf
    have : ∀ r, found = some r → 5 ≤ r.token ∧ r.token < 64 ∧ r.page < 256 ∧
        ∃ tags, c.lang.tags = some tags ∧ r ∈ tags := by
      intro r hr
      obtain ⟨tags, ht, hm⟩ := foundOf_mem c name st hn r (hf ▸ hr)
      have := tagRange r (langOk_tags hl ht hm)
      exact ⟨this.1, this.2.1, this.2.2, tags, ht, hm⟩
    refine ⟨?_, this⟩
    cases found with
    | none => rfl
    | some r => exact Nat.mod_eq_of_lt (by have := this r rfl; omega)
  have heq : encTagW c name hc ha st =
      (let found := foundOf c name st
       let st1 : WSt := { st with curTag := found }
       let token : Nat := match found with | some r => r.token % 256 | none => 0
       let page : Nat := match found with | some r => r.page % 256 | none => 0
       let token := token ||| (if hc then 0x40 else 0) ||| (if ha then 0x80 else 0)
       if token &&& 0x3F == 0 then tagLiteralW c name.cName token st1
       else pure (tagTokenW token page st1)) := by
    cases name with
    | token r => rfl
    | literal s => rfl
  rw [heq] at h
  simp only at h
  obtain ⟨hmod, hrow⟩ := hfound _ rfl
  cases hf : foundOf c name st with
  | some r =>
    obtain ⟨h5, h64, hp, tags, ht, hm⟩ := hrow r hf
    rw [hf] at h
    simp only [Nat.mod_eq_of_lt (show r.token < 256 by omega), (tagBits r.token h64 hc ha).1,
      (tagBits r.token h64 hc ha).2] at h
    have hne : (r.token == 0) = false := by simp; omega
    rw [hne] at h
    simp only [Bool.false_eq_true, ↓reduceIte] at h
    injection h with h
    subst h
    have ho := tagTokenW_out (r.token + tagFlags ha hc) (r.page % 256) { st with curTag := some r }
    simp only [Nat.mod_mod] at ho
    refine ⟨swFor st.tagPage r.page, .tok r.token, ?_, ?_, ho.2.2.1, ?_, TblExt.of_eq ho.2.2.2.1 ho.2.2.2.2, ?_,
      by simp only [TagLink, hf, and_self]⟩
    · rw [ho.1]
      simp only [serTag, byte, swFor, Nat.mod_mod]
    · rw [ho.2.1, swPage_swFor]
    · unfold tagTokenW; split <;> rfl
    · rw [ho.2.2.2.1]; exact .tok tags r ht hm (foundOf_name c name st r hf)
  | none =>
    rw [hf] at h
    have hz : ((0 ||| (if hc then 0x40 else 0) ||| (if ha then 0x80 else 0)) &&& 0x3F == 0) = true := by
      cases hc <;> cases ha <;> rfl
    simp only [hz, ↓reduceIte] at h
    rw [tagLiteralW_eq] at h
    split at h
    · rename_i hu
      injection h with h
      subst h
      obtain ⟨e, he, ho, hstr⟩ := strtblAdd_idx { st with curTag := none } name.cName none
      refine ⟨none, .lit (strtblAdd { st with curTag := none } name.cName none).2, ?_, ?_, ?_, ?_, ?_, ?_,
        by simp only [TagLink, hf, true_and]; exact ⟨_, rfl⟩⟩
      · simp only [emit_out, strtblAdd_out, serSw, List.nil_append, serTag, mb]
        congr 2
        cases hc <;> cases ha <;> rfl
      · simp only [emit_tagPage, strtblAdd_tagPage]; rfl
      · simp only [emit_attrPage, strtblAdd_attrPage]
      · simp only [emit_curTag, strtblAdd_curTag]
      · have t1 : TblExt c st { st with curTag := none } := TblExt.of_eq rfl rfl
        have t2 := TblExt.add c hu { st with curTag := none } name.cName
        exact t1.trans (t2.trans (TblExt.of_eq (emit_strtbl _ _) (emit_strtblLen _ _)))
      · exact .lit _ ⟨e, he, ho, hstr⟩
    · cases h

theorem encTagW_spec (c : WCfg) (name : Name) (hc ha : Bool) (st st' : WSt)
    (hl : langOk c.lang = true) (hn : nameOver c.lang name = true)
    (h : encTagW c name hc ha st = .ok st') :
    ∃ sw tag, st'.out = st.out ++ (serSw sw ++ serTag (tagFlags ha hc) tag) ∧
      st'.tagPage = swPage sw st.tagPage ∧ st'.attrPage = st.attrPage ∧
      st'.curTag = foundOf c name st ∧
      TblExt c st st' ∧ TagOk c st'.strtbl st.tagPage name.cName sw tag := by
  obtain ⟨sw, tag, h1, h2, h3, h4, h5, h6, _⟩ := encTagW_spec' c name hc ha st st' hl hn h
  exact ⟨sw, tag, h1, h2, h3, h4, h5, h6⟩

end Wbxml.Lemmas.EncW
