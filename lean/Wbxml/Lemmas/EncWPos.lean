/-
  WBXML encoder proofs: typed content. Where the encoder stands in the tree versus where a reader
  stands in the grammar (`Pos`): the encoder types a text by `current_tag` (Wireless Village, binary
  tags) or by the parent element (DRMREL), the reader by the enclosing element's own tag (`own`) and
  the parser's single `current_tag` slot (`slot`). Under `Pos` and the source hypotheses of
  `Lemmas/EncWTyped.lean` every OPAQUE a text node is written as satisfies `Spec.wfItem`
  (`text_wfT`), and an element passes a `Pos` on to its children (`Pos.kids`, `wfT_elem`).
-/
import Wbxml.Lemmas.EncWTbl
namespace Wbxml.Lemmas.EncW
open Wbxml Wbxml.Model Wbxml.Spec Wbxml.Lemmas.ParseSer
open Wbxml.Model.Codec (mbEncode)

/-- `cur` = the encoder's `current_tag`, `parent` = name of the enclosing element node;
    `own` / `slot` = the reader's two tags at the same place; `ty` = the source-side flag of
    `noCdataInTyped`, `pre` = "only text nodes so far" of `keyValueTextFirst`. -/
structure Pos (c : WCfg) (ctx : Ctx) (parent : Option Name) (cur : Option TagRow) (ty pre : Bool)
    (own slot : Option TagRow) : Prop where
  cur : ∀ r, cur = some r → slot = own ∧ ∃ r', own = some r' ∧ r'.page = r.page ∧ r'.token = r.token ∧
    ∃ tags, c.lang.tags = some tags ∧ r ∈ tags
  par : ∀ r0, parent = some (.token r0) → ∃ r', own = some r' ∧ r'.page = r0.page ∧ r'.token = r0.token
  pre : pre = true → ∀ r0, parent = some (.token r0) → slot = own
  unt : ty = false → typedOpt c.lang.id own = false ∧ typedOpt c.lang.id slot = false

theorem Pos.root (c : WCfg) (ctx : Ctx) (pre : Bool) : Pos c ctx none none false pre none none :=
  ⟨(fun _ h => by cases h), (fun _ h => by cases h), (fun _ _ h => by cases h), fun _ => ⟨rfl, rfl⟩⟩

theorem slotEnd_cases (slot : Option TagRow) (l : List Item) : slotEnd slot l = slot ∨ slotEnd slot l = none := by
  induction l generalizing slot with
  | nil => exact Or.inl rfl
  | cons it rest ih =>
    simp only [slotEnd]
    cases it with
    | elem e =>
      simp only [slotAfter]
      rcases ih none with h | h <;> exact Or.inr h
    | str s => exact ih slot
    | entity cd => exact ih slot
    | «opaque» d => exact ih slot
    | ext sw x => exact ih slot
    | pi a => exact ih slot

theorem slotEnd_leaves (c : WCfg) (tbl) (slot : Option TagRow) (l : List Item) (h : ∀ it ∈ l, Leaf c tbl it) :
    slotEnd slot l = slot := by
  induction l with
  | nil => rfl
  | cons it rest ih =>
    simp only [slotEnd]
    have : slotAfter slot it = slot := by cases h it List.mem_cons_self <;> rfl
    rw [this]
    exact ih (fun x hx => h x (List.mem_cons_of_mem _ hx))

theorem slotEnd_append (slot : Option TagRow) (a b : List Item) : slotEnd slot (a ++ b) = slotEnd (slotEnd slot a) b := by
  induction a generalizing slot with
  | nil => rfl
  | cons x xs ih => simp only [List.cons_append, slotEnd, ih]

/-- After the items of a node: `current_tag` is NULL, the slot is unchanged or cleared. -/
theorem Pos.next {c ctx parent cur ty pre own slot} (h : Pos c ctx parent cur ty pre own slot) (a : List Item)
    (pre' : Bool) (hp : pre' = true → pre = true ∧ slotEnd slot a = slot) :
    Pos c ctx parent none ty pre' own (slotEnd slot a) := by
  refine ⟨(fun _ h => by cases h), h.par, ?_, ?_⟩
  · intro hp' r0 hr0
    obtain ⟨h1, h2⟩ := hp hp'
    rw [h2]; exact h.pre h1 r0 hr0
  · intro hty
    obtain ⟨h1, h2⟩ := h.unt hty
    refine ⟨h1, ?_⟩
    rcases slotEnd_cases slot a with e | e <;> rw [e]
    · exact h2
    · rfl

/-- Inside a CDATA node: same tags, no parent. -/
theorem Pos.cdata {c ctx parent cur ty pre own slot} (h : Pos c ctx parent cur ty pre own slot) :
    Pos c ctx none cur ty pre own slot :=
  ⟨h.cur, (fun _ h => by cases h), (fun _ _ h => by cases h), h.unt⟩

theorem tagRow_found (c : WCfg) (ctx : Ctx) (hlang : ctx.lang = c.lang) (tags : List TagRow)
    (ht : c.lang.tags = some tags) (r : TagRow) (hr : r ∈ tags) :
    ∃ r', tagRow ctx r.page r.token = some r' ∧ r'.token = r.token ∧ r'.page = r.page := by
  have ht' : ctx.lang.tags = some tags := by rw [hlang]; exact ht
  simp only [tagRow, ht']
  cases hf : tags.find? (fun x => x.token == r.token && x.page == r.page) with
  | none =>
    have := List.find?_eq_none.mp hf r hr
    simp at this
  | some r' =>
    have h1 := List.find?_some hf
    simp only [Bool.and_eq_true, beq_iff_eq] at h1
    exact ⟨r', rfl, h1.1, h1.2⟩

theorem foundOf_token (c : WCfg) (r0 : TagRow) (st : WSt) : foundOf c (.token r0) st = some r0 := rfl

/-- The children of an element: the reader's own tag is the row of the tag written (same page and
    token as `current_tag`), the slot holds it too — or, for a literal tag, the slot is inherited. -/
theorem Pos.kids {c : WCfg} {ctx : Ctx} {parent cur ty pre own slot} (h : Pos c ctx parent cur ty pre own slot)
    (hlang : ctx.lang = c.lang) (hl : langOk c.lang = true) (name : Name) (hn : nameOver c.lang name = true)
    (st : WSt) (sw : Option Nat) (tag : Tag) (hlink : TagLink c name st sw tag) :
    Pos c ctx (some name) (foundOf c name st) (kidsTy c.lang ty name) true
      (tagName ctx (swPage sw st.tagPage) tag).2
      (slotOfTag (tagName ctx (swPage sw st.tagPage) tag).2 slot tag) := by
  unfold TagLink at hlink
  cases hf : foundOf c name st with
  | some r =>
    rw [hf] at hlink
    obtain ⟨rfl, rfl⟩ := hlink
    obtain ⟨tags, ht, hm⟩ := foundOf_mem c name st hn r hf
    have hrange := tagRange r (langOk_tags hl ht hm)
    obtain ⟨r', hfr, htok, hpage⟩ := tagRow_found c ctx hlang tags ht r hm
    have hown : (tagName ctx (swPage (swFor st.tagPage r.page) st.tagPage) (.tok r.token)).2 = some r' := by
      rw [swPage_swFor, Nat.mod_eq_of_lt hrange.2.2]
      simp only [tagName, hfr]
    rw [hown]
    simp only [slotOfTag]
    refine ⟨?_, ?_, fun _ _ _ => rfl, ?_⟩
    · intro r1 hr1
      injection hr1 with hr1; subst hr1
      exact ⟨rfl, r', rfl, hpage, htok, tags, ht, hm⟩
    · intro r0 hr0
      injection hr0 with hr0; subst hr0
      rw [foundOf_token] at hf
      injection hf with hf; subst hf
      exact ⟨r', rfl, hpage, htok⟩
    · intro hty
      have : typedRow c.lang.id r = false := by
        cases name with
        | token r0 =>
          rw [foundOf_token] at hf
          injection hf with hf; subst hf
          exact hty
        | literal s =>
          simp only [kidsTy, ht, Option.getD_some, Bool.or_eq_false_iff, List.any_eq_false, Bool.and_eq_true,
            beq_iff_eq, not_and, Bool.not_eq_true] at hty
          exact hty.2 r hm (foundOf_name c _ st r hf)
      have h' : typedOpt c.lang.id (some r') = false := by
        show typedRow c.lang.id r' = false
        rw [typedRow_congr _ r r' hpage htok]; exact this
      exact ⟨h', h'⟩
  | none =>
    rw [hf] at hlink
    obtain ⟨rfl, off, rfl⟩ := hlink
    have hnotok : ∀ r0, name ≠ .token r0 := by
      intro r0 e; subst e; rw [foundOf_token] at hf; cases hf
    simp only [tagName, slotOfTag]
    refine ⟨(fun _ h => by cases h), ?_, ?_, ?_⟩
    · intro r0 hr0; injection hr0 with hr0; exact absurd hr0 (hnotok r0)
    · intro _ r0 hr0; injection hr0 with hr0; exact absurd hr0 (hnotok r0)
    · intro hty
      cases name with
      | token r0 => exact absurd rfl (hnotok r0)
      | literal s =>
        simp only [kidsTy, Bool.or_eq_false_iff] at hty
        exact ⟨rfl, (h.unt hty.1).2⟩

/-! ### One OPAQUE -/

theorem opaque_wf (ctx : Ctx) (own slot : Option TagRow) (pg : Pages) (d : Bytes) (hd : d.length < 4294967296)
    (hs : slot = own) (b : Bytes) (h : decodeOpaqueContent ctx.lang.id own d = .ok b) :
    wfItems ctx own slot pg [.opaque d] = true := by
  subst hs
  rw [wfItems_cons, wfItem_opaque, wfItems]
  simp [opaqueText, h, hd]

theorem opaque_wf_untyped (ctx : Ctx) (own slot : Option TagRow) (pg : Pages) (d : Bytes) (hd : d.length < 4294967296)
    (h1 : typedOpt ctx.lang.id own = false) (h2 : typedOpt ctx.lang.id slot = false) :
    wfItems ctx own slot pg [.opaque d] = true := by
  rw [wfItems_cons, wfItem_opaque, wfItems, opaqueText_untyped ctx own d h1, opaqueText_untyped ctx slot d h2]
  simp [hd]

theorem isKvRow_congr (id : Nat) (r r' : TagRow) (hp : r'.page = r.page) (ht : r'.token = r.token) :
    isKvRow id r' = isKvRow id r := by simp only [isKvRow, hp, ht]

/-- **Every OPAQUE a text node is written as is well-formed** for a reader at the same position. -/
theorem text_wfT (c : WCfg) (parent : Option Name) (s : Bytes) (st : WSt) (items : List Item)
    (hleaf : ∀ it ∈ items, Leaf c st.strtbl it) (hout : TextOut c parent s st items)
    (hl : langOk c.lang = true) (htl : typedLangOk c.lang = true) (ty pre : Bool)
    (hb64 : b64TextDecodes c parent (.text s) = true) (hkv : keyValueTextFirst c parent pre (.text s) = true)
    (ctx : Ctx) (hc : Compat c st.strtbl ctx) (hsz : ∀ d ∈ opqsItems items, d.length < 4294967296)
    (own slot : Option TagRow) (hpos : Pos c ctx parent st.curTag ty pre own slot) (pg : Pages) :
    wfItems ctx own slot pg items = true := by
  rcases hout with hno | ⟨hbin, rfl⟩ | ⟨p, rfl, hsil, _, htyped⟩
  · exact leaves_wf c st.strtbl ctx hc hl own slot pg items hleaf (Or.inl hno)
  · -- binary-flagged `current_tag`: no typed rule there
    have hd : s.length < 4294967296 := hsz s (by rw [opqsItems_cons, opqsItem_opaque]; exact List.mem_cons_self)
    cases hct : st.curTag with
    | none => rw [hct] at hbin; cases hbin
    | some r =>
      rw [hct] at hbin
      obtain ⟨hso, r', hown, hpage, htok, tags, ht, hm⟩ := hpos.cur r hct
      have hu : typedOpt ctx.lang.id own = false := by
        rw [hown, hc.lang]
        show typedRow c.lang.id r' = false
        rw [typedRow_congr _ r r' hpage htok]
        exact typedLangOk_binary htl ht hm hbin
      exact opaque_wf_untyped ctx own slot pg s hd hu (by rw [hso]; exact hu)
  · have hd : p.length < 4294967296 := hsz p (by rw [opqsItems_cons, opqsItem_opaque]; exact List.mem_cons_self)
    rcases htyped with ⟨hwv, t, hct, hk⟩ | ⟨hid, r, hpar, hkvr, hdec⟩
    · -- Wireless Village integer / date-time
      obtain ⟨hso, r', hown, hpage, htok, _⟩ := hpos.cur t hct
      have hwv' : isWv ctx.lang.id = true := by rw [hc.lang]; exact hwv
      rcases hk with ⟨hk, hlen⟩ | ⟨hk, hlen⟩
      · have hty := (wvKind_compat t.page t.token).1 hk
        refine opaque_wf ctx own slot pg p hd hso (natDigits (Lemmas.Typed.beNat p)) ?_
        rw [hown]
        simp only [decodeOpaqueContent, hwv', ↓reduceIte, hpage, htok, hty]
        exact decodeWvInteger_le4 p hlen
      · have hty := (wvKind_compat t.page t.token).2 hk
        obtain ⟨b, hb⟩ := decodeWvDatetime_len6 p hlen
        refine opaque_wf ctx own slot pg p hd hso b ?_
        rw [hown]
        simp only [decodeOpaqueContent, hwv', ↓reduceIte, hpage, htok, hty]
        exact hb
    · -- DRMREL `ds:KeyValue`
      obtain ⟨r', hown, hpage, htok⟩ := hpos.par r hpar
      have hkvp : kvPar c.lang parent = true := by rw [hpar]; exact hkvr
      rw [keyValueTextFirst] at hkv
      rw [b64TextDecodes] at hb64
      simp only [hkvp, hsil, Bool.not_true, Bool.false_or, Bool.or_false] at hkv hb64
      have hso := hpos.pre hkv r hpar
      have hne : p ≠ [] := by
        simp only [b64NonEmpty, hdec, Bool.not_eq_true', List.isEmpty_eq_false_iff] at hb64
        exact hb64
      refine opaque_wf ctx own slot pg p hd hso (Rfc4648.encode p) ?_
      rw [hown]
      have hid' : ctx.lang.id = 1801 := by rw [hc.lang]; exact hid
      have hkr' : (r'.page == 0 && r'.token == 0x0C) = true := by
        have := hkvr
        rw [← isKvRow_congr _ r r' hpage htok] at this
        simp only [isKvRow, hid, beq_self_eq_true, Bool.true_and] at this
        exact this
      simp only [decodeOpaqueContent, hid', isWv, Nat.reduceBEq, Bool.or_self, Bool.false_eq_true, ↓reduceIte,
        beq_self_eq_true, hkr']
      exact decodeBase64Value_spec p hne

end Wbxml.Lemmas.EncW
