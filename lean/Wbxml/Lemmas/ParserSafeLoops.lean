/-
  Parser safety, part 2: every function of the body and header stage of `Model/Parser.lean`
  satisfies `Ok (Adv k s ·)`:
    * it never reaches an `Err.ub` flag (each blind `skip1` follows a successful token test; the two
      `langTable NULL` flags need `s.lang ≠ none`, which `parseHeader` establishes and every
      function preserves),
    * it never exhausts the fuel the model supplies (each loop round / recursive descent consumes
      at least one byte),
    * on success the remaining input is a suffix of the previous one, shorter by at least `k`.
-/
import Wbxml.Lemmas.ParserSafeBasic
namespace Wbxml.Lemmas.ParserSafe
open Wbxml Wbxml.Model

-- The error-code constants are literals (none of them is 0 = `WBXML_OK`).
attribute [local simp] E.badDatetime E.internal E.langTableUndefined E.tagTableUndefined E.b64Enc
  E.wvDatetimeFormat E.noCharsetConv E.charsetStrLen E.charsetNotFound E.attrTableUndefined
  E.attrValueTableUndefined E.badOpaqueLength E.emptyWbxml E.endOfBuffer E.extValueTableUndefined
  E.invalidStrtblIndex E.nullStringTable E.stringExpected E.strtblLength E.unknownAttrValue
  E.unknownExtensionToken E.unknownPublicId E.unvalidMbUint32 E.wvIntegerOverflow E.invalidUnicode

/-- `bind_ok h with p hp`: peel one `>>=` whose first action satisfies `h`. -/
syntax "bind_ok " term " with " rintroPat ppSpace rintroPat : tactic
macro_rules
  | `(tactic| bind_ok $t with $p $h) =>
    `(tactic| (refine Ok.bind $t ?_; rintro $p $h; try dsimp only at *))

theorem parseSwitchPage_ok {tagSpace : Bool} {s : PState} (h : isToken s 0x00 = true) :
    Ok (fun s' => Adv 2 s s') (parseSwitchPage tagSpace s) := by
  unfold parseSwitchPage
  bind_ok (skip1_tok h) with s1 h1
  bind_ok (parseU8_ok s1) with ⟨p, s2⟩ h2
  simp only [Ok_pure]
  have := h1.trans h2 (m := 2)
  split
  · exact this.of_rest_eq rfl rfl rfl rfl
  · exact this.of_rest_eq rfl rfl rfl rfl

/-- The recurring `let s ← if isToken s 0 then parseSwitchPage … else pure s`. -/
theorem optSwitch_ok {γ : Type} {Q : γ → Prop} (tagSpace : Bool) (s : PState) {jp : PState → Except Err γ}
    (hjp : ∀ s1, Adv 0 s s1 → Ok Q (jp s1)) :
    Ok Q (if isToken s 0x00 = true then parseSwitchPage tagSpace s >>= jp else pure s >>= jp) := by
  split
  · rename_i h
    exact Ok.bind (parseSwitchPage_ok h) fun s1 h1 => hjp s1 h1.weaken
  · exact hjp s (Adv.refl s)

theorem parseExtension_ok (tagSpace : Bool) (s : PState) :
    Ok (fun p => Adv 1 s p.2) (parseExtension tagSpace s) := by
  unfold parseExtension
  refine optSwitch_ok tagSpace s ?_; intro s1 h1
  bind_ok (parseU8_ok s1) with ⟨tok, s2⟩ h2
  have h12 : Adv 1 s s2 := h1.trans h2
  try dsimp only
  split
  · simp
  · split
    · split
      · simpa using h12
      · try dsimp only
        split
        · simp
        · split
          · bind_ok (parseTermstr_ok s2) with ⟨v, s3⟩ h3
            simp only [Ok_pure]; exact h12.trans h3
          · bind_ok (parseMb_ok s2) with ⟨idx, s3⟩ h3
            bind_ok (strtblRef_safe s3 idx) with v _
            simp only [Ok_pure]; exact h12.trans h3
    · split
      · split
        · simpa using h12
        · bind_ok (parseMb_ok s2) with ⟨v, s3⟩ h3
          try dsimp only
          split
          · simp
          · split
            · simp only [Ok_pure]; exact h12.trans h3
            · simp only [Ok_pure]; exact h12.trans h3
      · simpa using h12

theorem parseEntity_ok {s : PState} (h : isToken s 0x02 = true) :
    Ok (fun p => Adv 1 s p.2) (parseEntity s) := by
  unfold parseEntity
  bind_ok (skip1_tok h) with s1 h1
  bind_ok (parseMb_ok s1) with ⟨code, s2⟩ h2
  bind_ok (entityBytes_safe code) with bs _
  simp only [Ok_pure]; exact h1.trans h2

theorem parseString_ok (s : PState) : Ok (fun p => Adv 1 s p.2) (parseString s) := by
  unfold parseString
  split
  · rename_i h
    bind_ok (skip1_tok h) with s1 h1
    exact (parseTermstr_ok s1).mono fun p hp => h1.trans hp
  · split
    · rename_i h
      bind_ok (skip1_tok h) with s1 h1
      bind_ok (parseMb_ok s1) with ⟨idx, s2⟩ h2
      bind_ok (strtblRef_safe s2 idx) with v _
      simp only [Ok_pure]; exact h1.trans h2
    · simp

theorem parseOpaque_ok {s : PState} (h : isToken s 0xC3 = true) :
    Ok (fun p => Adv 2 s p.2) (parseOpaque s) := by
  unfold parseOpaque
  bind_ok (skip1_tok h) with s1 h1
  bind_ok (parseMb_ok s1) with ⟨len, s2⟩ h2
  try dsimp only
  split
  · simp
  · simp only [Ok_pure]
    refine (h1.trans h2 (m := 2)).trans (j := 0) ⟨rfl, rfl, rfl, List.drop_suffix _ _, ?_⟩
    simp only [List.length_drop]; omega

theorem parseLiteral_ok (s : PState) : Ok (fun p => Adv 2 s p.2) (parseLiteral s) := by
  unfold parseLiteral
  bind_ok (parseU8_ok s) with ⟨tok, s1⟩ h1
  bind_ok (parseMb_ok s1) with ⟨idx, s2⟩ h2
  bind_ok (strtblRef_safe s2 idx) with str _
  have := h1.trans h2 (m := 2)
  try dsimp only
  repeat' split
  all_goals first | (simp only [Ok_pure]; exact this) | simp

theorem parseAttrStart_ok (s : PState) : Ok (fun p => Adv 1 s p.2) (parseAttrStart s) := by
  unfold parseAttrStart
  split
  · bind_ok (parseLiteral_ok s) with ⟨⟨m, str⟩, s1⟩ h1
    simp only [Ok_pure]; exact h1.weaken
  · refine optSwitch_ok false s ?_; intro s1 h1
    bind_ok (parseU8_ok s1) with ⟨tag, s2⟩ h2
    have h12 : Adv 1 s s2 := h1.trans h2
    try dsimp only
    split
    · simp
    · split
      · simp
      · split
        · simpa using h12
        · simpa using h12

theorem parseAttrValue_ok {s : PState} (hl : s.lang ≠ none) :
    Ok (fun p => Adv 1 s p.2) (parseAttrValue s) := by
  unfold parseAttrValue
  split
  · exact parseExtension_ok false s
  · split
    · rename_i h
      bind_ok (parseEntity_ok h) with ⟨b, s1⟩ h1
      simpa using h1
    · split
      · bind_ok (parseString_ok s) with ⟨b, s1⟩ h1
        simpa using h1
      · split
        · rename_i h
          bind_ok (parseOpaque_ok h) with ⟨d, s1⟩ h1
          try dsimp only
          split
          · rename_i hn
            exact absurd (hn.symm.trans h1.lang) (fun h => hl h.symm)
          · refine Ok.bind (decodeOpaqueAttrValue_safe _ d) ?_; intro d' _
            simp only [Ok_pure]; exact h1.weaken
        · refine optSwitch_ok false s ?_; intro s1 h1
          bind_ok (parseU8_ok s1) with ⟨tag, s2⟩ h2
          have h12 : Adv 1 s s2 := h1.trans h2
          try dsimp only
          split
          · simp
          · split
            · simp
            · split
              · simp
              · simpa using h12

theorem attrValueLoop_ok : ∀ (f : Nat) (acc : Bytes) (s : PState), s.lang ≠ none → s.rest.length < f →
    Ok (fun p => Adv 0 s p.2) (attrValueLoop f acc s)
  | 0, _, _, _, hf => by omega
  | f + 1, acc, s, hl, hf => by
    simp only [attrValueLoop]
    split
    · bind_ok (parseAttrValue_ok hl) with ⟨v, s1⟩ h1
      have hl1 : s1.lang ≠ none := by rw [h1.lang]; exact hl
      refine (attrValueLoop_ok f _ s1 hl1 (by have := h1.len; omega)).mono ?_
      intro p hp; exact h1.trans hp
    · simp only [Ok_pure]; exact Adv.refl s

theorem parseAttribute_ok {s : PState} (hl : s.lang ≠ none) :
    Ok (fun p => Adv 1 s p.2) (parseAttribute s) := by
  unfold parseAttribute
  bind_ok (parseAttrStart_ok s) with ⟨⟨name, pre⟩, s1⟩ h1
  have hl1 : s1.lang ≠ none := by rw [h1.lang]; exact hl
  bind_ok (attrValueLoop_ok _ _ s1 hl1 (Nat.lt_succ_self _)) with ⟨v, s2⟩ h2
  have hl2 : s2.lang ≠ none := by rw [h2.lang]; exact hl1
  try dsimp only
  refine Ok.bind (P := fun _ => True) ?_ ?_
  · split
    · split
      · split
        · exact decodeDatetime_safe v
        · split
          · exact decodeDatetime_safe v
          · simp
      · rename_i hn; exact absurd hn hl2
      · simp
    · simp
  · intro v' _
    simp only [Ok_pure]; exact h1.trans h2

theorem attrsLoop_ok : ∀ (f : Nat) (acc : List Attr) (s : PState), s.lang ≠ none → s.rest.length < f →
    Ok (fun p => Adv 1 s p.2 ∧ isToken p.2 0x01 = true) (attrsLoop f acc s)
  | 0, _, _, _, hf => by omega
  | f + 1, acc, s, hl, hf => by
    simp only [attrsLoop]
    bind_ok (parseAttribute_ok hl) with ⟨a, s1⟩ h1
    have hl1 : s1.lang ≠ none := by rw [h1.lang]; exact hl
    try dsimp only
    split
    · rename_i ht
      simp only [Ok_pure]; exact ⟨h1, ht⟩
    · refine (attrsLoop_ok f _ s1 hl1 (by have := h1.len; omega)).mono ?_
      rintro p ⟨hp, ht⟩; exact ⟨h1.trans hp, ht⟩

theorem piValueLoop_ok : ∀ (f : Nat) (acc : Bytes) (s : PState), s.lang ≠ none → s.rest.length < f →
    Ok (fun p => Adv 0 s p.2 ∧ isToken p.2 0x01 = true) (piValueLoop f acc s)
  | 0, _, _, _, hf => by omega
  | f + 1, acc, s, hl, hf => by
    simp only [piValueLoop]
    split
    · rename_i ht
      simp only [Ok_pure]; exact ⟨Adv.refl s, ht⟩
    · bind_ok (parseAttrValue_ok hl) with ⟨v, s1⟩ h1
      have hl1 : s1.lang ≠ none := by rw [h1.lang]; exact hl
      refine (piValueLoop_ok f _ s1 hl1 (by have := h1.len; omega)).mono ?_
      rintro p ⟨hp, ht⟩; exact ⟨h1.trans hp, ht⟩

theorem parsePi_ok {s : PState} (hl : s.lang ≠ none) (h : isToken s 0x43 = true) :
    Ok (fun p => Adv 3 s p.2) (parsePi s) := by
  unfold parsePi
  bind_ok (skip1_tok h) with s1 h1
  bind_ok (parseAttrStart_ok s1) with ⟨⟨name, pre⟩, s2⟩ h2
  have hl2 : s2.lang ≠ none := by rw [h2.lang, h1.lang]; exact hl
  bind_ok (piValueLoop_ok _ _ s2 hl2 (Nat.lt_succ_self _)) with ⟨v, s3⟩ ⟨h3, ht⟩
  bind_ok (skip1_tok ht) with s4 h4
  simp only [Ok_pure]
  exact ((h1.trans h2 (m := 2)).trans h3 (m := 2)).trans h4

theorem parseTag_ok (s : PState) : Ok (fun p => Adv 1 s p.2) (parseTag s) := by
  unfold parseTag
  bind_ok (parseU8_ok s) with ⟨tag, s1⟩ h1
  try dsimp only
  split
  · simp
  · split
    · simp
    · split
      · simpa using h1
      · simpa using h1

theorem parseStag_ok (s : PState) : Ok (fun p => Adv 1 s p.2) (parseStag s) := by
  unfold parseStag
  split
  · bind_ok (parseLiteral_ok s) with ⟨⟨m, str⟩, s1⟩ h1
    simp only [Ok_pure]; exact h1.weaken
  · exact parseTag_ok s

/-- The attribute part of `parse_element`. -/
theorem elemAttrs_ok (tag : UInt8) {s0 s : PState} (h0 : Adv 1 s0 s) (hl0 : s0.lang ≠ none) :
    Ok (fun p => Adv 1 s0 p.2)
      (if (tag.toNat &&& 0x80 != 0) = true then do
          let (as, s) ← attrsLoop (s.rest.length + 1) [] s
          let s ← skip1 "END of attributes" s
          pure (as, s)
        else pure (([] : List Attr), s)) := by
  have hl : s.lang ≠ none := by rw [h0.lang]; exact hl0
  split
  · bind_ok (attrsLoop_ok _ _ s hl (Nat.lt_succ_self _)) with ⟨as, s1⟩ ⟨h1, ht⟩
    bind_ok (skip1_tok ht) with s2 h2
    simp only [Ok_pure]; exact (h0.trans h1 (m := 1)).trans h2
  · simp only [Ok_pure]; exact h0

/-- Fuel and safety of the mutual pair. `parseElement` needs `2·len + 2`, `contentLoop` needs
    `2·len + 3`: each nesting level spends two units and at least one byte. -/
theorem elem_content_ok : ∀ (f : Nat),
    (∀ (ev : List Event) (s : PState), s.lang ≠ none → 2 * s.rest.length + 2 ≤ f →
        Ok (fun p => Adv 1 s p.2) (parseElement f ev s)) ∧
    (∀ (ev : List Event) (s : PState), s.lang ≠ none → 2 * s.rest.length + 3 ≤ f →
        Ok (fun p => Adv 0 s p.2 ∧ isToken p.2 0x01 = true) (contentLoop f ev s))
  | 0 => ⟨fun _ _ _ h => by omega, fun _ _ _ h => by omega⟩
  | f + 1 => by
    obtain ⟨ihE, ihC⟩ := elem_content_ok f
    constructor
    · intro ev s hl hf
      rw [parseElement]
      refine optSwitch_ok true s ?_; intro s1 h1
      bind_ok (parseStag_ok s1) with ⟨⟨tag, name⟩, s2⟩ h2
      have h12 : Adv 1 s s2 := h1.trans h2
      try dsimp only
      -- the state after recording the current tag
      refine Ok.bind (elemAttrs_ok tag (s0 := s) ?_ hl) ?_
      · cases name with
        | token r => exact h12.of_rest_eq rfl rfl rfl rfl
        | literal _ => exact h12
      rintro ⟨attrs, s4⟩ h34
      replace h34 : Adv 1 s s4 := h34
      have hl4 : s4.lang ≠ none := by rw [h34.lang]; exact hl
      try dsimp only
      refine Ok.bind (P := fun p => Adv 1 s p.2) ?_ ?_
      · split
        · bind_ok (ihC _ s4 hl4 (by have := h34.len; omega)) with ⟨ev', s5⟩ ⟨h5, ht⟩
          bind_ok (skip1_tok ht) with s6 h6
          simp only [Ok_pure]; exact (h34.trans h5 (m := 1)).trans h6
        · simp only [Ok_pure]; exact h34
      · rintro ⟨ev', s5⟩ h5
        simp only [Ok_pure]; exact h5.of_rest_eq rfl rfl rfl rfl
    · intro ev s hl hf
      rw [contentLoop]
      split
      · rename_i ht
        simp only [Ok_pure]
        obtain ⟨r, hr⟩ := isToken_iff.1 ht
        exact ⟨Adv.refl s, ht⟩
      · -- every round consumes at least one byte
        have step : ∀ {ev' : List Event} {s1 : PState}, Adv 1 s s1 →
            Ok (fun p => Adv 0 s p.2 ∧ isToken p.2 0x01 = true) (contentLoop f ev' s1) := by
          intro ev' s1 h1
          have hl1 : s1.lang ≠ none := by rw [h1.lang]; exact hl
          refine (ihC ev' s1 hl1 (by have := h1.len; omega)).mono ?_
          rintro p ⟨hp, ht⟩; exact ⟨h1.trans hp, ht⟩
        split
        · simp
        · split
          · bind_ok (parseExtension_ok true s) with ⟨r, s1⟩ h1
            exact step h1
          · split
            · rename_i h
              bind_ok (parseEntity_ok h) with ⟨b, s1⟩ h1
              exact step h1
            · split
              · bind_ok (parseString_ok s) with ⟨b, s1⟩ h1
                exact step h1
              · split
                · rename_i h
                  bind_ok (parseOpaque_ok h) with ⟨d, s1⟩ h1
                  try dsimp only
                  split
                  · rename_i hn
                    exact absurd (hn.symm.trans h1.lang) (fun h => hl h.symm)
                  · refine Ok.bind (decodeOpaqueContent_safe _ _ d) ?_; intro d' _
                    exact step h1.weaken
                · split
                  · rename_i h
                    bind_ok (parsePi_ok hl h) with ⟨e, s1⟩ h1
                    exact step h1.weaken
                  · split
                    · rename_i h
                      bind_ok (parseSwitchPage_ok h) with s1 h1
                      exact step h1.weaken
                    · bind_ok (ihE ev s hl (by omega)) with ⟨ev', s1⟩ h1
                      exact step h1

theorem parseElement_ok {f : Nat} {ev : List Event} {s : PState} (hl : s.lang ≠ none)
    (hf : 2 * s.rest.length + 2 ≤ f) : Ok (fun p => Adv 1 s p.2) (parseElement f ev s) :=
  (elem_content_ok f).1 ev s hl hf

theorem contentLoop_ok {f : Nat} {ev : List Event} {s : PState} (hl : s.lang ≠ none)
    (hf : 2 * s.rest.length + 3 ≤ f) :
    Ok (fun p => Adv 0 s p.2 ∧ isToken p.2 0x01 = true) (contentLoop f ev s) :=
  (elem_content_ok f).2 ev s hl hf

theorem piLoop_ok : ∀ (f : Nat) (ev : List Event) (s : PState), s.lang ≠ none → s.rest.length < f →
    Ok (fun p => Adv 0 s p.2) (piLoop f ev s)
  | 0, _, _, _, hf => by omega
  | f + 1, ev, s, hl, hf => by
    simp only [piLoop]
    split
    · rename_i h
      bind_ok (parsePi_ok hl h) with ⟨e, s1⟩ h1
      have hl1 : s1.lang ≠ none := by rw [h1.lang]; exact hl
      refine (piLoop_ok f _ s1 hl1 (by have := h1.len; omega)).mono ?_
      intro p hp; exact h1.trans hp
    · simp only [Ok_pure]; exact Adv.refl s

theorem parseBody_ok (ev : List Event) {s : PState} (hl : s.lang ≠ none) :
    Ok (fun p => Adv 1 s p.2) (parseBody ev s) := by
  unfold parseBody
  bind_ok (piLoop_ok _ ev s hl (Nat.lt_succ_self _)) with ⟨ev1, s1⟩ h1
  have hl1 : s1.lang ≠ none := by rw [h1.lang]; exact hl
  bind_ok (parseElement_ok (ev := ev1) hl1 (Nat.le_refl _)) with ⟨ev2, s2⟩ h2
  have hl2 : s2.lang ≠ none := by rw [h2.lang]; exact hl1
  refine (piLoop_ok _ ev2 s2 hl2 (Nat.lt_succ_self _)).mono ?_
  intro p hp; exact (h1.trans h2 (m := 1)).trans hp

/-! ### Header -/

theorem ite_charset_rest (c : Prop) [Decidable c] (s : PState) (x : Nat) :
    (if c then { s with charset := x } else s).rest = s.rest := by split <;> rfl

theorem ite_charset_lang (c : Prop) [Decidable c] (s : PState) (x : Nat) :
    (if c then { s with charset := x } else s).lang = s.lang := by split <;> rfl

theorem ite_charset_strtbl (c : Prop) [Decidable c] (s : PState) (x : Nat) :
    (if c then { s with charset := x } else s).strtbl = s.strtbl := by split <;> rfl

theorem parseStrtbl_ok (s : PState) :
    Ok (fun s' => s'.lang = s.lang ∧ s'.charset = s.charset ∧ s'.rest <:+ s.rest ∧
                  s'.rest.length + 1 ≤ s.rest.length) (parseStrtbl s) := by
  unfold parseStrtbl
  have hm := mbLoop_ok 5 0 s.rest
  split
  · simp
  · rename_i len r heq
    rw [heq] at hm
    obtain ⟨h1, h2⟩ := hm
    dsimp only at h1 h2 ⊢
    split
    · rw [Ok_ok]; exact ⟨rfl, rfl, h1, h2⟩
    · split
      · simp
      · rw [Ok_ok]
        refine ⟨rfl, rfl, (List.drop_suffix _ _).trans h1, ?_⟩
        simp only [List.length_drop]; omega

/-- Header stage: on success the language is set, the cursor is a suffix of the input and at least
    three bytes (version, public id, string-table length) were consumed. -/
theorem parseHeader_ok (cfg : PCfg) (bs : Bytes) :
    Ok (fun p => p.1.lang = some p.2 ∧ p.1.rest <:+ bs ∧ p.1.rest.length + 3 ≤ bs.length)
      (parseHeader cfg bs) := by
  unfold parseHeader
  split
  · simp
  · bind_ok (parseU8_ok { rest := bs }) with ⟨ver, s1⟩ h1
    try dsimp only
    -- public id
    refine Ok.bind (P := fun (q : Nat × Option Nat × PState) =>
        q.2.2.rest <:+ s1.rest ∧ q.2.2.rest.length + 1 ≤ s1.rest.length) ?_ ?_
    · split
      · simp
      · rename_i b r hr
        replace hr : s1.rest = b :: r := hr
        split
        · bind_ok (parseMb_ok _) with ⟨i, s2⟩ h2
          simp only [Ok_pure]
          refine ⟨?_, ?_⟩
          · rw [hr]; exact h2.suffix.trans (List.suffix_cons _ _)
          · have := h2.len; simp only [hr, List.length_cons] at this ⊢; omega
        · bind_ok (parseMb_ok _) with ⟨p, s2⟩ h2
          simp only [Ok_pure]
          exact ⟨h2.suffix, h2.len⟩
    · rintro ⟨pubId, pubIdx, s2⟩ ⟨h2a, h2b⟩
      dsimp only at h2a h2b ⊢
      -- charset
      refine Ok.bind (P := fun (q : PState) => q.rest <:+ s2.rest) ?_ ?_
      · split
        · bind_ok (parseMb_ok _) with ⟨cs, s3⟩ h3
          repeat' split
          all_goals first | exact h3.suffix | simp
        · simp only [Ok_pure]; exact List.suffix_refl _
      · intro s3 h3
        refine Ok.bind (parseStrtbl_ok _) ?_
        rintro s4 ⟨_, _, h4a, h4b⟩
        rw [ite_charset_rest] at h4a h4b
        split
        · simp
        · rw [Ok_pure]
          have hs1 : s1.rest <:+ bs := h1.suffix
          have hl1 : s1.rest.length + 1 ≤ bs.length := h1.len
          have hs3 : s3.rest <:+ s1.rest := h3.trans h2a
          refine ⟨rfl, (h4a.trans hs3).trans hs1, ?_⟩
          have := h3.length_le
          show s4.rest.length + 3 ≤ bs.length
          omega

end Wbxml.Lemmas.ParserSafe
