/-
  C18 lemmas, part 20: `wbxml_tree_extract_node` keeps every payload; extracting the LAST child of a
  node and adding it back under the same parent restores the shape — hence `abs` — unless the node and
  its previous sibling are both text (then `wbxml_tree_add_node` merges them).
-/
import Wbxml.Lemmas.TreeHeapSpine
set_option linter.unusedSimpArgs false
set_option linter.unusedVariables false
namespace Wbxml.Model.TreeHeap
open Wbxml Wbxml.Model

/-! ### `abs` read off the forest -/

theorem absTree_forest {s : St} {G : BT} (hF : Forest s G) :
    absTree s = .ok ({ lang := s.lang, origCharset := s.charset,
                       root := s.root.map (fun r => mkNode (payOf s.cellAt r) (absBT s.cellAt (BT.chainKids r G))) } : Tree) := by
  unfold absTree
  cases hr : s.root with
  | none => rfl
  | some r =>
    obtain ⟨c, hc, h⟩ := absNode_top hF (hF.root r hr)
    have hp : payOf s.cellAt r = c.pay := by simp [payOf, hc]
    simp only [h, Option.map_some, hp]

/-- Two states with the same shape, the same payloads and the same tree object have the same `abs`. -/
theorem absTree_congr {s s' : St} {G : BT} (hF : Forest s G) (hF' : Forest s' G)
    (hpay : ∀ j, j ∈ G.ids → payOf s'.cellAt j = payOf s.cellAt j)
    (hr : s'.root = s.root) (hl : s'.lang = s.lang) (hc : s'.charset = s.charset) : absTree s' = absTree s := by
  rw [absTree_forest hF, absTree_forest hF', hr, hl, hc]
  cases hroot : s.root with
  | none => rfl
  | some r =>
    have hrG : r ∈ G.ids := BT.tops_sub _ _ (hF.root r hroot)
    simp only [Option.map_some]
    rw [hpay r hrG, absBT_frame (v := s.cellAt) (v' := s'.cellAt) _
      (fun j hj => hpay j (BT.chainKids_sub r G j hj))]

/-! ### Extraction keeps the payloads -/

theorem upd_payOf {s s' : St} {i : Nat} {f : Cell → Cell} (h : s.upd i f = .ok s')
    (hf : ∀ c, (f c).pay = c.pay ∧ (f c).live = c.live) : ∀ j, payOf s'.cellAt j = payOf s.cellAt j := by
  cases hd : s.deref i with
  | error e => simp [St.upd, hd] at h
  | ok c =>
    have hc := deref_eq_ok.mp hd
    obtain ⟨s'', e, v, _⟩ := upd_view hc f (by rw [(hf c).2]; exact cellAt_live hc)
    rw [e] at h; injection h with h; subst h
    intro j
    rw [v]
    exact payOf_vset_same hc (hf c).1 j

theorem updOpt_payOf {s s' : St} {o : Option Nat} {f : Cell → Cell} (h : s.updOpt o f = .ok s')
    (hf : ∀ c, (f c).pay = c.pay ∧ (f c).live = c.live) : ∀ j, payOf s'.cellAt j = payOf s.cellAt j := by
  cases o with
  | none => simp only [St.updOpt] at h; injection h with h; subst h; intro j; rfl
  | some i => exact upd_payOf (i := i) h hf

theorem bind_ok_inv {α β : Type} {x : Except Err α} {f : α → Except Err β} {b : β} (h : (x >>= f) = .ok b) :
    ∃ a, x = .ok a ∧ f a = .ok b := by
  cases x with
  | error e => cases h
  | ok a => exact ⟨a, rfl, h⟩

theorem extractNodeG_payOf {fixed : Bool} {s s' : St} {n : Nat} (h : extractNodeG fixed s n = .ok s') :
    ∀ j, payOf s'.cellAt j = payOf s.cellAt j := by
  unfold extractNodeG at h
  obtain ⟨nc, hd, h⟩ := bind_ok_inv h
  obtain ⟨s1, hb, h⟩ := bind_ok_inv h
  obtain ⟨s2, hu2, h⟩ := bind_ok_inv h
  obtain ⟨s3, hu3, h⟩ := bind_ok_inv h
  have p1 : ∀ j, payOf s1.cellAt j = payOf s.cellAt j := by
    cases hp : nc.parent with
    | none =>
      rw [hp] at hb
      simp only [pure, Except.pure] at hb
      split at hb
      · injection hb with hb; subst hb; intro j; rfl
      · injection hb with hb; subst hb; intro j; rfl
    | some p =>
      rw [hp] at hb
      simp only at hb
      obtain ⟨pc, _, hb⟩ := bind_ok_inv hb
      obtain ⟨s0, hu, hb⟩ := bind_ok_inv hb
      intro j
      rw [upd_payOf hb (fun _ => ⟨rfl, rfl⟩) j, updOpt_payOf hu (fun _ => ⟨rfl, rfl⟩) j]
  intro j
  rw [upd_payOf h (fun _ => ⟨rfl, rfl⟩) j, updOpt_payOf hu3 (fun _ => ⟨rfl, rfl⟩) j,
    updOpt_payOf hu2 (fun _ => ⟨rfl, rfl⟩) j, p1 j]

theorem extractNode_payOf {s s' : St} {n : Nat} (h : extractNode s n = .ok s') :
    ∀ j, payOf s'.cellAt j = payOf s.cellAt j := extractNodeG_payOf h

/-! ### The last node of a chain -/

/-- A top-level node whose `next` is NULL is the last node of the chain. -/
theorem Match.lastId_of_next_none {v : View} (par : Option Nat) (n : Nat) (cn : Cell) (hcn : v n = some cn)
    (hnx : cn.next = none) : ∀ (t : BT) (prv : Option Nat), t.ids.Nodup → Match v par prv t → n ∈ t.tops →
      t.lastId = some n
  | .nil, _, _, _, h => by simp [BT.tops] at h
  | .node i ch nx, prv, hnd, ⟨⟨c, hc, _, _, _, hn, _⟩, _, mn⟩, h => by
    obtain ⟨hi1, hi2, hcnd, hnn, hd⟩ := BT.nodup_node.mp hnd
    by_cases e : i = n
    · subst e
      rw [hcn] at hc; injection hc with hc; subst hc
      rw [hnx] at hn
      have : nx = .nil := BT.rid_none hn.symm
      subst this
      rfl
    · simp only [BT.tops, List.mem_cons] at h
      have hn' : n ∈ nx.tops := by
        rcases h with h | h
        · exact absurd h.symm e
        · exact h
      have ih := Match.lastId_of_next_none par n cn hcn hnx nx (some i) hnn mn hn'
      cases nx with
      | nil => simp [BT.tops] at hn'
      | node j c2 m => simpa [BT.lastId] using ih

/-- Removing the last node of a chain: the new last node is the old last node's `prev`. -/
theorem BT.lastId_chainRemove_last (n : Nat) : ∀ (K : BT) (prv : Option Nat), K.ids.Nodup → K.lastId = some n →
    (match (BT.chainRemove n K).lastId with
     | some l => some l
     | none => prv) = BT.lastPrev prv K
  | .nil, _, _, h => by simp [BT.lastId] at h
  | .node i ch .nil, prv, _, h => by
    simp only [BT.lastId, Option.some.injEq] at h; subst h
    simp [BT.chainRemove, BT.lastId, BT.lastPrev]
  | .node i ch (.node j c m), prv, hnd, h => by
    obtain ⟨hi1, hi2, hcn, hnn, hd⟩ := BT.nodup_node.mp hnd
    have hl : (BT.node j c m).lastId = some n := by simpa [BT.lastId] using h
    have hnm : n ∈ (BT.node j c m).ids := BT.tops_sub _ _ (BT.lastId_mem _ _ hl)
    have hin : ¬ i = n := fun e => hi2 (e ▸ hnm)
    have ih := BT.lastId_chainRemove_last n (.node j c m) (some i) hnn hl
    have e1 : BT.chainRemove n (.node i ch (.node j c m)) = .node i ch (BT.chainRemove n (.node j c m)) := by
      simp [BT.chainRemove, hin]
    have e2 : BT.lastPrev prv (.node i ch (.node j c m)) = BT.lastPrev (some i) (.node j c m) := rfl
    rw [e1, e2, ← ih]
    cases hR : BT.chainRemove n (.node j c m) with
    | nil => simp [BT.lastId]
    | node a c' m' =>
      obtain ⟨l, hl'⟩ := BT.lastId_some (.node a c' m') (by simp)
      have : (BT.node i ch (.node a c' m')).lastId = (BT.node a c' m').lastId := rfl
      rw [this, hl']

/-! ### Extract the last child, add it back -/

/-- `wbxml_tree_extract_node(tree, n)` followed by `wbxml_tree_add_node(tree, P, n)` for a node `n` that
    is the LAST child of `P` (`n->next == NULL`), unless `n` and its previous sibling are both text
    nodes: both calls succeed, the links are again exactly those of the shape before, every payload is
    kept — the abstraction of the tree is the same as before. -/
theorem extract_reinsert_last {s : St} {G : BT} (hF : Forest s G) {n P : Nat} {cn : Cell}
    (hcn : s.cellAt n = some cn) (hp : cn.parent = some P) (hlast : cn.next = none)
    (hside : ∀ q cq, cn.prev = some q → s.cellAt q = some cq → (cn.pay.isText && cq.pay.isText) = false) :
    ∃ s1 s2, extractNode s n = .ok s1 ∧ addNode s1 (some P) n = .ok (true, s2) ∧ Forest s2 G ∧
      (∀ j, payOf s2.cellAt j = payOf s.cellAt j) ∧ s2.root = s.root ∧ s2.lang = s.lang ∧
      s2.charset = s.charset ∧ absTree s2 = absTree s ∧
      pre s1 (.addNode (some P) n) = true := by
  have hnG := hF.cover n cn hcn
  -- where n sits
  have hloc : P ∈ G.ids ∧ n ∈ (BT.kidsOf P G).tops := by
    rcases Loc.locate s.cellAt n cn hcn G none none hF.m hnG hF.nodup with ⟨_, h2⟩ | ⟨P', hP', h1, h2⟩
    · rw [hp] at h2; cases h2
    · rw [hp] at h2; injection h2 with h2; subst h2; exact ⟨hP', h1⟩
  obtain ⟨hPG, hnK⟩ := hloc
  obtain ⟨cP, hcP, hPf, hPb, mK⟩ := hF.cell_kids hPG
  have hKnd := BT.kidsOf_nodup P G hF.nodup
  have hnKi : n ∈ (BT.kidsOf P G).ids := BT.tops_sub _ _ hnK
  have hPn : P ≠ n := fun e => hKnd.2 (e ▸ hnKi)
  have hbr : cP.pay.isBranch = true := by
    rcases hPb with h | h
    · exact h
    · rw [h] at hnK; simp [BT.tops] at hnK
  have hlastId : (BT.kidsOf P G).lastId = some n :=
    Match.lastId_of_next_none (some P) n cn hcn hlast _ none hKnd.1 mK hnK
  obtain ⟨cl, hcl, _, _, hprev⟩ := Match.last (some P) _ none n mK hlastId
  rw [hcn] at hcl; injection hcl with hcl; subst hcl
  -- the extraction
  obtain ⟨s1, e1, m1, hF1⟩ := extract_inner hF hcn hp
  have hpay1 := extractNode_payOf e1
  -- the shape after it
  have hnd1 := hF1.nodup
  rw [BT.snoc_ids_eq] at hnd1
  have hnd1' := List.nodup_append.mp hnd1
  have hn0 : n ∉ (BT.setKids P (BT.chainRemove n (BT.kidsOf P G)) G).ids := by
    intro h; exact hnd1'.2.2 n h n (by simp) rfl
  have hchk := BT.chainKids_nodup n _ hKnd.1 hnK
  have hPck : P ∉ (BT.chainKids n (BT.kidsOf P G)).ids := fun h => hKnd.2 (BT.chainKids_sub n _ P h)
  have hC1 := BT.chainKids_snoc_new n (BT.chainKids n (BT.kidsOf P G)) _ hn0
  have hR1 := BT.chainRemove_snoc_fresh n (BT.chainKids n (BT.kidsOf P G)) _ hn0
  have hK1 : BT.kidsOf P (BT.snoc (BT.setKids P (BT.chainRemove n (BT.kidsOf P G)) G)
      (.node n (BT.chainKids n (BT.kidsOf P G)) .nil)) = BT.chainRemove n (BT.kidsOf P G) := by
    rw [BT.kidsOf_snoc P _ (by
      intro h
      rcases BT.mem_node.mp h with h | h | h
      · exact hPn h
      · exact hPck h
      · simp at h)]
    exact BT.kidsOf_setKids P _ G hPG hF.nodup
  have htop1 : n ∈ (BT.snoc (BT.setKids P (BT.chainRemove n (BT.kidsOf P G)) G)
      (.node n (BT.chainKids n (BT.kidsOf P G)) .nil)).tops := by
    rw [BT.tops_snoc]; right; simp [BT.tops]
  have hroot1 : s1.root ≠ some n := by
    rw [m1.1]
    intro h
    obtain ⟨c', hc', hp', _⟩ := Loc.top_facts s.cellAt n G none hF.m (hF.root n h)
    rw [hcn] at hc'; injection hc' with hc'; subst hc'
    rw [hp] at hp'; cases hp'
  obtain ⟨cn1, hcn1⟩ := hF1.live (BT.tops_sub _ _ htop1)
  have hPG1 : P ∈ (BT.snoc (BT.setKids P (BT.chainRemove n (BT.kidsOf P G)) G)
      (.node n (BT.chainKids n (BT.kidsOf P G)) .nil)).ids := by
    rw [BT.snoc_ids]; left
    rw [BT.mem_setKids P _ G P hF.nodup]
    left; exact ⟨hPG, hKnd.2⟩
  obtain ⟨cP1, hcP1⟩ := hF1.live hPG1
  have hpcn1 : cn1.pay = cn.pay := by
    have := hpay1 n; simp only [payOf, hcn1, hcn] at this; exact this
  have hpcP1 : cP1.pay = cP.pay := by
    have := hpay1 P; simp only [payOf, hcP1, hcP] at this; exact this
  have ctx : AddCtx s1 _ P n cP1 cn1 :=
    ⟨hF1, htop1, hroot1, hPG1, hPn, by rw [hC1]; exact hPck, hcP1, by rw [hpcP1]; exact hbr, hcn1⟩
  -- the executable precondition of the re-insertion
  have hpre : pre s1 (.addNode (some P) n) = true := by
    obtain ⟨c', hc', h1, h2, h3, _⟩ := Loc.top_facts s1.cellAt n _ none hF1.m htop1
    rw [hcn1] at hc'; injection hc' with hc'; subst hc'
    have hdet : isDetached s1 n = true := by
      simp only [isDetached, hcn1, h1, h2, h3, Option.isNone_none, Bool.and_self, Bool.true_and, bne_iff_ne, ne_eq]
      exact hroot1
    have hnb : notBelow s1 n (some P) = true := by
      simp only [notBelow, below_spec hF1 htop1, hC1, Bool.and_eq_true, bne_iff_ne, ne_eq, Bool.not_eq_true',
        List.contains_eq_mem, decide_eq_false_iff_not]
      exact ⟨hPn, by simpa using hPck⟩
    simp only [pre, parentOK, hcP1, hpcP1, hbr, hdet, hnb, Bool.and_self]
  -- the chain that results is the old one
  have hback := BT.snoc_chainRemove_last n (BT.kidsOf P G) hKnd.1 hlastId
  have hGback : BT.setKids P (BT.kidsOf P G) (BT.setKids P (BT.chainRemove n (BT.kidsOf P G)) G) = G := by
    rw [BT.setKids_setKids, BT.setKids_kidsOf P G hF.nodup]
  have finish : ∀ s2, Forest s2 G → SameMeta s1 s2 → PayFrame s1 s2 n none cn1.pay →
      (∀ j, payOf s2.cellAt j = payOf s.cellAt j) ∧ s2.root = s.root ∧ s2.lang = s.lang ∧
      s2.charset = s.charset ∧ absTree s2 = absTree s := by
    intro s2 hF2 m2 pf
    have hpay2 : ∀ j, payOf s2.cellAt j = payOf s.cellAt j := by
      intro j
      by_cases hj : j = n
      · subst hj
        rw [pf.self, ← hpay1 j]; simp [payOf, hcn1]
      · rw [pf.other j hj (by simp), hpay1 j]
    exact ⟨hpay2, m2.1.trans m1.1, m2.2.1.trans m1.2.1, m2.2.2.1.trans m1.2.2.1,
      absTree_congr hF hF2 (fun j _ => hpay2 j) (m2.1.trans m1.1) (m2.2.1.trans m1.2.1) (m2.2.2.1.trans m1.2.2.1)⟩
  cases hf : cP1.first with
  | none =>
    obtain ⟨k1, _⟩ := ctx.kids_facts
    rw [hK1] at k1
    have hKr : BT.chainRemove n (BT.kidsOf P G) = .nil := BT.rid_none (by rw [← k1]; exact hf)
    obtain ⟨s2, e2, m2, hF2, _, pf, _⟩ := addNode_first ctx hf
    rw [hC1, hR1] at hF2
    have hshape : BT.node n (BT.chainKids n (BT.kidsOf P G)) .nil = BT.kidsOf P G := by
      have h0 : BT.snoc (BT.chainRemove n (BT.kidsOf P G)) (.node n (BT.chainKids n (BT.kidsOf P G)) .nil) =
          BT.node n (BT.chainKids n (BT.kidsOf P G)) .nil := by rw [hKr]; rfl
      rw [← h0]; exact hback
    rw [hshape, hGback] at hF2
    obtain ⟨h1, h2, h3, h4, h5⟩ := finish s2 hF2 m2 pf
    exact ⟨s1, s2, e1, e2, hF2, h1, h2, h3, h4, h5, hpre⟩
  | some fc =>
    obtain ⟨s2, e2, m2, hF2, _, pf, _⟩ := addNode_append ctx hf (by
      intro l cl hl hcl
      rw [hK1] at hl
      have hlp := BT.lastId_chainRemove_last n (BT.kidsOf P G) none hKnd.1 hlastId
      rw [hl] at hlp
      simp only at hlp
      rw [← hprev] at hlp
      have hlK : l ∈ (BT.kidsOf P G).ids :=
        BT.chainRemove_ids n _ l (BT.tops_sub _ _ (BT.lastId_mem _ _ hl))
      obtain ⟨cq, hcq⟩ := Match.live _ _ _ mK l hlK
      have := hside l cq hlp.symm hcq
      have hpl : cl.pay = cq.pay := by
        have := hpay1 l; simp only [payOf, hcl, hcq] at this; exact this
      rw [hpcn1, hpl]; exact this)
    rw [hK1, hC1, hR1, hback, hGback] at hF2
    obtain ⟨h1, h2, h3, h4, h5⟩ := finish s2 hF2 m2 pf
    exact ⟨s1, s2, e1, e2, hF2, h1, h2, h3, h4, h5, hpre⟩

/-! ### Insert, extract, insert again -/

theorem BT.lastId_snoc_node (n : Nat) (c : BT) : ∀ (K : BT), (BT.snoc K (.node n c .nil)).lastId = some n
  | .nil => rfl
  | .node i ch .nil => by simp [BT.snoc, BT.lastId]
  | .node i ch (.node j c2 m) => by
    have ih := BT.lastId_snoc_node n c (.node j c2 m)
    simp only [BT.snoc] at ih ⊢
    simpa [BT.lastId] using ih

theorem BT.lastId_replLast (n : Nat) : ∀ (K : BT), K ≠ .nil → (BT.replLast n K).lastId = some n
  | .nil, h => absurd rfl h
  | .node i ch .nil, _ => rfl
  | .node i ch (.node j c .nil), _ => rfl
  | .node i ch (.node j c (.node a c2 m)), _ => by
    have ih := BT.lastId_replLast n (.node j c (.node a c2 m)) (by simp)
    have e : BT.replLast n (.node i ch (.node j c (.node a c2 m))) =
        .node i ch (.node j c (BT.replLast n (.node a c2 m))) := rfl
    have e' : BT.replLast n (.node j c (.node a c2 m)) = .node j c (BT.replLast n (.node a c2 m)) := rfl
    rw [e]; rw [e'] at ih
    simpa [BT.lastId] using ih

/-- The chain `wbxml_tree_add_node` leaves below `P` ends in `n`. -/
theorem addShape_last (s : St) (G : BT) (P n : Nat) :
    ∃ K', addShape s G P n = BT.setKids P K' (BT.chainRemove n G) ∧ K'.lastId = some n := by
  unfold addShape
  simp only
  by_cases hK : BT.kidsOf P G = .nil
  · rw [if_pos hK]; exact ⟨_, rfl, rfl⟩
  · rw [if_neg hK]
    have gen : ∀ (m : Bool), ∃ K', BT.setKids P (if m = true then BT.replLast n (BT.kidsOf P G)
          else BT.snoc (BT.kidsOf P G) (.node n (BT.chainKids n G) .nil)) (BT.chainRemove n G) =
        BT.setKids P K' (BT.chainRemove n G) ∧ K'.lastId = some n := by
      intro m
      cases m with
      | true => exact ⟨_, rfl, BT.lastId_replLast n _ hK⟩
      | false => exact ⟨_, rfl, BT.lastId_snoc_node n _ _⟩
    exact gen _

/-- Inserting a detached sub-tree, extracting it and inserting it again at the same place gives the
    same `abs` as inserting it once — on every state that satisfies the invariant and has no adjacent
    text siblings, for every insertion inside the contract. -/
theorem insert_extract_insert {s : St} {G : BT} (hF : Forest s G) (hN : NoAdjText s) {P n : Nat}
    (hpre : pre s (.addNode (some P) n) = true) :
    ∃ s1 s3, run s [.addNode (some P) n] = .ok s1 ∧
      run s [.addNode (some P) n, .extract n, .addNode (some P) n] = .ok s3 ∧ Inv s3 ∧ absTree s3 = absTree s1 := by
  have hpre' := hpre
  simp only [pre, Bool.and_eq_true] at hpre'
  obtain ⟨cP, cn, ctx⟩ := addCtx_of_pre hF hpre'.1.1 hpre'.1.2 hpre'.2
  obtain ⟨s1, e1, m1, hF1, _⟩ := addNode_under ctx
  have hN1 : NoAdjText s1 := addNode_under_noadj ctx hN e1
  obtain ⟨K', hshape, hlast⟩ := addShape_last s G P n
  rw [hshape] at hF1
  have hG1 : (BT.chainRemove n G).ids.Nodup := BT.nodup_chainRemove n G hF.nodup
  have hP1 : P ∈ (BT.chainRemove n G).ids :=
    (BT.mem_chainRemove n G P hF.nodup ctx.hn).mpr ⟨ctx.hP, ctx.hPn, ctx.hPk⟩
  have hkids : BT.kidsOf P (BT.setKids P K' (BT.chainRemove n G)) = K' := BT.kidsOf_setKids P K' _ hP1 hG1
  have hPG1 : P ∈ (BT.setKids P K' (BT.chainRemove n G)).ids := by
    rw [BT.mem_setKids P K' _ P hG1]
    left
    refine ⟨hP1, ?_⟩
    rw [BT.kidsOf_chainRemove P n G ctx.hPn ctx.hPk]
    exact (BT.kidsOf_nodup P G hF.nodup).2
  obtain ⟨cP1, _, _, _, mK⟩ := hF1.cell_kids hPG1
  rw [hkids] at mK
  obtain ⟨c1, hc1, hnx1, hpar1, _⟩ := Match.last (some P) K' none n mK hlast
  have hI1 : Inv s1 := ⟨_, hF1⟩
  obtain ⟨s2, s3, e2, e3, hF3, _, _, _, _, habs, hpre3⟩ := extract_reinsert_last hF1 hc1 hpar1 hnx1 (by
    intro q cq hq hcq
    obtain ⟨cq', hcq', hqn, _⟩ := (hI1.links n c1 hc1).2.2.1 q hq
    rw [hcq] at hcq'; injection hcq' with hcq'; subst hcq'
    have := hN1 q n cq c1 hcq hqn hc1
    cases h1 : c1.pay.isText <;> cases h2 : cq.pay.isText <;> simp_all)
  have st1 : stepChecked s (.addNode (some P) n) = .ok (.bool true, s1) := by
    unfold stepChecked; rw [if_pos hpre]; simp only [step, e1]
  have hpre2 : pre s1 (.extract n) = true := by simp only [pre, hc1, Option.isSome_some]
  have st2 : stepChecked s1 (.extract n) = .ok (.code 0, s2) := by
    unfold stepChecked; rw [if_pos hpre2]; simp only [step, e2]
  have st3 : stepChecked s2 (.addNode (some P) n) = .ok (.bool true, s3) := by
    unfold stepChecked; rw [if_pos hpre3]; simp only [step, e3]
  refine ⟨s1, s3, ?_, ?_, ⟨_, hF3⟩, habs⟩
  · simp only [run, st1]
  · simp only [run, st1, st2, st3]

end Wbxml.Model.TreeHeap
