/-
  WBXML encoder proofs: which option fields the node walk (`encNodeG`) depends on.

  * `produce_anonymous` and `textual_publicid` are read by `fillHeaderW` only (`encNodeG_core`);
  * the version is read by `fillHeaderW` and handed down to embedded documents, nowhere else
    (`encNodeG_version` for trees without embedded documents).
-/
import Wbxml.Lemmas.EncWBasic
namespace Wbxml.Lemmas.EncW
open Wbxml Wbxml.Model

/-- The option fields the node walk can see. -/
def core (c : WCfg) : WCfg :=
  { lang := c.lang, ignoreEmpty := c.ignoreEmpty, removeBlanks := c.removeBlanks,
    useStrtbl := c.useStrtbl, version := c.version }

theorem encAttrsW_core (c : WCfg) (na : Option (List Attr)) (l : List Attr) (st : WSt) :
    encAttrsW c na l st = encAttrsW (core c) na l st := by
  induction l generalizing st with
  | nil => rfl
  | cons a r ih =>
    simp only [encAttrsW]
    show (encAttrW (core c) na a st >>= _) = _
    congr 1; funext st'; exact ih st'

theorem encElementStartW_core (c : WCfg) (na n a h st) :
    encElementStartW c na n a h st = encElementStartW (core c) na n a h st := by
  unfold encElementStartW
  simp only [← encAttrsW_core c]
  rfl

theorem encTextW_core (c : WCfg) (p s st) : encTextW c p s st = encTextW (core c) p s st := rfl
theorem nestedCfg_core (c : WCfg) (l) : nestedCfg c l = nestedCfg (core c) l := rfl

/-- The node walk does not look at `anonymous` / `textualPublicId`. -/
theorem encNodeG_core :
    (∀ (c : WCfg) (parent : Option Name) (encEnd : Bool) (n : Node) (st : WSt),
      encNodeG c parent encEnd n st = encNodeG (core c) parent encEnd n st) ∧
    (∀ (c : WCfg) (parent : Option Name) (l : List Node) (st : WSt),
      encNodesW c parent l st = encNodesW (core c) parent l st) := by
  apply encNodeG.mutual_induct
    (motive_1 := fun c parent encEnd n st => encNodeG c parent encEnd n st = encNodeG (core c) parent encEnd n st)
    (motive_2 := fun c parent l st => encNodesW c parent l st = encNodesW (core c) parent l st)
  · intro c parent encEnd name attrs kids st ih
    simp only [encNodeG, ← encElementStartW_core c]
    congr 1; funext st1
    simp only [ih st1]
  · intro c parent encEnd s st
    simp only [encNodeG, ← encTextW_core c]
  · intro c parent encEnd kids st s hs
    simp only [encNodeG, hs]
  · intro c parent encEnd kids st hs ih
    simp only [encNodeG, hs, ih]
  · intro c parent encEnd cs root st
    simp only [encNodeG]
  · intro c parent encEnd cs st l
    simp only [encNodeG]
  · intro c parent encEnd cs st l r c' _
    simp only [encNodeG, ← nestedCfg_core c]
  · intro c parent st
    simp only [encNodesW]
  · intro c parent n rest st ih1 ih2
    simp only [encNodesW, ih1]
    congr 1; funext st1
    exact ih2 st1

theorem encNodeG_eq_of_core (c c' : WCfg) (h : core c = core c') (parent encEnd n st) :
    encNodeG c parent encEnd n st = encNodeG c' parent encEnd n st := by
  rw [encNodeG_core.1 c, encNodeG_core.1 c', h]

/-! ### The version -/

mutual
/-- No embedded document (`WBXML_TREE_TREE_NODE`) anywhere below. -/
def noNested : Node → Bool
  | .elt _ _ kids => noNestedL kids
  | .text _ => true
  | .cdata kids => noNestedL kids
  | .tree _ _ _ => false
def noNestedL : List Node → Bool
  | [] => true
  | n :: r => noNested n && noNestedL r
end

theorem encAttrsW_version (c : WCfg) (v : Nat) (na : Option (List Attr)) (l : List Attr) (st : WSt) :
    encAttrsW { c with version := v } na l st = encAttrsW c na l st := by
  induction l generalizing st with
  | nil => rfl
  | cons a r ih =>
    simp only [encAttrsW]
    show (encAttrW c na a st >>= _) = _
    congr 1; funext st'; exact ih st'

theorem encElementStartW_version (c : WCfg) (v : Nat) (na n a h st) :
    encElementStartW { c with version := v } na n a h st = encElementStartW c na n a h st := by
  unfold encElementStartW
  simp only [encAttrsW_version c]
  rfl

theorem encTextW_version (c : WCfg) (v : Nat) (p s st) : encTextW { c with version := v } p s st = encTextW c p s st := rfl

/-- Without embedded documents the node walk does not look at the version. -/
theorem encNodeG_version (v : Nat) :
    (∀ (c : WCfg) (parent : Option Name) (encEnd : Bool) (n : Node) (st : WSt), noNested n = true →
      encNodeG { c with version := v } parent encEnd n st = encNodeG c parent encEnd n st) ∧
    (∀ (c : WCfg) (parent : Option Name) (l : List Node) (st : WSt), noNestedL l = true →
      encNodesW { c with version := v } parent l st = encNodesW c parent l st) := by
  apply encNodeG.mutual_induct
    (motive_1 := fun c parent encEnd n st => noNested n = true →
      encNodeG { c with version := v } parent encEnd n st = encNodeG c parent encEnd n st)
    (motive_2 := fun c parent l st => noNestedL l = true →
      encNodesW { c with version := v } parent l st = encNodesW c parent l st)
  · intro c parent encEnd name attrs kids st ih hn
    rw [noNested] at hn
    simp only [encNodeG, encElementStartW_version c]
    congr 1; funext st1
    simp only [ih st1 hn]
  · intro c parent encEnd s st _
    simp only [encNodeG, encTextW_version c]
  · intro c parent encEnd kids st s hs _
    simp only [encNodeG, hs]
  · intro c parent encEnd kids st hs ih hn
    rw [noNested] at hn
    simp only [encNodeG, hs, ih hn]
  · intro c parent encEnd cs root st hn
    simp [noNested] at hn
  · intro c parent encEnd cs st l hn
    simp [noNested] at hn
  · intro c parent encEnd cs st l r c' _ hn
    simp [noNested] at hn
  · intro c parent st _
    simp only [encNodesW]
  · intro c parent n rest st ih1 ih2 hn
    rw [noNestedL, Bool.and_eq_true] at hn
    simp only [encNodesW, ih1 hn.1]
    congr 1; funext st1
    exact ih2 st1 hn.2

end Wbxml.Lemmas.EncW
