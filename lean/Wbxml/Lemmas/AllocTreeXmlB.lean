/-
  C16 — tree building from XML on the ledger, part B: `wbxml_buffer_decode_base64`, the cache of a
  binary element, the call-backs of `wbxml_tree_clb_xml.c`, a list of events, and
  `wbxml_tree_from_xml` around them.
-/
import Wbxml.Lemmas.AllocTreeXmlA
namespace Wbxml.Model.Alloc
open Wbxml
set_option linter.unusedSimpArgs false
set_option linter.unusedVariables false
set_option linter.unnecessarySimpa false

theorem eb64dec_ne : EB64DEC ≠ OK := by decide
theorem einternal_ne : EINTERNAL ≠ OK := by decide
theorem exmllang_ne : EXMLLANG ≠ OK := by decide
theorem exmlparse_ne : EXMLPARSE ≠ OK := by decide

/-- `wbxml_buffer_decode_base64`: the result block of `wbxml_base64_decode` is released on every
    exit; the buffer stays one buffer of the caller. -/
theorem bufDecodeB64_spec (b : ABuf) (s : Ledger) (wf : s.WF) (own : Owns s b.owned) (hok : b.ok) :
    Good (bufDecodeB64 b) s (fun r s' =>
      Clean s s' b.owned r.1.owned ∧ r.1.ok ∧ (s.hits < s'.hits → r.2 ≠ OK)) := by
  unfold bufDecodeB64
  simp only [bind_eq, pure_eq]
  refine Good.bind (deref_spec b.hdr s (own.2 _ (by simp [ABuf.owned]))) ?_
  intro _ s0 e0; have e0' := e0.symm; subst e0'
  split
  · exact good_ret.2 ⟨Clean.id wf own, hok, fun h => absurd h (Nat.lt_irrefl _)⟩
  · -- the buffer without its white space: the same object
    have hokF : ({ b with bytes := b.bytes.filter (fun ch => !Spec.Seq.ws ch) } : ABuf).ok := by
      intro hs hd
      have := hok hs hd
      exact ⟨this.1, by simp [this.2]⟩
    refine Good.bind (malloc_spec s wf) ?_
    intro r s1 ⟨c1, h1⟩
    have hh1 := c1.hits
    have cX1 : Clean s s1 b.owned (b.owned ++ r.toList) := by
      have := Clean.frame_l b.owned wf c1 (by simpa using own)
      simpa using this
    cases r with
    | none =>
      simp only [Option.toList, List.append_nil] at cX1 ⊢
      exact good_ret.2 ⟨cX1, hokF, fun _ => eb64dec_ne⟩
    | some x =>
      simp only [Option.toList] at cX1 ⊢
      have hno1 : ¬ s.hits < s1.hits := by intro h; have := h1 h; simp at this
      have hfree : ∀ (bb : ABuf) (t : Ledger), Clean s t b.owned (bb.owned ++ [x]) →
          Good (free (some x)) t (fun _ t' => Clean s t' b.owned bb.owned ∧ t'.hits = t.hits) := by
        intro bb t cT
        refine (free_spec (some x) t cT.wf (by intro a ha; cases ha; exact cT.owns.2 x (by simp))).mono ?_
        intro _ t' ⟨d, hd, _⟩
        have d' : Clean t t' [x] [] := by simpa using d
        exact ⟨by simpa using Clean.step_l bb.owned wf cT d', hd⟩
      cases hdec : Codec.b64Decode (b.bytes.filter (fun ch => !Spec.Seq.ws ch)) with
      | none =>
        simp only [hdec]
        refine Good.bind (hfree { b with bytes := b.bytes.filter (fun ch => !Spec.Seq.ws ch) } s1 cX1) ?_
        intro _ s2 ⟨cX2, _⟩
        exact good_ret.2 ⟨cX2, hokF, fun _ => eb64dec_ne⟩
      | some decoded =>
        simp only [hdec]
        have hok0 : ({ b with bytes := [] } : ABuf).ok := by
          intro hs hd
          exact ⟨(hok hs hd).1, rfl⟩
        refine Good.bind (bufAppendData_spec { b with bytes := [] } (some decoded) s1 c1.wf cX1.owns.left hok0) ?_
        intro r3 s2 ⟨_, _, c3, h3, k3⟩
        obtain ⟨b3, ok⟩ := r3
        simp only at c3 h3 k3 ⊢
        have c3' : Clean s1 s2 b.owned b3.owned := c3
        have hh3 := c3.hits
        have cX2 : Clean s s2 b.owned (b3.owned ++ [x]) := Clean.step_r [x] wf cX1 c3'
        refine Good.bind (hfree b3 s2 cX2) ?_
        intro _ s3 ⟨cX3, hd3⟩
        refine good_ret.2 ⟨cX3, k3 hok0, fun hh => ?_⟩
        cases ok with
        | false => simp [ENOMEM, OK]
        | true =>
          exfalso
          have a3 : ¬ s1.hits < s2.hits := by intro h; have := h3 h; simp at this
          omega

/-! ### The content buffer of the head node -/

/-- The context with the content of its head node replaced. -/
def setContent (c : TCtx) (f : Frame) (rest : List Frame) (b : Option ABuf) : TCtx :=
  { c with frames := { f with node := { f.node with content := b } } :: rest }

theorem setContent_perm (c : TCtx) (f : Frame) (rest : List Frame) (b : Option ABuf) :
    (setContent c f rest b).owned.Perm ((setContent c f rest none).owned ++ ownedBufOpt b) := by
  simp only [setContent, TCtx.owned, List.flatMap_cons, Frame.owned, ANode.owned_eq, ownedBufOpt, List.append_nil]
  perm_count

theorem setContent_self (c : TCtx) (f : Frame) (rest : List Frame) (hf : c.frames = f :: rest) :
    setContent c f rest f.node.content = c := by
  cases c; cases f; simp_all [setContent]

theorem setContent_tree (c : TCtx) (f : Frame) (rest : List Frame) (b : Option ABuf) : (setContent c f rest b).tree = c.tree := rfl
theorem setContent_error (c : TCtx) (f : Frame) (rest : List Frame) (b : Option ABuf) : (setContent c f rest b).error = c.error := rfl

theorem setContent_ok (c : TCtx) (f : Frame) (rest : List Frame) (hf : c.frames = f :: rest) (hok : c.ok) (b : Option ABuf)
    (hb : ∀ x, b = some x → x.ok) : (setContent c f rest b).ok := by
  have hfo := hok.2.2 f (by simp [hf])
  refine ⟨fun _ => hok.1 (by simp [hf]), hok.2.1, ?_⟩
  intro x hx
  simp only [setContent, List.mem_cons] at hx
  rcases hx with rfl | hx
  · exact ⟨fun y hy => hb y hy, hfo.2.1, hfo.2.2⟩
  · exact hok.2.2 x (by simp [hf, hx])

/-- Adding the text node of `characters`: a failure is `WBXML_ERROR_INTERNAL`. -/
theorem addTextInternal_spec (c : TCtx) (text : Bytes) (s : Ledger) (wf : s.WF) (hok : c.ok) (own : Owns s c.owned) :
    Good (Prog.bind (treeAddText c text) (fun x => if (!x.2) = true then Prog.ret { x.1 with error := EINTERNAL } else Prog.ret x.1)) s
      (CbStep c s) := by
  refine Good.bind (treeAddText_spec c text s wf hok own) ?_
  intro r2 s2 ⟨et2, ee2, ok2, c2, h2⟩
  obtain ⟨c2x, ok'⟩ := r2
  simp only at et2 ee2 ok2 c2 h2 ⊢
  cases ok' with
  | false =>
    simp only [Bool.not_false, if_true]
    exact good_ret.2 ⟨et2, ok2, c2, fun _ => einternal_ne, fun _ => einternal_ne⟩
  | true =>
    simp only [Bool.not_true, Bool.false_eq_true, if_false]
    refine good_ret.2 ⟨et2, ok2, c2, fun hh => ?_, fun h => by rw [ee2]; exact h⟩
    have := h2 hh; simp at this

/-- The head of `wbxml_tree_clb_xml_end_element`: whatever fails, the cache is gone afterwards and
    the context owns everything else; a failed request leaves an error code. -/
theorem xmlBinaryEnd_spec (binRow : Nat → Bool) (c : TCtx) (s : Ledger) (wf : s.WF) (hok : c.ok) (own : Owns s c.owned) :
    Good (xmlBinaryEnd binRow c) s (CbStep c s) := by
  unfold xmlBinaryEnd
  rcases hf : c.frames with _ | ⟨f, rest⟩
  · exact good_ret.2 (CbStep.refl wf hok own)
  · simp only
    split
    · exact good_ret.2 (CbStep.refl wf hok own)
    · simp only [bind_eq, pure_eq]
      have hfm : f ∈ c.frames := by simp [hf]
      refine Good.bind (deref_spec f.node.hdr s (own.2 _ (frame_mem_owned c hfm (by simp [Frame.owned, hdr_mem_owned])))) ?_
      intro _ s0 e0; have e0' := e0.symm; subst e0'
      cases hc : f.node.content with
      | none => exact good_ret.2 (CbStep.refl wf hok own)
      | some content =>
        simp only
        have hfo := hok.2.2 f hfm
        have hcok : content.ok := hfo.1 content hc
        have hP : c.owned.Perm ((setContent c f rest none).owned ++ content.owned) := by
          have := setContent_perm c f rest f.node.content
          rw [setContent_self c f rest hf, hc] at this
          simpa [ownedBufOpt] using this
        have hok0 : (setContent c f rest none).ok := setContent_ok c f rest hf hok none (fun x hx => by cases hx)
        have cX0 : Clean s s c.owned ((setContent c f rest none).owned ++ content.owned) := (Clean.id wf own).prod_perm hP
        show Good (Prog.bind (bufDecodeB64 content) _) s (CbStep c s)
        refine Good.bind (bufDecodeB64_spec content s wf cX0.owns.right hcok) ?_
        intro r1 s1 ⟨d1, k1, h1⟩
        obtain ⟨content1, ret⟩ := r1
        simp only at d1 k1 h1 ⊢
        have hh1 := d1.hits
        have cX1 : Clean s s1 c.owned ((setContent c f rest none).owned ++ content1.owned) := Clean.step_l _ wf cX0 d1
        -- the decoded text becomes a text node (or the code of the decoder is recorded)
        have hinner : Good (if (ret != OK) = true then Prog.ret ({ setContent c f rest none with error := ret } : TCtx)
            else (bufCstr content1).bind fun _ => (treeAddText (setContent c f rest none) content1.bytes).bind fun x =>
              if (!x.2) = true then Prog.ret { x.1 with error := EINTERNAL } else Prog.ret x.1) s1
            (fun c1 s2 => CbStep (setContent c f rest none) s1 c1 s2 ∧ (ret ≠ OK → c1.error ≠ OK)) := by
          by_cases hret : ret = OK
          · subst hret
            simp only [bne_self_eq_false, Bool.false_eq_true, if_false]
            refine Good.bind (bufCstr_spec content1 s1 (cX1.owns.right.2 _ (by simp [ABuf.owned]))) ?_
            intro _ s1' ⟨e1', _⟩; have e1'' := e1'.symm; subst e1''
            exact (addTextInternal_spec (setContent c f rest none) content1.bytes s1 d1.wf hok0 cX1.owns.left).mono
              fun c1 s2 h => ⟨h, fun h' => absurd rfl h'⟩
          · have hb : (ret != OK) = true := by simpa using hret
            simp only [hb, if_true]
            exact good_ret.2 ⟨⟨rfl, hok0, Clean.id d1.wf cX1.owns.left, fun h => absurd h (Nat.lt_irrefl _), fun _ => hret⟩, fun _ => hret⟩
        refine Good.bind hinner ?_
        intro c1 s2 ⟨⟨t2, ok2, cl2, e2, p2⟩, r2⟩
        have hh2 := cl2.hits
        have cX2 : Clean s s2 c.owned (c1.owned ++ content1.owned) := Clean.step_r _ wf cX1 cl2
        refine Good.bind (bufDestroy_spec (some content1) s2 cl2.wf (by simpa [ownedBufOpt] using cX2.owns.right)) ?_
        intro _ s3 ⟨d3, hd3, _⟩
        have d3' : Clean s2 s3 content1.owned [] := d3
        have cX3 : Clean s s3 c.owned c1.owned := by simpa using Clean.step_l c1.owned wf cX2 d3'
        refine good_ret.2 ⟨t2, ok2, cX3, fun hh => ?_, fun h => p2 h⟩
        by_cases hA : s.hits < s1.hits
        · exact r2 (h1 hA)
        · exact e2 (by omega)

/-- The cache of a binary element in `characters`: created or extended; the node keeps it. -/
theorem xmlBinaryChars_spec (c : TCtx) (f : Frame) (rest : List Frame) (hf : c.frames = f :: rest) (text : Bytes)
    (s : Ledger) (wf : s.WF) (hok : c.ok) (own : Owns s c.owned) :
    Good (xmlBinaryChars c f rest text) s (CbStep c s) := by
  unfold xmlBinaryChars
  simp only [bind_eq, pure_eq]
  have hfm : f ∈ c.frames := by simp [hf]
  refine Good.bind (deref_spec f.node.hdr s (own.2 _ (frame_mem_owned c hfm (by simp [Frame.owned, hdr_mem_owned])))) ?_
  intro _ s0 e0; have e0' := e0.symm; subst e0'
  have hP : c.owned.Perm ((setContent c f rest none).owned ++ ownedBufOpt f.node.content) := by
    have := setContent_perm c f rest f.node.content
    rwa [setContent_self c f rest hf] at this
  have cX0 : Clean s s c.owned ((setContent c f rest none).owned ++ ownedBufOpt f.node.content) := (Clean.id wf own).prod_perm hP
  cases hc : f.node.content with
  | none =>
    simp only [hc, ownedBufOpt, List.append_nil] at cX0 ⊢
    refine Good.bind (bufCreate_spec (some text) 1 s wf) ?_
    intro b s1 ⟨c1, h1, _, hk1⟩
    have hh1 := c1.hits
    cases b with
    | none =>
      simp only
      have c1' : Clean s s1 [] [] := by simpa [ownedBufOpt] using c1
      have cX1 : Clean s s1 c.owned c.owned := by simpa using Clean.frame_l c.owned wf c1' (by simpa using own)
      exact good_ret.2 ⟨rfl, hok, cX1, fun _ => enomem_ne', fun _ => enomem_ne'⟩
    | some b =>
      simp only
      have c1' : Clean s s1 [] b.owned := by simpa [ownedBufOpt] using c1
      have cX1 : Clean s s1 c.owned ((setContent c f rest none).owned ++ b.owned) := Clean.step_l _ wf (by simpa using cX0) c1'
      have hP1 := setContent_perm c f rest (some b)
      refine good_ret.2 ⟨rfl, setContent_ok c f rest hf hok (some b) (fun x hx => by cases hx; exact hk1 b rfl),
        cX1.prod_perm hP1.symm, fun hh => ?_, fun h => h⟩
      exfalso; have := h1 hh; simp at this
  | some b =>
    simp only [hc, ownedBufOpt] at cX0 ⊢
    have hbok : b.ok := (hok.2.2 f hfm).1 b hc
    refine Good.bind (bufAppendData_spec b (some text) s wf cX0.owns.right hbok) ?_
    intro r s1 ⟨_, _, c1, h1, k1⟩
    obtain ⟨b1, ok⟩ := r
    simp only at c1 h1 k1 ⊢
    have cX1 : Clean s s1 c.owned ((setContent c f rest none).owned ++ b1.owned) := Clean.step_l _ wf cX0 c1
    have hP1 := setContent_perm c f rest (some b1)
    have cX1' : Clean s s1 c.owned (setContent c f rest (some b1)).owned := cX1.prod_perm hP1.symm
    have hok1 : (setContent c f rest (some b1)).ok := setContent_ok c f rest hf hok (some b1) (fun x hx => by cases hx; exact k1 hbok)
    cases ok with
    | false =>
      simp only [Bool.not_false, if_true]
      exact good_ret.2 ⟨rfl, hok1, cX1', fun _ => enomem_ne', fun _ => enomem_ne'⟩
    | true =>
      simp only [Bool.not_true, Bool.false_eq_true, if_false]
      refine good_ret.2 ⟨rfl, hok1, cX1', fun hh => ?_, fun h => h⟩
      exfalso; have := h1 hh; simp at this

/-! ### The call-backs -/

theorem clbXmlStart_spec (c : TCtx) (langOk : Bool) (tag : XName) (attrs : List XAttrIn) (s : Ledger) (wf : s.WF) (hok : c.ok)
    (own : Owns s c.owned) : Good (clbXmlStart c langOk tag attrs) s (CbStep c s) := by
  unfold clbXmlStart
  by_cases herr : c.error = OK
  · have hb : (c.error != OK) = false := by simp [herr]
    simp only [hb, Bool.false_eq_true, if_false, bind_eq, pure_eq]
    split
    · exact good_ret.2 ⟨rfl, hok, Clean.id wf own, fun h => absurd h (Nat.lt_irrefl _), fun _ => exmllang_ne⟩
    · refine Good.bind (treeAddXmlEltWithAttrs_spec c tag attrs s wf hok own) ?_
      intro r s1 ⟨et, ee, ok2, c2, h2⟩
      obtain ⟨c2x, ok⟩ := r
      simp only at et ee ok2 c2 h2 ⊢
      cases ok with
      | false =>
        simp only [Bool.not_false, if_true]
        obtain ⟨dp, dok, dt, de, _⟩ := dropCurrent_spec c2x ok2
        exact good_ret.2 ⟨dt.trans et, dok, c2.prod_perm dp.symm, fun _ => enomem_ne', fun _ => enomem_ne'⟩
      | true =>
        simp only [Bool.not_true, Bool.false_eq_true, if_false]
        refine good_ret.2 ⟨et, ok2, c2, fun hh => ?_, fun h => absurd herr h⟩
        have := h2 hh; simp at this
  · have hb : (c.error != OK) = true := by simp [herr]
    simp only [hb, if_true, pure_eq]
    exact good_ret.2 (CbStep.refl wf hok own)

theorem clbXmlEnd_spec (binRow : Nat → Bool) (c : TCtx) (s : Ledger) (wf : s.WF) (hok : c.ok) (own : Owns s c.owned) :
    Good (clbXmlEnd binRow c) s (CbStep c s) := by
  unfold clbXmlEnd
  simp only [bind_eq]
  refine Good.bind (xmlBinaryEnd_spec binRow c s wf hok own) ?_
  intro c1 s1 h1
  exact (clbEndElement_spec c1 s1 h1.2.2.1.wf h1.2.1 h1.2.2.1.owns).mono fun c2 s2 h2 => CbStep.trans wf h1 h2

theorem clbXmlStartCdata_spec (c : TCtx) (s : Ledger) (wf : s.WF) (hok : c.ok) (own : Owns s c.owned) :
    Good (clbXmlStartCdata c) s (CbStep c s) := by
  unfold clbXmlStartCdata
  by_cases herr : c.error = OK
  · have hb : (c.error != OK) = false := by simp [herr]
    simp only [hb, Bool.false_eq_true, if_false, bind_eq, pure_eq]
    refine Good.bind (treeAddCdata_spec c s wf hok own) ?_
    intro r s1 ⟨et, ee, ok1, c1, h1⟩
    obtain ⟨c1x, ok⟩ := r
    simp only at et ee ok1 c1 h1 ⊢
    cases ok with
    | false =>
      simp only [Bool.not_false, if_true]
      obtain ⟨dp, dok, dt, de, _⟩ := dropCurrent_spec c1x ok1
      exact good_ret.2 ⟨dt.trans et, dok, c1.prod_perm dp.symm, fun _ => einternal_ne, fun _ => einternal_ne⟩
    | true =>
      simp only [Bool.not_true, Bool.false_eq_true, if_false]
      refine good_ret.2 ⟨et, ok1, c1, fun hh => ?_, fun h => absurd herr h⟩
      have := h1 hh; simp at this
  · have hb : (c.error != OK) = true := by simp [herr]
    simp only [hb, if_true, pure_eq]
    exact good_ret.2 (CbStep.refl wf hok own)

theorem clbXmlEndCdata_spec (c : TCtx) (s : Ledger) (wf : s.WF) (hok : c.ok) (own : Owns s c.owned) :
    Good (clbXmlEndCdata c) s (CbStep c s) := by
  unfold clbXmlEndCdata
  by_cases herr : c.error = OK
  · have hb : (c.error != OK) = false := by simp [herr]
    simp only [hb, Bool.false_eq_true, if_false, bind_eq, pure_eq]
    rcases hf : c.frames with _ | ⟨f, _ | ⟨g, rest⟩⟩
    · simp only
      have hp : ({ tree := c.tree, root := c.root, frames := [], error := EINTERNAL } : TCtx).owned.Perm c.owned := by
        simp [TCtx.owned, hf]
      have hok' : ({ tree := c.tree, root := c.root, frames := [], error := EINTERNAL } : TCtx).ok :=
        ⟨fun h => absurd rfl h, hok.2.1, fun f hf' => by cases hf'⟩
      exact good_ret.2 (CbStep.of_perm wf own hp rfl hok' (fun _ => einternal_ne))
    · simp only
      have hfm : f ∈ c.frames := by simp [hf]
      refine Good.bind (deref_spec f.node.hdr s (own.2 _ (frame_mem_owned c hfm (by simp [Frame.owned, hdr_mem_owned])))) ?_
      intro _ s0 e0; subst e0
      refine Good.bind (deref_spec c.tree s0 (own.2 _ (tree_mem_owned c))) ?_
      intro _ s0' e0'; have e0'' := e0'.symm; subst e0''
      exact good_ret.2 (CbStep.refl wf hok own)
    · simp only
      have hfm : f ∈ c.frames := by simp [hf]
      refine Good.bind (deref_spec f.node.hdr s (own.2 _ (frame_mem_owned c hfm (by simp [Frame.owned, hdr_mem_owned])))) ?_
      intro _ s0 e0; subst e0
      exact good_ret.2 (CbStep.of_perm wf own (popFrame_perm c hok) (popFrame_tree c) (popFrame_ok c hok)
        (fun h => by rw [popFrame_error]; exact h))
  · have hb : (c.error != OK) = true := by simp [herr]
    simp only [hb, if_true, pure_eq]
    exact good_ret.2 (CbStep.refl wf hok own)

theorem clbXmlChars_spec (binRow : Nat → Bool) (c : TCtx) (text : Bytes) (dt : DataType) (s : Ledger) (wf : s.WF) (hok : c.ok)
    (own : Owns s c.owned) : Good (clbXmlChars binRow c text dt) s (CbStep c s) := by
  unfold clbXmlChars
  by_cases herr : c.error = OK
  · have hb : (c.error != OK) = false := by simp [herr]
    simp only [hb, Bool.false_eq_true, if_false, bind_eq, pure_eq]
    generalize (if (dt == DataType.vobject && text == [0x0A]) = true then [0x0D, 0x0A] else text) = text'
    generalize (dt != DataType.normal && match c.frames with
      | f :: _ => f.kind != NKind.cdata && !(match f.kids with | k :: _ => k.kind == NKind.cdata | [] => false)
      | [] => false) = needCdata
    have hfirst : Good (if needCdata = true then treeAddCdata c else Prog.ret (c, true)) s (TreeStep c s) := by
      split
      · exact treeAddCdata_spec c s wf hok own
      · exact good_ret.2 ⟨rfl, rfl, hok, Clean.id wf own, fun h => absurd h (Nat.lt_irrefl _)⟩
    refine Good.bind hfirst ?_
    intro r s1 ⟨et, ee, ok1, c1, h1⟩
    obtain ⟨c1x, ok⟩ := r
    simp only at et ee ok1 c1 h1 ⊢
    have hh1 := c1.hits
    cases ok with
    | false =>
      simp only [Bool.not_false, if_true]
      obtain ⟨dp, dok, dt', de, _⟩ := dropCurrent_spec c1x ok1
      exact good_ret.2 ⟨dt'.trans et, dok, c1.prod_perm dp.symm, fun _ => einternal_ne, fun _ => einternal_ne⟩
    | true =>
      simp only [Bool.not_true, Bool.false_eq_true, if_false]
      have hno1 : ¬ s.hits < s1.hits := by intro hh; have := h1 hh; simp at this
      have step1 : CbStep c s c1x s1 := ⟨et, ok1, c1, fun hh => absurd hh hno1, fun h => absurd herr h⟩
      rcases hf : c1x.frames with _ | ⟨f, rest⟩
      · simp only
        exact (addTextInternal_spec c1x text' s1 c1.wf ok1 c1.owns).mono fun c2 s2 h2 => CbStep.trans wf step1 h2
      · simp only
        split
        · exact (xmlBinaryChars_spec c1x f rest hf text' s1 c1.wf ok1 c1.owns).mono fun c2 s2 h2 => CbStep.trans wf step1 h2
        · exact (addTextInternal_spec c1x text' s1 c1.wf ok1 c1.owns).mono fun c2 s2 h2 => CbStep.trans wf step1 h2
  · have hb : (c.error != OK) = true := by simp [herr]
    simp only [hb, if_true, pure_eq]
    exact good_ret.2 (CbStep.refl wf hok own)

theorem clbXmlEvent_spec (binRow : Nat → Bool) (c : TCtx) (e : XEvent) (s : Ledger) (wf : s.WF) (hok : c.ok) (own : Owns s c.owned) :
    Good (clbXmlEvent binRow c e) s (CbStep c s) := by
  cases e with
  | start langOk tag attrs => exact clbXmlStart_spec c langOk tag attrs s wf hok own
  | stop => exact clbXmlEnd_spec binRow c s wf hok own
  | startCdata => exact clbXmlStartCdata_spec c s wf hok own
  | endCdata => exact clbXmlEndCdata_spec c s wf hok own
  | chars text dt => exact clbXmlChars_spec binRow c text dt s wf hok own

/-- Any list of call-backs, by induction: whatever fails, the context keeps owning exactly its
    blocks, and a failed request leaves an error code. -/
theorem clbXmlEvents_spec (binRow : Nat → Bool) (events : List XEvent) (c : TCtx) (s : Ledger) (wf : s.WF) (hok : c.ok)
    (own : Owns s c.owned) : Good (clbXmlEvents binRow c events) s (CbStep c s) := by
  induction events generalizing c s with
  | nil => simp only [clbXmlEvents, pure_eq]; exact good_ret.2 (CbStep.refl wf hok own)
  | cons e rest ih =>
    unfold clbXmlEvents
    simp only [bind_eq]
    refine Good.bind (clbXmlEvent_spec binRow c e s wf hok own) ?_
    intro c1 s1 h1
    exact (ih c1 s1 h1.2.2.1.wf h1.2.1 h1.2.2.1.owns).mono fun c2 s2 h2 => CbStep.trans wf h1 h2

/-- `wbxml_tree_from_xml` around the events Expat delivers.  Whatever fails: no fault; the tree
    (with everything built so far) is destroyed and an error code returned, or the finished tree is
    returned and owns everything that was allocated. -/
theorem treeFromXml_spec (binRow : Nat → Bool) (events : List XEvent) (parseOk : Bool) (s : Ledger) (wf : s.WF) :
    Good (treeFromXml binRow events parseOk) s (fun r s' =>
      Clean s s' [] (ownedCtxOpt r.2) ∧ (r.1 ≠ OK → r.2 = none) ∧ (s.hits < s'.hits → r.1 ≠ OK) ∧
      (∀ c, r.2 = some c → c.ok ∧ c.error = OK)) := by
  unfold treeFromXml
  simp only [bind_eq, pure_eq]
  refine Good.bind (treeCreate_spec s wf) ?_
  intro c0 s1 ⟨c1, h1, hshape⟩
  have hh1 := c1.hits
  cases c0 with
  | none =>
    simp only
    exact good_ret.2 ⟨by simpa [ownedCtxOpt] using c1, fun _ => rfl, fun _ => enomem_ne', fun c h => by cases h⟩
  | some c0 =>
    simp only
    obtain ⟨t, hc0⟩ := hshape c0 rfl
    subst hc0
    have hno1 : ¬ s.hits < s1.hits := by intro hh; have := h1 hh; simp at this
    have c1' : Clean s s1 [] (⟨t, none, [], OK⟩ : TCtx).owned := by simpa [ownedCtxOpt] using c1
    have hok0 : (⟨t, none, [], OK⟩ : TCtx).ok := by unfold TCtx.ok; simp
    refine Good.bind (clbXmlEvents_spec binRow events ⟨t, none, [], OK⟩ s1 c1.wf hok0 c1'.owns) ?_
    intro c2 s2 ⟨t2, ok2, cl2, e2, _⟩
    have cX := Clean.trans_recycle wf c1' cl2
    have hh2 := cl2.hits
    have hdestroy : ∀ code : Nat, code ≠ OK →
        Good (Prog.bind (treeDestroy c2) (fun _ => Prog.ret (code, (none : Option TCtx)))) s2 (fun r s' =>
          Clean s s' [] (ownedCtxOpt r.2) ∧ (r.1 ≠ OK → r.2 = none) ∧ (s.hits < s'.hits → r.1 ≠ OK) ∧
          (∀ c, r.2 = some c → c.ok ∧ c.error = OK)) := by
      intro code hcode
      refine Good.bind (treeDestroy_spec c2 s2 cl2.wf cX.owns) ?_
      intro _ s3 ⟨d3, hd3, _⟩
      exact good_ret.2 ⟨by simpa [ownedCtxOpt] using Clean.trans_recycle wf cX d3, fun _ => rfl, fun _ => hcode, fun c h => by cases h⟩
    cases parseOk with
    | false =>
      simp only [Bool.not_false, if_true]
      exact hdestroy EXMLPARSE exmlparse_ne
    | true =>
      simp only [Bool.not_true, Bool.false_eq_true, if_false]
      by_cases herr : c2.error = OK
      · have hb : (c2.error != OK) = false := by simp [herr]
        simp only [hb, Bool.false_eq_true, if_false]
        refine good_ret.2 ⟨by simpa [ownedCtxOpt] using cX, fun h => absurd rfl h, fun hh => ?_, fun c h => by cases h; exact ⟨ok2, herr⟩⟩
        exfalso
        exact e2 (by omega) herr
      · have hb : (c2.error != OK) = true := by simp [herr]
        simp only [hb, if_true]
        exact hdestroy c2.error herr

end Wbxml.Model.Alloc
