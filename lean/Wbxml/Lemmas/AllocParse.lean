/-
  C16 — specifications of the hand-unwound parser functions in the ledger monad.
-/
import Wbxml.Model.AllocParse
import Wbxml.Lemmas.AllocCont
namespace Wbxml.Model.Alloc
open Wbxml
set_option linter.unusedSimpArgs false
set_option linter.unusedVariables false
set_option linter.unnecessarySimpa false

theorem ne_ok_iff (ret : Nat) : (ret != OK) = true ↔ ret ≠ OK := by simp

theorem parseAttrValue_spec (p : Piece) (s : Ledger) (wf : s.WF) :
    Good (parseAttrValue p) s (fun r s' =>
      Clean s s' [] (ownedBufOpt r.2) ∧ (r.1 ≠ OK → r.2 = none) ∧ (s.hits < s'.hits → r.1 ≠ OK)) := by
  cases p with
  | err c => simp only [parseAttrValue, pure_eq, good_ret, ownedBufOpt]; exact ⟨Clean.rfl wf, by simp, by simp⟩
  | sta bs =>
    simp only [parseAttrValue, bind_eq, pure_eq]
    refine Good.bind (bufStaCreate_spec bs s wf) ?_
    intro b s1 ⟨c1, h1, _⟩
    cases b with
    | none => simp only [good_ret]; exact ⟨c1, by simp, by simp [ENOMEM, OK]⟩
    | some b =>
      simp only [good_ret]
      exact ⟨c1, by simp, fun hh => by have := h1 hh; simp at this⟩
  | dyn bs =>
    simp only [parseAttrValue, bind_eq, pure_eq]
    refine Good.bind (bufCreate_spec (some bs) bs.length s wf) ?_
    intro b s1 ⟨c1, h1, _⟩
    cases b with
    | none => simp only [good_ret]; exact ⟨c1, by simp, by simp [ENOMEM, OK]⟩
    | some b =>
      simp only [good_ret]
      exact ⟨c1, by simp, fun hh => by have := h1 hh; simp at this⟩

theorem parseLiteralRef_spec (nm : Bytes) (s : Ledger) (wf : s.WF) :
    Good (parseLiteralRef nm) s (fun r s' =>
      Clean s s' [] (ownedBufOpt r.2) ∧ (r.1 ≠ OK → r.2 = none) ∧ (r.1 = OK → r.2.isSome) ∧ (s.hits < s'.hits → r.1 ≠ OK)) := by
  simp only [parseLiteralRef, bind_eq, pure_eq]
  refine Good.bind (bufStaCreate_spec nm s wf) ?_
  intro b s1 ⟨c1, h1, _⟩
  cases b with
  | none => simp only [good_ret]; exact ⟨c1, by simp, by simp [ENOMEM, OK], by simp [ENOMEM, OK]⟩
  | some b =>
    simp only [good_ret]
    exact ⟨c1, by simp, by simp, fun hh => by have := h1 hh; simp at this⟩

/-- `*_create_literal(get_cstr(ref))` + destroy of the reference: the common body of the literal
    cases of `parse_attr_start` and `parse_stag` (`f` builds the value returned from the name). -/
theorem literalName_spec {β : Type} (f : Option AName → β) (lit : ABuf) (s : Ledger) (wf : s.WF) (own : Owns s lit.owned) :
    Good (Prog.bind (bufCstr lit) (fun cstr => Prog.bind (nameCreateLiteral cstr) (fun name =>
            Prog.bind (bufDestroy (some lit)) (fun _ => Prog.ret (f name))))) s
      (fun r s' => ∃ name, r = f name ∧ Clean s s' lit.owned (ownedNameOpt name) ∧ (s.hits < s'.hits → name = none)) := by
  have hl : lit.hdr ∈ s.live := own.2 _ (by simp [ABuf.owned])
  refine Good.bind (bufCstr_spec lit s hl) ?_
  intro cstr s0 ⟨e0, _⟩; subst e0
  refine Good.bind (nameCreateLiteral_spec cstr s0 wf) ?_
  intro name s1 ⟨c1, h1⟩
  have own1 : Owns s1 lit.owned := c1.keeps own (by simp)
  refine Good.bind (bufDestroy_spec (some lit) s1 c1.wf (by simpa [ownedBufOpt] using own1)) ?_
  intro _ s2 ⟨c2, h2, n2⟩
  simp only [good_ret]
  expose c1; expose c2
  have hfr := c1.fresh_not_live wf
  refine ⟨name, rfl, ⟨?_, ?_, c1.nodup, by simp_all, by omega, by omega, c2.wf⟩, ?_⟩
  · intro i; have := own.2 i; have := hfr i; simp only [ownedBufOpt] at *; grind
  · intro i hi; have := c1.fresh i hi; simp only [ownedBufOpt] at *; grind
  · intro hh; exact h1 (by omega)

/-- A shape is well formed when its error outcomes carry a real error code. -/
def AttrStart.wf : AttrStart → Prop
  | .err c => c ≠ OK
  | _ => True

def TagShape.wf : TagShape → Prop
  | .err c => c ≠ OK
  | _ => True

theorem parseAttrStart_spec (st : AttrStart) (hst : st.wf) (s : Ledger) (wf : s.WF) :
    Good (parseAttrStart st) s (fun r s' =>
      Clean s s' [] (ownedNameOpt r.2.1) ∧ (r.1 ≠ OK → r.2.1 = none) ∧ (r.1 = OK → r.2.1.isSome) ∧
      (s.hits < s'.hits → r.1 ≠ OK)) := by
  cases st with
  | err c =>
    simp only [parseAttrStart, pure_eq, good_ret, ownedNameOpt]
    exact ⟨Clean.rfl wf, by simp, fun h => (hst h).elim, by simp⟩
  | unknown =>
    simp only [parseAttrStart, bind_eq, pure_eq]
    refine Good.bind (nameCreateLiteral_spec (some unknownName) s wf) ?_
    intro name s1 ⟨c1, h1⟩
    cases name with
    | none => simp only [good_ret]; exact ⟨c1, by simp, by simp [ENOMEM, OK], by simp [ENOMEM, OK]⟩
    | some n => simp only [good_ret]; exact ⟨c1, by simp, by simp, fun hh => by have := h1 hh; simp at this⟩
  | token row pfx =>
    simp only [parseAttrStart, bind_eq, pure_eq]
    refine Good.bind (nameCreateToken_spec row s wf) ?_
    intro name s1 ⟨c1, h1⟩
    cases name with
    | none => simp only [good_ret]; exact ⟨c1, by simp, by simp [ENOMEM, OK], by simp [ENOMEM, OK]⟩
    | some n => simp only [good_ret]; exact ⟨c1, by simp, by simp, fun hh => by have := h1 hh; simp at this⟩
  | literal nm =>
    simp only [parseAttrStart, bind_eq, pure_eq]
    refine Good.bind (parseLiteralRef_spec nm s wf) ?_
    intro r s1 ⟨c1, e1, k1, h1⟩
    obtain ⟨ret, lit⟩ := r
    simp only at c1 e1 k1 h1 ⊢
    by_cases hret : ret = OK
    · subst hret
      simp only [bne_self_eq_false, Bool.false_eq_true, if_false]
      cases lit with
      | none => simp at k1
      | some lit =>
        simp only
        have own1 : Owns s1 lit.owned := by simpa [ownedBufOpt] using c1.owns
        refine (literalName_spec (fun name => ((if name.isNone then ENOMEM else OK), name, (none : Option Bytes))) lit s1 c1.wf own1).mono ?_
        intro r s2 ⟨name, er, c2, h2⟩
        subst er
        simp only
        expose c1; expose c2
        have hh1 : ¬ s.hits < s1.hits := fun hh => h1 hh rfl
        refine ⟨⟨?_, ?_, c2.nodup, by simp_all, by omega, by omega, c2.wf⟩, ?_, ?_, ?_⟩
        · intro i; have := wf i; simp only [ownedBufOpt] at *; grind
        · intro i hi; simp only [ownedBufOpt] at *; grind
        · intro hne; cases name <;> simp_all [ENOMEM, OK]
        · intro he; cases name <;> simp_all [ENOMEM, OK]
        · intro hh; have := h2 (by omega); subst this; simp [ENOMEM, OK]
    · have : (ret != OK) = true := by simpa using hret
      simp only [this, if_true, good_ret, ownedNameOpt]
      have hl := e1 hret; subst hl
      exact ⟨by simpa [ownedBufOpt] using c1, by simp, fun h => (hret h).elim, fun hh => hret⟩

theorem attrValueLoop_spec (name : Option AName) (pieces : List Piece) (value : ABuf) (s : Ledger) (wf : s.WF)
    (own : Owns s (ownedNameOpt name ++ value.owned)) (hok : value.ok) :
    Good (attrValueLoop name value pieces) s (fun r s' =>
      Clean s s' (ownedNameOpt name ++ value.owned)
        (match r.2 with | none => [] | some v => ownedNameOpt name ++ v.owned) ∧
      (r.1 ≠ OK → r.2 = none) ∧ (r.1 = OK → r.2.isSome) ∧ (∀ v, r.2 = some v → v.ok) ∧
      (s.hits < s'.hits → r.1 ≠ OK)) := by
  induction pieces generalizing value s with
  | nil =>
    simp only [attrValueLoop, pure_eq, good_ret]
    exact ⟨Clean.id wf own, by simp, by simp, by simpa using hok, by simp⟩
  | cons p rest ih =>
    obtain ⟨ownN, ownV, disj⟩ := Owns.append_iff.1 own
    unfold attrValueLoop
    simp only [bind_eq, pure_eq]
    refine Good.bind (parseAttrValue_spec p s wf) ?_
    intro r s1 ⟨c1, e1, h1⟩
    obtain ⟨ret, tmp⟩ := r
    simp only at c1 e1 h1 ⊢
    have ownN1 : Owns s1 (ownedNameOpt name) := c1.keeps ownN (by simp)
    have ownV1 : Owns s1 value.owned := c1.keeps ownV (by simp)
    have hfr1 := c1.fresh_not_live wf
    by_cases hret : ret = OK
    · subst hret
      simp only [bne_self_eq_false, Bool.false_eq_true, if_false]
      have htmp : ∀ x, tmp = some x → x.hdr ∈ s1.live := by
        intro x hx; subst hx
        exact (c1.live _).2 (Or.inr (by simp [ownedBufOpt, ABuf.owned]))
      refine Good.bind (bufAppend_spec value tmp s1 c1.wf ownV1 hok htmp) ?_
      intro r2 s2 hr2
      obtain ⟨value', ok⟩ := r2
      obtain ⟨eh, es, c2, h2, k2⟩ := hr2
      simp only at eh es c2 h2 k2 ⊢
      -- what is owned after the append: name, the (possibly moved) value, tmp
      have ownT1 : Owns s1 (ownedBufOpt tmp) := c1.owns
      have dTV : ∀ i ∈ ownedBufOpt tmp, i ∉ value.owned := fun i hi hm => hfr1 i hi (ownV.2 i hm)
      have dTN : ∀ i ∈ ownedBufOpt tmp, i ∉ ownedNameOpt name := fun i hi hm => hfr1 i hi (ownN.2 i hm)
      have ownT2 : Owns s2 (ownedBufOpt tmp) := c2.keeps ownT1 dTV
      have ownN2 : Owns s2 (ownedNameOpt name) := c2.keeps ownN1 (fun i hi hm => disj i hi hm)
      have ownV2 : Owns s2 value'.owned := c2.owns
      have dNV2 : ∀ i ∈ ownedNameOpt name, i ∉ value'.owned := by
        intro i hi hm
        rcases c2.fresh i hm with h | h
        · exact disj i hi h
        · have := c1.wf i (ownN1.2 i hi); omega
      have dTV2 : ∀ i ∈ ownedBufOpt tmp, i ∉ value'.owned := by
        intro i hi hm
        rcases c2.fresh i hm with h | h
        · exact dTV i hi h
        · have := c1.wf i (ownT1.2 i hi); omega
      cases ok with
      | false =>
        simp only [Bool.not_false, if_true]
        refine Good.bind (nameDestroy_spec name s2 c2.wf ownN2) ?_
        intro _ s3 ⟨c3, h3, n3⟩
        have ownV3 : Owns s3 value'.owned := c3.keeps ownV2 (fun i hi hm => dNV2 i hm hi)
        refine Good.bind (bufDestroy_spec (some value') s3 c3.wf (by simpa [ownedBufOpt] using ownV3)) ?_
        intro _ s4 ⟨c4, h4, n4⟩
        have ownT4 : Owns s4 (ownedBufOpt tmp) := by
          refine c4.keeps (c3.keeps ownT2 (fun i hi hm => dTN i hi hm)) ?_
          intro i hi hm; exact dTV2 i hi (by simpa [ownedBufOpt] using hm)
        refine Good.bind (bufDestroy_spec tmp s4 c4.wf ownT4) ?_
        intro _ s5 ⟨c5, h5, n5⟩
        simp only [good_ret]
        have e5 : ownedBufOpt (some value') = value'.owned := rfl
        rw [e5] at c4
        refine ⟨⟨?_, by simp, by simp, ?_, ?_, ?_, c5.wf⟩, by simp, by simp [ENOMEM, OK], by simp, by simp [ENOMEM, OK]⟩
        · intro i
          rw [c5.live, c4.live, c3.live, c2.live, c1.live]
          have a1 := hfr1 i; have a2 := ownV.2 i; have a3 := ownN.2 i; have a4 := disj i; have a5 := dTV i; have a6 := dTN i
          have a7 := dNV2 i; have a8 := dTV2 i; have a9 := c2.fresh i; have a10 := wf i; have a11 := c1.next
          simp only [List.mem_append, List.not_mem_nil, not_false_eq_true, and_true, or_false]
          generalize ownedBufOpt tmp = T at *
          clear ih c1 c2 c3 c4 c5 ownT1 ownT2 ownT4 ownN1 ownN2 ownV1 ownV2 ownV3 hfr1 dTV dTN dNV2 dTV2 own ownN ownV disj htmp
          grind
        · rw [c5.sched, c4.sched, c3.sched, c2.sched, c1.sched]
        · have := c1.next; have := c2.next; have := c3.next; have := c4.next; have := c5.next; omega
        · have := c1.hits; have := c2.hits; have := c3.hits; have := c4.hits; have := c5.hits; omega
      | true =>
        simp only [Bool.not_true, Bool.false_eq_true, if_false]
        have ownT2' : Owns s2 (ownedBufOpt tmp) := ownT2
        refine Good.bind (bufDestroy_spec tmp s2 c2.wf ownT2) ?_
        intro _ s3 ⟨c3, h3, n3⟩
        have own3 : Owns s3 (ownedNameOpt name ++ value'.owned) := by
          refine Owns.append_iff.2 ⟨c3.keeps ownN2 (fun i hi hm => dTN i hm hi), c3.keeps ownV2 (fun i hi hm => dTV2 i hm hi), dNV2⟩
        have hok' : value'.ok := k2 hok
        refine (ih value' s3 c3.wf own3 hok').mono ?_
        intro r s4 ⟨c4, e4, k4, o4, h4⟩
        have hn1 := c1.next; have hn2 := c2.next; have hn3 := c3.next; have hn4 := c4.next
        have hh1' := c1.hits; have hh2 := c2.hits; have hh3 := c3.hits; have hh4 := c4.hits
        refine ⟨⟨?_, ?_, c4.nodup, ?_, by omega, by omega, c4.wf⟩, e4, k4, o4, ?_⟩
        · intro i
          rw [c4.live, c3.live, c2.live, c1.live]
          have a1 := hfr1 i; have a2 := ownV.2 i; have a3 := ownN.2 i; have a4 := disj i; have a5 := dTV i; have a6 := dTN i
          have a7 := dNV2 i; have a8 := dTV2 i; have a9 := c2.fresh i; have a10 := wf i
          simp only [List.mem_append, List.not_mem_nil, not_false_eq_true, and_true, or_false]
          generalize ownedBufOpt tmp = T at *
          generalize (match r.2 with | none => [] | some v => ownedNameOpt name ++ v.owned) = R at *
          clear ih c1 c2 c3 c4 ownT1 ownT2 ownT2' ownN1 ownN2 ownV1 ownV2 hfr1 dTV dTN dNV2 dTV2 own ownN ownV disj htmp own3 e4 k4 o4 h4
          grind
        · intro i hi
          have a1 := c4.fresh i hi
          have a9 := c2.fresh i
          simp only [List.mem_append] at *
          generalize ownedBufOpt tmp = T at *
          generalize (match r.2 with | none => [] | some v => ownedNameOpt name ++ v.owned) = R at *
          clear ih c1 c2 c3 c4 ownT1 ownT2 ownT2' ownN1 ownN2 ownV1 ownV2 hfr1 dTV dTN dNV2 dTV2 own ownN ownV disj htmp own3 e4 k4 o4 h4
          grind
        · rw [c4.sched, c3.sched, c2.sched, c1.sched]
        · intro hh
          by_cases hA : s3.hits < s4.hits
          · exact h4 hA
          · exfalso
            have a1 := h1; have a2 := h2
            simp at a1 a2
            omega
    · have hb : (ret != OK) = true := by simpa using hret
      simp only [hb, if_true]
      have htn := e1 hret; subst htn
      refine Good.bind (nameDestroy_spec name s1 c1.wf ownN1) ?_
      intro _ s2 ⟨c2, h2, n2⟩
      have ownV2 : Owns s2 value.owned := c2.keeps ownV1 (fun i hi hm => disj i hm hi)
      refine Good.bind (bufDestroy_spec (some value) s2 c2.wf (by simpa [ownedBufOpt] using ownV2)) ?_
      intro _ s3 ⟨c3, h3, n3⟩
      simp only [good_ret]
      expose c1; expose c2; expose c3
      refine ⟨⟨?_, by simp, by simp, by simp_all, by omega, by omega, c3.wf⟩, by simp, fun h => (hret h).elim, by simp, fun _ => hret⟩
      intro i
      simp only [ownedBufOpt, List.mem_append] at *
      grind

theorem parseAttribute_spec (a : AttrShape) (hst : a.start.wf) (s : Ledger) (wf : s.WF) :
    Good (parseAttribute a) s (fun r s' =>
      Clean s s' [] (ownedAttrOpt r.2) ∧ (r.1 ≠ OK → r.2 = none) ∧ (r.1 = OK → r.2.isSome) ∧
      (s.hits < s'.hits → r.1 ≠ OK)) := by
  unfold parseAttribute
  simp only [bind_eq, pure_eq]
  refine Good.bind (parseAttrStart_spec a.start hst s wf) ?_
  intro r s1 ⟨c1, e1, k1, h1⟩
  obtain ⟨ret, name, start⟩ := r
  simp only at c1 e1 k1 h1 ⊢
  by_cases hret : ret = OK
  · subst hret
    simp only [bne_self_eq_false, Bool.false_eq_true, if_false]
    have hh1 : ¬ s.hits < s1.hits := fun hh => h1 hh rfl
    have ownN1 : Owns s1 (ownedNameOpt name) := c1.owns
    have hfN : ∀ i ∈ ownedNameOpt name, s.next < i ∧ i ≤ s1.next := by
      intro i hi; have := c1.fresh i hi; simpa using this
    refine Good.bind (bufCreate_spec start ATTR_BLOCK s1 c1.wf) ?_
    intro value s2 ⟨c2, h2, _, ok2⟩
    have ownN2 : Owns s2 (ownedNameOpt name) := c2.keeps ownN1 (by simp)
    cases value with
    | none =>
      simp only
      refine Good.bind (nameDestroy_spec name s2 c2.wf ownN2) ?_
      intro _ s3 ⟨c3, h3, n3⟩
      simp only [good_ret, ownedAttrOpt]
      have hn1 := c1.next; have hn2 := c2.next; have hn3 := c3.next
      have hh1' := c1.hits; have hh2 := c2.hits; have hh3 := c3.hits
      refine ⟨⟨?_, by simp, by simp, by rw [c3.sched, c2.sched, c1.sched], by omega, by omega, c3.wf⟩, by simp, by simp [ENOMEM, OK], by simp [ENOMEM, OK]⟩
      intro i
      rw [c3.live, c2.live, c1.live]
      have a1 := hfN i; have a2 := wf i
      simp only [ownedBufOpt, List.not_mem_nil, not_false_eq_true, and_true, or_false]
      grind
    | some value =>
      simp only
      have hvok : value.ok := ok2 value rfl
      have hfV : ∀ i ∈ value.owned, s1.next < i ∧ i ≤ s2.next := by
        intro i hi; have := c2.fresh i (by simpa [ownedBufOpt] using hi); simpa using this
      have ownNV2 : Owns s2 (ownedNameOpt name ++ value.owned) := by
        refine Owns.append_iff.2 ⟨ownN2, by simpa [ownedBufOpt] using c2.owns, ?_⟩
        intro i hi hm; have := hfN i hi; have := hfV i hm; omega
      refine Good.bind (attrValueLoop_spec name a.pieces value s2 c2.wf ownNV2 hvok) ?_
      intro r3 s3 ⟨c3, e3, k3, o3, h3⟩
      obtain ⟨ret3, v3⟩ := r3
      simp only at c3 e3 k3 o3 h3 ⊢
      have hn1 := c1.next; have hn2 := c2.next; have hn3 := c3.next
      have hh1' := c1.hits; have hh2 := c2.hits; have hh3 := c3.hits
      cases v3 with
      | none =>
        simp only [good_ret, ownedAttrOpt]
        have hne : ret3 ≠ OK := by intro h; have := k3 h; simp at this
        refine ⟨⟨?_, by simp, by simp, by rw [c3.sched, c2.sched, c1.sched], by omega, by omega, c3.wf⟩, by simp, fun h => (hne h).elim, fun _ => hne⟩
        intro i
        rw [c3.live, c2.live, c1.live]
        have a1 := hfN i; have a2 := wf i; have a3 := hfV i
        simp only [ownedBufOpt, List.mem_append, List.not_mem_nil, not_false_eq_true, and_true, or_false]
        grind
      | some value3 =>
        simp only
        have hr3 : ret3 = OK := by
          by_cases h : ret3 = OK; exact h; have := e3 h; simp at this
        subst hr3
        have hv3ok : value3.ok := o3 value3 rfl
        have ownNV3 : Owns s3 (ownedNameOpt name ++ value3.owned) := c3.owns
        obtain ⟨ownN3, ownV3, dNV3⟩ := Owns.append_iff.1 ownNV3
        -- ids of the current value buffer are bounded by s3.next, and above s.next
        have hfV3 : ∀ i ∈ value3.owned, s.next < i ∧ i ≤ s3.next := by
          intro i hi
          rcases c3.fresh i (List.mem_append_right _ hi) with h | h
          · rcases List.mem_append.1 h with h | h
            · have := hfN i h; omega
            · have := hfV i h; omega
          · omega
        obtain ⟨n, hn⟩ : ∃ n, name = some n := by
          cases name with
          | none => simp at k1
          | some n => exact ⟨n, rfl⟩
        subst hn
        have hnl3 : n.hdr ∈ s3.live := ownN3.2 _ (by simp [ownedNameOpt, AName.owned])
        -- the optional dereference of the name and the optional terminator
        have hderef : Good (derefWhen (decide (value3.len > 0)) (Option.map (fun x => x.hdr) (some n))) s3 (fun _ s' => s' = s3) := by
          unfold derefWhen
          by_cases hl : value3.len > 0
          · simp only [hl, decide_true, if_true, Option.map_some]; exact deref_spec n.hdr s3 hnl3
          · simp only [hl, decide_false, Bool.false_eq_true, if_false, pure_eq, good_ret]
        refine Good.bind hderef ?_
        intro _ s3' e3'; have e3'' := e3'.symm; subst e3''
        have hstep : Good (if value3.len > 0 then bufAppendChar value3 0 else Prog.ret (value3, true)) s3 (BufStep value3 s3) := by
          by_cases hl : value3.len > 0
          · simp only [hl, if_true]
            exact bufAppendChar_spec value3 0 s3 c3.wf ownV3 hv3ok
          · simp only [hl, if_false, good_ret]
            exact BufStep.same c3.wf ownV3 true
        refine Good.bind hstep ?_
        intro r4 s4 hr4
        obtain ⟨value4, ok4⟩ := r4
        obtain ⟨eh4, es4, c4, h4, k4⟩ := hr4
        simp only at eh4 es4 c4 h4 k4 ⊢
        have hn4 := c4.next; have hh4 := c4.hits
        have ownN4 : Owns s4 (ownedNameOpt (some n)) := c4.keeps ownN3 dNV3
        have ownV4 : Owns s4 value4.owned := c4.owns
        have hfV4 : ∀ i ∈ value4.owned, s.next < i ∧ i ≤ s4.next := by
          intro i hi
          rcases c4.fresh i hi with h | h
          · have := hfV3 i h; omega
          · omega
        have dNV4 : ∀ i ∈ ownedNameOpt (some n), i ∉ value4.owned := by
          intro i hi hm
          rcases c4.fresh i hm with h | h
          · exact dNV3 i hi h
          · have := c3.wf i (ownN3.2 i hi); omega
        -- clean-up shared by the two failure exits
        have hfail : ∀ s5, s5 = s4 → Good (Prog.bind (nameDestroy (some n)) (fun _ => Prog.bind (bufDestroy (some value4))
              (fun _ => Prog.ret ((ENOMEM, none) : Nat × Option AAttr)))) s5 (fun r s' =>
              (∀ i, i ∈ s'.live ↔ i ∈ s4.live ∧ i ∉ ownedNameOpt (some n) ∧ i ∉ value4.owned) ∧ s'.sched = s4.sched ∧
              s'.next = s4.next ∧ s'.hits = s4.hits ∧ s'.WF ∧ r = (ENOMEM, none)) := by
          intro s5 e5; subst e5
          refine Good.bind (nameDestroy_spec (some n) s5 c4.wf ownN4) ?_
          intro _ s6 ⟨c6, h6, n6⟩
          have ownV6 : Owns s6 value4.owned := c6.keeps ownV4 (fun i hi hm => dNV4 i hm hi)
          refine Good.bind (bufDestroy_spec (some value4) s6 c6.wf (by simpa [ownedBufOpt] using ownV6)) ?_
          intro _ s7 ⟨c7, h7, n7⟩
          simp only [good_ret]
          refine ⟨?_, by rw [c7.sched, c6.sched], by omega, by omega, c7.wf, by simp⟩
          intro i
          rw [c7.live, c6.live]
          simp only [ownedBufOpt, List.not_mem_nil, or_false]
          grind
        cases ok4 with
        | false =>
          simp only [Bool.not_false, if_true]
          refine (hfail s4 rfl).mono ?_
          intro r s5 ⟨l5, sc5, n5, hh5, wf5, er⟩
          subst er
          simp only [ownedAttrOpt]
          refine ⟨⟨?_, by simp, by simp, by rw [sc5, c4.sched, c3.sched, c2.sched, c1.sched], by omega, by omega, wf5⟩, by simp, by simp [ENOMEM, OK], by simp [ENOMEM, OK]⟩
          intro i
          rw [l5, c4.live, c3.live, c2.live, c1.live]
          have a1 := hfN i; have a2 := wf i; have a3 := hfV i; have a4 := hfV3 i; have a5 := hfV4 i
          simp only [ownedBufOpt, List.mem_append, List.not_mem_nil, not_false_eq_true, and_true, or_false] at *
          clear hfail hstep hderef c1 c2 c3 c4 ownNV2 ownNV3 ownN1 ownN2 ownN3 ownN4 ownV3 ownV4 hfN hfV hfV3 hfV4 dNV3 dNV4
          grind
        | true =>
          simp only [Bool.not_true, Bool.false_eq_true, if_false]
          refine Good.bind (attrCreate_spec s4 c4.wf) ?_
          intro attr s5 ⟨c5, h5, e5⟩
          have hn5 := c5.next; have hh5 := c5.hits
          cases attr with
          | none =>
            simp only
            have hf' : Good (Prog.bind (nameDestroy (some n)) (fun _ => Prog.bind (bufDestroy (some value4))
                (fun _ => Prog.ret ((ENOMEM, none) : Nat × Option AAttr)))) s5 (fun r s' =>
                  Clean s s' [] (ownedAttrOpt r.2) ∧ (r.1 ≠ OK → r.2 = none) ∧ (r.1 = OK → r.2.isSome) ∧
                  (s.hits < s'.hits → r.1 ≠ OK)) := by
              have e54 : ∀ i, i ∈ s5.live ↔ i ∈ s4.live := by
                intro i; rw [c5.live]; simp [ownedAttrOpt]
              have ownN5 : Owns s5 (ownedNameOpt (some n)) := c5.keeps ownN4 (by simp)
              have ownV5 : Owns s5 value4.owned := c5.keeps ownV4 (by simp)
              refine Good.bind (nameDestroy_spec (some n) s5 c5.wf ownN5) ?_
              intro _ s6 ⟨c6, h6, n6⟩
              have ownV6 : Owns s6 value4.owned := c6.keeps ownV5 (fun i hi hm => dNV4 i hm hi)
              refine Good.bind (bufDestroy_spec (some value4) s6 c6.wf (by simpa [ownedBufOpt] using ownV6)) ?_
              intro _ s7 ⟨c7, h7, n7⟩
              simp only [good_ret, ownedAttrOpt]
              refine ⟨⟨?_, by simp [ownedAttrOpt], by simp [ownedAttrOpt], by rw [c7.sched, c6.sched, c5.sched, c4.sched, c3.sched, c2.sched, c1.sched], by omega, by omega, c7.wf⟩,
                by simp, by simp [ENOMEM, OK], by simp [ENOMEM, OK]⟩
              intro i
              rw [c7.live, c6.live, c5.live, c4.live, c3.live, c2.live, c1.live]
              have a1 := hfN i; have a2 := wf i; have a3 := hfV i; have a4 := hfV3 i; have a5 := hfV4 i
              simp only [ownedBufOpt, ownedAttrOpt, List.mem_append, List.not_mem_nil, not_false_eq_true, and_true, or_false] at *
              clear hfail hstep hderef c1 c2 c3 c4 c5 c6 c7 ownNV2 ownNV3 ownN1 ownN2 ownN3 ownN4 ownN5 ownV3 ownV4 ownV5 ownV6 hfN hfV hfV3 hfV4 dNV3 dNV4 e54
              grind
            exact hf'
          | some attr =>
            simp only [good_ret, ownedAttrOpt, AAttr.owned]
            have hfA : s4.next < attr.hdr ∧ attr.hdr ≤ s5.next := by
              have := c5.fresh attr.hdr (by simp [ownedAttrOpt, AAttr.owned]); simpa using this
            have ⟨en, ev⟩ := e5 attr rfl
            refine ⟨⟨?_, ?_, ?_, by rw [c5.sched, c4.sched, c3.sched, c2.sched, c1.sched], by omega, by omega, c5.wf⟩, by simp, by simp, ?_⟩
            · intro i
              rw [c5.live, c4.live, c3.live, c2.live, c1.live]
              have a1 := hfN i; have a2 := wf i; have a3 := hfV i; have a4 := hfV3 i; have a5 := hfV4 i
              have a6 := dNV4 i; have a7 := dNV3 i
              simp only [ownedBufOpt, ownedAttrOpt, AAttr.owned, en, ev, ownedNameOpt, List.mem_append, List.mem_cons, List.not_mem_nil,
                not_false_eq_true, and_true, or_false, List.append_nil] at *
              clear hfail hstep hderef c1 c2 c3 c4 c5 ownNV2 ownNV3 ownN1 ownN2 ownN3 ownN4 ownV3 ownV4 hfN hfV hfV3 hfV4 dNV3 dNV4
              grind
            · intro i hi
              refine Or.inr ?_
              simp only [List.mem_cons, List.mem_append, ownedBufOpt] at hi
              rcases hi with rfl | hi | hi
              · omega
              · have := hfN i hi; omega
              · have := hfV4 i hi; omega
            · simp only [ownedBufOpt]
              refine List.nodup_cons.2 ⟨?_, (Owns.append_iff.2 ⟨ownN4, ownV4, dNV4⟩).1⟩
              intro hm
              rcases List.mem_append.1 hm with hm | hm
              · have := c4.wf _ (ownN4.2 _ hm); omega
              · have := c4.wf _ (ownV4.2 _ hm); omega
            · intro hh
              exfalso
              have b2 := h2; have b3 := h3; have b4 := h4; have b5 := h5
              simp at b2 b3 b4 b5
              omega
  · have hb : (ret != OK) = true := by simpa using hret
    simp only [hb, if_true, good_ret, ownedAttrOpt]
    have := e1 hret; subst this
    exact ⟨by simpa [ownedNameOpt] using c1, by simp, fun h => (hret h).elim, fun _ => hret⟩

theorem forM_destroy_spec {ι : Type} (oi : ι → List Nat) (d : ι → Prog Unit) (hd : Destroys oi d)
    (xs : List ι) (s : Ledger) (wf : s.WF) (own : Owns s (xs.flatMap oi)) :
    Good (forM_ xs d) s (fun _ s' => Clean s s' (xs.flatMap oi) [] ∧ s'.hits = s.hits ∧ s'.next = s.next) := by
  induction xs generalizing s with
  | nil => simp only [forM_, pure_eq, good_ret, List.flatMap_nil]; exact ⟨Clean.rfl wf, by simp, by simp⟩
  | cons x rest ih =>
    simp only [List.flatMap_cons] at own ⊢
    obtain ⟨ownX, ownR, disj⟩ := Owns.append_iff.1 own
    unfold forM_
    simp only [bind_eq]
    refine Good.bind (hd x s wf ownX) ?_
    intro _ s1 ⟨c1, h1, n1⟩
    have ownR1 : Owns s1 (rest.flatMap oi) := c1.keeps ownR (fun i hi hm => disj i hm hi)
    refine (ih s1 c1.wf ownR1).mono ?_
    intro _ s2 ⟨c2, h2, n2⟩
    refine ⟨⟨?_, by simp, by simp, by rw [c2.sched, c1.sched], by omega, by omega, c2.wf⟩, by omega, by omega⟩
    intro i
    rw [c2.live, c1.live]
    simp only [List.mem_append, List.not_mem_nil, or_false]
    grind

theorem freeAttrsTable_spec (tbl : Ptr) (entries : List AAttr) (s : Ledger) (wf : s.WF)
    (own : Owns s (tbl.toList ++ entries.flatMap AAttr.owned)) (hnone : tbl = none → entries = []) :
    Good (freeAttrsTable tbl entries) s (fun _ s' =>
      Clean s s' (tbl.toList ++ entries.flatMap AAttr.owned) [] ∧ s'.hits = s.hits ∧ s'.next = s.next) := by
  cases tbl with
  | none =>
    have := hnone rfl; subst this
    simp only [freeAttrsTable, pure_eq, good_ret, Option.toList, List.flatMap_nil, List.append_nil]
    exact ⟨Clean.rfl wf, by simp, by simp⟩
  | some t =>
    simp only [Option.toList, List.singleton_append] at own ⊢
    obtain ⟨hl, hn, ownF⟩ := Owns.cons_iff.1 own
    unfold freeAttrsTable
    simp only [bind_eq]
    refine Good.bind (deref_spec t s hl) ?_
    intro _ s0 e0; subst e0
    refine Good.bind (forM_destroy_spec AAttr.owned _ attr_destroys entries s0 wf ownF) ?_
    intro _ s1 ⟨c1, h1, n1⟩
    have hl1 : t ∈ s1.live := (c1.live t).2 (Or.inl ⟨hl, hn⟩)
    refine (free_spec (some t) s1 c1.wf (by intro a ha; cases ha; exact hl1)).mono ?_
    intro _ s2 ⟨c2, h2, n2⟩
    refine ⟨⟨?_, by simp, by simp, by rw [c2.sched, c1.sched], by omega, by omega, c2.wf⟩, by omega, by omega⟩
    intro i
    rw [c2.live, c1.live]
    simp only [Option.toList, List.mem_cons, List.not_mem_nil, or_false]
    grind

theorem attrTableLoop_spec (element : Option AName) (attrs : List AttrShape) (hshape : ∀ a ∈ attrs, a.start.wf)
    (tbl : Ptr) (entries : List AAttr) (s : Ledger) (wf : s.WF)
    (own : Owns s (ownedNameOpt element ++ (tbl.toList ++ entries.flatMap AAttr.owned)))
    (hnone : tbl = none → entries = []) :
    Good (attrTableLoop element tbl entries attrs) s (fun r s' =>
      Clean s s' (ownedNameOpt element ++ (tbl.toList ++ entries.flatMap AAttr.owned))
        (if r.1 = OK then ownedNameOpt element ++ (r.2.1.toList ++ r.2.2.flatMap AAttr.owned) else []) ∧
      (r.2.1 = none → r.2.2 = []) ∧ (s.hits < s'.hits → r.1 ≠ OK)) := by
  induction attrs generalizing tbl entries s with
  | nil =>
    simp only [attrTableLoop, pure_eq, good_ret, if_true]
    exact ⟨Clean.id wf own, hnone, by simp⟩
  | cons a rest ih =>
    obtain ⟨ownE, ownTF, dE⟩ := Owns.append_iff.1 own
    unfold attrTableLoop
    simp only [bind_eq, pure_eq]
    refine Good.bind (parseAttribute_spec a (hshape a (by simp)) s wf) ?_
    intro r s1 ⟨c1, e1, k1, h1⟩
    obtain ⟨ret, attr⟩ := r
    simp only at c1 e1 k1 h1 ⊢
    have hn1 := c1.next; have hh1 := c1.hits
    have ownE1 : Owns s1 (ownedNameOpt element) := c1.keeps ownE (by simp)
    have ownTF1 : Owns s1 (tbl.toList ++ entries.flatMap AAttr.owned) := c1.keeps ownTF (by simp)
    have hfA : ∀ i ∈ ownedAttrOpt attr, s.next < i ∧ i ≤ s1.next := by
      intro i hi; have := c1.fresh i hi; simpa using this
    have hold : ∀ i ∈ ownedNameOpt element ++ (tbl.toList ++ entries.flatMap AAttr.owned), i ≤ s.next :=
      fun i hi => wf i (own.2 i hi)
    by_cases hret : ret = OK
    · subst hret
      simp only [bne_self_eq_false, Bool.false_eq_true, if_false]
      cases attr with
      | none => simp at k1
      | some att =>
        simp only
        have hT1 : ∀ x, tbl = some x → x ∈ s1.live := by
          intro x hx; subst hx; exact ownTF1.2 x (by simp)
        refine Good.bind (realloc_spec tbl s1 c1.wf hT1) ?_
        intro q s2 ⟨c2, h2, hqf⟩
        have hn2 := c2.next; have hh2 := c2.hits
        have ownA1 : Owns s1 att.owned := by simpa [ownedAttrOpt] using c1.owns
        cases q with
        | none =>
          simp only [Option.isSome_none, Bool.false_eq_true, if_false, Option.toList] at c2 ⊢
          have ownE2 : Owns s2 (ownedNameOpt element) := c2.keeps ownE1 (by simp)
          refine Good.bind (nameDestroy_spec element s2 c2.wf ownE2) ?_
          intro _ s3 ⟨c3, h3, n3⟩
          have ownA3 : Owns s3 att.owned := by
            refine c3.keeps (c2.keeps ownA1 (by simp)) ?_
            intro i hi hm
            have := hfA i (by simpa [ownedAttrOpt] using hi)
            have := hold i (List.mem_append_left _ hm); omega
          refine Good.bind (attrDestroy_spec (some att) s3 c3.wf (by simpa [ownedAttrOpt] using ownA3)) ?_
          intro _ s4 ⟨c4, h4, n4⟩
          have ownTF4 : Owns s4 (tbl.toList ++ entries.flatMap AAttr.owned) := by
            refine c4.keeps (c3.keeps (c2.keeps ownTF1 (by simp)) (fun i hi hm => dE i hm hi)) ?_
            intro i hi hm
            have := hfA i (by simpa [ownedAttrOpt] using hm)
            have := hold i (List.mem_append_right _ hi); omega
          refine Good.bind (freeAttrsTable_spec tbl entries s4 c4.wf ownTF4 hnone) ?_
          intro _ s5 ⟨c5, h5, n5⟩
          simp only [good_ret]
          have e : (ENOMEM = OK) = False := by simp [ENOMEM, OK]
          simp only [e, if_false]
          refine ⟨⟨?_, by simp, by simp, by rw [c5.sched, c4.sched, c3.sched, c2.sched, c1.sched], by omega, by omega, c5.wf⟩, by simp, by simp [ENOMEM, OK]⟩
          intro i
          rw [c5.live, c4.live, c3.live, c2.live, c1.live]
          have a1 := hfA i; have a2 := hold i; have a3 := dE i; have a4 := wf i
          simp only [ownedAttrOpt, List.mem_append, List.not_mem_nil, not_false_eq_true, and_true, or_false] at *
          clear ih c1 c2 c3 c4 c5 ownE ownE1 ownE2 ownTF ownTF1 ownTF4 ownA1 ownA3 hfA hold own dE hT1
          grind
        | some q =>
          simp only [Option.isSome_some, if_true] at c2 ⊢
          have hq2 : q ∈ s2.live := (c2.live q).2 (Or.inr (by simp))
          refine Good.bind (deref_spec q s2 hq2) ?_
          intro _ s2' e2'; have e2'' := e2'.symm; subst e2''
          have hfq : s1.next < q ∧ q ≤ s2.next := hqf q rfl
          obtain ⟨ownT, ownF, dTF⟩ := Owns.append_iff.1 ownTF
          have hfA' : ∀ i ∈ att.owned, s.next < i ∧ i ≤ s1.next := fun i hi => hfA i (by simpa [ownedAttrOpt] using hi)
          have eF : (entries ++ [att]).flatMap AAttr.owned = entries.flatMap AAttr.owned ++ att.owned := by
            simp [List.flatMap_append]
          have c2' : Clean s1 s2 tbl.toList [q] := by simpa using c2
          have own2 : Owns s2 (ownedNameOpt element ++ ((some q).toList ++ (entries ++ [att]).flatMap AAttr.owned)) := by
            rw [eF]
            simp only [Option.toList, List.singleton_append]
            have oE : Owns s2 (ownedNameOpt element) :=
              c2'.keeps ownE1 (fun i hi hm => dE i hi (List.mem_append_left _ hm))
            have oF : Owns s2 (entries.flatMap AAttr.owned) :=
              c2'.keeps (c1.keeps ownF (by simp)) (fun i hi hm => dTF i hm hi)
            have oA : Owns s2 att.owned := c2'.keeps ownA1 (by
              intro i hi hm
              have := hfA' i hi
              have := hold i (List.mem_append_right _ (List.mem_append_left _ hm)); omega)
            refine Owns.append_iff.2 ⟨oE, Owns.cons_iff.2 ⟨hq2, ?_, Owns.append_iff.2 ⟨oF, oA, ?_⟩⟩, ?_⟩
            · intro hm
              rcases List.mem_append.1 hm with hm | hm
              · have := hold q (List.mem_append_right _ (List.mem_append_right _ hm)); omega
              · have := hfA' q hm; omega
            · intro i hi hm
              have := hold i (List.mem_append_right _ (List.mem_append_right _ hi)); have := hfA' i hm; omega
            · intro i hi hm
              have := hold i (List.mem_append_left _ hi)
              rcases List.mem_cons.1 hm with hm | hm
              · omega
              · rcases List.mem_append.1 hm with hm | hm
                · exact dE i hi (List.mem_append_right _ hm)
                · have := hfA' i hm; omega
          refine (ih (fun x hx => hshape x (by simp [hx])) (some q) (entries ++ [att]) s2 c2.wf own2 (by simp)).mono ?_
          intro r s3 ⟨c3, e3, h3⟩
          have hn3 := c3.next; have hh3 := c3.hits
          rw [eF] at c3
          refine ⟨⟨?_, ?_, c3.nodup, by rw [c3.sched, c2.sched, c1.sched], by omega, by omega, c3.wf⟩, e3, ?_⟩
          · intro i
            rw [c3.live, c2'.live, c1.live]
            have a1 := hfA' i; have a2 := hold i; have a3 := dE i; have a4 := wf i
            simp only [ownedAttrOpt, Option.toList, List.mem_append, List.mem_cons, List.not_mem_nil, not_false_eq_true, and_true, or_false] at *
            generalize (if r.1 = OK then ownedNameOpt element ++ (r.2.1.toList ++ List.flatMap AAttr.owned r.2.2) else []) = R at *
            clear ih c1 c2 c2' c3 ownE ownE1 ownTF ownTF1 ownA1 hfA hfA' hold own dE hT1 own2 ownT ownF dTF eF e3 h3
            grind
          · intro i hi
            have a0 := c3.fresh i hi
            have a1 := hfA' i
            simp only [Option.toList, List.mem_append, List.mem_cons, List.not_mem_nil, or_false] at *
            generalize (if r.1 = OK then ownedNameOpt element ++ (r.2.1.toList ++ List.flatMap AAttr.owned r.2.2) else []) = R at *
            clear ih c1 c2 c2' c3 ownE ownE1 ownTF ownTF1 ownA1 hfA hfA' hold own dE hT1 own2 ownT ownF dTF eF e3 h3
            grind
          · intro hh
            by_cases hA : s2.hits < s3.hits
            · exact h3 hA
            · exfalso
              have b1 := h1; have b2 := h2
              simp at b1 b2
              omega
    · have hb : (ret != OK) = true := by simpa using hret
      simp only [hb, if_true]
      have := e1 hret; subst this
      refine Good.bind (nameDestroy_spec element s1 c1.wf ownE1) ?_
      intro _ s2 ⟨c2, h2, n2⟩
      have ownTF2 : Owns s2 (tbl.toList ++ entries.flatMap AAttr.owned) := c2.keeps ownTF1 (fun i hi hm => dE i hm hi)
      refine Good.bind (freeAttrsTable_spec tbl entries s2 c2.wf ownTF2 hnone) ?_
      intro _ s3 ⟨c3, h3, n3⟩
      simp only [good_ret, hret, if_false]
      refine ⟨⟨?_, by simp, by simp, by rw [c3.sched, c2.sched, c1.sched], by omega, by omega, c3.wf⟩, by simp, fun _ => hret⟩
      intro i
      rw [c3.live, c2.live, c1.live]
      simp only [ownedAttrOpt, List.mem_append, List.not_mem_nil, not_false_eq_true, and_true, or_false]
      grind

theorem parseStag_spec (t : TagShape) (ht : t.wf) (s : Ledger) (wf : s.WF) :
    Good (parseStag t) s (fun r s' =>
      Clean s s' [] (ownedNameOpt r.2) ∧ (r.1 ≠ OK → r.2 = none) ∧ (r.1 = OK → r.2.isSome) ∧
      (s.hits < s'.hits → r.1 ≠ OK)) := by
  cases t with
  | err c =>
    simp only [parseStag, pure_eq, good_ret, ownedNameOpt]
    exact ⟨Clean.rfl wf, by simp, fun h => (ht h).elim, by simp⟩
  | token row =>
    simp only [parseStag, bind_eq, pure_eq]
    refine Good.bind (nameCreateToken_spec row s wf) ?_
    intro name s1 ⟨c1, h1⟩
    cases name with
    | none => simp only [good_ret]; exact ⟨c1, by simp, by simp [ENOMEM, OK], by simp [ENOMEM, OK]⟩
    | some n => simp only [good_ret]; exact ⟨c1, by simp, by simp, fun hh => by have := h1 hh; simp at this⟩
  | unknown =>
    simp only [parseStag, bind_eq, pure_eq]
    refine Good.bind (nameCreateLiteral_spec (some unknownName) s wf) ?_
    intro name s1 ⟨c1, h1⟩
    cases name with
    | none => simp only [good_ret]; exact ⟨c1, by simp, by simp [ENOMEM, OK], by simp [ENOMEM, OK]⟩
    | some n => simp only [good_ret]; exact ⟨c1, by simp, by simp, fun hh => by have := h1 hh; simp at this⟩
  | literal nm =>
    simp only [parseStag, bind_eq, pure_eq]
    refine Good.bind (parseLiteralRef_spec nm s wf) ?_
    intro r s1 ⟨c1, e1, k1, h1⟩
    obtain ⟨ret, lit⟩ := r
    simp only at c1 e1 k1 h1 ⊢
    by_cases hret : ret = OK
    · subst hret
      simp only [bne_self_eq_false, Bool.false_eq_true, if_false]
      cases lit with
      | none => simp at k1
      | some lit =>
        simp only
        have own1 : Owns s1 lit.owned := by simpa [ownedBufOpt] using c1.owns
        refine (literalName_spec (fun e => ((if e.isNone then ENOMEM else OK), e)) lit s1 c1.wf own1).mono ?_
        intro r s2 ⟨name, er, c2, h2⟩
        subst er
        simp only
        have hn1 := c1.next; have hn2 := c2.next; have hh1' := c1.hits; have hh2 := c2.hits
        have hh1 : ¬ s.hits < s1.hits := fun hh => h1 hh rfl
        refine ⟨⟨?_, ?_, c2.nodup, by rw [c2.sched, c1.sched], by omega, by omega, c2.wf⟩, ?_, ?_, ?_⟩
        · intro i
          rw [c2.live, c1.live]
          have a1 := wf i; have a2 := c1.fresh i
          simp only [ownedBufOpt, List.not_mem_nil, not_false_eq_true, and_true, or_false, false_or] at *
          grind
        · intro i hi
          have a1 := c2.fresh i hi; have a2 := c1.fresh i
          simp only [ownedBufOpt, List.not_mem_nil, false_or] at *
          grind
        · intro hne; cases name <;> simp_all [ENOMEM, OK]
        · intro he; cases name <;> simp_all [ENOMEM, OK]
        · intro hh; have := h2 (by omega); subst this; simp [ENOMEM, OK]
    · have hb : (ret != OK) = true := by simpa using hret
      simp only [hb, if_true, good_ret, ownedNameOpt]
      have hl := e1 hret; subst hl
      exact ⟨by simpa [ownedBufOpt] using c1, by simp, fun h => (hret h).elim, fun _ => hret⟩

/-- `parse_element` (no content): whatever the attributes are and whichever requests fail, nothing
    stays allocated, nothing is used after free, and a delivered failure is reported. -/
theorem parseElement_spec (t : TagShape) (ht : t.wf) (attrs : List AttrShape) (hshape : ∀ a ∈ attrs, a.start.wf)
    (s : Ledger) (wf : s.WF) :
    Good (parseElement t attrs) s (fun ret s' => Clean s s' [] [] ∧ (s.hits < s'.hits → ret ≠ OK)) := by
  unfold parseElement
  simp only [bind_eq, pure_eq]
  refine Good.bind (parseStag_spec t ht s wf) ?_
  intro r s1 ⟨c1, e1, k1, h1⟩
  obtain ⟨ret, element⟩ := r
  simp only at c1 e1 k1 h1 ⊢
  have hn1 := c1.next; have hh1' := c1.hits
  by_cases hret : ret = OK
  · subst hret
    simp only [bne_self_eq_false, Bool.false_eq_true, if_false]
    obtain ⟨e, he⟩ : ∃ e, element = some e := by
      cases element with
      | none => simp at k1
      | some e => exact ⟨e, rfl⟩
    subst he
    have ownE1 : Owns s1 (ownedNameOpt (some e)) := c1.owns
    have hel : e.hdr ∈ s1.live := ownE1.2 _ (by simp [ownedNameOpt, AName.owned])
    simp only [Option.map_some]
    refine Good.bind (deref_spec e.hdr s1 hel) ?_
    intro _ s1' e1'; have e1'' := e1'.symm; subst e1''
    have own1 : Owns s1 (ownedNameOpt (some e) ++ ((none : Ptr).toList ++ ([] : List AAttr).flatMap AAttr.owned)) := by
      simpa using ownE1
    refine Good.bind (attrTableLoop_spec (some e) attrs hshape none [] s1 c1.wf own1 (by simp)) ?_
    intro r2 s2 ⟨c2, e2, h2⟩
    obtain ⟨ret2, tbl, entries⟩ := r2
    simp only at c2 e2 h2 ⊢
    have hn2 := c2.next; have hh2 := c2.hits
    have hnil : ((none : Ptr).toList ++ ([] : List AAttr).flatMap AAttr.owned) = [] := rfl
    rw [hnil, List.append_nil] at c2
    by_cases hret2 : ret2 = OK
    · subst hret2
      simp only [bne_self_eq_false, Bool.false_eq_true, if_false, if_true] at c2 ⊢
      have own2 : Owns s2 (ownedNameOpt (some e) ++ (tbl.toList ++ entries.flatMap AAttr.owned)) := c2.owns
      obtain ⟨ownE2, ownTF2, dE2⟩ := Owns.append_iff.1 own2
      refine Good.bind (freeAttrsTable_spec tbl entries s2 c2.wf ownTF2 e2) ?_
      intro _ s3 ⟨c3, h3, n3⟩
      have ownE3 : Owns s3 (ownedNameOpt (some e)) := c3.keeps ownE2 dE2
      refine Good.bind (nameDestroy_spec (some e) s3 c3.wf ownE3) ?_
      intro _ s4 ⟨c4, h4, n4⟩
      simp only [good_ret]
      refine ⟨⟨?_, by simp, by simp, by rw [c4.sched, c3.sched, c2.sched, c1.sched], by omega, by omega, c4.wf⟩, ?_⟩
      · intro i
        rw [c4.live, c3.live, c2.live, c1.live]
        have a1 := c1.fresh i; have a2 := wf i; have a3 := dE2 i; have a4 := c2.fresh i
        simp only [List.mem_append, List.not_mem_nil, not_false_eq_true, and_true, or_false, false_or] at *
        generalize ownedNameOpt (some e) = E at *
        generalize tbl.toList = T at *
        generalize List.flatMap AAttr.owned entries = F at *
        clear c1 c2 c3 c4 own1 own2 ownE1 ownE2 ownE3 ownTF2 dE2 hel
        grind
      · intro hh
        exfalso
        have b1 := h1; have b2 := h2
        simp at b1 b2
        omega
    · have hb : (ret2 != OK) = true := by simpa using hret2
      simp only [hb, if_true, good_ret]
      simp only [hret2, if_false] at c2
      refine ⟨⟨?_, by simp, by simp, by rw [c2.sched, c1.sched], by omega, by omega, c2.wf⟩, fun _ => hret2⟩
      intro i
      rw [c2.live, c1.live]
      have a1 := c1.fresh i; have a2 := wf i
      simp only [List.not_mem_nil, not_false_eq_true, and_true, or_false, false_or] at *
      grind
  · have hb : (ret != OK) = true := by simpa using hret
    simp only [hb, if_true, good_ret]
    have := e1 hret; subst this
    exact ⟨by simpa [ownedNameOpt] using c1, fun _ => hret⟩

end Wbxml.Model.Alloc
