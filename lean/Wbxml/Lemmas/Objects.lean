/-
  C15 — lemmas about the life-cycle machine (`Model/Objects.lean`), for ARBITRARY bodies, and the
  bridge from the `decide`-checked structural facts over `Gen.Fields` to `Machine.Sound`.
-/
import Wbxml.Model.Objects
set_option linter.unusedSectionVars false
namespace Wbxml.Model.Objects
open Wbxml.Gen.Fields

namespace Machine
variable {F V D R : Type} [DecidableEq F] (M : Machine F V D R)

theorem run_keeps_settings (m : F → V) (d : D) (f : F) (h : M.setting f = true) :
    (M.run m d).1 f = m f := by
  simp only [run, h, if_true]

theorem run_result_eq (m m' : F → V) (d : D) (h : m = m') : (M.run m d).2 = (M.run m' d).2 := by
  subst h; rfl

/-- After reset (and after the user has re-applied the sticky settings, if there are any) the object
    is exactly a newly created object with the user's settings. -/
theorem reapply_reinit (hS : M.Sound) (m s : F → V) (hm : ∀ f, M.setting f = true → m f = s f) :
    M.reapply s (M.reinit m) = M.created s := by
  funext f
  cases hs : M.setting f with
  | true =>
    have hk : M.sticky f = false := by
      cases hk : M.sticky f with
      | false => rfl
      | true => have := hS.sticky_derived f hk; rw [hs] at this; cases this
    simp only [reapply, reinit, created, user, hs, hk, hS.keeps f hs, Bool.or_false, if_true, hm f hs]
    simp
  | false =>
    cases hk : M.sticky f with
    | true => simp only [reapply, created, user, hs, hk, Bool.or_true, if_true]
    | false =>
      simp only [reapply, reinit, created, user, hs, hk, hS.restores f hs hk, Bool.or_false]

/-- Without sticky fields re-applying is the identity. -/
theorem reapply_id (hns : ∀ f, M.sticky f = false) (s m : F → V) : M.reapply s m = m := by
  funext f; simp only [reapply, hns f]; simp

theorem reinit_eq_created (hS : M.Sound) (hns : ∀ f, M.sticky f = false) (m s : F → V)
    (hm : ∀ f, M.setting f = true → m f = s f) : M.reinit m = M.created s := by
  have := M.reapply_reinit hS m s hm
  rwa [M.reapply_id hns] at this

theorem created_setting (s : F → V) (f : F) (h : M.setting f = true) : M.created s f = s f := by
  simp only [created, user, h, Bool.true_or, if_true]

theorem setUser_agree (m s : F → V) (g : F) (v : V) (hm : ∀ f, M.setting f = true → m f = s f) :
    ∀ f, M.setting f = true → M.setUser m g v f = M.setUser s g v f := by
  intro f hf
  unfold setUser
  cases hu : M.user g with
  | false => simpa using hm f hf
  | true =>
    simp only [if_true, upd]
    by_cases hfg : f = g
    · simp [hfg]
    · simp [hfg, hm f hf]

/-- **History freedom, parser / converter style** (re-initialisation inside every run, no sticky
    fields): for every finite history of setter calls and documents, on ONE object that agrees with
    `s` on the settings, the result of every document is the result on a fresh object carrying the
    settings current at that point.  Induction over the history. -/
theorem pexec_history_free (hS : M.Sound) (hns : ∀ f, M.sticky f = false) :
    ∀ (ops : List (POp F V D)) (m s : F → V), (∀ f, M.setting f = true → m f = s f) →
      (M.pexec m ops).2 = M.pfresh s ops := by
  intro ops
  induction ops with
  | nil => intro m s _; rfl
  | cons op rest ih =>
    intro m s hm
    cases op with
    | set g v =>
      simp only [pexec, pstep, pfresh]
      exact ih _ _ (M.setUser_agree m s g v hm)
    | doc d =>
      simp only [pexec, pstep, pfresh]
      have h1 : M.reinit m = M.created s := M.reinit_eq_created hS hns m s hm
      have h2 : M.reinit (M.created s) = M.created s :=
        M.reinit_eq_created hS hns _ s (fun f hf => M.created_setting s f hf)
      have hm' : ∀ f, M.setting f = true → (M.run (M.reinit m) d).1 f = s f := by
        intro f hf
        rw [M.run_keeps_settings _ d f hf, h1, M.created_setting s f hf]
      rw [ih _ s hm', h1, h2]

/-- Settings persist: after any history the settings of the object are what the user set last
    (or what the object started with); no document changes them. -/
theorem settings_persist (hS : M.Sound) :
    ∀ (ops : List (POp F V D)) (m s : F → V), (∀ f, M.setting f = true → m f = s f) →
      ∀ f, M.setting f = true → (M.pexec m ops).1 f = M.userAfter s ops f := by
  intro ops
  induction ops with
  | nil => intro m s hm f hf; exact hm f hf
  | cons op rest ih =>
    intro m s hm f hf
    cases op with
    | set g v =>
      simp only [pexec, pstep, userAfter]
      exact ih _ _ (M.setUser_agree m s g v hm) f hf
    | doc d =>
      simp only [pexec, pstep, userAfter]
      refine ih _ s ?_ f hf
      intro f' hf'
      rw [M.run_keeps_settings _ d f' hf']
      simp only [reinit, hS.keeps f' hf']
      exact hm f' hf'

theorem setUser_created (s : F → V) (g : F) (v : V) :
    M.setUser (M.created s) g v = M.created (M.setUser s g v) := by
  funext f
  unfold setUser
  cases hu : M.user g with
  | false => simp
  | true =>
    simp only [if_true, created, upd]
    by_cases hfg : f = g
    · subst hfg; simp [hu]
    · simp [hfg]

/-- **Encode after reset** (explicit reset between runs; the user re-applies the sticky settings
    after every reset): every run gives the result of a fresh object with the same settings.
    With no sticky fields the re-application is the identity (`eexecPlain_history_free`). -/
theorem eexec_history_free (hS : M.Sound) :
    ∀ (ops : List (EOp F V D)) (s : F → V), (M.eexec (M.created s) s ops).2 = M.efresh s ops := by
  intro ops
  induction ops with
  | nil => intro s; rfl
  | cons op rest ih =>
    intro s
    cases op with
    | set g v =>
      simp only [eexec, efresh]
      rw [M.setUser_created]
      exact ih _
    | enc d =>
      simp only [eexec, efresh]
      have hm : ∀ f, M.setting f = true → (M.run (M.created s) d).1 f = s f := by
        intro f hf
        rw [M.run_keeps_settings _ d f hf, M.created_setting s f hf]
      rw [M.reapply_reinit hS _ s hm, ih s]

theorem eexecPlain_history_free (hS : M.Sound) (hns : ∀ f, M.sticky f = false) :
    ∀ (ops : List (EOp F V D)) (s : F → V), (M.eexecPlain (M.created s) ops).2 = M.efresh s ops := by
  intro ops
  induction ops with
  | nil => intro s; rfl
  | cons op rest ih =>
    intro s
    cases op with
    | set g v =>
      simp only [eexecPlain, efresh]
      rw [M.setUser_created]
      exact ih _
    | enc d =>
      simp only [eexecPlain, efresh]
      have hm : ∀ f, M.setting f = true → (M.run (M.created s) d).1 f = s f := by
        intro f hf
        rw [M.run_keeps_settings _ d f hf, M.created_setting s f hf]
      rw [M.reinit_eq_created hS hns _ s hm, ih s]

end Machine


/-! ## Histories that mix run kinds -/

namespace Machine
section kinds
variable {F V D R K : Type} [DecidableEq F] (M : Machine F V (K × D) R) (keeps : K → F → Bool) (re : K → Bool)

theorem runK_keeps_settings (m : F → V) (k : K) (d : D) (f : F) (h : M.setting f = true) :
    (M.runK keeps m k d).1 f = m f := by
  simp only [runK]
  split
  · rfl
  · exact M.run_keeps_settings m (k, d) f h

theorem runK_keeps (m : F → V) (k : K) (d : D) (f : F) (h : keeps k f = true) :
    (M.runK keeps m k d).1 f = m f := by
  simp only [runK, h, if_true]

/-- A run (successful or not) of a kind that leaves the sticky fields alone, then reset: the object
    is a newly created object with the user's settings again — nothing has to be re-applied. -/
theorem reinit_runK (hS : M.Sound) (hst : ∀ f, M.sticky f = true → M.reinitAssign f = none)
    (s : F → V) (k : K) (d : D) (hkk : ∀ f, M.sticky f = true → keeps k f = true) :
    M.reinit (M.runK keeps (M.created s) k d).1 = M.created s := by
  funext f
  cases hs : M.setting f with
  | true =>
    simp only [reinit, hS.keeps f hs]
    exact M.runK_keeps_settings keeps _ k d f hs
  | false =>
    cases hk : M.sticky f with
    | true =>
      simp only [reinit, hst f hk]
      exact M.runK_keeps keeps _ k d f (hkk f hk)
    | false =>
      simp only [reinit, hS.restores f hs hk, created, user, hs, hk, Bool.or_false]
      simp

/-- After any run, reset and — where the run kind requires it — re-application of the sticky
    setters, the object is a newly created object with the user's settings. -/
theorem after_runK (hS : M.Sound) (hst : ∀ f, M.sticky f = true → M.reinitAssign f = none)
    (hk : ∀ k f, M.sticky f = true → re k = false → keeps k f = true) (s : F → V) (k : K) (d : D) :
    (if re k then M.reapply s (M.reinit (M.runK keeps (M.created s) k d).1)
     else M.reinit (M.runK keeps (M.created s) k d).1) = M.created s := by
  cases hr : re k with
  | true =>
    simp only [if_true]
    refine M.reapply_reinit hS _ s ?_
    intro f hf
    rw [M.runK_keeps_settings keeps _ k d f hf, M.created_setting s f hf]
  | false =>
    simp only [Bool.false_eq_true, if_false]
    exact M.reinit_runK keeps hS hst s k d (fun f hf => hk k f hf hr)

/-- **History freedom for histories that mix run kinds**: setter calls and runs of any kind (the body
    is arbitrary: it may fail anywhere), reset after every run, the sticky setters called again only
    after the run kinds that may have written them: every run gives the result of a new object with
    the same settings. -/
theorem kexec_history_free (hS : M.Sound) (hst : ∀ f, M.sticky f = true → M.reinitAssign f = none)
    (hk : ∀ k f, M.sticky f = true → re k = false → keeps k f = true) :
    ∀ (ops : List (KOp F V D K)) (s : F → V),
      (M.kexec keeps re (M.created s) s ops).2 = M.kfresh keeps s ops := by
  intro ops
  induction ops with
  | nil => intro s; rfl
  | cons op rest ih =>
    intro s
    cases op with
    | set g v =>
      simp only [kexec, kfresh]
      rw [M.setUser_created]
      exact ih _
    | run k d =>
      simp only [kexec, kfresh]
      rw [M.after_runK keeps re hS hst hk s k d, ih s]

/-- Full strength (nothing re-applied, ever) for histories whose run kinds all leave the sticky
    fields alone. -/
theorem kexecPlain_history_free (hS : M.Sound) (hst : ∀ f, M.sticky f = true → M.reinitAssign f = none) :
    ∀ (ops : List (KOp F V D K)) (s : F → V),
      (∀ k ∈ kindsOf ops, ∀ f, M.sticky f = true → keeps k f = true) →
      (M.kexecPlain keeps (M.created s) ops).2 = M.kfresh keeps s ops := by
  intro ops
  induction ops with
  | nil => intro s _; rfl
  | cons op rest ih =>
    intro s hall
    cases op with
    | set g v =>
      simp only [kexecPlain, kfresh]
      rw [M.setUser_created]
      exact ih _ (fun k hk => hall k (by simpa [kindsOf] using hk))
    | run k d =>
      simp only [kexecPlain, kfresh]
      rw [M.reinit_runK keeps hS hst s k d (hall k (by simp [kindsOf])),
          ih s (fun k' hk' => hall k' (by simp [kindsOf, hk']))]

end kinds
end Machine

/-! ## From the decidable structural facts to `Sound` -/

theorem assignedValue_some_mem {stores : List Store} {field v : String}
    (h : assignedValue stores field = some v) : ∃ s ∈ stores, s.field = field := by
  unfold assignedValue at h
  cases hl : (stores.filter (fun s => s.field == field)).getLast? with
  | none => simp only [hl] at h; cases h
  | some l =>
    have hmem : l ∈ stores.filter (fun s => s.field == field) := List.mem_of_getLast? hl
    rw [List.mem_filter] at hmem
    exact ⟨l, hmem.1, by simpa using hmem.2⟩

/-- The three Bool facts that `Props/C15` closes by `decide` give `Sound` for every body. -/
theorem machineOf_sound {D R : Type} (o : Obj) (body : (String → String) → D → (String → String) × R)
    (hkeep : reinitKeepsSettings o = true) :
    (machineOf o body).Sound := by
  refine ⟨?_, ?_, ?_⟩
  · -- keeps: a setting is not assigned by reinit
    intro f hf
    simp only [machineOf] at hf ⊢
    cases hv : reinitValue o f with
    | none => rfl
    | some v =>
      exfalso
      obtain ⟨s, hs, hsf⟩ := assignedValue_some_mem hv
      have hs' : s ∈ reinitStores o := (List.mem_filter.mp hs).1
      have := (List.all_eq_true.mp hkeep) s hs'
      rw [hsf] at this
      simp only [isSetting, this] at hf
      cases hf
  · -- restores: a derived, non-sticky field gets the creation value
    intro f hf hk
    simp only [machineOf] at hf hk ⊢
    have hd : f ∈ derived o := by simpa [isSetting] using hf
    have hr : restores o f = true := by
      cases h : restores o f with
      | true => rfl
      | false =>
        exfalso
        have hmem : f ∈ stickyList o := by
          unfold stickyList
          rw [List.mem_filter]
          exact ⟨hd, by simp [h]⟩
        have : isSticky o f = true := by unfold isSticky; simpa using hmem
        rw [this] at hk; cases hk
    unfold restores at hr
    unfold initOf
    cases h1 : reinitValue o f with
    | none => simp [h1] at hr
    | some a =>
      cases h2 : initValue o f with
      | none => simp [h1, h2] at hr
      | some b =>
        simp only [h1, h2] at hr
        have : a = b := by simpa using hr
        rw [this]
  · -- sticky fields are derived
    intro f hk
    simp only [machineOf] at hk ⊢
    unfold isSticky at hk
    have hmem : f ∈ stickyList o := by simpa using hk
    unfold stickyList at hmem
    have hd : f ∈ derived o := (List.mem_filter.mp hmem).1
    simp [isSetting, hd]

theorem not_sticky_of_nil (o : Obj) (h : stickyList o = []) : ∀ f, isSticky o f = false := by
  intro f; unfold isSticky; rw [h]; rfl


/-- One pass over what a run writes decides the field-by-field statement. -/
theorem keepsAll_iff (o : Obj) (k l : List String) :
    keepsAll o k l = true ↔ ∀ f ∈ l, keepsNet o k f = true := by
  unfold keepsAll keepsNet
  rw [List.all_eq_true]
  constructor
  · intro h f hf
    cases hc : (runWritten o k).contains f with
    | false => rfl
    | true =>
      exfalso
      have hm : f ∈ runWritten o k := by simpa using hc
      have := h f hm
      simp [hf] at this
  · intro h x hx
    cases hc : l.contains x with
    | false => rfl
    | true =>
      exfalso
      have hm : x ∈ l := by simpa using hc
      have := h x hm
      simp [hx] at this

theorem reapplyAfter_eq (o : Obj) (k : List String) :
    reapplyAfter o k = !keepsAll o k (stickyList o) := by
  cases h : keepsAll o k (stickyList o) with
  | true =>
    have h' := (keepsAll_iff o k _).mp h
    unfold reapplyAfter
    cases ha : (stickyList o).any (fun f => !keepsNet o k f) with
    | false => rfl
    | true =>
      exfalso
      obtain ⟨f, hf, hb⟩ := List.any_eq_true.mp ha
      simp [h' f hf] at hb
  | false =>
    unfold reapplyAfter
    cases ha : (stickyList o).any (fun f => !keepsNet o k f) with
    | true => rfl
    | false =>
      exfalso
      have : keepsAll o k (stickyList o) = true := by
        rw [keepsAll_iff]
        intro f hf
        cases hk : keepsNet o k f with
        | true => rfl
        | false =>
          exfalso
          have : (stickyList o).any (fun f => !keepsNet o k f) = true :=
            List.any_eq_true.mpr ⟨f, hf, by simp [hk]⟩
          rw [this] at ha
          cases ha
      rw [this] at h
      cases h

/-- By construction: a run kind after which nothing is re-applied keeps every sticky field. -/
theorem keepsNet_of_not_reapply (o : Obj) (k : List String) (f : String)
    (hf : isSticky o f = true) (hr : reapplyAfter o k = false) : keepsNet o k f = true := by
  unfold isSticky at hf
  have hmem : f ∈ stickyList o := by simpa using hf
  unfold reapplyAfter at hr
  cases h : keepsNet o k f with
  | true => rfl
  | false =>
    exfalso
    have : (stickyList o).any (fun f => !keepsNet o k f) = true :=
      List.any_eq_true.mpr ⟨f, hmem, by simp [h]⟩
    rw [this] at hr
    cases hr

/-- The reset function does not assign the sticky fields (Bool fact over the tables → machine). -/
theorem reinitAssign_none_of_leaves (o : Obj) (h : reinitLeavesSticky o = true) (f : String)
    (hf : isSticky o f = true) : reinitValue o f = none := by
  cases hv : reinitValue o f with
  | none => rfl
  | some v =>
    exfalso
    obtain ⟨s, hs, hsf⟩ := assignedValue_some_mem hv
    have hs' : s ∈ reinitStores o := (List.mem_filter.mp hs).1
    have := (List.all_eq_true.mp h) s hs'
    rw [hsf] at this
    unfold isSticky at hf
    have hmem : f ∈ stickyList o := by simpa using hf
    simp at this
    exact this hmem

end Wbxml.Model.Objects
