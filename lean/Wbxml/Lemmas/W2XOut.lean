/-
  C01, bounds, printer half: the XML text `treeToXml` writes is bounded by a fixed polynomial in the
  size and depth of the tree, the indentation step and two table constants.

  * `xcost δ N I n`: a structural upper bound of what `xmlNode` appends for the node `n` when the
    indentation level is `I`, the indentation step `δ` (0 unless `gen = 1`) and the namespace names
    of the current language are at most `N` octets long.
  * `xml_out`: `xmlNode` keeps `indent` and appends at most `xcost …` (induction on the fuel).
  * `xcost_le`: `xcost δ N I n ≤ (18 + Nmax) * n.size + 2 * (δ * (n.size * (I + n.eltDepth)))`
    (`eltDepth`: element nesting — text and CDATA nodes are not indented).
  * `treeToXml_length_le`.
-/
import Wbxml.Lemmas.FlowXml
import Wbxml.Lemmas.X2WDepth
-- `XmlPrint` already holds the matcher equations of `cdataText` that `fun_induction` would generate again
import Wbxml.Lemmas.XmlPrint

namespace Wbxml.Lemmas.W2X
open Wbxml Wbxml.Model Wbxml.Model.Flow

/-! ### Pieces of text -/

theorem flatMap_length_le {α β : Type} (f : α → List β) (k : Nat) (h : ∀ a, (f a).length ≤ k) :
    ∀ (l : List α), (l.flatMap f).length ≤ k * l.length
  | [] => by simp
  | a :: l => by
    have := flatMap_length_le f k h l
    have := h a
    simp only [List.flatMap_cons, List.length_append, List.length_cons, Nat.mul_add, Nat.mul_one]
    omega

/-- Escaping multiplies the length by at most 6 (`&quot;`, `&apos;`). -/
theorem xmlEscape_length_le (canonical : Bool) (s : Bytes) : (xmlEscape canonical s).length ≤ 6 * s.length := by
  unfold xmlEscape
  refine flatMap_length_le _ 6 ?_ s
  intro ch
  repeat' split
  all_goals simp

/-- Octets that `xmlEscape` copies unchanged in every mode. -/
def escSafe (ch : UInt8) : Bool :=
  !(ch == 60 || ch == 62 || ch == 38 || ch == 34 || ch == 39 || ch == 13 || ch == 10 || ch == 9)

theorem xmlEscape_safe (canonical : Bool) : ∀ (s : Bytes), s.all escSafe = true → xmlEscape canonical s = s
  | [], _ => rfl
  | ch :: s, h => by
    simp only [List.all_cons, Bool.and_eq_true] at h
    have ih := xmlEscape_safe canonical s h.2
    unfold xmlEscape at ih ⊢
    rw [List.flatMap_cons, ih]
    have h1 := h.1
    simp only [escSafe, Bool.not_eq_true', Bool.or_eq_false_iff] at h1
    obtain ⟨⟨⟨⟨⟨⟨⟨a1, a2⟩, a3⟩, a4⟩, a5⟩, a6⟩, a7⟩, a8⟩ := h1
    simp [a1, a2, a3, a4, a5, a6, a7, a8]

theorem b64Char_safe (n : Nat) : escSafe (b64Char n) = true := by
  unfold b64Char
  have : ∀ k : Fin 64, escSafe (b64Alphabet.getD k.val 0) = true := by decide
  exact this ⟨n % 64, Nat.mod_lt _ (by omega)⟩

theorem b64EncodeGo_safe : ∀ (s : Bytes), (b64EncodeGo s).all escSafe = true
  | a :: b :: c :: r => by
    simp only [b64EncodeGo, List.all_cons, b64Char_safe, Bool.true_and]
    exact b64EncodeGo_safe r
  | [a, b] => by
    simp only [b64EncodeGo, List.all_cons, b64Char_safe, Bool.true_and, List.all_nil, Bool.and_true]
    decide
  | [a] => by
    simp only [b64EncodeGo, List.all_cons, b64Char_safe, Bool.true_and, List.all_nil, Bool.and_true]
    decide
  | [] => rfl

/-- Base64: four octets for every three, rounded up. -/
theorem b64EncodeGo_length : ∀ (s : Bytes), 3 * (b64EncodeGo s).length ≤ 4 * s.length + 8
  | a :: b :: c :: r => by
    have := b64EncodeGo_length r
    simp only [b64EncodeGo, List.length_cons]; omega
  | [a, b] => by simp [b64EncodeGo]
  | [a] => by simp [b64EncodeGo]
  | [] => by simp [b64EncodeGo]

theorem b64EncodeGo_length_le (s : Bytes) : (b64EncodeGo s).length ≤ 2 * s.length + 2 := by
  cases s with
  | nil => simp [b64EncodeGo]
  | cons a r =>
    have := b64EncodeGo_length (a :: r)
    simp only [List.length_cons] at this ⊢
    omega

/-- A CDATA section's text: every `]]>` (3 octets) becomes 15. -/
theorem cdataText_length_le : ∀ (s : Bytes), (cdataText s).length ≤ 5 * s.length := by
  intro s
  fun_induction cdataText s with
  | case1 r ih => simp only [List.length_append, List.length_cons, List.length_nil]; omega
  | case2 b r _ ih => simp only [List.length_cons]; omega
  | case3 => simp

theorem stripBlanks_length_le (s : Bytes) : (stripBlanks s).length ≤ s.length := by
  unfold stripBlanks
  rw [List.length_reverse]
  have h1 := (List.dropWhile_suffix isSpaceC (l := (s.dropWhile isSpaceC).reverse)).length_le
  have h2 := (List.dropWhile_suffix isSpaceC (l := s)).length_le
  rw [List.length_reverse] at h1
  omega

theorem cstrOf_length_le (b : Bytes) : (cstrOf b).length ≤ b.length := by
  unfold cstrOf
  rw [List.length_take]; omega

theorem name_size_eq (n : Name) : n.xmlName.length = n.size := by cases n <;> rfl
theorem aname_size_eq (n : AName) : n.xmlName.length = n.size := by cases n <;> rfl


/-! ### Table constants -/

def nsLenMax : List NsRow → Nat
  | [] => 0
  | r :: rs => max r.ns.length (nsLenMax rs)

/-- Longest namespace name of a language. -/
def langNs (l : Lang) : Nat :=
  match l.ns with
  | some ns => nsLenMax ns
  | none => 0

theorem nsOfPageX_length_le : ∀ (ns : List NsRow) (page : Nat) (n : Bytes),
    nsOfPageX ns page = some n → n.length ≤ nsLenMax ns
  | [], _, _, h => by simp [nsOfPageX] at h
  | r :: rs, page, n, h => by
    unfold nsOfPageX at h
    rw [List.find?_cons] at h
    split at h
    · simp only [Option.map_some, Option.some.injEq] at h
      subst h; simp only [nsLenMax]; omega
    · have := nsOfPageX_length_le rs page n h
      simp only [nsLenMax]; omega

/-! ### The element pieces -/

/-- The indentation `xmlTag` / `xmlEndTag` write at the current level. -/
def indOf (c : XCfg) (st : XSt) : Nat := if c.gen == 1 then st.indent.toNat * c.delta.toNat else 0

theorem spaces_length (n : Nat) : (spaces n).length = n := by simp [spaces]

theorem xmlTag_indent (c : XCfg) (p : Parent) (name : Name) (st : XSt) : (xmlTag c p name st).indent = st.indent := rfl

theorem xmlTag_length_le (c : XCfg) (p : Parent) (name : Name) (st : XSt) :
    (xmlTag c p name st).out.length ≤ st.out.length + indOf c st + name.size + langNs c.lang + 10 := by
  have hi : (if c.gen == 1 then spaces (st.indent.toNat * c.delta.toNat) else []).length = indOf c st := by
    unfold indOf; split <;> simp [spaces_length]
  simp only [xmlTag]
  split
  · rename_i pg ns hpg hns
    split
    · rename_i n hn
      have := nsOfPageX_length_le ns pg n hn
      have hl : langNs c.lang = nsLenMax ns := by unfold langNs; rw [hns]
      simp only [List.length_append, hi, name_size_eq, List.length_cons, List.length_nil]
      omega
    · simp only [List.length_append, hi, name_size_eq, List.length_cons, List.length_nil]; omega
  · simp only [List.length_append, hi, name_size_eq, List.length_cons, List.length_nil]; omega

theorem xmlAttr_indent (c : XCfg) (a : Attr) (st : XSt) : (xmlAttr c a st).indent = st.indent := rfl

theorem xmlAttr_length_le (c : XCfg) (a : Attr) (st : XSt) :
    (xmlAttr c a st).out.length ≤ st.out.length + 6 * a.size := by
  have h1 := cstrOf_length_le a.name.xmlName
  have h2 := xmlEscape_length_le (c.gen == 2) (cstrOf a.value)
  have h3 := cstrOf_length_le a.value
  rw [aname_size_eq] at h1
  simp only [xmlAttr, List.length_append, List.length_cons, List.length_nil, Attr.size]
  omega

theorem xmlAttrs_out (c : XCfg) : ∀ (attrs : List Attr) (st : XSt),
    (attrs.foldl (fun st a => xmlAttr c a st) st).indent = st.indent ∧
    (attrs.foldl (fun st a => xmlAttr c a st) st).out.length ≤ st.out.length + 6 * attrsSize attrs
  | [], st => by simp [attrsSize]
  | a :: rest, st => by
    obtain ⟨h1, h2⟩ := xmlAttrs_out c rest (xmlAttr c a st)
    have := xmlAttr_length_le c a st
    rw [List.foldl_cons]
    refine ⟨h1.trans (xmlAttr_indent c a st), ?_⟩
    simp only [attrsSize]; omega

theorem haveChildElt_ne_nil {kids : List Node} (h : haveChildElt kids = true) : kids.isEmpty = false := by
  cases kids with
  | nil => simp [haveChildElt] at h
  | cons k r => rfl

/-- Does the element put its children one level deeper? -/
def deeper (c : XCfg) (kids : List Node) : Bool := c.gen == 1 && haveChildElt kids

theorem xmlEndAttrs_out (c : XCfg) (kids : List Node) (st : XSt) :
    (xmlEndAttrs c kids st).indent = (if deeper c kids then st.indent + 1 else st.indent) ∧
    (xmlEndAttrs c kids st).out.length ≤ st.out.length + 3 := by
  unfold xmlEndAttrs deeper
  split
  · rename_i hk
    have : haveChildElt kids = false := by
      cases kids with
      | nil => rfl
      | cons k r => simp at hk
    simp only [this, Bool.and_false, Bool.false_eq_true, if_false, true_and]
    split <;> simp [newLine]
  · split
    · simp [newLine]
    · simp

theorem uint8_succ_pred (x : UInt8) : x + 1 - 1 = x := by
  rw [UInt8.add_sub_cancel]

theorem uint8_succ_toNat_le (x : UInt8) : (x + 1).toNat ≤ x.toNat + 1 := by
  rw [UInt8.toNat_add]
  have : (1 : UInt8).toNat = 1 := rfl
  rw [this]
  exact Nat.mod_le _ _

theorem xmlEndTag_out (c : XCfg) (name : Name) (kids : List Node) (st : XSt) :
    (xmlEndTag c name kids st).indent = (if deeper c kids then st.indent - 1 else st.indent) ∧
    (xmlEndTag c name kids st).out.length ≤ st.out.length + name.size + 5 +
      (if deeper c kids then (st.indent - 1).toNat * c.delta.toNat else 0) := by
  have hn : (if c.gen == 1 then newLine else ([] : Bytes)).length ≤ 1 := by split <;> simp [newLine]
  unfold deeper
  by_cases h : (c.gen == 1 && haveChildElt kids) = true <;> cases hc : st.inContent <;>
    simp only [xmlEndTag, h, hc, if_true, if_false, Bool.false_eq_true] <;> refine ⟨trivial, ?_⟩ <;>
    simp only [List.length_append, spaces_length, name_size_eq, List.length_cons, List.length_nil, newLine] at hn ⊢ <;>
    omega

theorem ite_length_le {c : Prop} [Decidable c] {a b : Bytes} {k : Nat} (ha : c → a.length ≤ k) (hb : b.length ≤ k) :
    (if c then a else b).length ≤ k := by
  split
  · rename_i h; exact ha h
  · exact hb

/-- Text: escaped, base64 (never escaped), or CDATA text; blank stripping and the `+wbxml → +xml`
    relabelling only shorten. -/
theorem xmlText_out (c : XCfg) (s : Bytes) (st st' : XSt) (h : xmlText c s st = .ok st') :
    st'.indent = st.indent ∧ st'.out.length ≤ st.out.length + 6 * s.length + 2 := by
  unfold xmlText at h
  dsimp only at h
  split at h
  · cases h; exact ⟨rfl, by omega⟩
  · generalize hs1 : (if (!st.inCdata && !isBinaryTag st.curTag && c.gen != 2 && c.removeBlanks) = true
        then stripBlanks s else s) = s1 at h
    have h1 : s1.length ≤ s.length := by
      rw [← hs1]; split
      · exact stripBlanks_length_le s
      · exact Nat.le_refl _
    split at h
    · cases h
      have := cdataText_length_le s1
      refine ⟨rfl, ?_⟩
      simp only [List.length_append]; omega
    · generalize hs2 : (if (isSyncml c.lang.id && (match st.curTag with
          | some r => r.page == 1 && r.token == 0x13
          | none => false) && s1 == b!"application/vnd.syncml-devinf+wbxml") = true
          then b!"application/vnd.syncml-devinf+xml" else s1) = s2 at h
      have h2 : s2.length ≤ s1.length := by
        rw [← hs2]
        refine ite_length_le (fun hc => ?_) (Nat.le_refl _)
        rw [Bool.and_eq_true, beq_iff_eq] at hc
        rw [hc.2]; decide
      generalize hs3 : (if (c.lang.id == 2201 && (match st.curTag with
          | some r => r.page == 1 && r.token == 0x13
          | none => false) && s2 == b!"application/vnd.syncml.dmtnds+wbxml") = true
          then b!"application/vnd.syncml.dmtnds+xml" else s2) = s3 at h
      have h3 : s3.length ≤ s2.length := by
        rw [← hs3]
        refine ite_length_le (fun hc => ?_) (Nat.le_refl _)
        rw [Bool.and_eq_true, beq_iff_eq] at hc
        rw [hc.2]; decide
      split at h
      · split at h
        · cases h
        · cases h
          refine ⟨rfl, ?_⟩
          rw [xmlEscape_safe _ _ (b64EncodeGo_safe s3)]
          have := b64EncodeGo_length_le s3
          simp only [List.length_append]; omega
      · cases h
        refine ⟨rfl, ?_⟩
        have := xmlEscape_length_le (c.gen == 2) s3
        simp only [List.length_append]; omega


/-! ### The cost function -/

mutual
/-- Upper bound of the octets `xmlNode` appends for a node: `δ` indentation step (0 unless `gen = 1`),
    `N` longest namespace name of the current language, `I` indentation level. -/
def xcost (δ N I : Nat) : Node → Nat
  | .elt n a kids => 2 * (I * δ) + 2 * n.size + N + 18 + 6 * attrsSize a + xcostL δ N (I + 1) kids
  | .text s => 6 * s.length + 2
  | .cdata kids => 12 + xcostL δ N I kids
  | .tree none _ _ => 0
  | .tree (some _) _ none => 0
  | .tree (some l) _ (some r) => xcost δ (langNs l) I r
def xcostL (δ N I : Nat) : List Node → Nat
  | [] => 0
  | n :: rest => xcost δ N I n + xcostL δ N I rest
end

mutual
theorem xcost_mono (δ : Nat) {I J : Nat} (h : I ≤ J) : ∀ (N : Nat) (n : Node), xcost δ N I n ≤ xcost δ N J n
  | N, .elt n a kids => by
    have := xcostL_mono δ (Nat.add_le_add_right h 1) N kids
    have := Nat.mul_le_mul_right δ h
    simp only [xcost]; omega
  | _, .text s => by simp only [xcost]; omega
  | N, .cdata kids => by
    have := xcostL_mono δ h N kids
    simp only [xcost]; omega
  | _, .tree none _ _ => by simp only [xcost]; omega
  | _, .tree (some _) _ none => by simp only [xcost]; omega
  | _, .tree (some l) _ (some r) => by
    have := xcost_mono δ h (langNs l) r
    simp only [xcost]; omega
theorem xcostL_mono (δ : Nat) {I J : Nat} (h : I ≤ J) : ∀ (N : Nat) (ns : List Node), xcostL δ N I ns ≤ xcostL δ N J ns
  | _, [] => by simp only [xcostL]; omega
  | N, n :: rest => by
    have := xcost_mono δ h N n
    have := xcostL_mono δ h N rest
    simp only [xcostL]; omega
end

/-- The effective indentation step. -/
def effD (c : XCfg) : Nat := if c.gen == 1 then c.delta.toNat else 0

theorem indOf_eq (c : XCfg) (st : XSt) : indOf c st = st.indent.toNat * effD c := by
  unfold indOf effD; split <;> simp

theorem xmlOpen_out (c : XCfg) (p : Parent) (name : Name) (attrs : List Attr) (kids : List Node) (st : XSt) :
    (xmlOpen c p name attrs kids st).indent = (if deeper c kids then st.indent + 1 else st.indent) ∧
    (xmlOpen c p name attrs kids st).out.length ≤
      st.out.length + st.indent.toNat * effD c + name.size + langNs c.lang + 13 + 6 * attrsSize attrs := by
  unfold xmlOpen
  have h1 := xmlTag_length_le c p name st
  rw [indOf_eq] at h1
  split
  · obtain ⟨a1, a2⟩ := xmlAttrs_out c attrs (xmlTag c p name st)
    obtain ⟨b1, b2⟩ := xmlEndAttrs_out c kids (attrs.foldl (fun st a => xmlAttr c a st) (xmlTag c p name st))
    rw [a1, xmlTag_indent] at b1
    exact ⟨b1, by omega⟩
  · obtain ⟨b1, b2⟩ := xmlEndAttrs_out c kids (xmlTag c p name st)
    rw [xmlTag_indent] at b1
    exact ⟨b1, by omega⟩

/-- **`xmlNode` keeps the indentation level and appends at most `xcost`.** -/
theorem xml_out (f : Nat) :
    (∀ (c : XCfg) (p : Parent) (n : Node) (st st' : XSt), xmlNode c p f n st = .ok st' →
        st'.indent = st.indent ∧
        st'.out.length ≤ st.out.length + xcost (effD c) (langNs c.lang) st.indent.toNat n) ∧
    (∀ (c : XCfg) (p : Parent) (ns : List Node) (st st' : XSt), xmlNodes c p f ns st = .ok st' →
        st'.indent = st.indent ∧
        st'.out.length ≤ st.out.length + xcostL (effD c) (langNs c.lang) st.indent.toNat ns) := by
  induction f with
  | zero =>
    exact ⟨fun c p n st st' h => (by rw [xmlNode_zero] at h; cases h),
           fun c p ns st st' h => (by rw [xmlNodes_zero] at h; cases h)⟩
  | succ f ih =>
    refine ⟨?_, ?_⟩
    · intro c p n st st' h
      cases n with
      | elt name attrs kids =>
        rw [xmlNode_elt] at h
        cases hk : xmlNodes c (childScope p name) f kids (xmlOpen c p name attrs kids st) with
        | error e => rw [hk] at h; cases h
        | ok st1 =>
          rw [hk] at h
          obtain ⟨k1, k2⟩ := ih.2 c _ kids _ st1 hk
          obtain ⟨o1, o2⟩ := xmlOpen_out c p name attrs kids st
          -- the children are written at most one level deeper
          have hI : (xmlOpen c p name attrs kids st).indent.toNat ≤ st.indent.toNat + 1 := by
            rw [o1]; split
            · exact uint8_succ_toNat_le _
            · omega
          have k3 := xcostL_mono (effD c) hI (langNs c.lang) kids
          cases h
          simp only [xcost]
          by_cases hd : deeper c kids = true
          · have hne : kids.isEmpty = false := haveChildElt_ne_nil (by
              unfold deeper at hd; rw [Bool.and_eq_true] at hd; exact hd.2)
            have hg : effD c = c.delta.toNat := by
              unfold deeper at hd; rw [Bool.and_eq_true] at hd
              unfold effD; rw [if_pos hd.1]
            obtain ⟨e1, e2⟩ := xmlEndTag_out c name kids st1
            rw [hd] at e1 e2 o1
            simp only [if_true] at e1 e2 o1
            rw [k1, o1, uint8_succ_pred] at e1 e2
            simp only [hne, Bool.false_eq_true, if_false]
            rw [← hg] at e2
            exact ⟨e1, by omega⟩
          · have hd' : deeper c kids = false := by simpa using hd
            rw [hd'] at o1
            simp only [Bool.false_eq_true, if_false] at o1
            cases hne : kids.isEmpty with
            | true =>
              simp only [if_true]
              exact ⟨k1.trans o1, by omega⟩
            | false =>
              obtain ⟨e1, e2⟩ := xmlEndTag_out c name kids st1
              rw [hd'] at e1 e2
              simp only [Bool.false_eq_true, if_false] at e1 e2 ⊢
              exact ⟨e1.trans (k1.trans o1), by omega⟩
      | text s =>
        rw [xmlNode_text] at h
        cases hk : xmlText c s st with
        | error e => rw [hk] at h; cases h
        | ok st1 =>
          rw [hk] at h; cases h
          obtain ⟨t1, t2⟩ := xmlText_out c s st st1 hk
          simp only [xcost]
          exact ⟨t1, by omega⟩
      | cdata kids =>
        rw [xmlNode_cdata] at h
        cases hk : xmlNodes c p f kids { st with inCdata := true, out := st.out ++ b!"<![CDATA[" } with
        | error e => rw [hk] at h; cases h
        | ok st1 =>
          rw [hk] at h; cases h
          obtain ⟨k1, k2⟩ := ih.2 c _ kids _ st1 hk
          simp only [xcost, List.length_append, List.length_cons, List.length_nil] at k2 ⊢
          exact ⟨k1, by omega⟩
      | tree l cs r =>
        cases l with
        | none => rw [xmlNode_tree_none] at h; cases h
        | some l =>
          cases r with
          | none => rw [xmlNode_tree_noroot] at h; cases h
          | some r =>
            rw [xmlNode_tree] at h
            cases hk : xmlNode { c with lang := l } .none f r { indent := st.indent } with
            | error e => rw [hk] at h; cases h
            | ok st1 =>
              rw [hk] at h; cases h
              obtain ⟨k1, k2⟩ := ih.1 _ _ r _ st1 hk
              have := cstrOf_length_le st1.out
              have he : effD { c with lang := l } = effD c := rfl
              simp only [xcost, List.length_append, List.length_nil, he] at k2 ⊢
              exact ⟨trivial, by omega⟩
    · intro c p ns st st' h
      cases ns with
      | nil => rw [xmlNodes_nil] at h; cases h; simp only [xcostL]; exact ⟨trivial, by omega⟩
      | cons n rest =>
        rw [xmlNodes_cons] at h
        cases hk : xmlNode c p f n st with
        | error e => rw [hk] at h; cases h
        | ok st1 =>
          rw [hk] at h
          obtain ⟨a1, a2⟩ := ih.1 c p n st st1 hk
          obtain ⟨b1, b2⟩ := ih.2 c p rest st1 st' h
          rw [a1] at b1 b2
          simp only [xcostL]
          exact ⟨b1, by omega⟩


/-! ### The cost as a polynomial in size and depth -/

mutual
/-- Every embedded document's language satisfies `P`. -/
def langsOk (P : Lang → Bool) : Node → Bool
  | .elt _ _ kids => langsOkL P kids
  | .text _ => true
  | .cdata kids => langsOkL P kids
  | .tree none _ none => true
  | .tree none _ (some r) => langsOk P r
  | .tree (some l) _ none => P l
  | .tree (some l) _ (some r) => P l && langsOk P r
def langsOkL (P : Lang → Bool) : List Node → Bool
  | [] => true
  | n :: rest => langsOk P n && langsOkL P rest
end

theorem langsOkL_iff (P : Lang → Bool) : ∀ (ns : List Node), langsOkL P ns = true ↔ ∀ k ∈ ns, langsOk P k = true
  | [] => by simp [langsOkL]
  | n :: rest => by
    simp only [langsOkL, Bool.and_eq_true, langsOkL_iff P rest, List.mem_cons, forall_eq_or_imp]

theorem size_tree_some (l : Option Lang) (cs : Nat) (r : Node) : (Node.tree l cs (some r)).size = 1 + r.size := by
  simp [Node.size, Node.sizeW]
theorem size_tree_none (l : Option Lang) (cs : Nat) : (Node.tree l cs none).size = 1 := by
  simp [Node.size, Node.sizeW]
theorem sizeL_nil : Node.sizeL [] = 0 := by simp [Node.sizeL, Node.sizeWL]
theorem sizeL_cons (n : Node) (rest : List Node) : Node.sizeL (n :: rest) = n.size + Node.sizeL rest := by
  simp [Node.sizeL, Node.sizeWL, Node.size]

theorem ind_mono (δ : Nat) {s s' x x' : Nat} (hs : s ≤ s') (hx : x ≤ x') : δ * (s * x) ≤ δ * (s' * x') :=
  Nat.mul_le_mul_left δ (Nat.mul_le_mul hs hx)

theorem ind_elt (δ I X SL S : Nat) (hS : 1 + SL ≤ S) (hX : I ≤ X) : I * δ + δ * (SL * X) ≤ δ * (S * X) := by
  have h1 : δ * ((1 + SL) * X) ≤ δ * (S * X) := ind_mono δ hS (Nat.le_refl _)
  have h2 : δ * ((1 + SL) * X) = δ * X + δ * (SL * X) := by rw [Nat.add_mul, Nat.one_mul, Nat.mul_add]
  have h3 : δ * I ≤ δ * X := Nat.mul_le_mul_left δ hX
  rw [Nat.mul_comm I δ]
  omega

theorem ind_cons (δ a b x y m : Nat) (hx : x ≤ m) (hy : y ≤ m) : δ * (a * x) + δ * (b * y) ≤ δ * ((a + b) * m) := by
  have h1 : δ * (a * x) ≤ δ * (a * m) := ind_mono δ (Nat.le_refl _) hx
  have h2 : δ * (b * y) ≤ δ * (b * m) := ind_mono δ (Nat.le_refl _) hy
  rw [Nat.add_mul, Nat.mul_add]
  omega

mutual
theorem xcost_le (δ K A : Nat) (hA : 18 + K ≤ A) : ∀ (N I : Nat) (n : Node), N ≤ K →
    langsOk (fun l => decide (langNs l ≤ K)) n = true →
    xcost δ N I n ≤ A * n.size + 2 * (δ * (n.size * (I + n.eltDepth)))
  | N, I, .elt name a kids, hN, hl => by
    simp only [langsOk] at hl
    have ih := xcostL_le δ K A hA N (I + 1) kids hN hl
    have e1 := ind_elt δ I (I + (1 + Node.eltDepthL kids)) (Node.sizeL kids)
      (1 + name.size + attrsSize a + Node.sizeL kids) (by omega) (by omega)
    have e2 : A * (1 + name.size + attrsSize a + Node.sizeL kids) =
        A + A * name.size + A * attrsSize a + A * Node.sizeL kids := by
      simp only [Nat.mul_add, Nat.mul_one]
    have e3 : 2 * name.size ≤ A * name.size := Nat.mul_le_mul_right _ (by omega)
    have e4 : 6 * attrsSize a ≤ A * attrsSize a := Nat.mul_le_mul_right _ (by omega)
    have e5 : I + 1 + Node.eltDepthL kids = I + (1 + Node.eltDepthL kids) := by omega
    rw [e5] at ih
    simp only [xcost, X2W.size_elt', Node.eltDepth]
    omega
  | N, I, .text s, _, _ => by
    have e1 : A * (1 + s.length) = A + A * s.length := by simp only [Nat.mul_add, Nat.mul_one]
    have e2 : 6 * s.length ≤ A * s.length := Nat.mul_le_mul_right _ (by omega)
    simp only [xcost, X2W.size_text']
    omega
  | N, I, .cdata kids, hN, hl => by
    simp only [langsOk] at hl
    have ih := xcostL_le δ K A hA N I kids hN hl
    have e1 := ind_mono δ (s := Node.sizeL kids) (s' := 1 + Node.sizeL kids) (x := I + Node.eltDepthL kids)
      (x' := I + Node.eltDepthL kids) (by omega) (by omega)
    have e2 : A * (1 + Node.sizeL kids) = A + A * Node.sizeL kids := by simp only [Nat.mul_add, Nat.mul_one]
    simp only [xcost, X2W.size_cdata', Node.eltDepth]
    omega
  | _, _, .tree none _ _, _, _ => by simp only [xcost]; omega
  | _, _, .tree (some _) _ none, _, _ => by simp only [xcost]; omega
  | N, I, .tree (some l) cs (some r), _, hl => by
    simp only [langsOk, Bool.and_eq_true, decide_eq_true_eq] at hl
    have ih := xcost_le δ K A hA (langNs l) I r hl.1 hl.2
    have e1 := ind_mono δ (s := r.size) (s' := 1 + r.size) (x := I + r.eltDepth)
      (x' := I + r.eltDepth) (by omega) (by omega)
    have e2 : A * (1 + r.size) = A + A * r.size := by simp only [Nat.mul_add, Nat.mul_one]
    simp only [xcost, size_tree_some, Node.eltDepth]
    omega
theorem xcostL_le (δ K A : Nat) (hA : 18 + K ≤ A) : ∀ (N I : Nat) (ns : List Node), N ≤ K →
    langsOkL (fun l => decide (langNs l ≤ K)) ns = true →
    xcostL δ N I ns ≤ A * Node.sizeL ns + 2 * (δ * (Node.sizeL ns * (I + Node.eltDepthL ns)))
  | _, _, [], _, _ => by simp only [xcostL]; omega
  | N, I, n :: rest, hN, hl => by
    simp only [langsOkL, Bool.and_eq_true] at hl
    have ih1 := xcost_le δ K A hA N I n hN hl.1
    have ih2 := xcostL_le δ K A hA N I rest hN hl.2
    have e1 := ind_cons δ n.size (Node.sizeL rest) (I + n.eltDepth) (I + Node.eltDepthL rest)
      (I + max n.eltDepth (Node.eltDepthL rest)) (by omega) (by omega)
    have e2 : A * (n.size + Node.sizeL rest) = A * n.size + A * Node.sizeL rest := Nat.mul_add _ _ _
    simp only [xcostL, sizeL_cons, Node.eltDepthL]
    omega
end

/-! ### The whole document -/

/-- Octets of the XML declaration and DOCTYPE line of a language, without the two newlines. -/
def hdrLen (l : Lang) : Nat :=
  47 + (l.pub.root.getD []).length + (l.pub.xmlId.getD []).length + (l.pub.dtd.getD []).length

theorem xmlHeader_length_le (l : Lang) (gen : Nat) : (xmlHeader l gen).length ≤ hdrLen l + 2 := by
  have hn : (if gen == 1 then newLine else ([] : Bytes)).length ≤ 1 := by split <;> simp [newLine]
  unfold xmlHeader hdrLen
  cases hx : l.pub.xmlId with
  | none =>
    simp only [List.length_append, List.length_cons, List.length_nil, Option.getD_none] at hn ⊢
    omega
  | some p =>
    by_cases hp : p.isEmpty = true
    · simp only [hp, if_true, List.length_append, List.length_cons, List.length_nil, Option.getD_some] at hn ⊢
      omega
    · simp only [hp, if_false, List.length_append, List.length_cons, List.length_nil, Option.getD_some,
        Bool.false_eq_true] at hn ⊢
      omega

/-- The indentation step of a conversion: the `indent` parameter in indented mode, nothing otherwise. -/
def indentOf (cfg : W2XCfg) : Nat := if cfg.gen == 1 then cfg.indent.toNat else 0

/-- The generator's configuration for a document of language `lang`. -/
def xcfgOf (cfg : W2XCfg) (lang : Lang) : XCfg where
  lang := lang
  gen := cfg.gen
  delta := if cfg.gen == 1 then cfg.indent else 1
  ignoreEmpty := !cfg.keepWs
  removeBlanks := !cfg.keepWs

/-- **Output ≤ tree** — `K` bounds the namespace names of the languages that occur (the document's and
    the embedded documents'). -/
theorem treeToXml_length_le (cfg : W2XCfg) (fuel : Nat) (t : Tree) (xml : Bytes) (K : Nat)
    (hK : langsOk (fun l => decide (langNs l ≤ K)) (.tree t.lang t.origCharset t.root) = true)
    (h : treeToXml cfg fuel t = .ok xml) :
    ∃ l, t.lang = some l ∧
      xml.length ≤ (18 + K) * t.size + 2 * (indentOf cfg * (t.size * t.eltDepth)) + hdrLen l + 2 := by
  unfold treeToXml at h
  split at h
  · cases h
  · cases h
  · rename_i lang root hl hr
    refine ⟨lang, hl, ?_⟩
    change (xmlNode (xcfgOf cfg lang) .none fuel root {} >>= fun st => pure (xmlHeader lang cfg.gen ++ st.out)) = _ at h
    generalize hc : xcfgOf cfg lang = c at h
    cases hk : xmlNode c .none fuel root {} with
    | error e => rw [hk] at h; cases h
    | ok st =>
      rw [hk] at h; cases h
      obtain ⟨_, k2⟩ := (xml_out fuel).1 c .none root {} st hk
      rw [hl, hr] at hK
      simp only [langsOk, Bool.and_eq_true, decide_eq_true_eq] at hK
      have hlang : c.lang = lang := by rw [← hc]; rfl
      have heff : effD c = indentOf cfg := by
        rw [← hc]; unfold effD indentOf xcfgOf; dsimp only
        split
        · rfl
        · rfl
      have k3 := xcost_le (effD c) K (18 + K) (Nat.le_refl _) (langNs c.lang) 0 root (by rw [hlang]; exact hK.1) hK.2
      have hh := xmlHeader_length_le lang cfg.gen
      have e1 := ind_mono (indentOf cfg) (s := root.size) (s' := 1 + root.size) (x := 0 + root.eltDepth)
        (x' := root.eltDepth) (by omega) (by omega)
      have e2 : (18 + K) * (1 + root.size) = (18 + K) + (18 + K) * root.size := by
        simp only [Nat.mul_add, Nat.mul_one]
      have hs : t.size = 1 + root.size := by
        unfold Tree.size Tree.sizeW; rw [hr]; exact size_tree_some _ _ _
      have hd : t.eltDepth = root.eltDepth := by
        unfold Tree.eltDepth; rw [hr]; simp only [Node.eltDepth]
      rw [heff] at k3
      have h0 : ({} : XSt).indent.toNat = 0 := rfl
      have h00 : ({} : XSt).out.length = 0 := rfl
      rw [h0, h00] at k2
      rw [heff] at k2
      simp only [List.length_append]
      rw [hs, hd]
      omega

end Wbxml.Lemmas.W2X
