/-
  C02, encoder half: `treeToWbxml` never answers `.ub` / `.fuel` on trees whose names are non-empty
  C strings, whose embedded documents have a root, and whose languages' table rows have non-empty
  names. (`Ok` is the result predicate of `Lemmas/ParserSafeBasic.lean`: success with a
  post-condition, or a non-zero library error code.)
-/
import Wbxml.Model.EncWbxml
import Wbxml.Lemmas.ParserSafeLoops
import Wbxml.Lemmas.CodecBase64
namespace Wbxml.Lemmas.X2W
open Wbxml Wbxml.Model Wbxml.Lemmas.ParserSafe
open Wbxml.Model.Codec (mbEncode b64DecodeE)
open Wbxml.Model.Typed (encodeDatetime encodeWvInt encodeWvDate wvEncKind WvKind WvItem)

/-! ### Hypotheses on tables and trees -/

/-- Every row of the language's tag, attribute and attribute-value tables has a non-empty name
    (a `""` attribute-value row would make `strstr` succeed for ever in
    `wbxml_encode_value_element_buffer`). -/
def langNames (l : Lang) : Bool :=
  (match l.tags with | some t => t.all (fun r => !r.name.isEmpty) | none => true) &&
  (match l.attrs with | some t => t.all (fun r => !r.name.isEmpty) | none => true) &&
  (match l.values with | some t => t.all (fun r => !r.name.isEmpty) | none => true)

theorem langNames_tags {l : Lang} (h : langNames l = true) {t} (ht : l.tags = some t) {r} (hr : r ∈ t) :
    r.name ≠ [] := by
  simp only [langNames, ht, Bool.and_eq_true, List.all_eq_true] at h
  have := h.1.1 r hr
  intro e; simp [e] at this

theorem langNames_attrs {l : Lang} (h : langNames l = true) {t} (ht : l.attrs = some t) {r} (hr : r ∈ t) :
    r.name ≠ [] := by
  simp only [langNames, ht, Bool.and_eq_true, List.all_eq_true] at h
  have := h.1.2 r hr
  intro e; simp [e] at this

theorem langNames_values {l : Lang} (h : langNames l = true) {t} (ht : l.values = some t) {r} (hr : r ∈ t) :
    r.name ≠ [] := by
  simp only [langNames, ht, Bool.and_eq_true, List.all_eq_true] at h
  have := h.2 r hr
  intro e; simp [e] at this

/-- An element name the encoder can put into the string table: not the empty C string. -/
def nameOk : Name → Bool
  | .token r => !r.name.isEmpty
  | .literal s => !(cstrOf s).isEmpty

def anameOk : AName → Bool
  | .token r => !r.name.isEmpty
  | .literal s => !(cstrOf s).isEmpty

mutual
/-- Names are non-empty C strings; every embedded document that has a language has a root, and its
    language's rows have non-empty names. -/
def nodeOk : Node → Bool
  | .elt name attrs kids => nameOk name && attrs.all (fun a => anameOk a.name) && nodesOk kids
  | .text _ => true
  | .cdata kids => nodesOk kids
  | .tree lang _ root =>
    match lang with
    | none => true
    | some l => langNames l && (match root with
      | some r => nodeOk r
      | none => false)
def nodesOk : List Node → Bool
  | [] => true
  | n :: rest => nodeOk n && nodesOk rest
end

/-- The encoder's options after `encoder_encode_tree`: OTA settings never use a string table. -/
structure CfgOk (c : WCfg) : Prop where
  names : langNames c.lang = true
  ota : c.lang.id = 1901 → c.useStrtbl = false

/-- String-table entries are non-empty (and never alias a text node's buffer). -/
def StOk (st : WSt) : Prop := ∀ e ∈ st.strtbl, e.alias = none ∧ e.str ≠ []

theorem StOk.of_eq {st st' : WSt} (h : StOk st) (e : st'.strtbl = st.strtbl) : StOk st' := by
  unfold StOk; rw [e]; exact h

theorem stOk_init : StOk {} := by intro e he; cases he

attribute [local simp] EW.badDatetime EW.badParameter EW.internal EW.unknownTag EW.strtblDisabled

/-! ### `splitPass`: the fuel suffices for a non-empty needle -/

theorem splitPass_ok (needle : Bytes) (mk : VElt) (hn : needle ≠ []) :
    ∀ (f : Nat) (done l : List VElt), (l.map VElt.weight).sum < f →
      Safe (splitPass needle mk f done l) := by
  have hlen : 1 ≤ needle.length := by
    cases needle with
    | nil => exact absurd rfl hn
    | cons _ _ => simp
  intro f
  induction f with
  | zero => intro done l h; omega
  | succ f ih =>
    intro done l h
    cases l with
    | nil => simp [splitPass, Safe]
    | cons e rest =>
      simp only [List.map_cons, List.sum_cons] at h
      cases e with
      | str s =>
        simp only [splitPass]
        simp only [VElt.weight] at h
        split
        · exact ih _ _ (by omega)
        · rename_i idx _
          split
          · rename_i hlt
            have hp : ptrAdd "value element remainder" s (idx + needle.length) = .ok (s.drop (idx + needle.length)) := by
              simp [ptrAdd, Nat.le_of_lt hlt]
            simp only [hp, bind, Except.bind]
            apply ih
            simp only [List.map_cons, List.sum_cons, VElt.weight, List.length_drop]
            omega
          · exact ih _ _ (by omega)
      | ext r => simp only [splitPass]; exact ih _ _ (by simp only [VElt.weight] at h; omega)
      | tok r => simp only [splitPass]; exact ih _ _ (by simp only [VElt.weight] at h; omega)
      | ref o => simp only [splitPass]; exact ih _ _ (by simp only [VElt.weight] at h; omega)

theorem splitByValues_ok : ∀ (rows : List ValRow) (l : List VElt), (∀ r ∈ rows, r.name ≠ []) →
    Safe (splitByValues rows l)
  | [], l, _ => by simp [splitByValues, Safe]
  | r :: rs, l, h => by
    simp only [splitByValues]
    refine Ok.bind (splitPass_ok r.name (.tok r) (h r (by simp)) _ [] l (by simp [splitFuel])) ?_
    intro l' _
    exact splitByValues_ok rs l' (fun x hx => h x (by simp [hx]))

theorem splitByStrtbl_ok : ∀ (es : List StrEntry) (l : List VElt), (∀ e ∈ es, e.str ≠ []) →
    Safe (splitByStrtbl es l)
  | [], l, _ => by simp [splitByStrtbl, Safe]
  | e :: es, l, h => by
    simp only [splitByStrtbl]
    refine Ok.bind (splitPass_ok e.str (.ref e.offset) (h e (by simp)) _ [] l (by simp [splitFuel])) ?_
    intro l' _
    exact splitByStrtbl_ok es l' (fun x hx => h x (by simp [hx]))

/-! ### Frame facts: what leaves the string table alone -/

@[simp] theorem emit_strtbl (st : WSt) (bs : Bytes) : (st.emit bs).strtbl = st.strtbl := rfl
@[simp] theorem emit_curAttr (st : WSt) (bs : Bytes) : (st.emit bs).curAttr = st.curAttr := rfl

@[simp] theorem attrTokenW_strtbl (t p : Nat) (st : WSt) : (attrTokenW t p st).strtbl = st.strtbl := by
  unfold attrTokenW; split <;> rfl

@[simp] theorem attrTokenW_curAttr (t p : Nat) (st : WSt) : (attrTokenW t p st).curAttr = st.curAttr := by
  unfold attrTokenW; split <;> rfl

@[simp] theorem tagTokenW_strtbl (t p : Nat) (st : WSt) : (tagTokenW t p st).strtbl = st.strtbl := by
  unfold tagTokenW; split <;> rfl

@[simp] theorem emitVElt_strtbl (st : WSt) (e : VElt) : (emitVElt st e).strtbl = st.strtbl := by
  cases e <;> simp [emitVElt]
  split <;> simp

@[simp] theorem emitVElts_strtbl (l : List VElt) (st : WSt) : (emitVElts st l).strtbl = st.strtbl := by
  unfold emitVElts
  induction l generalizing st with
  | nil => rfl
  | cons e r ih => simp [List.foldl_cons, ih]

theorem aliasWrite_strtbl (st : WSt) (k : Nat) (s : Bytes) (h : StOk st) : (st.aliasWrite k s).strtbl = st.strtbl := by
  unfold WSt.aliasWrite
  simp only
  conv => rhs; rw [← List.map_id st.strtbl]
  apply List.map_congr_left
  intro e he
  simp [(h e he).1]

theorem strtblAdd_ok (st : WSt) (s : Bytes) (hs : s ≠ []) (h : StOk st) : StOk (strtblAdd st s none).1 := by
  unfold strtblAdd
  split
  · exact h
  · intro e he
    simp only [List.mem_append, List.mem_singleton] at he
    rcases he with he | rfl
    · exact h e he
    · exact ⟨rfl, hs⟩

/-! ### Typed codecs never flag -/

theorem b64DecodeE_safe (s : Bytes) : Safe (b64DecodeE s) := by
  rw [Wbxml.Lemmas.Codec.b64DecodeE_eq]; simp [Safe]

theorem dtFilter_safe : ∀ (s : Bytes), Safe (Typed.dtFilter s)
  | [] => by simp [Typed.dtFilter, Safe]
  | c :: cs => by
    have ih := dtFilter_safe cs
    unfold Typed.dtFilter
    split
    · cases h : Typed.dtFilter cs with
      | ok r => simp [Except.map, Safe]
      | error e => rw [h] at ih; cases e <;> simp_all [Except.map, Safe]
    · split
      · exact ih
      · simp [Safe]

theorem encodeDatetime_safe (s : Bytes) : Safe (encodeDatetime s) := by
  unfold encodeDatetime Typed.datetimePayload
  have := dtFilter_safe s
  cases h : Typed.dtFilter s with
  | ok r => simp [Except.map, Safe]
  | error e => rw [h] at this; cases e <;> simp_all [Except.map, Safe]

theorem encodeWvInt_safe (s : Bytes) : Safe (encodeWvInt s) := by
  unfold encodeWvInt
  split
  · simp [Safe]
  · split <;> simp [Safe]

theorem wvDateOpaque_safe (s : Bytes) : Safe (Typed.wvDateOpaque s) := by
  unfold Typed.wvDateOpaque
  extract_lets len0 tmp len zr
  split
  · simp [Safe]
  · split
    · simp [Safe]
    · have hzr : Safe zr := by
        unfold zr
        (repeat' split) <;> simp [Safe]
      cases hz : zr with
      | error e => rw [hz] at hzr; cases e <;> simp_all [Safe]
      | ok p =>
        obtain ⟨zone, t1⟩ := p
        simp only
        (repeat' split) <;> simp [Safe]

theorem encodeWvDate_safe (s : Bytes) (hs : s ≠ []) : Safe (encodeWvDate s) := by
  unfold encodeWvDate
  simp only [hs, ↓reduceIte]
  split
  · simp [Safe]
  · exact wvDateOpaque_safe s


/-! ### Values -/

theorem otaIconW_ok (na : Option (List Attr)) (s : Bytes) (st : WSt) :
    Ok (fun r => ∀ st', r = some st' → st'.strtbl = st.strtbl) (otaIconW na s st) := by
  unfold otaIconW
  split
  · split
    · bind_ok (b64DecodeE_safe (b64TextW s)) with d _
      simp only [Ok_pure]
      intro st' h; cases h; rfl
    · simp
  · simp

theorem attrSpecialW_ok (c : WCfg) (na : Option (List Attr)) (s : Bytes) (st : WSt)
    (hota : c.lang.id = 1901 → st.curAttr ≠ none) :
    Ok (fun r => ∀ st', r = some st' → st'.strtbl = st.strtbl) (attrSpecialW c na s st) := by
  unfold attrSpecialW
  split
  · split
    · simp
    · split
      · bind_ok (encodeDatetime_safe s) with d _
        simp only [Ok_pure]
        intro st' h; cases h; rfl
      · simp
  · split
    · split
      · simp
      · split
        · bind_ok (encodeDatetime_safe s) with d _
          simp only [Ok_pure]
          intro st' h; cases h; rfl
        · simp
    · split
      · rename_i h1901
        have : c.lang.id = 1901 := by simpa using h1901
        split
        · rename_i hnone; exact absurd hnone (hota this)
        · split
          · exact otaIconW_ok na s st
          · simp
      · simp

theorem encAttrValueW_ok (c : WCfg) (hc : CfgOk c) (na : Option (List Attr)) (s : Bytes) (st : WSt)
    (hst : StOk st) (hota : c.lang.id = 1901 → st.curAttr ≠ none) :
    Ok (fun st' => st'.strtbl = st.strtbl) (encAttrValueW c na s st) := by
  unfold encAttrValueW
  split
  · simp
  · bind_ok (attrSpecialW_ok c na s st hota) with r hr
    cases r with
    | some st' => simp only [Ok_pure]; exact hr st' rfl
    | none =>
      simp only
      have h1 : Safe (match c.lang.values with
          | some vals => splitByValues vals [VElt.str s]
          | none => pure [VElt.str s]) := by
        split
        · rename_i vals hv
          exact splitByValues_ok vals _ (fun r hr => langNames_values hc.names hv hr)
        · simp [Safe]
      bind_ok h1 with l _
      have h2 : Safe (if c.useStrtbl then splitByStrtbl st.strtbl l else pure l) := by
        split
        · exact splitByStrtbl_ok _ _ (fun e he => (hst e he).2)
        · simp [Safe]
      bind_ok h2 with l2 _
      simp

theorem wvContentW_ok (c : WCfg) (s : Bytes) (hs : s ≠ []) (st : WSt) :
    Ok (fun r => ∀ st', r = some st' → st'.strtbl = st.strtbl) (wvContentW c s st) := by
  unfold wvContentW
  simp only
  split
  · bind_ok (encodeWvInt_safe s) with r _
    cases r with
    | some item => simp only [Ok_pure]; intro st' h; cases h; rfl
    | none => simp
  · bind_ok (encodeWvDate_safe s hs) with item _
    simp only [Ok_pure]; intro st' h; cases h; rfl
  · split
    · simp
    · split
      · simp only [Ok_pure]; intro st' h; cases h; rfl
      · simp

theorem drmrelContentW_ok (parent : Option Name) (s : Bytes) (st : WSt) :
    Ok (fun r => ∀ st', r = some st' → st'.strtbl = st.strtbl) (drmrelContentW parent s st) := by
  unfold drmrelContentW
  split
  · split
    · bind_ok (b64DecodeE_safe (b64TextW s)) with d _
      simp only [Ok_pure]; intro st' h; cases h; rfl
    · simp
  · simp

theorem encContentValueW_ok (c : WCfg) (parent : Option Name) (s : Bytes) (st : WSt) (hst : StOk st) :
    Ok (fun st' => st'.strtbl = st.strtbl) (encContentValueW c parent s st) := by
  unfold encContentValueW
  split
  · simp
  · rename_i hs
    have hs' : s ≠ [] := by intro e; simp [e] at hs
    have h1 : Ok (fun r => ∀ st', r = some st' → st'.strtbl = st.strtbl)
        (if isWv c.lang.id then wvContentW c s st else pure none) := by
      split
      · exact wvContentW_ok c s hs' st
      · simp
    bind_ok h1 with r1 hr1
    cases r1 with
    | some st' => simp only [Ok_pure]; exact hr1 st' rfl
    | none =>
      simp only
      have h2 : Ok (fun r => ∀ st', r = some st' → st'.strtbl = st.strtbl)
          (if c.lang.id == 1801 then drmrelContentW parent s st else pure none) := by
        split
        · exact drmrelContentW_ok parent s st
        · simp
      bind_ok h2 with r2 hr2
      cases r2 with
      | some st' => simp only [Ok_pure]; exact hr2 st' rfl
      | none =>
        simp only
        have h3 : ∀ l, Safe (if c.useStrtbl then splitByStrtbl st.strtbl l else pure l) := by
          intro l
          split
          · exact splitByStrtbl_ok _ _ (fun e he => (hst e he).2)
          · simp [Safe]
        bind_ok (h3 _) with l2 _
        simp

/-! ### Attributes -/

theorem encAttrGo_comp (name value : Bytes) : ∀ (rows : List AttrRow) (sc : AttrScan), sc.comp ≤ value.length →
    ∀ r n, encAttrGo name value rows sc = some (r, n) → n ≤ value.length
  | [], sc, h, r, n, he => by
    simp only [encAttrGo, Option.map_eq_some_iff, Prod.mk.injEq] at he
    obtain ⟨_, _, _, rfl⟩ := he
    exact h
  | row :: rows, sc, h, r, n, he => by
    unfold encAttrGo at he
    split at he
    · split at he
      · exact encAttrGo_comp name value rows _ (by split <;> exact h) r n he
      · split at he
        · simp only [Option.some.injEq, Prod.mk.injEq] at he
          omega
        · split at he
          · rename_i v _ _ hc
            simp only [Bool.and_eq_true, decide_eq_true_eq] at hc
            exact encAttrGo_comp name value rows _ (by simp only; omega) r n he
          · exact encAttrGo_comp name value rows sc h r n he
    · exact encAttrGo_comp name value rows sc h r n he

theorem attrLookup_part_le (lang : Lang) (name v : Bytes) (r : AttrRow) (comp : Nat)
    (h : attrLookup lang name v = .part r comp) : comp ≤ v.length := by
  unfold attrLookup at h
  cases ha : lang.attrs with
  | none => simp [ha] at h
  | some attrs =>
    simp only [ha] at h
    cases he : encAttr attrs name v with
    | none => simp [he] at h
    | some p =>
      obtain ⟨r', n⟩ := p
      simp only [he] at h
      split at h
      · cases h
      · cases h; exact encAttrGo_comp name v attrs {} (Nat.zero_le _) _ _ he

theorem attrLiteralW_ok (c : WCfg) (name : Bytes) (hn : name ≠ []) (st : WSt) (hst : StOk st) :
    Ok (fun st' => StOk st' ∧ c.useStrtbl = true ∧ st'.curAttr = st.curAttr) (attrLiteralW c name st) := by
  unfold attrLiteralW
  split
  · simp
  · rename_i hu
    simp only [Ok_pure]
    refine ⟨?_, by simpa using hu, ?_⟩
    · exact (strtblAdd_ok st name hn hst).of_eq rfl
    · simp only [emit_curAttr]
      unfold strtblAdd; split <;> rfl

theorem ptrAdd_safe (what : String) (s : Bytes) (n : Nat) (h : n ≤ s.length) : Safe (ptrAdd what s n) := by
  simp [ptrAdd, h, Safe]

theorem attrStartW_ok (c : WCfg) (hc : CfgOk c) (a : Attr) (ha : anameOk a.name = true) (v : Bytes) (st : WSt)
    (hst : StOk st) :
    Ok (fun r => StOk r.2 ∧ (c.lang.id = 1901 → r.1.isSome → r.2.curAttr ≠ none)) (attrStartW c a v st) := by
  unfold attrStartW
  split
  · rename_i r hname
    have hrn : r.name ≠ [] := by
      rw [hname] at ha
      intro e; simp [anameOk, e] at ha
    simp only
    split
    · simp only [Ok_pure]
      exact ⟨hst.of_eq (by simp), fun _ _ => by simp⟩
    · rename_i p _
      split
      · rename_i hpre
        split
        · have hle : p.length ≤ v.length := (List.isPrefixOf_iff_prefix.mp hpre).length_le
          bind_ok (ptrAdd_safe _ v p.length hle) with rest _
          simp only [Ok_pure]
          exact ⟨hst.of_eq (by simp), fun _ _ => by simp⟩
        · simp only [Ok_pure]
          exact ⟨hst.of_eq (by simp), fun _ h => by simp at h⟩
      · bind_ok (attrLiteralW_ok c r.name hrn _ (hst.of_eq rfl)) with st' hst'
        simp only [Ok_pure]
        refine ⟨hst'.1, fun h1901 _ => ?_⟩
        have := hc.ota h1901
        rw [hst'.2.1] at this
        cases this
  · rename_i sname hname
    have hsn : cstrOf sname ≠ [] := by
      rw [hname] at ha
      intro e; simp [anameOk, e] at ha
    simp only
    split
    · bind_ok (attrLiteralW_ok c (cstrOf sname) hsn _ (hst.of_eq rfl)) with st' hst'
      simp only [Ok_pure]
      refine ⟨hst'.1, fun h1901 _ => ?_⟩
      have := hc.ota h1901
      rw [hst'.2.1] at this
      cases this
    · simp only [Ok_pure]
      exact ⟨hst.of_eq (by simp), fun _ h => by simp at h⟩
    · rename_i r comp hhit
      have hle : comp ≤ v.length := by
        split at hhit
        · cases hhit
        · exact attrLookup_part_le _ _ _ _ _ hhit
      bind_ok (ptrAdd_safe _ v comp hle) with rest _
      simp only [Ok_pure]
      exact ⟨hst.of_eq (by simp), fun _ _ => by simp⟩

theorem encAttrW_ok (c : WCfg) (hc : CfgOk c) (na : Option (List Attr)) (a : Attr) (ha : anameOk a.name = true)
    (st : WSt) (hst : StOk st) : Ok StOk (encAttrW c na a st) := by
  unfold encAttrW
  split
  · simpa using hst
  · bind_ok (attrStartW_ok c hc a ha (cstrOf a.value) st hst) with ⟨rest, st1⟩ h1
    cases rest with
    | none =>
      simp only [pure_bind, Ok_pure]
      exact h1.1.of_eq rfl
    | some s =>
      simp only
      bind_ok (encAttrValueW_ok c hc na s st1 h1.1 (fun h => h1.2 h rfl)) with st2 h2
      simp only [Ok_pure]
      exact h1.1.of_eq h2

theorem encAttrsW_ok (c : WCfg) (hc : CfgOk c) (na : Option (List Attr)) :
    ∀ (attrs : List Attr), attrs.all (fun a => anameOk a.name) = true → ∀ (st : WSt), StOk st →
      Ok StOk (encAttrsW c na attrs st)
  | [], _, st, hst => by simpa [encAttrsW] using hst
  | a :: rest, h, st, hst => by
    simp only [List.all_cons, Bool.and_eq_true] at h
    simp only [encAttrsW]
    bind_ok (encAttrW_ok c hc na a h.1 st hst) with st1 h1
    exact encAttrsW_ok c hc na rest h.2 st1 h1

/-! ### Tags, element start, text -/

theorem name_cName_ne (name : Name) (h : nameOk name = true) : name.cName ≠ [] := by
  cases name with
  | token r => intro e; simp [nameOk, Name.cName] at h e; exact h e
  | literal s => intro e; simp [nameOk, Name.cName] at h e; exact h e

theorem tagLiteralW_ok (c : WCfg) (name : Bytes) (hn : name ≠ []) (mask : Nat) (st : WSt) (hst : StOk st) :
    Ok StOk (tagLiteralW c name mask st) := by
  unfold tagLiteralW
  split
  · simp
  · simp only [Ok_pure]
    exact (strtblAdd_ok st name hn hst).of_eq rfl

theorem encTagW_ok (c : WCfg) (name : Name) (hn : nameOk name = true) (hasContent hasAttrs : Bool) (st : WSt)
    (hst : StOk st) : Ok StOk (encTagW c name hasContent hasAttrs st) := by
  unfold encTagW
  extract_lets found st1 token page token'
  have hst1 : StOk st1 := hst.of_eq rfl
  split
  · exact tagLiteralW_ok c _ (name_cName_ne name hn) _ _ hst1
  · simp only [Ok_pure]
    exact hst1.of_eq (by simp)

theorem encElementStartW_ok (c : WCfg) (hc : CfgOk c) (na : Option (List Attr)) (name : Name)
    (hn : nameOk name = true) (attrs : List Attr) (ha : attrs.all (fun a => anameOk a.name) = true)
    (hasContent : Bool) (st : WSt) (hst : StOk st) :
    Ok StOk (encElementStartW c na name attrs hasContent st) := by
  unfold encElementStartW
  simp only
  bind_ok (encTagW_ok c name hn hasContent _ st hst) with st1 h1
  bind_ok (encAttrsW_ok c hc na attrs ha st1 h1) with st2 h2
  simp only [Ok_pure]
  split
  · exact h2.of_eq rfl
  · exact h2

theorem aliasWrite_ok (st : WSt) (k : Nat) (s : Bytes) (h : StOk st) : StOk (st.aliasWrite k s) :=
  h.of_eq (aliasWrite_strtbl st k s h)

theorem encTextW_ok (c : WCfg) (parent : Option Name) (s : Bytes) (st : WSt) (hst : StOk st) :
    Ok StOk (encTextW c parent s st) := by
  unfold encTextW
  extract_lets k st1 strip s' st2 fix s'' st3
  have hst1 : StOk st1 := hst.of_eq rfl
  have hst2 : StOk st2 := by
    unfold st2
    split
    · exact aliasWrite_ok _ _ _ hst1
    · exact hst1
  have hst3 : StOk st3 := by
    unfold st3
    split
    · exact aliasWrite_ok _ _ _ hst2
    · exact hst2
  split
  · simp only [Ok_pure]; exact hst1.of_eq rfl
  · split
    · simpa using hst1
    · split
      · split
        · simp
        · simp only [Ok_pure]
          exact hst3.of_eq rfl
      · exact (encContentValueW_ok c parent _ _ hst2).mono (fun st' e => hst2.of_eq e)

/-! ### Documents -/

theorem keepRefs_ok : ∀ (rs : List Ref) (st : WSt) (one : List Ref), StOk st → StOk (keepRefs rs st one).1
  | [], st, one, h => h
  | r :: rs, st, one, h => by
    unfold keepRefs
    split
    · rename_i hc
      simp only [Bool.and_eq_true, decide_eq_true_eq] at hc
      have hne : r.str ≠ [] := by intro e; rw [e] at hc; simp at hc
      exact keepRefs_ok rs _ one (strtblAdd_ok st r.str hne h)
    · exact keepRefs_ok rs st _ h

theorem docStartW_ok (c : WCfg) (r : Node) : StOk (docStartW c r) := by
  unfold docStartW
  split
  · unfold strtblInitialize checkReferences
    simp only
    exact keepRefs_ok _ _ _ (keepRefs_ok _ _ _ stOk_init)
  · exact stOk_init

theorem cfgOk_derive (c : WCfg) (h : langNames c.lang = true) : CfgOk (deriveCfg c) := by
  unfold deriveCfg
  split
  · exact ⟨h, fun _ => rfl⟩
  · rename_i hn
    refine ⟨h, fun h1901 => ?_⟩
    simp [h1901] at hn

theorem cfgOk_nested (c : WCfg) (l : Lang) (h : langNames l = true) : CfgOk (nestedCfg c l) :=
  cfgOk_derive _ h

mutual
/-- `parse_node` on a well-named node: success with a sound string table, or a library error code. -/
theorem encNodeG_ok : ∀ (n : Node) (c : WCfg), CfgOk c → ∀ (parent : Option Name) (encEnd : Bool),
    nodeOk n = true → ∀ (st : WSt), StOk st → Ok StOk (encNodeG c parent encEnd n st)
  | .elt name attrs kids, c, hc, parent, encEnd, hn, st, hst => by
    simp only [nodeOk, Bool.and_eq_true] at hn
    simp only [encNodeG]
    bind_ok (encElementStartW_ok c hc (some attrs) name hn.1.1 attrs hn.1.2 _ st hst) with st1 h1
    bind_ok (encNodesW_ok kids c hc (some name) hn.2 st1 h1) with st2 h2
    simp only [Ok_pure]
    split
    · exact h2.of_eq rfl
    · exact h2.of_eq rfl
  | .text s, c, hc, parent, encEnd, hn, st, hst => by
    simp only [encNodeG]
    bind_ok (encTextW_ok c parent s st hst) with st1 h1
    simp only [Ok_pure]
    exact h1.of_eq rfl
  | .cdata kids, c, hc, parent, encEnd, hn, st, hst => by
    simp only [nodeOk] at hn
    simp only [encNodeG]
    split
    · simp
    · bind_ok (encNodesW_ok kids c hc none hn { st with inCdata := true, cdata := some [] } (hst.of_eq rfl)) with st1 h1
      split
      · simp
      · simp only [Ok_pure]
        split
        · exact h1.of_eq rfl
        · exact h1.of_eq rfl
  | .tree lang cs root, c, hc, parent, encEnd, hn, st, hst => by
    cases lang with
    | none => unfold encNodeG; simp
    | some l =>
      cases root with
      | none => unfold nodeOk at hn; simp at hn
      | some r =>
        unfold nodeOk at hn
        simp only [Bool.and_eq_true] at hn
        unfold encNodeG
        simp only
        bind_ok (encNodeG_ok r (nestedCfg c l) (cfgOk_nested c l hn.1) none true hn.2 _ (docStartW_ok _ r)) with st' _
        simp only [Ok_pure]
        exact hst.of_eq rfl

theorem encNodesW_ok : ∀ (l : List Node) (c : WCfg), CfgOk c → ∀ (parent : Option Name),
    nodesOk l = true → ∀ (st : WSt), StOk st → Ok StOk (encNodesW c parent l st)
  | [], c, hc, parent, hl, st, hst => by simpa [encNodesW] using hst
  | n :: rest, c, hc, parent, hl, st, hst => by
    simp only [nodesOk, Bool.and_eq_true] at hl
    simp only [encNodesW]
    bind_ok (encNodeG_ok n c hc parent true hl.1 st hst) with st1 h1
    exact encNodesW_ok rest c hc parent hl.2 st1 h1
end

/-- A tree as `wbxml_tree_to_wbxml` needs it: when it has a language, the language's rows have
    non-empty names, there is a root, and the root is well named (same predicate as for an
    embedded document). -/
def treeOk (t : Tree) : Bool := nodeOk (.tree t.lang t.origCharset t.root)

/-- **`wbxml_tree_to_wbxml` is total on such trees**: WBXML bytes, or a non-zero error code; never a
    NULL dereference, a pointer past a terminator, or a loop that does not end. -/
theorem treeToWbxml_ok (cfg : X2WCfg) (t : Tree) (ht : treeOk t = true) : Safe (treeToWbxml cfg t) := by
  unfold treeToWbxml
  cases hl : t.lang with
  | none => simp [Safe]
  | some lang =>
    simp only [treeOk, hl] at ht
    cases hr : t.root with
    | none => rw [hr] at ht; unfold nodeOk at ht; simp at ht
    | some r =>
      rw [hr] at ht
      unfold nodeOk at ht
      simp only [Bool.and_eq_true] at ht
      simp only [encodeDocW, encNodeW]
      refine Ok.bind (encNodeG_ok r _ (cfgOk_derive _ ht.1) none true ht.2 _ (docStartW_ok _ r)) ?_
      intro st _
      simp

end Wbxml.Lemmas.X2W
