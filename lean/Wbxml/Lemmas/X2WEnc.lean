/-
  C02, encoder half: `treeToWbxml` never answers `.ub` / `.fuel` on trees whose names are non-empty
  C strings, whose embedded documents have a root, and whose languages' table rows have non-empty
  names. (`Ok` is the result predicate of `Lemmas/ParserSafeBasic.lean`: success with a
  post-condition, or a non-zero library error code.)
-/
import Wbxml.Model.EncWbxml
import Wbxml.Lemmas.ParserSafeLoops
import Wbxml.Lemmas.CodecBase64
namespace Wbxml.Lemmas.X2W
open Wbxml Wbxml.Model Wbxml.Lemmas.ParserSafe
open Wbxml.Model.Codec (mbEncode b64DecodeE)
open Wbxml.Model.Typed (encodeDatetime encodeWvInt encodeWvDate wvEncKind WvKind WvItem)

/-! ### Hypotheses on tables and trees -/

/-- Every row of the language's tag, attribute and attribute-value tables has a non-empty name
    (a `""` attribute-value row would make `strstr` succeed for ever in
    `wbxml_encode_value_element_buffer`). -/
def langNames (l : Lang) : Bool :=
  (match l.tags with | some t => t.all (fun r => !r.name.isEmpty) | none => true) &&
  (match l.attrs with | some t => t.all (fun r => !r.name.isEmpty) | none => true) &&
  (match l.values with | some t => t.all (fun r => !r.name.isEmpty) | none => true)

theorem langNames_tags {l : Lang} (h : langNames l = true) {t} (ht : l.tags = some t) {r} (hr : r ∈ t) :
    r.name ≠ [] := by
  simp only [langNames, ht, Bool.and_eq_true, List.all_eq_true] at h
  have := h.1.1 r hr
  intro e; simp [e] at this

theorem langNames_attrs {l : Lang} (h : langNames l = true) {t} (ht : l.attrs = some t) {r} (hr : r ∈ t) :
    r.name ≠ [] := by
  simp only [langNames, ht, Bool.and_eq_true, List.all_eq_true] at h
  have := h.1.2 r hr
  intro e; simp [e] at this

theorem langNames_values {l : Lang} (h : langNames l = true) {t} (ht : l.values = some t) {r} (hr : r ∈ t) :
    r.name ≠ [] := by
  simp only [langNames, ht, Bool.and_eq_true, List.all_eq_true] at h
  have := h.2 r hr
  intro e; simp [e] at this

/-- An element name the encoder can put into the string table: not the empty C string. -/
def nameOk : Name → Bool
  | .token r => !r.name.isEmpty
  | .literal s => !(cstrOf s).isEmpty

def anameOk : AName → Bool
  | .token r => !r.name.isEmpty
  | .literal s => !(cstrOf s).isEmpty

mutual
/-- Names are non-empty C strings; every embedded document that has a language has a root, and its
    language's rows have non-empty names. -/
def nodeOk : Node → Bool
  | .elt name attrs kids => nameOk name && attrs.all (fun a => anameOk a.name) && nodesOk kids
  | .text _ => true
  | .cdata kids => nodesOk kids
  | .tree lang _ root =>
    match lang with
    | none => true
    | some l => langNames l && (match root with
      | some r => nodeOk r
      | none => false)
def nodesOk : List Node → Bool
  | [] => true
  | n :: rest => nodeOk n && nodesOk rest
end

/-- The encoder's options after `encoder_encode_tree`: OTA settings never use a string table. -/
structure CfgOk (c : WCfg) : Prop where
  names : langNames c.lang = true
  ota : c.lang.id = 1901 → c.useStrtbl = false

/-- String-table entries are non-empty (and never alias a text node's buffer). -/
def StOk (st : WSt) : Prop := ∀ e ∈ st.strtbl, e.alias = none ∧ e.str ≠ []

theorem StOk.of_eq {st st' : WSt} (h : StOk st) (e : st'.strtbl = st.strtbl) : StOk st' := by
  unfold StOk; rw [e]; exact h

theorem stOk_init : StOk {} := by intro e he; cases he

attribute [local simp] EW.badDatetime EW.badParameter EW.internal EW.unknownTag EW.strtblDisabled

/-! ### `splitPass`: the fuel suffices for a non-empty needle -/

theorem splitPass_ok (needle : Bytes) (mk : VElt) (hn : needle ≠ []) :
    ∀ (f : Nat) (done l : List VElt), (l.map VElt.weight).sum < f →
      Safe (splitPass needle mk f done l) := by
  have hlen : 1 ≤ needle.length := by
    cases needle with
    | nil => exact absurd rfl hn
    | cons _ _ => simp
  intro f
  induction f with
  | zero => intro done l h; omega
  | succ f ih =>
    intro done l h
    cases l with
    | nil => simp [splitPass, Safe]
    | cons e rest =>
      simp only [List.map_cons, List.sum_cons] at h
      cases e with
      | str s =>
        simp only [splitPass]
        simp only [VElt.weight] at h
        split
        · exact ih _ _ (by omega)
        · rename_i idx _
          split
          · rename_i hlt
            have hp : ptrAdd "value element remainder" s (idx + needle.length) = .ok (s.drop (idx + needle.length)) := by
              simp [ptrAdd, Nat.le_of_lt hlt]
            simp only [hp, bind, Except.bind]
            apply ih
            simp only [List.map_cons, List.sum_cons, VElt.weight, List.length_drop]
            omega
          · exact ih _ _ (by omega)
      | ext r => simp only [splitPass]; exact ih _ _ (by simp only [VElt.weight] at h; omega)
      | tok r => simp only [splitPass]; exact ih _ _ (by simp only [VElt.weight] at h; omega)
      | ref o => simp only [splitPass]; exact ih _ _ (by simp only [VElt.weight] at h; omega)

theorem splitByValues_ok : ∀ (rows : List ValRow) (l : List VElt), (∀ r ∈ rows, r.name ≠ []) →
    Safe (splitByValues rows l)
  | [], l, _ => by simp [splitByValues, Safe]
  | r :: rs, l, h => by
    simp only [splitByValues]
    refine Ok.bind (splitPass_ok r.name (.tok r) (h r (by simp)) _ [] l (by simp [splitFuel])) ?_
    intro l' _
    exact splitByValues_ok rs l' (fun x hx => h x (by simp [hx]))

theorem splitByStrtbl_ok : ∀ (es : List StrEntry) (l : List VElt), (∀ e ∈ es, e.str ≠ []) →
    Safe (splitByStrtbl es l)
  | [], l, _ => by simp [splitByStrtbl, Safe]
  | e :: es, l, h => by
    simp only [splitByStrtbl]
    refine Ok.bind (splitPass_ok e.str (.ref e.offset) (h e (by simp)) _ [] l (by simp [splitFuel])) ?_
    intro l' _
    exact splitByStrtbl_ok es l' (fun x hx => h x (by simp [hx]))

/-! ### Frame facts: what leaves the string table alone -/

@[simp] theorem emit_strtbl (st : WSt) (bs : Bytes) : (st.emit bs).strtbl = st.strtbl := rfl
@[simp] theorem emit_curAttr (st : WSt) (bs : Bytes) : (st.emit bs).curAttr = st.curAttr := rfl

@[simp] theorem attrTokenW_strtbl (t p : Nat) (st : WSt) : (attrTokenW t p st).strtbl = st.strtbl := by
  unfold attrTokenW; split <;> rfl

@[simp] theorem attrTokenW_curAttr (t p : Nat) (st : WSt) : (attrTokenW t p st).curAttr = st.curAttr := by
  unfold attrTokenW; split <;> rfl

@[simp] theorem tagTokenW_strtbl (t p : Nat) (st : WSt) : (tagTokenW t p st).strtbl = st.strtbl := by
  unfold tagTokenW; split <;> rfl

@[simp] theorem emitVElt_strtbl (st : WSt) (e : VElt) : (emitVElt st e).strtbl = st.strtbl := by
  cases e <;> simp [emitVElt]
  split <;> simp

@[simp] theorem emitVElts_strtbl (l : List VElt) (st : WSt) : (emitVElts st l).strtbl = st.strtbl := by
  unfold emitVElts
  induction l generalizing st with
  | nil => rfl
  | cons e r ih => simp [List.foldl_cons, ih]

theorem aliasWrite_strtbl (st : WSt) (k : Nat) (s : Bytes) (h : StOk st) : (st.aliasWrite k s).strtbl = st.strtbl := by
  unfold WSt.aliasWrite
  simp only
  conv => rhs; rw [← List.map_id st.strtbl]
  apply List.map_congr_left
  intro e he
  simp [(h e he).1]

theorem strtblAdd_ok (st : WSt) (s : Bytes) (hs : s ≠ []) (h : StOk st) : StOk (strtblAdd st s none).1 := by
  unfold strtblAdd
  split
  · exact h
  · intro e he
    simp only [List.mem_append, List.mem_singleton] at he
    rcases he with he | rfl
    · exact h e he
    · exact ⟨rfl, hs⟩

/-! ### Typed codecs never flag -/

theorem b64DecodeE_safe (s : Bytes) : Safe (b64DecodeE s) := by
  rw [Wbxml.Lemmas.Codec.b64DecodeE_eq]; simp [Safe]

theorem dtFilter_safe : ∀ (s : Bytes), Safe (Typed.dtFilter s)
  | [] => by simp [Typed.dtFilter, Safe]
  | c :: cs => by
    have ih := dtFilter_safe cs
    unfold Typed.dtFilter
    split
    · cases h : Typed.dtFilter cs with
      | ok r => simp [Except.map, Safe]
      | error e => rw [h] at ih; cases e <;> simp_all [Except.map, Safe]
    · split
      · exact ih
      · simp [Safe]

theorem encodeDatetime_safe (s : Bytes) : Safe (encodeDatetime s) := by
  unfold encodeDatetime Typed.datetimePayload
  have := dtFilter_safe s
  cases h : Typed.dtFilter s with
  | ok r => simp [Except.map, Safe]
  | error e => rw [h] at this; cases e <;> simp_all [Except.map, Safe]

theorem encodeWvInt_safe (s : Bytes) : Safe (encodeWvInt s) := by
  unfold encodeWvInt
  split
  · simp [Safe]
  · split <;> simp [Safe]

theorem wvDateOpaque_safe (s : Bytes) : Safe (Typed.wvDateOpaque s) := by
  unfold Typed.wvDateOpaque
  simp only []
  repeat' split
  all_goals simp_all [Safe]

theorem encodeWvDate_safe (s : Bytes) (hs : s ≠ []) : Safe (encodeWvDate s) := by
  unfold encodeWvDate
  simp only [hs, ↓reduceIte]
  split
  · simp [Safe]
  · exact wvDateOpaque_safe s


end Wbxml.Lemmas.X2W
