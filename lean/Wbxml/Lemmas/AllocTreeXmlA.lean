/-
  C16 — tree building from XML on the ledger, part A: `wbxml_tree_add_xml_elt`,
  `wbxml_tree_node_add_xml_attr(s)`, `wbxml_tree_add_xml_elt_with_attrs`.
-/
import Wbxml.Model.AllocTreeXml
import Wbxml.Lemmas.AllocTreeD
namespace Wbxml.Model.Alloc
open Wbxml
set_option linter.unusedSimpArgs false
set_option linter.unusedVariables false
set_option linter.unnecessarySimpa false

theorem enomem_ne' : ENOMEM ≠ OK := by decide

theorem xnameCreate_spec (x : XName) (s : Ledger) (wf : s.WF) :
    Good (xnameCreate x) s (fun r s' => Clean s s' [] (ownedNameOpt r) ∧ (s.hits < s'.hits → r = none)) := by
  cases x with
  | token r => exact nameCreateToken_spec r s wf
  | literal v => exact nameCreateLiteral_spec (some v) s wf

/-- A node that has just been created with a name: what it owns. -/
theorem node_named_owned (n : ANode) (t : AName) (fa : n.attrs = none) (fc : n.content = none) :
    ({ n with name := some t } : ANode).owned = n.hdr :: t.owned := by
  simp [ANode.owned_eq, fa, fc, ownedNameOpt, attrsOwned, listOwned, ownedBufOpt]

/-- `wbxml_tree_add_xml_elt(tree, parent, name)`. -/
theorem treeAddXmlElt_spec (c : TCtx) (tag : XName) (s : Ledger) (wf : s.WF) (hok : c.ok) (own : Owns s c.owned) :
    Good (treeAddXmlElt c tag) s (fun r s' => TreeStep c s r s' ∧
      (r.2 = true → ∃ n, r.1 = pushFrame c .elt n ∧ n.content = none)) := by
  unfold treeAddXmlElt
  simp only [bind_eq, pure_eq]
  refine Good.bind (xnameCreate_spec tag s wf) ?_
  intro t s1 ⟨c1, h1⟩
  have hh1 := c1.hits
  cases t with
  | none =>
    simp only
    have c1' : Clean s s1 [] [] := by simpa [ownedNameOpt] using c1
    have cX := Clean.frame_l c.owned wf c1' (by simpa using own)
    exact good_ret.2 ⟨⟨rfl, rfl, hok, by simpa using cX, fun _ => rfl⟩, fun h => Bool.noConfusion h⟩
  | some t =>
    simp only [ownedNameOpt] at c1 ⊢
    have hno1 : ¬ s.hits < s1.hits := by intro hh; have := h1 hh; simp at this
    have cX1 : Clean s s1 c.owned (c.owned ++ t.owned) := by
      simpa using Clean.frame_l c.owned wf c1 (by simpa using own)
    refine Good.bind ((nodeCreate_spec s1 c1.wf).and_always nodeCreate_always) ?_
    intro n s2 ⟨⟨c2, h2⟩, hfields⟩
    have hh2 := c2.hits
    cases n with
    | none =>
      simp only at c2 ⊢
      have cX2 : Clean s s2 c.owned (c.owned ++ t.owned) := by
        simpa using Clean.step_l (c.owned ++ t.owned) wf (by simpa using cX1) c2
      refine Good.bind (nameDestroy_spec (some t) s2 c2.wf (by simpa [ownedNameOpt] using cX2.owns.right)) ?_
      intro _ s3 ⟨d3, hd3, _⟩
      have d3' : Clean s2 s3 t.owned [] := by simpa [ownedNameOpt] using d3
      have cX3 := Clean.step_l c.owned wf cX2 d3'
      exact good_ret.2 ⟨⟨rfl, rfl, hok, by simpa using cX3, fun _ => rfl⟩, fun h => Bool.noConfusion h⟩
    | some n =>
      simp only at c2 ⊢
      obtain ⟨fn, fa, fc⟩ := hfields n rfl
      have hno2 : ¬ s1.hits < s2.hits := by intro hh; have := h2 hh; simp at this
      have hnO : n.owned = [n.hdr] := by
        simp [ANode.owned_eq, fn, fa, fc, ownedNameOpt, attrsOwned, listOwned, ownedBufOpt]
      have cX2 : Clean s s2 c.owned (c.owned ++ ({ n with name := some t } : ANode).owned) := by
        have a := Clean.step_l (c.owned ++ t.owned) wf (by simpa using cX1) c2
        refine a.prod_perm ?_
        rw [node_named_owned n t fa fc, hnO]
        perm_count
      refine Good.bind (addOpen_spec c .elt { n with name := some t } s2 cX2.owns) ?_
      intro r s3 ⟨es, hcase⟩
      obtain ⟨c3, ok⟩ := r
      simp only at es hcase ⊢
      subst es
      rcases hcase with ⟨hok3, hc3⟩ | ⟨hok3, hc3, hroot⟩
      · subst hok3; subst hc3
        simp only [Bool.not_false, if_true]
        refine Good.bind (nodeDestroy_spec (some { n with name := some t }) s3 c2.wf cX2.owns.right) ?_
        intro _ s4 ⟨d4, hd4, _⟩
        have d4' : Clean s3 s4 ({ n with name := some t } : ANode).owned [] := d4
        have cX4 := Clean.step_l c3.owned wf cX2 d4'
        exact good_ret.2 ⟨⟨rfl, rfl, hok, by simpa using cX4, fun _ => rfl⟩, fun h => Bool.noConfusion h⟩
      · subst hok3; subst hc3
        simp only [Bool.not_true, Bool.false_eq_true, if_false]
        have hnok : nodeOk ({ n with name := some t } : ANode) := by
          intro b hb; simp only [fc] at hb; cases hb
        refine good_ret.2 ⟨⟨rfl, rfl, pushFrame_ok c .elt _ hok hnok (by decide) hroot,
          cX2.prod_perm (pushFrame_perm c .elt _).symm, fun hh => by exfalso; omega⟩, fun _ => ⟨_, rfl, fc⟩⟩

/-- The name of an attribute: only the name is left allocated (the `"xml:…"` buffer is released on
    every exit); NULL whenever a request failed. -/
theorem xmlAttrName_spec (a : XAttrIn) (s : Ledger) (wf : s.WF) :
    Good (xmlAttrName a) s (fun r s' => Clean s s' [] (ownedNameOpt r) ∧ (s.hits < s'.hits → r = none)) := by
  unfold xmlAttrName
  cases hx : a.xmlNs with
  | none => simp only; exact xnameCreate_spec a.name s wf
  | some rest =>
    simp only [bind_eq, pure_eq]
    refine Good.bind (bufCreate_spec (some b!"xml:") 4 s wf) ?_
    intro xn s1 ⟨c1, h1, hs1, hk1⟩
    have hh1 := c1.hits
    cases xn with
    | none => exact good_ret.2 ⟨by simpa [ownedBufOpt, ownedNameOpt] using c1, fun _ => rfl⟩
    | some xn =>
      simp only [ownedBufOpt] at c1 ⊢
      have hno1 : ¬ s.hits < s1.hits := by intro hh; have := h1 hh; simp at this
      refine Good.bind (bufAppendData_spec xn (some rest) s1 c1.wf c1.owns (hk1 xn rfl)) ?_
      intro r2 s2 ⟨_, _, c2, h2, k2⟩
      obtain ⟨xn2, ok⟩ := r2
      simp only at c2 h2 k2 ⊢
      have hh2 := c2.hits
      have cX2 : Clean s s2 [] xn2.owned := Clean.trans_recycle wf c1 c2
      have hdestroy : ∀ (t : Ledger) (R : List Nat), Clean s t [] (xn2.owned ++ R) →
          Good (bufDestroy (some xn2)) t (fun _ t' => Clean s t' [] R ∧ t'.hits = t.hits) := by
        intro t R cT
        refine (bufDestroy_spec (some xn2) t cT.wf (by simpa [ownedBufOpt] using cT.owns.left)).mono ?_
        intro _ t' ⟨d, hd, _⟩
        have d' : Clean t t' xn2.owned [] := d
        exact ⟨by simpa using Clean.step_r R wf cT d', hd⟩
      cases ok with
      | false =>
        simp only [Bool.not_false, if_true]
        refine Good.bind (hdestroy s2 [] (by simpa using cX2)) ?_
        intro _ s3 ⟨cX3, _⟩
        exact good_ret.2 ⟨by simpa [ownedNameOpt] using cX3, fun _ => rfl⟩
      | true =>
        simp only [Bool.not_true, Bool.false_eq_true, if_false]
        have hno2 : ¬ s1.hits < s2.hits := by intro hh; have := h2 hh; simp at this
        have hname : Good (match a.name with
            | .token r => nameCreateToken r
            | .literal _ => (bufCstr xn2).bind fun s => nameCreateLiteral s) s2
            (fun r s' => Clean s2 s' [] (ownedNameOpt r) ∧ (s2.hits < s'.hits → r = none)) := by
          cases a.name with
          | token r => exact nameCreateToken_spec r s2 c2.wf
          | literal v =>
            simp only
            refine Good.bind (bufCstr_spec xn2 s2 (cX2.owns.2 _ (by simp [ABuf.owned]))) ?_
            intro cs s2' ⟨e2', _⟩; have e2'' := e2'.symm; subst e2''
            exact nameCreateLiteral_spec cs s2 c2.wf
        refine Good.bind hname ?_
        intro nm s3 ⟨c3, h3⟩
        have hh3 := c3.hits
        have cX3 : Clean s s3 [] (xn2.owned ++ ownedNameOpt nm) := Clean.trans_prod cX2 c3
        refine Good.bind (hdestroy s3 (ownedNameOpt nm) cX3) ?_
        intro _ s4 ⟨cX4, hd4⟩
        exact good_ret.2 ⟨cX4, fun hh => h3 (by omega)⟩

/-- Installing a fresh, empty attribute list in a node that has none. -/
theorem node_setList_perm (n : ANode) (l : AList AAttr) (hn : n.attrs = none) (hc : l.cells = []) :
    ({ n with attrs := some l } : ANode).owned.Perm (n.owned ++ [l.hdr]) := by
  simp only [ANode.owned_eq, hn, attrsOwned, listOwned, hc, cellsOwned, List.flatMap_nil]
  perm_count

/-- One more cell at the end of the node's attribute list. -/
theorem node_appendCell_perm (n : ANode) (l l2 : AList AAttr) (cid : Nat) (a : AAttr) (hn : n.attrs = some l)
    (hh : l2.hdr = l.hdr) (hc : l2.cells = l.cells ++ [(cid, a)]) :
    ({ n with attrs := some l2 } : ANode).owned.Perm (n.owned ++ (cid :: a.owned)) := by
  simp only [ANode.owned_eq, hn, attrsOwned, listOwned, hh, hc, cellsOwned_append]
  simp only [cellsOwned, List.flatMap_cons, List.flatMap_nil, List.append_nil]
  perm_count

theorem attr_owned_eq (a : AAttr) : a.owned = a.hdr :: (ownedNameOpt a.name ++ ownedBufOpt a.value) := rfl

/-- `wbxml_tree_node_add_xml_attr`: the node keeps what it had plus, on success, the new attribute
    in one more list cell; on every error exit the attribute under construction is released. -/
theorem nodeAddXmlAttr_spec (n : ANode) (a : XAttrIn) (s : Ledger) (wf : s.WF) (own : Owns s n.owned) :
    Good (nodeAddXmlAttr n a) s (fun r s' =>
      r.1.hdr = n.hdr ∧ r.1.content = n.content ∧ r.1.name = n.name ∧ Clean s s' n.owned r.1.owned ∧
      (s.hits < s'.hits → r.2 ≠ OK)) := by
  have hl : n.hdr ∈ s.live := own.2 _ (by simp [ANode.owned])
  unfold nodeAddXmlAttr
  simp only [bind_eq, pure_eq]
  refine Good.bind (deref_spec n.hdr s hl) ?_
  intro _ s0 e0; have e0' := e0.symm; subst e0'
  -- the list, existing or created now
  have hstep : Good (match n.attrs with | some l => Prog.ret (some l) | none => listCreate) s (fun l s1 =>
      (s.hits < s1.hits → l = none) ∧
      match l with
      | none => Clean s s1 n.owned n.owned
      | some l => Clean s s1 n.owned ({ n with attrs := some l } : ANode).owned) := by
    cases h : n.attrs with
    | some l =>
      have : ({ n with attrs := some l } : ANode) = n := by cases n; simp_all
      exact good_ret.2 ⟨fun hh => absurd hh (Nat.lt_irrefl _), by simp only; rw [this]; exact Clean.id wf own⟩
    | none =>
      refine (listCreate_spec (ι := AAttr) s wf).mono ?_
      intro r s1 ⟨c1, h1, e1⟩
      refine ⟨h1, ?_⟩
      cases r with
      | none =>
        have c1' : Clean s s1 [] [] := by simpa using c1
        have := Clean.frame_l n.owned wf c1' (by simpa using own)
        simpa using this
      | some l =>
        have c1' : Clean s s1 [] [l.hdr] := by simpa using c1
        have := Clean.frame_l n.owned wf c1' (by simpa using own)
        exact (by simpa using this : Clean s s1 n.owned (n.owned ++ [l.hdr])).prod_perm (node_setList_perm n l h (e1 l rfl)).symm
  refine Good.bind hstep ?_
  intro l s1 ⟨h1, cN1⟩
  cases l with
  | none =>
    simp only at cN1 ⊢
    exact good_ret.2 ⟨rfl, rfl, rfl, cN1, fun _ => enomem_ne'⟩
  | some l =>
    simp only at cN1 ⊢
    have hh1 := cN1.hits
    have hno1 : ¬ s.hits < s1.hits := by intro hh; have := h1 hh; simp at this
    refine Good.bind (attrCreate_spec s1 cN1.wf) ?_
    intro attr s2 ⟨c2, h2, f2⟩
    have hh2 := c2.hits
    cases attr with
    | none =>
      simp only
      have c2' : Clean s1 s2 [] [] := by simpa [ownedAttrOpt] using c2
      have cX2 : Clean s s2 n.owned ({ n with attrs := some l } : ANode).owned := by
        simpa using Clean.step_l _ wf (by simpa using cN1) c2'
      exact good_ret.2 ⟨rfl, rfl, rfl, cX2, fun _ => enomem_ne'⟩
    | some attr =>
      simp only [ownedAttrOpt] at c2 ⊢
      obtain ⟨fan, fav⟩ := f2 attr rfl
      have hno2 : ¬ s1.hits < s2.hits := by intro hh; have := h2 hh; simp at this
      have haO : attr.owned = [attr.hdr] := by simp [attr_owned_eq, fan, fav, ownedNameOpt, ownedBufOpt]
      have cX2 : Clean s s2 n.owned (({ n with attrs := some l } : ANode).owned ++ attr.owned) :=
        Clean.step_l _ wf (by simpa using cN1) c2
      -- every error exit releases the attribute under construction
      have hrelease : ∀ (at' : AAttr) (t : Ledger), Clean s t n.owned (({ n with attrs := some l } : ANode).owned ++ at'.owned) →
          Good (attrDestroy (some at')) t (fun _ t' => Clean s t' n.owned ({ n with attrs := some l } : ANode).owned ∧ t'.hits = t.hits) := by
        intro at' t cT
        refine (attrDestroy_spec (some at') t cT.wf (by simpa [ownedAttrOpt] using cT.owns.right)).mono ?_
        intro _ t' ⟨d, hd, _⟩
        have d' : Clean t t' at'.owned [] := by simpa [ownedAttrOpt] using d
        exact ⟨by simpa using Clean.step_l _ wf cT d', hd⟩
      refine Good.bind (xmlAttrName_spec a s2 c2.wf) ?_
      intro nm s3 ⟨c3, h3⟩
      have hh3 := c3.hits
      have cX3 : Clean s s3 n.owned ((({ n with attrs := some l } : ANode).owned ++ attr.owned) ++ ownedNameOpt nm) :=
        Clean.step_l _ wf (by simpa using cX2) c3
      cases nm with
      | none =>
        simp only [ownedNameOpt, List.append_nil] at cX3 ⊢
        refine Good.bind (hrelease attr s3 cX3) ?_
        intro _ s4 ⟨cX4, _⟩
        exact good_ret.2 ⟨rfl, rfl, rfl, cX4, fun _ => enomem_ne'⟩
      | some nm =>
        simp only [ownedNameOpt] at cX3 ⊢
        have hno3 : ¬ s2.hits < s3.hits := by intro hh; have := h3 hh; simp at this
        have ha1O : ({ attr with name := some nm } : AAttr).owned = attr.hdr :: nm.owned := by
          simp [attr_owned_eq, fav, ownedNameOpt, ownedBufOpt]
        have cX3' : Clean s s3 n.owned (({ n with attrs := some l } : ANode).owned ++ ({ attr with name := some nm } : AAttr).owned) := by
          refine cX3.prod_perm ?_
          rw [ha1O, haO]
          perm_count
        refine Good.bind (bufCreate_spec (some a.value) a.value.length s3 c3.wf) ?_
        intro v s4 ⟨c4, h4, _, _⟩
        have hh4 := c4.hits
        have cX4 : Clean s s4 n.owned ((({ n with attrs := some l } : ANode).owned ++ ({ attr with name := some nm } : AAttr).owned) ++ ownedBufOpt v) :=
          Clean.step_l _ wf (by simpa using cX3') c4
        cases v with
        | none =>
          simp only [ownedBufOpt, List.append_nil] at cX4 ⊢
          refine Good.bind (hrelease _ s4 cX4) ?_
          intro _ s5 ⟨cX5, _⟩
          exact good_ret.2 ⟨rfl, rfl, rfl, cX5, fun _ => enomem_ne'⟩
        | some v =>
          simp only [ownedBufOpt] at cX4 ⊢
          have hno4 : ¬ s3.hits < s4.hits := by intro hh; have := h4 hh; simp at this
          have ha2O : ({ attr with name := some nm, value := some v } : AAttr).owned = attr.hdr :: (nm.owned ++ v.owned) := by
            simp [attr_owned_eq, ownedNameOpt, ownedBufOpt]
          have cX4' : Clean s s4 n.owned (({ n with attrs := some l } : ANode).owned ++
              ({ attr with name := some nm, value := some v } : AAttr).owned) := by
            refine cX4.prod_perm ?_
            rw [ha2O, ha1O]
            perm_count
          have hl4 : l.hdr ∈ s4.live := cX4'.owns.2 _ (by simp [ANode.owned_eq, attrsOwned, listOwned])
          refine Good.bind (listAppend_spec l { attr with name := some nm, value := some v } s4 c4.wf hl4) ?_
          intro r5 s5 ⟨e5, h5, hcase⟩
          obtain ⟨l2, ok⟩ := r5
          simp only at e5 h5 hcase ⊢
          rcases hcase with ⟨hok, hl2', c5⟩ | ⟨hok, cid, hcells, c5⟩
          · subst hok
            simp only [Bool.not_false, if_true]
            have cX5 := Clean.step_l _ wf (by simpa using cX4') c5
            refine Good.bind (hrelease _ s5 (by simpa using cX5)) ?_
            intro _ s6 ⟨cX6, _⟩
            exact good_ret.2 ⟨rfl, rfl, rfl, cX6, fun _ => enomem_ne'⟩
          · subst hok
            simp only [Bool.not_true, Bool.false_eq_true, if_false]
            have hh5 := c5.hits
            have cX5 : Clean s s5 n.owned ((({ n with attrs := some l } : ANode).owned ++
                ({ attr with name := some nm, value := some v } : AAttr).owned) ++ [cid]) :=
              Clean.step_l _ wf (by simpa using cX4') c5
            have hP := node_appendCell_perm ({ n with attrs := some l } : ANode) l l2 cid
              { attr with name := some nm, value := some v } rfl e5 hcells
            refine good_ret.2 ⟨rfl, rfl, rfl, cX5.prod_perm ?_, fun hh => ?_⟩
            · refine List.Perm.trans ?_ hP.symm
              perm_count
            · exfalso
              have a5 : ¬ s4.hits < s5.hits := by intro h; have := h5 h; simp at this
              omega

/-- `wbxml_tree_node_add_xml_attrs`. -/
theorem nodeAddXmlAttrs_spec (attrs : List XAttrIn) (n : ANode) (s : Ledger) (wf : s.WF) (own : Owns s n.owned) :
    Good (nodeAddXmlAttrs n attrs) s (fun r s' =>
      r.1.hdr = n.hdr ∧ r.1.content = n.content ∧ r.1.name = n.name ∧ Clean s s' n.owned r.1.owned ∧
      (s.hits < s'.hits → r.2 ≠ OK)) := by
  induction attrs generalizing n s with
  | nil =>
    simp only [nodeAddXmlAttrs, pure_eq]
    exact good_ret.2 ⟨rfl, rfl, rfl, Clean.id wf own, fun h => absurd h (Nat.lt_irrefl _)⟩
  | cons a rest ih =>
    unfold nodeAddXmlAttrs
    simp only [bind_eq, pure_eq]
    refine Good.bind (nodeAddXmlAttr_spec n a s wf own) ?_
    intro r s1 ⟨eh, ec, en, c1, h1⟩
    obtain ⟨n1, ret⟩ := r
    simp only at eh ec en c1 h1 ⊢
    by_cases hret : ret = OK
    · subst hret
      simp only [bne_self_eq_false, Bool.false_eq_true, if_false]
      refine (ih n1 s1 c1.wf c1.owns).mono ?_
      intro r s2 ⟨eh2, ec2, en2, c2, h2⟩
      have := c1.hits; have := c2.hits
      refine ⟨eh2.trans eh, ec2.trans ec, en2.trans en, Clean.trans_recycle wf c1 c2, fun hh => ?_⟩
      by_cases hA : s1.hits < s2.hits
      · exact h2 hA
      · exfalso; exact h1 (by omega) rfl
    · have hb : (ret != OK) = true := by simpa using hret
      simp only [hb, if_true]
      exact good_ret.2 ⟨eh, ec, en, c1, fun _ => enomem_ne'⟩

/-- `wbxml_tree_add_xml_elt_with_attrs(tree, parent, name, attrs)`: the new element with its
    attributes is the new `current`, or nothing was added and everything allocated on the way has
    been released. -/
theorem treeAddXmlEltWithAttrs_spec (c : TCtx) (tag : XName) (attrs : List XAttrIn) (s : Ledger) (wf : s.WF) (hok : c.ok)
    (own : Owns s c.owned) :
    Good (treeAddXmlEltWithAttrs c tag attrs) s (TreeStep c s) := by
  unfold treeAddXmlEltWithAttrs
  simp only [bind_eq, pure_eq]
  refine Good.bind (treeAddXmlElt_spec c tag s wf hok own) ?_
  intro r s1 ⟨⟨et, ee, ok1, c1, h1⟩, hpush⟩
  obtain ⟨c1x, ok⟩ := r
  simp only at et ee ok1 c1 h1 hpush ⊢
  have hh1 := c1.hits
  cases ok with
  | false => simp only [Bool.not_false, if_true]; exact good_ret.2 ⟨et, ee, ok1, c1, fun _ => rfl⟩
  | true =>
    simp only [Bool.not_true, Bool.false_eq_true, if_false]
    have hno1 : ¬ s.hits < s1.hits := by intro hh; have := h1 hh; simp at this
    split
    · exact good_ret.2 ⟨et, ee, ok1, c1, fun hh => absurd hh hno1⟩
    · obtain ⟨n, hc1x, hcont⟩ := hpush rfl
      have hfr : c1x.frames = ⟨.elt, n, []⟩ :: c.frames := by rw [hc1x]; rfl
      rw [hfr]
      simp only
      have hP := head_perm c1x ⟨.elt, n, []⟩ c.frames hfr
      have ownH := c1.owns.perm hP
      refine Good.bind (nodeAddXmlAttrs_spec attrs n s1 c1.wf ownH.left) ?_
      intro r2 s2 ⟨eh2, ec2, en2, c2, h2⟩
      obtain ⟨n2, ret⟩ := r2
      simp only at eh2 ec2 en2 c2 h2 ⊢
      have hh2 := c2.hits
      have cX2 : Clean s s2 c.owned ({ c1x with frames := { (⟨.elt, n, []⟩ : Frame) with node := n2 } :: c.frames } : TCtx).owned := by
        have a1 : Clean s s1 c.owned (n.owned ++ _) := c1.prod_perm hP
        have a2 := Clean.step_r _ wf a1 c2
        exact a2.prod_perm (setHead_perm c1x ⟨.elt, n, []⟩ c.frames hfr n2).symm
      have hn2ok : nodeOk n2 := by intro b hb; rw [ec2, hcont] at hb; cases hb
      have hok2 : ({ c1x with frames := { (⟨.elt, n, []⟩ : Frame) with node := n2 } :: c.frames } : TCtx).ok := by
        refine ⟨fun _ => ok1.1 (by simp [hfr]), ok1.2.1, ?_⟩
        intro x hx
        simp only [List.mem_cons] at hx
        rcases hx with rfl | hx
        · exact ⟨hn2ok, fun h => NKind.noConfusion h, by simp⟩
        · exact ok1.2.2 x (by simp [hfr, hx])
      by_cases hret : ret = OK
      · subst hret
        simp only [bne_self_eq_false, Bool.false_eq_true, if_false]
        refine good_ret.2 ⟨et, ee, hok2, cX2, fun hh => ?_⟩
        exfalso
        by_cases hA : s1.hits < s2.hits
        · exact h2 hA rfl
        · omega
      · have hb : (ret != OK) = true := by simpa using hret
        simp only [hb, if_true]
        refine Good.bind (extractHead_spec _ { (⟨.elt, n, []⟩ : Frame) with node := n2 } c.frames rfl s2 cX2.owns) ?_
        intro c3 s3 ⟨es3, ec3⟩
        subst es3; subst ec3
        have hP2 := setHead_perm c1x ⟨.elt, n, []⟩ c.frames hfr n2
        have hback : (n2.owned ++ (c1x.tree :: (ownedKidOpt c1x.root ++ (([] : List Kid).flatMap Kid.owned ++ c.frames.flatMap Frame.owned)))).Perm
            (c.owned ++ n2.owned) := by
          rw [hc1x]
          simp only [pushFrame, TCtx.owned, List.flatMap_nil, List.nil_append]
          perm_count
        have cX3 : Clean s s3 c.owned (c.owned ++ n2.owned) := (cX2.prod_perm hP2).prod_perm hback
        refine Good.bind (nodeDestroy_spec (some n2) s3 c2.wf cX3.owns.right) ?_
        intro _ s4 ⟨d4, hd4, _⟩
        have d4' : Clean s3 s4 n2.owned [] := d4
        have cX4 := Clean.step_l c.owned wf cX3 d4'
        have hcback : ({ c1x with frames := c.frames } : TCtx) = c := by rw [hc1x]; cases c; rfl
        refine good_ret.2 ⟨?_, ?_, ?_, ?_, fun _ => rfl⟩
        · show ({ c1x with frames := c.frames } : TCtx).tree = c.tree; rw [hcback]
        · show ({ c1x with frames := c.frames } : TCtx).error = c.error; rw [hcback]
        · show ({ c1x with frames := c.frames } : TCtx).ok; rw [hcback]; exact hok
        · show Clean s s4 c.owned ({ c1x with frames := c.frames } : TCtx).owned; rw [hcback]; simpa using cX4

end Wbxml.Model.Alloc
