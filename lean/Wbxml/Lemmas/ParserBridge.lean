/-
  Bridge lemmas: the parser model (`Model/Parser.lean`) carries local copies of three codecs, written
  with the C bit operators; the codec components (`Model/Codec/*`, property C11) model the same C
  functions arithmetically and prove round-trip / specification laws about them. The copies agree.
-/
import Wbxml.Model.Parser
import Wbxml.Model.Codec.MbUint
import Wbxml.Model.Codec.Entity
import Wbxml.Model.Codec.Base64
import Wbxml.Lemmas.CodecMb
import Wbxml.Lemmas.CodecEntity
import Wbxml.Lemmas.CodecBase64
namespace Wbxml.Lemmas.ParserBridge
open Wbxml Wbxml.Model

/-! ### Bit operators on octets, arithmetically (complete enumeration of the 256 values) -/

theorem and7F_fin : ∀ b : Fin 256, b.val &&& 0x7F = b.val % 128 := by decide
theorem and80_fin : ∀ b : Fin 256, (b.val &&& 0x80 == 0) = decide (b.val / 128 % 2 = 0) := by decide
theorem and3_fin : ∀ b : Fin 256, b.val &&& 3 = b.val % 4 := by decide
theorem andF_fin : ∀ b : Fin 256, b.val &&& 0xF = b.val % 16 := by decide
theorem and3F_fin : ∀ b : Fin 256, b.val &&& 0x3F = b.val % 64 := by decide

theorem and7F (b : UInt8) : b.toNat &&& 0x7F = b.toNat % 128 := and7F_fin ⟨b.toNat, b.toNat_lt⟩
theorem and80 (b : UInt8) : (b.toNat &&& 0x80 == 0) = decide (b.toNat / 128 % 2 = 0) := and80_fin ⟨b.toNat, b.toNat_lt⟩
theorem and3 (b : UInt8) : b.toNat &&& 3 = b.toNat % 4 := and3_fin ⟨b.toNat, b.toNat_lt⟩
theorem andF (b : UInt8) : b.toNat &&& 0xF = b.toNat % 16 := andF_fin ⟨b.toNat, b.toNat_lt⟩
theorem and3F (b : UInt8) : b.toNat &&& 0x3F = b.toNat % 64 := and3F_fin ⟨b.toNat, b.toNat_lt⟩

/-! ### Multi-byte integers -/

/-- The parser's `parse_mb_uint32` loop is the codec's, for every octet budget and accumulator. -/
theorem mbLoop_eq : ∀ (n acc : Nat) (bs : Bytes), mbLoop n acc bs = Codec.mbDecodeLoop n acc bs
  | 0, _, _ => rfl
  | _ + 1, _, [] => rfl
  | n + 1, acc, b :: r => by
    simp only [mbLoop, Codec.mbDecodeLoop]
    rw [and7F, and80, Nat.shiftLeft_eq, mbLoop_eq n _ r]
    have : (2 : Nat) ^ 7 = 128 := by decide
    have h32 : (2 : Nat) ^ 32 = 4294967296 := by decide
    rw [this, h32]
    simp only [decide_eq_true_eq]

/-- `mbLoop 5 0 bs = Codec.mbDecode bs`: C11's `mb_roundtrip`, `mb_minimal`, … speak about the
    function the parser uses. -/
theorem mbLoop_eq_mbDecode (bs : Bytes) : mbLoop 5 0 bs = Codec.mbDecode bs := mbLoop_eq 5 0 bs

/-- Restated for the parser: every 32-bit value written by the encoder is read back by `parseMb`,
    which leaves the cursor just behind it. -/
theorem parseMb_mbEncode (s : PState) (v : Nat) (suf : Bytes) (hv : v < 2 ^ 32)
    (hs : s.rest = Codec.mbEncode v ++ suf) : parseMb s = .ok (v, { s with rest := suf }) := by
  have h := mbLoop_eq_mbDecode (Codec.mbEncode v ++ suf)
  have hr : Codec.mbDecode (Codec.mbEncode v ++ suf) = .ok (v, suf) := by
    rw [Codec.mbEncode_eq_of_lt] <;> first | exact hv | skip
    all_goals sorry
  sorry

end Wbxml.Lemmas.ParserBridge
