/-
  Bridge lemmas: the parser model (`Model/Parser.lean`) carries local copies of three codecs, written
  with the C bit operators; the codec components (`Model/Codec/*`, property C11) model the same C
  functions arithmetically and prove round-trip / specification laws about them. The copies agree.
-/
import Wbxml.Model.Parser
import Wbxml.Model.Codec.MbUint
import Wbxml.Model.Codec.Entity
import Wbxml.Model.Codec.Base64
import Wbxml.Lemmas.CodecMb
import Wbxml.Lemmas.CodecEntity
import Wbxml.Lemmas.CodecBase64
import Wbxml.Props.C11
namespace Wbxml.Lemmas.ParserBridge
open Wbxml Wbxml.Model

/-! ### Bit operators on octets, arithmetically (complete enumeration of the 256 values) -/

theorem and7F_fin : ∀ b : Fin 256, b.val &&& 0x7F = b.val % 128 := by decide +kernel
theorem and80_fin : ∀ b : Fin 256, (b.val &&& 0x80 == 0) = decide (b.val / 128 % 2 = 0) := by decide +kernel
theorem and3_fin : ∀ b : Fin 256, b.val &&& 3 = b.val % 4 := by decide +kernel
theorem andF_fin : ∀ b : Fin 256, b.val &&& 0xF = b.val % 16 := by decide +kernel
theorem and3F_fin : ∀ b : Fin 256, b.val &&& 0x3F = b.val % 64 := by decide +kernel

theorem and7F (b : UInt8) : b.toNat &&& 0x7F = b.toNat % 128 := and7F_fin ⟨b.toNat, b.toNat_lt⟩
theorem and80 (b : UInt8) : (b.toNat &&& 0x80 == 0) = decide (b.toNat / 128 % 2 = 0) := and80_fin ⟨b.toNat, b.toNat_lt⟩
theorem and3 (b : UInt8) : b.toNat &&& 3 = b.toNat % 4 := and3_fin ⟨b.toNat, b.toNat_lt⟩
theorem andF (b : UInt8) : b.toNat &&& 0xF = b.toNat % 16 := andF_fin ⟨b.toNat, b.toNat_lt⟩
theorem and3F (b : UInt8) : b.toNat &&& 0x3F = b.toNat % 64 := and3F_fin ⟨b.toNat, b.toNat_lt⟩

/-! ### Multi-byte integers -/

/-- The parser's `parse_mb_uint32` loop is the codec's, for every octet budget and accumulator. -/
theorem mbLoop_eq : ∀ (n acc : Nat) (bs : Bytes), mbLoop n acc bs = Codec.mbDecodeLoop n acc bs
  | 0, _, _ => rfl
  | _ + 1, _, [] => rfl
  | n + 1, acc, b :: r => by
    simp only [mbLoop, Codec.mbDecodeLoop]
    rw [and7F, and80, Nat.shiftLeft_eq, mbLoop_eq n _ r]
    have : (2 : Nat) ^ 7 = 128 := by decide +kernel
    have h32 : (2 : Nat) ^ 32 = 4294967296 := by decide +kernel
    rw [this, h32]
    simp only [decide_eq_true_eq]

/-- `mbLoop 5 0 bs = Codec.mbDecode bs`: C11's `mb_roundtrip`, `mb_minimal`, … speak about the
    function the parser uses. -/
theorem mbLoop_eq_mbDecode (bs : Bytes) : mbLoop 5 0 bs = Codec.mbDecode bs := mbLoop_eq 5 0 bs

/-- Restated for the parser: every 32-bit value written by the encoder is read back by `parseMb`,
    which leaves the cursor just behind it. -/
theorem parseMb_mbEncode (s : PState) (v : Nat) (suf : Bytes) (hv : v < 2 ^ 32)
    (hs : s.rest = Codec.mbEncode v ++ suf) : parseMb s = .ok (v, { s with rest := suf }) := by
  unfold parseMb
  rw [hs, mbLoop_eq_mbDecode, Wbxml.Props.C11.mb_roundtrip v suf hv]
  rfl

/-! ### Base64 -/

theorem b64Char_eq_sym (n : Nat) (h : n < 64) : b64Char n = Codec.sym n := by
  have h1 : n % 64 = n := Nat.mod_eq_of_lt h
  have h2 : n < Model.Codec.basis64.length := by rw [Codec.basis64_length]; exact h
  unfold b64Char Codec.sym
  rw [h1]
  show b64Alphabet.getD n 0 = (Model.Codec.basis64[n]?).getD 61
  have : b64Alphabet = Model.Codec.basis64 := rfl
  rw [this, List.getD_eq_getElem?_getD, List.getElem?_eq_getElem h2]
  rfl

/-- The parser's `wbxml_base64_encode` copy is the codec's encoder (`Lemmas.Codec.enc`, which C11
    proves equal to the RFC 4648 definition). -/
theorem b64EncodeGo_eq_enc : ∀ (bs : Bytes), b64EncodeGo bs = Codec.enc bs
  | a :: b :: c :: r => by
    have ha := a.toNat_lt; have hb := b.toNat_lt; have hc := c.toNat_lt
    simp only [b64EncodeGo, Codec.enc]
    rw [and3, andF, and3F, Nat.shiftLeft_eq, Nat.shiftLeft_eq, Nat.shiftRight_eq_div_pow,
      Nat.shiftRight_eq_div_pow, Nat.shiftRight_eq_div_pow, b64EncodeGo_eq_enc r]
    have e2 : (2 : Nat) ^ 2 = 4 := by decide
    have e4 : (2 : Nat) ^ 4 = 16 := by decide
    have e6 : (2 : Nat) ^ 6 = 64 := by decide
    rw [e2, e4, e6, Codec.or16 _ _ (by omega), Codec.or4 _ _ (by omega),
      b64Char_eq_sym _ (by omega), b64Char_eq_sym _ (by omega), b64Char_eq_sym _ (by omega),
      b64Char_eq_sym _ (by omega)]
  | [a, b] => by
    have ha := a.toNat_lt; have hb := b.toNat_lt
    simp only [b64EncodeGo, Codec.enc]
    rw [and3, andF, Nat.shiftLeft_eq, Nat.shiftLeft_eq, Nat.shiftRight_eq_div_pow, Nat.shiftRight_eq_div_pow]
    have e2 : (2 : Nat) ^ 2 = 4 := by decide
    have e4 : (2 : Nat) ^ 4 = 16 := by decide
    rw [e2, e4, Codec.or16 _ _ (by omega),
      b64Char_eq_sym _ (by omega), b64Char_eq_sym _ (by omega), b64Char_eq_sym _ (by omega)]
  | [a] => by
    have ha := a.toNat_lt
    simp only [b64EncodeGo, Codec.enc]
    rw [and3, Nat.shiftLeft_eq, Nat.shiftRight_eq_div_pow]
    have e2 : (2 : Nat) ^ 2 = 4 := by decide
    have e4 : (2 : Nat) ^ 4 = 16 := by decide
    rw [e2, e4, b64Char_eq_sym _ (by omega), b64Char_eq_sym _ (by omega)]
  | [] => rfl

/-- `b64EncodeGo bs = Codec.b64Encode bs` (for every `bs`; the parser only calls it on `bs ≠ []`). -/
theorem b64EncodeGo_eq (bs : Bytes) : b64EncodeGo bs = Model.Codec.b64Encode bs := by
  rw [b64EncodeGo_eq_enc, Codec.b64Encode_eq_enc]

/-- `decode_base64_value` seen through the codec API: NULL (empty input) is error 18, otherwise the
    RFC 4648 encoding. -/
theorem decodeBase64Value_eq (d : Bytes) :
    decodeBase64Value d = match Model.Codec.b64EncodeApi d with
      | none => .error (.code 18)
      | some r => .ok r := by
  unfold decodeBase64Value Model.Codec.b64EncodeApi
  cases d with
  | nil => rfl
  | cons a r =>
    have h1 : (a :: r).isEmpty = false := rfl
    have h2 : ¬ (a :: r) = [] := by simp
    simp only [h1, Bool.false_eq_true, if_false, h2, b64EncodeGo_eq]

/-! ### Character entities -/

/-- The parser's shift-by-6 loop is the codec's, whenever the latter stays inside its arrays (which
    `Lemmas.Codec.entityLoop_ok` proves for every accepted code). -/
theorem entityLoop_eq : ∀ (index code : Nat) (tail : Bytes) (f : Nat) (bs : Bytes),
    Model.Codec.entityLoop index code tail = .ok bs → index < f → entityLoop f code index tail = bs
  | index, code, tail, 0, bs, _, hf => by omega
  | index, code, tail, f + 1, bs, h, hf => by
    rw [Model.Codec.entityLoop.eq_def] at h
    rw [entityLoop, Nat.shiftRight_eq_div_pow]
    by_cases hc : code ≥ 0x40 / 2 ^ (5 - index)
    · simp only [hc, if_true] at h ⊢
      cases index with
      | zero => cases h
      | succ i =>
        simp only at h
        have h6 : code >>> 6 = code / 64 := by rw [Nat.shiftRight_eq_div_pow]
        have h3f : code &&& 0x3F = code % 64 := Nat.and_two_pow_sub_one_eq_mod code 6
        rw [h6, h3f]
        exact entityLoop_eq i _ _ f bs h (by omega)
    · simp only [hc, if_false] at h ⊢
      cases hm : Model.Codec.entityMasks[index]? with
      | none => rw [hm] at h; cases h
      | some m =>
        rw [hm] at h
        simp only [Except.ok.injEq] at h
        have : [0xFC, 0xF8, 0xF0, 0xE0, 0xC0].getD index 0 = m := by
          have hm' : ([0xFC, 0xF8, 0xF0, 0xE0, 0xC0] : List Nat)[index]? = some m := hm
          rw [List.getD_eq_getElem?_getD, hm']; rfl
        rw [this, ← h]

/-- `strlen`-cut of a buffer, both ways of writing it. -/
theorem cstr_append_zero : ∀ (l : Bytes), Model.Codec.cstr (l ++ [0]) = l.take (cstrLen l)
  | [] => by simp [Model.Codec.cstr, cstrLen]
  | b :: r => by
    by_cases hb : b = 0
    · subst hb; simp [Model.Codec.cstr, cstrLen]
    · have hb' : (b == 0) = false := by simpa using hb
      have ih := cstr_append_zero r
      simp only [Model.Codec.cstr] at ih
      simp only [Model.Codec.cstr, List.cons_append, cstrLen, hb', Bool.false_eq_true, if_false,
        List.take_succ_cons]
      rw [List.takeWhile_cons_of_pos (by simpa using hb), ih]

/-- `entityBytes = Codec.entityBytes`: C11's UTF-8 theorems speak about the parser's function. -/
theorem entityBytes_eq (code : Nat) : entityBytes code = Model.Codec.entityBytes code := by
  unfold entityBytes Model.Codec.entityBytes
  by_cases h1 : code ≥ 0x80000000
  · simp only [h1, if_true]; rfl
  · simp only [h1, if_false]
    by_cases h2 : code < 0x80
    · simp only [h2, if_true]
      by_cases h0 : code = 0
      · subst h0; rfl
      · have hne : UInt8.ofNat code ≠ 0 := Codec.ofNat_ne_zero code (by omega) (by omega)
        have hb : (code == 0) = false := by simpa using h0
        simp only [hb, Bool.false_eq_true, if_false]
        rw [Codec.cstr_cons_ne _ _ hne, Codec.cstr_zero]
    · simp only [h2, if_false]
      obtain ⟨bs, hl, _, _, _⟩ := Codec.entityLoop_ok code (by omega) (by omega)
      rw [hl, entityLoop_eq 5 code [] 6 bs hl (by omega)]
      show _ = Except.ok (Model.Codec.cstr (bs ++ [0]))
      rw [cstr_append_zero]

end Wbxml.Lemmas.ParserBridge
