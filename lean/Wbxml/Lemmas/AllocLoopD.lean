/-
  C16 — parser main loop on the ledger, part D: the content loops of the open elements
  (`parse_element` → `parse_content` → `parse_element` …, by induction on the list of body items
  with the stack of open tags generalised), the trailing PIs, and `parse_body`.
-/
import Wbxml.Lemmas.AllocLoopC
namespace Wbxml.Model.Alloc
open Wbxml
set_option linter.unusedSimpArgs false
set_option linter.unusedVariables false
set_option linter.unnecessarySimpa false

/-- A body item is well formed when the error outcomes of its tag / attribute starts carry a real
    error code (`TagShape.wf`, `AttrStart.wf`). -/
def Item.wf : Item → Prop
  | .elem t attrs _ => t.wf ∧ ∀ a ∈ attrs, a.start.wf
  | .pi a => a.start.wf
  | _ => True

/-- What the parse of the rest of the body guarantees, from a state in which the open frames hold
    the tags `X` and the tree context is `c`: all tags are released, the context (same tree,
    consistent) owns everything else that was allocated; a failed request is an error code, returned
    or left in the context; an error code in the context is never cleared. -/
def LoopPost (X : List Nat) (c : TCtx) (s : Ledger) (r : Nat × TCtx) (s' : Ledger) : Prop :=
  r.2.tree = c.tree ∧ r.2.ok ∧ Clean s s' (X ++ c.owned) r.2.owned ∧
  (s.hits < s'.hits → r.1 ≠ OK ∨ r.2.error ≠ OK) ∧ (c.error ≠ OK → r.2.error ≠ OK)

/-- One step of the loop followed by the rest. -/
theorem LoopPost.of_step {X X1 : List Nat} {c c1 : TCtx} {s s1 s2 : Ledger} {r : Nat × TCtx} (wf : s.WF)
    (ht : c1.tree = c.tree) (cl : Clean s s1 (X ++ c.owned) (X1 ++ c1.owned))
    (he : s.hits < s1.hits → c1.error ≠ OK) (hp : c.error ≠ OK → c1.error ≠ OK)
    (h : LoopPost X1 c1 s1 r s2) : LoopPost X c s r s2 := by
  obtain ⟨t2, ok2, cl2, e2, p2⟩ := h
  have := cl.hits; have := cl2.hits
  refine ⟨t2.trans ht, ok2, Clean.trans_recycle wf cl cl2, fun hh => ?_, fun h => p2 (hp h)⟩
  by_cases hA : s.hits < s1.hits
  · exact Or.inr (p2 (he hA))
  · exact e2 (by omega)

/-- The error exit: every open frame destroys its tag and passes the code on. -/
theorem abort_spec {X : List Nat} {c c1 : TCtx} {s s1 : Ledger} (st1 : List AName) (code : Nat) (wf : s.WF)
    (ht : c1.tree = c.tree) (hok1 : c1.ok) (cl : Clean s s1 (X ++ c.owned) (stackOwned st1 ++ c1.owned))
    (he : s.hits < s1.hits → code ≠ OK ∨ c1.error ≠ OK) (hp : c.error ≠ OK → c1.error ≠ OK) :
    Good (Prog.bind (unwind st1) (fun _ => Prog.ret (code, c1))) s1 (LoopPost X c s) := by
  refine Good.bind (unwind_spec st1 s1 cl.wf cl.owns.left) ?_
  intro _ s2 ⟨d2, hd2, _⟩
  have cX : Clean s s2 (X ++ c.owned) c1.owned := by simpa using Clean.step_r c1.owned wf cl d2
  exact good_ret.2 ⟨ht, hok1, cX, fun hh => he (by omega), hp⟩

theorem touch_spec (p : APars) (s : Ledger) (hp : p.hdr ∈ s.live) (hw : ∀ w, p.wbxml = some w → w.hdr ∈ s.live)
    (hsome : p.wbxml.isSome) : Good (touch p) s (fun _ s' => s' = s) := by
  unfold touch
  simp only [bind_eq]
  refine Good.bind (deref_spec p.hdr s hp) ?_
  intro _ s0 e0; subst e0
  cases hpw : p.wbxml with
  | none => simp [hpw] at hsome
  | some w => simp only [Option.map_some]; exact deref_spec w.hdr s0 (hw w hpw)

/-- `while (is_token(parser, WBXML_PI)) parse_pi(parser)` after the root. -/
theorem trailingPis_spec (c : TCtx) (items : List Item) (hw : ∀ it ∈ items, it.wf) (s : Ledger) (wf : s.WF)
    (hok : c.ok) (own : Owns s c.owned) :
    Good (trailingPis c items) s (LoopPost [] c s) := by
  have hdone : ∀ t : Ledger, t.WF → Owns t c.owned → LoopPost [] c t (OK, c) t := fun t wft ownt =>
    ⟨rfl, hok, by simpa using Clean.id wft ownt, fun h => absurd h (Nat.lt_irrefl _), id⟩
  induction items generalizing s with
  | nil => simp only [trailingPis, pure_eq]; exact good_ret.2 (hdone s wf own)
  | cons it rest ih =>
    cases it with
    | pi a =>
      simp only [trailingPis, bind_eq, pure_eq]
      refine Good.bind (parsePi_spec a (hw (.pi a) (by simp)) s wf) ?_
      intro ret s1 ⟨c1, h1⟩
      have hh1 := c1.hits
      have clF : Clean s s1 ([] ++ c.owned) ([] ++ c.owned) := by
        simpa using Clean.frame_l c.owned wf c1 (by simpa using own)
      by_cases hret : ret = OK
      · subst hret
        simp only [bne_self_eq_false, Bool.false_eq_true, if_false]
        refine (ih (fun x hx => hw x (by simp [hx])) s1 c1.wf (by simpa using clF.owns)).mono ?_
        intro r s2 h
        exact LoopPost.of_step wf rfl clF (fun hh => absurd rfl (h1 hh)) id h
      · have hb : (ret != OK) = true := by simpa using hret
        simp only [hb, if_true]
        exact good_ret.2 ⟨rfl, hok, by simpa using clF, fun _ => Or.inl hret, id⟩
    | elem t attrs hc => simp only [trailingPis, pure_eq]; exact good_ret.2 (hdone s wf own)
    | stop => simp only [trailingPis, pure_eq]; exact good_ret.2 (hdone s wf own)
    | content ci cd => simp only [trailingPis, pure_eq]; exact good_ret.2 (hdone s wf own)
    | skip => simp only [trailingPis, pure_eq]; exact good_ret.2 (hdone s wf own)
    | err code => simp only [trailingPis, pure_eq]; exact good_ret.2 (hdone s wf own)

theorem parseLoop_nil (p : APars) (c : TCtx) (items : List Item) : parseLoop p [] c items = trailingPis c items := by
  cases items <;> simp only [parseLoop]

/-- The content loops of the open elements over any list of body items, whatever fails: no fault,
    every tag of the open frames released, the context owns the rest, failures reported. -/
theorem parseLoop_spec (p : APars) (hpw : p.wbxml.isSome) (items : List Item) (hw : ∀ it ∈ items, it.wf)
    (st : List AName) (c : TCtx) (s : Ledger) (wf : s.WF) (hok : c.ok)
    (own : Owns s (p.owned ++ (stackOwned st ++ c.owned))) :
    Good (parseLoop p st c items) s (LoopPost (stackOwned st) c s) := by
  induction items generalizing st c s with
  | nil =>
    cases st with
    | nil =>
      rw [parseLoop_nil]
      exact trailingPis_spec c [] hw s wf hok (by simpa [stackOwned] using own.right)
    | cons e st' =>
      have htouch := touch_spec p s (own.2 _ (by simp [APars.owned]))
        (fun w hpw' => own.2 _ (by simp [APars.owned, hpw', ownedBufOpt, ABuf.owned])) hpw
      simp only [parseLoop, bind_eq, pure_eq]
      refine Good.bind htouch ?_
      intro _ s0 e0; have e0' := e0.symm; subst e0'
      exact abort_spec (e :: st') EEOB wf rfl hok (Clean.id wf own.right) (fun h => absurd h (Nat.lt_irrefl _)) id
  | cons it rest ih =>
    cases st with
    | nil =>
      rw [parseLoop_nil]
      exact trailingPis_spec c (it :: rest) hw s wf hok (by simpa [stackOwned] using own.right)
    | cons e st' =>
      have ownXC := own.right
      have hrest : ∀ x ∈ rest, x.wf := fun x hx => hw x (by simp [hx])
      have htouch := touch_spec p s (own.2 _ (by simp [APars.owned]))
        (fun w hpw' => own.2 _ (by simp [APars.owned, hpw', ownedBufOpt, ABuf.owned])) hpw
      -- the rest of the body after a step
      have hcont : ∀ (st1 : List AName) (c1 : TCtx) (s1 : Ledger), c1.tree = c.tree → c1.ok →
          Clean s s1 (stackOwned (e :: st') ++ c.owned) (stackOwned st1 ++ c1.owned) →
          (s.hits < s1.hits → c1.error ≠ OK) → (c.error ≠ OK → c1.error ≠ OK) →
          Good (parseLoop p st1 c1 rest) s1 (LoopPost (stackOwned (e :: st')) c s) := by
        intro st1 c1 s1 ht hok1 cl he hp
        have own1 := (Clean.frame_l p.owned wf cl own).owns
        exact (ih hrest st1 c1 s1 cl.wf hok1 own1).mono (fun r s2 h => LoopPost.of_step wf ht cl he hp h)
      -- the error exit
      have habort : ∀ (code : Nat) (c1 : TCtx) (s1 : Ledger), c1.tree = c.tree → c1.ok →
          Clean s s1 (stackOwned (e :: st') ++ c.owned) (stackOwned (e :: st') ++ c1.owned) →
          (s.hits < s1.hits → code ≠ OK ∨ c1.error ≠ OK) → (c.error ≠ OK → c1.error ≠ OK) →
          Good (Prog.bind (unwind (e :: st')) (fun _ => Prog.ret (code, c1))) s1 (LoopPost (stackOwned (e :: st')) c s) :=
        fun code c1 s1 ht hok1 cl he hp => abort_spec (e :: st') code wf ht hok1 cl he hp
      cases it with
      | stop =>
        simp only [parseLoop, bind_eq, pure_eq]
        refine Good.bind htouch ?_
        intro _ s0 e0; have e0' := e0.symm; subst e0'
        have ownP : Owns s ((e.owned ++ c.owned) ++ stackOwned st') :=
          ownXC.perm (by rw [stackOwned_cons]; perm_count)
        refine Good.bind (closeElement_spec c e s wf hok ownP.left) ?_
        intro c1 s1 ⟨t1, ok1, cl1, e1, p1⟩
        have clF := Clean.frame_r (stackOwned st') wf cl1 ownP
        have cl : Clean s s1 (stackOwned (e :: st') ++ c.owned) (stackOwned st' ++ c1.owned) :=
          clF.perm_both (by rw [stackOwned_cons]; perm_count) (by perm_count)
        exact hcont st' c1 s1 t1 ok1 cl e1 p1
      | elem t attrs hc =>
        obtain ⟨htw, haw⟩ : t.wf ∧ ∀ a ∈ attrs, a.start.wf := hw (.elem t attrs hc) (by simp)
        simp only [parseLoop, bind_eq, pure_eq]
        refine Good.bind htouch ?_
        intro _ s0 e0; have e0' := e0.symm; subst e0'
        refine Good.bind (startElement_spec c t htw attrs haw s wf hok ownXC.right) ?_
        intro r s1 ⟨t1, ok1, cl1, hnone, hsome, e1, p1⟩
        obtain ⟨ret, elt, c1⟩ := r
        simp only at t1 ok1 cl1 hnone hsome e1 p1 ⊢
        have hh1 := cl1.hits
        have clF := Clean.frame_l (stackOwned (e :: st')) wf cl1 ownXC
        cases elt with
        | none =>
          obtain ⟨hne, hc1⟩ := hnone rfl
          subst hc1
          simp only
          exact habort ret c1 s1 rfl hok (by simpa [ownedNameOpt] using clF) (fun _ => Or.inl hne) id
        | some x =>
          have hret : ret = OK := hsome rfl
          have e1' : s.hits < s1.hits → c1.error ≠ OK := fun hh => (e1 hh).resolve_left (fun h => h hret)
          have clS : Clean s s1 (stackOwned (e :: st') ++ c.owned) (stackOwned (x :: e :: st') ++ c1.owned) := by
            refine clF.prod_perm ?_
            simp only [stackOwned_cons, ownedNameOpt]
            perm_count
          simp only
          cases hc with
          | true => simp only [if_true]; exact hcont (x :: e :: st') c1 s1 t1 ok1 clS e1' p1
          | false =>
            simp only [Bool.false_eq_true, if_false]
            have clS' : Clean s s1 (stackOwned (e :: st') ++ c.owned) ((x.owned ++ c1.owned) ++ stackOwned (e :: st')) := by
              refine clS.prod_perm ?_
              simp only [stackOwned_cons]
              perm_count
            refine Good.bind (closeElement_spec c1 x s1 cl1.wf ok1 clS'.owns.left) ?_
            intro c2 s2 ⟨t2, ok2, cl2, e2, p2⟩
            have hh2 := cl2.hits
            have cl : Clean s s2 (stackOwned (e :: st') ++ c.owned) (stackOwned (e :: st') ++ c2.owned) :=
              (Clean.step_r _ wf clS' cl2).prod_perm (by perm_count)
            refine hcont (e :: st') c2 s2 (t2.trans t1) ok2 cl (fun hh => ?_) (fun h => p2 (p1 h))
            by_cases hA : s.hits < s1.hits
            · exact p2 (e1' hA)
            · exact e2 (by omega)
      | content ci cd =>
        simp only [parseLoop, bind_eq, pure_eq]
        refine Good.bind htouch ?_
        intro _ s0 e0; have e0' := e0.symm; subst e0'
        refine Good.bind (parseContent_spec ci s wf) ?_
        intro r s1 ⟨c1, e1, h1⟩
        obtain ⟨ret, content⟩ := r
        simp only at c1 e1 h1 ⊢
        have hh1 := c1.hits
        have clF : Clean s s1 (stackOwned (e :: st') ++ c.owned) ((stackOwned (e :: st') ++ c.owned) ++ ownedBufOpt content) := by
          simpa using Clean.frame_l (stackOwned (e :: st') ++ c.owned) wf c1 (by simpa using ownXC)
        by_cases hret : ret = OK
        · subst hret
          simp only [bne_self_eq_false, Bool.false_eq_true, if_false]
          have hno1 : ¬ s.hits < s1.hits := fun hh => h1 hh rfl
          have hlive : ∀ b, content = some b → b.hdr ∈ s1.live := by
            intro b hb; subst hb
            exact clF.owns.2 _ (List.mem_append_right _ (by simp [ownedBufOpt, ABuf.owned]))
          refine Good.bind (deliverChars_spec c content cd s1 c1.wf hok clF.owns.left.right hlive) ?_
          intro c2 s2 ⟨t2, ok2, cl2, e2, p2⟩
          have hh2 := cl2.hits
          have clF' : Clean s s1 (stackOwned (e :: st') ++ c.owned) ((stackOwned (e :: st') ++ ownedBufOpt content) ++ c.owned) :=
            clF.prod_perm (by perm_count)
          have clF2 : Clean s s2 (stackOwned (e :: st') ++ c.owned) ((stackOwned (e :: st') ++ c2.owned) ++ ownedBufOpt content) :=
            (Clean.step_l _ wf clF' cl2).prod_perm (by perm_count)
          refine Good.bind (bufDestroy_spec content s2 cl2.wf clF2.owns.right) ?_
          intro _ s3 ⟨d3, hd3, _⟩
          have clF3 : Clean s s3 (stackOwned (e :: st') ++ c.owned) (stackOwned (e :: st') ++ c2.owned) := by
            simpa using Clean.step_l _ wf clF2 d3
          exact hcont (e :: st') c2 s3 t2 ok2 clF3 (fun hh => e2 (by omega)) p2
        · have hb : (ret != OK) = true := by simpa using hret
          simp only [hb, if_true]
          have := e1 hret; subst this
          exact habort ret c s1 rfl hok (by simpa [ownedBufOpt] using clF) (fun _ => Or.inl hret) id
      | pi a =>
        simp only [parseLoop, bind_eq, pure_eq]
        refine Good.bind htouch ?_
        intro _ s0 e0; have e0' := e0.symm; subst e0'
        refine Good.bind (parsePi_spec a (hw (.pi a) (by simp)) s wf) ?_
        intro ret s1 ⟨c1, h1⟩
        have clF : Clean s s1 (stackOwned (e :: st') ++ c.owned) (stackOwned (e :: st') ++ c.owned) := by
          simpa using Clean.frame_l (stackOwned (e :: st') ++ c.owned) wf c1 (by simpa using ownXC)
        by_cases hret : ret = OK
        · subst hret
          simp only [bne_self_eq_false, Bool.false_eq_true, if_false]
          exact hcont (e :: st') c s1 rfl hok clF (fun hh => absurd rfl (h1 hh)) id
        · have hb : (ret != OK) = true := by simpa using hret
          simp only [hb, if_true]
          exact habort ret c s1 rfl hok clF (fun _ => Or.inl hret) id
      | skip =>
        simp only [parseLoop, bind_eq, pure_eq]
        refine Good.bind htouch ?_
        intro _ s0 e0; have e0' := e0.symm; subst e0'
        exact hcont (e :: st') c s rfl hok (Clean.id wf ownXC) (fun h => absurd h (Nat.lt_irrefl _)) id
      | err code =>
        simp only [parseLoop, bind_eq, pure_eq]
        refine Good.bind htouch ?_
        intro _ s0 e0; have e0' := e0.symm; subst e0'
        exact habort code c s rfl hok (Clean.id wf ownXC) (fun h => absurd h (Nat.lt_irrefl _)) id

end Wbxml.Model.Alloc
