/-
  C18 lemmas, part 6: `wbxml_tree_add_node` keeps the invariant (all three cases: first child,
  append after the last child, replace the last text child).
-/
import Wbxml.Lemmas.TreeHeapOps
set_option linter.unusedSimpArgs false
set_option linter.unusedVariables false
namespace Wbxml.Model.TreeHeap
open Wbxml Wbxml.Model

/-- Everything of the tree object besides the heap cells is unchanged. -/
def SameMeta (s s' : St) : Prop :=
  s'.root = s.root ∧ s'.lang = s.lang ∧ s'.charset = s.charset ∧ s'.curPage = s.curPage ∧
  s'.heap.length = s.heap.length

theorem SameMeta.refl (s : St) : SameMeta s s := ⟨rfl, rfl, rfl, rfl, rfl⟩
theorem SameMeta.trans {a b c : St} (h1 : SameMeta a b) (h2 : SameMeta b c) : SameMeta a c :=
  ⟨h2.1.trans h1.1, h2.2.1.trans h1.2.1, h2.2.2.1.trans h1.2.2.1, h2.2.2.2.1.trans h1.2.2.2.1,
   h2.2.2.2.2.trans h1.2.2.2.2⟩

theorem upd_step {s : St} {i : Nat} {c : Cell} (h : s.cellAt i = some c) (f : Cell → Cell)
    (hl : ∀ x, (f x).live = x.live) :
    ∃ s', s.upd i f = .ok s' ∧ s'.cellAt = vset s.cellAt i (f c) ∧ SameMeta s s' := by
  obtain ⟨s', h1, h2, h3, h4, h5, h6, h7⟩ := upd_view h f (by rw [hl]; exact cellAt_live h)
  exact ⟨s', h1, h2, h3, h4, h5, h6, h7⟩

theorem free_step {s : St} {i : Nat} {c : Cell} (h : s.cellAt i = some c) :
    ∃ s', s.free i = .ok s' ∧ s'.cellAt = vdel s.cellAt i ∧ SameMeta s s' := by
  obtain ⟨s', h1, h2, h3, h4, h5, h6, h7⟩ := free_view h
  exact ⟨s', h1, h2, h3, h4, h5, h6, h7⟩

/-- What a call does to the payloads: untouched everywhere except at `n` (which ends up with
    `newPay`) and at `dead` (a cell that was destroyed). -/
structure PayFrame (s s' : St) (n : Nat) (dead : Option Nat) (newPay : Pay) : Prop where
  other : ∀ j, j ≠ n → some j ≠ dead → payOf s'.cellAt j = payOf s.cellAt j
  self : payOf s'.cellAt n = newPay
  gone : ∀ l, dead = some l → s'.cellAt l = none

/-- What a call does to the `next` pointers: every sibling edge afterwards was one before, or is one
    of the listed new edges. -/
structure EdgeFrame (s s' : St) (E : List (Nat × Nat)) : Prop where
  edges : ∀ i j c', s'.cellAt i = some c' → c'.next = some j →
    (∃ c, s.cellAt i = some c ∧ c.next = some j) ∨ (i, j) ∈ E

/-- Text nodes do not appear out of nothing. -/
def TextMono (s s' : St) : Prop :=
  ∀ j c', s'.cellAt j = some c' → c'.pay.isText = true → ∃ c, s.cellAt j = some c ∧ c.pay.isText = true

theorem PayFrame.textMono {s s' : St} {n : Nat} {dead : Option Nat} {newPay : Pay}
    (pf : PayFrame s s' n dead newPay)
    (hn : newPay.isText = true → ∃ c, s.cellAt n = some c ∧ c.pay.isText = true) : TextMono s s' := by
  intro j c' hc' ht
  by_cases hjn : j = n
  · subst hjn
    apply hn
    have := pf.self
    simp only [payOf, hc'] at this
    rw [← this]; exact ht
  · by_cases hjd : some j = dead
    · rw [pf.gone j hjd.symm] at hc'; cases hc'
    · have := pf.other j hjn hjd
      simp only [payOf, hc'] at this
      cases hv : s.cellAt j with
      | none => rw [hv] at this; simp only at this; rw [this] at ht; cases ht
      | some c => rw [hv] at this; simp only at this; exact ⟨c, rfl, by rw [← this]; exact ht⟩

/-- The adjacency property survives a call whose new sibling edges do not join two text nodes. -/
theorem NoAdjText.step {s s' : St} (h : NoAdjText s) (E : List (Nat × Nat)) (he : EdgeFrame s s' E)
    (ht : TextMono s s')
    (hE : ∀ i j ci cj, (i, j) ∈ E → s'.cellAt i = some ci → s'.cellAt j = some cj →
      ¬ (ci.pay.isText = true ∧ cj.pay.isText = true)) : NoAdjText s' := by
  intro i j ci cj hci hnx hcj ⟨t1, t2⟩
  rcases he.edges i j ci hci hnx with ⟨c, hc, hcn⟩ | hnew
  · obtain ⟨c0, hc0, ht0⟩ := ht i ci hci t1
    rw [hc] at hc0; injection hc0 with hc0; subst hc0
    obtain ⟨cj0, hcj0, htj0⟩ := ht j cj hcj t2
    exact h i j c cj0 hc hcn hcj0 ⟨ht0, htj0⟩
  · exact hE i j ci cj hnew hci hcj ⟨t1, t2⟩

/-- The situation in which `wbxml_tree_add_node(tree, P, n)` is called by the histories of C18:
    `n` is a detached top (not the root), `P` is a live branch node outside the sub-tree of `n`. -/
structure AddCtx (s : St) (G : BT) (P n : Nat) (cP cn : Cell) : Prop where
  hF : Forest s G
  hn : n ∈ G.tops
  hroot : s.root ≠ some n
  hP : P ∈ G.ids
  hPn : P ≠ n
  hPk : P ∉ (BT.chainKids n G).ids
  hcP : s.cellAt P = some cP
  hbr : cP.pay.isBranch = true
  hcn : s.cellAt n = some cn

namespace AddCtx
variable {s : St} {G : BT} {P n : Nat} {cP cn : Cell}

theorem cn_facts (c : AddCtx s G P n cP cn) :
    cn.parent = none ∧ cn.prev = none ∧ cn.next = none ∧ cn.first = (BT.chainKids n G).rid ∧
    (cn.pay.isBranch = true ∨ BT.chainKids n G = .nil) ∧ Match s.cellAt (some n) none (BT.chainKids n G) := by
  obtain ⟨c', hc', h1, h2, h3, h4, h5, h6⟩ := Loc.top_facts s.cellAt n G none c.hF.m c.hn
  rw [c.hcn] at hc'; injection hc' with hc'; subst hc'
  exact ⟨h1, h2, h3, h4, h5, h6⟩

theorem kids_facts (c : AddCtx s G P n cP cn) :
    cP.first = (BT.kidsOf P G).rid ∧ Match s.cellAt (some P) none (BT.kidsOf P G) ∧
    (BT.kidsOf P G).ids.Nodup ∧ P ∉ (BT.kidsOf P G).ids ∧ n ∉ (BT.kidsOf P G).ids ∧
    (∀ j, j ∈ (BT.kidsOf P G).ids → j ∈ (BT.chainRemove n G).ids) ∧
    (∀ j, j ∈ (BT.kidsOf P G).ids → j ∉ (BT.chainKids n G).ids) := by
  obtain ⟨c', hc', h1, h2, h3⟩ := c.hF.cell_kids c.hP
  rw [c.hcP] at hc'; injection hc' with hc'; subst hc'
  have hnd := BT.kidsOf_nodup P G c.hF.nodup
  have hK : BT.kidsOf P (BT.chainRemove n G) = BT.kidsOf P G := BT.kidsOf_chainRemove P n G c.hPn c.hPk
  have hsub : ∀ j, j ∈ (BT.kidsOf P G).ids → j ∈ (BT.chainRemove n G).ids := by
    intro j hj; rw [← hK] at hj; exact BT.kidsOf_mem P _ j hj
  have hmem := fun j hj => (BT.mem_chainRemove n G j c.hF.nodup c.hn).mp (hsub j hj)
  exact ⟨h1, h3, hnd.1, hnd.2, fun h => (hmem n h).2.1 rfl, hsub, fun j hj => (hmem j hj).2.2⟩

end AddCtx

/-! ### Case 1: `P` has no child yet -/

theorem addNode_first {s : St} {G : BT} {P n : Nat} {cP cn : Cell} (c : AddCtx s G P n cP cn)
    (hf : cP.first = none) :
    ∃ s', addNode s (some P) n = .ok (true, s') ∧ SameMeta s s' ∧
      Forest s' (BT.setKids P (.node n (BT.chainKids n G) .nil) (BT.chainRemove n G)) ∧
      (∃ c', s'.cellAt n = some c' ∧ c'.pay.isBranch = cn.pay.isBranch ∧ c'.pay.isText = cn.pay.isText) ∧
      PayFrame s s' n none cn.pay ∧ EdgeFrame s s' [] := by
  obtain ⟨hp0, hv0, hn0, hf0, hb0, hm0⟩ := c.cn_facts
  obtain ⟨k1, k2, k3, k4, k5, k6, k7⟩ := c.kids_facts
  obtain ⟨s1, e1, v1, m1⟩ := upd_step c.hcn (fun c => { c with parent := some P }) (fun _ => rfl)
  have hP1 : s1.cellAt P = some cP := by rw [v1, vset_ne _ _ c.hPn]; exact c.hcP
  obtain ⟨s2, e2, v2, m2⟩ := upd_step hP1 (fun c => { c with first := some n }) (fun _ => rfl)
  have hpf : PayFrame s s2 n none cn.pay := by
    refine ⟨?_, ?_, by intro l h; cases h⟩
    · intro j hj _
      rw [v2, payOf_vset_same hP1 (by rfl), v1, payOf_vset_ne _ _ hj]
    · rw [v2, payOf_vset_ne _ _ c.hPn.symm, v1, payOf_vset_self]
  have hef : EdgeFrame s s2 [] := by
    refine ⟨?_⟩
    intro i j c' hc' hnx
    left
    by_cases hiP : i = P
    · subst hiP
      rw [v2] at hc'; simp only [vset_self, Option.some.injEq] at hc'; subst hc'
      exact ⟨cP, c.hcP, hnx⟩
    · rw [v2, vset_ne _ _ hiP, v1] at hc'
      by_cases hin : i = n
      · subst hin
        simp only [vset_self, Option.some.injEq] at hc'; subst hc'
        rw [hn0] at hnx; cases hnx
      · rw [vset_ne _ _ hin] at hc'; exact ⟨c', hc', hnx⟩
  refine ⟨s2, ?_, m1.trans m2, ?_, ⟨{ cn with parent := some P }, by rw [v2, vset_ne _ _ c.hPn.symm, v1]; simp, rfl, rfl⟩,
    hpf, hef⟩
  · simp only [addNode, e1, bind, Except.bind, deref_of_cellAt hP1, hf, e2, pure, Except.pure]
  · have hKnil : BT.kidsOf P G = .nil := BT.rid_none (by rw [← k1]; exact hf)
    have hnk := BT.chainKids_nodup n G c.hF.nodup c.hn
    apply Forest.rebuild c.hF _ c.hn c.hroot c.hP c.hPn c.hPk (m1.trans m2).1
    · intro i hi hiP _
      have hin : i ≠ n := ((BT.mem_chainRemove n G i c.hF.nodup c.hn).mp hi).2.1
      rw [v2, vset_ne _ _ hiP, v1, vset_ne _ _ hin]
    · exact ⟨cP, c.hcP, c.hbr, by rw [v2]; simp⟩
    · refine ⟨⟨{ cn with parent := some P }, by rw [v2, vset_ne _ _ c.hPn.symm, v1]; simp, rfl, hv0, hf0, hn0, ?_⟩, ?_, trivial⟩
      · rcases hb0 with h | h
        · exact Or.inl h
        · exact Or.inr (by rw [h]; rfl)
      · apply Match.frame _ _ _ _ hm0
        intro j hj
        have hjn : j ≠ n := fun e => hnk.2 (e ▸ hj)
        have hjP : j ≠ P := fun e => c.hPk (e ▸ hj)
        rw [v2, vset_ne _ _ hjP, v1, vset_ne _ _ hjn]
    · exact BT.nodup_node.mpr ⟨hnk.2, by simp, hnk.1, by simp, by simp⟩
    · intro j hj hj1
      have := (BT.mem_chainRemove n G j c.hF.nodup c.hn).mp hj1
      rcases BT.mem_node.mp hj with h | h | h
      · exact absurd h this.2.1
      · exact absurd h this.2.2
      · simp at h
    · intro i ci hci
      have hlive : ∃ c0, s.cellAt i = some c0 := by
        rw [v2] at hci
        by_cases hiP : i = P
        · exact ⟨cP, hiP ▸ c.hcP⟩
        · rw [vset_ne _ _ hiP, v1] at hci
          by_cases hin : i = n
          · exact ⟨cn, hin ▸ c.hcn⟩
          · rw [vset_ne _ _ hin] at hci; exact ⟨ci, hci⟩
      obtain ⟨c0, hc0⟩ := hlive
      have hiG := c.hF.cover i c0 hc0
      rw [hKnil]
      by_cases hin : i = n
      · right; exact BT.mem_node.mpr (Or.inl hin)
      · by_cases hik : i ∈ (BT.chainKids n G).ids
        · right; exact BT.mem_node.mpr (Or.inr (Or.inl hik))
        · left; exact ⟨(BT.mem_chainRemove n G i c.hF.nodup c.hn).mpr ⟨hiG, hin, hik⟩, by simp⟩

/-! ### The walk to the last child -/

theorem BT.mem_replLast_self (n : Nat) : ∀ (K : BT), K ≠ .nil → n ∈ (BT.replLast n K).ids
  | .nil, h => absurd rfl h
  | .node i ch .nil, _ => by simp [BT.replLast]
  | .node i ch (.node a c m), _ => by
    have e : BT.replLast n (.node i ch (.node a c m)) = .node i ch (BT.replLast n (.node a c m)) := rfl
    rw [e]
    exact BT.mem_node.mpr (Or.inr (Or.inr (BT.mem_replLast_self n (.node a c m) (by simp))))

/-- What `wbxml_tree_add_node` has read when it reaches the decision "merge or append". -/
theorem addNode_walk {s : St} {G : BT} {P n : Nat} {cP cn : Cell} (c : AddCtx s G P n cP cn)
    {fc : Nat} (hf : cP.first = some fc) :
    ∃ s1 l cl, s.upd n (fun c => { c with parent := some P }) = .ok s1 ∧
      s1.cellAt = vset s.cellAt n { cn with parent := some P } ∧ SameMeta s s1 ∧
      s1.deref P = .ok cP ∧ s1.lastSib s1.heap.length fc = .ok l ∧
      (BT.kidsOf P G).lastId = some l ∧ BT.kidsOf P G ≠ .nil ∧
      s.cellAt l = some cl ∧ s1.deref l = .ok cl ∧ s1.deref n = .ok { cn with parent := some P } ∧
      l ≠ n ∧ l ≠ P ∧ l ∈ (BT.kidsOf P G).ids ∧
      cl.next = none ∧ cl.prev = BT.lastPrev none (BT.kidsOf P G) := by
  obtain ⟨k1, k2, k3, k4, k5, k6, k7⟩ := c.kids_facts
  obtain ⟨s1, e1, v1, m1⟩ := upd_step c.hcn (fun c => { c with parent := some P }) (fun _ => rfl)
  have hP1 : s1.cellAt P = some cP := by rw [v1, vset_ne _ _ c.hPn]; exact c.hcP
  have hKne : BT.kidsOf P G ≠ .nil := by
    intro h; rw [h] at k1; rw [hf] at k1; cases k1
  obtain ⟨l, hl⟩ := BT.lastId_some _ hKne
  have hlK : l ∈ (BT.kidsOf P G).ids := BT.tops_sub _ _ (BT.lastId_mem _ _ hl)
  have hln : l ≠ n := fun e => k5 (e ▸ hlK)
  have hlP : l ≠ P := fun e => k4 (e ▸ hlK)
  obtain ⟨cl, hcl, hnx, _, hpv⟩ := Match.last (some P) _ none l k2 hl
  have hm1 : Match s1.cellAt (some P) none (BT.kidsOf P G) := by
    apply Match.frame _ _ _ _ k2
    intro j hj
    have hjn : j ≠ n := fun e => k5 (e ▸ hj)
    rw [v1, vset_ne _ _ hjn]
  have hfuel : (BT.kidsOf P G).tops.length ≤ s1.heap.length := by
    have h1 := BT.tops_length_le (BT.kidsOf P G)
    have h2 := BT.sub_length_le P G c.hF.nodup
    have h3 := c.hF.size_le
    have h4 := m1.2.2.2.2
    omega
  have hwalk := lastSib_spec (s := s1) (some P) (BT.kidsOf P G) none fc l s1.heap.length hm1
    (by rw [← k1]; exact hf) hl hfuel
  refine ⟨s1, l, cl, e1, v1, m1, deref_of_cellAt hP1, hwalk, hl, hKne, hcl, ?_, ?_, hln, hlP, hlK, hnx, hpv⟩
  · apply deref_of_cellAt; rw [v1, vset_ne _ _ hln]; exact hcl
  · apply deref_of_cellAt; rw [v1]; simp

/-! ### Case 2: append after the last child -/

theorem addNode_append {s : St} {G : BT} {P n : Nat} {cP cn : Cell} (c : AddCtx s G P n cP cn)
    {fc : Nat} (hf : cP.first = some fc)
    (hnt : ∀ l cl, (BT.kidsOf P G).lastId = some l → s.cellAt l = some cl →
      (cn.pay.isText && cl.pay.isText) = false) :
    ∃ s', addNode s (some P) n = .ok (true, s') ∧ SameMeta s s' ∧
      Forest s' (BT.setKids P (BT.snoc (BT.kidsOf P G) (.node n (BT.chainKids n G) .nil)) (BT.chainRemove n G)) ∧
      (∃ c', s'.cellAt n = some c' ∧ c'.pay.isBranch = cn.pay.isBranch ∧ c'.pay.isText = cn.pay.isText) ∧
      PayFrame s s' n none cn.pay ∧
      ∃ l, (BT.kidsOf P G).lastId = some l ∧ EdgeFrame s s' [(l, n)] := by
  obtain ⟨hp0, hv0, hn0, hf0, hb0, hm0⟩ := c.cn_facts
  obtain ⟨k1, k2, k3, k4, k5, k6, k7⟩ := c.kids_facts
  obtain ⟨s1, l, cl, e1, v1, m1, dP, hw, hl, hKne, hcl, dl, dn, hln, hlP, hlK, hlnx, hlpv⟩ := addNode_walk c hf
  have hcond := hnt l cl hl hcl
  have hn1 : s1.cellAt n = some { cn with parent := some P } := by rw [v1]; simp
  obtain ⟨s2, e2, v2, m2⟩ := upd_step hn1 (fun c => { c with prev := some l }) (fun _ => rfl)
  have hl2 : s2.cellAt l = some cl := by rw [v2, vset_ne _ _ hln, v1, vset_ne _ _ hln]; exact hcl
  obtain ⟨s3, e3, v3, m3⟩ := upd_step hl2 (fun c => { c with next := some n }) (fun _ => rfl)
  have hnk := BT.chainKids_nodup n G c.hF.nodup c.hn
  -- the final view at the addresses that matter
  have hv_other : ∀ i, i ≠ n → i ≠ l → s3.cellAt i = s.cellAt i := by
    intro i hin hil
    rw [v3, vset_ne _ _ hil, v2, vset_ne _ _ hin, v1, vset_ne _ _ hin]
  have hv_n : s3.cellAt n = some { cn with parent := some P, prev := some l } := by
    rw [v3, vset_ne _ _ hln.symm, v2]; simp
  have hv_l : s3.cellAt l = some { cl with next := some n } := by rw [v3]; simp
  have hpf : PayFrame s s3 n none cn.pay := by
    refine ⟨?_, by simp [payOf, hv_n], by intro l h; cases h⟩
    intro j hj _
    rw [v3, payOf_vset_same hl2 (by rfl), v2, payOf_vset_ne _ _ hj, v1, payOf_vset_ne _ _ hj]
  have hef : EdgeFrame s s3 [(l, n)] := by
    refine ⟨?_⟩
    intro i j c' hc' hnx
    by_cases hil : i = l
    · subst hil
      rw [hv_l] at hc'; simp only [Option.some.injEq] at hc'; subst hc'
      simp only [Option.some.injEq] at hnx; subst hnx
      right; simp
    · left
      by_cases hin : i = n
      · subst hin
        rw [hv_n] at hc'; simp only [Option.some.injEq] at hc'; subst hc'
        rw [hn0] at hnx; cases hnx
      · rw [hv_other i hin hil] at hc'; exact ⟨c', hc', hnx⟩
  refine ⟨s3, ?_, (m1.trans m2).trans m3, ?_, ⟨_, hv_n, rfl, rfl⟩, hpf, ⟨l, hl, hef⟩⟩
  · simp only [addNode, e1, bind, Except.bind, dP, hf, hw, dl, dn, hcond, linkAppend, e2, e3, pure, Except.pure,
      Bool.false_eq_true, if_false]
  · apply Forest.rebuild c.hF _ c.hn c.hroot c.hP c.hPn c.hPk ((m1.trans m2).trans m3).1
    · intro i hi hiP hik
      have hin : i ≠ n := ((BT.mem_chainRemove n G i c.hF.nodup c.hn).mp hi).2.1
      exact hv_other i hin (fun e => hik (e ▸ hlK))
    · refine ⟨cP, c.hcP, c.hbr, ?_⟩
      rw [hv_other P c.hPn hlP.symm, BT.snoc_rid _ _ hKne, ← k1, c.hcP]
    · apply Match.snoc (v := s.cellAt) (some P) n (BT.chainKids n G) l _ none k3 hl _ _ _ _ k2
      · intro j hj hjl
        exact hv_other j (fun e => k5 (e ▸ hj)) hjl
      · intro c' hc'
        rw [hcl] at hc'; injection hc' with hc'; subst hc'
        exact hv_l
      · refine ⟨_, hv_n, rfl, rfl, hf0, hn0, ?_⟩
        rcases hb0 with h | h
        · exact Or.inl h
        · exact Or.inr (by rw [h]; rfl)
      · apply Match.frame _ _ _ _ hm0
        intro j hj
        exact hv_other j (fun e => hnk.2 (e ▸ hj)) (fun e => k7 l hlK (e ▸ hj))
    · apply BT.snoc_nodup _ _ k3 (BT.nodup_node.mpr ⟨hnk.2, by simp, hnk.1, by simp, by simp⟩)
      intro j hj hj2
      rcases BT.mem_node.mp hj2 with h | h | h
      · exact k5 (h ▸ hj)
      · exact k7 j hj h
      · simp at h
    · intro j hj hj1
      rcases (BT.snoc_ids _ _ j).mp hj with h | h
      · exact h
      · have := (BT.mem_chainRemove n G j c.hF.nodup c.hn).mp hj1
        rcases BT.mem_node.mp h with h | h | h
        · exact absurd h this.2.1
        · exact absurd h this.2.2
        · simp at h
    · intro i ci hci
      have hlive : ∃ c0, s.cellAt i = some c0 := by
        by_cases hin : i = n
        · exact ⟨cn, hin ▸ c.hcn⟩
        · by_cases hil : i = l
          · exact ⟨cl, hil ▸ hcl⟩
          · rw [hv_other i hin hil] at hci; exact ⟨ci, hci⟩
      obtain ⟨c0, hc0⟩ := hlive
      have hiG := c.hF.cover i c0 hc0
      by_cases hin : i = n
      · right; exact (BT.snoc_ids _ _ i).mpr (Or.inr (BT.mem_node.mpr (Or.inl hin)))
      · by_cases hik : i ∈ (BT.chainKids n G).ids
        · right; exact (BT.snoc_ids _ _ i).mpr (Or.inr (BT.mem_node.mpr (Or.inr (Or.inl hik))))
        · by_cases hiK : i ∈ (BT.kidsOf P G).ids
          · right; exact (BT.snoc_ids _ _ i).mpr (Or.inl hiK)
          · left; exact ⟨(BT.mem_chainRemove n G i c.hF.nodup c.hn).mpr ⟨hiG, hin, hik⟩, hiK⟩

/-! ### Case 3: the new text node replaces the last child, a text node -/

/-- The forest after the merge, from the facts about the final view (shared by the two ways the
    C code relinks: last child is the first child / has a previous sibling). -/
theorem forest_merge {s s' : St} {G : BT} {P n : Nat} {cP cn : Cell} (c : AddCtx s G P n cP cn)
    {l : Nat} {cl : Cell} (hl : (BT.kidsOf P G).lastId = some l) (hcl : s.cellAt l = some cl)
    (htn : cn.pay.isText = true) (htl : cl.pay.isText = true) (X : Pay) (hX : X.isBranch = false)
    (hroot' : s'.root = s.root)
    (hother : ∀ i, i ≠ P → i ≠ n → i ≠ l → some i ≠ cl.prev → s'.cellAt i = s.cellAt i)
    (hdead : s'.cellAt l = none)
    (hnew : s'.cellAt n = some { cn with parent := some P, prev := cl.prev, pay := X })
    (hP0 : cl.prev = none → s'.cellAt P = some { cP with first := some n })
    (hPq : ∀ q, cl.prev = some q → s'.cellAt P = some cP ∧
      ∀ cq, s.cellAt q = some cq → s'.cellAt q = some { cq with next := some n }) :
    Forest s' (BT.setKids P (BT.replLast n (BT.kidsOf P G)) (BT.chainRemove n G)) := by
  obtain ⟨hp0, hv0, hn0, hf0, hb0, hm0⟩ := c.cn_facts
  obtain ⟨k1, k2, k3, k4, k5, k6, k7⟩ := c.kids_facts
  have hKne : BT.kidsOf P G ≠ .nil := by
    intro h; rw [h] at hl; simp [BT.lastId] at hl
  have hlK : l ∈ (BT.kidsOf P G).ids := BT.tops_sub _ _ (BT.lastId_mem _ _ hl)
  have hln : l ≠ n := fun e => k5 (e ▸ hlK)
  have hlP : l ≠ P := fun e => k4 (e ▸ hlK)
  obtain ⟨cl', hcl', hnx, _, hpv⟩ := Match.last (some P) _ none l k2 hl
  rw [hcl] at hcl'; injection hcl' with hcl'; subst hcl'
  -- text cells are leaves
  have hnb : cn.pay.isBranch = false := by
    cases hpay : cn.pay <;> simp [hpay, Pay.isText] at htn <;> rfl
  have hlb : cl.pay.isBranch = false := by
    cases hpay : cl.pay <;> simp [hpay, Pay.isText] at htl <;> rfl
  have hchn : BT.chainKids n G = .nil := by
    rcases hb0 with h | h
    · rw [hnb] at h; cases h
    · exact h
  have hlleaf : BT.chainKids l (BT.kidsOf P G) = .nil :=
    Match.leaf _ _ _ k2 l cl (BT.lastId_mem _ _ hl) hcl hlb
  have hnf : cn.first = none := by rw [hf0, hchn]; rfl
  apply Forest.rebuild c.hF _ c.hn c.hroot c.hP c.hPn c.hPk hroot'
  · intro i hi hiP hik
    have hin : i ≠ n := ((BT.mem_chainRemove n G i c.hF.nodup c.hn).mp hi).2.1
    apply hother i hiP hin (fun e => hik (e ▸ hlK))
    intro e
    rw [hpv] at e
    cases hq : BT.lastPrev none (BT.kidsOf P G) with
    | none => rw [hq] at e; cases e
    | some q =>
      rw [hq] at e; injection e with e; subst e
      exact hik (BT.lastPrev_some n _ i hq k3).1
  · refine ⟨cP, c.hcP, c.hbr, ?_⟩
    cases hq : cl.prev with
    | none =>
      rw [hP0 hq]
      obtain ⟨i, ch, hK⟩ := BT.lastPrev_none _ hKne (by rw [← hpv]; exact hq)
      rw [hK]; rfl
    | some q =>
      rw [(hPq q hq).1, (BT.lastPrev_some n _ q (by rw [← hpv]; exact hq) k3).2.1, ← k1]
  · apply Match.replLast (v := s.cellAt) (some P) n l _ none k3 hl _ _ _ k2
    · intro j hj hjl hjq
      exact hother j (fun e => k4 (e ▸ hj)) (fun e => k5 (e ▸ hj)) hjl (by rw [hpv]; exact hjq)
    · intro q cq hq hqm hcq
      exact (hPq q (by rw [hpv]; exact hq)).2 cq hcq
    · exact ⟨_, hnew, rfl, hpv, hnf, hn0, Or.inr rfl⟩
  · exact BT.nodup_replLast n _ k3 k5
  · intro j hj hj1
    rcases BT.mem_replLast n _ j hj with h | h
    · exact absurd h ((BT.mem_chainRemove n G j c.hF.nodup c.hn).mp hj1).2.1
    · exact h
  · intro i ci hci
    have hil : i ≠ l := by
      intro e; rw [e, hdead] at hci; cases hci
    have hlive : ∃ c0, s.cellAt i = some c0 := by
      by_cases hiP : i = P
      · exact ⟨cP, hiP ▸ c.hcP⟩
      · by_cases hin : i = n
        · exact ⟨cn, hin ▸ c.hcn⟩
        · by_cases hiq : some i = cl.prev
          · have hq := (BT.lastPrev_some n _ i (by rw [← hpv]; exact hiq.symm) k3).1
            exact Match.live _ _ _ k2 i hq
          · rw [hother i hiP hin hil hiq] at hci; exact ⟨ci, hci⟩
    obtain ⟨c0, hc0⟩ := hlive
    have hiG := c.hF.cover i c0 hc0
    by_cases hin : i = n
    · right; rw [hin]; exact BT.mem_replLast_self n _ hKne
    · have hik : i ∉ (BT.chainKids n G).ids := by rw [hchn]; simp
      by_cases hiK : i ∈ (BT.kidsOf P G).ids
      · right; exact BT.mem_replLast_of n l _ i hl hlleaf k3 hiK hil
      · left; exact ⟨(BT.mem_chainRemove n G i c.hF.nodup c.hn).mpr ⟨hiG, hin, hik⟩, hiK⟩

theorem addNode_merge {s : St} {G : BT} {P n : Nat} {cP cn : Cell} (c : AddCtx s G P n cP cn)
    {fc : Nat} (hf : cP.first = some fc)
    (ht : ∀ l cl, (BT.kidsOf P G).lastId = some l → s.cellAt l = some cl →
      (cn.pay.isText && cl.pay.isText) = true) :
    ∃ s', addNode s (some P) n = .ok (true, s') ∧ SameMeta s s' ∧
      Forest s' (BT.setKids P (BT.replLast n (BT.kidsOf P G)) (BT.chainRemove n G)) ∧
      (∃ c', s'.cellAt n = some c' ∧ c'.pay.isBranch = cn.pay.isBranch ∧ c'.pay.isText = cn.pay.isText) ∧
      ∃ l cl, (BT.kidsOf P G).lastId = some l ∧ s.cellAt l = some cl ∧
        PayFrame s s' n (some l) (.text (cl.pay.textOf ++ cn.pay.textOf)) ∧
        EdgeFrame s s' (match cl.prev with
          | some q => [(q, n)]
          | none => []) := by
  obtain ⟨hp0, hv0, hn0, hf0, hb0, hm0⟩ := c.cn_facts
  obtain ⟨k1, k2, k3, k4, k5, k6, k7⟩ := c.kids_facts
  obtain ⟨s1, l, cl, e1, v1, m1, dP, hw, hl, hKne, hcl, dl, dn, hln, hlP, hlK, hlnx, hlpv⟩ := addNode_walk c hf
  have hcond := ht l cl hl hcl
  have htn : cn.pay.isText = true := by
    simp only [Bool.and_eq_true] at hcond; exact hcond.1
  have htl : cl.pay.isText = true := by
    simp only [Bool.and_eq_true] at hcond; exact hcond.2
  have hn1 : s1.cellAt n = some { cn with parent := some P } := by rw [v1]; simp
  have hP1 : s1.cellAt P = some cP := by rw [v1, vset_ne _ _ c.hPn]; exact c.hcP
  have hl1 : s1.cellAt l = some cl := by rw [v1, vset_ne _ _ hln]; exact hcl
  cases hq : cl.prev with
  | none =>
    -- tmp is the first child: parent->children = node
    obtain ⟨s2, e2, v2, m2⟩ := upd_step hP1 (fun c => { c with first := some n }) (fun _ => rfl)
    have hn2 : s2.cellAt n = some { cn with parent := some P } := by
      rw [v2, vset_ne _ _ c.hPn.symm]; exact hn1
    obtain ⟨s3, e3, v3, m3⟩ := upd_step hn2
      (fun c => { c with pay := .text (cl.pay.textOf ++ ({ cn with parent := some P } : Cell).pay.textOf) }) (fun _ => rfl)
    have hl3 : s3.cellAt l = some cl := by
      rw [v3, vset_ne _ _ hln, v2, vset_ne _ _ hlP]; exact hl1
    obtain ⟨s4, e4, v4, m4⟩ := free_step hl3
    have hnb : cn.pay.isBranch = false := by
      cases hpay : cn.pay <;> simp [hpay, Pay.isText] at htn <;> rfl
    have hpf : PayFrame s s4 n (some l) (.text (cl.pay.textOf ++ cn.pay.textOf)) := by
      refine ⟨?_, ?_, ?_⟩
      · intro j hj hjl
        have hjl' : j ≠ l := fun e => hjl (by rw [e])
        rw [v4, payOf_vdel_ne _ hjl', v3, payOf_vset_ne _ _ hj, v2, payOf_vset_same hP1 (by rfl), v1, payOf_vset_ne _ _ hj]
      · rw [v4, payOf_vdel_ne _ hln.symm, v3, payOf_vset_self]
      · intro l' hl'; injection hl' with hl'; subst hl'; rw [v4]; simp
    have hef : EdgeFrame s s4 (match cl.prev with
        | some q => [(q, n)]
        | none => []) := by
      refine ⟨?_⟩
      intro i j c' hc' hnx
      left
      have hil : i ≠ l := by intro e; rw [e, v4] at hc'; simp at hc'
      rw [v4, vdel_ne _ hil, v3] at hc'
      by_cases hin : i = n
      · subst hin
        simp only [vset_self, Option.some.injEq] at hc'; subst hc'
        rw [hn0] at hnx; cases hnx
      · rw [vset_ne _ _ hin, v2] at hc'
        by_cases hiP : i = P
        · subst hiP
          simp only [vset_self, Option.some.injEq] at hc'; subst hc'
          exact ⟨cP, c.hcP, hnx⟩
        · rw [vset_ne _ _ hiP, v1, vset_ne _ _ hin] at hc'; exact ⟨c', hc', hnx⟩
    refine ⟨s4, ?_, ((m1.trans m2).trans m3).trans m4, ?_,
      ⟨{ cn with parent := some P, pay := .text (cl.pay.textOf ++ cn.pay.textOf) },
        by rw [v4, vdel_ne _ hln.symm, v3]; simp, by rw [hnb]; rfl, by rw [htn]; rfl⟩,
      ⟨l, cl, hl, hcl, hpf, hef⟩⟩
    · simp only [addNode, e1, bind, Except.bind, dP, hf, hw, dl, dn, hcond, linkMerge, hq, e2, e3, e4, pure,
        Except.pure, if_true]
    · apply forest_merge c hl hcl htn htl (.text (cl.pay.textOf ++ cn.pay.textOf)) rfl
        (((m1.trans m2).trans m3).trans m4).1
      · intro i hiP hin hil _
        rw [v4, vdel_ne _ hil, v3, vset_ne _ _ hin, v2, vset_ne _ _ hiP, v1, vset_ne _ _ hin]
      · rw [v4]; simp
      · rw [v4, vdel_ne _ hln.symm, v3, hq]; simp [hv0]
      · intro _
        rw [v4, vdel_ne _ hlP.symm, v3, vset_ne _ _ c.hPn, v2]; simp
      · intro q hq'; rw [hq] at hq'; cases hq'
  | some q =>
    -- tmp->prev->next = node; node->prev = tmp->prev
    have hqfacts := BT.lastPrev_some n _ q (by rw [← hlpv]; exact hq) k3
    have hqK : q ∈ (BT.kidsOf P G).ids := hqfacts.1
    have hqn : q ≠ n := fun e => k5 (e ▸ hqK)
    have hqP : q ≠ P := fun e => k4 (e ▸ hqK)
    have hql : q ≠ l := fun e => hqfacts.2.2 (by rw [hl, e])
    obtain ⟨cq, hcq⟩ := Match.live _ _ _ k2 q hqK
    have hq1 : s1.cellAt q = some cq := by rw [v1, vset_ne _ _ hqn]; exact hcq
    obtain ⟨s2, e2, v2, m2⟩ := upd_step hq1 (fun c => { c with next := some n }) (fun _ => rfl)
    have hn2 : s2.cellAt n = some { cn with parent := some P } := by
      rw [v2, vset_ne _ _ hqn.symm]; exact hn1
    obtain ⟨s3, e3, v3, m3⟩ := upd_step hn2 (fun c => { c with prev := some q }) (fun _ => rfl)
    have hn3 : s3.cellAt n = some { cn with parent := some P, prev := some q } := by rw [v3]; simp
    obtain ⟨s4, e4, v4, m4⟩ := upd_step hn3
      (fun c => { c with pay := .text (cl.pay.textOf ++ ({ cn with parent := some P } : Cell).pay.textOf) }) (fun _ => rfl)
    have hl4 : s4.cellAt l = some cl := by
      rw [v4, vset_ne _ _ hln, v3, vset_ne _ _ hln, v2, vset_ne _ _ hql.symm]; exact hl1
    obtain ⟨s5, e5, v5, m5⟩ := free_step hl4
    have hnb : cn.pay.isBranch = false := by
      cases hpay : cn.pay <;> simp [hpay, Pay.isText] at htn <;> rfl
    have hpf : PayFrame s s5 n (some l) (.text (cl.pay.textOf ++ cn.pay.textOf)) := by
      refine ⟨?_, ?_, ?_⟩
      · intro j hj hjl
        have hjl' : j ≠ l := fun e => hjl (by rw [e])
        rw [v5, payOf_vdel_ne _ hjl', v4, payOf_vset_ne _ _ hj, v3, payOf_vset_ne _ _ hj, v2,
          payOf_vset_same hq1 (by rfl), v1, payOf_vset_ne _ _ hj]
      · rw [v5, payOf_vdel_ne _ hln.symm, v4, payOf_vset_self]
      · intro l' hl'; injection hl' with hl'; subst hl'; rw [v5]; simp
    have hef : EdgeFrame s s5 (match cl.prev with
        | some q => [(q, n)]
        | none => []) := by
      refine ⟨?_⟩
      intro i j c' hc' hnx
      have hil : i ≠ l := by intro e; rw [e, v5] at hc'; simp at hc'
      rw [v5, vdel_ne _ hil, v4] at hc'
      by_cases hin : i = n
      · subst hin
        simp only [vset_self, Option.some.injEq] at hc'; subst hc'
        rw [hn0] at hnx; cases hnx
      · rw [vset_ne _ _ hin, v3, vset_ne _ _ hin, v2] at hc'
        by_cases hiq : i = q
        · subst hiq
          simp only [vset_self, Option.some.injEq] at hc'; subst hc'
          simp only [Option.some.injEq] at hnx; subst hnx
          right; rw [hq]; simp
        · left
          rw [vset_ne _ _ hiq, v1, vset_ne _ _ hin] at hc'; exact ⟨c', hc', hnx⟩
    refine ⟨s5, ?_, (((m1.trans m2).trans m3).trans m4).trans m5, ?_,
      ⟨{ cn with parent := some P, prev := some q, pay := .text (cl.pay.textOf ++ cn.pay.textOf) },
        by rw [v5, vdel_ne _ hln.symm, v4]; simp, by rw [hnb]; rfl, by rw [htn]; rfl⟩,
      ⟨l, cl, hl, hcl, hpf, hef⟩⟩
    · simp only [addNode, e1, bind, Except.bind, dP, hf, hw, dl, dn, hcond, linkMerge, hq, e2, e3, e4, e5, pure,
        Except.pure, if_true]
    · apply forest_merge c hl hcl htn htl (.text (cl.pay.textOf ++ cn.pay.textOf)) rfl
        ((((m1.trans m2).trans m3).trans m4).trans m5).1
      · intro i hiP hin hil hiq
        have hiq' : i ≠ q := fun e => hiq (by rw [hq, e])
        rw [v5, vdel_ne _ hil, v4, vset_ne _ _ hin, v3, vset_ne _ _ hin, v2, vset_ne _ _ hiq', v1, vset_ne _ _ hin]
      · rw [v5]; simp
      · rw [v5, vdel_ne _ hln.symm, v4, hq]; simp
      · intro h; rw [hq] at h; cases h
      · intro q' hq'
        rw [hq] at hq'; injection hq' with hq'; subst hq'
        refine ⟨?_, ?_⟩
        · rw [v5, vdel_ne _ hlP.symm, v4, vset_ne _ _ c.hPn, v3, vset_ne _ _ c.hPn, v2, vset_ne _ _ hqP.symm]
          exact hP1
        · intro cq' hcq'
          rw [hcq] at hcq'; injection hcq' with hcq'; subst hcq'
          rw [v5, vdel_ne _ hql, v4, vset_ne _ _ hqn, v3, vset_ne _ _ hqn, v2]; simp

/-! ### `wbxml_tree_add_node` under a parent: all cases together -/

/-- The shape after `wbxml_tree_add_node(tree, P, n)`. -/
def addShape (s : St) (G : BT) (P n : Nat) : BT :=
  let K := BT.kidsOf P G
  let merge : Bool := match K.lastId, s.cellAt n with
    | some l, some cn => (match s.cellAt l with
      | some cl => cn.pay.isText && cl.pay.isText
      | none => false)
    | _, _ => false
  BT.setKids P (if K = .nil then .node n (BT.chainKids n G) .nil
                else if merge then BT.replLast n K
                else BT.snoc K (.node n (BT.chainKids n G) .nil)) (BT.chainRemove n G)

theorem addNode_under {s : St} {G : BT} {P n : Nat} {cP cn : Cell} (c : AddCtx s G P n cP cn) :
    ∃ s', addNode s (some P) n = .ok (true, s') ∧ SameMeta s s' ∧ Forest s' (addShape s G P n) ∧
      ∃ c', s'.cellAt n = some c' ∧ c'.pay.isBranch = cn.pay.isBranch ∧ c'.pay.isText = cn.pay.isText := by
  obtain ⟨k1, k2, k3, k4, k5, k6, k7⟩ := c.kids_facts
  cases hf : cP.first with
  | none =>
    have hK : BT.kidsOf P G = .nil := BT.rid_none (by rw [← k1]; exact hf)
    obtain ⟨s', h1, h2, h3, h4, _, _⟩ := addNode_first c hf
    refine ⟨s', h1, h2, ?_, h4⟩
    simp only [addShape, hK, if_true]; exact h3
  | some fc =>
    have hKne : BT.kidsOf P G ≠ .nil := by
      intro h; rw [h] at k1; rw [hf] at k1; cases k1
    obtain ⟨l, hl⟩ := BT.lastId_some _ hKne
    have hlK : l ∈ (BT.kidsOf P G).ids := BT.tops_sub _ _ (BT.lastId_mem _ _ hl)
    obtain ⟨cl, hcl⟩ := Match.live _ _ _ k2 l hlK
    by_cases hm : (cn.pay.isText && cl.pay.isText) = true
    · obtain ⟨s', h1, h2, h3, h4, _⟩ := addNode_merge c hf (by
        intro l' cl' hl' hcl'
        rw [hl] at hl'; injection hl' with hl'; subst hl'
        rw [hcl] at hcl'; injection hcl' with hcl'; subst hcl'; exact hm)
      refine ⟨s', h1, h2, ?_, h4⟩
      simp only [addShape, hKne, if_false, hl, c.hcn, hcl, hm, if_true]; exact h3
    · have hm' : (cn.pay.isText && cl.pay.isText) = false := by
        cases h : (cn.pay.isText && cl.pay.isText) <;> simp_all
      obtain ⟨s', h1, h2, h3, h4, _, _⟩ := addNode_append c hf (by
        intro l' cl' hl' hcl'
        rw [hl] at hl'; injection hl' with hl'; subst hl'
        rw [hcl] at hcl'; injection hcl' with hcl'; subst hcl'; exact hm')
      refine ⟨s', h1, h2, ?_, h4⟩
      simp only [addShape, hKne, if_false, hl, c.hcn, hcl, hm', Bool.false_eq_true]; exact h3

end Wbxml.Model.TreeHeap
