/-
  Round trip (C03), typed and exact: `normNodeTyped c r` — the tree `wbxml_tree_from_wbxml` builds
  from what `wbxml_tree_to_wbxml` writes for the plain tree `r`, as a function of `r` alone
  (`xNode` of `Lemmas/EncWNode.lean` at the root position) — and the document-level consequence of
  the tree-level conjunct `TreeT` of `encNode_seg`: the tree read off the grammar value the encoder
  wrote IS `normNodeTyped` (`DocRes.exactRoot`), names with their representation (token row or
  literal), typed content included.
-/
import Wbxml.Lemmas.RtNorm
import Wbxml.Lemmas.EncWConcat
import Wbxml.Lemmas.Tables
namespace Wbxml.Lemmas.Rt
open Wbxml Wbxml.Model Wbxml.Spec Wbxml.Lemmas.EncW Wbxml.Lemmas.ParseSer

/-- **The typed, exact normalisation of C03**: the root position (no parent, no `current_tag`, tag
    code page 0) of `xNode`.

    * element name ↦ `exactName`: `.token d` with `d` the FIRST row of the tag table with the page
      and token of the row `wbxml_encode_tag` works with (a token name's own row; for a literal name
      the row `wbxml_tables_get_tag_from_xml` finds, current code page first), or `.literal` of the
      name read as a C string when there is no such row;
    * attribute ↦ `xAttr`: name `exactAName` of the start row `wbxml_tables_get_attr_from_xml` /
      `wbxml_encode_attr_start` choose (`startRow`), value `vAttrValue` (the C string; under an SI /
      EMN `%Datetime` start token the text `decode_datetime` makes of the BCD payload) with the
      handlers' trailing NUL; no attributes for a language without attribute table;
    * text ↦ `vText`: `normText`; the raw octets as first child of a binary-flagged element; under a
      DRMREL `ds:KeyValue` token element the base64 text of the decoded octets;
    * children folded with `addN` (empty text dropped, adjacent text merged). -/
def normNodeTyped (c : WCfg) (r : Node) : Node := xNode c none none 0 r

theorem evPis_nil_page (c : Ctx) (ap : Nat) : (evPis c ap []).2 = ap := rfl

/-- **The tree read off the document the encoder wrote is the typed exact normalisation of the
    source tree** — every language but Wireless Village and OTA settings, plain trees. -/
theorem _root_.Wbxml.Lemmas.EncW.DocRes.exactRoot {cfg lang r bs d st} (h : DocRes cfg lang r bs d st)
    (hl : langOk lang = true) (htl : typedLangOk lang = true) (helt : isElt r = true)
    (hpn : plainNode r = true) (hnw : isWv lang.id = false) (hno : (lang.id == 1901) = false)
    (hvs : valSemOk lang = true) (has : attrSemOk lang = true) (han : attrNameSemOk lang = true)
    (pcfg : PCfg) : rootOfDoc pcfg d lang = normNodeTyped (dcfgOf cfg lang) r := by
  have hf := docStartW_fields (dcfgOf cfg lang) r
  have hrd : RdT (dcfgOf cfg lang) st.strtbl (headerCtx pcfg d.hdr lang) :=
    ⟨by simp [headerCtx], h.resolves pcfg, by rw [dcfgOf_lang]; exact hl, by rw [dcfgOf_lang]; exact hvs,
      by rw [dcfgOf_lang]; exact has, by rw [dcfgOf_lang]; exact han, by rw [dcfgOf_lang]; exact htl⟩
  have hpos : Pos (dcfgOf cfg lang) (headerCtx pcfg d.hdr lang) none
      (docStartW (dcfgOf cfg lang) r).curTag false true none none := by
    rw [hf.2.2.2.1]; exact Pos.root _ _ true
  have hv := h.treeT hpn (by rw [dcfgOf_lang]; exact hnw) (by rw [dcfgOf_lang]; exact hno) hf.2.2.2.2.2
    (headerCtx pcfg d.hdr lang) hrd false true none none hpos []
  rw [hf.2.1, hf.2.2.1, hf.2.2.2.1, kidsOfItems_single, kidOfItem_elem] at hv
  unfold rootOfDoc normNodeTyped
  rw [h.pre, evPis_nil_page]
  cases r with
  | elt name attrs kids =>
    have e1 : addKid [] (nodeOfElem (headerCtx pcfg d.hdr lang) ⟨0, 0⟩ d.root) =
        [nodeOfElem (headerCtx pcfg d.hdr lang) ⟨0, 0⟩ d.root] := by
      rw [addKid_not_text _ _ (by cases hd : d.root; rw [nodeOfElem_mk]; rfl)]; rfl
    rw [e1] at hv
    have e2 : addN [] (xNode (dcfgOf cfg lang) none none 0 (.elt name attrs kids)) =
        [xNode (dcfgOf cfg lang) none none 0 (.elt name attrs kids)] := by
      simp only [xNode, addN]
      rfl
    rw [e2] at hv
    exact List.head_eq_of_cons_eq hv
  | text s => cases helt
  | cdata k => cases helt
  | tree l cs r => cases helt

/-! ### Table facts behind "the same row comes back" -/

/-- Within one code page no two rows of a tag table share a name: every row is the first row of the
    table with its (page, name). -/
def namesUniqPerPage (tags : List TagRow) : Bool :=
  tags.all (fun r => tags.find? (fun q => q.page == r.page && q.name == r.name) == some r)

/-- No two rows share a (page, token): every row is the first row with its page and token (C08's
    `decTag`). -/
def tokensUniq (tags : List TagRow) : Bool :=
  tags.all (fun r => decTag tags r.page r.token == some r)

/-- The converse of the encoder's name resolution: looking a row's name up from the row's own code
    page (`wbxml_tables_get_tag_from_xml`) finds that very row. -/
def selfFind (tags : List TagRow) : Bool :=
  tags.all (fun r => encTag tags (some r.page) r.name == some r)

def tagNamesUniqPerPage (l : Lang) : Bool :=
  match l.tags with
  | some tags => namesUniqPerPage tags
  | none => true

theorem namesUniqPerPage_spec (tags : List TagRow) (h : namesUniqPerPage tags = true) (r q : TagRow)
    (hr : r ∈ tags) (hq : q ∈ tags) (hp : q.page = r.page) (hn : q.name = r.name) : q = r := by
  simp only [namesUniqPerPage, List.all_eq_true, beq_iff_eq] at h
  have h1 := h r hr
  have h2 := h q hq
  rw [hp, hn] at h2
  rw [h1] at h2
  injection h2 with h2
  exact h2.symm

theorem tokensUniq_spec (tags : List TagRow) (h : tokensUniq tags = true) (r : TagRow) (hr : r ∈ tags) :
    decTag tags r.page r.token = some r := by
  simp only [tokensUniq, List.all_eq_true, beq_iff_eq] at h
  exact h r hr

/-- The first row with a row's (page, token) is a fixed point of "first row with its (page, token)". -/
theorem decTag_idem (tags : List TagRow) (p t : Nat) (d : TagRow) (h : decTag tags p t = some d) :
    decTag tags d.page d.token = some d := by
  have hd := List.find?_some h
  simp only [Bool.and_eq_true, beq_iff_eq] at hd
  rw [hd.1, hd.2]; exact h

/-- A token name whose row is the first with its (page, token) — every row of every table but the
    second of ActiveSync's two names for token 0x10 of page 14 — comes back as the SAME row. -/
theorem exactName_token (l : Lang) (tags : List TagRow) (ht : l.tags = some tags) (r : TagRow)
    (h : decTag tags r.page r.token = some r) (nm : Bytes) : exactName l (some r) nm = .token r := by
  simp only [exactName, ht, h]

/-- In general a token name comes back as the first row with its page and token. -/
theorem exactName_token_first (l : Lang) (tags : List TagRow) (ht : l.tags = some tags) (r : TagRow)
    (hr : r ∈ tags) (nm : Bytes) : ∃ d, decTag tags r.page r.token = some d ∧ exactName l (some r) nm = .token d := by
  cases hd : decTag tags r.page r.token with
  | none =>
    have := List.find?_eq_none.mp hd r hr
    simp at this
  | some d => exact ⟨d, rfl, by simp only [exactName, ht, hd]⟩

/-! ### The same facts, page bucket by page bucket (what the kernel evaluates) -/

/-- No two rows of the list share a name. -/
def noDupNames : List TagRow → Bool
  | [] => true
  | r :: rs => rs.all (fun q => !(q.name == r.name)) && noDupNames rs

theorem noDupNames_find : ∀ (b : List TagRow), noDupNames b = true → ∀ r ∈ b, b.find? (fun x => x.name == r.name) = some r
  | [], _, r, hr => by cases hr
  | a :: rs, h, r, hr => by
    rw [noDupNames, Bool.and_eq_true, List.all_eq_true] at h
    rw [List.find?_cons]
    rcases List.mem_cons.mp hr with rfl | hm
    · simp
    · have : (a.name == r.name) = false := by
        have := h.1 r hm
        simp only [Bool.not_eq_true', beq_eq_false_iff_ne, ne_eq] at this
        simp only [beq_eq_false_iff_ne, ne_eq]
        exact fun e => this e.symm
      rw [this]
      exact noDupNames_find rs h.2 r hm

/-- What the kernel evaluates for a tag table: per code page, names without repetition. -/
def namesUniqFast (t : List TagRow) : Bool := (pagesOf t).all (fun p => noDupNames (bucket t p))

/-- … and every row but the listed exceptions is the first of its bucket with its token. -/
def tokensUniqFast (exc : TagRow → Bool) (t : List TagRow) : Bool :=
  (pagesOf t).all (fun p => (bucket t p).all (fun r => (bucket t p).find? (fun x => x.token == r.token) == some r || exc r))

theorem mem_bucket_self {t : List TagRow} {r : TagRow} (h : r ∈ t) : r ∈ bucket t r.page := by
  simp [bucket, h]

theorem find_page_name (t : List TagRow) (r : TagRow) :
    t.find? (fun q => q.page == r.page && q.name == r.name) = (bucket t r.page).find? (fun x => x.name == r.name) := by
  unfold bucket
  rw [List.find?_filter]
  congr 1
  funext a
  cases h1 : a.page == r.page <;> cases h2 : a.name == r.name <;> simp

theorem namesUniqPerPage_of_fast (t : List TagRow) (h : namesUniqFast t = true) : namesUniqPerPage t = true := by
  simp only [namesUniqFast, List.all_eq_true] at h
  simp only [namesUniqPerPage, List.all_eq_true, beq_iff_eq]
  intro r hr
  rw [find_page_name]
  exact noDupNames_find _ (h r.page (mem_pagesOf hr)) r (mem_bucket_self hr)

/-- Names unique per page + contiguous pages ⇒ every row is found by its own name from its own page. -/
theorem selfFind_of_fast (t : List TagRow) (h : namesUniqFast t = true)
    (hc : ∀ r ∈ t, contigFrom r.page t = true) : selfFind t = true := by
  simp only [namesUniqFast, List.all_eq_true] at h
  simp only [selfFind, List.all_eq_true, beq_iff_eq]
  intro r hr
  unfold encTag
  simp only
  rw [loop1_from _ _ _ (hc r hr), noDupNames_find _ (h r.page (mem_pagesOf hr)) r (mem_bucket_self hr)]

theorem tokens_of_fast (exc : TagRow → Bool) (t : List TagRow) (h : tokensUniqFast exc t = true) :
    t.all (fun r => decTag t r.page r.token == some r || exc r) = true := by
  simp only [tokensUniqFast, List.all_eq_true] at h
  rw [List.all_eq_true]
  intro r hr
  rw [decTag_bucket]
  exact h r.page (mem_pagesOf hr) r (mem_bucket_self hr)

/-! ### Idempotence of the typed exact normalisation -/

/-- The element name is already in round-trip form at this tag page: a token row that is the first
    with its page and token, or a NUL-free literal that no row of the table resolves. -/
def nameFixed (l : Lang) (tp : Nat) (name : Name) : Bool := decide (exactName l (foundAt l tp name) name.cName = name)

/-- The attribute's round-trip form is a fixed point. -/
def attrFixed (c : WCfg) (a : Attr) : Bool := decide (xAttr c (xAttr c a) = xAttr c a)

/-- The text's typed normal form at this position is a fixed point of the typed normal form. -/
def textFixed (c : WCfg) (parent : Option Name) (cur : Option TagRow) (s : Bytes) : Bool :=
  vText c parent cur (vText c parent cur s) == vText c parent cur s

mutual
def fixedNode (c : WCfg) (parent : Option Name) (cur : Option TagRow) (tp : Nat) : Node → Bool
  | .elt name attrs kids =>
    nameFixed c.lang tp name && (c.lang.attrs.isNone || attrs.all (attrFixed c)) && noAdj kids &&
      fixedKids c (some name) (foundAt c.lang tp name) (pageAfter (foundAt c.lang tp name) tp) kids
  | .text s => textFixed c parent cur s
  | .cdata _ => true
  | .tree _ _ _ => true
def fixedKids (c : WCfg) (parent : Option Name) (cur : Option TagRow) (tp : Nat) : List Node → Bool
  | [] => true
  | n :: r => fixedNode c parent cur tp n && fixedKids c parent none (vNode c parent cur tp n).2 r
end

theorem xNode_elt (c parent cur tp name attrs kids) : xNode c parent cur tp (.elt name attrs kids) =
    .elt (exactName c.lang (foundAt c.lang tp name) name.cName) (xAttrs c attrs)
      (xKids c (some name) (foundAt c.lang tp name) (pageAfter (foundAt c.lang tp name) tp) kids []) := by
  rw [xNode]
theorem xNode_text (c parent cur tp s) : xNode c parent cur tp (.text s) = .text (vText c parent cur s) := by rw [xNode]
theorem xKids_nil (c parent cur tp acc) : xKids c parent cur tp [] acc = acc := by rw [xKids]
theorem xKids_cons (c parent cur tp n r acc) : xKids c parent cur tp (n :: r) acc =
    xKids c parent none (vNode c parent cur tp n).2 r (addN acc (xNode c parent cur tp n)) := by rw [xKids]

theorem vNode_elt_2 (c parent cur tp name attrs kids) : (vNode c parent cur tp (.elt name attrs kids)).2 =
    (vNodes c (some name) (foundAt c.lang tp name) (pageAfter (foundAt c.lang tp name) tp) kids).2 := by
  rw [vNode]
theorem vNode_text_2 (c parent cur tp s) : (vNode c parent cur tp (.text s)).2 = tp := by rw [vNode]
theorem vNodes_nil_2 (c parent cur tp) : (vNodes c parent cur tp []).2 = tp := by rw [vNodes]
theorem vNodes_cons_2 (c parent cur tp n r) : (vNodes c parent cur tp (n :: r)).2 =
    (vNodes c parent none (vNode c parent cur tp n).2 r).2 := by rw [vNodes]

/-- Only a text node looks at `current_tag`. -/
theorem xNode_cur (c : WCfg) (parent : Option Name) (cur cur' : Option TagRow) (tp : Nat) (n : Node)
    (h : isText n = false) : xNode c parent cur tp n = xNode c parent cur' tp n ∧
      (vNode c parent cur tp n).2 = (vNode c parent cur' tp n).2 := by
  cases n with
  | text s => cases h
  | elt nm a k => exact ⟨by rw [xNode_elt, xNode_elt], by rw [vNode_elt_2, vNode_elt_2]⟩
  | cdata k => exact ⟨by rw [xNode, xNode], by rw [vNode, vNode]⟩
  | tree l cs r => exact ⟨by rw [xNode, xNode], by rw [vNode, vNode]⟩

def nonEmptyText : Node → Bool
  | .text s => !s.isEmpty
  | _ => true

/-- A child list that the exact normalisation reproduces when it starts at `(cur, tp)`. -/
def StX (c : WCfg) (parent : Option Name) : Option TagRow → Nat → List Node → Prop
  | _, _, [] => True
  | cur, tp, k :: rest => xNode c parent cur tp k = k ∧ nonEmptyText k = true ∧
      StX c parent none (vNode c parent cur tp k).2 rest

/-- `current_tag` for the node behind the list `acc` that started with `cur0`. -/
def curAfter (cur0 : Option TagRow) (acc : List Node) : Option TagRow := if acc.isEmpty then cur0 else none

theorem vNodes_append_2 (c : WCfg) (parent : Option Name) : ∀ (a b : List Node) (cur : Option TagRow) (tp : Nat),
    (vNodes c parent cur tp (a ++ b)).2 = (vNodes c parent (curAfter cur a) (vNodes c parent cur tp a).2 b).2
  | [], b, cur, tp => by rw [List.nil_append, vNodes_nil_2]; rfl
  | x :: a, b, cur, tp => by
    rw [List.cons_append, vNodes_cons_2, vNodes_cons_2, vNodes_append_2 c parent a b]
    cases a <;> rfl

theorem StX_snoc (c : WCfg) (parent : Option Name) : ∀ (acc : List Node) (cur0 : Option TagRow) (tp0 : Nat) (x : Node),
    StX c parent cur0 tp0 acc →
    xNode c parent (curAfter cur0 acc) (vNodes c parent cur0 tp0 acc).2 x = x → nonEmptyText x = true →
    StX c parent cur0 tp0 (acc ++ [x])
  | [], cur0, tp0, x, _, hx, hne => by
    rw [vNodes_nil_2] at hx
    exact ⟨hx, hne, trivial⟩
  | k :: rest, cur0, tp0, x, h, hx, hne => by
    obtain ⟨h1, h2, h3⟩ := h
    rw [vNodes_cons_2] at hx
    refine ⟨h1, h2, StX_snoc c parent rest none _ x h3 ?_ hne⟩
    cases rest with
    | nil => exact hx
    | cons _ _ => exact hx

theorem addN_snoc (acc : List Node) (k : Node) (hne : nonEmptyText k = true)
    (h : (lastText acc && isText k) = false) : addN acc k = acc ++ [k] := by
  cases k with
  | text s =>
    have hs : s.isEmpty = false := by simpa [nonEmptyText] using hne
    have hl : lastText acc = false := by simpa [isText] using h
    rw [addN_text]
    unfold addChars
    rw [hs]
    exact addKid_text_after _ _ hl
  | elt n a ks => exact addKid_not_text acc (.elt n a ks) rfl
  | cdata ks => exact addKid_not_text acc (.cdata ks) rfl
  | tree l cs r => exact addKid_not_text acc (.tree l cs r) rfl

/-- A stable child list is reproduced. -/
theorem xKids_of_StX (c : WCfg) (parent : Option Name) : ∀ (K acc : List Node) (cur : Option TagRow) (tp : Nat),
    StX c parent cur tp K → noAdj K = true → (lastText acc && headText K) = false →
    xKids c parent cur tp K acc = acc ++ K
  | [], acc, cur, tp, _, _, _ => by rw [xKids_nil, List.append_nil]
  | k :: K, acc, cur, tp, h, hadj, ha => by
    obtain ⟨h1, h2, h3⟩ := h
    rw [noAdj] at hadj
    simp only [Bool.and_eq_true, Bool.not_eq_true'] at hadj
    rw [xKids_cons, h1, addN_snoc acc k h2 (by simpa [headText] using ha),
      xKids_of_StX c parent K (acc ++ [k]) none _ h3 hadj.2 (by rw [lastText_snoc]; exact hadj.1), List.append_assoc]
    rfl

theorem xAttrs_fixed (c : WCfg) (attrs : List Attr) (h : (c.lang.attrs.isNone || attrs.all (attrFixed c)) = true) :
    xAttrs c (xAttrs c attrs) = xAttrs c attrs := by
  unfold xAttrs
  cases ha : c.lang.attrs with
  | none => rfl
  | some t =>
    simp only [ha, Option.isNone_some, Bool.false_or, List.all_eq_true] at h
    simp only [Option.isSome_some, if_true, List.map_map]
    apply List.map_congr_left
    intro a hm
    exact of_decide_eq_true (h a hm)

theorem isText_xNode (c parent cur tp) (n : Node) : isText (xNode c parent cur tp n) = isText n := by
  cases n with
  | elt nm a k => rw [xNode_elt]; rfl
  | text s => rw [xNode_text]; rfl
  | cdata k => rw [xNode]
  | tree l cs r => rw [xNode]

theorem lastText_addN_nontext' (acc : List Node) (n : Node) (h : isText n = false) : lastText (addN acc n) = false :=
  lastText_addN_nontext acc n h

mutual
/-- **Structure theorem.** At a position where names, attributes and texts are fixed points of their
    own normal forms and no two text nodes are adjacent, the exact normalisation is idempotent. -/
theorem xNode_fixed (c : WCfg) : ∀ (n : Node) (parent : Option Name) (cur : Option TagRow) (tp : Nat),
    fixedNode c parent cur tp n = true →
    xNode c parent cur tp (xNode c parent cur tp n) = xNode c parent cur tp n ∧
      (vNode c parent cur tp (xNode c parent cur tp n)).2 = (vNode c parent cur tp n).2
  | .elt name attrs kids, parent, cur, tp, h => by
    rw [fixedNode] at h
    simp only [Bool.and_eq_true] at h
    obtain ⟨⟨⟨hn, ha⟩, hadj⟩, hk⟩ := h
    have hname : exactName c.lang (foundAt c.lang tp name) name.cName = name := of_decide_eq_true hn
    obtain ⟨hst, hadjK, htp⟩ := xKids_out c kids (some name) [] (foundAt c.lang tp name)
      (pageAfter (foundAt c.lang tp name) tp) (foundAt c.lang tp name) (pageAfter (foundAt c.lang tp name) tp)
      hk hadj trivial rfl (fun h => by cases h) (by rw [vNodes_nil_2]) (fun _ => Or.inl rfl) (fun h => absurd rfl h)
    rw [xNode_elt, hname]
    constructor
    · rw [xNode_elt, hname, xAttrs_fixed c attrs ha,
        xKids_of_StX c (some name) _ [] _ _ hst hadjK rfl, List.nil_append]
    · rw [vNode_elt_2, vNode_elt_2, htp]
  | .text s, parent, cur, tp, h => by
    rw [fixedNode] at h
    rw [xNode_text, xNode_text, vNode_text_2, vNode_text_2]
    exact ⟨by rw [beq_iff_eq.mp h], rfl⟩
  | .cdata k, parent, cur, tp, _ => by
    have e : xNode c parent cur tp (.cdata k) = .cdata k := by rw [xNode]
    rw [e, e]; exact ⟨rfl, rfl⟩
  | .tree l cs r, parent, cur, tp, _ => by
    have e : xNode c parent cur tp (.tree l cs r) = .tree l cs r := by rw [xNode]
    rw [e, e]; exact ⟨rfl, rfl⟩
/-- The children: what `xKids` delivers is stable, has no adjacent text nodes, and leaves the tag
    page where the source children leave it. -/
theorem xKids_out (c : WCfg) : ∀ (kids : List Node) (parent : Option Name) (acc : List Node) (cur : Option TagRow) (tp : Nat)
    (cur0 : Option TagRow) (tp0 : Nat),
    fixedKids c parent cur tp kids = true → noAdj kids = true →
    StX c parent cur0 tp0 acc → noAdj acc = true → (lastText acc = true → headText kids = false) →
    (vNodes c parent cur0 tp0 acc).2 = tp →
    (acc = [] → cur = cur0 ∨ headText kids = false) → (acc ≠ [] → cur = none) →
    StX c parent cur0 tp0 (xKids c parent cur tp kids acc) ∧ noAdj (xKids c parent cur tp kids acc) = true ∧
      (vNodes c parent cur0 tp0 (xKids c parent cur tp kids acc)).2 = (vNodes c parent cur tp kids).2
  | [], parent, acc, cur, tp, cur0, tp0, _, _, hst, hadjA, _, htp, _, _ => by
    rw [xKids_nil, vNodes_nil_2]; exact ⟨hst, hadjA, htp⟩
  | k :: rest, parent, acc, cur, tp, cur0, tp0, hf, hadj, hst, hadjA, hla, htp, hc1, hc2 => by
    rw [fixedKids, Bool.and_eq_true] at hf
    rw [noAdj] at hadj
    simp only [Bool.and_eq_true, Bool.not_eq_true'] at hadj
    obtain ⟨hfix, htpk⟩ := xNode_fixed c k parent cur tp hf.1
    rw [xKids_cons, vNodes_cons_2]
    -- the position a second pass has behind `acc` is the position of `k` in the first pass
    have hpos : isText k = true → curAfter cur0 acc = cur := by
      intro ht
      unfold curAfter
      cases acc with
      | nil =>
        rcases hc1 rfl with h | h
        · exact h.symm
        · simp [headText, ht] at h
      | cons a as => exact (hc2 (by intro h; cases h)).symm
    cases hk : isText k with
    | true =>
      cases k with
      | text s =>
        have hrest : headText rest = false := by simpa [isText] using hadj.1
        rw [xNode_text, addN_text]
        rw [xNode_text, xNode_text] at hfix
        rw [vNode_text_2]
        cases hv : vText c parent cur s with
        | nil =>
          rw [addChars_nil]
          exact xKids_out c rest parent acc none tp cur0 tp0 (by rw [vNode_text_2] at hf; exact hf.2) hadj.2 hst hadjA
            (fun _ => hrest) htp (fun _ => Or.inr hrest) (fun _ => rfl)
        | cons b v =>
          have hl : lastText acc = false := by
            cases hA : lastText acc with
            | false => rfl
            | true => have := hla hA; simp [headText, isText] at this
          rw [addChars_cons, addKid_text_after _ _ hl]
          have hx : xNode c parent (curAfter cur0 acc) (vNodes c parent cur0 tp0 acc).2 (.text (b :: v)) = .text (b :: v) := by
            rw [hpos rfl, htp, ← hv]; exact hfix
          refine xKids_out c rest parent (acc ++ [.text (b :: v)]) none tp cur0 tp0
            (by rw [vNode_text_2] at hf; exact hf.2) hadj.2 (StX_snoc c parent acc cur0 tp0 _ hst hx rfl)
            (by rw [noAdj_snoc, hadjA, hl]; rfl) (fun _ => hrest) ?_ (fun h => by simp at h) (fun _ => rfl)
          rw [vNodes_append_2, vNodes_cons_2, vNodes_nil_2, vNode_text_2, htp]
      | elt _ _ _ => cases hk
      | cdata _ => cases hk
      | tree _ _ _ => cases hk
    | false =>
      have hk' : isText (xNode c parent cur tp k) = false := by rw [isText_xNode]; exact hk
      have hne : nonEmptyText (xNode c parent cur tp k) = true := by
        generalize xNode c parent cur tp k = y at hk'
        cases y <;> first | rfl | cases hk'
      rw [addN_snoc acc _ hne (by rw [hk', Bool.and_false])]
      have hx : xNode c parent (curAfter cur0 acc) (vNodes c parent cur0 tp0 acc).2 (xNode c parent cur tp k) =
          xNode c parent cur tp k := by
        rw [htp, (xNode_cur c parent (curAfter cur0 acc) cur tp _ hk').1]; exact hfix
      refine xKids_out c rest parent (acc ++ [xNode c parent cur tp k]) none _ cur0 tp0 hf.2 hadj.2
        (StX_snoc c parent acc cur0 tp0 _ hst hx hne) (by rw [noAdj_snoc, hadjA, hk', Bool.and_false]; rfl)
        (fun h => by rw [lastText_snoc, hk'] at h; cases h) ?_ (fun h => by simp at h) (fun _ => rfl)
      rw [vNodes_append_2, vNodes_cons_2, vNodes_nil_2, htp,
        (xNode_cur c parent (curAfter cur0 acc) cur tp _ hk').2, htpk]
end


/-- **`normNodeTyped` is idempotent** on trees whose names are in round-trip form (`nameFixed`),
    whose attributes and texts are fixed points of their own per-form normal forms (`attrFixed`,
    `textFixed`: decidable, evaluated with the model's own functions) and that have no two adjacent
    text nodes — in every language, typed content included. The per-form facts: `textFixed_normal`
    (`normText` on NUL-free text), `textFixed_binary` (raw octets), C06 `b64Norm_idem`,
    `datetimeNorm_canon` (canonical texts of valid date-times). -/
theorem normNodeTyped_idem (c : WCfg) (r : Node) (h : fixedNode c none none 0 r = true) :
    normNodeTyped c (normNodeTyped c r) = normNodeTyped c r := (xNode_fixed c r none none 0 h).1

/-- Ordinary character data (not under a binary-flagged `current_tag`, not under a DRMREL
    `ds:KeyValue` token element), NUL-free: `normText` of it is a fixed point — in every language,
    SyncML included (one text node: nothing is merged). -/
theorem textFixed_normal (c : WCfg) (parent : Option Name) (cur : Option TagRow) (s : Bytes)
    (hb : isBinaryTag cur = false) (hk : kvPar c.lang parent = false) (hn : nulFree s = true) :
    textFixed c parent cur s = true := by
  have hv : ∀ t, vText c parent cur t = normText c t := by
    intro t; simp only [vText, hb, hk, Bool.false_and, Bool.false_eq_true, if_false]
  unfold textFixed
  rw [hv, hv, beq_iff_eq]
  rcases normText_solidS c s hn with h0 | hs
  · rw [h0, normText_nil']
  · exact normText_of_solidS c _ hs

/-- Under a binary-flagged `current_tag` (ActiveSync) the octets are carried as they are. -/
theorem textFixed_binary (c : WCfg) (parent : Option Name) (cur : Option TagRow) (s : Bytes)
    (hb : isBinaryTag cur = true) : textFixed c parent cur s = true := by
  unfold textFixed
  simp only [vText, hb, if_true, beq_self_eq_true]

/-- A token name whose row is the first with its page and token is in round-trip form. -/
theorem nameFixed_token (l : Lang) (tags : List TagRow) (ht : l.tags = some tags) (tp : Nat) (r : TagRow)
    (h : decTag tags r.page r.token = some r) : nameFixed l tp (.token r) = true := by
  unfold nameFixed
  exact decide_eq_true (exactName_token l tags ht r h r.name)

/-- What the first trip delivers for a token name is in round-trip form. -/
theorem nameFixed_exact (l : Lang) (tags : List TagRow) (ht : l.tags = some tags) (tp' : Nat) (r : TagRow)
    (hr : r ∈ tags) (nm : Bytes) : nameFixed l tp' (exactName l (some r) nm) = true := by
  obtain ⟨d, hd, he⟩ := exactName_token_first l tags ht r hr nm
  rw [he]
  exact nameFixed_token l tags ht tp' d (decTag_idem tags _ _ d hd)

/-! ### Which attribute start row `wbxml_tables_get_attr_from_xml` picks -/

/-- A row with that name whose value is exactly the attribute's value. -/
def isExactRow (name value : Bytes) (r : AttrRow) : Bool := r.name == name && r.value == some value

/-- Length of the row's value prefix if the row has that name and its value is a proper prefix of
    the attribute's value; `0` otherwise (an empty prefix is never chosen for its length). -/
def preLenOf (name value : Bytes) (r : AttrRow) : Nat :=
  if r.name == name then
    match r.value with
    | some v => if v.length < value.length && isPrefixOf v value then v.length else 0
    | none => 0
  else 0

/-- A row with that name and no value (NULL). -/
def isNullRow (name : Bytes) (r : AttrRow) : Bool := r.name == name && r.value.isNone

def maxFrom (name value : Bytes) (m : Nat) (rows : List AttrRow) : Nat :=
  rows.foldl (fun m r => max m (preLenOf name value r)) m

/-- The scan of `wbxml_tables_get_attr_from_xml` in closed form, from a scan state. -/
def attrChoice (name value : Bytes) (rows : List AttrRow) (st : AttrScan) : Option (AttrRow × Nat) :=
  match rows.find? (isExactRow name value) with
  | some e => some (e, value.length)
  | none =>
    if st.comp < maxFrom name value st.comp rows then
      (rows.find? (fun r => preLenOf name value r == maxFrom name value st.comp rows)).map
        (fun r => (r, maxFrom name value st.comp rows))
    else
      match st.found with
      | some f => some (f, st.comp)
      | none => (rows.find? (isNullRow name)).map (fun r => (r, st.comp))

theorem maxFrom_ge (name value : Bytes) : ∀ (rows : List AttrRow) (m : Nat), m ≤ maxFrom name value m rows
  | [], m => Nat.le_refl m
  | r :: rs, m => by
    unfold maxFrom
    rw [List.foldl_cons]
    exact Nat.le_trans (Nat.le_max_left _ _) (maxFrom_ge name value rs _)

theorem maxFrom_cons (name value : Bytes) (r : AttrRow) (rs : List AttrRow) (m : Nat) :
    maxFrom name value m (r :: rs) = maxFrom name value (max m (preLenOf name value r)) rs := rfl

theorem encAttrGo_eq_choice (name value : Bytes) : ∀ (rows : List AttrRow) (st : AttrScan),
    encAttrGo name value rows st = attrChoice name value rows st
  | [], st => by
    unfold encAttrGo attrChoice maxFrom
    simp only [List.find?_nil, List.foldl_nil, Nat.lt_irrefl, if_false, Option.map_none]
    cases st.found <;> rfl
  | r :: rs, st => by
    have ih := encAttrGo_eq_choice name value rs
    unfold encAttrGo
    by_cases hn : (r.name == name) = true
    · rw [if_pos hn]
      cases hv : r.value with
      | none =>
        simp only
        rw [ih]
        have hex : isExactRow name value r = false := by simp [isExactRow, hv]
        have hpl : preLenOf name value r = 0 := by simp [preLenOf, hn, hv]
        have hnull : isNullRow name r = true := by simp [isNullRow, hn, hv]
        unfold attrChoice
        rw [List.find?_cons, hex, maxFrom_cons, hpl, Nat.max_zero]
        cases hf : st.found with
        | none =>
          simp only [Option.isNone_none, if_true]
          cases hx : rs.find? (isExactRow name value) with
          | some e => rfl
          | none =>
            simp only
            by_cases hm : st.comp < maxFrom name value st.comp rs
            · rw [if_pos hm, if_pos hm, List.find?_cons]
              have : (preLenOf name value r == maxFrom name value st.comp rs) = false := by
                rw [hpl]; simp only [beq_eq_false_iff_ne, ne_eq]; omega
              rw [this]
            · rw [if_neg hm, if_neg hm, List.find?_cons, hnull]
              rfl
        | some f =>
          simp only [Option.isNone_some, Bool.false_eq_true, if_false]
          cases hx : rs.find? (isExactRow name value) with
          | some e => rfl
          | none =>
            simp only
            by_cases hm : st.comp < maxFrom name value st.comp rs
            · rw [if_pos hm, if_pos hm, List.find?_cons]
              have : (preLenOf name value r == maxFrom name value st.comp rs) = false := by
                rw [hpl]; simp only [beq_eq_false_iff_ne, ne_eq]; omega
              rw [this]
            · rw [if_neg hm, if_neg hm, hf]
      | some v =>
        simp only
        by_cases he : (v == value) = true
        · rw [if_pos he]
          have hex : isExactRow name value r = true := by
            simp only [isExactRow, hn, hv, Bool.true_and, beq_iff_eq, Option.some.injEq]
            exact beq_iff_eq.mp he
          unfold attrChoice
          rw [List.find?_cons, hex]
        · rw [if_neg he]
          have hex : isExactRow name value r = false := by
            simp only [isExactRow, hn, hv, Bool.true_and]
            simp only [beq_eq_false_iff_ne, ne_eq, Option.some.injEq]
            exact fun e => he (beq_iff_eq.mpr e)
          by_cases hc : (v.length < value.length && st.comp < v.length && isPrefixOf v value) = true
          · rw [if_pos hc, ih]
            simp only [Bool.and_eq_true, decide_eq_true_eq] at hc
            have hpl : preLenOf name value r = v.length := by
              simp only [preLenOf, hn, hv, if_true, hc.1.1, hc.2, decide_true, Bool.and_self]
            unfold attrChoice
            rw [List.find?_cons, hex, maxFrom_cons, hpl, Nat.max_eq_right (Nat.le_of_lt hc.1.2)]
            cases hx : rs.find? (isExactRow name value) with
            | some e => rfl
            | none =>
              simp only
              have hge := maxFrom_ge name value rs v.length
              rw [if_pos (Nat.lt_of_lt_of_le hc.1.2 hge), List.find?_cons, hpl]
              by_cases hm : v.length < maxFrom name value v.length rs
              · rw [if_pos hm]
                have : (v.length == maxFrom name value v.length rs) = false := by
                  simp only [beq_eq_false_iff_ne, ne_eq]; omega
                rw [this]
              · rw [if_neg hm]
                have hq : maxFrom name value v.length rs = v.length := by omega
                rw [hq]
                simp only [beq_self_eq_true, Option.map_some]
          · rw [if_neg hc, ih]
            have hpl : max st.comp (preLenOf name value r) = st.comp := by
              apply Nat.max_eq_left
              simp only [preLenOf, hn, hv, if_true]
              split
              · rename_i h2
                simp only [Bool.and_eq_true, decide_eq_true_eq] at h2
                simp only [Bool.and_eq_true, decide_eq_true_eq, not_and] at hc
                by_cases h3 : st.comp < v.length
                · exact absurd h2.2 (hc ⟨h2.1, h3⟩)
                · omega
              · exact Nat.zero_le _
            have hle : preLenOf name value r ≤ st.comp := by
              have := Nat.le_max_right st.comp (preLenOf name value r)
              rw [hpl] at this; exact this
            have hnull : isNullRow name r = false := by simp [isNullRow, hv]
            unfold attrChoice
            rw [List.find?_cons, hex, maxFrom_cons, hpl]
            cases hx : rs.find? (isExactRow name value) with
            | some e => rfl
            | none =>
              simp only
              by_cases hm : st.comp < maxFrom name value st.comp rs
              · rw [if_pos hm, if_pos hm, List.find?_cons]
                have : (preLenOf name value r == maxFrom name value st.comp rs) = false := by
                  simp only [beq_eq_false_iff_ne, ne_eq]; omega
                rw [this]
              · rw [if_neg hm, if_neg hm]
                cases st.found with
                | some f => rfl
                | none => simp only; rw [List.find?_cons, hnull]
    · rw [if_neg hn]
      have hn' : (r.name == name) = false := by simpa using hn
      have hex : isExactRow name value r = false := by simp [isExactRow, hn']
      have hpl : preLenOf name value r = 0 := by simp [preLenOf, hn']
      have hnull : isNullRow name r = false := by simp [isNullRow, hn']
      rw [ih]
      unfold attrChoice
      rw [List.find?_cons, hex, maxFrom_cons, hpl, Nat.max_zero]
      cases hx : rs.find? (isExactRow name value) with
      | some e => rfl
      | none =>
        simp only
        by_cases hm : st.comp < maxFrom name value st.comp rs
        · rw [if_pos hm, if_pos hm, List.find?_cons]
          have : (preLenOf name value r == maxFrom name value st.comp rs) = false := by
            rw [hpl]; simp only [beq_eq_false_iff_ne, ne_eq]; omega
          rw [this]
        · rw [if_neg hm, if_neg hm]
          cases st.found with
          | some f => rfl
          | none => simp only; rw [List.find?_cons, hnull]


/-- **Which start row `wbxml_tables_get_attr_from_xml(name, value)` picks**, in closed form: the FIRST
    row (table order) with that name whose value is exactly `value`, wherever it stands; otherwise,
    if some row with that name has a non-empty proper prefix of `value` as its value, the FIRST row
    with the LONGEST such prefix (covering that many octets); otherwise the first row with that name
    and no value (covering nothing); otherwise none. -/
theorem encAttr_choice (attrs : List AttrRow) (name value : Bytes) :
    encAttr attrs name value =
      match attrs.find? (isExactRow name value) with
      | some e => some (e, value.length)
      | none =>
        if 0 < maxFrom name value 0 attrs then
          (attrs.find? (fun r => preLenOf name value r == maxFrom name value 0 attrs)).map
            (fun r => (r, maxFrom name value 0 attrs))
        else (attrs.find? (isNullRow name)).map (fun r => (r, 0)) := by
  unfold encAttr
  rw [encAttrGo_eq_choice]
  rfl

/-- `startRow` (the row behind `exactAName` / `xAttr`) for a literal attribute name is the row
    `encAttr` picks for the name and value read as C strings. -/
theorem startRow_literal (c : WCfg) (a : Attr) (s : Bytes) (ha : a.name = .literal s) (hs : s.isEmpty = false)
    (attrs : List AttrRow) (hattrs : c.lang.attrs = some attrs) :
    startRow c a = (encAttr attrs (cstrOf s) (cstrOf a.value)).map (·.1) := by
  unfold startRow
  rw [ha]
  simp only [hs, Bool.false_eq_true, if_false, attrLookup, hattrs]
  cases encAttr attrs (cstrOf s) (cstrOf a.value) with
  | none => rfl
  | some p =>
    obtain ⟨r, n⟩ := p
    simp only [Option.map_some]
    by_cases hx : (r.value == some (cstrOf a.value)) = true
    · simp only [hx, if_true]
    · simp only [hx, Bool.false_eq_true, if_false]

/-- … and for a token name it is the name's own row when its value prefix matches, none (the name
    is then written as a literal) when it does not. -/
theorem startRow_token (c : WCfg) (a : Attr) (r : AttrRow) (ha : a.name = .token r) :
    startRow c a = match r.value with
      | none => some r
      | some p => if p.isPrefixOf (cstrOf a.value) then some r else none := by
  unfold startRow
  rw [ha]
  rfl

/-! ### The typed exact normalisation refines `normNode` (plain languages) -/

theorem canonL_append : ∀ (a b : List Node), canonL (a ++ b) = canonL a ++ canonL b
  | [], b => by rw [List.nil_append, canonL_nil, List.nil_append]
  | x :: a, b => by rw [List.cons_append, canonL_cons, canonL_cons, canonL_append a b, List.cons_append]

theorem isText_canon (n : Node) : isText (canon n) = isText n := by
  cases n with
  | elt nm a k => rw [canon_elt]; rfl
  | text s => rw [canon_text]
  | cdata k => rw [canon]
  | tree l cs r => rw [canon]

theorem lastText_canonL (l : List Node) : lastText (canonL l) = lastText l := by
  cases hl : lastText l with
  | true =>
    obtain ⟨pre, t, rfl⟩ := lastText_split l hl
    rw [canonL_append, canonL_cons, canonL_nil, canon_text, lastText_snoc]; rfl
  | false =>
    cases l.eq_nil_or_concat with
    | inl h => rw [h, canonL_nil]; rfl
    | inr h =>
      obtain ⟨pre, x, rfl⟩ := h
      rw [List.concat_eq_append] at hl ⊢
      rw [canonL_append, canonL_cons, canonL_nil, lastText_snoc, isText_canon]
      rw [lastText_snoc] at hl; exact hl

theorem canonL_addKid (acc : List Node) (n : Node) : canonL (addKid acc n) = addKid (canonL acc) (canon n) := by
  cases n with
  | text s =>
    rw [canon_text]
    cases hl : lastText acc with
    | false =>
      rw [addKid_text_after _ _ hl, addKid_text_after _ _ (by rw [lastText_canonL]; exact hl), canonL_append,
        canonL_cons, canonL_nil, canon_text]
    | true =>
      obtain ⟨pre, t, rfl⟩ := lastText_split acc hl
      rw [addKid_text_merge, canonL_append, canonL_append, canonL_cons, canonL_cons, canonL_nil, canon_text, canon_text,
        addKid_text_merge]
  | elt nm a k =>
    rw [addKid_not_text acc (.elt nm a k) rfl, canonL_append, canonL_cons, canonL_nil,
      addKid_not_text _ _ (by rw [isText_canon]; rfl)]
  | cdata k =>
    rw [addKid_not_text acc (.cdata k) rfl, canonL_append, canonL_cons, canonL_nil,
      addKid_not_text _ _ (by rw [isText_canon]; rfl)]
  | tree l cs r =>
    rw [addKid_not_text acc (.tree l cs r) rfl, canonL_append, canonL_cons, canonL_nil,
      addKid_not_text _ _ (by rw [isText_canon]; rfl)]

theorem canonL_addN (acc : List Node) (n : Node) : canonL (addN acc n) = addN (canonL acc) (canon n) := by
  cases n with
  | text s =>
    rw [canon_text, addN_text, addN_text]
    cases s with
    | nil => rfl
    | cons b t => rw [addChars_cons, addChars_cons, canonL_addKid, canon_text]
  | elt nm a k => rw [addN_elt, canonL_addKid, canon_elt]; rfl
  | cdata k =>
    show canonL (addKid acc (.cdata k)) = _
    rw [canonL_addKid]
    have : canon (.cdata k) = .cdata k := by rw [canon]
    rw [this]; rfl
  | tree l cs r =>
    show canonL (addKid acc (.tree l cs r)) = _
    rw [canonL_addKid]
    have : canon (.tree l cs r) = .tree l cs r := by rw [canon]
    rw [this]; rfl

theorem kvPar_false' (l : Lang) (h : (l.id == 1801) = false) (parent : Option Name) : kvPar l parent = false := by
  cases hk : kvPar l parent with
  | false => rfl
  | true => have := kvPar_id _ _ hk; rw [this] at h; cases h

theorem foundAt_mem (l : Lang) (tp : Nat) (name : Name) (hn : nameOver l name = true) (r : TagRow)
    (h : foundAt l tp name = some r) : ∃ tags, l.tags = some tags ∧ r ∈ tags ∧ r.name = name.cName := by
  cases name with
  | token r' =>
    simp only [foundAt] at h; injection h with h; subst h
    simp only [nameOver] at hn
    cases ht : l.tags with
    | none => simp [ht] at hn
    | some tags => exact ⟨tags, rfl, by simpa [ht] using hn, rfl⟩
  | literal s =>
    simp only [foundAt] at h
    cases ht : l.tags with
    | none => simp [ht] at h
    | some tags => rw [ht] at h; exact ⟨tags, rfl, encTag_mem _ _ _ _ h, encTag_name _ _ _ _ h⟩

theorem nameView_plain (l : Lang) (hts : tagSemOk l = true) (tp : Nat) (name : Name) (hn : nameOver l name = true) :
    nameView l (foundAt l tp name) name.cName = name.cName := by
  cases hf : foundAt l tp name with
  | none => rfl
  | some r =>
    obtain ⟨tags, ht, hm, hnm⟩ := foundAt_mem l tp name hn r hf
    simp only [tagSemOk, ht, List.all_eq_true, Bool.and_eq_true, beq_iff_eq] at hts
    have h2 := (hts r hm).2
    simp only [nameView, ht]
    cases hd : decTag tags r.page r.token with
    | none => rfl
    | some d =>
      rw [hd] at h2
      simp only [Option.map_some, Option.some.injEq] at h2
      simp only [h2, hnm]

theorem cName_eq (l : Lang) (hts : tagSemOk l = true) (name : Name) (hn : nameOver l name = true) :
    name.cName = cstrOf name.xmlName := by
  cases name with
  | literal s => rfl
  | token r =>
    simp only [nameOver] at hn
    cases ht : l.tags with
    | none => simp [ht] at hn
    | some tags =>
      simp only [ht, List.contains_iff_mem] at hn
      simp only [tagSemOk, ht, List.all_eq_true, Bool.and_eq_true] at hts
      exact (cstrOf_of_nulFree _ (hts r hn).1).symm

theorem startRow_mem (c : WCfg) (a : Attr) (attrs : List AttrRow) (hattrs : c.lang.attrs = some attrs)
    (ha : attrOver c.lang a = true) (r : AttrRow) (h : startRow c a = some r) : r ∈ attrs ∧ r.name = a.name.cName := by
  unfold startRow at h
  cases hn : a.name with
  | token r0 =>
    have hr0 : r0 ∈ attrs := by
      simp only [attrOver, hn, hattrs, Bool.and_eq_true, List.contains_iff_mem] at ha
      exact ha.2
    rw [hn] at h
    simp only at h
    cases hv : r0.value with
    | none => rw [hv] at h; injection h with h; subst h; exact ⟨hr0, rfl⟩
    | some p =>
      rw [hv] at h
      simp only at h
      split at h
      · injection h with h; subst h; exact ⟨hr0, rfl⟩
      · cases h
  | literal s =>
    rw [hn] at h
    simp only at h
    have hmem := attrLookup_mem c.lang (cstrOf s) (cstrOf a.value)
    have hnm := attrLookup_name c.lang (cstrOf s) (cstrOf a.value)
    cases hhit : (if s.isEmpty then AttrHit.none else attrLookup c.lang (cstrOf s) (cstrOf a.value)) with
    | none => rw [hhit] at h; cases h
    | exact r' =>
      rw [hhit] at h
      injection h with h; subst h
      have hl : attrLookup c.lang (cstrOf s) (cstrOf a.value) = .exact r' := by
        split at hhit
        · cases hhit
        · exact hhit
      obtain ⟨attrs', ha', hr⟩ := hmem.1 r' hl
      rw [hattrs] at ha'; injection ha' with ha'; subst ha'
      exact ⟨hr, hnm.1 r' hl⟩
    | part r' comp =>
      rw [hhit] at h
      injection h with h; subst h
      have hl : attrLookup c.lang (cstrOf s) (cstrOf a.value) = .part r' comp := by
        split at hhit
        · cases hhit
        · exact hhit
      obtain ⟨attrs', ha', hr⟩ := hmem.2 r' comp hl
      rw [hattrs] at ha'; injection ha' with ha'; subst ha'
      exact ⟨hr, hnm.2 r' comp hl⟩

theorem canonAttr_xAttr (c : WCfg) (attrs : List AttrRow) (hattrs : c.lang.attrs = some attrs)
    (hnta : noTypedAttr c.lang.id = true) (han : attrNameSemOk c.lang = true) (a : Attr) (ha : attrOver c.lang a = true) :
    canonAttr (xAttr c a) = normAttr a := by
  have hnf := attrOver_nulFree c a attrs hattrs ha han
  have hc : cstrOf a.name.xmlName = a.name.cName := by
    cases hn : a.name with
    | literal s => rfl
    | token r => rw [hn] at hnf; exact cstrOf_of_nulFree _ hnf
  have hv : vAttrValue c (startRow c a) (cstrOf a.value) = cstrOf a.value := by
    unfold vAttrValue
    cases startRow c a with
    | none => rfl
    | some r => simp only [noTypedAttr_dt _ hnta r, Bool.false_and, Bool.false_eq_true, if_false]
  have hx : (exactAName c.lang (startRow c a) a.name.cName).xmlName = a.name.cName := by
    cases hs : startRow c a with
    | none => rfl
    | some r =>
      obtain ⟨hm, hnm⟩ := startRow_mem c a attrs hattrs ha r hs
      simp only [attrNameSemOk, hattrs, List.all_eq_true, Bool.and_eq_true, beq_iff_eq] at han
      have h2 := (han r hm).2
      simp only [exactAName, hattrs]
      cases hd : decAttr attrs r.page r.token with
      | none => rfl
      | some d =>
        rw [hd] at h2
        simp only [Option.map_some, Option.some.injEq] at h2
        simp only [AName.xmlName, h2, hnm]
  simp only [canonAttr, xAttr, normAttr, hx, hv, hc]

mutual
/-- **The typed exact normal form refines `normNode`**: in a plain language (no typed content, no
    aliases) forgetting the representation of names (`canon`) turns `xNode` into `normNode`. -/
theorem canon_xNode (c : WCfg) (hpl : plainLang c.lang = true) (hnta : noTypedAttr c.lang.id = true)
    (hts : tagSemOk c.lang = true) (han : attrNameSemOk c.lang = true) :
    ∀ (n : Node) (parent : Option Name) (cur : Option TagRow) (tp : Nat), nodeOver c.lang n = true →
      plainNode n = true → isBinaryTag cur = false → canon (xNode c parent cur tp n) = normNode c n
  | .elt name attrs kids, parent, cur, tp, hov, hp, _ => by
    rw [nodeOver, Bool.and_eq_true, Bool.and_eq_true] at hov
    rw [plainNode] at hp
    obtain ⟨⟨hname, hattrs⟩, hkids⟩ := hov
    have hb : isBinaryTag (foundAt c.lang tp name) = false := by
      cases hf : foundAt c.lang tp name with
      | none => rfl
      | some r =>
        obtain ⟨tags, ht, hm, _⟩ := foundAt_mem c.lang tp name hname r hf
        simp only [plainLang, ht, Bool.and_eq_true, List.all_eq_true, beq_iff_eq] at hpl
        simp [isBinaryTag, hpl.2 r hm]
    rw [xNode_elt, canon_elt, normNode_elt,
      canonL_xKids c hpl hnta hts han kids (some name) _ _ [] hkids hp hb, canonL_nil]
    have h1 : canonName (exactName c.lang (foundAt c.lang tp name) name.cName) = normName name := by
      simp only [canonName, normName, exactName_xmlName]
      rw [nameView_plain c.lang hts tp name hname, cName_eq c.lang hts name hname]
    have h2 : (xAttrs c attrs).map canonAttr = normAttrs c attrs := by
      unfold xAttrs normAttrs
      cases hat : c.lang.attrs with
      | none => rfl
      | some t =>
        simp only [Option.isSome_some, if_true, List.map_map]
        apply List.map_congr_left
        intro a ha
        exact canonAttr_xAttr c t hat hnta han a (List.all_eq_true.mp hattrs a ha)
    rw [h1, h2]
  | .text s, parent, cur, tp, _, _, hb => by
    have hk : kvPar c.lang parent = false := by
      simp only [plainLang, Bool.and_eq_true, Bool.not_eq_true'] at hpl
      exact kvPar_false' c.lang hpl.1.2 parent
    rw [xNode_text, canon_text, normNode_text]
    simp only [vText, hb, hk, Bool.false_and, Bool.false_eq_true, if_false]
  | .cdata k, _, _, _, _, hp, _ => by rw [plainNode] at hp; cases hp
  | .tree l cs r, _, _, _, _, hp, _ => by rw [plainNode] at hp; cases hp
theorem canonL_xKids (c : WCfg) (hpl : plainLang c.lang = true) (hnta : noTypedAttr c.lang.id = true)
    (hts : tagSemOk c.lang = true) (han : attrNameSemOk c.lang = true) :
    ∀ (kids : List Node) (parent : Option Name) (cur : Option TagRow) (tp : Nat) (acc : List Node),
      nodesOver c.lang kids = true → plainNodes kids = true → isBinaryTag cur = false →
      canonL (xKids c parent cur tp kids acc) = normKidsAcc c kids (canonL acc)
  | [], parent, cur, tp, acc, _, _, _ => by rw [xKids_nil, normKidsAcc_nil]
  | k :: rest, parent, cur, tp, acc, hov, hp, hb => by
    rw [nodesOver, Bool.and_eq_true] at hov
    rw [plainNodes, Bool.and_eq_true] at hp
    rw [xKids_cons, normKidsAcc_cons,
      canonL_xKids c hpl hnta hts han rest parent none _ _ hov.2 hp.2 rfl, canonL_addN,
      canon_xNode c hpl hnta hts han k parent cur tp hov.1 hp.1 hb]
end

/-- For a plain language `rt_preserves_partial`'s normal form is the `canon` of the exact one. -/
theorem canon_normNodeTyped (c : WCfg) (hpl : plainLang c.lang = true) (hnta : noTypedAttr c.lang.id = true)
    (hts : tagSemOk c.lang = true) (han : attrNameSemOk c.lang = true) (r : Node)
    (hov : nodeOver c.lang r = true) (hp : plainNode r = true) : canon (normNodeTyped c r) = normNode c r :=
  canon_xNode c hpl hnta hts han r none none 0 hov hp rfl

end Wbxml.Lemmas.Rt
