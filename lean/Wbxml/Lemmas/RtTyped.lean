/-
  Round trip (C03), typed and exact: `normNodeTyped c r` — the tree `wbxml_tree_from_wbxml` builds
  from what `wbxml_tree_to_wbxml` writes for the plain tree `r`, as a function of `r` alone
  (`xNode` of `Lemmas/EncWNode.lean` at the root position) — and the document-level consequence of
  the tree-level conjunct `TreeT` of `encNode_seg`: the tree read off the grammar value the encoder
  wrote IS `normNodeTyped` (`DocRes.exactRoot`), names with their representation (token row or
  literal), typed content included.
-/
import Wbxml.Lemmas.RtNorm
import Wbxml.Lemmas.EncWConcat
import Wbxml.Lemmas.Tables
namespace Wbxml.Lemmas.Rt
open Wbxml Wbxml.Model Wbxml.Spec Wbxml.Lemmas.EncW Wbxml.Lemmas.ParseSer

/-- **The typed, exact normalisation of C03**: the root position (no parent, no `current_tag`, tag
    code page 0) of `xNode`.

    * element name ↦ `exactName`: `.token d` with `d` the FIRST row of the tag table with the page
      and token of the row `wbxml_encode_tag` works with (a token name's own row; for a literal name
      the row `wbxml_tables_get_tag_from_xml` finds, current code page first), or `.literal` of the
      name read as a C string when there is no such row;
    * attribute ↦ `xAttr`: name `exactAName` of the start row `wbxml_tables_get_attr_from_xml` /
      `wbxml_encode_attr_start` choose (`startRow`), value `vAttrValue` (the C string; under an SI /
      EMN `%Datetime` start token the text `decode_datetime` makes of the BCD payload) with the
      handlers' trailing NUL; no attributes for a language without attribute table;
    * text ↦ `vText`: `normText`; the raw octets as first child of a binary-flagged element; under a
      DRMREL `ds:KeyValue` token element the base64 text of the decoded octets;
    * children folded with `addN` (empty text dropped, adjacent text merged). -/
def normNodeTyped (c : WCfg) (r : Node) : Node := xNode c none none 0 r

theorem evPis_nil_page (c : Ctx) (ap : Nat) : (evPis c ap []).2 = ap := rfl

/-- **The tree read off the document the encoder wrote is the typed exact normalisation of the
    source tree** — every language but Wireless Village and OTA settings, plain trees. -/
theorem _root_.Wbxml.Lemmas.EncW.DocRes.exactRoot {cfg lang r bs d st} (h : DocRes cfg lang r bs d st)
    (hl : langOk lang = true) (htl : typedLangOk lang = true) (helt : isElt r = true)
    (hpn : plainNode r = true) (hnw : isWv lang.id = false) (hno : (lang.id == 1901) = false)
    (hvs : valSemOk lang = true) (has : attrSemOk lang = true) (han : attrNameSemOk lang = true)
    (pcfg : PCfg) : rootOfDoc pcfg d lang = normNodeTyped (dcfgOf cfg lang) r := by
  have hf := docStartW_fields (dcfgOf cfg lang) r
  have hrd : RdT (dcfgOf cfg lang) st.strtbl (headerCtx pcfg d.hdr lang) :=
    ⟨by simp [headerCtx], h.resolves pcfg, by rw [dcfgOf_lang]; exact hl, by rw [dcfgOf_lang]; exact hvs,
      by rw [dcfgOf_lang]; exact has, by rw [dcfgOf_lang]; exact han, by rw [dcfgOf_lang]; exact htl⟩
  have hpos : Pos (dcfgOf cfg lang) (headerCtx pcfg d.hdr lang) none
      (docStartW (dcfgOf cfg lang) r).curTag false true none none := by
    rw [hf.2.2.2.1]; exact Pos.root _ _ true
  have hv := h.treeT hpn (by rw [dcfgOf_lang]; exact hnw) (by rw [dcfgOf_lang]; exact hno) hf.2.2.2.2.2
    (headerCtx pcfg d.hdr lang) hrd false true none none hpos []
  rw [hf.2.1, hf.2.2.1, hf.2.2.2.1, kidsOfItems_single, kidOfItem_elem] at hv
  unfold rootOfDoc normNodeTyped
  rw [h.pre, evPis_nil_page]
  cases r with
  | elt name attrs kids =>
    have e1 : addKid [] (nodeOfElem (headerCtx pcfg d.hdr lang) ⟨0, 0⟩ d.root) =
        [nodeOfElem (headerCtx pcfg d.hdr lang) ⟨0, 0⟩ d.root] := by
      rw [addKid_not_text _ _ (by cases hd : d.root; rw [nodeOfElem_mk]; rfl)]; rfl
    rw [e1] at hv
    have e2 : addN [] (xNode (dcfgOf cfg lang) none none 0 (.elt name attrs kids)) =
        [xNode (dcfgOf cfg lang) none none 0 (.elt name attrs kids)] := by
      simp only [xNode, addN]
      rfl
    rw [e2] at hv
    exact List.head_eq_of_cons_eq hv
  | text s => cases helt
  | cdata k => cases helt
  | tree l cs r => cases helt

/-! ### Table facts behind "the same row comes back" -/

/-- Within one code page no two rows of a tag table share a name: every row is the first row of the
    table with its (page, name). -/
def namesUniqPerPage (tags : List TagRow) : Bool :=
  tags.all (fun r => tags.find? (fun q => q.page == r.page && q.name == r.name) == some r)

/-- No two rows share a (page, token): every row is the first row with its page and token (C08's
    `decTag`). -/
def tokensUniq (tags : List TagRow) : Bool :=
  tags.all (fun r => decTag tags r.page r.token == some r)

/-- The converse of the encoder's name resolution: looking a row's name up from the row's own code
    page (`wbxml_tables_get_tag_from_xml`) finds that very row. -/
def selfFind (tags : List TagRow) : Bool :=
  tags.all (fun r => encTag tags (some r.page) r.name == some r)

def tagNamesUniqPerPage (l : Lang) : Bool :=
  match l.tags with
  | some tags => namesUniqPerPage tags
  | none => true

theorem namesUniqPerPage_spec (tags : List TagRow) (h : namesUniqPerPage tags = true) (r q : TagRow)
    (hr : r ∈ tags) (hq : q ∈ tags) (hp : q.page = r.page) (hn : q.name = r.name) : q = r := by
  simp only [namesUniqPerPage, List.all_eq_true, beq_iff_eq] at h
  have h1 := h r hr
  have h2 := h q hq
  rw [hp, hn] at h2
  rw [h1] at h2
  injection h2 with h2
  exact h2.symm

theorem tokensUniq_spec (tags : List TagRow) (h : tokensUniq tags = true) (r : TagRow) (hr : r ∈ tags) :
    decTag tags r.page r.token = some r := by
  simp only [tokensUniq, List.all_eq_true, beq_iff_eq] at h
  exact h r hr

/-- The first row with a row's (page, token) is a fixed point of "first row with its (page, token)". -/
theorem decTag_idem (tags : List TagRow) (p t : Nat) (d : TagRow) (h : decTag tags p t = some d) :
    decTag tags d.page d.token = some d := by
  have hd := List.find?_some h
  simp only [Bool.and_eq_true, beq_iff_eq] at hd
  rw [hd.1, hd.2]; exact h

/-- A token name whose row is the first with its (page, token) — every row of every table but the
    second of ActiveSync's two names for token 0x10 of page 14 — comes back as the SAME row. -/
theorem exactName_token (l : Lang) (tags : List TagRow) (ht : l.tags = some tags) (r : TagRow)
    (h : decTag tags r.page r.token = some r) (nm : Bytes) : exactName l (some r) nm = .token r := by
  simp only [exactName, ht, h]

/-- In general a token name comes back as the first row with its page and token. -/
theorem exactName_token_first (l : Lang) (tags : List TagRow) (ht : l.tags = some tags) (r : TagRow)
    (hr : r ∈ tags) (nm : Bytes) : ∃ d, decTag tags r.page r.token = some d ∧ exactName l (some r) nm = .token d := by
  cases hd : decTag tags r.page r.token with
  | none =>
    have := List.find?_eq_none.mp hd r hr
    simp at this
  | some d => exact ⟨d, rfl, by simp only [exactName, ht, hd]⟩

/-! ### The same facts, page bucket by page bucket (what the kernel evaluates) -/

/-- No two rows of the list share a name. -/
def noDupNames : List TagRow → Bool
  | [] => true
  | r :: rs => rs.all (fun q => !(q.name == r.name)) && noDupNames rs

theorem noDupNames_find : ∀ (b : List TagRow), noDupNames b = true → ∀ r ∈ b, b.find? (fun x => x.name == r.name) = some r
  | [], _, r, hr => by cases hr
  | a :: rs, h, r, hr => by
    rw [noDupNames, Bool.and_eq_true, List.all_eq_true] at h
    rw [List.find?_cons]
    rcases List.mem_cons.mp hr with rfl | hm
    · simp
    · have : (a.name == r.name) = false := by
        have := h.1 r hm
        simp only [Bool.not_eq_true', beq_eq_false_iff_ne, ne_eq] at this
        simp only [beq_eq_false_iff_ne, ne_eq]
        exact fun e => this e.symm
      rw [this]
      exact noDupNames_find rs h.2 r hm

/-- What the kernel evaluates for a tag table: per code page, names without repetition. -/
def namesUniqFast (t : List TagRow) : Bool := (pagesOf t).all (fun p => noDupNames (bucket t p))

/-- … and every row but the listed exceptions is the first of its bucket with its token. -/
def tokensUniqFast (exc : TagRow → Bool) (t : List TagRow) : Bool :=
  (pagesOf t).all (fun p => (bucket t p).all (fun r => (bucket t p).find? (fun x => x.token == r.token) == some r || exc r))

theorem mem_bucket_self {t : List TagRow} {r : TagRow} (h : r ∈ t) : r ∈ bucket t r.page := by
  simp [bucket, h]

theorem find_page_name (t : List TagRow) (r : TagRow) :
    t.find? (fun q => q.page == r.page && q.name == r.name) = (bucket t r.page).find? (fun x => x.name == r.name) := by
  unfold bucket
  rw [List.find?_filter]
  congr 1
  funext a
  cases h1 : a.page == r.page <;> cases h2 : a.name == r.name <;> simp

theorem namesUniqPerPage_of_fast (t : List TagRow) (h : namesUniqFast t = true) : namesUniqPerPage t = true := by
  simp only [namesUniqFast, List.all_eq_true] at h
  simp only [namesUniqPerPage, List.all_eq_true, beq_iff_eq]
  intro r hr
  rw [find_page_name]
  exact noDupNames_find _ (h r.page (mem_pagesOf hr)) r (mem_bucket_self hr)

/-- Names unique per page + contiguous pages ⇒ every row is found by its own name from its own page. -/
theorem selfFind_of_fast (t : List TagRow) (h : namesUniqFast t = true)
    (hc : ∀ r ∈ t, contigFrom r.page t = true) : selfFind t = true := by
  simp only [namesUniqFast, List.all_eq_true] at h
  simp only [selfFind, List.all_eq_true, beq_iff_eq]
  intro r hr
  unfold encTag
  simp only
  rw [loop1_from _ _ _ (hc r hr), noDupNames_find _ (h r.page (mem_pagesOf hr)) r (mem_bucket_self hr)]

theorem tokens_of_fast (exc : TagRow → Bool) (t : List TagRow) (h : tokensUniqFast exc t = true) :
    t.all (fun r => decTag t r.page r.token == some r || exc r) = true := by
  simp only [tokensUniqFast, List.all_eq_true] at h
  rw [List.all_eq_true]
  intro r hr
  rw [decTag_bucket]
  exact h r.page (mem_pagesOf hr) r (mem_bucket_self hr)

/-! ### Idempotence of the typed exact normalisation -/

/-- The element name is already in round-trip form at this tag page: a token row that is the first
    with its page and token, or a NUL-free literal that no row of the table resolves. -/
def nameFixed (l : Lang) (tp : Nat) (name : Name) : Bool := decide (exactName l (foundAt l tp name) name.cName = name)

/-- The attribute's round-trip form is a fixed point. -/
def attrFixed (c : WCfg) (a : Attr) : Bool := decide (xAttr c (xAttr c a) = xAttr c a)

/-- The text's typed normal form at this position is a fixed point of the typed normal form. -/
def textFixed (c : WCfg) (parent : Option Name) (cur : Option TagRow) (s : Bytes) : Bool :=
  vText c parent cur (vText c parent cur s) == vText c parent cur s

mutual
def fixedNode (c : WCfg) (parent : Option Name) (cur : Option TagRow) (tp : Nat) : Node → Bool
  | .elt name attrs kids =>
    nameFixed c.lang tp name && (c.lang.attrs.isNone || attrs.all (attrFixed c)) && noAdj kids &&
      fixedKids c (some name) (foundAt c.lang tp name) (pageAfter (foundAt c.lang tp name) tp) kids
  | .text s => textFixed c parent cur s
  | .cdata _ => true
  | .tree _ _ _ => true
def fixedKids (c : WCfg) (parent : Option Name) (cur : Option TagRow) (tp : Nat) : List Node → Bool
  | [] => true
  | n :: r => fixedNode c parent cur tp n && fixedKids c parent none (vNode c parent cur tp n).2 r
end

theorem xNode_elt (c parent cur tp name attrs kids) : xNode c parent cur tp (.elt name attrs kids) =
    .elt (exactName c.lang (foundAt c.lang tp name) name.cName) (xAttrs c attrs)
      (xKids c (some name) (foundAt c.lang tp name) (pageAfter (foundAt c.lang tp name) tp) kids []) := by
  rw [xNode]
theorem xNode_text (c parent cur tp s) : xNode c parent cur tp (.text s) = .text (vText c parent cur s) := by rw [xNode]
theorem xKids_nil (c parent cur tp acc) : xKids c parent cur tp [] acc = acc := by rw [xKids]
theorem xKids_cons (c parent cur tp n r acc) : xKids c parent cur tp (n :: r) acc =
    xKids c parent none (vNode c parent cur tp n).2 r (addN acc (xNode c parent cur tp n)) := by rw [xKids]

theorem vNode_elt_2 (c parent cur tp name attrs kids) : (vNode c parent cur tp (.elt name attrs kids)).2 =
    (vNodes c (some name) (foundAt c.lang tp name) (pageAfter (foundAt c.lang tp name) tp) kids).2 := by
  rw [vNode]
theorem vNode_text_2 (c parent cur tp s) : (vNode c parent cur tp (.text s)).2 = tp := by rw [vNode]
theorem vNodes_nil_2 (c parent cur tp) : (vNodes c parent cur tp []).2 = tp := by rw [vNodes]
theorem vNodes_cons_2 (c parent cur tp n r) : (vNodes c parent cur tp (n :: r)).2 =
    (vNodes c parent none (vNode c parent cur tp n).2 r).2 := by rw [vNodes]

/-- Only a text node looks at `current_tag`. -/
theorem xNode_cur (c : WCfg) (parent : Option Name) (cur cur' : Option TagRow) (tp : Nat) (n : Node)
    (h : isText n = false) : xNode c parent cur tp n = xNode c parent cur' tp n ∧
      (vNode c parent cur tp n).2 = (vNode c parent cur' tp n).2 := by
  cases n with
  | text s => cases h
  | elt nm a k => exact ⟨by rw [xNode_elt, xNode_elt], by rw [vNode_elt_2, vNode_elt_2]⟩
  | cdata k => exact ⟨by rw [xNode, xNode], by rw [vNode, vNode]⟩
  | tree l cs r => exact ⟨by rw [xNode, xNode], by rw [vNode, vNode]⟩

def nonEmptyText : Node → Bool
  | .text s => !s.isEmpty
  | _ => true

/-- A child list that the exact normalisation reproduces when it starts at `(cur, tp)`. -/
def StX (c : WCfg) (parent : Option Name) : Option TagRow → Nat → List Node → Prop
  | _, _, [] => True
  | cur, tp, k :: rest => xNode c parent cur tp k = k ∧ nonEmptyText k = true ∧
      StX c parent none (vNode c parent cur tp k).2 rest

/-- `current_tag` for the node behind the list `acc` that started with `cur0`. -/
def curAfter (cur0 : Option TagRow) (acc : List Node) : Option TagRow := if acc.isEmpty then cur0 else none

theorem vNodes_append_2 (c : WCfg) (parent : Option Name) : ∀ (a b : List Node) (cur : Option TagRow) (tp : Nat),
    (vNodes c parent cur tp (a ++ b)).2 = (vNodes c parent (curAfter cur a) (vNodes c parent cur tp a).2 b).2
  | [], b, cur, tp => by rw [List.nil_append, vNodes_nil_2]; rfl
  | x :: a, b, cur, tp => by
    rw [List.cons_append, vNodes_cons_2, vNodes_cons_2, vNodes_append_2 c parent a b]
    cases a <;> rfl

theorem StX_snoc (c : WCfg) (parent : Option Name) : ∀ (acc : List Node) (cur0 : Option TagRow) (tp0 : Nat) (x : Node),
    StX c parent cur0 tp0 acc →
    xNode c parent (curAfter cur0 acc) (vNodes c parent cur0 tp0 acc).2 x = x → nonEmptyText x = true →
    StX c parent cur0 tp0 (acc ++ [x])
  | [], cur0, tp0, x, _, hx, hne => by
    rw [vNodes_nil_2] at hx
    exact ⟨hx, hne, trivial⟩
  | k :: rest, cur0, tp0, x, h, hx, hne => by
    obtain ⟨h1, h2, h3⟩ := h
    rw [vNodes_cons_2] at hx
    refine ⟨h1, h2, StX_snoc c parent rest none _ x h3 ?_ hne⟩
    cases rest with
    | nil => exact hx
    | cons _ _ => exact hx

theorem addN_snoc (acc : List Node) (k : Node) (hne : nonEmptyText k = true)
    (h : (lastText acc && isText k) = false) : addN acc k = acc ++ [k] := by
  cases k with
  | text s =>
    have hs : s.isEmpty = false := by simpa [nonEmptyText] using hne
    have hl : lastText acc = false := by simpa [isText] using h
    rw [addN_text]
    unfold addChars
    rw [hs]
    exact addKid_text_after _ _ hl
  | elt n a ks => exact addKid_not_text acc (.elt n a ks) rfl
  | cdata ks => exact addKid_not_text acc (.cdata ks) rfl
  | tree l cs r => exact addKid_not_text acc (.tree l cs r) rfl

/-- A stable child list is reproduced. -/
theorem xKids_of_StX (c : WCfg) (parent : Option Name) : ∀ (K acc : List Node) (cur : Option TagRow) (tp : Nat),
    StX c parent cur tp K → noAdj K = true → (lastText acc && headText K) = false →
    xKids c parent cur tp K acc = acc ++ K
  | [], acc, cur, tp, _, _, _ => by rw [xKids_nil, List.append_nil]
  | k :: K, acc, cur, tp, h, hadj, ha => by
    obtain ⟨h1, h2, h3⟩ := h
    rw [noAdj] at hadj
    simp only [Bool.and_eq_true, Bool.not_eq_true'] at hadj
    rw [xKids_cons, h1, addN_snoc acc k h2 (by simpa [headText] using ha),
      xKids_of_StX c parent K (acc ++ [k]) none _ h3 hadj.2 (by rw [lastText_snoc]; exact hadj.1), List.append_assoc]
    rfl

theorem xAttrs_fixed (c : WCfg) (attrs : List Attr) (h : (c.lang.attrs.isNone || attrs.all (attrFixed c)) = true) :
    xAttrs c (xAttrs c attrs) = xAttrs c attrs := by
  unfold xAttrs
  cases ha : c.lang.attrs with
  | none => rfl
  | some t =>
    simp only [ha, Option.isNone_some, Bool.false_or, List.all_eq_true] at h
    simp only [Option.isSome_some, if_true, List.map_map]
    apply List.map_congr_left
    intro a hm
    exact of_decide_eq_true (h a hm)

theorem isText_xNode (c parent cur tp) (n : Node) : isText (xNode c parent cur tp n) = isText n := by
  cases n with
  | elt nm a k => rw [xNode_elt]; rfl
  | text s => rw [xNode_text]; rfl
  | cdata k => rw [xNode]
  | tree l cs r => rw [xNode]

theorem lastText_addN_nontext' (acc : List Node) (n : Node) (h : isText n = false) : lastText (addN acc n) = false :=
  lastText_addN_nontext acc n h

mutual
/-- **Structure theorem.** At a position where names, attributes and texts are fixed points of their
    own normal forms and no two text nodes are adjacent, the exact normalisation is idempotent. -/
theorem xNode_fixed (c : WCfg) : ∀ (n : Node) (parent : Option Name) (cur : Option TagRow) (tp : Nat),
    fixedNode c parent cur tp n = true →
    xNode c parent cur tp (xNode c parent cur tp n) = xNode c parent cur tp n ∧
      (vNode c parent cur tp (xNode c parent cur tp n)).2 = (vNode c parent cur tp n).2
  | .elt name attrs kids, parent, cur, tp, h => by
    rw [fixedNode] at h
    simp only [Bool.and_eq_true] at h
    obtain ⟨⟨⟨hn, ha⟩, hadj⟩, hk⟩ := h
    have hname : exactName c.lang (foundAt c.lang tp name) name.cName = name := of_decide_eq_true hn
    obtain ⟨hst, hadjK, htp⟩ := xKids_out c kids (some name) [] (foundAt c.lang tp name)
      (pageAfter (foundAt c.lang tp name) tp) (foundAt c.lang tp name) (pageAfter (foundAt c.lang tp name) tp)
      hk hadj trivial rfl (fun h => by cases h) (by rw [vNodes_nil_2]) (fun _ => Or.inl rfl) (fun h => absurd rfl h)
    rw [xNode_elt, hname]
    constructor
    · rw [xNode_elt, hname, xAttrs_fixed c attrs ha,
        xKids_of_StX c (some name) _ [] _ _ hst hadjK rfl, List.nil_append]
    · rw [vNode_elt_2, vNode_elt_2, htp]
  | .text s, parent, cur, tp, h => by
    rw [fixedNode] at h
    rw [xNode_text, xNode_text, vNode_text_2, vNode_text_2]
    exact ⟨by rw [beq_iff_eq.mp h], rfl⟩
  | .cdata k, parent, cur, tp, _ => by
    have e : xNode c parent cur tp (.cdata k) = .cdata k := by rw [xNode]
    rw [e, e]; exact ⟨rfl, rfl⟩
  | .tree l cs r, parent, cur, tp, _ => by
    have e : xNode c parent cur tp (.tree l cs r) = .tree l cs r := by rw [xNode]
    rw [e, e]; exact ⟨rfl, rfl⟩
/-- The children: what `xKids` delivers is stable, has no adjacent text nodes, and leaves the tag
    page where the source children leave it. -/
theorem xKids_out (c : WCfg) : ∀ (kids : List Node) (parent : Option Name) (acc : List Node) (cur : Option TagRow) (tp : Nat)
    (cur0 : Option TagRow) (tp0 : Nat),
    fixedKids c parent cur tp kids = true → noAdj kids = true →
    StX c parent cur0 tp0 acc → noAdj acc = true → (lastText acc = true → headText kids = false) →
    (vNodes c parent cur0 tp0 acc).2 = tp →
    (acc = [] → cur = cur0 ∨ headText kids = false) → (acc ≠ [] → cur = none) →
    StX c parent cur0 tp0 (xKids c parent cur tp kids acc) ∧ noAdj (xKids c parent cur tp kids acc) = true ∧
      (vNodes c parent cur0 tp0 (xKids c parent cur tp kids acc)).2 = (vNodes c parent cur tp kids).2
  | [], parent, acc, cur, tp, cur0, tp0, _, _, hst, hadjA, _, htp, _, _ => by
    rw [xKids_nil, vNodes_nil_2]; exact ⟨hst, hadjA, htp⟩
  | k :: rest, parent, acc, cur, tp, cur0, tp0, hf, hadj, hst, hadjA, hla, htp, hc1, hc2 => by
    rw [fixedKids, Bool.and_eq_true] at hf
    rw [noAdj] at hadj
    simp only [Bool.and_eq_true, Bool.not_eq_true'] at hadj
    obtain ⟨hfix, htpk⟩ := xNode_fixed c k parent cur tp hf.1
    rw [xKids_cons, vNodes_cons_2]
    -- the position a second pass has behind `acc` is the position of `k` in the first pass
    have hpos : isText k = true → curAfter cur0 acc = cur := by
      intro ht
      unfold curAfter
      cases acc with
      | nil =>
        rcases hc1 rfl with h | h
        · exact h.symm
        · simp [headText, ht] at h
      | cons a as => exact (hc2 (by intro h; cases h)).symm
    cases hk : isText k with
    | true =>
      cases k with
      | text s =>
        have hrest : headText rest = false := by simpa [isText] using hadj.1
        rw [xNode_text, addN_text]
        rw [xNode_text, xNode_text] at hfix
        rw [vNode_text_2]
        cases hv : vText c parent cur s with
        | nil =>
          rw [addChars_nil]
          exact xKids_out c rest parent acc none tp cur0 tp0 (by rw [vNode_text_2] at hf; exact hf.2) hadj.2 hst hadjA
            (fun _ => hrest) htp (fun _ => Or.inr hrest) (fun _ => rfl)
        | cons b v =>
          have hl : lastText acc = false := by
            cases hA : lastText acc with
            | false => rfl
            | true => have := hla hA; simp [headText, isText] at this
          rw [addChars_cons, addKid_text_after _ _ hl]
          have hx : xNode c parent (curAfter cur0 acc) (vNodes c parent cur0 tp0 acc).2 (.text (b :: v)) = .text (b :: v) := by
            rw [hpos rfl, htp, ← hv]; exact hfix
          refine xKids_out c rest parent (acc ++ [.text (b :: v)]) none tp cur0 tp0
            (by rw [vNode_text_2] at hf; exact hf.2) hadj.2 (StX_snoc c parent acc cur0 tp0 _ hst hx rfl)
            (by rw [noAdj_snoc, hadjA, hl]; rfl) (fun _ => hrest) ?_ (fun h => by simp at h) (fun _ => rfl)
          rw [vNodes_append_2, vNodes_cons_2, vNodes_nil_2, vNode_text_2, htp]
      | elt _ _ _ => cases hk
      | cdata _ => cases hk
      | tree _ _ _ => cases hk
    | false =>
      have hk' : isText (xNode c parent cur tp k) = false := by rw [isText_xNode]; exact hk
      have hne : nonEmptyText (xNode c parent cur tp k) = true := by
        generalize xNode c parent cur tp k = y at hk'
        cases y <;> first | rfl | cases hk'
      rw [addN_snoc acc _ hne (by rw [hk', Bool.and_false])]
      have hx : xNode c parent (curAfter cur0 acc) (vNodes c parent cur0 tp0 acc).2 (xNode c parent cur tp k) =
          xNode c parent cur tp k := by
        rw [htp, (xNode_cur c parent (curAfter cur0 acc) cur tp _ hk').1]; exact hfix
      refine xKids_out c rest parent (acc ++ [xNode c parent cur tp k]) none _ cur0 tp0 hf.2 hadj.2
        (StX_snoc c parent acc cur0 tp0 _ hst hx hne) (by rw [noAdj_snoc, hadjA, hk', Bool.and_false]; rfl)
        (fun h => by rw [lastText_snoc, hk'] at h; cases h) ?_ (fun h => by simp at h) (fun _ => rfl)
      rw [vNodes_append_2, vNodes_cons_2, vNodes_nil_2, htp,
        (xNode_cur c parent (curAfter cur0 acc) cur tp _ hk').2, htpk]
end


/-- **`normNodeTyped` is idempotent** on trees whose names are in round-trip form (`nameFixed`),
    whose attributes and texts are fixed points of their own per-form normal forms (`attrFixed`,
    `textFixed`: decidable, evaluated with the model's own functions) and that have no two adjacent
    text nodes — in every language, typed content included. The per-form facts: `textFixed_normal`
    (`normText` on NUL-free text), `textFixed_binary` (raw octets), C06 `b64Norm_idem`,
    `datetimeNorm_canon` (canonical texts of valid date-times). -/
theorem normNodeTyped_idem (c : WCfg) (r : Node) (h : fixedNode c none none 0 r = true) :
    normNodeTyped c (normNodeTyped c r) = normNodeTyped c r := (xNode_fixed c r none none 0 h).1

/-- Ordinary character data (not under a binary-flagged `current_tag`, not under a DRMREL
    `ds:KeyValue` token element), NUL-free: `normText` of it is a fixed point — in every language,
    SyncML included (one text node: nothing is merged). -/
theorem textFixed_normal (c : WCfg) (parent : Option Name) (cur : Option TagRow) (s : Bytes)
    (hb : isBinaryTag cur = false) (hk : kvPar c.lang parent = false) (hn : nulFree s = true) :
    textFixed c parent cur s = true := by
  have hv : ∀ t, vText c parent cur t = normText c t := by
    intro t; simp only [vText, hb, hk, Bool.false_and, Bool.false_eq_true, if_false]
  unfold textFixed
  rw [hv, hv, beq_iff_eq]
  rcases normText_solidS c s hn with h0 | hs
  · rw [h0, normText_nil']
  · exact normText_of_solidS c _ hs

/-- Under a binary-flagged `current_tag` (ActiveSync) the octets are carried as they are. -/
theorem textFixed_binary (c : WCfg) (parent : Option Name) (cur : Option TagRow) (s : Bytes)
    (hb : isBinaryTag cur = true) : textFixed c parent cur s = true := by
  unfold textFixed
  simp only [vText, hb, if_true, beq_self_eq_true]

/-- A token name whose row is the first with its page and token is in round-trip form. -/
theorem nameFixed_token (l : Lang) (tags : List TagRow) (ht : l.tags = some tags) (tp : Nat) (r : TagRow)
    (h : decTag tags r.page r.token = some r) : nameFixed l tp (.token r) = true := by
  unfold nameFixed
  exact decide_eq_true (exactName_token l tags ht r h r.name)

/-- What the first trip delivers for a token name is in round-trip form. -/
theorem nameFixed_exact (l : Lang) (tags : List TagRow) (ht : l.tags = some tags) (tp' : Nat) (r : TagRow)
    (hr : r ∈ tags) (nm : Bytes) : nameFixed l tp' (exactName l (some r) nm) = true := by
  obtain ⟨d, hd, he⟩ := exactName_token_first l tags ht r hr nm
  rw [he]
  exact nameFixed_token l tags ht tp' d (decTag_idem tags _ _ d hd)

end Wbxml.Lemmas.Rt
