/-
  C18 lemmas, part 9: the iterative teardown `wbxml_tree_node_destroy_all`.

  Loop invariant, in big-step form: started at the head of a matched sibling chain `t` whose parent is
  `p` (`current_node = head of t`, `previous_node = p`), the walk comes back to
  `current_node = NULL, previous_node = p` after exactly `2 * |t|` iterations, having destroyed every
  cell of `t` exactly once (a second `free` of a cell is `Err.ub` in the model, so a successful run
  cannot contain one) and no other cell.  The fuel of the model (`2 * heap + 2`) therefore suffices.
-/
import Wbxml.Lemmas.TreeHeapStep
set_option linter.unusedSimpArgs false
set_option linter.unusedVariables false
namespace Wbxml.Model.TreeHeap
open Wbxml Wbxml.Model

/-- The view after the cells at the listed addresses were destroyed. -/
def vdelAll (v : View) (l : List Nat) : View := fun j => if j ∈ l then none else v j

theorem vdelAll_nil (v : View) : vdelAll v [] = v := by
  funext j; simp [vdelAll]

theorem destroy_chain : ∀ (t : BT) (p : Nat) (prv : Option Nat) (s : St) (k : Nat) (cp : Cell),
    Match s.cellAt (some p) prv t → t.ids.Nodup → p ∉ t.ids → s.cellAt p = some cp →
    ∃ s', destroyLoop none (2 * t.size + k) s t.rid (some p) = destroyLoop none k s' none (some p) ∧
      s'.cellAt = vdelAll s.cellAt t.ids ∧ SameMeta s s'
  | .nil, p, prv, s, k, cp, _, _, _, _ => by
    refine ⟨s, ?_, by rw [BT.ids_nil, vdelAll_nil], SameMeta.refl s⟩
    simp [BT.size]
  | .node i ch nx, p, prv, s, k, cp, ⟨⟨ci, hci, hpar, hpv, hfi, hnxt, hb⟩, mc, mn⟩, hnd, hp, hcp => by
    obtain ⟨hi1, hi2, hcn, hnn, hd⟩ := BT.nodup_node.mp hnd
    have hpi : p ≠ i := fun e => hp (BT.mem_node.mpr (Or.inl e))
    have hpc : p ∉ ch.ids := fun h => hp (BT.mem_node.mpr (Or.inr (Or.inl h)))
    have hpn : p ∉ nx.ids := fun h => hp (BT.mem_node.mpr (Or.inr (Or.inr h)))
    -- go deeper into i, destroy its children
    obtain ⟨s1, e1, v1, m1⟩ := destroy_chain ch i none s (1 + (2 * nx.size + k)) ci mc hcn hi1 hci
    have hi_s1 : s1.cellAt i = some ci := by
      rw [v1]; simp only [vdelAll, hi1, if_false]; exact hci
    -- destroy i itself
    obtain ⟨s2, e2, v2, m2⟩ := free_step hi_s1
    have hmn2 : Match s2.cellAt (some p) (some i) nx := by
      apply Match.frame nx _ _ _ mn
      intro j hj
      have hji : j ≠ i := fun e => hi2 (e ▸ hj)
      have hjc : j ∉ ch.ids := fun h => hd j h hj
      rw [v2, vdel_ne _ hji, v1]; simp only [vdelAll, hjc, if_false]
    have hp_s2 : s2.cellAt p = some cp := by
      rw [v2, vdel_ne _ hpi, v1]; simp only [vdelAll, hpc, if_false]; exact hcp
    -- continue with the next sibling
    obtain ⟨s3, e3, v3, m3⟩ := destroy_chain nx p (some i) s2 k cp hmn2 hnn hpn hp_s2
    refine ⟨s3, ?_, ?_, (m1.trans m2).trans m3⟩
    · have hfuel : 2 * (BT.node i ch nx).size + k = (2 * ch.size + (1 + (2 * nx.size + k))) + 1 := by
        simp only [BT.size]; omega
      have hfuel2 : 1 + (2 * nx.size + k) = (2 * nx.size + k) + 1 := by omega
      rw [hfuel, BT.rid_node]
      simp only [destroyLoop, deref_of_cellAt hci, hfi]
      rw [e1, hfuel2]
      simp only [destroyLoop, deref_of_cellAt hi_s1, hpar, e2, hnxt]
      have : ¬ (some p = none) := by simp
      simp only [this, if_false]
      exact e3
    · rw [v3, v2, v1]
      funext j
      simp only [vdelAll, vdel, BT.ids_node, List.mem_cons, List.mem_append]
      by_cases h1 : j ∈ nx.ids
      · simp [h1]
      · by_cases h2 : j = i
        · simp [h1, h2]
        · by_cases h3 : j ∈ ch.ids
          · simp [h1, h2, h3]
          · simp [h1, h2, h3]

/-- `wbxml_tree_node_destroy_all` on a node without parent (a detached sub-tree, or the root):
    never faults, never runs out of fuel, destroys exactly the node and everything below it. -/
theorem destroyAll_spec {s : St} {G : BT} (hF : Forest s G) {n : Nat} {cn : Cell} (hcn : s.cellAt n = some cn)
    (hp : cn.parent = none) :
    ∃ s', destroyAll s n = .ok s' ∧ s'.cellAt = vdelAll s.cellAt (n :: (BT.chainKids n G).ids) ∧ SameMeta s s' := by
  have hn := hF.parent_none_top hcn hp
  obtain ⟨c', hc', _, _, _, hf, _, hm⟩ := Loc.top_facts s.cellAt n G none hF.m hn
  rw [hcn] at hc'; injection hc' with hc'; subst hc'
  have hnd := BT.chainKids_nodup n G hF.nodup hn
  -- fuel
  have hsz : (BT.chainKids n G).size + 1 ≤ s.heap.length := by
    have h1 := hF.size_le
    have h2 : (n :: (BT.chainKids n G).ids).length ≤ G.ids.length := by
      have : ∀ (l m : List Nat), l.Nodup → (∀ x, x ∈ l → x ∈ m) → l.length ≤ m.length := by
        intro l
        induction l with
        | nil => intro m _ _; simp
        | cons a r ih =>
          intro m hnd hsub
          have ham : a ∈ m := hsub a (by simp)
          have hr := ih (m.erase a) (List.nodup_cons.mp hnd).2 (by
            intro x hx
            have hxa : x ≠ a := fun e => (List.nodup_cons.mp hnd).1 (e ▸ hx)
            exact (List.mem_erase_of_ne hxa).mpr (hsub x (by simp [hx])))
          rw [List.length_erase_of_mem ham] at hr
          have : 0 < m.length := List.length_pos_of_mem ham
          simp only [List.length_cons]
          omega
      apply this _ _ (List.nodup_cons.mpr ⟨hnd.2, hnd.1⟩)
      intro x hx
      simp only [List.mem_cons] at hx
      rcases hx with h | h
      · rw [h]; exact BT.tops_sub _ _ hn
      · exact BT.chainKids_sub n G x h
    have h3 := BT.ids_length (BT.chainKids n G)
    simp only [List.length_cons] at h2
    omega
  obtain ⟨k, hk⟩ : ∃ k, 2 * s.heap.length + 2 = (2 * (BT.chainKids n G).size + (k + 1)) + 1 :=
    ⟨2 * s.heap.length - 2 * (BT.chainKids n G).size, by omega⟩
  obtain ⟨s1, e1, v1, m1⟩ := destroy_chain (BT.chainKids n G) n none s (k + 1) cn hm hnd.1 hnd.2 hcn
  have hn1 : s1.cellAt n = some cn := by
    rw [v1]; simp only [vdelAll, hnd.2, if_false]; exact hcn
  obtain ⟨s2, e2, v2, m2⟩ := free_step hn1
  refine ⟨s2, ?_, ?_, m1.trans m2⟩
  · simp only [destroyAll, deref_of_cellAt hcn, bind, Except.bind, hp]
    rw [hk]
    simp only [destroyLoop, deref_of_cellAt hcn, hf]
    rw [e1]
    simp only [destroyLoop, deref_of_cellAt hn1, hp, if_true]
    exact e2
  · rw [v2, v1]
    funext j
    simp only [vdelAll, vdel, List.mem_cons]
    by_cases h1 : j = n
    · simp [h1]
    · simp [h1]

/-- The forest after a whole top (with its sub-tree) was destroyed. -/
theorem Forest.after_destroy {s s' : St} {G : BT} (hF : Forest s G) {n : Nat} (hn : n ∈ G.tops)
    (hv : s'.cellAt = vdelAll s.cellAt (n :: (BT.chainKids n G).ids))
    (hr : ∀ r, s'.root = some r → s.root = some r ∧ r ≠ n) :
    Forest s' (BT.chainRemove n G) := by
  refine ⟨?_, BT.nodup_chainRemove n G hF.nodup, ?_, ?_⟩
  · apply Loc.mono _ none none _ (Loc.top_remove _ n G none hF.m)
    intro i hi par prv f nn l
    have hmem := (BT.mem_chainRemove n G i hF.nodup hn).mp hi
    apply LinkF.congr _ l
    rw [hv]; simp only [vdelAll, List.mem_cons, hmem.2.1, hmem.2.2, or_self, if_false]
  · intro i c hc
    rw [hv] at hc
    simp only [vdelAll, List.mem_cons] at hc
    by_cases h : i = n ∨ i ∈ (BT.chainKids n G).ids
    · simp [h] at hc
    · simp only [h, if_false] at hc
      have h' := not_or.mp h
      exact (BT.mem_chainRemove n G i hF.nodup hn).mpr ⟨hF.cover i c hc, h'.1, h'.2⟩
  · intro r hr'
    obtain ⟨h1, h2⟩ := hr r hr'
    exact BT.tops_chainRemove n G r (hF.root r h1) h2

end Wbxml.Model.TreeHeap
