/-
  Lemmas about the XML printer model (`Model/EncXml.lean`) and the WBXML-side tree builder
  (`Model/Tree.lean`) used by `Props/C05.lean`:
    * a small reader for runs of CDATA sections (XML 1.0 §2.7) and `readIn (cdataText s ++ "]]>") = s`;
    * text children: what `xml_encode_text` appends is independent of the output so far and of
      compact / indented generation; explicit bytes of `xml_encode_tag` and of the attribute list;
    * the tree builder never puts a CDATA frame directly on a CDATA frame.
-/
import Wbxml.Model.EncXml
import Wbxml.Spec.XmlText
namespace Wbxml.Lemmas.XmlPrint
open Wbxml Wbxml.Model Wbxml.Spec

/-! ### Reading CDATA sections back -/

/-- Inside a CDATA section: bytes up to the first `]]>` are content; the section may be followed
    immediately by another one (`<![CDATA[`), whose content is appended; anything else is refused. -/
def readIn : Bytes → Option Bytes
  | 93 :: 93 :: 62 :: r =>
    match r with
    | [] => some []
    | 60 :: 33 :: 91 :: 67 :: 68 :: 65 :: 84 :: 65 :: 91 :: r' => readIn r'
    | _ => none
  | b :: r => (readIn r).map (b :: ·)
  | [] => none

/-- A run of adjacent CDATA sections, read as XML 1.0 §2.7 says: the character data they denote. -/
def readCdata : Bytes → Option Bytes
  | 60 :: 33 :: 91 :: 67 :: 68 :: 65 :: 84 :: 65 :: 91 :: r => readIn r
  | _ => none

theorem cdataText_head (s t : Bytes) : (cdataText s ++ t).head? = (s ++ t).head? := by
  fun_cases cdataText s <;> simp_all

theorem cdataText_93_62 (r x : Bytes) (h : cdataText r ++ [93, 93, 62] = 93 :: 62 :: x) :
    ∃ y, r = 93 :: 62 :: y := by
  revert h
  fun_cases cdataText r <;> intro h
  · simp at h
  · rename_i b r' hne
    simp only [List.cons_append, List.cons.injEq] at h
    obtain ⟨rfl, h2⟩ := h
    have hh := cdataText_head r' [93, 93, 62]
    rw [h2] at hh
    cases r' with
    | nil => simp at hh
    | cons c r'' =>
      simp only [List.head?_cons, List.cons_append, Option.some.injEq] at hh
      exact ⟨r'', by rw [hh]⟩
  · simp at h

theorem readIn_cdataText (s : Bytes) : readIn (cdataText s ++ [93, 93, 62]) = some s := by
  fun_induction cdataText s with
  | case1 r ih =>
    show readIn (93 :: 93 :: 93 :: 93 :: 62 :: 60 :: 33 :: 91 :: 67 :: 68 :: 65 :: 84 :: 65 :: 91 :: 62 :: (cdataText r ++ [93, 93, 62])) = _
    rw [readIn.eq_4 _ _ (by intro r1 _ h; simp at h), readIn.eq_4 _ _ (by intro r1 _ h; simp at h), readIn.eq_2,
      readIn.eq_4 _ _ (by intro r1 h; simp at h), ih]
    rfl
  | case2 b r hne ih =>
    show readIn (b :: (cdataText r ++ [93, 93, 62])) = _
    rw [readIn.eq_4, ih]
    · rfl
    · intro x hb hx
      obtain ⟨y, hy⟩ := cdataText_93_62 r x hx
      exact hne y hb hy
  | case3 => rfl


/-! ### Text-only elements -/

def allText : List Node → Bool
  | [] => true
  | .text _ :: r => allText r
  | _ => false

theorem allText_noElt (kids : List Node) (h : allText kids = true) : haveChildElt kids = false := by
  induction kids with
  | nil => rfl
  | cons k r ih =>
    cases k <;> simp_all [allText, haveChildElt]

/-- `xml_encode_text` appends to the output and looks at nothing of it. -/
theorem xmlText_out (c : XCfg) (s : Bytes) (st : XSt) (o : Bytes) :
    xmlText c s { st with out := o } =
      (xmlText c s st).map (fun r => { r with out := o ++ r.out.drop st.out.length }) := by
  unfold xmlText
  simp only []
  repeat' split
  all_goals simp [Except.map]

theorem xmlText_prefix (c : XCfg) (s : Bytes) (st r : XSt) (h : xmlText c s st = .ok r) :
    ∃ x, r.out = st.out ++ x := by
  unfold xmlText at h
  simp only [] at h
  repeat' split at h
  all_goals first
    | (simp only [Except.ok.injEq] at h; subst h; exact ⟨_, rfl⟩)
    | (simp only [Except.ok.injEq] at h; subst h; exact ⟨[], by simp⟩)
    | (cases h; done)

theorem xmlText_piece (c : XCfg) (s : Bytes) (st r : XSt) (h : xmlText c s st = .ok r) :
    ∃ x, r.out = st.out ++ x ∧ ∀ o, xmlText c s { st with out := o } = .ok { r with out := o ++ x } := by
  obtain ⟨x, hx⟩ := xmlText_prefix c s st r h
  refine ⟨x, hx, ?_⟩
  intro o
  rw [xmlText_out, h]
  simp [Except.map, hx]

theorem xmlText_gen (c : XCfg) (s : Bytes) (st : XSt) :
    xmlText { c with gen := 1 } s st = xmlText { c with gen := 0 } s st := by
  simp [xmlText]

theorem xmlNode_text (c : XCfg) (p : Parent) (f : Nat) (s : Bytes) (st : XSt) :
    xmlNode c p (f + 1) (.text s) st = (xmlText c s st).map (fun r => { r with curTag := none }) := by
  simp only [xmlNode, bind, Except.bind, pure, Except.pure, Except.map]

/-- A run of text children: what it appends does not depend on the output so far nor on
    compact / indented generation. -/
theorem xmlNodes_texts (c : XCfg) (p : Parent) (kids : List Node) (hk : allText kids = true) :
    ∀ (f : Nat) (st r : XSt), xmlNodes { c with gen := 1 } p f kids st = .ok r →
      ∃ x, r.out = st.out ++ x ∧
        ∀ o, xmlNodes { c with gen := 0 } p f kids { st with out := o } = .ok { r with out := o ++ x } := by
  induction kids with
  | nil =>
    intro f st r h
    cases f with
    | zero => simp [xmlNodes] at h
    | succ f =>
      simp only [xmlNodes, Except.ok.injEq] at h
      subst h
      exact ⟨[], by simp, fun o => by simp [xmlNodes]⟩
  | cons k rest ih =>
    intro f st r h
    cases k with
    | text s =>
      cases f with
      | zero => simp [xmlNodes] at h
      | succ f =>
        simp only [xmlNodes, bind, Except.bind] at h
        cases f with
        | zero => simp [xmlNode] at h
        | succ f =>
          rw [xmlNode_text, xmlText_gen] at h
          cases h1 : xmlText { c with gen := 0 } s st with
          | error e => rw [h1] at h; simp [Except.map] at h
          | ok r1 =>
            rw [h1] at h
            simp only [Except.map] at h
            obtain ⟨x1, hx1, hp1⟩ := xmlText_piece _ s st r1 h1
            obtain ⟨x2, hx2, hp2⟩ := ih (by simpa [allText] using hk) (f + 1) _ r h
            refine ⟨x1 ++ x2, by rw [hx2]; simp [hx1], ?_⟩
            intro o
            simp only [xmlNodes, bind, Except.bind, xmlNode_text, hp1 o, Except.map]
            have := hp2 (o ++ x1)
            simp only [List.append_assoc] at this ⊢
            exact this
    | _ => simp [allText] at hk

theorem xmlTag_gen (c : XCfg) (parent : Parent) (name : Name) (st : XSt) (g : Nat) :
    xmlTag { c with gen := g } parent name st =
      { xmlTag { c with gen := 0 } parent name { st with out := [] } with
        out := st.out ++ (if g == 1 then spaces (st.indent.toNat * c.delta.toNat) else []) ++
          (xmlTag { c with gen := 0 } parent name { st with out := [] }).out } := by
  unfold xmlTag
  simp only []
  split <;> split <;> simp

/-- ` name="escaped value"` -/
def attrBytes (canonical : Bool) (a : Attr) : Bytes :=
  [32] ++ cstrOf a.name.xmlName ++ b!"=\"" ++ xmlEscape canonical (cstrOf a.value) ++ [34]

theorem xmlAttrs_out (c : XCfg) (attrs : List Attr) (st : XSt) :
    attrs.foldl (fun st a => xmlAttr c a st) st =
      { st with out := st.out ++ attrs.flatMap (attrBytes (c.gen == 2)) } := by
  induction attrs generalizing st with
  | nil => simp
  | cons a rest ih =>
    simp only [List.foldl_cons, List.flatMap_cons]
    rw [ih]
    simp [xmlAttr, attrBytes]

/-- The namespace declaration `xml_encode_tag` adds (empty when none). -/
def nsDecl (c : XCfg) (parent : Parent) (name : Name) : Bytes :=
  let nsPage : Option Nat :=
    match c.lang.ns, name, parent with
    | some _, .token r, .none => some r.page
    | some _, .token r, .elt (.token pr) => if pr.page != r.page then some r.page else none
    | _, _, _ => none
  match nsPage, c.lang.ns with
  | some p, some ns => (match nsOfPageX ns p with
    | some n => b!" xmlns=\"" ++ n ++ [34]
    | none => [])
  | _, _ => []

def tagOf : Name → Option TagRow
  | .token r => some r
  | .literal _ => none

theorem xmlTag_out (c : XCfg) (parent : Parent) (name : Name) (st : XSt) :
    xmlTag c parent name st =
      { st with curTag := tagOf name,
                out := st.out ++ (if c.gen == 1 then spaces (st.indent.toNat * c.delta.toNat) else []) ++
                  [60] ++ name.xmlName ++ nsDecl c parent name } := by
  cases hns : c.lang.ns with
  | none => cases name <;> cases parent <;> simp [xmlTag, nsDecl, tagOf, hns]
  | some ns =>
    cases name with
    | literal s => cases parent <;> simp [xmlTag, nsDecl, tagOf, hns]
    | token r =>
      cases parent with
      | none =>
        simp only [xmlTag, nsDecl, tagOf, hns]
        cases nsOfPageX ns r.page <;> simp
      | other => simp [xmlTag, nsDecl, tagOf, hns]
      | elt pn =>
        cases pn with
        | literal s => simp [xmlTag, nsDecl, tagOf, hns]
        | token pr =>
          simp only [xmlTag, nsDecl, tagOf, hns]
          by_cases hp : (pr.page != r.page) = true
          · simp only [hp, ↓reduceIte]
            cases nsOfPageX ns r.page <;> simp
          · simp [hp]


/-! ### The tree builder and CDATA frames -/

def isCdataKind : FrameKind → Bool
  | .cdata => true
  | _ => false

/-- No CDATA frame sits directly on a CDATA frame. -/
def kindsOk : List FrameKind → Bool
  | a :: b :: rest => !(isCdataKind a && isCdataKind b) && kindsOk (b :: rest)
  | _ => true

def stackOk (b : BState) : Bool := kindsOk (b.stack.map (·.kind))

theorem attach_kinds (b : BState) (n : Node) : (b.attach n).stack.map (·.kind) = b.stack.map (·.kind) := by
  unfold BState.attach
  split
  · rename_i f rest h; simp [h]
  · split <;> simp_all

theorem kindsOk_tail (a : FrameKind) (l : List FrameKind) (h : kindsOk (a :: l) = true) : kindsOk l = true := by
  cases l with
  | nil => rfl
  | cons b r => simp only [kindsOk, Bool.and_eq_true] at h; exact h.2

theorem kindsOk_push_elt (n : Name) (a : List Attr) (l : List FrameKind) (h : kindsOk l = true) :
    kindsOk (.elt n a :: l) = true := by
  cases l with
  | nil => rfl
  | cons b r => simp [kindsOk, isCdataKind, h]

theorem buildStep_stackOk (main : List Lang) (emb : Nat → Bytes → Option Tree) (b : BState) (e : Event)
    (h : stackOk b = true) : stackOk (buildStep main emb b e) = true := by
  unfold stackOk at h ⊢
  unfold buildStep
  split
  · exact h
  · cases e with
    | startDoc cs l => exact h
    | endDoc => exact h
    | pi t d => exact h
    | startElt n attrs =>
      simp only
      split
      · exact h
      · simp only [List.map_cons]; exact kindsOk_push_elt _ _ _ h
    | endElt n =>
      simp only
      split
      · exact h
      · rename_i f rest hs
        rw [hs] at h
        simp only [List.map_cons] at h
        split
        · split
          · rename_i g rest' 
            simp only [attach_kinds]
            exact kindsOk_tail _ _ (kindsOk_tail _ _ h)
          · exact (by rw [hs]; simpa using h)
        · simp only [attach_kinds]; exact kindsOk_tail _ _ h
    | chars s =>
      simp only
      split
      · split <;> simp only [attach_kinds] <;> exact h
      · simp only [attach_kinds]; exact h
      · split
        · rename_i f rest hs
          split
          · simp only [attach_kinds]; exact h
          · rename_i hk
            simp only [attach_kinds, List.map_cons]
            rw [hs] at h ⊢
            simp only [List.map_cons, kindsOk, Bool.and_eq_true, Bool.not_eq_true', Bool.and_eq_false_iff]
            refine ⟨Or.inr ?_, h⟩
            cases hf : f.kind with
            | cdata => exact absurd hf (by simpa using hk)
            | elt n a => rfl
        · simp only [attach_kinds]; exact h

end Wbxml.Lemmas.XmlPrint
