/-
  Lemmas about the XML printer model (`Model/EncXml.lean`) and the WBXML-side tree builder
  (`Model/Tree.lean`) used by `Props/C05.lean`:
    * a small reader for runs of CDATA sections (XML 1.0 §2.7) and `readIn (cdataText s ++ "]]>") = s`;
    * text children: what `xml_encode_text` appends is independent of the output so far and of
      compact / indented generation; explicit bytes of `xml_encode_tag` and of the attribute list;
    * the tree builder never puts a CDATA frame directly on a CDATA frame (`stackOk`);
    * since fix eb6f4c7 (`wbxml_tree_clb_wbxml_start_element` leaves a current CDATA node first): a CDATA
      frame is only ever the top of the stack, on an element frame (`cdataOnlyOnTop`), and no CDATA
      node of the built tree has an element or CDATA child (`Node.noMarkupInCdata`, `CdInv`,
      `treeOfWbxml_noMarkup`).
-/
import Wbxml.Model.EncXml
import Wbxml.Spec.XmlText
namespace Wbxml.Lemmas.XmlPrint
open Wbxml Wbxml.Model Wbxml.Spec

/-! ### Reading CDATA sections back -/

/-- Inside a CDATA section: bytes up to the first `]]>` are content; the section may be followed
    immediately by another one (`<![CDATA[`), whose content is appended; anything else is refused. -/
def readIn : Bytes → Option Bytes
  | 93 :: 93 :: 62 :: r =>
    match r with
    | [] => some []
    | 60 :: 33 :: 91 :: 67 :: 68 :: 65 :: 84 :: 65 :: 91 :: r' => readIn r'
    | _ => none
  | b :: r => (readIn r).map (b :: ·)
  | [] => none

/-- A run of adjacent CDATA sections, read as XML 1.0 §2.7 says: the character data they denote. -/
def readCdata : Bytes → Option Bytes
  | 60 :: 33 :: 91 :: 67 :: 68 :: 65 :: 84 :: 65 :: 91 :: r => readIn r
  | _ => none

theorem cdataText_head (s t : Bytes) : (cdataText s ++ t).head? = (s ++ t).head? := by
  fun_cases cdataText s <;> simp_all

theorem cdataText_93_62 (r x : Bytes) (h : cdataText r ++ [93, 93, 62] = 93 :: 62 :: x) :
    ∃ y, r = 93 :: 62 :: y := by
  revert h
  fun_cases cdataText r <;> intro h
  · simp at h
  · rename_i b r' hne
    simp only [List.cons_append, List.cons.injEq] at h
    obtain ⟨rfl, h2⟩ := h
    have hh := cdataText_head r' [93, 93, 62]
    rw [h2] at hh
    cases r' with
    | nil => simp at hh
    | cons c r'' =>
      simp only [List.head?_cons, List.cons_append, Option.some.injEq] at hh
      exact ⟨r'', by rw [hh]⟩
  · simp at h

theorem readIn_cdataText (s : Bytes) : readIn (cdataText s ++ [93, 93, 62]) = some s := by
  fun_induction cdataText s with
  | case1 r ih =>
    show readIn (93 :: 93 :: 93 :: 93 :: 62 :: 60 :: 33 :: 91 :: 67 :: 68 :: 65 :: 84 :: 65 :: 91 :: 62 :: (cdataText r ++ [93, 93, 62])) = _
    rw [readIn.eq_4 _ _ (by intro r1 _ h; simp at h), readIn.eq_4 _ _ (by intro r1 _ h; simp at h), readIn.eq_2,
      readIn.eq_4 _ _ (by intro r1 h; simp at h), ih]
    rfl
  | case2 b r hne ih =>
    show readIn (b :: (cdataText r ++ [93, 93, 62])) = _
    rw [readIn.eq_4, ih]
    · rfl
    · intro x hb hx
      obtain ⟨y, hy⟩ := cdataText_93_62 r x hx
      exact hne y hb hy
  | case3 => rfl


/-! ### Text-only elements -/

def allText : List Node → Bool
  | [] => true
  | .text _ :: r => allText r
  | _ => false

theorem allText_noElt (kids : List Node) (h : allText kids = true) : haveChildElt kids = false := by
  induction kids with
  | nil => rfl
  | cons k r ih =>
    cases k <;> simp_all [allText, haveChildElt]

/-- `xml_encode_text` appends to the output and looks at nothing of it. -/
theorem xmlText_out (c : XCfg) (s : Bytes) (st : XSt) (o : Bytes) :
    xmlText c s { st with out := o } =
      (xmlText c s st).map (fun r => { r with out := o ++ r.out.drop st.out.length }) := by
  unfold xmlText
  simp only []
  repeat' split
  all_goals simp [Except.map]

theorem xmlText_prefix (c : XCfg) (s : Bytes) (st r : XSt) (h : xmlText c s st = .ok r) :
    ∃ x, r.out = st.out ++ x := by
  unfold xmlText at h
  simp only [] at h
  repeat' split at h
  all_goals first
    | (simp only [Except.ok.injEq] at h; subst h; exact ⟨_, rfl⟩)
    | (simp only [Except.ok.injEq] at h; subst h; exact ⟨[], by simp⟩)
    | (cases h; done)

theorem xmlText_piece (c : XCfg) (s : Bytes) (st r : XSt) (h : xmlText c s st = .ok r) :
    ∃ x, r.out = st.out ++ x ∧ ∀ o, xmlText c s { st with out := o } = .ok { r with out := o ++ x } := by
  obtain ⟨x, hx⟩ := xmlText_prefix c s st r h
  refine ⟨x, hx, ?_⟩
  intro o
  rw [xmlText_out, h]
  simp [Except.map, hx]

theorem xmlText_gen (c : XCfg) (s : Bytes) (st : XSt) :
    xmlText { c with gen := 1 } s st = xmlText { c with gen := 0 } s st := by
  simp [xmlText]

theorem xmlNode_text (c : XCfg) (p : Parent) (f : Nat) (s : Bytes) (st : XSt) :
    xmlNode c p (f + 1) (.text s) st = (xmlText c s st).map (fun r => { r with curTag := none }) := by
  simp only [xmlNode, bind, Except.bind, pure, Except.pure, Except.map]

/-- A run of text children: what it appends does not depend on the output so far nor on
    compact / indented generation. -/
theorem xmlNodes_texts (c : XCfg) (p : Parent) (kids : List Node) (hk : allText kids = true) :
    ∀ (f : Nat) (st r : XSt), xmlNodes { c with gen := 1 } p f kids st = .ok r →
      ∃ x, r.out = st.out ++ x ∧
        ∀ o, xmlNodes { c with gen := 0 } p f kids { st with out := o } = .ok { r with out := o ++ x } := by
  induction kids with
  | nil =>
    intro f st r h
    cases f with
    | zero => simp [xmlNodes] at h
    | succ f =>
      simp only [xmlNodes, Except.ok.injEq] at h
      subst h
      exact ⟨[], by simp, fun o => by simp [xmlNodes]⟩
  | cons k rest ih =>
    intro f st r h
    cases k with
    | text s =>
      cases f with
      | zero => simp [xmlNodes] at h
      | succ f =>
        simp only [xmlNodes, bind, Except.bind] at h
        cases f with
        | zero => simp [xmlNode] at h
        | succ f =>
          rw [xmlNode_text, xmlText_gen] at h
          cases h1 : xmlText { c with gen := 0 } s st with
          | error e => rw [h1] at h; simp [Except.map] at h
          | ok r1 =>
            rw [h1] at h
            simp only [Except.map] at h
            obtain ⟨x1, hx1, hp1⟩ := xmlText_piece _ s st r1 h1
            obtain ⟨x2, hx2, hp2⟩ := ih (by simpa [allText] using hk) (f + 1) _ r h
            refine ⟨x1 ++ x2, by rw [hx2]; simp [hx1], ?_⟩
            intro o
            simp only [xmlNodes, bind, Except.bind, xmlNode_text, hp1 o, Except.map]
            have := hp2 (o ++ x1)
            simp only [List.append_assoc] at this ⊢
            exact this
    | _ => simp [allText] at hk

theorem xmlTag_gen (c : XCfg) (parent : Parent) (name : Name) (st : XSt) (g : Nat) :
    xmlTag { c with gen := g } parent name st =
      { xmlTag { c with gen := 0 } parent name { st with out := [] } with
        out := st.out ++ (if g == 1 then spaces (st.indent.toNat * c.delta.toNat) else []) ++
          (xmlTag { c with gen := 0 } parent name { st with out := [] }).out } := by
  unfold xmlTag
  simp only []
  split <;> split <;> simp

/-- ` name="escaped value"` -/
def attrBytes (canonical : Bool) (a : Attr) : Bytes :=
  [32] ++ cstrOf a.name.xmlName ++ b!"=\"" ++ xmlEscape canonical (cstrOf a.value) ++ [34]

theorem xmlAttrs_out (c : XCfg) (attrs : List Attr) (st : XSt) :
    attrs.foldl (fun st a => xmlAttr c a st) st =
      { st with out := st.out ++ attrs.flatMap (attrBytes (c.gen == 2)) } := by
  induction attrs generalizing st with
  | nil => simp
  | cons a rest ih =>
    simp only [List.foldl_cons, List.flatMap_cons]
    rw [ih]
    simp [xmlAttr, attrBytes]

/-- The namespace declaration `xml_encode_tag` adds (empty when none). -/
def nsDecl (c : XCfg) (parent : Parent) (name : Name) : Bytes :=
  let nsPage : Option Nat :=
    match c.lang.ns, name, parent with
    | some _, .token r, .none => some r.page
    | some _, .token r, .elt (.token pr) => if pr.page != r.page then some r.page else none
    | _, _, _ => none
  match nsPage, c.lang.ns with
  | some p, some ns => (match nsOfPageX ns p with
    | some n => b!" xmlns=\"" ++ n ++ [34]
    | none => [])
  | _, _ => []

def tagOf : Name → Option TagRow
  | .token r => some r
  | .literal _ => none

theorem xmlTag_out (c : XCfg) (parent : Parent) (name : Name) (st : XSt) :
    xmlTag c parent name st =
      { st with curTag := tagOf name,
                out := st.out ++ (if c.gen == 1 then spaces (st.indent.toNat * c.delta.toNat) else []) ++
                  [60] ++ name.xmlName ++ nsDecl c parent name } := by
  cases hns : c.lang.ns with
  | none => cases name <;> cases parent <;> simp [xmlTag, nsDecl, tagOf, hns]
  | some ns =>
    cases name with
    | literal s => cases parent <;> simp [xmlTag, nsDecl, tagOf, hns]
    | token r =>
      cases parent with
      | none =>
        simp only [xmlTag, nsDecl, tagOf, hns]
        cases nsOfPageX ns r.page <;> simp
      | other => simp [xmlTag, nsDecl, tagOf, hns]
      | elt pn =>
        cases pn with
        | literal s => simp [xmlTag, nsDecl, tagOf, hns]
        | token pr =>
          simp only [xmlTag, nsDecl, tagOf, hns]
          by_cases hp : (pr.page != r.page) = true
          · simp only [hp, ↓reduceIte]
            cases nsOfPageX ns r.page <;> simp
          · simp [hp]


/-! ### The tree builder and CDATA frames -/

def isCdataKind : FrameKind → Bool
  | .cdata => true
  | _ => false

/-- No CDATA frame sits directly on a CDATA frame. -/
def kindsOk : List FrameKind → Bool
  | a :: b :: rest => !(isCdataKind a && isCdataKind b) && kindsOk (b :: rest)
  | _ => true

def stackOk (b : BState) : Bool := kindsOk (b.stack.map (·.kind))

/-- Only element frames. -/
def allEltKinds (l : List FrameKind) : Bool := l.all (fun k => !isCdataKind k)

/-- A CDATA frame occurs only as the top of the stack (innermost first), and then the frames
    below it are element frames, at least one. -/
def cdataTopKinds : List FrameKind → Bool
  | [] => true
  | .elt _ _ :: r => allEltKinds r
  | .cdata :: r => !r.isEmpty && allEltKinds r

/-- Every CDATA frame is the top of the stack and sits on an element frame; everything below the
    top is an element frame. -/
def cdataOnlyOnTop (b : BState) : Bool := cdataTopKinds (b.stack.map (·.kind))

/-- The frame kinds after `BState.leaveCdata`. -/
def leaveKinds : List FrameKind → List FrameKind
  | .cdata :: g :: rest => g :: rest
  | l => l

theorem attach_kinds (b : BState) (n : Node) : (b.attach n).stack.map (·.kind) = b.stack.map (·.kind) := by
  unfold BState.attach
  split
  · rename_i f rest h; simp [h]
  · split <;> simp_all

theorem leaveCdata_kinds (b : BState) :
    b.leaveCdata.stack.map (·.kind) = leaveKinds (b.stack.map (·.kind)) := by
  unfold BState.leaveCdata
  split
  · rename_i f g rest hs
    split
    · rename_i hk; simp [hs, hk, leaveKinds]
    · rename_i n a hk; simp [hs, hk, leaveKinds]
  · rename_i hne
    cases hs : b.stack with
    | nil => rfl
    | cons f r =>
      cases r with
      | nil => cases hk : f.kind <;> simp [hk, leaveKinds]
      | cons g r' => exact absurd hs (hne f g r')

theorem kindsOk_tail (a : FrameKind) (l : List FrameKind) (h : kindsOk (a :: l) = true) : kindsOk l = true := by
  cases l with
  | nil => rfl
  | cons b r => simp only [kindsOk, Bool.and_eq_true] at h; exact h.2

theorem kindsOk_push_elt (n : Name) (a : List Attr) (l : List FrameKind) (h : kindsOk l = true) :
    kindsOk (.elt n a :: l) = true := by
  cases l with
  | nil => rfl
  | cons b r => simp [kindsOk, isCdataKind, h]

theorem kindsOk_leave (l : List FrameKind) (h : kindsOk l = true) : kindsOk (leaveKinds l) = true := by
  fun_cases leaveKinds l
  · exact kindsOk_tail _ _ h
  · exact h

theorem buildStep_stackOk (main : List Lang) (emb : Nat → Bytes → Option Tree) (b : BState) (e : Event)
    (h : stackOk b = true) : stackOk (buildStep main emb b e) = true := by
  unfold stackOk at h ⊢
  unfold buildStep
  split
  · exact h
  · cases e with
    | startDoc cs l => exact h
    | endDoc => exact h
    | pi t d => exact h
    | startElt n attrs =>
      have hl : kindsOk (b.leaveCdata.stack.map (·.kind)) = true := by
        rw [leaveCdata_kinds]; exact kindsOk_leave _ h
      simp only
      split
      · exact hl
      · simp only [List.map_cons]; exact kindsOk_push_elt _ _ _ hl
    | endElt n =>
      simp only
      split
      · exact h
      · rename_i f rest hs
        rw [hs] at h
        simp only [List.map_cons] at h
        split
        · split
          · rename_i g rest' 
            simp only [attach_kinds]
            exact kindsOk_tail _ _ (kindsOk_tail _ _ h)
          · exact (by rw [hs]; simpa using h)
        · simp only [attach_kinds]; exact kindsOk_tail _ _ h
    | chars s =>
      simp only
      split
      · split <;> simp only [attach_kinds] <;> exact h
      · simp only [attach_kinds]; exact h
      · split
        · rename_i f rest hs
          split
          · simp only [attach_kinds]; exact h
          · rename_i hk
            simp only [attach_kinds, List.map_cons]
            rw [hs] at h ⊢
            simp only [List.map_cons, kindsOk, Bool.and_eq_true, Bool.not_eq_true', Bool.and_eq_false_iff]
            refine ⟨Or.inr ?_, h⟩
            cases hf : f.kind with
            | cdata => exact absurd hf (by simpa using hk)
            | elt n a => rfl
        · simp only [attach_kinds]; exact h

/-! #### A CDATA frame is always the top of the stack (after fix eb6f4c7) -/

theorem allElt_cdataTop (l : List FrameKind) (h : allEltKinds l = true) : cdataTopKinds l = true := by
  cases l with
  | nil => rfl
  | cons k r =>
    cases k with
    | elt n a => simpa [cdataTopKinds, allEltKinds, isCdataKind] using h
    | cdata => simp [allEltKinds, isCdataKind] at h

/-- Whatever the top frame is, the frames below it are element frames. -/
theorem cdataTop_tail (k : FrameKind) (r : List FrameKind) (h : cdataTopKinds (k :: r) = true) :
    allEltKinds r = true := by
  cases k with
  | elt n a => exact h
  | cdata => simp only [cdataTopKinds, Bool.and_eq_true] at h; exact h.2

theorem cdataTop_leave (l : List FrameKind) (h : cdataTopKinds l = true) : allEltKinds (leaveKinds l) = true := by
  fun_cases leaveKinds l
  · exact cdataTop_tail _ _ h
  · rename_i hne
    cases l with
    | nil => rfl
    | cons k r =>
      cases k with
      | elt n a => simpa [cdataTopKinds, allEltKinds, isCdataKind] using h
      | cdata =>
        cases r with
        | nil => simp [cdataTopKinds] at h
        | cons g r' => exact absurd rfl (hne g r')

theorem cdataTop_push_cdata (k : FrameKind) (r : List FrameKind) (hk : isCdataKind k = false)
    (h : cdataTopKinds (k :: r) = true) : cdataTopKinds (.cdata :: k :: r) = true := by
  have ht := cdataTop_tail k r h
  simp only [cdataTopKinds, allEltKinds, List.all_cons, hk, List.isEmpty_cons] 
  simpa [allEltKinds] using ht

theorem leaveCdata_allElt (b : BState) (h : cdataOnlyOnTop b = true) :
    allEltKinds (b.leaveCdata.stack.map (·.kind)) = true := by
  rw [leaveCdata_kinds]; exact cdataTop_leave _ h

theorem buildStep_cdataOnlyOnTop (main : List Lang) (emb : Nat → Bytes → Option Tree) (b : BState) (e : Event)
    (h : cdataOnlyOnTop b = true) : cdataOnlyOnTop (buildStep main emb b e) = true := by
  unfold cdataOnlyOnTop at h ⊢
  unfold buildStep
  split
  · exact h
  · cases e with
    | startDoc cs l => exact h
    | endDoc => exact h
    | pi t d => exact h
    | startElt n attrs =>
      have hl := leaveCdata_allElt b h
      simp only
      split
      · exact allElt_cdataTop _ hl
      · simp only [List.map_cons]; exact hl
    | endElt n =>
      simp only
      split
      · exact h
      · rename_i f rest hs
        rw [hs] at h
        simp only [List.map_cons] at h
        split
        · split
          · rename_i g rest'
            simp only [attach_kinds]
            exact allElt_cdataTop _ (cdataTop_tail _ _ (allElt_cdataTop _ (cdataTop_tail _ _ h)))
          · exact (by rw [hs]; simpa using h)
        · simp only [attach_kinds]; exact allElt_cdataTop _ (cdataTop_tail _ _ h)
    | chars s =>
      simp only
      split
      · split <;> simp only [attach_kinds] <;> exact h
      · simp only [attach_kinds]; exact h
      · split
        · rename_i f rest hs
          split
          · simp only [attach_kinds]; exact h
          · rename_i hk
            simp only [attach_kinds, List.map_cons]
            rw [hs] at h ⊢
            simp only [List.map_cons] at h ⊢
            refine cdataTop_push_cdata _ _ ?_ h
            cases hf : f.kind with
            | cdata => exact absurd hf (by simpa using hk)
            | elt n a => rfl
        · simp only [attach_kinds]; exact h

theorem foldl_cdataOnlyOnTop (main : List Lang) (emb : Nat → Bytes → Option Tree) (events : List Event) :
    ∀ (b : BState), cdataOnlyOnTop b = true → cdataOnlyOnTop (events.foldl (buildStep main emb) b) = true := by
  induction events with
  | nil => intro b h; exact h
  | cons e rest ih => intro b h; exact ih _ (buildStep_cdataOnlyOnTop main emb b e h)

/-- What `cdataOnlyOnTop` says, frame by frame. -/
theorem cdataOnlyOnTop_iff (b : BState) :
    cdataOnlyOnTop b = true ↔
      (∀ f ∈ b.stack.tail, isCdataKind f.kind = false) ∧ (∀ f, b.stack = [f] → isCdataKind f.kind = false) := by
  unfold cdataOnlyOnTop
  cases hs : b.stack with
  | nil => simp [cdataTopKinds]
  | cons f r =>
    cases hk : f.kind with
    | elt n a =>
      simp only [List.map_cons, hk, cdataTopKinds, allEltKinds, List.all_map, List.all_eq_true, List.tail_cons,
        List.cons.injEq]
      constructor
      · intro h
        refine ⟨fun g hg => by simpa using h g hg, ?_⟩
        rintro g ⟨rfl, _⟩; simp [hk, isCdataKind]
      · intro h g hg; simpa using h.1 g hg
    | cdata =>
      simp only [List.map_cons, hk, cdataTopKinds, allEltKinds, List.all_map, Bool.and_eq_true, List.all_eq_true,
        List.tail_cons, List.cons.injEq]
      constructor
      · rintro ⟨hne, h⟩
        refine ⟨fun g hg => by simpa using h g hg, ?_⟩
        rintro g ⟨rfl, hr⟩
        subst hr; simp at hne
      · intro h
        refine ⟨?_, fun g hg => by simpa using h.1 g hg⟩
        cases r with
        | nil => have := h.2 f ⟨rfl, rfl⟩; simp [hk, isCdataKind] at this
        | cons g r' => simp

/-- At most one open CDATA section at any time. -/
theorem cdataOnlyOnTop_count (b : BState) (h : cdataOnlyOnTop b = true) :
    (b.stack.filter (fun f => isCdataKind f.kind)).length ≤ 1 := by
  have hz : ∀ (l : List Frame), allEltKinds (l.map (·.kind)) = true →
      l.filter (fun f => isCdataKind f.kind) = [] := by
    intro l hl
    simp only [allEltKinds, List.all_map, List.all_eq_true] at hl
    rw [List.filter_eq_nil_iff]
    intro f hf
    simpa using hl f hf
  unfold cdataOnlyOnTop at h
  cases hs : b.stack with
  | nil => simp
  | cons f r =>
    rw [hs] at h
    simp only [List.map_cons] at h
    have := hz r (cdataTop_tail _ _ h)
    rw [List.filter_cons]
    split <;> simp [this]

theorem allElt_kindsOk : ∀ (l : List FrameKind), allEltKinds l = true → kindsOk l = true := by
  intro l
  induction l with
  | nil => intro _; rfl
  | cons a r ih =>
    intro ha
    simp only [allEltKinds, List.all_cons, Bool.and_eq_true, Bool.not_eq_true'] at ha
    cases r with
    | nil => rfl
    | cons c r' =>
      simp only [kindsOk, ha.1, Bool.false_and, Bool.not_false, Bool.true_and]
      exact ih (by simpa [allEltKinds] using ha.2)

/-- `cdataOnlyOnTop` is stronger than `stackOk`. -/
theorem cdataTop_kindsOk (l : List FrameKind) (h : cdataTopKinds l = true) : kindsOk l = true := by
  cases l with
  | nil => rfl
  | cons a r =>
    have hr := cdataTop_tail a r h
    cases r with
    | nil => rfl
    | cons c r' =>
      have hc : isCdataKind c = false := by
        simp only [allEltKinds, List.all_cons, Bool.and_eq_true, Bool.not_eq_true'] at hr
        exact hr.1
      simp only [kindsOk, hc, Bool.and_false, Bool.not_false, Bool.true_and]
      exact allElt_kindsOk _ hr

/-! #### No markup inside CDATA nodes -/

end Wbxml.Lemmas.XmlPrint

namespace Wbxml.Model

/-- Character data: a text node or an embedded document (printed as text of its own). -/
def Node.isCharData : Node → Bool
  | .text _ => true
  | .tree _ _ _ => true
  | _ => false

mutual
/-- No CDATA node anywhere in the sub-tree (embedded documents included) has an element or a
    CDATA node among its children. -/
def Node.noMarkupInCdata : Node → Bool
  | .elt _ _ kids => Node.noMarkupInCdataL kids
  | .text _ => true
  | .cdata kids => kids.all Node.isCharData && Node.noMarkupInCdataL kids
  | .tree _ _ none => true
  | .tree _ _ (some r) => r.noMarkupInCdata
def Node.noMarkupInCdataL : List Node → Bool
  | [] => true
  | n :: r => n.noMarkupInCdata && Node.noMarkupInCdataL r
end

def Tree.noMarkupInCdata (t : Tree) : Bool :=
  match t.root with
  | none => true
  | some r => r.noMarkupInCdata

end Wbxml.Model

namespace Wbxml.Lemmas.XmlPrint
open Wbxml Wbxml.Model Wbxml.Spec

theorem noMarkupInCdataL_eq (l : List Node) : Node.noMarkupInCdataL l = l.all Node.noMarkupInCdata := by
  induction l with
  | nil => rfl
  | cons a r ih => simp [Node.noMarkupInCdataL, ih]

/-- The children of a CDATA node are text nodes and embedded documents. -/
theorem cdata_kids_charData (kids : List Node) (h : (Node.cdata kids).noMarkupInCdata = true) :
    ∀ k ∈ kids, (∃ s, k = .text s) ∨ (∃ l c r, k = .tree l c r) := by
  simp only [Node.noMarkupInCdata, Bool.and_eq_true, List.all_eq_true] at h
  intro k hk
  have := h.1 k hk
  cases k with
  | text s => exact Or.inl ⟨s, rfl⟩
  | tree l c r => exact Or.inr ⟨l, c, r, rfl⟩
  | elt n a ks => simp [Node.isCharData] at this
  | cdata ks => simp [Node.isCharData] at this

/-- An open frame whose children are fine and, for a CDATA frame, character data. -/
def frameOk (f : Frame) : Bool :=
  Node.noMarkupInCdataL f.kids && (!isCdataKind f.kind || f.kids.all Node.isCharData)

theorem close_ok (f : Frame) : f.close.noMarkupInCdata = frameOk f := by
  unfold Frame.close frameOk
  cases hk : f.kind with
  | elt n a => simp [Node.noMarkupInCdata, isCdataKind]
  | cdata => simp [Node.noMarkupInCdata, isCdataKind, Bool.and_comm]

theorem addKid_all (p : Node → Bool) (hp : ∀ s, p (.text s) = true) (kids : List Node) (n : Node)
    (hk : kids.all p = true) (hn : p n = true) : (addKid kids n).all p = true := by
  unfold addKid
  split
  · simp only [List.all_append, List.all_cons, List.all_nil, hp, Bool.and_true]
    rw [List.all_eq_true] at hk ⊢
    intro x hx
    exact hk x (List.dropLast_subset _ hx)
  · simp [List.all_append, hk, hn]

/-- The invariant of the WBXML tree builder as far as CDATA nodes are concerned. -/
structure CdInv (b : BState) : Prop where
  top : cdataOnlyOnTop b = true
  frames : ∀ f ∈ b.stack, frameOk f = true
  root : ∀ r, b.root = some r → r.noMarkupInCdata = true

theorem cdInv_init : CdInv {} :=
  { top := rfl, frames := fun _ h => absurd h List.not_mem_nil, root := fun _ h => by cases h }

theorem frameOk_addKid (f : Frame) (n : Node) (hf : frameOk f = true) (hn : n.noMarkupInCdata = true)
    (hc : n.isCharData = true ∨ isCdataKind f.kind = false) :
    frameOk { f with kids := addKid f.kids n } = true := by
  simp only [frameOk, Bool.and_eq_true, Bool.or_eq_true, Bool.not_eq_true'] at hf ⊢
  refine ⟨?_, ?_⟩
  · rw [noMarkupInCdataL_eq] at hf ⊢
    exact addKid_all _ (fun _ => rfl) _ _ hf.1 hn
  · rcases hc with hc | hc
    · rcases hf.2 with h2 | h2
      · exact Or.inl h2
      · exact Or.inr (addKid_all _ (fun _ => rfl) _ _ h2 hc)
    · exact Or.inl hc

/-- Attaching a finished node: character data goes anywhere, anything else not into a CDATA frame. -/
theorem attach_cdInv {b : BState} {n : Node} (h : CdInv b) (hn : n.noMarkupInCdata = true)
    (hc : n.isCharData = true ∨ allEltKinds (b.stack.map (·.kind)) = true) : CdInv (b.attach n) := by
  refine ⟨?_, ?_, ?_⟩
  · unfold cdataOnlyOnTop; rw [attach_kinds]; exact h.top
  · unfold BState.attach
    split
    · rename_i f rest hs
      intro g hg
      simp only [List.mem_cons] at hg
      rcases hg with hg | hg
      · rw [hg]
        refine frameOk_addKid f n (h.frames f (by rw [hs]; simp)) hn ?_
        rcases hc with hc | hc
        · exact Or.inl hc
        · rw [hs] at hc
          simp only [List.map_cons, allEltKinds, List.all_cons, Bool.and_eq_true, Bool.not_eq_true'] at hc
          exact Or.inr hc.1
      · exact h.frames g (by rw [hs]; simp [hg])
    · split
      · exact h.frames
      · exact h.frames
  · unfold BState.attach
    split
    · exact h.root
    · split
      · intro r hr
        simp only [Option.some.injEq] at hr
        exact hr ▸ hn
      · exact h.root

/-- Taking the top frame off: the invariant holds below, only element frames remain, and the frame
    closes into a fine node. -/
theorem pop_cdInv {b : BState} {f : Frame} {rest : List Frame} (h : CdInv b) (hs : b.stack = f :: rest) :
    CdInv { b with stack := rest } ∧ allEltKinds (rest.map (·.kind)) = true ∧ f.close.noMarkupInCdata = true := by
  have ht : allEltKinds (rest.map (·.kind)) = true := by
    have := h.top
    unfold cdataOnlyOnTop at this
    rw [hs] at this
    exact cdataTop_tail _ _ this
  refine ⟨⟨allElt_cdataTop _ ht, ?_, h.root⟩, ht, ?_⟩
  · intro g hg
    exact h.frames g (by rw [hs]; exact List.mem_cons_of_mem _ hg)
  · rw [close_ok]; exact h.frames f (by rw [hs]; simp)

theorem popAttach_cdInv {b : BState} {f : Frame} {rest : List Frame} (h : CdInv b) (hs : b.stack = f :: rest) :
    CdInv (({ b with stack := rest } : BState).attach f.close) := by
  obtain ⟨h1, h2, h3⟩ := pop_cdInv h hs
  exact attach_cdInv h1 h3 (Or.inr h2)

theorem leaveCdata_cases (b : BState) :
    b.leaveCdata = b ∨ ∃ f rest, b.stack = f :: rest ∧ b.leaveCdata = ({ b with stack := rest } : BState).attach f.close := by
  unfold BState.leaveCdata
  split
  · rename_i f g rest hs
    split
    · exact Or.inr ⟨f, g :: rest, hs, rfl⟩
    · exact Or.inl rfl
  · exact Or.inl rfl

theorem leaveCdata_cdInv {b : BState} (h : CdInv b) : CdInv b.leaveCdata := by
  rcases leaveCdata_cases b with he | ⟨f, rest, hs, he⟩
  · rw [he]; exact h
  · rw [he]; exact popAttach_cdInv h hs

theorem push_cdInv {b : BState} (h : CdInv b) (k : FrameKind) (hk : cdataTopKinds (k :: b.stack.map (·.kind)) = true) :
    CdInv { b with stack := { kind := k, kids := [] } :: b.stack } := by
  refine ⟨hk, ?_, h.root⟩
  intro g hg
  simp only [List.mem_cons] at hg
  rcases hg with hg | hg
  · rw [hg]; simp [frameOk, Node.noMarkupInCdataL]
  · exact h.frames g hg

/-- What the embedded-document parser hands back has no markup inside CDATA nodes. -/
def EmbOk (emb : Nat → Bytes → Option Tree) : Prop := ∀ cs s t, emb cs s = some t → t.noMarkupInCdata = true

theorem tree_node_ok (t : Tree) (h : t.noMarkupInCdata = true) :
    (Node.tree t.lang t.origCharset t.root).noMarkupInCdata = true := by
  unfold Tree.noMarkupInCdata at h
  cases hr : t.root with
  | none => rfl
  | some r => rw [hr] at h; simpa [Node.noMarkupInCdata] using h

theorem tree_mk_ok (l : Option Lang) (c : Nat) (r : Option Node) (h : ∀ x, r = some x → x.noMarkupInCdata = true) :
    ({ lang := l, origCharset := c, root := r } : Tree).noMarkupInCdata = true := by
  cases r with
  | none => rfl
  | some x => exact h x rfl

theorem buildStep_cdInv (main : List Lang) (emb : Nat → Bytes → Option Tree) (hemb : EmbOk emb) (b : BState)
    (e : Event) (h : CdInv b) : CdInv (buildStep main emb b e) := by
  have htext : ∀ (b' : BState) (s : Bytes), CdInv b' → CdInv (b'.attach (.text s)) :=
    fun b' s h' => attach_cdInv h' rfl (Or.inl rfl)
  unfold buildStep
  split
  · exact h
  · cases e with
    | startDoc cs l => exact ⟨h.top, h.frames, h.root⟩
    | endDoc => exact h
    | pi t d => exact h
    | startElt n attrs =>
      have hl := leaveCdata_cdInv h
      have ha := leaveCdata_allElt b h.top
      simp only
      split
      · exact ⟨hl.top, hl.frames, hl.root⟩
      · exact push_cdInv hl (.elt n attrs) ha
    | endElt n =>
      simp only
      split
      · exact ⟨h.top, h.frames, h.root⟩
      · rename_i f rest hs
        split
        · split
          · rename_i g rest'
            -- leave the CDATA section …
            have h1 : CdInv (({ b with stack := g :: rest' } : BState).attach f.close) := popAttach_cdInv h hs
            -- … then the element
            exact popAttach_cdInv (b := ({ b with stack := g :: rest' } : BState).attach f.close)
              (f := { g with kids := addKid g.kids f.close }) (rest := rest') h1 rfl
          · exact ⟨h.top, h.frames, h.root⟩
        · exact popAttach_cdInv h hs
    | chars s =>
      simp only
      split
      · split
        · rename_i t ht
          exact attach_cdInv h (tree_node_ok t (hemb _ _ _ ht)) (Or.inl rfl)
        · exact htext _ _ h
      · exact htext _ _ h
      · split
        · rename_i f rest hs
          split
          · exact htext _ _ h
          · rename_i hk
            refine htext _ _ (push_cdInv h .cdata ?_)
            have ht := h.top
            unfold cdataOnlyOnTop at ht
            rw [hs] at ht ⊢
            simp only [List.map_cons] at ht ⊢
            refine cdataTop_push_cdata _ _ ?_ ht
            cases hf : f.kind with
            | cdata => exact absurd hf (by simpa using hk)
            | elt n a => rfl
        · exact htext _ _ h

theorem foldl_cdInv (main : List Lang) (emb : Nat → Bytes → Option Tree) (hemb : EmbOk emb) (events : List Event) :
    ∀ (b : BState), CdInv b → CdInv (events.foldl (buildStep main emb) b) := by
  induction events with
  | nil => intro b h; exact h
  | cons e rest ih => intro b h; exact ih _ (buildStep_cdInv main emb hemb b e h)

/-- `wbxml_tree_from_wbxml`: in the tree it returns (embedded documents included) no CDATA node has
    an element or a CDATA node among its children. -/
theorem treeOfWbxml_noMarkup (main : List Lang) : ∀ (f lang cs : Nat) (bs : Bytes) (t : Tree),
    treeOfWbxml main f lang cs bs = .ok t → t.noMarkupInCdata = true
  | 0, _, _, _, _, h => by simp [treeOfWbxml] at h
  | f + 1, lang, cs, bs, t, h => by
    rw [treeOfWbxml] at h
    have hemb : EmbOk (fun (cs : Nat) (bs : Bytes) =>
        match treeOfWbxml main f 0 cs bs with
        | .ok t => some t
        | .error _ => none) := by
      intro cs' s t' ht
      dsimp only at ht
      split at ht
      · rename_i t'' h''
        cases ht
        exact treeOfWbxml_noMarkup main f 0 cs' s _ h''
      · cases ht
    have hinv := foldl_cdInv main _ hemb
      (parse { main := main, langForced := lang, metaCharset := cs } bs).events {} cdInv_init
    split at h
    · cases h
    · split at h
      · cases h
      · cases h
        exact tree_mk_ok _ _ _ hinv.root

end Wbxml.Lemmas.XmlPrint
