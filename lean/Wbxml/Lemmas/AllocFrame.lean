/-
  C16 — a small frame calculus over `Clean` (whole-footprint reasoning for the loops of the
  string-table chain), the link between failing request numbers and `hits`, and partial-correctness
  facts (`Always`) for results that do not depend on the ledger.
-/
import Wbxml.Lemmas.AllocEnc
namespace Wbxml.Model.Alloc
open Wbxml
set_option linter.unusedSimpArgs false
set_option linter.unusedVariables false

/-! ### Frame calculus -/

theorem Owns.perm {s : Ledger} {A B : List Nat} (h : Owns s A) (p : A.Perm B) : Owns s B :=
  ⟨p.nodup_iff.1 h.1, fun i hi => h.2 i (p.mem_iff.2 hi)⟩

theorem Owns.left {s : Ledger} {A B : List Nat} (h : Owns s (A ++ B)) : Owns s A := (Owns.append_iff.1 h).1
theorem Owns.right {s : Ledger} {A B : List Nat} (h : Owns s (A ++ B)) : Owns s B := (Owns.append_iff.1 h).2.1

/-- The consumed side only matters as a set. -/
theorem Clean.cons_congr {s s' : Ledger} {A A' B : List Nat} (c : Clean s s' A B) (h : ∀ i, i ∈ A' ↔ i ∈ A) :
    Clean s s' A' B :=
  ⟨fun i => by rw [c.live, h], fun i hi => by rw [h]; exact c.fresh i hi, c.nodup, c.sched, c.next, c.hits, c.wf⟩

/-- The produced side up to order. -/
theorem Clean.prod_perm {s s' : Ledger} {A B B' : List Nat} (c : Clean s s' A B) (p : B.Perm B') :
    Clean s s' A B' :=
  ⟨fun i => by rw [c.live, p.mem_iff], fun i hi => c.fresh i (p.mem_iff.2 hi), p.nodup_iff.1 c.nodup,
    c.sched, c.next, c.hits, c.wf⟩

/-- Frame rule: blocks `F` that the run does not consume are carried along. -/
theorem Clean.frame_r {s s' : Ledger} {A B : List Nat} (F : List Nat) (wf : s.WF) (c : Clean s s' A B)
    (own : Owns s (A ++ F)) : Clean s s' (A ++ F) (B ++ F) := by
  obtain ⟨oA, oF, dAF⟩ := Owns.append_iff.1 own
  refine ⟨?_, ?_, ?_, c.sched, c.next, c.hits, c.wf⟩
  · intro i
    rw [c.live]
    have a1 := oF.2 i; have a2 := dAF i
    simp only [List.mem_append]
    grind
  · intro i hi
    rcases List.mem_append.1 hi with h | h
    · rcases c.fresh i h with h' | h'
      · exact Or.inl (List.mem_append_left _ h')
      · exact Or.inr h'
    · exact Or.inl (List.mem_append_right _ h)
  · refine List.nodup_append.2 ⟨c.nodup, oF.1, ?_⟩
    intro a ha b hb hab
    subst hab
    rcases c.fresh a ha with h | h
    · exact dAF a h hb
    · have := wf a (oF.2 a hb); omega

theorem Clean.frame_l {s s' : Ledger} {A B : List Nat} (F : List Nat) (wf : s.WF) (c : Clean s s' A B)
    (own : Owns s (F ++ A)) : Clean s s' (F ++ A) (F ++ B) := by
  have h := Clean.frame_r F wf c (own.perm List.perm_append_comm)
  exact (h.cons_congr (fun i => by simp only [List.mem_append]; exact Or.comm)).prod_perm List.perm_append_comm

/-- One more step of a run whose whole footprint is tracked: `L` became `A ++ F`, the step turns
    `A` into `B`. -/
theorem Clean.step_r {s s1 s2 : Ledger} {L A B : List Nat} (F : List Nat) (wf : s.WF)
    (c : Clean s s1 L (A ++ F)) (p : Clean s1 s2 A B) : Clean s s2 L (B ++ F) :=
  Clean.trans_recycle wf c (Clean.frame_r F c.wf p c.owns)

theorem Clean.step_l {s s1 s2 : Ledger} {L A B : List Nat} (F : List Nat) (wf : s.WF)
    (c : Clean s s1 L (F ++ A)) (p : Clean s1 s2 A B) : Clean s s2 L (F ++ B) :=
  Clean.trans_recycle wf c (Clean.frame_l F c.wf p c.owns)

/-- Two produce-only runs in a row. -/
theorem Clean.trans_prod {s s1 s2 : Ledger} {P1 P2 : List Nat} (c1 : Clean s s1 [] P1) (c2 : Clean s1 s2 [] P2) :
    Clean s s2 [] (P1 ++ P2) := by
  refine ⟨?_, ?_, ?_, by rw [c2.sched, c1.sched], Nat.le_trans c1.next c2.next, Nat.le_trans c1.hits c2.hits, c2.wf⟩
  · intro i; rw [c2.live, c1.live]; simp only [List.mem_append, List.not_mem_nil, not_false_eq_true, and_true]
    exact or_assoc
  · intro i hi
    have n1 := c1.next; have n2 := c2.next
    rcases List.mem_append.1 hi with h | h
    · rcases c1.fresh i h with h' | h'
      · exact absurd h' List.not_mem_nil
      · exact Or.inr ⟨h'.1, by omega⟩
    · rcases c2.fresh i h with h' | h'
      · exact absurd h' List.not_mem_nil
      · exact Or.inr ⟨by omega, h'.2⟩
  · exact List.nodup_append.2 ⟨c1.nodup, c2.nodup, fun a ha b hb hab => Clean.disjoint_later c1 c2 a ha (hab ▸ hb)⟩

/-- A block that is live and not consumed stays live. -/
theorem Clean.stays {s s' : Ledger} {A B : List Nat} (c : Clean s s' A B) {i : Nat} (hl : i ∈ s.live) (hn : i ∉ A) :
    i ∈ s'.live := (c.live i).2 (Or.inl ⟨hl, hn⟩)

/-- Blocks produced are either consumed ones or younger than everything that was live. -/
theorem Clean.prod_old_or_new {s s' : Ledger} {A B : List Nat} (c : Clean s s' A B) {i : Nat} (hi : i ∈ B) :
    i ∈ A ∨ s.next < i := by
  rcases c.fresh i hi with h | h
  · exact Or.inl h
  · exact Or.inr h.1

/-! ### Results together with the run they come from -/

theorem Good.with_run {p : Prog α} {s : Ledger} {Q : α → Ledger → Prop} (h : Good p s Q) :
    Good p s (fun a s' => Q a s' ∧ run p s = (.ok a, s')) := by
  obtain ⟨a, s', hr, hq⟩ := h.elim
  unfold Good
  rw [hr]
  exact ⟨hq, rfl⟩

theorem Good.and {p : Prog α} {s : Ledger} {Q R : α → Ledger → Prop} (h1 : Good p s Q) (h2 : Good p s R) :
    Good p s (fun a s' => Q a s' ∧ R a s') := by
  obtain ⟨a, s', hr, hq⟩ := h1.elim
  unfold Good at h2 ⊢
  rw [hr] at h2 ⊢
  exact ⟨hq, h2⟩

/-- A request in the window of a run that is scheduled to fail has been delivered as a failure. -/
theorem run_fail_hits (p : Prog α) (s : Ledger) (k : Nat) (hf : s.fails k = true) (h1 : s.next < k)
    (h2 : k ≤ (run p s).2.next) : s.hits < (run p s).2.hits := by
  induction p generalizing s with
  | ret a => simp [run] at h2; omega
  | malloc kk ih =>
    simp only [run] at h2 ⊢
    by_cases hc : s.fails (s.next + 1) = true
    · rw [if_pos hc]
      have := run_hits_le (kk none) { s with next := s.next + 1, hits := s.hits + 1 }
      simp at this; omega
    · rw [if_neg hc] at h2 ⊢
      have hk : k ≠ s.next + 1 := fun h => hc (h ▸ hf)
      exact ih (some (s.next + 1)) { s with next := s.next + 1, live := s.live ++ [s.next + 1] } hf
        (by show s.next + 1 < k; omega) h2
  | realloc q kk ih =>
    simp only [run] at h2 ⊢
    by_cases hc : s.fails (s.next + 1) = true
    · rw [if_pos hc]
      have := run_hits_le (kk none) { s with next := s.next + 1, hits := s.hits + 1 }
      simp at this; omega
    · rw [if_neg hc] at h2 ⊢
      have hk : k ≠ s.next + 1 := fun h => hc (h ▸ hf)
      cases q with
      | none =>
        exact ih (some (s.next + 1)) { s with next := s.next + 1, live := s.live ++ [s.next + 1] } hf
          (by show s.next + 1 < k; omega) h2
      | some a =>
        dsimp only at h2 ⊢
        by_cases ha : a ∈ s.live
        · rw [if_pos ha] at h2 ⊢
          exact ih (some (s.next + 1)) { s with next := s.next + 1, live := s.live.filter (· != a) ++ [s.next + 1] } hf
            (by show s.next + 1 < k; omega) h2
        · rw [if_neg ha] at h2
          simp only at h2; omega
  | free q kk ih =>
    cases q with
    | none => simp only [run] at h2 ⊢; exact ih s hf h1 h2
    | some a =>
      simp only [run] at h2 ⊢
      by_cases ha : a ∈ s.live
      · rw [if_pos ha] at h2 ⊢
        exact ih (s.release a) hf h1 h2
      · rw [if_neg ha] at h2
        simp only at h2; omega
  | deref q kk ih =>
    cases q with
    | none => simp [run] at h2; omega
    | some a =>
      simp only [run] at h2 ⊢
      by_cases ha : a ∈ s.live
      · rw [if_pos ha] at h2 ⊢
        exact ih s hf h1 h2
      · rw [if_neg ha] at h2
        simp only at h2; omega
  | ub w => simp [run] at h2; omega

theorem hits_of_fail {p : Prog α} {s s' : Ledger} {a : α} (hr : run p s = (.ok a, s')) {k : Nat}
    (hf : s.fails k = true) (h1 : s.next < k) (h2 : k ≤ s'.next) : s.hits < s'.hits := by
  have := run_fail_hits p s k hf h1 (by rw [hr]; exact h2)
  rw [hr] at this; exact this

/-- Conversely: a delivered failure is a scheduled request of the run's window. -/
theorem run_hits_fail (p : Prog α) (s : Ledger) (h : s.hits < (run p s).2.hits) :
    ∃ k, s.fails k = true ∧ s.next < k ∧ k ≤ (run p s).2.next := by
  induction p generalizing s with
  | ret a => simp [run] at h
  | malloc kk ih =>
    simp only [run] at h ⊢
    by_cases hc : s.fails (s.next + 1) = true
    · rw [if_pos hc]
      have := run_next_le (kk none) { s with next := s.next + 1, hits := s.hits + 1 }
      exact ⟨s.next + 1, hc, by omega, by simpa using this⟩
    · rw [if_neg hc] at h ⊢
      obtain ⟨k, a, b, c⟩ := ih (some (s.next + 1)) { s with next := s.next + 1, live := s.live ++ [s.next + 1] } h
      exact ⟨k, a, by simp at b; omega, c⟩
  | realloc q kk ih =>
    simp only [run] at h ⊢
    by_cases hc : s.fails (s.next + 1) = true
    · rw [if_pos hc]
      have := run_next_le (kk none) { s with next := s.next + 1, hits := s.hits + 1 }
      exact ⟨s.next + 1, hc, by omega, by simpa using this⟩
    · rw [if_neg hc] at h ⊢
      cases q with
      | none =>
        obtain ⟨k, a, b, c⟩ := ih (some (s.next + 1)) { s with next := s.next + 1, live := s.live ++ [s.next + 1] } h
        exact ⟨k, a, by simp at b; omega, c⟩
      | some x =>
        dsimp only at h ⊢
        by_cases ha : x ∈ s.live
        · rw [if_pos ha] at h ⊢
          obtain ⟨k, a, b, c⟩ := ih (some (s.next + 1)) { s with next := s.next + 1, live := s.live.filter (· != x) ++ [s.next + 1] } h
          exact ⟨k, a, by simp at b; omega, c⟩
        · rw [if_neg ha] at h
          simp at h
  | free q kk ih =>
    cases q with
    | none => simp only [run] at h ⊢; exact ih s h
    | some x =>
      simp only [run] at h ⊢
      by_cases ha : x ∈ s.live
      · rw [if_pos ha] at h ⊢
        exact ih (s.release x) h
      · rw [if_neg ha] at h
        simp at h
  | deref q kk ih =>
    cases q with
    | none => simp [run] at h
    | some x =>
      simp only [run] at h ⊢
      by_cases ha : x ∈ s.live
      · rw [if_pos ha] at h ⊢
        exact ih s h
      · rw [if_neg ha] at h
        simp at h
  | ub w => simp [run] at h

theorem fail_of_hits {p : Prog α} {s s' : Ledger} {a : α} (hr : run p s = (.ok a, s')) (h : s.hits < s'.hits) :
    ∃ k, s.fails k = true ∧ s.next < k ∧ k ≤ s'.next := by
  have := run_hits_fail p s (by rw [hr]; exact h)
  rw [hr] at this; exact this

/-! ### Partial correctness, independent of the ledger -/

/-- Whenever `p` returns (from any ledger), the result satisfies `R`. -/
def Always (p : Prog α) (R : α → Prop) : Prop :=
  ∀ s : Ledger, match run p s with
    | (.ok a, _) => R a
    | (.error _, _) => True

theorem Always.triv (p : Prog α) : Always p (fun _ => True) := by
  intro s; split <;> trivial

theorem Always.ret {a : α} {R : α → Prop} (h : R a) : Always (Prog.ret a) R := by
  intro s; simp [run]; exact h

theorem Always.bind {p : Prog α} {f : α → Prog β} {Q : α → Prop} {R : β → Prop}
    (hp : Always p Q) (hf : ∀ a, Q a → Always (f a) R) : Always (Prog.bind p f) R := by
  intro s
  have h1 := hp s
  rw [run_bind]
  generalize run p s = r at h1 ⊢
  match r, h1 with
  | (.ok a, s'), h1 => exact hf a h1 s'
  | (.error _, _), _ => trivial

theorem Always.mono {p : Prog α} {Q R : α → Prop} (hp : Always p Q) (h : ∀ a, Q a → R a) : Always p R := by
  intro s
  have h1 := hp s
  generalize run p s = r at h1 ⊢
  match r, h1 with
  | (.ok a, s'), h1 => exact h a h1
  | (.error _, _), _ => trivial

/-- Sequencing with a step whose result carries no information. -/
theorem Always.seq {p : Prog α} {f : α → Prog β} {R : β → Prop} (hf : ∀ a, Always (f a) R) :
    Always (Prog.bind p f) R :=
  Always.bind (Always.triv p) (fun a _ => hf a)

theorem Good.and_always {p : Prog α} {s : Ledger} {Q : α → Ledger → Prop} {R : α → Prop}
    (h : Good p s Q) (ha : Always p R) : Good p s (fun a s' => Q a s' ∧ R a) := by
  obtain ⟨a, s', hr, hq⟩ := h.elim
  have h2 := ha s
  unfold Good
  rw [hr] at h2 ⊢
  exact ⟨hq, h2⟩

end Wbxml.Model.Alloc
