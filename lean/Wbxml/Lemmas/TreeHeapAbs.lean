/-
  C18 lemmas, part 11: the abstraction function.  Under `Inv` the executable walk `absList` /
  `absNode` / `absTree` (fuel `2 * heap + 2`) never faults, never runs out of fuel, and yields the
  plain tree `absBT` read off the ghost shape.
-/
import Wbxml.Lemmas.TreeHeapRun
set_option linter.unusedSimpArgs false
set_option linter.unusedVariables false
namespace Wbxml.Model.TreeHeap
open Wbxml Wbxml.Model

/-- The plain sibling list a shape denotes. -/
def absBT (v : View) : BT → List Node
  | .nil => []
  | .node i ch nx => mkNode (payOf v i) (absBT v ch) :: absBT v nx

theorem absBT_frame {v v' : View} : ∀ (t : BT), (∀ j, j ∈ t.ids → payOf v' j = payOf v j) → absBT v' t = absBT v t
  | .nil, _ => rfl
  | .node i ch nx, h => by
    simp only [absBT]
    rw [h i (BT.mem_node.mpr (Or.inl rfl)),
      absBT_frame ch (fun j hj => h j (BT.mem_node.mpr (Or.inr (Or.inl hj)))),
      absBT_frame nx (fun j hj => h j (BT.mem_node.mpr (Or.inr (Or.inr hj))))]

theorem absList_spec {s : St} : ∀ (t : BT) (par prv : Option Nat) (fuel : Nat),
    Match s.cellAt par prv t → 2 * t.size + 1 ≤ fuel → absList s fuel t.rid = .ok (absBT s.cellAt t)
  | .nil, _, _, fuel, _, hf => by
    cases fuel with
    | zero => omega
    | succ f => rfl
  | .node i ch nx, par, prv, fuel, ⟨⟨c, hc, _, _, hfi, hnx, _⟩, mc, mn⟩, hf => by
    simp only [BT.size] at hf
    cases fuel with
    | zero => omega
    | succ f =>
      cases f with
      | zero => omega
      | succ f' =>
        have h1 := absList_spec ch (some i) none f' mc (by omega)
        have h2 := absList_spec nx par (some i) (f' + 1) mn (by omega)
        have hp : payOf s.cellAt i = c.pay := by simp [payOf, hc]
        simp only [BT.rid_node, absList, absNode, deref_of_cellAt hc, hfi, h1, hnx, h2, absBT, hp]

theorem absNode_spec {s : St} {n : Nat} {c : Cell} (hc : s.cellAt n = some c) (ch : BT)
    (hf : c.first = ch.rid) (hm : Match s.cellAt (some n) none ch) (fuel : Nat) (hfuel : 2 * ch.size + 2 ≤ fuel) :
    absNode s fuel n = .ok (mkNode c.pay (absBT s.cellAt ch)) := by
  cases fuel with
  | zero => omega
  | succ f =>
    have h1 := absList_spec ch (some n) none f hm (by omega)
    simp only [absNode, deref_of_cellAt hc, hf, h1]

theorem chainKids_size_lt {s : St} {G : BT} (hF : Forest s G) {n : Nat} (hn : n ∈ G.tops) :
    (BT.chainKids n G).size + 1 ≤ s.heap.length := by
  have hnd := BT.chainKids_nodup n G hF.nodup hn
  have h1 := hF.size_le
  have h2 : (n :: (BT.chainKids n G).ids).length ≤ G.ids.length := by
    have : ∀ (l m : List Nat), l.Nodup → (∀ x, x ∈ l → x ∈ m) → l.length ≤ m.length := by
      intro l
      induction l with
      | nil => intro m _ _; simp
      | cons a r ih =>
        intro m hnd hsub
        have ham : a ∈ m := hsub a (by simp)
        have hr := ih (m.erase a) (List.nodup_cons.mp hnd).2 (by
          intro x hx
          have hxa : x ≠ a := fun e => (List.nodup_cons.mp hnd).1 (e ▸ hx)
          exact (List.mem_erase_of_ne hxa).mpr (hsub x (by simp [hx])))
        rw [List.length_erase_of_mem ham] at hr
        have : 0 < m.length := List.length_pos_of_mem ham
        simp only [List.length_cons]
        omega
    apply this _ _ (List.nodup_cons.mpr ⟨hnd.2, hnd.1⟩)
    intro x hx
    simp only [List.mem_cons] at hx
    rcases hx with h | h
    · rw [h]; exact BT.tops_sub _ _ hn
    · exact BT.chainKids_sub n G x h
  have h3 := BT.ids_length (BT.chainKids n G)
  simp only [List.length_cons] at h2
  omega

/-- The abstraction of a top of the forest (the tree root or a detached sub-tree). -/
theorem absNode_top {s : St} {G : BT} (hF : Forest s G) {n : Nat} (hn : n ∈ G.tops) :
    ∃ c, s.cellAt n = some c ∧ absNode s s.fuel n = .ok (mkNode c.pay (absBT s.cellAt (BT.chainKids n G))) := by
  obtain ⟨c, hc, _, _, _, hf, _, hm⟩ := Loc.top_facts s.cellAt n G none hF.m hn
  refine ⟨c, hc, absNode_spec hc _ hf hm _ ?_⟩
  have := chainKids_size_lt hF hn
  unfold St.fuel; omega

/-- `abs` is total on states that satisfy the invariant. -/
theorem absTree_ok {s : St} (hI : Inv s) : ∃ t, absTree s = .ok t := by
  obtain ⟨G, hF⟩ := hI
  unfold absTree
  cases hr : s.root with
  | none => exact ⟨_, rfl⟩
  | some r =>
    obtain ⟨c, _, h⟩ := absNode_top hF (hF.root r hr)
    simp only [h]; exact ⟨_, rfl⟩

/-! ### Sibling lists of the edited chains -/

theorem absBT_snoc (v : View) : ∀ (K s : BT), absBT v (BT.snoc K s) = absBT v K ++ absBT v s
  | .nil, s => by simp [BT.snoc, absBT]
  | .node i ch nx, s => by simp [BT.snoc, absBT, absBT_snoc v nx s]

theorem absBT_getLast (v : View) : ∀ (K : BT) (l : Nat), K.ids.Nodup → K.lastId = some l →
    (absBT v K).getLast? = some (mkNode (payOf v l) (absBT v (BT.chainKids l K)))
  | .nil, l, _, h => by simp [BT.lastId] at h
  | .node i ch .nil, l, _, h => by
    simp only [BT.lastId, Option.some.injEq] at h; subst h
    simp [absBT, BT.chainKids]
  | .node i ch (.node a c m), l, hnd, h => by
    obtain ⟨hi1, hi2, hcn, hnn, hd⟩ := BT.nodup_node.mp hnd
    have hl : (BT.node a c m).lastId = some l := by simpa [BT.lastId] using h
    have hlm : l ∈ (BT.node a c m).ids := BT.tops_sub _ _ (BT.lastId_mem _ _ hl)
    have hil : ¬ i = l := fun e => hi2 (e ▸ hlm)
    have ih := absBT_getLast v (.node a c m) l hnn hl
    have e1 : absBT v (.node i ch (.node a c m)) = mkNode (payOf v i) (absBT v ch) :: absBT v (.node a c m) := rfl
    have e2 : absBT v (.node a c m) = mkNode (payOf v a) (absBT v c) :: absBT v m := rfl
    have e3 : BT.chainKids l (.node i ch (.node a c m)) = BT.chainKids l (.node a c m) := by
      simp [BT.chainKids, hil]
    rw [e1, e2, List.getLast?_cons_cons, ← e2, ih, e3]

end Wbxml.Model.TreeHeap
