/-
  C20 — lemmas about `main` of the tools: the read loop delivers the whole input for every `fread`
  schedule, the option switch cannot fault on events that honour the scanner contract, and every run
  is either a "no conversion" run with a fixed shape or exactly `convAndWrite` on the designated input.
-/
import Wbxml.Lemmas.ToolGetopt
import Wbxml.Model.ToolMain
namespace Wbxml.Model.Tool
open Wbxml

/-! ### reading -/

theorem readLoop_spec (t : Tool) : ∀ (n : Nat) (sched : List Nat) (rest acc : Bytes) (p : Bool),
    rest.length < n → (p = true → acc ≠ []) → readLoop t n sched rest acc p = .data (acc ++ rest) := by
  intro n
  induction n with
  | zero => intro _ _ _ _ h; omega
  | succ n ih =>
    intro sched rest acc p hn hp
    have hk : ∀ k, 1 ≤ k → k ≤ 1000 →
        (if rest.length < k then
          (if reallocNull t (acc.length + rest.length) p then ReadR.noMem else .data (acc ++ rest))
        else (if reallocNull t (acc.length + k) p then ReadR.noMem
              else readLoop t n sched.tail (rest.drop k) (acc ++ rest.take k) true)) = .data (acc ++ rest) := by
      intro k hk1 _
      have hnull : ∀ m, (p = true → 0 < m) → reallocNull t m p = false := by
        intro m hm
        cases t with
        | x2w => rfl
        | w2x =>
          cases p with
          | false => simp [reallocNull]
          | true =>
            have := hm rfl
            simp only [reallocNull, Bool.and_true, beq_eq_false_iff_ne, ne_eq]
            omega
      have hacc : p = true → 0 < acc.length := fun h => List.length_pos_iff.mpr (hp h)
      split
      · rw [hnull _ (fun h => by have := hacc h; omega)]
        rfl
      · rename_i hge
        rw [hnull _ (fun _ => by omega)]
        simp only [Bool.false_eq_true, if_false]
        have hne : acc ++ rest.take k ≠ [] := by
          intro h
          have := congrArg List.length h
          simp only [List.length_append, List.length_take, List.length_nil] at this
          omega
        rw [ih sched.tail (rest.drop k) (acc ++ rest.take k) true (by simp only [List.length_drop]; omega) (fun _ => hne)]
        simp [List.append_assoc]
    unfold readLoop
    cases sched with
    | nil => exact hk 1000 (by decide) (Nat.le_refl _)
    | cons j s => exact hk (min (j + 1) 1000) (by omega) (by omega)

/-- `reads_whole_input`: whatever pieces `fread` delivers, the bytes handed on are the input. -/
theorem readAll_spec (t : Tool) (sched : List Nat) (content : Bytes) :
    readAll t sched content = .data content := by
  have := readLoop_spec t (content.length + 1) sched content [] false (Nat.lt_succ_self _) (by intro h; cases h)
  simpa [readAll] using this

/-! ### the option loop -/

/-- Lines printed by the scanner: each starts with `argv[0]: `. -/
def GetoptLines (argv : Argv) (ls : List Line) : Prop :=
  ∀ l ∈ ls, ∃ a0 r, argv.head? = some a0 ∧ l = .getopt (a0 ++ b!": " ++ r)

theorem w2xApply_safe (argv : Argv) (s : OptSt W2XCfg) (e : Ev) (he : EvOK (toolOpts .w2x) argv e) :
    ∀ x, w2xApply s e ≠ .crash x := by
  intro x
  have harg : ∀ c : UInt8, e.opt = c → c ≠ 63 → optLookup (toolOpts .w2x) c = some true → e.arg.isSome = true :=
    fun c hc h63 hl => he.1 (hc ▸ h63) (hc ▸ hl)
  unfold w2xApply
  repeat' split
  all_goals first
    | (rename_i hopt _ hnone
       have := harg _ (by simpa using hopt) (by decide) (by decide)
       rw [hnone] at this
       cases this)
    | (intro h; cases h)

theorem x2wApply_safe (argv : Argv) (s : OptSt X2WCfg) (e : Ev) (he : EvOK (toolOpts .x2w) argv e) :
    ∀ x, x2wApply s e ≠ .crash x := by
  intro x
  have harg : ∀ c : UInt8, e.opt = c → c ≠ 63 → optLookup (toolOpts .x2w) c = some true → e.arg.isSome = true :=
    fun c hc h63 hl => he.1 (hc ▸ h63) (hc ▸ hl)
  unfold x2wApply
  repeat' split
  all_goals first
    | (rename_i hopt _ hnone
       have := harg _ (by simpa using hopt) (by decide) (by decide)
       rw [hnone] at this
       cases this)
    | (intro h; cases h)

/-- The option loop on contract-honouring events: never a fault; the lines it leaves are the
    scanner's. -/
theorem runOpts_spec {α : Type} (argv : Argv) (opts : Bytes) (apply : OptSt α → Ev → OptR α)
    (hsafe : ∀ s e, EvOK opts argv e → ∀ x, apply s e ≠ .crash x) :
    ∀ (evs : List Ev) (s : OptSt α) (errs : List Line), (∀ e ∈ evs, EvOK opts argv e) → GetoptLines argv errs →
      (∃ s' errs', runOpts apply evs s errs = .ok s' errs' ∧ GetoptLines argv errs') ∨
      (∃ errs', runOpts apply evs s errs = .help errs' ∧ GetoptLines argv errs') := by
  intro evs
  induction evs with
  | nil => intro s errs _ hg; exact .inl ⟨s, errs, rfl, hg⟩
  | cons e es ih =>
    intro s errs hev hg
    have he := hev e (List.mem_cons_self ..)
    have hg' : GetoptLines argv (errs ++ e.err.map Line.getopt) := by
      intro l hl
      rcases List.mem_append.mp hl with hl | hl
      · exact hg l hl
      · obtain ⟨m, hm, rfl⟩ := List.mem_map.mp hl
        obtain ⟨a0, r, h0, rfl⟩ := he.2 m hm
        exact ⟨a0, r, h0, rfl⟩
    unfold runOpts
    cases hap : apply s e with
    | cont s' => exact ih s' _ (fun x hx => hev x (List.mem_cons_of_mem _ hx)) hg'
    | help => exact .inr ⟨_, rfl, hg'⟩
    | crash x => exact absurd hap (hsafe s e he x)

/-! ### after the options -/

/-- The operand `argv[optind]` designates `input`: stdin for `-`, else the file of that name. -/
def InputIs (w : World) (sr : ScanRes) (input : Bytes) : Prop :=
  ∃ name, sr.argv[sr.optind]? = some name ∧
    ((name = b!"-" ∧ w.stdin = .file input) ∨ (name ≠ b!"-" ∧ w.openR name = .file input))

/-- The message block that ends a run in which the library is not called. -/
def UsageTail (ls : List Line) : Prop :=
  ls = [.help] ∨ ls = [.missingArgs, .help] ∨ (∃ n, ls = [.failedOpenIn n]) ∨ (∃ n, ls = [.readError n])

theorem afterOpts_cases (t : Tool) (lib : Lib) (w : World) (p : Params) (output : Option Bytes)
    (sr : ScanRes) (errs : List Line) (h1 : 1 ≤ sr.optind) :
    (∃ ls, UsageTail ls ∧ afterOpts t lib w p output sr errs = mkOut 0 [] (errs ++ ls) [] none) ∨
    (∃ input, InputIs w sr input ∧
      afterOpts t lib w p output sr errs = convAndWrite t lib w p output input errs) := by
  unfold afterOpts
  by_cases hge : sr.optind ≥ sr.argv.length
  · exact .inl ⟨_, .inr (.inl rfl), by simp [hge]⟩
  · have hl : sr.optind < sr.argv.length := by omega
    have hname : sr.argv[sr.optind]? = some sr.argv[sr.optind] := List.getElem?_eq_getElem hl
    have h1l : (1 : Nat) < sr.argv.length := by omega
    have ha1 : sr.argv[1]? = some sr.argv[1] := List.getElem?_eq_getElem h1l
    generalize sr.argv[sr.optind] = name at hname
    simp only [hge, if_false, argvAt_some hname, argvAt_some ha1]
    by_cases hdash : name = b!"-"
    · have hb : (name == b!"-") = true := by simp [hdash]
      simp only [hb, if_true]
      cases hs : w.stdin with
      | fail => cases t <;> exact .inl ⟨_, .inr (.inr (.inr ⟨_, rfl⟩)), rfl⟩
      | dir => cases t <;> exact .inl ⟨_, .inr (.inr (.inr ⟨_, rfl⟩)), rfl⟩
      | file content =>
        refine .inr ⟨content, ⟨name, hname, .inl ⟨hdash, hs⟩⟩, ?_⟩
        simp [readAll_spec]
    · have hb : (name == b!"-") = false := by simp [hdash]
      simp only [hb, Bool.false_eq_true, if_false]
      cases hs : w.openR name with
      | fail => exact .inl ⟨_, .inr (.inr (.inl ⟨name, rfl⟩)), rfl⟩
      | dir => cases t <;> exact .inl ⟨_, .inr (.inr (.inr ⟨_, rfl⟩)), rfl⟩
      | file content =>
        refine .inr ⟨content, ⟨name, hname, .inr ⟨hdash, hs⟩⟩, ?_⟩
        simp [readAll_spec]

/-- Every run of a tool on a scan result that honours the contract is one of two things:
    a run without conversion (exit 0, nothing on stdout, no file touched, the scanner's lines followed
    by one of four message blocks), or exactly `convAndWrite` on the designated input. No crash. -/
theorem toolMain_cases (t : Tool) (lib : Lib) (w : World) (argv : Argv) (sr : ScanRes)
    (hok : ScanOK (toolOpts t) argv sr) :
    (∃ pre ls, GetoptLines argv pre ∧ UsageTail ls ∧ toolMain t lib w sr = mkOut 0 [] (pre ++ ls) [] none) ∨
    (∃ pre p output input, GetoptLines argv pre ∧ InputIs w sr input ∧
      toolMain t lib w sr = convAndWrite t lib w p output input pre) := by
  have hnil : GetoptLines argv [] := by intro l hl; cases hl
  cases t with
  | w2x =>
    simp only [toolMain, w2xMain]
    rcases runOpts_spec argv (toolOpts .w2x) w2xApply (w2xApply_safe argv) sr.evs ⟨{}, none⟩ [] hok.evs hnil with
      ⟨s', errs', hr, hg⟩ | ⟨errs', hr, hg⟩
    · rw [hr]
      rcases afterOpts_cases .w2x lib w (.w2x s'.cfg) s'.output sr errs' hok.optind with ⟨ls, hu, h⟩ | ⟨i, hi, h⟩
      · exact .inl ⟨errs', ls, hg, hu, h⟩
      · exact .inr ⟨errs', _, _, i, hg, hi, h⟩
    · rw [hr]
      exact .inl ⟨errs', [.help], hg, .inl rfl, rfl⟩
  | x2w =>
    simp only [toolMain, x2wMain]
    rcases runOpts_spec argv (toolOpts .x2w) x2wApply (x2wApply_safe argv) sr.evs ⟨{}, none⟩ [] hok.evs hnil with
      ⟨s', errs', hr, hg⟩ | ⟨errs', hr, hg⟩
    · rw [hr]
      rcases afterOpts_cases .x2w lib w (.x2w s'.cfg) s'.output sr errs' hok.optind with ⟨ls, hu, h⟩ | ⟨i, hi, h⟩
      · exact .inl ⟨errs', ls, hg, hu, h⟩
      · exact .inr ⟨errs', _, _, i, hg, hi, h⟩
    · rw [hr]
      exact .inl ⟨errs', [.help], hg, .inl rfl, rfl⟩

end Wbxml.Model.Tool
