/- Lemmas about the hex model (`Model/Codec/Hex.lean`). -/
import Wbxml.Model.Codec.Hex
import Wbxml.Lemmas.CodecBits
namespace Wbxml.Lemmas.Codec
open Wbxml Wbxml.Model.Codec

/-- The digit character for a nibble (any default outside the table: never used). -/
def hexSym (upper : Bool) (i : Nat) : UInt8 := ((if upper then hexitsUpper else hexitsLower)[i]?).getD 0

theorem hexit_of_lt (u : Bool) (i : Nat) (h : i < 16) : hexit u i = .ok (hexSym u i) := by
  have h' : i < (if u then hexitsUpper else hexitsLower).length := by cases u <;> exact h
  simp [hexit, hexSym, List.getElem?_eq_getElem h']

/-- The encoder as a plain function. -/
def hexEnc (u : Bool) : Bytes → Bytes
  | [] => []
  | b :: rest => hexSym u (b.toNat / 16) :: hexSym u (b.toNat % 16) :: hexEnc u rest

/-- The `hexits` index is always in range. -/
theorem hexEncodeE_ok (u : Bool) (bs : Bytes) : hexEncodeE u bs = .ok (hexEnc u bs) := by
  induction bs with
  | nil => rfl
  | cons b rest ih =>
    have hb := b.toNat_lt
    have : b.toNat / 16 % 16 = b.toNat / 16 := by omega
    rw [hexEncodeE, ih, hexit_of_lt _ _ (by omega), hexit_of_lt _ _ (by omega), this]; rfl

theorem hexEncode_eq (u : Bool) (bs : Bytes) : hexEncode u bs = hexEnc u bs := by
  simp [hexEncode, hexEncodeE_ok]

/-- Digit value of every digit character, both alphabets (kernel evaluation over the 2×16 table). -/
theorem nibble_sym_fin : ∀ (u : Bool) (i : Fin 16), hexNibble (hexSym u i.val) = i.val := by decide

theorem nibble_sym (u : Bool) (i : Nat) (h : i < 16) : hexNibble (hexSym u i) = i := nibble_sym_fin u ⟨i, h⟩

/-- The digit characters written arithmetically (kernel evaluation over the 2×16 table). -/
theorem hexSym_fin : ∀ (u : Bool) (i : Fin 16),
    hexSym u i.val = UInt8.ofNat (if i.val < 10 then 48 + i.val else (if u then 55 else 87) + i.val) := by decide

theorem or16' (x y : Nat) (h : y < 16) : x * 16 ||| y = x * 16 + y := or_mul_pow x y 4 h

theorem hexNibble_lt (c : UInt8) : hexNibble c < 16 := by
  unfold hexNibble; split
  · omega
  · split
    · omega
    · split <;> omega

/-- hex → binary after binary → hex is the identity, for both alphabets. -/
theorem hexPairs_hexEnc (u : Bool) (bs : Bytes) : hexPairs (hexEnc u bs) = bs := by
  induction bs with
  | nil => rfl
  | cons b rest ih =>
    have hb := b.toNat_lt
    rw [hexEnc, hexPairs, ih, nibble_sym _ _ (by omega), nibble_sym _ _ (by omega), or16' _ _ (by omega)]
    have : b.toNat / 16 * 16 + b.toNat % 16 = b.toNat := by omega
    rw [this, UInt8.ofNat_toNat]

/-- Lower-case hexadecimal digit characters `0-9a-f`. -/
def isLowerHex (c : UInt8) : Prop := (48 ≤ c.toNat ∧ c.toNat ≤ 57) ∨ (97 ≤ c.toNat ∧ c.toNat ≤ 102)
/-- Upper-case hexadecimal digit characters `0-9A-F`. -/
def isUpperHex (c : UInt8) : Prop := (48 ≤ c.toNat ∧ c.toNat ≤ 57) ∨ (65 ≤ c.toNat ∧ c.toNat ≤ 70)

instance : DecidablePred isLowerHex := fun c => by unfold isLowerHex; infer_instance
instance : DecidablePred isUpperHex := fun c => by unfold isUpperHex; infer_instance

theorem sym_nibble_lower (c : UInt8) (h : isLowerHex c) : hexSym false (hexNibble c) = c := by
  have hc := c.toNat_lt
  have := hexSym_fin false ⟨hexNibble c, hexNibble_lt c⟩
  simp only [Bool.false_eq_true, ↓reduceIte] at this
  rw [this]
  rcases h with ⟨h1, h2⟩ | ⟨h1, h2⟩
  · have hn : hexNibble c = c.toNat - 48 := by simp [hexNibble, h1, h2]
    have : (if hexNibble c < 10 then 48 + hexNibble c else 87 + hexNibble c) = c.toNat := by
      rw [hn]; split <;> omega
    rw [this, UInt8.ofNat_toNat]
  · have hn : hexNibble c = c.toNat - 97 + 10 := by
      have : ¬ (48 ≤ c.toNat ∧ c.toNat ≤ 57) := by omega
      simp [hexNibble, this, h1, h2]
    have : (if hexNibble c < 10 then 48 + hexNibble c else 87 + hexNibble c) = c.toNat := by
      rw [hn]; split <;> omega
    rw [this, UInt8.ofNat_toNat]

theorem sym_nibble_upper (c : UInt8) (h : isUpperHex c) : hexSym true (hexNibble c) = c := by
  have hc := c.toNat_lt
  have := hexSym_fin true ⟨hexNibble c, hexNibble_lt c⟩
  simp only [↓reduceIte] at this
  rw [this]
  rcases h with ⟨h1, h2⟩ | ⟨h1, h2⟩
  · have hn : hexNibble c = c.toNat - 48 := by simp [hexNibble, h1, h2]
    have : (if hexNibble c < 10 then 48 + hexNibble c else 55 + hexNibble c) = c.toNat := by
      rw [hn]; split <;> omega
    rw [this, UInt8.ofNat_toNat]
  · have hn : hexNibble c = c.toNat - 65 + 10 := by
      have n1 : ¬ (48 ≤ c.toNat ∧ c.toNat ≤ 57) := by omega
      have n2 : ¬ (97 ≤ c.toNat ∧ c.toNat ≤ 102) := by omega
      simp [hexNibble, n1, n2, h1, h2]
    have : (if hexNibble c < 10 then 48 + hexNibble c else 55 + hexNibble c) = c.toNat := by
      rw [hn]; split <;> omega
    rw [this, UInt8.ofNat_toNat]

/-- binary → hex after hex → binary restores a digit string of even length, provided the case
    matches: `good` is `isLowerHex` for `u = false`, `isUpperHex` for `u = true`. -/
theorem hexEnc_hexPairs (u : Bool) (good : UInt8 → Prop) (hg : ∀ c, good c → hexSym u (hexNibble c) = c) :
    ∀ (s : Bytes), s.length % 2 = 0 → (∀ c ∈ s, good c) → hexEnc u (hexPairs s) = s
  | [], _, _ => rfl
  | [_], h, _ => by simp at h
  | a :: b :: rest, h, hall => by
    have ha := hexNibble_lt a; have hb := hexNibble_lt b
    have ih := hexEnc_hexPairs u good hg rest (by simp only [List.length_cons] at h; omega)
      (fun c hc => hall c (by simp [hc]))
    rw [hexPairs, hexEnc, ih, or16' _ _ hb, toNat_ofNat_lt _ (by omega)]
    have e1 : (hexNibble a * 16 + hexNibble b) / 16 = hexNibble a := by omega
    have e2 : (hexNibble a * 16 + hexNibble b) % 16 = hexNibble b := by omega
    rw [e1, e2, hg a (hall a (by simp)), hg b (hall b (by simp))]

end Wbxml.Lemmas.Codec
