/-
  C01, bounds, parse half: the events `parse` delivers are bounded by `n * (n + M + 45)` where
  `n` is the input length and `M` a table constant (longest name / attribute start / value /
  extension name of the language tables).

  * `pevSize`: one unit per event and per attribute plus all octets of element names, attribute names
    and values, character data and PI targets / data. (An end-element event counts one unit: it carries
    the start event's `WBXMLTag`.)
  * per-source payload bounds (`convTerm_len`, `strtblRef_len`, `entityBytes_len`, `parseOpaque_len`,
    `decodeOpaqueContent_len`, `decodeOpaqueAttrValue_len`, `decodeDatetime_len`, `parseExtension_len`, …)
  * the potential `size + W * remaining input` never grows (`elem_content_size`): every consumed octet
    pays for at most `W = N + M + 40` units, `N` bounding the remaining input and the string table.
-/
import Wbxml.Lemmas.ParserSafeDepth
import Wbxml.Lemmas.X2WSize
import Wbxml.Lemmas.TypedWvInt
import Wbxml.Lemmas.EncWTyped

namespace Wbxml.Lemmas.W2X
open Wbxml Wbxml.Model Wbxml.Lemmas.ParserSafe

attribute [local simp] E.badDatetime E.internal E.langTableUndefined E.tagTableUndefined E.b64Enc
  E.wvDatetimeFormat E.noCharsetConv E.charsetStrLen E.charsetNotFound E.attrTableUndefined
  E.attrValueTableUndefined E.badOpaqueLength E.emptyWbxml E.endOfBuffer E.extValueTableUndefined
  E.invalidStrtblIndex E.nullStringTable E.stringExpected E.strtblLength E.unknownAttrValue
  E.unknownExtensionToken E.unknownPublicId E.unvalidMbUint32 E.wvIntegerOverflow E.invalidUnicode

/-! ### Size of an event list -/

/-- `cc` is an extra charge on character data (0 for the plain size; the tree-size bound charges the
    embedded document a payload may turn into). -/
def pevSize1 (cc : Bytes → Nat) : Event → Nat
  | .startDoc _ _ => 1
  | .endDoc => 1
  | .startElt n attrs => 1 + n.size + attrsSize attrs
  | .endElt _ => 1
  | .chars s => 1 + s.length + cc s
  | .pi t d => 1 + t.length + d.length

def pevSize (cc : Bytes → Nat) : List Event → Nat
  | [] => 0
  | e :: r => pevSize1 cc e + pevSize cc r

theorem pevSize_append (cc : Bytes → Nat) (a b : List Event) : pevSize cc (a ++ b) = pevSize cc a + pevSize cc b := by
  induction a with
  | nil => simp [pevSize]
  | cons e r ih => simp only [List.cons_append, pevSize, ih]; omega

theorem pevSize_single (cc : Bytes → Nat) (e : Event) : pevSize cc [e] = pevSize1 cc e := by simp [pevSize]

theorem attrsSize_append (a b : List Attr) : attrsSize (a ++ b) = attrsSize a + attrsSize b := by
  induction a with
  | nil => simp [attrsSize]
  | cons e r ih => simp only [List.cons_append, attrsSize, ih]; omega

theorem aname_xml_size (n : AName) : n.xmlName.length = n.size := by cases n <;> rfl
theorem name_xml_size (n : Name) : n.xmlName.length = n.size := by cases n <;> rfl

/-! ### Table constants -/

def maxLen {α : Type} (f : α → Nat) : List α → Nat
  | [] => 0
  | a :: r => max (f a) (maxLen f r)

theorem le_maxLen {α : Type} (f : α → Nat) : ∀ {l : List α} {a : α}, a ∈ l → f a ≤ maxLen f l
  | b :: r, a, h => by
    simp only [maxLen]
    rcases List.mem_cons.1 h with h | h
    · subst h; omega
    · have := le_maxLen f h; omega

def optMax {α : Type} (f : α → Nat) : Option (List α) → Nat
  | none => 0
  | some l => maxLen f l

/-- The longest thing a table row of the language can deliver: a tag name, an attribute name with its
    value prefix, an attribute-value name, an extension-value name. -/
def langM (l : Lang) : Nat :=
  max (optMax (fun r => r.name.length) l.tags)
    (max (optMax (fun r => r.name.length + (r.value.getD []).length) l.attrs)
      (max (optMax (fun r => r.name.length) l.values) (optMax (fun r => r.name.length) l.exts)))

/-- `M`: the table constant of a main table. -/
def tableM (main : List Lang) : Nat := maxLen langM main

theorem langM_le_tableM {main : List Lang} {l : Lang} (h : l ∈ main) : langM l ≤ tableM main := le_maxLen langM h

theorem tag_le_langM {l : Lang} {tags : List TagRow} {r : TagRow} {p : TagRow → Bool} (ht : l.tags = some tags)
    (h : tags.find? p = some r) : r.name.length ≤ langM l := by
  have := le_maxLen (fun r : TagRow => r.name.length) (List.mem_of_find?_eq_some h)
  unfold langM; rw [ht]; simp only [optMax]; omega

theorem attr_le_langM {l : Lang} {attrs : List AttrRow} {r : AttrRow} {p : AttrRow → Bool} (ht : l.attrs = some attrs)
    (h : attrs.find? p = some r) : r.name.length + (r.value.getD []).length ≤ langM l := by
  have := le_maxLen (fun r : AttrRow => r.name.length + (r.value.getD []).length) (List.mem_of_find?_eq_some h)
  unfold langM; rw [ht]; simp only [optMax]; omega

theorem val_le_langM {l : Lang} {vals : List ValRow} {r : ValRow} {p : ValRow → Bool} (ht : l.values = some vals)
    (h : vals.find? p = some r) : r.name.length ≤ langM l := by
  have := le_maxLen (fun r : ValRow => r.name.length) (List.mem_of_find?_eq_some h)
  unfold langM; rw [ht]; simp only [optMax]; omega

theorem ext_le_langM {l : Lang} {exts : List ExtRow} {r : ExtRow} {p : ExtRow → Bool} (ht : l.exts = some exts)
    (h : exts.find? p = some r) : r.name.length ≤ langM l := by
  have := le_maxLen (fun r : ExtRow => r.name.length) (List.mem_of_find?_eq_some h)
  unfold langM; rw [ht]; simp only [optMax]; omega

/-! ### Where strings come from -/

/-- What a string-table reference can deliver at most. -/
def strBound (s : PState) : Nat :=
  match s.strtbl with
  | none => 5
  | some t => t.length - 1

/-- `N` bounds the remaining input and the string-table strings, `M` the rows of the language. -/
structure Ctx (N M : Nat) (s : PState) : Prop where
  rest : s.rest.length ≤ N
  tbl : strBound s ≤ N
  lang : ∃ l, s.lang = some l ∧ langM l ≤ M

theorem Ctx.adv {N M k : Nat} {s s' : PState} (h : Ctx N M s) (a : Adv k s s') : Ctx N M s' := by
  refine ⟨?_, ?_, ?_⟩
  · have := a.len; have := h.rest; omega
  · have := h.tbl; unfold strBound at this ⊢; rw [a.strtbl]; exact this
  · rw [a.lang]; exact h.lang

theorem Ctx.lang_ne {N M : Nat} {s : PState} (h : Ctx N M s) : s.lang ≠ none := by
  obtain ⟨l, hl, _⟩ := h.lang; rw [hl]; simp

theorem OkE.of_Ok {β : Type} {P : β → Prop} {m : Except Err β} (h : Ok P m) : OkE P m := fun _ hb => h.of_ok hb

theorem OkE.and {β : Type} {P Q : β → Prop} {m : Except Err β} (h1 : OkE P m) (h2 : OkE Q m) :
    OkE (fun b => P b ∧ Q b) m := fun b hb => ⟨h1 b hb, h2 b hb⟩

theorem OkE.mono {β : Type} {P Q : β → Prop} {m : Except Err β} (h1 : OkE P m) (h : ∀ b, P b → Q b) : OkE Q m :=
  fun b hb => h b (h1 b hb)

theorem convTerm_len (cs : Nat) (avail : Bytes) :
    OkE (fun p => p.1.length + 1 ≤ avail.length ∧ p.1.length + 1 = p.2) (convTerm cs avail) := by
  unfold convTerm
  split
  · split <;> exact OkE.error
  · dsimp only
    split
    · exact OkE.error
    · split
      · refine OkE.pure ?_
        dsimp only
        rw [List.length_take]
        omega
      · exact OkE.error

/-- An inline string is paid for octet by octet (and its terminator). -/
theorem parseTermstr_len (s : PState) :
    OkE (fun p => p.1.length + 1 + p.2.rest.length ≤ s.rest.length) (parseTermstr s) := by
  unfold parseTermstr
  refine OkE.bind (convTerm_len s.charset s.rest) ?_
  rintro ⟨str, used⟩ ⟨h1, h2⟩
  refine OkE.pure ?_
  dsimp only at h1 h2 ⊢
  rw [List.length_drop]
  omega

/-- A string-table reference delivers a C string inside the table (or `xmlns`). -/
theorem strtblRef_len (s : PState) (i : Nat) : OkE (fun str => str.length ≤ strBound s) (strtblRef s i) := by
  unfold strtblRef strBound
  cases hs : s.strtbl with
  | none =>
    dsimp only
    split
    · exact OkE.pure (by decide)
    · exact OkE.error
  | some tbl =>
    dsimp only
    split
    · exact OkE.error
    · refine OkE.bind (convTerm_len _ _) ?_
      rintro ⟨str, used⟩ ⟨h1, _⟩
      refine OkE.pure ?_
      dsimp only at h1 ⊢
      rw [List.length_drop] at h1
      omega

theorem entityLoop_len : ∀ (f code idx : Nat) (acc : Bytes), (entityLoop f code idx acc).length ≤ acc.length + f + 1
  | 0, _, _, _ => by simp [entityLoop]
  | f + 1, code, idx, acc => by
    simp only [entityLoop]
    split
    · have := entityLoop_len f (code >>> 6) (idx - 1) (UInt8.ofNat (0x80 ||| (code &&& 0x3F)) :: acc)
      simp only [List.length_cons] at this; omega
    · simp only [List.length_cons]; omega

/-- A character entity is at most 7 octets. -/
theorem entityBytes_len (code : Nat) : OkE (fun b => b.length ≤ 7) (entityBytes code) := by
  unfold entityBytes
  split
  · exact OkE.error
  · split
    · split
      · exact OkE.pure (by simp)
      · exact OkE.pure (by simp)
    · refine OkE.pure ?_
      have := entityLoop_len 6 code 5 []
      rw [List.length_take]
      simp only [List.length_nil] at this
      omega

theorem mbLoop_len : ∀ (n acc : Nat) (bs : Bytes), OkE (fun p => p.2.length + 1 ≤ bs.length) (mbLoop n acc bs) :=
  fun n acc bs => OkE.of_Ok ((mbLoop_ok n acc bs).mono fun _ h => h.2)

/-- An opaque is paid for octet by octet, plus its token and length field. -/
theorem parseOpaque_len (s : PState) :
    OkE (fun p => p.1.length + 2 + p.2.rest.length ≤ s.rest.length) (parseOpaque s) := by
  unfold parseOpaque
  intro p hp
  obtain ⟨s1, h1, hp⟩ := bind_eq_ok2 hp
  obtain ⟨⟨len, s2⟩, h2, hp⟩ := bind_eq_ok2 hp
  dsimp only at hp
  have a1 : s1.rest.length + 1 ≤ s.rest.length := by
    unfold skip1 at h1
    split at h1
    · cases h1
    · rename_i b r hr
      cases h1
      simp [hr]
  have a2 : s2.rest.length + 1 ≤ s1.rest.length := by
    unfold parseMb at h2
    obtain ⟨⟨v, r⟩, h3, h2⟩ := bind_eq_ok2 h2
    have := mbLoop_len 5 0 s1.rest _ h3
    cases h2
    exact this
  split at hp
  · cases hp
  · cases hp
    dsimp only
    rw [List.length_take, List.length_drop]
    omega


/-! ### Typed decoders -/

theorem decNat_length_le : ∀ (k n : Nat), n < 10 ^ k → (Typed.decNat n).length ≤ max k 1
  | 0, n, h => by
    have : n < 10 := by simp at h; omega
    rw [Lemmas.Typed.decNat_lt this]; simp
  | k + 1, n, h => by
    by_cases h10 : n < 10
    · rw [Lemmas.Typed.decNat_lt h10]; simp
    · rw [Lemmas.Typed.decNat_ge (by omega)]
      have h1 : n / 10 < 10 ^ k := by
        rw [Nat.div_lt_iff_lt_mul (by omega)]
        rw [Nat.pow_succ] at h; exact h
      have := decNat_length_le k (n / 10) h1
      have hk : 1 ≤ k := by
        cases k with
        | zero => simp at h1; omega
        | succ k => omega
      simp only [List.length_append, List.length_cons, List.length_nil]
      omega

theorem natDigits_length_le (k n : Nat) (h : n < 10 ^ k) : (natDigits n).length ≤ max k 1 := by
  rw [EncW.natDigits_eq_decNat]; exact decNat_length_le k n h

theorem b64Value_len (d : Bytes) : OkE (fun o => o.length ≤ 2 * d.length + 2) (decodeBase64Value d) := by
  unfold decodeBase64Value
  split
  · exact OkE.error
  · refine OkE.pure ?_
    cases d with
    | nil => simp [b64EncodeGo]
    | cons a r =>
      have : ∀ (s : Bytes), 3 * (b64EncodeGo s).length ≤ 4 * s.length + 8 := by
        intro s
        fun_induction b64EncodeGo s with
        | case1 a b c r ih => simp only [List.length_cons]; omega
        | case2 a b => simp
        | case3 a => simp
        | case4 => simp
      have := this (a :: r)
      simp only [List.length_cons] at this ⊢
      omega

theorem binToHexUpper_length (d : Bytes) : (binToHexUpper d).length = 2 * d.length := by
  unfold binToHexUpper
  induction d with
  | nil => rfl
  | cons b r ih => simp only [List.flatMap_cons, List.length_append, List.length_cons, List.length_nil, ih]; omega

theorem insertAt_length (d : Bytes) (c : UInt8) (pos : Nat) : (insertAt d c pos).length = d.length + 1 := by
  unfold insertAt
  simp only [List.length_append, List.length_cons, List.length_take, List.length_drop]
  omega

theorem ite_len_le {c : Prop} [Decidable c] {a b : Bytes} {k : Nat} (ha : a.length ≤ k) (hb : b.length ≤ k) :
    (if c then a else b).length ≤ k := by split <;> assumption

/-- An SI / EMN date-time attribute value is at most 28 octets. -/
theorem decodeDatetime_len (d : Bytes) : OkE (fun o => o.length ≤ 28) (decodeDatetime d) := by
  unfold decodeDatetime
  dsimp only
  split
  · exact OkE.error
  · rename_i hc
    have hh := binToHexUpper_length d
    have hlen : (binToHexUpper d).length ≤ 14 := by
      simp only [Bool.or_eq_true, decide_eq_true_eq, not_or, Nat.not_lt, beq_iff_eq] at hc
      omega
    refine OkE.pure ?_
    generalize binToHexUpper d = h at hlen ⊢
    have e3 : (insertAt (insertAt (insertAt h 45 4) 45 7) 84 10).length = h.length + 3 := by
      simp only [insertAt_length]
    generalize insertAt (insertAt (insertAt h 45 4) 45 7) 84 10 = h3 at e3 ⊢
    have e4 : (if h.length > 10 then insertAt h3 58 13 else h3).length ≤ h.length + 4 := by
      split
      · rw [insertAt_length]; omega
      · omega
    generalize (if h.length > 10 then insertAt h3 58 13 else h3) = h4 at e4 ⊢
    have e5 : (if h.length > 12 then insertAt h4 58 16 else h4).length ≤ h.length + 5 := by
      split
      · rw [insertAt_length]; omega
      · omega
    generalize (if h.length > 12 then insertAt h4 58 16 else h4) = h5 at e5 ⊢
    have e6 : (if (h.length == 8) = true then h5 ++ b!"00:00:00" else if (h.length == 10) = true then h5 ++ b!":00:00"
        else if (h.length == 12) = true then h5 ++ b!":00" else h5).length ≤ h.length + 13 := by
      repeat' split
      all_goals (first | omega | (simp only [List.length_append, List.length_cons, List.length_nil]; omega))
    generalize (if (h.length == 8) = true then h5 ++ b!"00:00:00" else if (h.length == 10) = true then h5 ++ b!":00:00"
        else if (h.length == 12) = true then h5 ++ b!":00" else h5) = h6 at e6 ⊢
    simp only [List.length_append, List.length_cons, List.length_nil]
    omega

theorem wvIntLoop_lt : ∀ (d : Bytes) (acc : Nat), acc < 4294967296 → OkE (fun v => v < 4294967296) (wvIntLoop d acc)
  | [], acc, h => by simp only [wvIntLoop]; exact OkE.pure h
  | b :: r, acc, h => by
    simp only [wvIntLoop]
    split
    · exact OkE.error
    · rename_i hacc
      refine wvIntLoop_lt r _ ?_
      have hb : b.toNat < 2 ^ 8 := b.toNat_lt
      have h1 : acc <<< 8 < 2 ^ 32 := by
        rw [Nat.shiftLeft_eq]; omega
      exact Nat.or_lt_two_pow h1 (by omega)

/-- A Wireless-Village integer prints with at most 10 digits. -/
theorem decodeWvInteger_len (d : Bytes) : OkE (fun o => o.length ≤ 10) (decodeWvInteger d) := by
  unfold decodeWvInteger
  refine OkE.bind (wvIntLoop_lt d 0 (by omega)) ?_
  intro v hv
  refine OkE.pure ?_
  have := natDigits_length_le 10 v (by omega)
  omega

theorem pad2_len (n : Nat) (h : n < 100) : (pad2 n).length ≤ 3 := by
  have := natDigits_length_le 2 n (by omega)
  unfold pad2; split
  · simp only [List.length_cons]; omega
  · omega

theorem pad4_len (n : Nat) (h : n < 10000) : (pad4 n).length ≤ 7 := by
  have := natDigits_length_le 4 n (by omega)
  unfold pad4
  repeat' split
  all_goals (first | omega | (simp only [List.length_append, List.length_cons, List.length_nil]; omega))

theorem and_lt (a m : Nat) : a &&& m ≤ m := Nat.and_le_right

/-- A Wireless-Village date-time prints with at most 25 octets. -/
theorem decodeWvDatetime_len (d : Bytes) : OkE (fun o => o.length ≤ 25) (decodeWvDatetime d) := by
  unfold decodeWvDatetime
  split
  · rename_i b0 b1 b2 b3 b4 b5
    dsimp only
    have y : ((b0.toNat &&& 0x3F) <<< 6) + ((b1.toNat >>> 2) &&& 0x3F) < 10000 := by
      have h1 := and_lt b0.toNat 0x3F
      have h2 := and_lt (b1.toNat >>> 2) 0x3F
      rw [Nat.shiftLeft_eq]; omega
    have mo : ((b1.toNat &&& 0x03) <<< 2) ||| ((b2.toNat >>> 6) &&& 0x03) < 100 := by
      have h1 := and_lt b1.toNat 0x03
      have h2 := and_lt (b2.toNat >>> 6) 0x03
      have : ((b1.toNat &&& 0x03) <<< 2) ||| ((b2.toNat >>> 6) &&& 0x03) < 2 ^ 6 :=
        Nat.or_lt_two_pow (by rw [Nat.shiftLeft_eq]; omega) (by omega)
      omega
    have da : (b2.toNat >>> 1) &&& 0x1F < 100 := by have := and_lt (b2.toNat >>> 1) 0x1F; omega
    have ho : ((b2.toNat &&& 0x01) <<< 4) ||| ((b3.toNat >>> 4) &&& 0x0F) < 100 := by
      have h1 := and_lt b2.toNat 0x01
      have h2 := and_lt (b3.toNat >>> 4) 0x0F
      have : ((b2.toNat &&& 0x01) <<< 4) ||| ((b3.toNat >>> 4) &&& 0x0F) < 2 ^ 6 :=
        Nat.or_lt_two_pow (by rw [Nat.shiftLeft_eq]; omega) (by omega)
      omega
    have mi : ((b3.toNat &&& 0x0F) <<< 2) ||| ((b4.toNat >>> 6) &&& 0x03) < 100 := by
      have h1 := and_lt b3.toNat 0x0F
      have h2 := and_lt (b4.toNat >>> 6) 0x03
      have : ((b3.toNat &&& 0x0F) <<< 2) ||| ((b4.toNat >>> 6) &&& 0x03) < 2 ^ 6 :=
        Nat.or_lt_two_pow (by rw [Nat.shiftLeft_eq]; omega) (by omega)
      omega
    have se : b4.toNat &&& 0x3F < 100 := by have := and_lt b4.toNat 0x3F; omega
    have l1 := pad4_len _ y
    have l2 := pad2_len _ mo
    have l3 := pad2_len _ da
    have l4 := pad2_len _ ho
    have l5 := pad2_len _ mi
    have l6 := pad2_len _ se
    have l7 : (if (b4.toNat &&& 0x3F != 0) = true then pad2 (b4.toNat &&& 0x3F) else []).length ≤ 3 := by
      split
      · exact l6
      · simp
    have core : (pad4 (((b0.toNat &&& 0x3F) <<< 6) + ((b1.toNat >>> 2) &&& 0x3F)) ++
        pad2 (((b1.toNat &&& 0x03) <<< 2) ||| ((b2.toNat >>> 6) &&& 0x03)) ++ pad2 ((b2.toNat >>> 1) &&& 0x1F) ++ ([84] : Bytes) ++
        pad2 (((b2.toNat &&& 0x01) <<< 4) ||| ((b3.toNat >>> 4) &&& 0x0F)) ++
        pad2 (((b3.toNat &&& 0x0F) <<< 2) ||| ((b4.toNat >>> 6) &&& 0x03)) ++
        (if (b4.toNat &&& 0x3F != 0) = true then pad2 (b4.toNat &&& 0x3F) else [])).length ≤ 23 := by
      simp only [List.length_append, List.length_cons, List.length_nil]
      omega
    generalize (pad4 (((b0.toNat &&& 0x3F) <<< 6) + ((b1.toNat >>> 2) &&& 0x3F)) ++
        pad2 (((b1.toNat &&& 0x03) <<< 2) ||| ((b2.toNat >>> 6) &&& 0x03)) ++ pad2 ((b2.toNat >>> 1) &&& 0x1F) ++ ([84] : Bytes) ++
        pad2 (((b2.toNat &&& 0x01) <<< 4) ||| ((b3.toNat >>> 4) &&& 0x0F)) ++
        pad2 (((b3.toNat &&& 0x0F) <<< 2) ||| ((b4.toNat >>> 6) &&& 0x03)) ++
        (if (b4.toNat &&& 0x3F != 0) = true then pad2 (b4.toNat &&& 0x3F) else [])) = c at core ⊢
    split
    · refine OkE.pure ?_; simp only [List.length_append, List.length_cons, List.length_nil]; omega
    · split
      · exact OkE.pure (by omega)
      · refine OkE.pure ?_; simp only [List.length_append, List.length_cons, List.length_nil]; omega
  · exact OkE.error

/-- **Typed content**: what an opaque of `k` octets decodes to is at most `2k + 25` octets. -/
theorem decodeOpaqueContent_len (l : Nat) (cur : Option TagRow) (d : Bytes) :
    OkE (fun o => o.length ≤ 2 * d.length + 25) (decodeOpaqueContent l cur d) := by
  have hid : OkE (fun o => o.length ≤ 2 * d.length + 25) (Except.ok d : Except Err Bytes) := OkE.pure (by omega)
  have h64 : OkE (fun o => o.length ≤ 2 * d.length + 25) (decodeBase64Value d) :=
    OkE.mono (b64Value_len d) fun o h => by omega
  unfold decodeOpaqueContent
  split
  · split
    · exact hid
    · split
      · exact OkE.mono (decodeWvInteger_len d) fun o h => by omega
      · exact OkE.mono (decodeWvDatetime_len d) fun o h => by omega
      · exact hid
  · split
    · split
      · split
        · exact h64
        · exact hid
      · exact hid
    · split
      · split
        · split
          · exact h64
          · exact hid
        · exact hid
      · exact hid

theorem decodeOpaqueAttrValue_len (l : Nat) (d : Bytes) :
    OkE (fun o => o.length ≤ 2 * d.length + 2) (decodeOpaqueAttrValue l d) := by
  unfold decodeOpaqueAttrValue
  split
  · exact b64Value_len d
  · exact OkE.pure (by omega)


/-! ### The potential: every consumed octet pays for at most `W` units -/

theorem pot_pay {W k r r' a : Nat} (hr : r' + k ≤ r) (ha : a ≤ W * k) : a + W * r' ≤ W * r := by
  have : W * (r' + k) ≤ W * r := Nat.mul_le_mul_left W hr
  rw [Nat.mul_add] at this; omega

theorem pot_one {W r r' a : Nat} (hr : r' + 1 ≤ r) (ha : a ≤ W) : a + W * r' ≤ W * r :=
  pot_pay hr (by rw [Nat.mul_one]; exact ha)

theorem pot_le {W r r' : Nat} (hr : r' ≤ r) : W * r' ≤ W * r := Nat.mul_le_mul_left W hr

syntax "bind_oke " term " with " rintroPat ppSpace rintroPat : tactic
macro_rules
  | `(tactic| bind_oke $t with $p $h) =>
    `(tactic| (refine OkE.bind $t ?_; rintro $p $h; try dsimp only at *))

theorem skip1_adv (what : String) (s : PState) : OkE (fun s' => Adv 1 s s') (skip1 what s) := by
  unfold skip1
  cases hr : s.rest with
  | nil => exact OkE.error
  | cons b r =>
    refine OkE.pure ?_
    exact ⟨rfl, rfl, rfl, by rw [hr]; exact List.suffix_cons _ _, by simp [hr]⟩

theorem optSwitchA {γ : Type} {Q : γ → Prop} (ts : Bool) (s : PState) {jp : PState → Except Err γ}
    (hjp : ∀ s1, Adv 0 s s1 → OkE Q (jp s1)) :
    OkE Q (if isToken s 0x00 = true then parseSwitchPage ts s >>= jp else Pure.pure s >>= jp) := by
  split
  · rename_i h
    exact OkE.bind (OkE.of_Ok (parseSwitchPage_ok h)) fun s1 h1 => hjp s1 h1.weaken
  · exact hjp s (Adv.refl s)

variable {N M : Nat}

theorem Ctx.curTag {s : PState} (h : Ctx N M s) (x : Option TagRow) : Ctx N M { s with curTag := x } :=
  ⟨h.rest, h.tbl, h.lang⟩

/-- An extension token delivers `$(name:escape)` around a string of the document (WML), or an
    extension-value name of the table (Wireless Village). -/
theorem parseExtension_len (ts : Bool) {s : PState} (hc : Ctx N M s) :
    OkE (fun p => (p.1.getD []).length ≤ N + M + 10) (parseExtension ts s) := by
  unfold parseExtension
  refine optSwitchA ts s ?_; intro s1 h1
  bind_oke (OkE.of_Ok (parseU8_ok s1)) with ⟨tok, s2⟩ h2
  have c2 : Ctx N M s2 := hc.adv (h1.trans h2 (m := 0))
  obtain ⟨l, hl, hM⟩ := c2.lang
  rw [hl]
  dsimp only
  have hnone : ∀ (s' : PState), OkE (fun p : Option Bytes × PState => (p.1.getD []).length ≤ N + M + 10)
      (pure (none, s')) := fun s' => OkE.pure (by simp)
  split
  · split
    · exact hnone _
    · try dsimp only
      split
      · exact OkE.error
      · rename_i suf hsuf
        have hs : suf.length ≤ 7 := by
          repeat' split at hsuf
          all_goals (first | (cases hsuf; decide) | cases hsuf)
        split
        · bind_oke (OkE.and (OkE.of_Ok (parseTermstr_ok s2)) (parseTermstr_len s2)) with ⟨v, s3⟩ ⟨_, h3⟩
          refine OkE.pure ?_
          have := c2.rest
          simp only [Option.getD_some, List.length_append, List.length_cons, List.length_nil]
          omega
        · bind_oke (OkE.of_Ok (parseMb_ok s2)) with ⟨idx, s3⟩ h3
          bind_oke (strtblRef_len s3 idx) with v hv
          refine OkE.pure ?_
          have := (c2.adv h3).tbl
          simp only [Option.getD_some, List.length_append, List.length_cons, List.length_nil]
          omega
  · split
    · split
      · exact hnone _
      · bind_oke (OkE.triv (parseMb s2)) with ⟨v, s3⟩ _
        split
        · exact OkE.error
        · rename_i exts hexts
          split
          · exact hnone _
          · rename_i r hr
            refine OkE.pure ?_
            have := ext_le_langM hexts hr
            simp only [Option.getD_some]
            omega
    · exact hnone _

theorem parseEntity_len (s : PState) : OkE (fun p => p.1.length ≤ 7) (parseEntity s) := by
  unfold parseEntity
  bind_oke (OkE.triv (skip1 "ENTITY" s)) with s1 _
  bind_oke (OkE.triv (parseMb s1)) with ⟨code, s2⟩ _
  bind_oke (entityBytes_len code) with bs hb
  exact OkE.pure hb

theorem parseString_len {s : PState} (hc : Ctx N M s) : OkE (fun p => p.1.length ≤ N) (parseString s) := by
  unfold parseString
  split
  · bind_oke (skip1_adv "STR_I" s) with s1 h1
    have := (hc.adv h1).rest
    exact OkE.mono (parseTermstr_len s1) fun p hp => by omega
  · split
    · bind_oke (skip1_adv "STR_T" s) with s1 h1
      bind_oke (OkE.of_Ok (parseMb_ok s1)) with ⟨idx, s2⟩ h2
      bind_oke (strtblRef_len s2 idx) with v hv
      refine OkE.pure ?_
      have := ((hc.adv h1).adv h2).tbl
      show v.length ≤ N
      omega
    · exact OkE.error

theorem parseLiteral_len {s : PState} (hc : Ctx N M s) : OkE (fun p => p.1.2.length ≤ N) (parseLiteral s) := by
  unfold parseLiteral
  bind_oke (OkE.of_Ok (parseU8_ok s)) with ⟨tok, s1⟩ h1
  bind_oke (OkE.of_Ok (parseMb_ok s1)) with ⟨idx, s2⟩ h2
  bind_oke (strtblRef_len s2 idx) with str hv
  have := ((hc.adv h1).adv h2).tbl
  repeat' split
  all_goals first | exact OkE.error | (refine OkE.pure ?_; dsimp only; omega)

/-- An attribute start delivers its name and value prefix: a table row, a string-table string, or `unknown`. -/
theorem parseAttrStart_len {s : PState} (hc : Ctx N M s) :
    OkE (fun p => p.1.1.size + (p.1.2.getD []).length ≤ N + M + 7) (parseAttrStart s) := by
  unfold parseAttrStart
  split
  · bind_oke (parseLiteral_len hc) with ⟨⟨m, str⟩, s1⟩ h1
    refine OkE.pure ?_
    simp only [AName.size, Option.getD_none, List.length_nil]
    omega
  · refine optSwitchA false s ?_; intro s1 h1
    bind_oke (OkE.of_Ok (parseU8_ok s1)) with ⟨tag, s2⟩ h2
    have c2 : Ctx N M s2 := hc.adv (h1.trans h2 (m := 0))
    obtain ⟨l, hl, hM⟩ := c2.lang
    rw [hl]
    dsimp only
    split
    · exact OkE.error
    · rename_i attrs hattrs
      split
      · refine OkE.pure ?_
        simp only [AName.size, unknownStr, Option.getD_none, List.length_cons, List.length_nil]
        omega
      · rename_i r hr
        refine OkE.pure ?_
        have := attr_le_langM hattrs hr
        simp only [AName.size]
        omega

/-- One piece of an attribute value (or of PI data) is paid for by the octets it consumes. -/
theorem parseAttrValue_pot {W : Nat} (hW : N + M + 10 ≤ W) {s : PState} (hc : Ctx N M s) :
    OkE (fun p => Adv 1 s p.2 ∧ (p.1.getD []).length + W * p.2.rest.length ≤ W * s.rest.length)
      (parseAttrValue s) := by
  have hl := hc.lang_ne
  unfold parseAttrValue
  split
  · refine OkE.mono (OkE.and (OkE.of_Ok (parseExtension_ok false s)) (parseExtension_len false hc)) ?_
    rintro p ⟨h1, h2⟩
    exact ⟨h1, pot_one h1.len (by omega)⟩
  · split
    · rename_i h
      bind_oke (OkE.and (OkE.of_Ok (parseEntity_ok h)) (parseEntity_len s)) with ⟨b, s1⟩ ⟨h1, h2⟩
      refine OkE.pure ⟨h1, ?_⟩
      simp only [Option.getD_some]
      exact pot_one h1.len (by omega)
    · split
      · bind_oke (OkE.and (OkE.of_Ok (parseString_ok s)) (parseString_len hc)) with ⟨b, s1⟩ ⟨h1, h2⟩
        refine OkE.pure ⟨h1, ?_⟩
        simp only [Option.getD_some]
        exact pot_one h1.len (by omega)
      · split
        · rename_i h
          bind_oke (OkE.and (OkE.of_Ok (parseOpaque_ok h)) (parseOpaque_len s)) with ⟨d, s1⟩ ⟨h1, h2⟩
          split
          · exact OkE.error
          · bind_oke (decodeOpaqueAttrValue_len _ d) with d' hd'
            refine OkE.pure ⟨h1.weaken, ?_⟩
            simp only [Option.getD_some]
            refine pot_pay (k := d.length + 2) (by omega) ?_
            have : 2 * (d.length + 2) ≤ W * (d.length + 2) := Nat.mul_le_mul_right _ (by omega)
            omega
        · refine optSwitchA false s ?_; intro s1 h1
          bind_oke (OkE.of_Ok (parseU8_ok s1)) with ⟨tag, s2⟩ h2
          have h12 : Adv 1 s s2 := h1.trans h2
          have c2 : Ctx N M s2 := hc.adv h12
          obtain ⟨l, hl2, hM⟩ := c2.lang
          rw [hl2]
          dsimp only
          split
          · exact OkE.error
          · rename_i vals hvals
            split
            · exact OkE.error
            · rename_i r hr
              refine OkE.pure ⟨h12, ?_⟩
              have := val_le_langM hvals hr
              simp only [Option.getD_some]
              exact pot_one h12.len (by omega)

theorem attrValueLoop_pot {W : Nat} (hW : N + M + 10 ≤ W) : ∀ (f : Nat) (acc : Bytes) (s : PState), Ctx N M s →
    OkE (fun p => Adv 0 s p.2 ∧ p.1.length + W * p.2.rest.length ≤ acc.length + W * s.rest.length)
      (attrValueLoop f acc s)
  | 0, _, _, _ => by simp only [attrValueLoop]; exact OkE.error
  | f + 1, acc, s, hc => by
    simp only [attrValueLoop]
    split
    · bind_oke (parseAttrValue_pot hW hc) with ⟨v, s1⟩ ⟨h1, hp⟩
      refine OkE.mono (attrValueLoop_pot hW f _ s1 (hc.adv h1)) ?_
      rintro p ⟨h2, hp2⟩
      refine ⟨h1.trans h2, ?_⟩
      simp only [List.length_append] at hp2
      omega
    · exact OkE.pure ⟨Adv.refl s, Nat.le_refl _⟩

theorem piValueLoop_pot {W : Nat} (hW : N + M + 10 ≤ W) : ∀ (f : Nat) (acc : Bytes) (s : PState), Ctx N M s →
    OkE (fun p => Adv 0 s p.2 ∧ p.1.length + W * p.2.rest.length ≤ acc.length + W * s.rest.length)
      (piValueLoop f acc s)
  | 0, _, _, _ => by simp only [piValueLoop]; exact OkE.error
  | f + 1, acc, s, hc => by
    simp only [piValueLoop]
    split
    · exact OkE.pure ⟨Adv.refl s, Nat.le_refl _⟩
    · bind_oke (parseAttrValue_pot hW hc) with ⟨v, s1⟩ ⟨h1, hp⟩
      refine OkE.mono (piValueLoop_pot hW f _ s1 (hc.adv h1)) ?_
      rintro p ⟨h2, hp2⟩
      refine ⟨h1.trans h2, ?_⟩
      simp only [List.length_append] at hp2
      omega

/-- One attribute — the `WBXMLAttribute`, its name and its value buffer — is paid for by its octets. -/
theorem parseAttribute_pot {W : Nat} (hW : N + M + 40 ≤ W) {s : PState} (hc : Ctx N M s) :
    OkE (fun p => Adv 1 s p.2 ∧ p.1.size + W * p.2.rest.length ≤ W * s.rest.length) (parseAttribute s) := by
  unfold parseAttribute
  bind_oke (OkE.and (OkE.of_Ok (parseAttrStart_ok s)) (parseAttrStart_len hc)) with ⟨⟨name, pre⟩, s1⟩ ⟨h1, hn⟩
  bind_oke (attrValueLoop_pot (W := W) (by omega) _ (pre.getD []) s1 (hc.adv h1)) with ⟨v, s2⟩ ⟨h2, hv⟩
  refine OkE.bind (P := fun v' => v'.length ≤ v.length + 28) ?_ ?_
  · have hid : OkE (fun v' => v'.length ≤ v.length + 28) (Except.ok v : Except Err Bytes) := OkE.pure (by omega)
    have hdt : OkE (fun v' => v'.length ≤ v.length + 28) (decodeDatetime v) :=
      OkE.mono (decodeDatetime_len v) fun o h => by omega
    split
    · split
      · split
        · exact hdt
        · split
          · exact hdt
          · exact hid
      · exact OkE.error
      · exact hid
    · exact hid
  · intro v' hv'
    refine OkE.pure ⟨h1.trans h2, ?_⟩
    have hfin : (if v'.isEmpty = true then v' else v' ++ [0]).length ≤ v'.length + 1 := by
      split
      · omega
      · simp
    have hr1 := h1.len
    have hw1 : W + W * s1.rest.length ≤ W * s.rest.length := by
      have := pot_one (W := W) (a := W) hr1 (Nat.le_refl _); exact this
    simp only [Attr.size]
    omega

theorem attrsLoop_pot {W : Nat} (hW : N + M + 40 ≤ W) : ∀ (f : Nat) (acc : List Attr) (s : PState), Ctx N M s →
    OkE (fun p => Adv 1 s p.2 ∧ attrsSize p.1 + W * p.2.rest.length ≤ attrsSize acc + W * s.rest.length)
      (attrsLoop f acc s)
  | 0, _, _, _ => by simp only [attrsLoop]; exact OkE.error
  | f + 1, acc, s, hc => by
    simp only [attrsLoop]
    bind_oke (parseAttribute_pot hW hc) with ⟨a, s1⟩ ⟨h1, hp⟩
    have e : attrsSize (acc ++ [a]) = attrsSize acc + a.size := by
      rw [attrsSize_append]; simp [attrsSize]
    split
    · refine OkE.pure ⟨h1, ?_⟩
      show attrsSize (acc ++ [a]) + W * s1.rest.length ≤ _
      rw [e]; omega
    · refine OkE.mono (attrsLoop_pot hW f _ s1 (hc.adv h1)) ?_
      rintro p ⟨h2, hp2⟩
      refine ⟨h1.trans h2, ?_⟩
      rw [e] at hp2; omega

/-- A processing instruction is paid for by its octets. -/
theorem parsePi_pot (cc : Bytes → Nat) {W : Nat} (hW : N + M + 40 ≤ W) {s : PState} (hc : Ctx N M s) :
    OkE (fun p => Adv 3 s p.2 ∧ pevSize1 cc p.1 + W * p.2.rest.length ≤ W * s.rest.length) (parsePi s) := by
  unfold parsePi
  bind_oke (skip1_adv "PI" s) with s1 h1
  bind_oke (OkE.and (OkE.of_Ok (parseAttrStart_ok s1)) (parseAttrStart_len (hc.adv h1))) with ⟨⟨name, pre⟩, s2⟩ ⟨h2, hn⟩
  have c2 : Ctx N M s2 := (hc.adv h1).adv h2
  bind_oke (piValueLoop_pot (W := W) (by omega) _ (pre.getD []) s2 c2) with ⟨v, s3⟩ ⟨h3, hv⟩
  bind_oke (skip1_adv "END of PI" s3) with s4 h4
  refine OkE.pure ⟨((h1.trans h2 (m := 2)).trans h3 (m := 2)).trans h4, ?_⟩
  have hfin : (if v.isEmpty = true then v else v ++ [0]).length ≤ v.length + 1 := by
    split
    · omega
    · simp
  have hw2 : W + W * s2.rest.length ≤ W * s1.rest.length := pot_one (W := W) (a := W) h2.len (Nat.le_refl _)
  have hw1 : W * s1.rest.length ≤ W * s.rest.length := pot_le (by have := h1.len; omega)
  have hw4 : W * s4.rest.length ≤ W * s3.rest.length := pot_le (by have := h4.len; omega)
  simp only [pevSize1, aname_xml_size]
  omega


theorem parseStag_len {s : PState} (hc : Ctx N M s) : OkE (fun p => p.1.2.size ≤ N + M + 7) (parseStag s) := by
  unfold parseStag
  split
  · bind_oke (parseLiteral_len hc) with ⟨⟨m, str⟩, s1⟩ h1
    refine OkE.pure ?_
    simp only [Name.size, List.length_take]
    omega
  · unfold parseTag
    bind_oke (OkE.of_Ok (parseU8_ok s)) with ⟨tag, s1⟩ h1
    obtain ⟨l, hl, hM⟩ := (hc.adv h1).lang
    rw [hl]
    dsimp only
    split
    · exact OkE.error
    · rename_i tags htags
      split
      · refine OkE.pure ?_
        simp only [Name.size, unknownStr, List.length_cons, List.length_nil]
        omega
      · rename_i r hr
        refine OkE.pure ?_
        have := tag_le_langM htags hr
        simp only [Name.size]
        omega

/-- The attribute part of `parse_element`. -/
theorem elemAttrs_pot {W : Nat} (hW : N + M + 40 ≤ W) (tag : UInt8) {s : PState} (hc : Ctx N M s) :
    OkE (fun p => Adv 0 s p.2 ∧ attrsSize p.1 + W * p.2.rest.length ≤ W * s.rest.length)
      (if (tag.toNat &&& 0x80 != 0) = true then do
          let (as, s) ← attrsLoop (s.rest.length + 1) [] s
          let s ← skip1 "END of attributes" s
          pure (as, s)
        else pure (([] : List Attr), s)) := by
  split
  · bind_oke (attrsLoop_pot hW _ [] s hc) with ⟨as, s1⟩ ⟨h1, hp⟩
    bind_oke (skip1_adv "END of attributes" s1) with s2 h2
    refine OkE.pure ⟨(h1.trans h2 (m := 0)), ?_⟩
    have : W * s2.rest.length ≤ W * s1.rest.length := pot_le (by have := h2.len; omega)
    simp only [attrsSize] at hp
    dsimp only
    omega
  · exact OkE.pure ⟨Adv.refl s, by simp [attrsSize]⟩

/-- **Every unit of the event list is paid for by input**: elements and the content loop keep
    `pevSize events + W * remaining input` from growing. -/
theorem elem_content_size (cc : Bytes → Nat) {C W : Nat} (hcc : ∀ b : Bytes, b.length ≤ 2 * N + M + 35 → cc b ≤ C)
    (hW : N + M + 40 + C ≤ W) : ∀ (f : Nat),
    (∀ (ev : List Event) (s : PState), Ctx N M s →
        OkE (fun p => Adv 1 s p.2 ∧ pevSize cc p.1 + W * p.2.rest.length ≤ pevSize cc ev + W * s.rest.length)
          (parseElement f ev s)) ∧
    (∀ (ev : List Event) (s : PState), Ctx N M s →
        OkE (fun p => Adv 0 s p.2 ∧ pevSize cc p.1 + W * p.2.rest.length ≤ pevSize cc ev + W * s.rest.length)
          (contentLoop f ev s))
  | 0 => ⟨fun _ _ _ => by rw [parseElement]; exact OkE.error, fun _ _ _ => by rw [contentLoop]; exact OkE.error⟩
  | f + 1 => by
    obtain ⟨ihE, ihC⟩ := elem_content_size cc hcc hW f
    have hW' : N + M + 40 ≤ W := by omega
    constructor
    · intro ev s hc
      rw [parseElement]
      refine optSwitchA true s ?_; intro s1 h1
      bind_oke (OkE.and (OkE.of_Ok (parseStag_ok s1)) (parseStag_len (hc.adv h1))) with ⟨⟨tag, name⟩, s2⟩ ⟨h2, hn⟩
      have h12 : Adv 1 s s2 := h1.trans h2
      have hw : W + W * s2.rest.length ≤ W * s.rest.length := pot_one (W := W) (a := W) h12.len (Nat.le_refl _)
      -- the state after recording the current tag: same cursor
      cases name
      all_goals
        (refine OkE.bind (elemAttrs_pot hW' tag (hc.adv (k := 1)
            (by first | exact h12 | exact h12.of_rest_eq rfl rfl rfl rfl))) ?_
         rintro ⟨attrs, s4⟩ ⟨h34, hpa⟩
         dsimp only at h34 hpa ⊢
         have h14 : Adv 1 s s4 :=
           Adv.trans (k := 1) (j := 0) (by first | exact h12 | exact h12.of_rest_eq rfl rfl rfl rfl) h34
         refine OkE.bind (P := fun p => Adv 1 s p.2 ∧
             pevSize cc p.1 + 1 + W * p.2.rest.length ≤ pevSize cc ev + W * s.rest.length) ?_ ?_
         · split
           · bind_oke (ihC _ s4 (hc.adv h14)) with ⟨ev', s5⟩ ⟨h5, hc5⟩
             bind_oke (skip1_adv "END of element" s5) with s6 h6
             refine OkE.pure ⟨(h14.trans h5 (m := 1)).trans h6, ?_⟩
             have : W * s6.rest.length ≤ W * s5.rest.length := pot_le (by have := h6.len; omega)
             simp only [pevSize_append, pevSize_single, pevSize1, Name.size] at hc5 hn
             dsimp only
             omega
           · refine OkE.pure ⟨h14, ?_⟩
             simp only [pevSize_append, pevSize_single, pevSize1, Name.size] at hn ⊢
             omega
         · rintro ⟨ev', s5⟩ ⟨h5, hc5⟩
           refine OkE.pure ⟨h5.of_rest_eq rfl rfl rfl rfl, ?_⟩
           simp only [pevSize_append, pevSize_single, pevSize1]
           dsimp only at hc5 ⊢
           omega)
    · intro ev s hc
      have hl := hc.lang_ne
      rw [contentLoop]
      split
      · exact OkE.pure ⟨Adv.refl s, Nat.le_refl _⟩
      · have step : ∀ {ev' : List Event} {s1 : PState}, Adv 1 s s1 →
            pevSize cc ev' + W * s1.rest.length ≤ pevSize cc ev + W * s.rest.length →
            OkE (fun p => Adv 0 s p.2 ∧ pevSize cc p.1 + W * p.2.rest.length ≤ pevSize cc ev + W * s.rest.length)
              (contentLoop f ev' s1) := by
          intro ev' s1 h1 hc1
          refine OkE.mono (ihC ev' s1 (hc.adv h1)) ?_
          rintro p ⟨hp, hcp⟩
          exact ⟨h1.trans hp, by omega⟩
        -- character data from a string or a table: one octet consumed at least
        have stepc : ∀ (b : Bytes) {s1 : PState}, Adv 1 s s1 → b.length ≤ N + M + 10 →
            OkE (fun p => Adv 0 s p.2 ∧ pevSize cc p.1 + W * p.2.rest.length ≤ pevSize cc ev + W * s.rest.length)
              (contentLoop f (if b.isEmpty = true then ev else ev ++ [Event.chars b]) s1) := by
          intro b s1 h1 hb
          refine step h1 ?_
          have hcb := hcc b (by omega)
          have := pot_one (W := W) (a := b.length + 1 + cc b) h1.len (by omega)
          split
          · omega
          · simp only [pevSize_append, pevSize_single, pevSize1]; omega
        split
        · exact OkE.error
        · split
          · bind_oke (OkE.and (OkE.of_Ok (parseExtension_ok true s)) (parseExtension_len true hc)) with ⟨r, s1⟩ ⟨h1, hr⟩
            cases r with
            | none => exact step h1 (by have := pot_le (W := W) (by have := h1.len; omega : s1.rest.length ≤ s.rest.length); dsimp only; omega)
            | some b => exact stepc b h1 (by simp only [Option.getD_some] at hr; exact hr)
          · split
            · rename_i h
              bind_oke (OkE.and (OkE.of_Ok (parseEntity_ok h)) (parseEntity_len s)) with ⟨b, s1⟩ ⟨h1, hb⟩
              exact stepc b h1 (by omega)
            · split
              · bind_oke (OkE.and (OkE.of_Ok (parseString_ok s)) (parseString_len hc)) with ⟨b, s1⟩ ⟨h1, hb⟩
                exact stepc b h1 (by omega)
              · split
                · rename_i h
                  bind_oke (OkE.and (OkE.of_Ok (parseOpaque_ok h)) (parseOpaque_len s)) with ⟨d, s1⟩ ⟨h1, hd⟩
                  split
                  · exact OkE.error
                  · bind_oke (decodeOpaqueContent_len _ s1.curTag d) with d' hd'
                    refine step h1.weaken ?_
                    have hdN : d.length ≤ N := by have := hc.rest; omega
                    have hcd := hcc d' (by omega)
                    have hpay : d'.length + 1 + cc d' + W * s1.rest.length ≤ W * s.rest.length := by
                      refine pot_pay (k := d.length + 2) (by omega) ?_
                      have h13 : (13 + C) * (d.length + 2) ≤ W * (d.length + 2) := Nat.mul_le_mul_right _ (by omega)
                      rw [Nat.add_mul] at h13
                      have hC : C ≤ C * (d.length + 2) := Nat.le_mul_of_pos_right C (by omega)
                      omega
                    split
                    · omega
                    · simp only [pevSize_append, pevSize_single, pevSize1]; omega
                · split
                  · bind_oke (parsePi_pot cc hW' hc) with ⟨e, s1⟩ ⟨h1, hp⟩
                    refine step h1.weaken ?_
                    simp only [pevSize_append, pevSize_single]
                    omega
                  · split
                    · rename_i h
                      bind_oke (OkE.of_Ok (parseSwitchPage_ok (tagSpace := true) h)) with s1 h1
                      exact step h1.weaken (by
                        have := pot_le (W := W) (by have := h1.len; omega : s1.rest.length ≤ s.rest.length); omega)
                    · bind_oke (ihE ev s hc) with ⟨ev', s1⟩ ⟨h1, hc1⟩
                      exact step h1 hc1

theorem piLoop_pot (cc : Bytes → Nat) {W : Nat} (hW : N + M + 40 ≤ W) : ∀ (f : Nat) (ev : List Event) (s : PState), Ctx N M s →
    OkE (fun p => Adv 0 s p.2 ∧ pevSize cc p.1 + W * p.2.rest.length ≤ pevSize cc ev + W * s.rest.length) (piLoop f ev s)
  | 0, _, _, _ => by simp only [piLoop]; exact OkE.error
  | f + 1, ev, s, hc => by
    simp only [piLoop]
    split
    · bind_oke (parsePi_pot cc hW hc) with ⟨e, s1⟩ ⟨h1, hp⟩
      refine OkE.mono (piLoop_pot cc hW f _ s1 (hc.adv h1)) ?_
      rintro p ⟨h2, hp2⟩
      refine ⟨h1.trans h2, ?_⟩
      simp only [pevSize_append, pevSize_single] at hp2
      omega
    · exact OkE.pure ⟨Adv.refl s, Nat.le_refl _⟩

theorem parseBody_pot (cc : Bytes → Nat) {C W : Nat} (hcc : ∀ b : Bytes, b.length ≤ 2 * N + M + 35 → cc b ≤ C)
    (hW : N + M + 40 + C ≤ W) (ev : List Event) {s : PState} (hc : Ctx N M s) :
    OkE (fun p => pevSize cc p.1 + W * p.2.rest.length ≤ pevSize cc ev + W * s.rest.length) (parseBody ev s) := by
  unfold parseBody
  bind_oke (piLoop_pot cc (W := W) (by omega) _ ev s hc) with ⟨ev1, s1⟩ ⟨h1, p1⟩
  bind_oke ((elem_content_size cc hcc hW _).1 ev1 s1 (hc.adv h1)) with ⟨ev2, s2⟩ ⟨h2, p2⟩
  refine OkE.mono (piLoop_pot cc (W := W) (by omega) _ ev2 s2 ((hc.adv h1).adv h2)) ?_
  rintro p ⟨h3, p3⟩
  omega


/-! ### The header: language from the main table, string table inside the document -/

theorem headerPre_facts (cfg : PCfg) (bs : Bytes) :
    OkE (fun q => q.2.2.strtbl = none ∧ q.2.2.rest.length ≤ bs.length) (headerPre cfg bs) := by
  unfold headerPre
  bind_oke (OkE.of_Ok (parseU8_ok { rest := bs })) with ⟨ver, s1⟩ h1
  have t1 : s1.strtbl = none := h1.strtbl
  have r1 : s1.rest.length ≤ bs.length := by have := h1.len; dsimp only at this; omega
  refine OkE.bind (P := fun (q : Nat × Option Nat × PState) => q.2.2.strtbl = none ∧ q.2.2.rest.length ≤ bs.length) ?_ ?_
  · split
    · exact OkE.error
    · rename_i b r hr
      replace hr : s1.rest = b :: r := hr
      split
      · bind_oke (OkE.of_Ok (parseMb_ok _)) with ⟨i, s2⟩ h2
        refine OkE.pure ⟨h2.strtbl.trans t1, ?_⟩
        have := h2.len
        simp only [hr, List.length_cons] at r1
        dsimp only at this ⊢; omega
      · bind_oke (OkE.of_Ok (parseMb_ok _)) with ⟨pp, s2⟩ h2
        refine OkE.pure ⟨h2.strtbl.trans t1, ?_⟩
        have := h2.len
        dsimp only at this ⊢; omega
  · rintro ⟨pubId, pubIdx, s2⟩ ⟨t2, r2⟩
    dsimp only at t2 r2 ⊢
    refine OkE.bind (P := fun (q : PState) => q.strtbl = none ∧ q.rest.length ≤ bs.length) ?_ ?_
    · split
      · bind_oke (OkE.of_Ok (parseMb_ok _)) with ⟨cs, s3⟩ h3
        have := h3.len
        repeat' split
        all_goals first | exact OkE.error | exact OkE.pure ⟨h3.strtbl.trans t2, by dsimp only at this ⊢; omega⟩
      · exact OkE.pure ⟨t2, r2⟩
    · rintro s3 ⟨t3, r3⟩
      refine OkE.pure ?_
      dsimp only
      split
      · exact ⟨t3, r3⟩
      · exact ⟨t3, r3⟩

theorem parseStrtbl_tbl (s : PState) :
    OkE (fun s' => strBound s' ≤ max (strBound s) (s.rest.length + 3) ∧ s'.rest.length ≤ s.rest.length ∧
      s'.lang = s.lang) (parseStrtbl s) := by
  unfold parseStrtbl
  have hm := mbLoop_len 5 0 s.rest
  split
  · exact OkE.error
  · rename_i len r heq
    have h2 := hm _ heq
    dsimp only at h2 ⊢
    split
    · refine OkE.pure ⟨?_, by dsimp only; omega, rfl⟩
      unfold strBound; dsimp only; omega
    · split
      · exact OkE.error
      · refine OkE.pure ⟨?_, by dsimp only; rw [List.length_drop]; omega, rfl⟩
        unfold strBound; dsimp only
        split
        · rw [List.length_take]; omega
        · rw [List.length_append, List.length_take]; simp only [List.length_cons, List.length_nil]; omega

theorem checkPublicId_mem {cfg : PCfg} {s : PState} {pid : Nat} {idx : Option Nat} {l : Lang}
    (h : checkPublicId cfg s pid idx = some l) : l ∈ cfg.main := by
  unfold checkPublicId at h
  split at h
  · cases h
  · split at h
    · exact List.mem_of_find?_eq_some h
    · split at h
      · exact List.mem_of_find?_eq_some h
      · split at h
        · cases h
        · split at h
          · cases h
          · exact List.mem_of_find?_eq_some h

/-- After the header: the language is an entry of the main table, the string table lies inside the
    document (plus its four padding octets). -/
theorem parseHeader_ctx (cfg : PCfg) (bs : Bytes) :
    OkE (fun p => p.2 ∈ cfg.main ∧ Ctx (bs.length + 5) (tableM cfg.main) p.1) (parseHeader cfg bs) := by
  rw [parseHeader_eq]
  split
  · exact OkE.error
  · bind_oke (headerPre_facts cfg bs) with ⟨pubId, pubIdx, s0⟩ ⟨t0, r0⟩
    bind_oke (parseStrtbl_tbl s0) with s1 ⟨t1, r1, _⟩
    split
    · exact OkE.error
    · rename_i lang hl
      have hm := checkPublicId_mem hl
      refine OkE.pure ⟨hm, ?_, ?_, ?_⟩
      · dsimp only; omega
      · have : strBound s0 = 5 := by unfold strBound; rw [t0]
        have e : strBound { s1 with lang := some lang } = strBound s1 := rfl
        rw [e]; omega
      · exact ⟨lang, rfl, langM_le_tableM hm⟩

/-- **The events of a run are quadratically bounded by the input**: with `n` input octets and `M` the
    table constant, the events weigh at most `n * (n + M + 45 + C)` — whatever the verdict — where `C`
    bounds the extra charge `cc` on character data of at most `2n + M + 45` octets (no payload is longer). -/
theorem parse_pevSizeG_le (cfg : PCfg) (bs : Bytes) (cc : Bytes → Nat) (C : Nat)
    (hcc : ∀ b : Bytes, b.length ≤ 2 * bs.length + tableM cfg.main + 45 → cc b ≤ C) :
    pevSize cc (parse cfg bs).events ≤ bs.length * (bs.length + tableM cfg.main + 45 + C) := by
  rcases parse_anatomy cfg bs with ⟨c, _, _, hev, _⟩ | ⟨s, l, c, hh, _, _, hev, _⟩ | ⟨s, l, ev, s', hh, hb, _, hev, _⟩
  · rw [hev]; simp [pevSize]
  · obtain ⟨_, _, hlen⟩ := (parseHeader_ok cfg bs).of_ok hh
    dsimp only at hlen
    rw [hev]
    simp only [pevSize, pevSize1]
    have : 1 * 1 ≤ bs.length * (bs.length + tableM cfg.main + 45 + C) := Nat.mul_le_mul (by omega) (by omega)
    omega
  · obtain ⟨_, _, hlen⟩ := (parseHeader_ok cfg bs).of_ok hh
    obtain ⟨_, hctx⟩ := parseHeader_ctx cfg bs _ hh
    dsimp only at hlen hctx
    have hp := parseBody_pot cc (C := C) (W := bs.length + tableM cfg.main + 45 + C)
      (fun b hb => hcc b (by omega)) (by omega) [Event.startDoc s.charset l.id] hctx _ hb
    dsimp only at hp
    rw [hev, pevSize_append]
    simp only [pevSize, pevSize1] at hp ⊢
    have h1 : (bs.length + tableM cfg.main + 45 + C) * (s.rest.length + 3) ≤
        (bs.length + tableM cfg.main + 45 + C) * bs.length := Nat.mul_le_mul_left _ hlen
    rw [Nat.mul_add] at h1
    rw [Nat.mul_comm bs.length]
    omega

/-- The plain size. -/
theorem parse_pevSize_le (cfg : PCfg) (bs : Bytes) :
    pevSize (fun _ => 0) (parse cfg bs).events ≤ bs.length * (bs.length + tableM cfg.main + 45) :=
  parse_pevSizeG_le cfg bs (fun _ => 0) 0 (fun _ _ => Nat.le_refl _)

end Wbxml.Lemmas.W2X
