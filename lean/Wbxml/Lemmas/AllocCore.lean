/-
  C16 — facts about the ledger monad that hold for every program (induction on `Prog`).
-/
import Wbxml.Model.Alloc
namespace Wbxml.Model.Alloc
open Wbxml
set_option linter.unusedSimpArgs false

@[simp] theorem bind_eq (p : Prog α) (f : α → Prog β) : (p >>= f) = Prog.bind p f := rfl
@[simp] theorem pure_eq (a : α) : (pure a : Prog α) = Prog.ret a := rfl

theorem run_bind (p : Prog α) (f : α → Prog β) (s : Ledger) :
    run (Prog.bind p f) s =
      match run p s with
      | (.ok a, s') => run (f a) s'
      | (.error e, s') => (.error e, s') := by
  induction p generalizing s with
  | ret a => simp [Prog.bind, run]
  | malloc k ih =>
    simp only [Prog.bind, run]
    split <;> exact ih _ _
  | realloc p k ih =>
    simp only [Prog.bind, run]
    split
    · exact ih _ _
    · cases p with
      | none => exact ih _ _
      | some a =>
        simp only
        split
        · exact ih _ _
        · rfl
  | free p k ih =>
    cases p with
    | none => simp only [Prog.bind, run]; exact ih _
    | some a =>
      simp only [Prog.bind, run]
      split
      · exact ih _
      · rfl
  | deref p k ih =>
    cases p with
    | none => simp [Prog.bind, run]
    | some a =>
      simp only [Prog.bind, run]
      split
      · exact ih _
      · rfl
  | ub w => simp [Prog.bind, run]

/-- Frame facts of every run: the schedule is only read; `next` and `hits` never decrease; live ids
    stay below `next`. -/
theorem run_frame (p : Prog α) (s : Ledger) :
    (run p s).2.sched = s.sched ∧ s.next ≤ (run p s).2.next ∧ s.hits ≤ (run p s).2.hits ∧
    (s.WF → (run p s).2.WF) := by
  induction p generalizing s with
  | ret a => simp [run]
  | malloc k ih =>
    simp only [run]
    split
    · have h := ih none { s with next := s.next + 1, hits := s.hits + 1 }
      refine ⟨h.1, by have := h.2.1; simp at this; omega, by have := h.2.2.1; simp at this; omega, fun wf => h.2.2.2 ?_⟩
      intro i hi; have := wf i hi; simp; omega
    · have h := ih (some (s.next + 1)) { s with next := s.next + 1, live := s.live ++ [s.next + 1] }
      refine ⟨h.1, by have := h.2.1; simp at this; omega, h.2.2.1, fun wf => h.2.2.2 ?_⟩
      intro i hi
      simp only [List.mem_append, List.mem_singleton] at hi
      rcases hi with hi | hi
      · have := wf i hi; simp; omega
      · simp; omega
  | realloc p k ih =>
    simp only [run]
    split
    · have h := ih none { s with next := s.next + 1, hits := s.hits + 1 }
      refine ⟨h.1, by have := h.2.1; simp at this; omega, by have := h.2.2.1; simp at this; omega, fun wf => h.2.2.2 ?_⟩
      intro i hi; have := wf i hi; simp; omega
    · cases p with
      | none =>
        have h := ih (some (s.next + 1)) { s with next := s.next + 1, live := s.live ++ [s.next + 1] }
        simp only
        refine ⟨h.1, by have := h.2.1; simp at this; omega, h.2.2.1, fun wf => h.2.2.2 ?_⟩
        intro i hi
        simp only [List.mem_append, List.mem_singleton] at hi
        rcases hi with hi | hi
        · have := wf i hi; simp; omega
        · simp; omega
      | some a =>
        simp only
        split
        · have h := ih (some (s.next + 1)) { s with next := s.next + 1, live := s.live.filter (· != a) ++ [s.next + 1] }
          refine ⟨h.1, by have := h.2.1; simp at this; omega, h.2.2.1, fun wf => h.2.2.2 ?_⟩
          intro i hi
          simp only [List.mem_append, List.mem_singleton, List.mem_filter] at hi
          rcases hi with hi | hi
          · have := wf i hi.1; simp; omega
          · simp; omega
        · refine ⟨rfl, by simp, by simp, fun wf i hi => ?_⟩
          have := wf i hi; simp; omega
  | free p k ih =>
    cases p with
    | none => simp only [run]; exact ih s
    | some a =>
      simp only [run]
      split
      · have h := ih (s.release a)
        refine ⟨h.1, h.2.1, h.2.2.1, fun wf => h.2.2.2 ?_⟩
        intro i hi
        simp only [Ledger.release, List.mem_filter] at hi
        exact wf i hi.1
      · exact ⟨rfl, Nat.le_refl _, Nat.le_refl _, id⟩
  | deref p k ih =>
    cases p with
    | none => simp [run]
    | some a =>
      simp only [run]
      split
      · exact ih s
      · exact ⟨rfl, Nat.le_refl _, Nat.le_refl _, id⟩
  | ub w => simp [run]

theorem run_sched (p : Prog α) (s : Ledger) : (run p s).2.sched = s.sched := (run_frame p s).1
theorem run_next_le (p : Prog α) (s : Ledger) : s.next ≤ (run p s).2.next := (run_frame p s).2.1
theorem run_hits_le (p : Prog α) (s : Ledger) : s.hits ≤ (run p s).2.hits := (run_frame p s).2.2.1
theorem run_wf (p : Prog α) (s : Ledger) (h : s.WF) : (run p s).2.WF := (run_frame p s).2.2.2 h

/-- A run that was delivered no failure is the un-failed run (same result, same ledger). -/
theorem run_nohit (p : Prog α) (s : Ledger) (h : (run p s).2.hits = s.hits) :
    run p { s with sched := [] } = ((run p s).1, { (run p s).2 with sched := [] }) := by
  induction p generalizing s with
  | ret a => simp [run]
  | malloc k ih =>
    simp only [run] at h ⊢
    by_cases hf : s.fails (s.next + 1) = true
    · rw [if_pos hf] at h
      have := run_hits_le (k none) { s with next := s.next + 1, hits := s.hits + 1 }
      simp at this; omega
    · rw [if_neg hf] at h ⊢
      have hf' : Ledger.fails { s with sched := [] } (s.next + 1) = false := by simp [Ledger.fails]
      simp only [hf', Bool.false_eq_true, if_false]
      exact ih (some (s.next + 1)) _ h
  | realloc p k ih =>
    simp only [run] at h ⊢
    by_cases hf : s.fails (s.next + 1) = true
    · rw [if_pos hf] at h
      have := run_hits_le (k none) { s with next := s.next + 1, hits := s.hits + 1 }
      simp at this; omega
    · rw [if_neg hf] at h ⊢
      have hf' : Ledger.fails { s with sched := [] } (s.next + 1) = false := by simp [Ledger.fails]
      simp only [hf', Bool.false_eq_true, if_false]
      cases p with
      | none => exact ih (some (s.next + 1)) _ h
      | some a =>
        dsimp only at h ⊢
        by_cases ha : a ∈ s.live
        · simp only [ha, if_true] at h ⊢
          exact ih (some (s.next + 1)) _ h
        · simp only [ha, if_false]
  | free p k ih =>
    cases p with
    | none => simp only [run] at h ⊢; exact ih s h
    | some a =>
      simp only [run] at h ⊢
      by_cases ha : a ∈ s.live
      · simp only [ha, if_true] at h ⊢
        exact ih (s.release a) h
      · simp only [ha, if_false]
  | deref p k ih =>
    cases p with
    | none => simp [run]
    | some a =>
      simp only [run] at h ⊢
      by_cases ha : a ∈ s.live
      · simp only [ha, if_true] at h ⊢
        exact ih s h
      · simp only [ha, if_false]
  | ub w => simp [run]

/-! ### Specifications: weakest-precondition style over `run` -/

/-- The run ends without fault and its result and final ledger satisfy `Q`. -/
def Good (p : Prog α) (s : Ledger) (Q : α → Ledger → Prop) : Prop :=
  match run p s with
  | (.ok a, s') => Q a s'
  | (.error _, _) => False

theorem Good.bind {p : Prog α} {f : α → Prog β} {s : Ledger} {Q : α → Ledger → Prop} {R : β → Ledger → Prop}
    (hp : Good p s Q) (hf : ∀ a s', Q a s' → Good (f a) s' R) : Good (Prog.bind p f) s R := by
  unfold Good at hp ⊢
  rw [run_bind]
  generalize run p s = r at hp ⊢
  match r, hp with
  | (.ok a, s'), hp => exact hf a s' hp
  | (.error _, _), hp => exact hp.elim

theorem Good.mono {p : Prog α} {s : Ledger} {Q Q' : α → Ledger → Prop}
    (hp : Good p s Q) (h : ∀ a s', Q a s' → Q' a s') : Good p s Q' := by
  unfold Good at hp ⊢
  generalize run p s = r at hp ⊢
  match r, hp with
  | (.ok a, s'), hp => exact h a s' hp
  | (.error _, _), hp => exact hp.elim

theorem good_ret {a : α} {s : Ledger} {Q : α → Ledger → Prop} : Good (Prog.ret a) s Q ↔ Q a s := by
  simp [Good, run]

/-- What a `Good` run says about `run`. -/
theorem Good.elim {p : Prog α} {s : Ledger} {Q : α → Ledger → Prop} (h : Good p s Q) :
    ∃ a s', run p s = (.ok a, s') ∧ Q a s' := by
  unfold Good at h
  generalize run p s = r at h
  match r, h with
  | (.ok a, s'), h => exact ⟨a, s', rfl, h⟩
  | (.error _, _), h => exact h.elim

/-- The ledger effect of a run: the blocks `cons` were released, the blocks `prod` were handed out
    and are still live; everything else is as before. -/
structure Clean (s s' : Ledger) (cons prod : List Nat) : Prop where
  live : ∀ i, i ∈ s'.live ↔ (i ∈ s.live ∧ i ∉ cons) ∨ i ∈ prod
  fresh : ∀ i ∈ prod, i ∈ cons ∨ (s.next < i ∧ i ≤ s'.next)
  nodup : prod.Nodup
  sched : s'.sched = s.sched
  next : s.next ≤ s'.next
  hits : s.hits ≤ s'.hits
  wf : s'.WF

theorem Clean.rfl {s : Ledger} (wf : s.WF) : Clean s s [] [] :=
  ⟨by simp, by simp, by simp, by simp, Nat.le_refl _, Nat.le_refl _, wf⟩

/-- Bring the fields of a `Clean` fact into the context (for `grind` / `omega`). -/
macro "expose " c:ident : tactic =>
  `(tactic| (have := ($c).live; have := ($c).fresh; have := ($c).nodup; have := ($c).next; have := ($c).hits; have := ($c).sched; have := ($c).wf))

/-- The ids are live and pairwise distinct: the caller owns these blocks. -/
def Owns (s : Ledger) (ids : List Nat) : Prop := ids.Nodup ∧ ∀ i ∈ ids, i ∈ s.live

theorem Owns.nil (s : Ledger) : Owns s [] := ⟨List.nodup_nil, by simp⟩

theorem Owns.cons_iff {s : Ledger} {a : Nat} {A : List Nat} :
    Owns s (a :: A) ↔ a ∈ s.live ∧ a ∉ A ∧ Owns s A := by
  simp only [Owns, List.nodup_cons, List.mem_cons]
  constructor
  · rintro ⟨⟨h1, h2⟩, h3⟩; exact ⟨h3 a (Or.inl rfl), h1, h2, fun i hi => h3 i (Or.inr hi)⟩
  · rintro ⟨h1, h2, h3, h4⟩; exact ⟨⟨h2, h3⟩, fun i hi => by rcases hi with rfl | hi; exact h1; exact h4 i hi⟩

theorem Owns.append_iff {s : Ledger} {A B : List Nat} :
    Owns s (A ++ B) ↔ Owns s A ∧ Owns s B ∧ ∀ i ∈ A, i ∉ B := by
  simp only [Owns, List.nodup_append, List.mem_append]
  constructor
  · rintro ⟨⟨h1, h2, h3⟩, h4⟩
    exact ⟨⟨h1, fun i hi => h4 i (Or.inl hi)⟩, ⟨h2, fun i hi => h4 i (Or.inr hi)⟩, fun i hi hb => h3 i hi i hb rfl⟩
  · rintro ⟨⟨h1, h2⟩, ⟨h3, h4⟩, h5⟩
    exact ⟨⟨h1, h3, fun a ha b hb hab => h5 a ha (hab ▸ hb)⟩, fun i hi => by rcases hi with hi | hi; exact h2 i hi; exact h4 i hi⟩

/-- Nothing happened: owned blocks "consumed and produced again". -/
theorem Clean.id {s : Ledger} {X : List Nat} (wf : s.WF) (own : Owns s X) : Clean s s X X :=
  ⟨fun i => by have := own.2 i; grind,
   fun i hi => Or.inl hi, own.1, Eq.refl _, Nat.le_refl _, Nat.le_refl _, wf⟩

/-- Two runs in a row on the same object: `A` becomes `B` becomes `C`. -/
theorem Clean.trans_recycle {s s1 s2 : Ledger} {A B C : List Nat} (wf : s.WF)
    (h1 : Clean s s1 A B) (h2 : Clean s1 s2 B C) : Clean s s2 A C := by
  refine ⟨?_, ?_, h2.nodup, by rw [h2.sched, h1.sched], Nat.le_trans h1.next h2.next, Nat.le_trans h1.hits h2.hits, h2.wf⟩
  · intro i
    rw [h2.live, h1.live]
    have a1 := h1.fresh i; have a2 := wf i
    grind
  · intro i hi
    have a1 := h2.fresh i hi; have a2 := h1.fresh i; have a3 := h1.next; have a4 := h2.next
    grind

/-- Blocks that a run did not consume are still owned afterwards. -/
theorem Clean.keeps {s s' : Ledger} {cons prod Y : List Nat} (c : Clean s s' cons prod) (own : Owns s Y)
    (disj : ∀ i ∈ Y, i ∉ cons) : Owns s' Y :=
  ⟨own.1, fun i hi => (c.live i).2 (Or.inl ⟨own.2 i hi, disj i hi⟩)⟩

/-- Blocks a run produced are owned afterwards. -/
theorem Clean.owns {s s' : Ledger} {cons prod : List Nat} (c : Clean s s' cons prod) : Owns s' prod :=
  ⟨c.nodup, fun i hi => (c.live i).2 (Or.inr hi)⟩

/-- Fresh blocks are distinct from everything that was live. -/
theorem Clean.fresh_not_live {s s' : Ledger} {prod : List Nat} (c : Clean s s' [] prod) (wf : s.WF) :
    ∀ i ∈ prod, i ∉ s.live := by
  intro i hi hl
  have := c.fresh i hi
  have := wf i hl
  simp at *; omega

/-- Blocks produced by an earlier run are distinct from blocks produced by a later one. -/
theorem Clean.disjoint_later {s s1 s2 : Ledger} {P1 P2 : List Nat}
    (c1 : Clean s s1 [] P1) (c2 : Clean s1 s2 [] P2) : ∀ i ∈ P1, i ∉ P2 := by
  intro i hi hj
  have := c1.fresh i hi
  have := c2.fresh i hj
  simp at *; omega

theorem malloc_spec (s : Ledger) (wf : s.WF) :
    Good malloc s (fun p s' => Clean s s' [] p.toList ∧ (s.hits < s'.hits → p = none)) := by
  unfold Good malloc
  by_cases hf : s.fails (s.next + 1) = true
  · simp only [run, hf, if_true]
    refine ⟨⟨by simp, by simp, by simp, by simp, by simp, by simp, ?_⟩, by simp⟩
    intro i hi; have := wf i hi; simp; omega
  · simp only [run, hf]
    refine ⟨⟨by simp, by simp, by simp, by simp, by simp, by simp, ?_⟩, by simp⟩
    intro i hi
    simp only [List.mem_append, List.mem_singleton] at hi
    rcases hi with hi | hi
    · have := wf i hi; simp; omega
    · simp; omega

/-- `realloc`: on success the old block (if any) is consumed and a new one produced. -/
theorem realloc_spec (p : Ptr) (s : Ledger) (wf : s.WF) (h : ∀ a, p = some a → a ∈ s.live) :
    Good (realloc p) s (fun q s' =>
      Clean s s' (if q.isSome then p.toList else []) q.toList ∧ (s.hits < s'.hits → q = none) ∧
      (∀ x, q = some x → s.next < x ∧ x ≤ s'.next)) := by
  unfold Good realloc
  by_cases hf : s.fails (s.next + 1) = true
  · simp only [run, hf, if_true]
    refine ⟨⟨by simp, by simp, by simp, by simp, by simp, by simp, ?_⟩, by simp, by simp⟩
    intro i hi; have := wf i hi; simp; omega
  · simp only [run, hf]
    cases p with
    | none =>
      simp only [run]
      refine ⟨⟨by simp, by simp, by simp, by simp, by simp, by simp, ?_⟩, by simp, by simp⟩
      intro i hi
      simp only [List.mem_append, List.mem_singleton] at hi
      rcases hi with hi | hi
      · have := wf i hi; simp; omega
      · simp; omega
    | some a =>
      simp only [h a rfl, if_true, run]
      refine ⟨⟨?_, by simp, by simp, by simp, by simp, by simp, ?_⟩, by simp, by simp⟩
      · intro i; simp [List.mem_filter]
      · intro i hi
        simp only [List.mem_append, List.mem_singleton, List.mem_filter] at hi
        rcases hi with hi | hi
        · have := wf i hi.1; simp; omega
        · simp; omega

theorem free_spec (p : Ptr) (s : Ledger) (wf : s.WF) (h : ∀ a, p = some a → a ∈ s.live) :
    Good (free p) s (fun _ s' => Clean s s' p.toList [] ∧ s'.hits = s.hits ∧ s'.next = s.next) := by
  unfold Good free
  cases p with
  | none => simp only [run]; exact ⟨⟨by simp, by simp, by simp, by simp, by simp, by simp, wf⟩, by simp, by simp⟩
  | some a =>
    simp only [run, h a rfl, if_true]
    refine ⟨⟨?_, by simp, by simp, by simp [Ledger.release], by simp [Ledger.release], by simp [Ledger.release], ?_⟩,
      by simp [Ledger.release], by simp [Ledger.release]⟩
    · intro i; simp [Ledger.release]
    · intro i hi; simp only [Ledger.release, List.mem_filter] at hi; exact wf i hi.1

theorem deref_spec (a : Nat) (s : Ledger) (h : a ∈ s.live) :
    Good (deref (some a)) s (fun _ s' => s' = s) := by
  simp [Good, deref, run, h]

end Wbxml.Model.Alloc
