/-
  C16 — facts about the ledger monad that hold for every program (induction on `Prog`).
-/
import Wbxml.Model.Alloc
namespace Wbxml.Model.Alloc
open Wbxml

@[simp] theorem bind_eq (p : Prog α) (f : α → Prog β) : (p >>= f) = Prog.bind p f := rfl
@[simp] theorem pure_eq (a : α) : (pure a : Prog α) = Prog.ret a := rfl

theorem run_bind (p : Prog α) (f : α → Prog β) (s : Ledger) :
    run (Prog.bind p f) s =
      match run p s with
      | (.ok a, s') => run (f a) s'
      | (.error e, s') => (.error e, s') := by
  induction p generalizing s with
  | ret a => simp [Prog.bind, run]
  | malloc k ih =>
    simp only [Prog.bind, run]
    split <;> exact ih _ _
  | realloc p k ih =>
    simp only [Prog.bind, run]
    split
    · exact ih _ _
    · cases p with
      | none => exact ih _ _
      | some a =>
        simp only
        split
        · exact ih _ _
        · rfl
  | free p k ih =>
    cases p with
    | none => simp only [Prog.bind, run]; exact ih _
    | some a =>
      simp only [Prog.bind, run]
      split
      · exact ih _
      · rfl
  | deref p k ih =>
    cases p with
    | none => simp [Prog.bind, run]
    | some a =>
      simp only [Prog.bind, run]
      split
      · exact ih _
      · rfl
  | ub w => simp [Prog.bind, run]

/-- Frame facts of every run: the schedule is only read; `next` and `hits` never decrease; live ids
    stay below `next`. -/
theorem run_frame (p : Prog α) (s : Ledger) :
    (run p s).2.sched = s.sched ∧ s.next ≤ (run p s).2.next ∧ s.hits ≤ (run p s).2.hits ∧
    (s.WF → (run p s).2.WF) := by
  induction p generalizing s with
  | ret a => simp [run]
  | malloc k ih =>
    simp only [run]
    split
    · have h := ih none { s with next := s.next + 1, hits := s.hits + 1 }
      refine ⟨h.1, by have := h.2.1; simp at this; omega, by have := h.2.2.1; simp at this; omega, fun wf => h.2.2.2 ?_⟩
      intro i hi; have := wf i hi; simp; omega
    · have h := ih (some (s.next + 1)) { s with next := s.next + 1, live := s.live ++ [s.next + 1] }
      refine ⟨h.1, by have := h.2.1; simp at this; omega, h.2.2.1, fun wf => h.2.2.2 ?_⟩
      intro i hi
      simp only [List.mem_append, List.mem_singleton] at hi
      rcases hi with hi | hi
      · have := wf i hi; simp; omega
      · simp; omega
  | realloc p k ih =>
    simp only [run]
    split
    · have h := ih none { s with next := s.next + 1, hits := s.hits + 1 }
      refine ⟨h.1, by have := h.2.1; simp at this; omega, by have := h.2.2.1; simp at this; omega, fun wf => h.2.2.2 ?_⟩
      intro i hi; have := wf i hi; simp; omega
    · cases p with
      | none =>
        have h := ih (some (s.next + 1)) { s with next := s.next + 1, live := s.live ++ [s.next + 1] }
        simp only
        refine ⟨h.1, by have := h.2.1; simp at this; omega, h.2.2.1, fun wf => h.2.2.2 ?_⟩
        intro i hi
        simp only [List.mem_append, List.mem_singleton] at hi
        rcases hi with hi | hi
        · have := wf i hi; simp; omega
        · simp; omega
      | some a =>
        simp only
        split
        · have h := ih (some (s.next + 1)) { s with next := s.next + 1, live := s.live.filter (· != a) ++ [s.next + 1] }
          refine ⟨h.1, by have := h.2.1; simp at this; omega, h.2.2.1, fun wf => h.2.2.2 ?_⟩
          intro i hi
          simp only [List.mem_append, List.mem_singleton, List.mem_filter] at hi
          rcases hi with hi | hi
          · have := wf i hi.1; simp; omega
          · simp; omega
        · refine ⟨rfl, by simp, by simp, fun wf i hi => ?_⟩
          have := wf i hi; simp; omega
  | free p k ih =>
    cases p with
    | none => simp only [run]; exact ih s
    | some a =>
      simp only [run]
      split
      · have h := ih (s.release a)
        refine ⟨h.1, h.2.1, h.2.2.1, fun wf => h.2.2.2 ?_⟩
        intro i hi
        simp only [Ledger.release, List.mem_filter] at hi
        exact wf i hi.1
      · exact ⟨rfl, Nat.le_refl _, Nat.le_refl _, id⟩
  | deref p k ih =>
    cases p with
    | none => simp [run]
    | some a =>
      simp only [run]
      split
      · exact ih s
      · exact ⟨rfl, Nat.le_refl _, Nat.le_refl _, id⟩
  | ub w => simp [run]

theorem run_sched (p : Prog α) (s : Ledger) : (run p s).2.sched = s.sched := (run_frame p s).1
theorem run_next_le (p : Prog α) (s : Ledger) : s.next ≤ (run p s).2.next := (run_frame p s).2.1
theorem run_hits_le (p : Prog α) (s : Ledger) : s.hits ≤ (run p s).2.hits := (run_frame p s).2.2.1
theorem run_wf (p : Prog α) (s : Ledger) (h : s.WF) : (run p s).2.WF := (run_frame p s).2.2.2 h

/-- A run that was delivered no failure is the un-failed run (same result, same ledger). -/
theorem run_nohit (p : Prog α) (s : Ledger) (h : (run p s).2.hits = s.hits) :
    run p { s with sched := [] } = ((run p s).1, { (run p s).2 with sched := [] }) := by
  induction p generalizing s with
  | ret a => simp [run]
  | malloc k ih =>
    simp only [run] at h ⊢
    by_cases hf : s.fails (s.next + 1) = true
    · rw [if_pos hf] at h
      have := run_hits_le (k none) { s with next := s.next + 1, hits := s.hits + 1 }
      simp at this; omega
    · rw [if_neg hf] at h ⊢
      have hf' : Ledger.fails { s with sched := [] } (s.next + 1) = false := by simp [Ledger.fails]
      simp only [hf', Bool.false_eq_true, if_false]
      exact ih (some (s.next + 1)) _ h
  | realloc p k ih =>
    simp only [run] at h ⊢
    by_cases hf : s.fails (s.next + 1) = true
    · rw [if_pos hf] at h
      have := run_hits_le (k none) { s with next := s.next + 1, hits := s.hits + 1 }
      simp at this; omega
    · rw [if_neg hf] at h ⊢
      have hf' : Ledger.fails { s with sched := [] } (s.next + 1) = false := by simp [Ledger.fails]
      simp only [hf', Bool.false_eq_true, if_false]
      cases p with
      | none => exact ih (some (s.next + 1)) _ h
      | some a =>
        dsimp only at h ⊢
        by_cases ha : a ∈ s.live
        · simp only [ha, if_true] at h ⊢
          exact ih (some (s.next + 1)) _ h
        · simp only [ha, if_false]
  | free p k ih =>
    cases p with
    | none => simp only [run] at h ⊢; exact ih s h
    | some a =>
      simp only [run] at h ⊢
      by_cases ha : a ∈ s.live
      · simp only [ha, if_true] at h ⊢
        exact ih (s.release a) h
      · simp only [ha, if_false]
  | deref p k ih =>
    cases p with
    | none => simp [run]
    | some a =>
      simp only [run] at h ⊢
      by_cases ha : a ∈ s.live
      · simp only [ha, if_true] at h ⊢
        exact ih s h
      · simp only [ha, if_false]
  | ub w => simp [run]

end Wbxml.Model.Alloc
