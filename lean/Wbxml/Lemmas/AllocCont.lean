/-
  C16 — specifications of the container core in the ledger monad.
-/
import Wbxml.Model.AllocCont
import Wbxml.Lemmas.AllocCore
namespace Wbxml.Model.Alloc
open Wbxml
set_option linter.unusedSimpArgs false
set_option linter.unusedVariables false

/-! ### Buffers -/

/-- Representation invariant of a dynamic buffer: no block, no capacity. (`grow_buff` before its
    repair broke it: `malloced` raised, `data` NULL.) -/
def ABuf.ok (b : ABuf) : Prop := b.isStatic = false → b.dataId = none → b.malloced = 0 ∧ b.bytes = []

theorem bufCreate_spec (src : Option Bytes) (blk : Nat) (s : Ledger) (wf : s.WF) :
    Good (bufCreate src blk) s (fun r s' =>
      Clean s s' [] (ownedBufOpt r) ∧ (s.hits < s'.hits → r = none) ∧ (∀ b, r = some b → b.isStatic = false) ∧
      (∀ b, r = some b → b.ok)) := by
  unfold bufCreate
  simp only [bind_eq, pure_eq]
  refine Good.bind (malloc_spec s wf) ?_
  intro h s1 ⟨c1, h1⟩
  cases h with
  | none =>
    simp only [good_ret, ownedBufOpt]
    exact ⟨c1, by simp, by simp, by simp⟩
  | some h =>
    have hdone : Good (Prog.ret (some (⟨h, none, [], 0, false⟩ : ABuf))) s1 (fun r s' =>
        Clean s s' [] (ownedBufOpt r) ∧ (s.hits < s'.hits → r = none) ∧ (∀ b, r = some b → b.isStatic = false) ∧
        (∀ b, r = some b → b.ok)) := by
      simp only [good_ret, ownedBufOpt, ABuf.owned]
      refine ⟨by simpa using c1, ?_, by simp, by simp [ABuf.ok]⟩
      intro hh; have := h1 hh; simp at this
    cases src with
    | none => exact hdone
    | some d =>
      simp only
      by_cases hd : d.length = 0
      · simp only [hd, if_true]; exact hdone
      · simp only [hd, if_false]
        refine Good.bind (malloc_spec s1 c1.wf) ?_
        intro p s2 ⟨c2, h2⟩
        cases p with
        | none =>
          simp only
          refine Good.bind (free_spec (some h) s2 c2.wf ?_) ?_
          · intro a ha; cases ha
            have := (c2.live h).2 (Or.inl ⟨(c1.live h).2 (Or.inr (by simp)), by simp⟩); exact this
          · intro _ s3 ⟨c3, h3, h3'⟩
            simp only [good_ret, ownedBufOpt]
            have l1 := c1.live; have l2 := c2.live; have l3 := c3.live
            have f1 := c1.fresh; have := c1.next; have := c2.next; have := c2.hits; have := c1.hits
            refine ⟨⟨?_, by simp, by simp, by rw [c3.sched, c2.sched, c1.sched], by omega, by omega, c3.wf⟩, by simp, by simp, by simp⟩
            intro i
            have := wf i
            simp only [Option.toList] at *
            grind
        | some p =>
          simp only [good_ret, ownedBufOpt, ABuf.owned]
          have l1 := c1.live; have l2 := c2.live
          have f1 := c1.fresh; have f2 := c2.fresh; have := c1.next; have := c2.next; have := c2.hits; have := c1.hits
          simp only [Option.toList] at *
          refine ⟨⟨?_, ?_, ?_, by rw [c2.sched, c1.sched], by omega, by omega, c2.wf⟩, ?_, by simp, by simp [ABuf.ok]⟩
          · intro i; grind
          · intro i hi; grind
          · grind
          · intro hh
            have a1 := h1; have a2 := h2
            simp at a1 a2; omega

theorem bufStaCreate_spec (d : Bytes) (s : Ledger) (wf : s.WF) :
    Good (bufStaCreate d) s (fun r s' =>
      Clean s s' [] (ownedBufOpt r) ∧ (s.hits < s'.hits → r = none) ∧ (∀ b, r = some b → b.isStatic = true)) := by
  unfold bufStaCreate
  simp only [bind_eq, pure_eq]
  refine Good.bind (malloc_spec s wf) ?_
  intro h s1 ⟨c1, h1⟩
  cases h with
  | none => simp only [good_ret, ownedBufOpt]; exact ⟨c1, by simp, by simp⟩
  | some h =>
    simp only [good_ret, ownedBufOpt, ABuf.owned]
    refine ⟨by simpa using c1, ?_, by simp⟩
    intro hh; have := h1 hh; simp at this

theorem bufDestroy_spec (b : Option ABuf) (s : Ledger) (wf : s.WF) (own : Owns s (ownedBufOpt b)) :
    Good (bufDestroy b) s (fun _ s' => Clean s s' (ownedBufOpt b) [] ∧ s'.hits = s.hits ∧ s'.next = s.next) := by
  cases b with
  | none => simp only [bufDestroy, pure_eq, good_ret, ownedBufOpt]; exact ⟨Clean.rfl wf, by simp, by simp⟩
  | some b =>
    obtain ⟨nd, lv⟩ := own
    simp only [ownedBufOpt, ABuf.owned] at nd lv ⊢
    unfold bufDestroy
    simp only [bind_eq, pure_eq]
    refine Good.bind (deref_spec b.hdr s (lv _ (by simp))) ?_
    intro _ s0 e0; subst e0
    cases hst : b.isStatic with
    | true =>
      simp only [hst, Bool.not_true, Bool.false_eq_true, if_false, Prog.bind] at nd lv ⊢
      refine Good.bind (free_spec (some b.hdr) s0 wf ?_) ?_
      · intro a ha; cases ha; exact lv _ (by simp)
      · intro _ s1 ⟨c1, h1, n1⟩
        simp only [good_ret]
        exact ⟨by simpa using c1, h1, n1⟩
    | false =>
      simp only [hst, Bool.not_false, if_true, Bool.false_eq_true, if_false] at nd lv ⊢
      refine Good.bind (free_spec b.dataId s0 wf ?_) ?_
      · intro a ha; exact lv a (by simp [ha])
      · intro _ s1 ⟨c1, h1, n1⟩
        refine Good.bind (free_spec (some b.hdr) s1 c1.wf ?_) ?_
        · intro a ha; cases ha
          refine (c1.live b.hdr).2 (Or.inl ⟨lv _ (by simp), ?_⟩)
          intro hm; simp only [List.nodup_cons] at nd; exact nd.1 hm
        · intro _ s2 ⟨c2, h2, n2⟩
          simp only [good_ret]
          expose c1; expose c2
          refine ⟨⟨?_, by simp, by simp, by simp_all, by omega, by omega, c2.wf⟩, by omega, by omega⟩
          intro i
          simp only [Option.toList] at *
          grind

/-- The common shape of the buffer mutators: the buffer object is the same struct, `data` may have
    moved to a fresh block; a delivered failure is reported as FALSE. -/
def BufStep (b : ABuf) (s : Ledger) (r : ABuf × Bool) (s' : Ledger) : Prop :=
  r.1.hdr = b.hdr ∧ r.1.isStatic = b.isStatic ∧ Clean s s' b.owned r.1.owned ∧ (s.hits < s'.hits → r.2 = false) ∧
  (b.ok → r.1.ok)

theorem BufStep.same {b : ABuf} {s : Ledger} (wf : s.WF) (own : Owns s b.owned) (ok : Bool) : BufStep b s (b, ok) s := by
  refine ⟨rfl, rfl, ⟨?_, ?_, own.1, rfl, Nat.le_refl _, Nat.le_refl _, wf⟩, by omega, id⟩
  · intro i; have := own.2 i; grind
  · intro i hi; exact Or.inl hi

theorem growBuff_spec (b : ABuf) (size : Nat) (s : Ledger) (wf : s.WF) (own : Owns s b.owned) :
    Good (growBuff b size) s (fun r s' => BufStep b s r s' ∧ (b.ok → r.2 = true → b.isStatic = false → r.1.dataId.isSome)) := by
  unfold growBuff
  simp only [bind_eq, pure_eq]
  have hlive : b.hdr ∈ s.live := own.2 _ (by simp [ABuf.owned])
  refine Good.bind (deref_spec b.hdr s hlive) ?_
  intro _ s0 e0; subst e0
  cases hst : b.isStatic with
  | true => simp only [if_true, good_ret]; exact ⟨BufStep.same wf own false, by simp⟩
  | false =>
    simp only [Bool.false_eq_true, if_false]
    split
    · refine Good.bind (realloc_spec b.dataId s0 wf ?_) ?_
      · intro a ha; exact own.2 a (by simp [ABuf.owned, hst, ha])
      · intro q s1 ⟨c1, h1, _⟩
        cases q with
        | none =>
          simp only [good_ret]
          obtain ⟨nd, lv⟩ := own
          expose c1
          refine ⟨⟨rfl, rfl, ⟨?_, ?_, nd, by simp_all, by omega, by omega, c1.wf⟩, by simp, id⟩, by simp⟩
          · intro i; have := lv i; simp only [Option.isSome_none, Bool.false_eq_true, if_false, Option.toList] at *; grind
          · intro i hi; exact Or.inl hi
        | some q =>
          simp only [good_ret]
          obtain ⟨nd, lv⟩ := own
          expose c1
          have hq := h1
          simp only [ABuf.owned, hst, Bool.false_eq_true, if_false] at nd lv
          simp only [Option.isSome_some, if_true] at *
          have hb := wf b.hdr hlive
          refine ⟨⟨rfl, by simp [hst], ⟨?_, ?_, ?_, by simp_all, by omega, by omega, c1.wf⟩, ?_, by simp [ABuf.ok]⟩, by simp⟩
          · intro i
            have := lv i; have := wf i
            simp only [ABuf.owned, hst, Bool.false_eq_true, if_false]
            cases hd : b.dataId <;> simp only [hd, Option.toList] at * <;> grind
          · intro i hi
            simp only [ABuf.owned, hst, Bool.false_eq_true, if_false, Option.toList] at hi ⊢
            cases hd : b.dataId <;> simp only [hd, Option.toList] at * <;> grind
          · simp only [ABuf.owned, hst, Bool.false_eq_true, if_false, Option.toList]
            cases hd : b.dataId <;> simp only [hd, Option.toList] at * <;> grind
          · intro hh; have := hq hh; simp at this
    · next hroom =>
      simp only [good_ret]
      refine ⟨BufStep.same wf own true, ?_⟩
      intro hok _ _
      cases hd : b.dataId with
      | some q => simp
      | none =>
        have := (hok hst hd).1
        simp only [ABuf.len] at hroom
        omega

theorem insertData_spec (b : ABuf) (pos : Nat) (d : Bytes) (s : Ledger) (wf : s.WF) (own : Owns s b.owned) (hok : b.ok) :
    Good (insertData b pos d) s (BufStep b s) := by
  unfold insertData
  simp only [bind_eq, pure_eq]
  have hlive : b.hdr ∈ s.live := own.2 _ (by simp [ABuf.owned])
  refine Good.bind (deref_spec b.hdr s hlive) ?_
  intro _ s0 e0; subst e0
  split
  · simp only [good_ret]; exact BufStep.same wf own false
  · next hcond =>
    refine Good.bind (growBuff_spec b d.length s0 wf own) ?_
    intro r s1 hr
    obtain ⟨b1, grown⟩ := r
    obtain ⟨⟨e1, e2, c1, h1, k1⟩, hsome⟩ := hr
    simp only at e1 e2 c1 h1 k1 hsome ⊢
    cases grown with
    | false => simp only [Bool.not_false, if_true, good_ret]; exact ⟨e1, e2, c1, h1, k1⟩
    | true =>
      simp only [Bool.not_true, Bool.false_eq_true, if_false]
      have hns : b.isStatic = false := by
        cases hb : b.isStatic <;> simp_all
      have hq := hsome hok rfl hns
      cases hd : b1.dataId with
      | none => simp [hd] at hq
      | some q =>
        have hql : q ∈ s1.live := by
          refine (c1.live q).2 (Or.inr ?_)
          simp [ABuf.owned, e2, hns, hd]
        refine Good.bind (deref_spec q s1 hql) ?_
        intro _ s2 e2'; subst e2'
        simp only [good_ret]
        refine ⟨e1, e2, ?_, h1, ?_⟩
        · simpa [ABuf.owned, hd] using c1
        · intro hb; have := k1 hb; simpa [ABuf.ok] using this

theorem bufAppendData_spec (b : ABuf) (d : Option Bytes) (s : Ledger) (wf : s.WF) (own : Owns s b.owned) (hok : b.ok) :
    Good (bufAppendData b d) s (BufStep b s) := by
  unfold bufAppendData
  simp only [bind_eq, pure_eq]
  have hlive : b.hdr ∈ s.live := own.2 _ (by simp [ABuf.owned])
  refine Good.bind (deref_spec b.hdr s hlive) ?_
  intro _ s0 e0; subst e0
  split
  · simp only [good_ret]; exact BufStep.same wf own false
  · cases d with
    | none => simp only [good_ret]; exact BufStep.same wf own true
    | some d =>
      simp only
      split
      · simp only [good_ret]; exact BufStep.same wf own true
      · exact insertData_spec b b.len d s0 wf own hok

theorem bufAppendChar_spec (b : ABuf) (ch : UInt8) (s : Ledger) (wf : s.WF) (own : Owns s b.owned) (hok : b.ok) :
    Good (bufAppendChar b ch) s (BufStep b s) := by
  unfold bufAppendChar
  simp only [bind_eq, pure_eq]
  have hlive : b.hdr ∈ s.live := own.2 _ (by simp [ABuf.owned])
  refine Good.bind (deref_spec b.hdr s hlive) ?_
  intro _ s0 e0; subst e0
  split
  · simp only [good_ret]; exact BufStep.same wf own false
  · exact insertData_spec b b.len [ch] s0 wf own hok

theorem bufInsertCstr_spec (b : ABuf) (str : Bytes) (pos : Nat) (s : Ledger) (wf : s.WF) (own : Owns s b.owned) (hok : b.ok) :
    Good (bufInsertCstr b str pos) s (BufStep b s) := by
  unfold bufInsertCstr
  simp only [bind_eq, pure_eq]
  have hlive : b.hdr ∈ s.live := own.2 _ (by simp [ABuf.owned])
  refine Good.bind (deref_spec b.hdr s hlive) ?_
  intro _ s0 e0; subst e0
  split
  · simp only [good_ret]; exact BufStep.same wf own false
  · exact insertData_spec b pos str s0 wf own hok

theorem bufCstr_spec (b : ABuf) (s : Ledger) (hlive : b.hdr ∈ s.live) :
    Good (bufCstr b) s (fun r s' => s' = s ∧ (b.ok → r.isSome)) := by
  unfold bufCstr
  simp only [bind_eq, pure_eq]
  refine Good.bind (deref_spec b.hdr s hlive) ?_
  intro _ s0 e0; subst e0
  split
  · simp [good_ret]
  · next hlen =>
    split
    · simp [good_ret]
    · next hst =>
      split
      · next hd =>
        simp only [good_ret, true_and]
        intro hok
        have hs : b.isStatic = false := by simpa using hst
        have hdn : b.dataId = none := by simpa using hd
        have := (hok hs hdn).2
        simp [ABuf.len, this] at hlen
      · simp [good_ret]

theorem bufAppend_spec (dest : ABuf) (src : Option ABuf) (s : Ledger) (wf : s.WF) (own : Owns s dest.owned) (hok : dest.ok)
    (hsrc : ∀ x, src = some x → x.hdr ∈ s.live) :
    Good (bufAppend dest src) s (BufStep dest s) := by
  unfold bufAppend
  simp only [bind_eq, pure_eq]
  have hlive : dest.hdr ∈ s.live := own.2 _ (by simp [ABuf.owned])
  refine Good.bind (deref_spec dest.hdr s hlive) ?_
  intro _ s0 e0; subst e0
  split
  · simp only [good_ret]; exact BufStep.same wf own false
  · cases src with
    | none => simp only [good_ret]; exact BufStep.same wf own true
    | some x =>
      simp only
      refine Good.bind (bufCstr_spec x s0 (hsrc x rfl)) ?_
      intro d s1 ⟨e1, _⟩; subst e1
      exact bufAppendData_spec dest d s1 wf own hok

theorem bufDuplicate_spec (b : Option ABuf) (s : Ledger) (wf : s.WF) (hb : ∀ x, b = some x → x.hdr ∈ s.live) :
    Good (bufDuplicate b) s (fun r s' =>
      Clean s s' [] (ownedBufOpt r) ∧ (s.hits < s'.hits → r = none) ∧ (∀ x, r = some x → x.isStatic = false ∧ x.ok) ∧
      (b = none → r = none ∧ s'.hits = s.hits)) := by
  cases b with
  | none =>
    simp only [bufDuplicate, pure_eq, good_ret, ownedBufOpt]
    exact ⟨Clean.rfl wf, by simp, by simp, by simp⟩
  | some x =>
    unfold bufDuplicate
    simp only [bind_eq]
    refine Good.bind (bufCstr_spec x s (hb x rfl)) ?_
    intro d s1 ⟨e1, _⟩; subst e1
    refine (bufCreate_spec d x.len s1 wf).mono ?_
    intro r s' ⟨c, h, hs, hk⟩
    exact ⟨c, h, fun y hy => ⟨hs y hy, hk y hy⟩, by simp⟩

/-! ### Lists -/

theorem listCreate_spec {ι : Type} (s : Ledger) (wf : s.WF) :
    Good (listCreate (ι := ι)) s (fun r s' =>
      Clean s s' [] (match r with | none => [] | some l => [l.hdr]) ∧ (s.hits < s'.hits → r = none) ∧
      (∀ l, r = some l → l.cells = [])) := by
  unfold listCreate
  simp only [bind_eq, pure_eq]
  refine Good.bind (malloc_spec s wf) ?_
  intro h s1 ⟨c1, h1⟩
  cases h with
  | none => simp only [good_ret]; exact ⟨c1, by simp, by simp⟩
  | some h =>
    simp only [good_ret]
    refine ⟨by simpa using c1, ?_, by simp⟩
    intro hh; have := h1 hh; simp at this

/-- `listAppend` / `listInsert`: the list object stays, at most one fresh cell appears. -/
def ListStep {ι : Type} (l : AList ι) (s : Ledger) (r : AList ι × Bool) (s' : Ledger) : Prop :=
  r.1.hdr = l.hdr ∧ (s.hits < s'.hits → r.2 = false) ∧
  ((r.2 = false ∧ r.1 = l ∧ Clean s s' [] []) ∨
   (r.2 = true ∧ ∃ c, Clean s s' [] [c] ∧ List.Perm (r.1.cells.map (·.1)) (c :: l.cells.map (·.1))))

theorem listAppend_spec {ι : Type} (l : AList ι) (item : ι) (s : Ledger) (wf : s.WF) (hl : l.hdr ∈ s.live) :
    Good (listAppend l item) s (fun r s' =>
      r.1.hdr = l.hdr ∧ (s.hits < s'.hits → r.2 = false) ∧
      ((r.2 = false ∧ r.1 = l ∧ Clean s s' [] []) ∨
       (r.2 = true ∧ ∃ c, r.1.cells = l.cells ++ [(c, item)] ∧ Clean s s' [] [c]))) := by
  unfold listAppend
  simp only [bind_eq, pure_eq]
  refine Good.bind (deref_spec l.hdr s hl) ?_
  intro _ s0 e0; subst e0
  refine Good.bind (malloc_spec s0 wf) ?_
  intro c s1 ⟨c1, h1⟩
  cases c with
  | none =>
    simp only [good_ret]
    exact ⟨by simp, by simp, Or.inl ⟨by simp, by simp, by simpa using c1⟩⟩
  | some c =>
    simp only [good_ret]
    refine ⟨by simp, ?_, Or.inr ⟨by simp, c, by simp, by simpa using c1⟩⟩
    intro hh; have := h1 hh; simp at this

theorem listInsert_spec {ι : Type} (l : AList ι) (item : ι) (pos : Nat) (s : Ledger) (wf : s.WF) (hl : l.hdr ∈ s.live) :
    Good (listInsert l item pos) s (ListStep l s) := by
  unfold listInsert
  simp only [bind_eq, pure_eq]
  refine Good.bind (malloc_spec s wf) ?_
  intro c s1 ⟨c1, h1⟩
  cases c with
  | none =>
    simp only [good_ret]
    exact ⟨rfl, by simp, Or.inl ⟨rfl, rfl, by simpa using c1⟩⟩
  | some c =>
    simp only
    have hl1 : l.hdr ∈ s1.live := (c1.live _).2 (Or.inl ⟨hl, by simp⟩)
    refine Good.bind (deref_spec l.hdr s1 hl1) ?_
    intro _ s2 e2; subst e2
    simp only [good_ret]
    refine ⟨rfl, ?_, Or.inr ⟨rfl, c, by simpa using c1, ?_⟩⟩
    · intro hh; have := h1 hh; simp at this
    · simp only [List.map_append, List.map_cons, List.map_nil, List.append_assoc, List.singleton_append]
      have : l.cells.map (·.1) = (l.cells.take pos).map (·.1) ++ (l.cells.drop pos).map (·.1) := by
        rw [← List.map_append, List.take_append_drop]
      rw [this]
      exact List.perm_middle

theorem listExtractFirst_spec {ι : Type} (l : AList ι) (s : Ledger) (wf : s.WF) (hl : l.hdr ∈ s.live)
    (hc : ∀ c ∈ l.cells.map (·.1), c ∈ s.live) :
    Good (listExtractFirst l) s (fun r s' =>
      r.1.hdr = l.hdr ∧ s'.hits = s.hits ∧ s'.next = s.next ∧
      match l.cells with
      | [] => r = (l, none) ∧ s' = s
      | (c, it) :: rest => r.2 = some it ∧ r.1.cells = rest ∧ Clean s s' [c] []) := by
  unfold listExtractFirst
  simp only [bind_eq, pure_eq]
  refine Good.bind (deref_spec l.hdr s hl) ?_
  intro _ s0 e0; subst e0
  cases hcells : l.cells with
  | nil => simp [good_ret]
  | cons x rest =>
    obtain ⟨c, it⟩ := x
    simp only
    have hcl : c ∈ s0.live := hc c (by simp [hcells])
    refine Good.bind (deref_spec c s0 hcl) ?_
    intro _ s1 e1; subst e1
    refine Good.bind (free_spec (some c) s1 wf (by intro a ha; cases ha; exact hcl)) ?_
    intro _ s2 ⟨c2, h2, n2⟩
    simp only [good_ret]
    exact ⟨by simp, h2, n2, by simp, by simp, by simpa using c2⟩

/-- Blocks of a chain of cells, given what each item owns. -/
def cellsOwned {ι : Type} (oi : ι → List Nat) (cells : List (Nat × ι)) : List Nat :=
  cells.flatMap (fun c => c.1 :: oi c.2)

theorem cellsOwned_append {ι : Type} (oi : ι → List Nat) (A B : List (Nat × ι)) :
    cellsOwned oi (A ++ B) = cellsOwned oi A ++ cellsOwned oi B := by
  simp [cellsOwned, List.flatMap_append]

/-- What a destructor must do: release exactly the item's blocks, allocate nothing. -/
def Destroys {ι : Type} (oi : ι → List Nat) (d : ι → Prog Unit) : Prop :=
  ∀ it s, s.WF → Owns s (oi it) →
    Good (d it) s (fun _ s' => Clean s s' (oi it) [] ∧ s'.hits = s.hits ∧ s'.next = s.next)

theorem cellsDestroy_spec {ι : Type} (oi : ι → List Nat) (d : ι → Prog Unit) (hd : Destroys oi d)
    (cells : List (Nat × ι)) (s : Ledger) (wf : s.WF) (own : Owns s (cellsOwned oi cells)) :
    Good (cellsDestroy cells d) s (fun _ s' =>
      Clean s s' (cellsOwned oi cells) [] ∧ s'.hits = s.hits ∧ s'.next = s.next) := by
  induction cells generalizing s with
  | nil => simp only [cellsDestroy, pure_eq, good_ret, cellsOwned, List.flatMap_nil]; exact ⟨Clean.rfl wf, by simp, by simp⟩
  | cons x rest ih =>
    obtain ⟨c, it⟩ := x
    simp only [cellsOwned, List.flatMap_cons, List.cons_append] at own ⊢
    obtain ⟨hcl, hcn, own'⟩ := Owns.cons_iff.1 own
    obtain ⟨ownIt, ownRest, disj⟩ := Owns.append_iff.1 own'
    unfold cellsDestroy
    simp only [bind_eq]
    refine Good.bind (deref_spec c s hcl) ?_
    intro _ s0 e0; subst e0
    refine Good.bind (hd it s0 wf ownIt) ?_
    intro _ s1 ⟨c1, h1, n1⟩
    have hc1 : c ∈ s1.live := (c1.live c).2 (Or.inl ⟨hcl, fun hm => hcn (List.mem_append_left _ hm)⟩)
    refine Good.bind (free_spec (some c) s1 c1.wf (by intro a ha; cases ha; exact hc1)) ?_
    intro _ s2 ⟨c2, h2, n2⟩
    have ownRest2 : Owns s2 (cellsOwned oi rest) := by
      refine c2.keeps (c1.keeps ownRest ?_) ?_
      · intro i hi hm; exact disj i hm hi
      · intro i hi hm
        simp only [Option.toList, List.mem_singleton] at hm
        subst hm; exact hcn (List.mem_append_right _ hi)
    refine (ih s2 c2.wf ownRest2).mono ?_
    intro _ s3 ⟨c3, h3, n3⟩
    expose c1; expose c2; expose c3
    refine ⟨⟨?_, by simp, by simp, by simp_all, by omega, by omega, c3.wf⟩, by omega, by omega⟩
    intro i
    simp only [Option.toList, List.mem_cons, List.mem_append, cellsOwned] at *
    grind

/-- Blocks of a (possibly NULL) list. -/
def listOwned {ι : Type} (oi : ι → List Nat) : Option (AList ι) → List Nat
  | none => []
  | some l => l.hdr :: cellsOwned oi l.cells

theorem listDestroy_spec {ι : Type} (oi : ι → List Nat) (d : ι → Prog Unit) (hd : Destroys oi d)
    (l : Option (AList ι)) (s : Ledger) (wf : s.WF) (own : Owns s (listOwned oi l)) :
    Good (listDestroy l d) s (fun _ s' =>
      Clean s s' (listOwned oi l) [] ∧ s'.hits = s.hits ∧ s'.next = s.next) := by
  cases l with
  | none => simp only [listDestroy, pure_eq, good_ret, listOwned]; exact ⟨Clean.rfl wf, by simp, by simp⟩
  | some l =>
    simp only [listOwned] at own ⊢
    obtain ⟨hl, hn, ownC⟩ := Owns.cons_iff.1 own
    unfold listDestroy
    simp only [bind_eq]
    refine Good.bind (deref_spec l.hdr s hl) ?_
    intro _ s0 e0; subst e0
    refine Good.bind (cellsDestroy_spec oi d hd l.cells s0 wf ownC) ?_
    intro _ s1 ⟨c1, h1, n1⟩
    have hl1 : l.hdr ∈ s1.live := (c1.live _).2 (Or.inl ⟨hl, hn⟩)
    refine (free_spec (some l.hdr) s1 c1.wf (by intro a ha; cases ha; exact hl1)).mono ?_
    intro _ s2 ⟨c2, h2, n2⟩
    expose c1; expose c2
    refine ⟨⟨?_, by simp, by simp, by simp_all, by omega, by omega, c2.wf⟩, by omega, by omega⟩
    intro i
    simp only [Option.toList, List.mem_cons] at *
    grind

/-! ### Tags / attribute names -/

theorem nameDestroy_spec (t : Option AName) (s : Ledger) (wf : s.WF) (own : Owns s (ownedNameOpt t)) :
    Good (nameDestroy t) s (fun _ s' => Clean s s' (ownedNameOpt t) [] ∧ s'.hits = s.hits ∧ s'.next = s.next) := by
  cases t with
  | none => simp only [nameDestroy, pure_eq, good_ret, ownedNameOpt]; exact ⟨Clean.rfl wf, by simp, by simp⟩
  | some t =>
    simp only [ownedNameOpt, AName.owned] at own ⊢
    obtain ⟨hl, hn, own'⟩ := Owns.cons_iff.1 own
    unfold nameDestroy
    simp only [bind_eq]
    refine Good.bind (deref_spec t.hdr s hl) ?_
    intro _ s0 e0; subst e0
    cases hv : t.v with
    | token r =>
      simp only [hv] at hn own' ⊢
      refine (free_spec (some t.hdr) s0 wf (by intro a ha; cases ha; exact hl)).mono ?_
      intro _ s1 ⟨c1, h1, n1⟩
      exact ⟨by simpa using c1, h1, n1⟩
    | literal b =>
      simp only [hv] at hn own' ⊢
      refine Good.bind (bufDestroy_spec b s0 wf own') ?_
      intro _ s1 ⟨c1, h1, n1⟩
      have hl1 : t.hdr ∈ s1.live := (c1.live _).2 (Or.inl ⟨hl, hn⟩)
      refine (free_spec (some t.hdr) s1 c1.wf (by intro a ha; cases ha; exact hl1)).mono ?_
      intro _ s2 ⟨c2, h2, n2⟩
      expose c1; expose c2
      refine ⟨⟨?_, by simp, by simp, by simp_all, by omega, by omega, c2.wf⟩, by omega, by omega⟩
      intro i
      simp only [Option.toList, List.mem_cons] at *
      grind

theorem nameCreateToken_spec (row : Nat) (s : Ledger) (wf : s.WF) :
    Good (nameCreateToken row) s (fun r s' => Clean s s' [] (ownedNameOpt r) ∧ (s.hits < s'.hits → r = none)) := by
  unfold nameCreateToken
  simp only [bind_eq, pure_eq]
  refine Good.bind (malloc_spec s wf) ?_
  intro h s1 ⟨c1, h1⟩
  cases h with
  | none => simp only [good_ret, ownedNameOpt]; exact ⟨c1, by simp⟩
  | some h =>
    simp only [good_ret, ownedNameOpt, AName.owned]
    refine ⟨by simpa using c1, ?_⟩
    intro hh; have := h1 hh; simp at this

theorem nameCreateLiteral_spec (value : Option Bytes) (s : Ledger) (wf : s.WF) :
    Good (nameCreateLiteral value) s (fun r s' => Clean s s' [] (ownedNameOpt r) ∧ (s.hits < s'.hits → r = none)) := by
  unfold nameCreateLiteral
  simp only [bind_eq, pure_eq]
  refine Good.bind (malloc_spec s wf) ?_
  intro h s1 ⟨c1, h1⟩
  cases h with
  | none => simp only [good_ret, ownedNameOpt]; exact ⟨c1, by simp⟩
  | some h =>
    have hh1 : ¬ s.hits < s1.hits := by intro hh; have := h1 hh; simp at this
    cases value with
    | none =>
      simp only [good_ret, ownedNameOpt, AName.owned, ownedBufOpt]
      exact ⟨by simpa using c1, fun hh => (hh1 hh).elim⟩
    | some v =>
      simp only
      refine Good.bind (bufCreate_spec (some v) v.length s1 c1.wf) ?_
      intro b s2 ⟨c2, h2, _, _⟩
      have hl2 : h ∈ s2.live := (c2.live h).2 (Or.inl ⟨(c1.live h).2 (Or.inr (by simp)), by simp⟩)
      cases b with
      | none =>
        simp only
        refine Good.bind (nameDestroy_spec (some ⟨h, .literal none⟩) s2 c2.wf ?_) ?_
        · simp only [ownedNameOpt, AName.owned, ownedBufOpt, List.append_nil]
          exact Owns.cons_iff.2 ⟨hl2, by simp, Owns.nil _⟩
        · intro _ s3 ⟨c3, h3, n3⟩
          simp only [good_ret, ownedNameOpt]
          expose c1; expose c2; expose c3
          refine ⟨⟨?_, by simp, by simp, by simp_all, by omega, by omega, c3.wf⟩, by simp⟩
          intro i
          have := wf i
          simp only [ownedNameOpt, AName.owned, ownedBufOpt, Option.toList, List.mem_cons, List.append_nil] at *
          grind
      | some b =>
        simp only [good_ret, ownedNameOpt, AName.owned]
        expose c1; expose c2
        simp only [ownedBufOpt, Option.toList] at *
        refine ⟨⟨?_, ?_, ?_, by simp_all, by omega, by omega, c2.wf⟩, ?_⟩
        · intro i; grind
        · intro i hi; grind
        · grind
        · intro hh; have a2 := h2; simp at a2; omega

theorem nameDuplicate_spec (t : Option AName) (s : Ledger) (wf : s.WF) (own : Owns s (ownedNameOpt t)) :
    Good (nameDuplicate t) s (fun r s' =>
      Clean s s' [] (ownedNameOpt r) ∧ (s.hits < s'.hits → r = none) ∧ (t = none → r = none ∧ s'.hits = s.hits)) := by
  cases t with
  | none => simp only [nameDuplicate, pure_eq, good_ret, ownedNameOpt]; exact ⟨Clean.rfl wf, by simp, by simp⟩
  | some t =>
    simp only [ownedNameOpt, AName.owned] at own
    obtain ⟨hl, hn, own'⟩ := Owns.cons_iff.1 own
    unfold nameDuplicate
    simp only [bind_eq, pure_eq]
    refine Good.bind (deref_spec t.hdr s hl) ?_
    intro _ s0 e0; subst e0
    refine Good.bind (malloc_spec s0 wf) ?_
    intro h s1 ⟨c1, h1⟩
    cases h with
    | none => simp only [good_ret, ownedNameOpt]; exact ⟨c1, by simp, by simp⟩
    | some h =>
      have hh1 : ¬ s0.hits < s1.hits := by intro hh; have := h1 hh; simp at this
      cases hv : t.v with
      | token r =>
        simp only [good_ret, ownedNameOpt, AName.owned]
        exact ⟨by simpa using c1, fun hh => (hh1 hh).elim, by simp⟩
      | literal b =>
        simp only [hv] at own' ⊢
        have hb1 : ∀ x, b = some x → x.hdr ∈ s1.live := by
          intro x hx; subst hx
          refine (c1.live _).2 (Or.inl ⟨own'.2 _ (by simp [ownedBufOpt, ABuf.owned]), by simp⟩)
        refine Good.bind (bufDuplicate_spec b s1 c1.wf hb1) ?_
        intro b' s2 ⟨c2, h2, _, hnone⟩
        have hl2 : h ∈ s2.live := (c2.live h).2 (Or.inl ⟨(c1.live h).2 (Or.inr (by simp)), by simp⟩)
        by_cases hcond : (b'.isNone && b.isSome) = true
        · simp only [hcond, if_true]
          refine Good.bind (free_spec (some h) s2 c2.wf (by intro a ha; cases ha; exact hl2)) ?_
          intro _ s3 ⟨c3, h3, n3⟩
          simp only [good_ret, ownedNameOpt]
          have hb' : b' = none := by cases b' <;> simp_all
          subst hb'
          expose c1; expose c2; expose c3
          refine ⟨⟨?_, by simp, by simp, by simp_all, by omega, by omega, c3.wf⟩, by simp, by simp⟩
          intro i
          have := wf i
          simp only [ownedBufOpt, Option.toList, List.mem_cons] at *
          grind
        · simp only [hcond, Bool.false_eq_true, if_false, good_ret, ownedNameOpt, AName.owned]
          expose c1; expose c2
          simp only [Option.toList] at *
          refine ⟨⟨?_, ?_, ?_, by simp_all, by omega, by omega, c2.wf⟩, ?_, by simp⟩
          · intro i; grind
          · intro i hi; grind
          · grind
          · intro hh
            cases b with
            | none => have := (hnone rfl).2; omega
            | some x =>
              have a2 := h2
              have : s1.hits < s2.hits := by omega
              have hb' := a2 this
              subst hb'
              simp at hcond

/-! ### Attributes -/

theorem attrCreate_spec (s : Ledger) (wf : s.WF) :
    Good attrCreate s (fun r s' => Clean s s' [] (ownedAttrOpt r) ∧ (s.hits < s'.hits → r = none) ∧
      (∀ a, r = some a → a.name = none ∧ a.value = none)) := by
  unfold attrCreate
  simp only [bind_eq, pure_eq]
  refine Good.bind (malloc_spec s wf) ?_
  intro h s1 ⟨c1, h1⟩
  cases h with
  | none => simp only [good_ret, ownedAttrOpt]; exact ⟨c1, by simp, by simp⟩
  | some h =>
    simp only [good_ret, ownedAttrOpt, AAttr.owned, ownedNameOpt, ownedBufOpt]
    refine ⟨by simpa using c1, ?_, by simp⟩
    intro hh; have := h1 hh; simp at this

theorem attrDestroy_spec (a : Option AAttr) (s : Ledger) (wf : s.WF) (own : Owns s (ownedAttrOpt a)) :
    Good (attrDestroy a) s (fun _ s' => Clean s s' (ownedAttrOpt a) [] ∧ s'.hits = s.hits ∧ s'.next = s.next) := by
  cases a with
  | none => simp only [attrDestroy, pure_eq, good_ret, ownedAttrOpt]; exact ⟨Clean.rfl wf, by simp, by simp⟩
  | some a =>
    simp only [ownedAttrOpt, AAttr.owned] at own ⊢
    obtain ⟨hl, hn, own'⟩ := Owns.cons_iff.1 own
    obtain ⟨ownN, ownV, disj⟩ := Owns.append_iff.1 own'
    unfold attrDestroy
    simp only [bind_eq]
    refine Good.bind (deref_spec a.hdr s hl) ?_
    intro _ s0 e0; subst e0
    refine Good.bind (nameDestroy_spec a.name s0 wf ownN) ?_
    intro _ s1 ⟨c1, h1, n1⟩
    have ownV1 : Owns s1 (ownedBufOpt a.value) := c1.keeps ownV (fun i hi hm => disj i hm hi)
    refine Good.bind (bufDestroy_spec a.value s1 c1.wf ownV1) ?_
    intro _ s2 ⟨c2, h2, n2⟩
    have hl2 : a.hdr ∈ s2.live := by
      refine (c2.live _).2 (Or.inl ⟨(c1.live _).2 (Or.inl ⟨hl, fun hm => hn (List.mem_append_left _ hm)⟩), fun hm => hn (List.mem_append_right _ hm)⟩)
    refine (free_spec (some a.hdr) s2 c2.wf (by intro x hx; cases hx; exact hl2)).mono ?_
    intro _ s3 ⟨c3, h3, n3⟩
    expose c1; expose c2; expose c3
    refine ⟨⟨?_, by simp, by simp, by simp_all, by omega, by omega, c3.wf⟩, by omega, by omega⟩
    intro i
    simp only [Option.toList, List.mem_cons, List.mem_append] at *
    grind

theorem attr_destroys : Destroys AAttr.owned (fun a => attrDestroy (some a)) := by
  intro a s wf own
  exact attrDestroy_spec (some a) s wf own

theorem buf_destroys : Destroys ABuf.owned (fun b => bufDestroy (some b)) := by
  intro b s wf own
  exact bufDestroy_spec (some b) s wf own

theorem attrDuplicate_spec (a : Option AAttr) (s : Ledger) (wf : s.WF) (own : Owns s (ownedAttrOpt a)) :
    Good (attrDuplicate a) s (fun r s' =>
      Clean s s' [] (ownedAttrOpt r) ∧ (s.hits < s'.hits → r = none) ∧ (a = none → r = none)) := by
  cases a with
  | none => simp only [attrDuplicate, pure_eq, good_ret, ownedAttrOpt]; exact ⟨Clean.rfl wf, by simp, by simp⟩
  | some a =>
    simp only [ownedAttrOpt, AAttr.owned] at own
    obtain ⟨hl, hn, own'⟩ := Owns.cons_iff.1 own
    obtain ⟨ownN, ownV, disj⟩ := Owns.append_iff.1 own'
    unfold attrDuplicate
    simp only [bind_eq, pure_eq]
    refine Good.bind (deref_spec a.hdr s hl) ?_
    intro _ s0 e0; subst e0
    refine Good.bind (malloc_spec s0 wf) ?_
    intro h s1 ⟨c1, h1⟩
    cases h with
    | none => simp only [good_ret, ownedAttrOpt]; exact ⟨c1, by simp, by simp⟩
    | some h =>
      have hh1 : ¬ s0.hits < s1.hits := by intro hh; have := h1 hh; simp at this
      simp only
      have ownN1 : Owns s1 (ownedNameOpt a.name) := c1.keeps ownN (by simp)
      refine Good.bind (nameDuplicate_spec a.name s1 c1.wf ownN1) ?_
      intro n s2 ⟨c2, h2, hn2⟩
      have hv2 : ∀ x, a.value = some x → x.hdr ∈ s2.live := by
        intro x hx
        have : x.hdr ∈ s0.live := ownV.2 _ (by simp [hx, ownedBufOpt, ABuf.owned])
        exact (c2.live _).2 (Or.inl ⟨(c1.live _).2 (Or.inl ⟨this, by simp⟩), by simp⟩)
      refine Good.bind (bufDuplicate_spec a.value s2 c2.wf hv2) ?_
      intro v s3 ⟨c3, h3, _, hv3⟩
      have hl1 : h ∈ s1.live := (c1.live h).2 (Or.inr (by simp))
      have hl3 : h ∈ s3.live := (c3.live h).2 (Or.inl ⟨(c2.live h).2 (Or.inl ⟨hl1, by simp⟩), by simp⟩)
      have hfh : s0.next < h ∧ h ≤ s1.next := by have := c1.fresh h (by simp); simpa using this
      have dNV : ∀ i ∈ ownedNameOpt n, i ∉ ownedBufOpt v := c2.disjoint_later c3
      have hhN : h ∉ ownedNameOpt n := by
        intro hm; have := c2.fresh h hm; simp at this; omega
      have hhV : h ∉ ownedBufOpt v := by
        intro hm; have := c3.fresh h hm; have := c2.next; simp at *; omega
      have ownNew : Owns s3 (h :: (ownedNameOpt n ++ ownedBufOpt v)) := by
        refine Owns.cons_iff.2 ⟨hl3, ?_, Owns.append_iff.2 ⟨c3.keeps c2.owns (by simp), c3.owns, dNV⟩⟩
        intro hm; rcases List.mem_append.1 hm with hm | hm
        · exact hhN hm
        · exact hhV hm
      by_cases hcond : ((n.isNone && a.name.isSome) || (v.isNone && a.value.isSome)) = true
      · simp only [hcond, if_true]
        refine Good.bind (attrDestroy_spec (some ⟨h, n, v⟩) s3 c3.wf (by simpa [ownedAttrOpt, AAttr.owned] using ownNew)) ?_
        intro _ s4 ⟨c4, h4, n4⟩
        simp only [good_ret, ownedAttrOpt]
        expose c1; expose c2; expose c3; expose c4
        refine ⟨⟨?_, by simp, by simp, by simp_all, by omega, by omega, c4.wf⟩, by simp, by simp⟩
        intro i
        have := wf i
        simp only [ownedAttrOpt, AAttr.owned, Option.toList, List.mem_cons, List.mem_append] at *
        grind
      · simp only [hcond, Bool.false_eq_true, if_false, good_ret, ownedAttrOpt, AAttr.owned]
        expose c1; expose c2; expose c3
        refine ⟨⟨?_, ?_, ownNew.1, by simp_all, by omega, by omega, c3.wf⟩, ?_, by simp⟩
        · intro i
          have := wf i
          simp only [Option.toList, List.mem_cons, List.mem_append] at *
          grind
        · intro i hi
          simp only [Option.toList, List.mem_cons, List.mem_append] at *
          grind
        · intro hh
          exfalso
          apply hcond
          -- a delivered failure happened in one of the two copies
          have hs1 : s1.hits = s0.hits := by omega
          by_cases hA : s1.hits < s2.hits
          · have hnn := h2 hA
            cases hname : a.name with
            | none => have := (hn2 hname).2; omega
            | some x => simp [hnn]
          · have hB : s2.hits < s3.hits := by omega
            have hvn := h3 hB
            cases hval : a.value with
            | none => have := (hv3 hval).2; omega
            | some x => simp [hvn]

/-! ### Tree nodes -/

abbrev attrsOwned (l : Option (AList AAttr)) : List Nat := listOwned AAttr.owned l

theorem ANode.owned_eq (n : ANode) :
    n.owned = n.hdr :: (ownedNameOpt n.name ++ attrsOwned n.attrs ++ ownedBufOpt n.content) := by
  cases h : n.attrs <;> simp [ANode.owned, attrsOwned, listOwned, h, AList.owned, cellsOwned]

theorem nodeCreate_spec (s : Ledger) (wf : s.WF) :
    Good nodeCreate s (fun r s' => Clean s s' [] (match r with | none => [] | some n => n.owned) ∧
      (s.hits < s'.hits → r = none)) := by
  unfold nodeCreate
  simp only [bind_eq, pure_eq]
  refine Good.bind (malloc_spec s wf) ?_
  intro h s1 ⟨c1, h1⟩
  cases h with
  | none => simp only [good_ret]; exact ⟨c1, by simp⟩
  | some h =>
    simp only [good_ret, ANode.owned, ownedNameOpt, ownedBufOpt]
    refine ⟨by simpa using c1, ?_⟩
    intro hh; have := h1 hh; simp at this

theorem nodeDestroy_spec (n : Option ANode) (s : Ledger) (wf : s.WF)
    (own : Owns s (match n with | none => [] | some n => n.owned)) :
    Good (nodeDestroy n) s (fun _ s' =>
      Clean s s' (match n with | none => [] | some n => n.owned) [] ∧ s'.hits = s.hits ∧ s'.next = s.next) := by
  cases n with
  | none => simp only [nodeDestroy, pure_eq, good_ret]; exact ⟨Clean.rfl wf, by simp, by simp⟩
  | some n =>
    simp only [ANode.owned_eq] at own ⊢
    obtain ⟨hl, hn, own'⟩ := Owns.cons_iff.1 own
    obtain ⟨ownNA, ownC, disjC⟩ := Owns.append_iff.1 own'
    obtain ⟨ownN, ownA, disjA⟩ := Owns.append_iff.1 ownNA
    unfold nodeDestroy
    simp only [bind_eq]
    refine Good.bind (deref_spec n.hdr s hl) ?_
    intro _ s0 e0; subst e0
    refine Good.bind (nameDestroy_spec n.name s0 wf ownN) ?_
    intro _ s1 ⟨c1, h1, n1⟩
    have ownA1 : Owns s1 (attrsOwned n.attrs) := c1.keeps ownA (fun i hi hm => disjA i hm hi)
    refine Good.bind (listDestroy_spec AAttr.owned _ attr_destroys n.attrs s1 c1.wf ownA1) ?_
    intro _ s2 ⟨c2, h2, n2⟩
    have c2' : Clean s1 s2 (attrsOwned n.attrs) [] := c2
    have ownC2 : Owns s2 (ownedBufOpt n.content) := by
      refine c2'.keeps (c1.keeps ownC ?_) ?_
      · intro i hi hm; exact disjC i (List.mem_append_left _ hm) hi
      · intro i hi hm; exact disjC i (List.mem_append_right _ hm) hi
    refine Good.bind (bufDestroy_spec n.content s2 c2.wf ownC2) ?_
    intro _ s3 ⟨c3, h3, n3⟩
    have hl3 : n.hdr ∈ s3.live := by
      have a1 : n.hdr ∈ s1.live := (c1.live _).2 (Or.inl ⟨hl, fun hm => hn (List.mem_append_left _ (List.mem_append_left _ hm))⟩)
      have a2 : n.hdr ∈ s2.live := (c2'.live _).2 (Or.inl ⟨a1, fun hm => hn (List.mem_append_left _ (List.mem_append_right _ hm))⟩)
      exact (c3.live _).2 (Or.inl ⟨a2, fun hm => hn (List.mem_append_right _ hm)⟩)
    refine (free_spec (some n.hdr) s3 c3.wf (by intro x hx; cases hx; exact hl3)).mono ?_
    intro _ s4 ⟨c4, h4, n4⟩
    have := c1.live; have := c2'.live; have := c3.live; have := c4.live
    have := c1.sched; have := c2'.sched; have := c3.sched; have := c4.sched
    have := c1.next; have := c2'.next; have := c3.next; have := c4.next
    have := c1.hits; have := c2'.hits; have := c3.hits; have := c4.hits
    refine ⟨⟨?_, by simp, by simp, by simp_all, by omega, by omega, c4.wf⟩, by omega, by omega⟩
    intro i
    simp only [Option.toList, List.mem_cons, List.mem_append] at *
    grind

/-- The shape of `wbxml_tree_node_add_attr`: same node struct, more owned blocks. -/
theorem nodeAddAttr_spec (n : ANode) (attr : AAttr) (s : Ledger) (wf : s.WF) (own : Owns s n.owned)
    (ownA : Owns s attr.owned) :
    Good (nodeAddAttr n attr) s (fun r s' =>
      r.1.hdr = n.hdr ∧ Clean s s' n.owned r.1.owned ∧ (s.hits < s'.hits → r.2 = ENOMEM)) := by
  have hl : n.hdr ∈ s.live := own.2 _ (by simp [ANode.owned])
  unfold nodeAddAttr
  simp only [bind_eq, pure_eq]
  refine Good.bind (deref_spec n.hdr s hl) ?_
  intro _ s0 e0; subst e0
  -- the list, existing or created now
  have hstep : Good (match n.attrs with | some l => Prog.ret (some l) | none => listCreate) s0 (fun l s1 =>
      (∃ P, Clean s0 s1 [] P ∧ (∀ x, l = some x → attrsOwned (some x) = P ++ attrsOwned n.attrs) ∧ (l = none → P = [])) ∧
      (s0.hits < s1.hits → l = none)) := by
    cases h : n.attrs with
    | some l => simp only [good_ret]; exact ⟨⟨[], Clean.rfl wf, by simp, by simp⟩, by simp⟩
    | none =>
      refine (listCreate_spec (ι := AAttr) s0 wf).mono ?_
      intro r s1 ⟨c1, h1, e1⟩
      refine ⟨⟨_, c1, ?_, ?_⟩, h1⟩
      · intro x hx; subst hx; simp [attrsOwned, listOwned, e1 x rfl, cellsOwned]
      · intro hx; subst hx; rfl
  refine Good.bind hstep ?_
  intro l s1 ⟨⟨P, c1, eP, eN⟩, h1⟩
  cases l with
  | none =>
    simp only [good_ret]
    have := eN rfl; subst this
    refine ⟨by simp, ⟨?_, fun i hi => Or.inl hi, own.1, c1.sched, c1.next, c1.hits, c1.wf⟩, by simp⟩
    intro i; have := c1.live i; have := own.2 i; grind
  | some l =>
    simp only
    have ownA1 : Owns s1 attr.owned := c1.keeps ownA (by simp)
    refine Good.bind (attrDuplicate_spec (some attr) s1 c1.wf (by simpa [ownedAttrOpt] using ownA1)) ?_
    intro c s2 ⟨c2, h2, _⟩
    have hPdisj : ∀ i ∈ P, i ∉ n.owned := by
      intro i hi hm
      exact c1.fresh_not_live wf i hi (own.2 i hm)
    have own1 : Owns s1 n.owned := c1.keeps own (by simp)
    -- owned blocks of the node with the list installed
    have eOwn1 : ∀ i, i ∈ ({ n with attrs := some l } : ANode).owned ↔ i ∈ n.owned ∨ i ∈ P := by
      intro i
      simp only [ANode.owned_eq, eP l rfl, List.mem_cons, List.mem_append]
      grind
    have nd1 : ({ n with attrs := some l } : ANode).owned.Nodup := by
      simp only [ANode.owned_eq, eP l rfl] at *
      have hn := own.1
      have hP := c1.nodup
      simp only [List.nodup_cons, List.nodup_append, List.mem_append, List.mem_cons] at *
      grind
    cases c with
    | none =>
      simp only [good_ret]
      expose c1; expose c2
      refine ⟨by simp, ⟨?_, ?_, nd1, by simp_all, by omega, by omega, c2.wf⟩, by simp⟩
      · intro i; have := own.2 i; have := eOwn1 i; have := hPdisj i; simp only [ownedAttrOpt] at *; grind
      · intro i hi; have := eOwn1 i; simp only [ownedAttrOpt] at *; grind
    | some c =>
      simp only
      have hl2 : l.hdr ∈ s2.live := by
        have : l.hdr ∈ attrsOwned (some l) := by simp [attrsOwned, listOwned]
        rw [eP l rfl] at this
        rcases List.mem_append.1 this with hm | hm
        · exact (c2.live _).2 (Or.inl ⟨(c1.live _).2 (Or.inr hm), by simp⟩)
        · have : l.hdr ∈ n.owned := by simp only [ANode.owned_eq, List.mem_cons, List.mem_append]; grind
          exact (c2.live _).2 (Or.inl ⟨(c1.live _).2 (Or.inl ⟨own.2 _ this, by simp⟩), by simp⟩)
      refine Good.bind (listAppend_spec l c s2 c2.wf hl2) ?_
      intro r s3 ⟨e3, h3, hcase⟩
      obtain ⟨l2, ok⟩ := r
      simp only at e3 h3 hcase ⊢
      rcases hcase with ⟨hok, hl2', c3⟩ | ⟨hok, cid, hcells, c3⟩
      · subst hok
        simp only [Bool.not_false, if_true]
        have ownC3 : Owns s3 c.owned := c3.keeps (by simpa [ownedAttrOpt] using c2.owns) (by simp)
        refine Good.bind (attrDestroy_spec (some c) s3 c3.wf (by simpa [ownedAttrOpt] using ownC3)) ?_
        intro _ s4 ⟨c4, h4, n4⟩
        simp only [good_ret]
        expose c1; expose c2; expose c3; expose c4
        refine ⟨by simp, ⟨?_, ?_, nd1, by simp_all, by omega, by omega, c4.wf⟩, by simp⟩
        · intro i; have := own.2 i; have := eOwn1 i; have := hPdisj i
          have := wf i
          simp only [ownedAttrOpt] at *; grind
        · intro i hi; have := eOwn1 i; simp only [ownedAttrOpt] at *; grind
      · subst hok
        simp only [Bool.not_true, Bool.false_eq_true, if_false, good_ret]
        -- the node now owns the list with one more cell holding the copy
        have eOwn2 : ∀ i, i ∈ ({ n with attrs := some l2 } : ANode).owned ↔
            i ∈ ({ n with attrs := some l } : ANode).owned ∨ i = cid ∨ i ∈ c.owned := by
          intro i
          simp only [ANode.owned_eq, listOwned, e3, hcells, cellsOwned_append, List.mem_cons, List.mem_append]
          simp only [cellsOwned, List.flatMap_cons, List.flatMap_nil, List.append_nil, List.mem_cons]
          grind
        have hfc : ∀ i ∈ c.owned, s1.next < i ∧ i ≤ s2.next := by
          intro i hi; have := c2.fresh i (by simpa [ownedAttrOpt] using hi); simpa using this
        have hfcid : s2.next < cid ∧ cid ≤ s3.next := by have := c3.fresh cid (by simp); simpa using this
        have hold : ∀ i ∈ ({ n with attrs := some l } : ANode).owned, i ≤ s1.next := by
          intro i hi
          rcases (eOwn1 i).1 hi with hm | hm
          · have := wf i (own.2 i hm); have := c1.next; omega
          · have := c1.fresh i hm; simp at this; omega
        have nd2 : ({ n with attrs := some l2 } : ANode).owned.Nodup := by
          have hcn := c2.nodup
          simp only [ownedAttrOpt] at hcn
          simp only [ANode.owned_eq, listOwned, e3, hcells, cellsOwned_append] at nd1 hold ⊢
          simp only [cellsOwned, List.flatMap_cons, List.flatMap_nil, List.append_nil] at nd1 hold ⊢
          simp only [List.nodup_cons, List.nodup_append, List.mem_append, List.mem_cons] at nd1 hold ⊢
          have := c1.next; have := c2.next
          grind
        expose c1; expose c2; expose c3
        refine ⟨by simp, ⟨?_, ?_, nd2, by simp_all, by omega, by omega, c3.wf⟩, ?_⟩
        · intro i; have := own.2 i; have := eOwn1 i; have := eOwn2 i; have := hPdisj i
          have := wf i
          simp only [ownedAttrOpt, List.mem_singleton] at *; grind
        · intro i hi; have := eOwn1 i; have := eOwn2 i; have := hfc i
          simp only [ownedAttrOpt, List.mem_singleton] at *; grind
        · intro hh
          exfalso
          have a1 := h1; have a2 := h2; have a3 := h3
          simp at a1 a2 a3
          omega

end Wbxml.Model.Alloc
