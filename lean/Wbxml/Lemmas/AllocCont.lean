/-
  C16 — specifications of the container core in the ledger monad.
-/
import Wbxml.Model.AllocCont
import Wbxml.Lemmas.AllocCore
namespace Wbxml.Model.Alloc
open Wbxml
set_option linter.unusedSimpArgs false

/-- The run ends without fault and its result and final ledger satisfy `Q`. -/
def Good (p : Prog α) (s : Ledger) (Q : α → Ledger → Prop) : Prop :=
  match run p s with
  | (.ok a, s') => Q a s'
  | (.error _, _) => False

theorem Good.bind {p : Prog α} {f : α → Prog β} {s : Ledger} {Q : α → Ledger → Prop} {R : β → Ledger → Prop}
    (hp : Good p s Q) (hf : ∀ a s', Q a s' → Good (f a) s' R) : Good (Prog.bind p f) s R := by
  unfold Good at hp ⊢
  rw [run_bind]
  split at hp
  · next a s' h => simp only [h]; exact hf a s' hp
  · exact hp.elim

theorem Good.mono {p : Prog α} {s : Ledger} {Q Q' : α → Ledger → Prop}
    (hp : Good p s Q) (h : ∀ a s', Q a s' → Q' a s') : Good p s Q' := by
  unfold Good at hp ⊢
  generalize run p s = r at hp ⊢
  match r, hp with
  | (.ok a, s'), hp => exact h a s' hp
  | (.error _, _), hp => exact hp.elim

/-- `i` is live after the run iff it was live before and not consumed, or was produced. -/
def LiveEq (s s' : Ledger) (consumed produced : List Nat) : Prop :=
  ∀ i, i ∈ s'.live ↔ (i ∈ s.live ∧ i ∉ consumed) ∨ i ∈ produced

/-- The ids were handed out during the run. -/
def Fresh (s s' : Ledger) (ids : List Nat) : Prop := ∀ i ∈ ids, s.next < i ∧ i ≤ s'.next

/-- The ids are live and pairwise distinct: the caller owns these blocks. -/
def Owns (s : Ledger) (ids : List Nat) : Prop := ids.Nodup ∧ ∀ i ∈ ids, i ∈ s.live

theorem bufCreate_spec (src : Option Bytes) (blk : Nat) (s : Ledger) (wf : s.WF) :
    Good (bufCreate src blk) s (fun r s' =>
      LiveEq s s' [] (ownedBufOpt r) ∧ Fresh s s' (ownedBufOpt r) ∧ (ownedBufOpt r).Nodup ∧
      (s.hits < s'.hits → r = none)) := by
  unfold bufCreate Good
  simp only [malloc, free, bind_eq, pure_eq, Prog.bind, run]
  by_cases h1 : s.fails (s.next + 1) = true
  · simp [h1, run, LiveEq, Fresh, ownedBufOpt]
  · simp only [h1]
    cases src with
    | none =>
      simp [run, LiveEq, Fresh, ownedBufOpt, ABuf.owned]
    | some d =>
      by_cases hd : d.length = 0
      · simp [hd, run, LiveEq, Fresh, ownedBufOpt, ABuf.owned]
      · simp only [hd, if_false, Prog.bind, run]
        by_cases h2 : Ledger.fails { s with next := s.next + 1, live := s.live ++ [s.next + 1] } (s.next + 1 + 1) = true
        · simp only [h2, if_true, Prog.bind, run]
          have : s.next + 1 ∈ s.live ++ [s.next + 1] := by simp
          simp [this, run, Ledger.release, LiveEq, Fresh, ownedBufOpt]
          intro i hi
          have := wf i hi
          omega
        · simp only [h2]
          simp [run, LiveEq, Fresh, ownedBufOpt, ABuf.owned]
          omega

end Wbxml.Model.Alloc
