/-
  Parser safety, part 7: the number of elements, and hence the depth of the open-element stack the
  parser, the tree builder and the XML generator recurse over, is bounded by the number of input
  bytes: every start-element event costs at least one byte (its tag).
-/
import Wbxml.Lemmas.ParserSafeBuild
namespace Wbxml.Lemmas.ParserSafe
open Wbxml Wbxml.Model

attribute [local simp] E.badDatetime E.internal E.langTableUndefined E.tagTableUndefined E.b64Enc
  E.wvDatetimeFormat E.noCharsetConv E.charsetStrLen E.charsetNotFound E.attrTableUndefined
  E.attrValueTableUndefined E.badOpaqueLength E.emptyWbxml E.endOfBuffer E.extValueTableUndefined
  E.invalidStrtblIndex E.nullStringTable E.stringExpected E.strtblLength E.unknownAttrValue
  E.unknownExtensionToken E.unknownPublicId E.unvalidMbUint32 E.wvIntegerOverflow E.invalidUnicode

/-- Number of start-element events. -/
def startCount : List Event → Nat
  | [] => 0
  | .startElt _ _ :: es => startCount es + 1
  | .startDoc _ _ :: es => startCount es
  | .endDoc :: es => startCount es
  | .pi _ _ :: es => startCount es
  | .endElt _ :: es => startCount es
  | .chars _ :: es => startCount es

/-- The open-element depth along an event list: `d` is the current depth, `m` the maximum so far. -/
def depthGo : Nat → Nat → List Event → Nat
  | _, m, [] => m
  | d, m, .startElt _ _ :: es => depthGo (d + 1) (max m (d + 1)) es
  | d, m, .endElt _ :: es => depthGo (d - 1) m es
  | d, m, .startDoc _ _ :: es => depthGo d m es
  | d, m, .endDoc :: es => depthGo d m es
  | d, m, .pi _ _ :: es => depthGo d m es
  | d, m, .chars _ :: es => depthGo d m es

/-- Maximal number of simultaneously open elements: the recursion depth of `parse_element`, the
    height of the tree builder's `current` chain, and the nesting the XML generator descends. -/
def maxDepth (es : List Event) : Nat := depthGo 0 0 es

theorem startCount_append : ∀ (a b : List Event), startCount (a ++ b) = startCount a + startCount b
  | [], b => by simp [startCount]
  | e :: a, b => by
    have ih := startCount_append a b
    cases e <;> simp only [List.cons_append, startCount, ih] <;> omega

theorem depthGo_le : ∀ (es : List Event) (d m : Nat), depthGo d m es ≤ max m (d + startCount es)
  | [], d, m => by simp only [depthGo, startCount]; omega
  | e :: es, d, m => by
    cases e with
    | startElt n a => have := depthGo_le es (d + 1) (max m (d + 1)); simp only [depthGo, startCount]; omega
    | endElt n => have := depthGo_le es (d - 1) m; simp only [depthGo, startCount]; omega
    | startDoc c l => have := depthGo_le es d m; simp only [depthGo, startCount]; omega
    | endDoc => have := depthGo_le es d m; simp only [depthGo, startCount]; omega
    | pi t x => have := depthGo_le es d m; simp only [depthGo, startCount]; omega
    | chars s => have := depthGo_le es d m; simp only [depthGo, startCount]; omega

/-- The depth never exceeds the number of elements. -/
theorem maxDepth_le_startCount (es : List Event) : maxDepth es ≤ startCount es := by
  have := depthGo_le es 0 0
  unfold maxDepth
  omega

theorem startCount_onlyPi {es : List Event} (h : OnlyPi es) : startCount es = 0 := by
  induction es with
  | nil => rfl
  | cons e es ih =>
    obtain ⟨t, d, he⟩ := h e (by simp)
    rw [he]
    simp only [startCount]
    exact ih (fun x hx => h x (by simp [hx]))

theorem Ok.andE {β : Type} {P Q : β → Prop} {m : Except Err β} (h : Ok P m) (hE : OkE Q m) :
    Ok (fun b => P b ∧ Q b) m := by
  cases m with
  | ok b => exact ⟨h, hE b rfl⟩
  | error e => cases e <;> exact h

/-- Every start-element event is paid for with at least one input byte: elements and the content
    loop keep `#startElt + remaining bytes` from growing. -/
theorem elem_content_count : ∀ (f : Nat),
    (∀ (ev : List Event) (s : PState), s.lang ≠ none → 2 * s.rest.length + 2 ≤ f →
        Ok (fun p => Adv 1 s p.2 ∧ startCount p.1 + p.2.rest.length ≤ startCount ev + s.rest.length)
          (parseElement f ev s)) ∧
    (∀ (ev : List Event) (s : PState), s.lang ≠ none → 2 * s.rest.length + 3 ≤ f →
        Ok (fun p => (Adv 0 s p.2 ∧ isToken p.2 0x01 = true) ∧
              startCount p.1 + p.2.rest.length ≤ startCount ev + s.rest.length)
          (contentLoop f ev s))
  | 0 => ⟨fun _ _ _ h => by omega, fun _ _ _ h => by omega⟩
  | f + 1 => by
    obtain ⟨ihE, ihC⟩ := elem_content_count f
    constructor
    · intro ev s hl hf
      rw [parseElement]
      refine optSwitch_ok true s ?_; intro s1 h1
      bind_ok (parseStag_ok s1) with ⟨⟨tag, name⟩, s2⟩ h2
      have h12 : Adv 1 s s2 := h1.trans h2
      try dsimp only
      refine Ok.bind (elemAttrs_ok tag (s0 := s) ?_ hl) ?_
      · cases name with
        | token r => exact h12.of_rest_eq rfl rfl rfl rfl
        | literal _ => exact h12
      rintro ⟨attrs, s4⟩ h34
      replace h34 : Adv 1 s s4 := h34
      have hl4 : s4.lang ≠ none := by rw [h34.lang]; exact hl
      have hlen4 := h34.len
      try dsimp only
      refine Ok.bind (P := fun p => Adv 1 s p.2 ∧
          startCount p.1 + p.2.rest.length ≤ startCount ev + s.rest.length) ?_ ?_
      · split
        · bind_ok (ihC _ s4 hl4 (by omega)) with ⟨ev', s5⟩ ⟨⟨h5, ht⟩, hc5⟩
          bind_ok (skip1_tok ht) with s6 h6
          simp only [Ok_pure]
          refine ⟨(h34.trans h5 (m := 1)).trans h6, ?_⟩
          have := h6.len
          simp only [startCount_append, startCount] at hc5
          omega
        · simp only [Ok_pure]
          refine ⟨h34, ?_⟩
          simp only [startCount_append, startCount]
          omega
      · rintro ⟨ev', s5⟩ ⟨h5, hc5⟩
        simp only [Ok_pure]
        refine ⟨h5.of_rest_eq rfl rfl rfl rfl, ?_⟩
        simp only [startCount_append, startCount]
        exact hc5
    · intro ev s hl hf
      rw [contentLoop]
      split
      · rename_i ht
        simp only [Ok_pure]
        exact ⟨⟨Adv.refl s, ht⟩, Nat.le_refl _⟩
      · -- every round consumes at least one byte and adds start events only inside elements
        have step : ∀ {ev' : List Event} {s1 : PState}, Adv 1 s s1 →
            startCount ev' + s1.rest.length ≤ startCount ev + s.rest.length →
            Ok (fun p => (Adv 0 s p.2 ∧ isToken p.2 0x01 = true) ∧
                startCount p.1 + p.2.rest.length ≤ startCount ev + s.rest.length)
              (contentLoop f ev' s1) := by
          intro ev' s1 h1 hc1
          have hl1 : s1.lang ≠ none := by rw [h1.lang]; exact hl
          refine (ihC ev' s1 hl1 (by have := h1.len; omega)).mono ?_
          rintro p ⟨⟨hp, ht⟩, hc⟩
          exact ⟨⟨h1.trans hp, ht⟩, by omega⟩
        have stepc : ∀ (b : Bytes) {s1 : PState}, Adv 1 s s1 →
            Ok (fun p => (Adv 0 s p.2 ∧ isToken p.2 0x01 = true) ∧
                startCount p.1 + p.2.rest.length ≤ startCount ev + s.rest.length)
              (contentLoop f (if b.isEmpty = true then ev else ev ++ [Event.chars b]) s1) := by
          intro b s1 h1
          refine step h1 ?_
          have := h1.len
          split
          · omega
          · simp only [startCount_append, startCount]; omega
        split
        · simp
        · split
          · bind_ok (parseExtension_ok true s) with ⟨r, s1⟩ h1
            cases r with
            | none => exact step h1 (by have := h1.len; dsimp only; omega)
            | some b => exact stepc b h1
          · split
            · rename_i h
              bind_ok (parseEntity_ok h) with ⟨b, s1⟩ h1
              exact stepc b h1
            · split
              · bind_ok (parseString_ok s) with ⟨b, s1⟩ h1
                exact stepc b h1
              · split
                · rename_i h
                  bind_ok (parseOpaque_ok h) with ⟨d, s1⟩ h1
                  try dsimp only
                  split
                  · rename_i hn
                    exact absurd (hn.symm.trans h1.lang) (fun h => hl h.symm)
                  · refine Ok.bind (decodeOpaqueContent_safe _ _ d) ?_; intro d' _
                    exact stepc d' h1.weaken
                · split
                  · rename_i h
                    bind_ok ((parsePi_ok hl h).andE (parsePi_event s)) with ⟨e, s1⟩ ⟨h1, t, d, he⟩
                    refine step h1.weaken ?_
                    have := h1.len
                    rw [he]
                    simp only [startCount_append, startCount]; omega
                  · split
                    · rename_i h
                      bind_ok (parseSwitchPage_ok h) with s1 h1
                      exact step h1.weaken (by have := h1.len; omega)
                    · bind_ok (ihE ev s hl (by omega)) with ⟨ev', s1⟩ ⟨h1, hc1⟩
                      exact step h1 hc1

theorem parseBody_count {ev ev' : List Event} {s s' : PState} (hl : s.lang ≠ none)
    (h : parseBody ev s = .ok (ev', s')) :
    startCount ev' + s'.rest.length ≤ startCount ev + s.rest.length := by
  unfold parseBody at h
  obtain ⟨⟨ev1, s1⟩, h1, h⟩ := bind_eq_ok2 h
  obtain ⟨⟨ev2, s2⟩, h2, h3⟩ := bind_eq_ok2 h
  dsimp only at h2 h3
  obtain ⟨pis1, e1, p1⟩ := piLoop_events _ _ _ _ h1
  obtain ⟨pis2, e3, p3⟩ := piLoop_events _ _ _ _ h3
  have a1 : Adv 0 s s1 := (piLoop_ok _ ev s hl (Nat.lt_succ_self _)).of_ok h1
  have hl1 : s1.lang ≠ none := by rw [a1.lang]; exact hl
  obtain ⟨a2, c2⟩ := ((elem_content_count _).1 ev1 s1 hl1 (Nat.le_refl _)).of_ok h2
  have hl2 : s2.lang ≠ none := by rw [a2.lang]; exact hl1
  have a3 : Adv 0 s2 s' := (piLoop_ok _ ev2 s2 hl2 (Nat.lt_succ_self _)).of_ok h3
  dsimp only at e1 e3 c2 a3
  have := a1.len
  have := a3.len
  rw [e3, startCount_append, startCount_onlyPi p3]
  rw [e1, startCount_append, startCount_onlyPi p1] at c2
  omega

/-- **The parser delivers at most `bs.length - 3` start-element events** (three bytes at least go to
    the header), whatever the verdict, and so the open-element depth — the recursion depth of
    `parse_element` — is at most that. -/
theorem parse_startCount_le (cfg : PCfg) (bs : Bytes) :
    startCount (parse cfg bs).events ≤ bs.length - 3 := by
  rcases parse_anatomy cfg bs with ⟨c, _, _, hev, _⟩ | ⟨s, l, c, _, _, _, hev, _⟩ | ⟨s, l, ev, s', hh, hb, _, hev, _⟩
  · rw [hev]; simp [startCount]
  · rw [hev]; simp [startCount]
  · obtain ⟨hl, _, hlen⟩ := (parseHeader_ok cfg bs).of_ok hh
    dsimp only at hl hlen
    have := parseBody_count (by rw [hl]; simp) hb
    rw [hev, startCount_append]
    simp only [startCount] at this ⊢
    omega

theorem parse_maxDepth_le (cfg : PCfg) (bs : Bytes) : maxDepth (parse cfg bs).events ≤ bs.length - 3 :=
  Nat.le_trans (maxDepth_le_startCount _) (parse_startCount_le cfg bs)

end Wbxml.Lemmas.ParserSafe
