/-
  Indented generation (and any other mode): the specification reader accepts the output and its root
  element is the tree's view up to the blanks (space, line feed) the printer adds around markup:
  equal after deleting blanks from character data (`sqI`).
-/
import Wbxml.Lemmas.XmlSpecDoc
namespace Wbxml.Lemmas.XmlSpec
open Wbxml Wbxml.Model Wbxml.Spec Wbxml.Spec.Xml Wbxml.Lemmas.EncW Wbxml.Lemmas.XmlPrint Wbxml.Lemmas.XmlNs

/-! ## Indented generation: the same document up to the white space the printer adds -/

/-- Character data with the blanks the printer uses for indentation (space, line feed) deleted. -/
def nb (s : Bytes) : Bytes := s.filter (fun b => !isBlankB b)

mutual
/-- An item with every blank deleted from its character data (text items that become empty dropped). -/
def sqI : XItem → XItem
  | .text s => .text (nb s)
  | .elem n a k => .elem n a (sqL k)
def sqL : List XItem → List XItem
  | [] => []
  | .text s :: r => if (nb s).isEmpty then sqL r else .text (nb s) :: sqL r
  | .elem n a k :: r => .elem n a (sqL k) :: sqL r
end

def startsText : List XItem → Bool
  | .text _ :: _ => true
  | _ => false

/-- No two adjacent text items (what a reader delivers, and what `addText` keeps). -/
def NoAdj : List XItem → Bool
  | [] => true
  | .text _ :: r => !startsText r && NoAdj r
  | .elem _ _ _ :: r => NoAdj r

theorem nb_append (s t : Bytes) : nb (s ++ t) = nb s ++ nb t := by simp [nb]

theorem nb_blank (w : Bytes) (h : w.all isBlankB = true) : nb w = [] := by
  simp only [nb, List.filter_eq_nil_iff]
  intro b hb
  simp [List.all_eq_true.mp h b hb]

theorem addText_text (s t : Bytes) (r : List XItem) : addText s (.text t :: r) = .text (s ++ t) :: r := rfl
theorem addText_nil' (s : Bytes) : addText s [] = if s.isEmpty then [] else [.text s] := rfl
theorem addText_elem (s : Bytes) (n : Bytes) (a : List (Bytes × Bytes)) (k r : List XItem) :
    addText s (.elem n a k :: r) = if s.isEmpty then .elem n a k :: r else .text s :: .elem n a k :: r := rfl

theorem noAdj_addText (s : Bytes) (R : List XItem) (h : NoAdj R = true) : NoAdj (addText s R) = true := by
  cases R with
  | nil => rw [addText_nil']; split <;> simp [NoAdj, startsText]
  | cons x r =>
    cases x with
    | text t => rw [addText_text]; simpa [NoAdj] using h
    | elem n a k =>
      rw [addText_elem]
      split
      · exact h
      · simpa [NoAdj, startsText] using h

theorem startsText_sqL (r : List XItem) (h : startsText r = false) : startsText (sqL r) = false := by
  cases r with
  | nil => simp [sqL, startsText]
  | cons x r =>
    cases x with
    | text t => simp [startsText] at h
    | elem n a k => simp [sqL, startsText]

theorem addText_nonempty_nil (b : UInt8) (t : Bytes) (R : List XItem) (h : startsText R = false) :
    addText (b :: t) R = .text (b :: t) :: R := by
  cases R with
  | nil => rfl
  | cons x r =>
    cases x with
    | text u => simp [startsText] at h
    | elem n a k => rfl

theorem sq_addText (s : Bytes) (R : List XItem) (h : NoAdj R = true) : sqL (addText s R) = addText (nb s) (sqL R) := by
  cases R with
  | nil =>
    rw [addText_nil']
    cases s with
    | nil => simp [sqL, nb, addText_nil]
    | cons b t =>
      simp only [List.isEmpty_cons, Bool.false_eq_true, ↓reduceIte, sqL]
      cases hn : nb (b :: t) with
      | nil => simp [addText_nil]
      | cons c u => simp [addText_nil']
  | cons x r =>
    cases x with
    | text t =>
      simp only [NoAdj, Bool.and_eq_true, Bool.not_eq_true'] at h
      have hs := startsText_sqL r h.1
      rw [addText_text]
      simp only [sqL, nb_append]
      cases hnt : nb t with
      | nil =>
        simp only [List.append_nil, List.isEmpty_nil, ↓reduceIte]
        cases hns : nb s with
        | nil => simp [addText_nil]
        | cons c u => simp [addText_nonempty_nil c u _ hs]
      | cons c u =>
        have : (nb s ++ c :: u).isEmpty = false := by simp
        simp [this, addText_text]
    | elem n a k =>
      rw [addText_elem]
      cases s with
      | nil => simp [sqL, nb, addText_nil]
      | cons b t =>
        simp only [List.isEmpty_cons, Bool.false_eq_true, ↓reduceIte, sqL]
        cases hn : nb (b :: t) with
        | nil => simp [addText_nil]
        | cons c u => simp [addText_elem]


/-- `F` (what was read) and `G` (the view) contribute the same to a content list, up to blanks in
    character data. -/
def Pad (F G : List XItem → List XItem) : Prop :=
  ∀ R R', NoAdj R = true → NoAdj R' = true → sqL R = sqL R' →
    NoAdj (F R) = true ∧ NoAdj (G R') = true ∧ sqL (F R) = sqL (G R')

theorem Pad.id : Pad (fun R => R) (fun R => R) := fun _ _ h1 h2 h3 => ⟨h1, h2, h3⟩

theorem Pad.comp {F1 G1 F2 G2 : List XItem → List XItem} (h1 : Pad F1 G1) (h2 : Pad F2 G2) :
    Pad (fun R => F1 (F2 R)) (fun R => G1 (G2 R)) := by
  intro R R' a b c
  obtain ⟨a2, b2, c2⟩ := h2 R R' a b c
  exact h1 _ _ a2 b2 c2

theorem Pad.congr {F G G' : List XItem → List XItem} (h : ∀ R, G R = G' R) (hp : Pad F G) : Pad F G' := by
  have : G = G' := funext h
  rw [← this]; exact hp

theorem Pad.text (s : Bytes) : Pad (addText s) (addText s) := by
  intro R R' a b c
  exact ⟨noAdj_addText s R a, noAdj_addText s R' b, by rw [sq_addText s R a, sq_addText s R' b, c]⟩

/-- White space the printer adds in front of something: invisible after squashing. -/
theorem Pad.ws (w : Bytes) (hw : w.all isBlankB = true) : Pad (addText w) (fun R => R) := by
  intro R R' a b c
  exact ⟨noAdj_addText w R a, b, by rw [sq_addText w R a, nb_blank w hw, addText_nil, c]⟩

theorem Pad.elem (n : Bytes) (a : List (Bytes × Bytes)) {FK GK : List XItem → List XItem} (h : Pad FK GK) :
    Pad (fun R => .elem n a (FK []) :: R) (fun R => .elem n a (GK []) :: R) := by
  intro R R' ha hb hc
  obtain ⟨_, _, hk⟩ := h [] [] rfl rfl rfl
  exact ⟨by simpa [NoAdj] using ha, by simpa [NoAdj] using hb, by simp [sqL, hk, hc]⟩

theorem blank_cases (b : UInt8) (h : isBlankB b = true) : b = 32 ∨ b = 10 := by
  simpa [isBlankB] using h

theorem gtFree_blank (w X : Bytes) (hw : w.all isBlankB = true) : gtFree (w ++ X) = gtFree X := by
  induction w with
  | nil => rfl
  | cons b r ih =>
    simp only [List.all_cons, Bool.and_eq_true] at hw
    rcases blank_cases b hw.1 with rfl | rfl <;> simp [gtFree, ih hw.2]

/-- White space between markup is character data. -/
theorem Piece.ws (w : Bytes) (hw : w.all isBlankB = true) : Piece w (addText w) := by
  refine ⟨?_, fun X hX => by rw [gtFree_blank w X hw]; exact hX, ?_⟩
  · apply allCp_of_ascii
    intro b hb
    rcases blank_cases b (List.all_eq_true.mp hw b hb) with rfl | rfl <;> decide
  · intro X R rest' hX hR
    induction w with
    | nil => simpa [addText_nil] using hR
    | cons b r ih =>
      simp only [List.all_cons, Bool.and_eq_true] at hw
      have ihr := ih hw.2
      have hg : gtFree (b :: (r ++ X)) = true := by
        have := gtFree_blank (b :: r) X (by simp [hw.1, hw.2])
        rw [List.cons_append] at this; rw [this]; exact hX
      have := reads_plain b (r ++ X) (addText r R) rest'
        (by rcases blank_cases b hw.1 with rfl | rfl <;> decide)
        (by rcases blank_cases b hw.1 with rfl | rfl <;> decide)
        (by rcases blank_cases b hw.1 with rfl | rfl <;> decide) hg ihr
      rw [addText_append] at this
      exact this


/-- **Any generation mode** (indented generation in particular): what the printer appends for a node
    satisfying `okNode` is read back as the node's view up to blanks in character data; for an
    element it is the element between two runs of blanks. -/
theorem pad_nodes : ∀ (f : Nat) (c : XCfg),
    (∀ (p : Parent) (n : Node) (st st' : XSt), st.inCdata = false → okNode c p st.curTag n = true →
      xmlNode c p f n st = .ok st' →
      st'.inCdata = false ∧ st'.curTag = none ∧ ∃ P F, st'.out = st.out ++ P ∧ Piece P F ∧
        Pad F (vNode c p st.curTag n) ∧
        ∀ name attrs kids, n = .elt name attrs kids → ∃ w1 E w2 e, P = w1 ++ (E ++ w2) ∧
          w1.all isBlankB = true ∧ w2.all isBlankB = true ∧ EPiece E e ∧ sqI e = sqI (xelem c p name attrs kids)) ∧
    (∀ (p : Parent) (l : List Node) (st st' : XSt), st.inCdata = false → okNodes c p st.curTag l = true →
      xmlNodes c p f l st = .ok st' →
      st'.inCdata = false ∧ ∃ P F, st'.out = st.out ++ P ∧ Piece P F ∧ Pad F (vNodes c p st.curTag l)) := by
  intro f
  induction f with
  | zero =>
    intro c
    exact ⟨fun _ _ _ _ _ _ h => by simp [xmlNode] at h, fun _ _ _ _ _ _ h => by simp [xmlNodes] at h⟩
  | succ f ih =>
    intro c
    obtain ⟨ihN, ihL⟩ := ih c
    constructor
    · intro p n st st' hcd hok h
      cases n with
      | elt name attrs kids =>
        simp only [okNode, Bool.and_eq_true] at hok
        obtain ⟨⟨hname, hattrs⟩, hkids⟩ := hok
        obtain ⟨haok, hachars, hnd⟩ := vAttrs_ok c p name attrs hattrs
        simp only [xmlNode, bind, Except.bind, pure, Except.pure] at h
        obtain ⟨w1, hw1, o1, _, cd1, ct1⟩ := xmlTag_shape c p name st
        generalize hst1 : xmlTag c p name st = st1 at h o1 cd1 ct1
        have hst2 : ∃ st2 : XSt, (if c.lang.attrs.isSome = true then List.foldl (fun st a => xmlAttr c a st) st1 attrs else st1) = st2 ∧
            st2.out = st.out ++ w1 ++ (60 :: (name.xmlName ++ (vAttrs c p name attrs).flatMap PAttr.bytes)) ∧
            st2.inCdata = false ∧ st2.curTag = tagOf name := by
          refine ⟨_, rfl, ?_, ?_, ?_⟩
          · rw [vAttrs_bytes]
            split
            · rw [xmlAttrs_out]; simp [o1]
            · simp [o1]
          · split
            · rw [xmlAttrs_out]; simp [cd1, hcd]
            · simp [cd1, hcd]
          · split
            · rw [xmlAttrs_out]; simp [ct1]
            · simp [ct1]
        obtain ⟨st2, e2, o2, cd2, ct2⟩ := hst2
        rw [e2] at h
        obtain ⟨w2, hw2, o3, _, cd3, ct3⟩ := xmlEndAttrs_shape c kids st2
        generalize hst3 : xmlEndAttrs c kids st2 = st3 at h o3 cd3 ct3
        cases kids with
        | nil =>
          cases f with
          | zero => simp [xmlNodes] at h
          | succ f' =>
            simp only [xmlNodes, List.isEmpty_nil, ↓reduceIte, Except.ok.injEq] at h
            subst h
            refine ⟨by simp [cd3, cd2], rfl, w1 ++ (60 :: (name.xmlName ++ ((vAttrs c p name attrs).flatMap PAttr.bytes ++ b!"/>")) ++ w2),
              _, by simp [o3, o2], (Piece.ws w1 hw1).comp ((Piece.emptyElem name.xmlName hname _ haok hachars hnd).comp (Piece.ws w2 hw2)),
              ?_, ?_⟩
            · exact ((Pad.ws w1 hw1).comp ((Pad.elem name.xmlName _ Pad.id).comp (Pad.ws w2 hw2))).congr
                (fun R => by simp [vNode, vNodes])
            · intro n2 a2 k2 he
              injection he with e1 e2' e3
              subst e1; subst e2'; subst e3
              exact ⟨w1, _, w2, _, rfl, hw1, hw2, EPiece.emptyElem name.xmlName hname _ haok hnd, by simp [xelem, vNodes]⟩
        | cons k ks =>
          simp only [List.isEmpty_cons, Bool.false_eq_true, ↓reduceIte] at h o3
          split at h
          · cases h
          · rename_i v hv
            simp only [Except.ok.injEq] at h
            obtain ⟨hcdv, PK, FK, hov, hpk, hpadk⟩ := ihL (childScope p name) (k :: ks) st3 v (by rw [cd3, cd2])
              (by rw [ct3, ct2]; exact hkids) hv
            rw [ct3, ct2] at hpadk
            obtain ⟨w3, w4, hw3, hw4, o5, _, cd5, _⟩ := xmlEndTag_shape c name (k :: ks) v
            subst h
            have hK : Piece (w2 ++ (PK ++ w3)) (fun R => addText w2 (FK (addText w3 R))) :=
              (Piece.ws w2 hw2).comp (hpk.comp (Piece.ws w3 hw3))
            have hpadK : Pad (fun R => addText w2 (FK (addText w3 R))) (vNodes c (childScope p name) (tagOf name) (k :: ks)) :=
              ((Pad.ws w2 hw2).comp (hpadk.comp (Pad.ws w3 hw3))).congr (fun R => rfl)
            refine ⟨by show (xmlEndTag c name (k :: ks) v).inCdata = false; rw [cd5, hcdv], rfl,
              w1 ++ (60 :: (name.xmlName ++ ((vAttrs c p name attrs).flatMap PAttr.bytes ++
                (62 :: ((w2 ++ (PK ++ w3)) ++ (b!"</" ++ name.xmlName ++ [62]))))) ++ w4), _,
              by show (xmlEndTag c name (k :: ks) v).out = _; rw [o5, hov, o3, o2]; simp,
              (Piece.ws w1 hw1).comp ((Piece.elem name.xmlName hname _ haok hachars hnd _ _ hK).comp (Piece.ws w4 hw4)),
              ?_, ?_⟩
            · exact ((Pad.ws w1 hw1).comp ((Pad.elem name.xmlName _ hpadK).comp (Pad.ws w4 hw4))).congr
                (fun R => by simp [vNode])
            · intro n2 a2 k2 he
              injection he with e1 e2' e3
              subst e1; subst e2'; subst e3
              refine ⟨w1, _, w4, _, rfl, hw1, hw4, EPiece.elem name.xmlName hname _ haok hnd _ _ hK, ?_⟩
              obtain ⟨_, _, hsq⟩ := hpadK [] [] rfl rfl rfl
              simp [xelem, sqI, hsq]
      | text s =>
        simp only [okNode] at hok
        rw [xmlNode_text] at h
        cases h1 : xmlText c s st with
        | error e => rw [h1] at h; cases h
        | ok st1 =>
          rw [h1] at h
          simp only [Except.map, Except.ok.injEq] at h
          subst h
          obtain ⟨ho, hc1⟩ := xmlText_view c s st st1 hcd h1
          exact ⟨hc1, rfl, _, _, ho, Piece.text _ _ hok, (Pad.text _).congr (fun R => by simp [vNode]),
            fun _ _ _ he => by cases he⟩
      | cdata kids =>
        simp only [xmlNode, bind, Except.bind, pure, Except.pure] at h
        match kids, hok with
        | [], _ =>
          cases f with
          | zero => simp [xmlNodes, bind, Except.bind] at h
          | succ f' =>
            simp only [xmlNodes, Except.ok.injEq] at h
            subst h
            refine ⟨rfl, rfl, b!"<![CDATA[" ++ (cdataText [] ++ b!"]]>"), _, by simp [cdataText], Piece.cdata [] rfl, ?_,
              fun _ _ _ he => by cases he⟩
            exact (Pad.text _).congr (fun R => by simp [vNode, eolNorm, addText_nil])
        | [.text s], hok =>
          simp only [okNode] at hok
          cases f with
          | zero => simp [xmlNodes, bind, Except.bind] at h
          | succ f' =>
            cases f' with
            | zero => simp [xmlNodes, xmlNode, bind, Except.bind] at h
            | succ f'' =>
              simp only [xmlNodes, bind, Except.bind, xmlNode_text] at h
              rw [xmlText_incdata c s _ rfl] at h
              simp only [Except.map, Except.ok.injEq] at h
              subst h
              refine ⟨rfl, rfl, b!"<![CDATA[" ++ (cdataText s ++ b!"]]>"), _, by simp, Piece.cdata s hok, ?_,
                fun _ _ _ he => by cases he⟩
              exact (Pad.text _).congr (fun R => by simp [vNode])
        | (.text _) :: _ :: _, hok => simp [okNode] at hok
        | (.elt _ _ _) :: _, hok => simp [okNode] at hok
        | (.cdata _) :: _, hok => simp [okNode] at hok
        | (.tree _ _ _) :: _, hok => simp [okNode] at hok
      | tree l cs r =>
        cases l with
        | none => simp [okNode] at hok
        | some l =>
          cases r with
          | none => simp [okNode] at hok
          | some r =>
            simp only [okNode] at hok
            simp only [xmlNode, bind, Except.bind, pure, Except.pure] at h
            split at h
            · cases h
            · rename_i st1 h1
              simp only [Except.ok.injEq] at h
              subst h
              obtain ⟨_, _, P, F, ho, hp, hpad, _⟩ := (ih { c with lang := l }).1 .none r { indent := st.indent } st1 rfl hok h1
              have hout : st1.out = P := by rw [ho]; rfl
              refine ⟨hcd, rfl, P, F, ?_, hp, hpad.congr (fun R => by simp [vNode]), fun _ _ _ he => by cases he⟩
              show st.out ++ cstrOf st1.out = st.out ++ P
              rw [hout, cstrOf_of_noNul P (xmlChars_noNul P hp.chars)]
    · intro p l st st' hcd hok h
      cases l with
      | nil =>
        simp only [xmlNodes, Except.ok.injEq] at h
        subst h
        exact ⟨hcd, [], _, by simp, Piece.nil, Pad.id.congr (fun R => by simp [vNodes])⟩
      | cons n rest =>
        simp only [okNodes, Bool.and_eq_true] at hok
        simp only [xmlNodes, bind, Except.bind] at h
        cases h1 : xmlNode c p f n st with
        | error e => rw [h1] at h; cases h
        | ok st1 =>
          rw [h1] at h
          simp only at h
          obtain ⟨hcd1, hct1, P1, F1, ho1, hp1, hpad1, _⟩ := ihN p n st st1 hcd hok.1 h1
          obtain ⟨hcd2, P2, F2, ho2, hp2, hpad2⟩ := ihL p rest st1 st' hcd1 (by rw [hct1]; exact hok.2) h
          refine ⟨hcd2, P1 ++ P2, _, by rw [ho2, ho1, List.append_assoc], hp1.comp hp2, ?_⟩
          rw [hct1] at hpad2
          exact (hpad1.comp hpad2).congr (fun R => by simp [vNodes])


/-! ### Whole documents, any generation mode -/

theorem skipS_blank (w : Bytes) (hw : w.all isBlankB = true) (Z : Bytes) : skipS (w ++ Z) = skipS Z := by
  induction w with
  | nil => rfl
  | cons b r ih =>
    simp only [List.all_cons, Bool.and_eq_true] at hw
    have hb : isS b = true := by rcases blank_cases b hw.1 with rfl | rfl <;> decide
    simp only [List.cons_append, skipS, List.dropWhile_cons_of_pos hb]
    exact ih hw.2

theorem nl_blank' (gen : Nat) : (if gen == 1 then newLine else ([] : Bytes)).all isBlankB = true := nl_blank _

/-- Header, white space, root element, white space. -/
theorem document_read_ws (lang : Lang) (hl : langOk lang = true) (gen : Nat) (w1 E' w2 : Bytes) (e : XItem)
    (hw1 : w1.all isBlankB = true) (hw2 : w2.all isBlankB = true) (hE : EPiece (60 :: E') e) :
    document (xmlHeader lang gen ++ (w1 ++ (60 :: E' ++ w2))) =
      some { version := some b!"1.0", doctype := some (xdoctype lang), root := e } := by
  generalize hnl : (if gen == 1 then newLine else ([] : Bytes)) = nl
  have hnlb : nl.all isBlankB = true := by rw [← hnl]; exact nl_blank' gen
  have hdt := doctype_read lang hl (nl ++ (w1 ++ (60 :: E' ++ w2)))
  have hdecl := xmlDecl_read (nl ++ (b!"<!DOCTYPE " ++ (lang.pub.root.getD [] ++
      hdrId lang ++ b!" \"" ++ lang.pub.dtd.getD [] ++ b!"\">" ++ (nl ++ (w1 ++ (60 :: E' ++ w2))))))
  have hel := hE w2 ((60 :: E' ++ w2).length + 1) (by simp)
  have hhdr : xmlHeader lang gen ++ (w1 ++ (60 :: E' ++ w2)) = b!"<?xml" ++ (b!" version=\"1.0\"?>" ++ (nl ++ (b!"<!DOCTYPE " ++ (lang.pub.root.getD [] ++
      hdrId lang ++ b!" \"" ++ lang.pub.dtd.getD [] ++ b!"\">" ++ (nl ++ (w1 ++ (60 :: E' ++ w2))))))) := by
    rw [xmlHeader_eq, hnl]; simp
  rw [hhdr]
  simp only [document, strip_append, hdecl, Option.map_some, bind, Option.bind, pure]
  have hs1 : ∀ Z, skipS (60 :: Z) = 60 :: Z := fun Z => skipS_cons_of_not 60 Z (by decide)
  rw [skipS_blank nl hnlb, show ∀ Z : Bytes, skipS (b!"<!DOCTYPE " ++ Z) = b!"<!DOCTYPE" ++ (32 :: Z) from fun Z => hs1 _, strip_append]
  simp only [hdt, Option.map_some, skipS_blank nl hnlb, skipS_blank w1 hw1]
  rw [show skipS (60 :: E' ++ w2) = 60 :: E' ++ w2 from hs1 _]
  simp only [List.cons_append] at hel ⊢
  simp only [hel]
  have : skipS w2 = [] := by
    have := skipS_blank w2 hw2 []
    simpa [skipS_nil] using this
  simp [this]

/-- **Any generation mode**: the output of `treeToXml` on a representable tree is a well-formed
    document with the language's DOCTYPE whose root element is the tree's view up to blanks (space,
    line feed) in character data. -/
theorem treeToXml_read_ws (cfg : W2XCfg) (fuel : Nat) (t : Tree) (xml : Bytes)
    (hrep : xmlRepresentable cfg t = true) (h : treeToXml cfg fuel t = .ok xml) :
    ∃ lang r, t.lang = some lang ∧
      Spec.Xml.read xml = some { version := some b!"1.0", doctype := some (xdoctype lang), root := r } ∧
      sqI r = sqI (xview cfg t) := by
  rw [treeToXml_eq] at h
  unfold xmlRepresentable at hrep
  unfold xview
  cases hl : t.lang with
  | none => simp [hl] at hrep
  | some lang =>
    cases hr : t.root with
    | none => simp [hl, hr] at hrep
    | some root =>
      cases root with
      | elt name attrs kids =>
        simp only [hl, hr, Bool.and_eq_true] at hrep h
        cases hx : xmlNode (xcfgOf cfg lang) .none fuel (.elt name attrs kids) {} with
        | error e => rw [hx] at h; cases h
        | ok st =>
          rw [hx] at h
          simp only [bind, Except.bind, pure, Except.pure, Except.ok.injEq] at h
          subst h
          obtain ⟨_, _, P, F, ho, hp, _, hE⟩ := (pad_nodes fuel (xcfgOf cfg lang)).1 .none _ {} st rfl hrep.2 hx
          obtain ⟨w1, E, w2, e, hP, hw1, hw2, hE', hsq⟩ := hE name attrs kids rfl
          obtain ⟨E', hE60⟩ := element_head _ _ _ (hE' [] (E ++ []).length (Nat.le_refl _))
          simp only [List.append_nil] at hE60
          have hout : st.out = P := by rw [ho]; rfl
          refine ⟨lang, e, rfl, ?_, hsq⟩
          rw [hout, hP, hE60]
          rw [hE60] at hE'
          unfold Spec.Xml.read
          have hc : xmlChars (xmlHeader lang cfg.gen ++ (w1 ++ (60 :: E' ++ w2))) = true := by
            have := xmlChars_append _ _ (xmlChars_header lang hrep.1 cfg.gen) hp.chars
            rw [hP, hE60] at this
            exact this
          rw [hc]
          exact document_read_ws lang hrep.1 cfg.gen w1 E' w2 e hw1 hw2 hE'
      | text s => simp [hl, hr] at hrep
      | cdata k => simp [hl, hr] at hrep
      | tree a b c => simp [hl, hr] at hrep

end Wbxml.Lemmas.XmlSpec
