/-
  Parser safety, part 4: extension stability.

  `ext s x` is the parser state `s` with `x` appended to the remaining input. A successful run of
  any parser function is unchanged when bytes are appended to the input (it returns the same value
  and the same cursor, `x` still appended), and does not depend on the amount of fuel as long as
  there is enough. The only places where a *successful* sub-run has looked at "end of input" are the
  negative exit tests of `attrValueLoop` (`is_attr_value`, up to three bytes of look-ahead) and of
  `piLoop` (`is_token(PI)`); there the statement carries a side condition on the final cursor,
  which the callers establish (the loops around them only end at an `END` token).

  Consequence (`Props/C13`): a document cut anywhere before the end of its root element is rejected.
-/
import Wbxml.Lemmas.ParserSafeLoops
import Wbxml.Lemmas.ParserSafeMain
namespace Wbxml.Lemmas.ParserSafe
open Wbxml Wbxml.Model

-- The error-code constants are literals (none of them is 0 = `WBXML_OK`).
attribute [local simp] E.badDatetime E.internal E.langTableUndefined E.tagTableUndefined E.b64Enc
  E.wvDatetimeFormat E.noCharsetConv E.charsetStrLen E.charsetNotFound E.attrTableUndefined
  E.attrValueTableUndefined E.badOpaqueLength E.emptyWbxml E.endOfBuffer E.extValueTableUndefined
  E.invalidStrtblIndex E.nullStringTable E.stringExpected E.strtblLength E.unknownAttrValue
  E.unknownExtensionToken E.unknownPublicId E.unvalidMbUint32 E.wvIntegerOverflow E.invalidUnicode

/-- The state with `x` appended to the remaining input. -/
def ext (s : PState) (x : Bytes) : PState := { s with rest := s.rest ++ x }

@[simp] theorem ext_rest (s : PState) (x : Bytes) : (ext s x).rest = s.rest ++ x := rfl
@[simp] theorem ext_lang (s : PState) (x : Bytes) : (ext s x).lang = s.lang := rfl
@[simp] theorem ext_strtbl (s : PState) (x : Bytes) : (ext s x).strtbl = s.strtbl := rfl
@[simp] theorem ext_charset (s : PState) (x : Bytes) : (ext s x).charset = s.charset := rfl
@[simp] theorem ext_tagPage (s : PState) (x : Bytes) : (ext s x).tagPage = s.tagPage := rfl
@[simp] theorem ext_attrPage (s : PState) (x : Bytes) : (ext s x).attrPage = s.attrPage := rfl
@[simp] theorem ext_curTag (s : PState) (x : Bytes) : (ext s x).curTag = s.curTag := rfl
@[simp] theorem ext_version (s : PState) (x : Bytes) : (ext s x).version = s.version := rfl

/-- Results that carry a cursor. -/
abbrev extP {α : Type} (x : Bytes) : α × PState → α × PState := fun p => (p.1, ext p.2 x)

/-- `Stab e m m'`: whenever `m` succeeds with `b`, `m'` succeeds with `e b`. -/
def Stab {β : Type} (e : β → β) (m m' : Except Err β) : Prop := ∀ b, m = .ok b → m' = .ok (e b)

theorem Stab.of_error {β : Type} {e : β → β} {m m' : Except Err β} {er : Err} (h : m = .error er) :
    Stab e m m' := by
  intro b hb; rw [h] at hb; cases hb

theorem Stab.of_not_ok {β : Type} {e : β → β} {m m' : Except Err β} (h : ∀ b, m ≠ .ok b) :
    Stab e m m' := fun b hb => absurd hb (h b)

theorem Stab.error {β : Type} {e : β → β} {m' : Except Err β} {er : Err} :
    Stab e (.error er) m' := Stab.of_error rfl

theorem Stab.pure_rfl {β : Type} {e : β → β} {b : β} :
    Stab e (pure b : Except Err β) (pure (e b)) := by
  intro b' hb; cases hb; rfl

theorem Stab.ok_rfl {β : Type} {e : β → β} {b : β} :
    Stab e (.ok b : Except Err β) (.ok (e b)) := by
  intro b' hb; cases hb; rfl

theorem Stab.bind {β γ : Type} {e : β → β} {e2 : γ → γ} {m m' : Except Err β}
    {k k' : β → Except Err γ} (hm : Stab e m m')
    (hk : ∀ b, m = .ok b → Stab e2 (k b) (k' (e b))) : Stab e2 (m >>= k) (m' >>= k') := by
  intro c hc
  cases hmm : m with
  | error er => rw [hmm] at hc; cases hc
  | ok b =>
    rw [hmm] at hc
    rw [hm b hmm]
    exact hk b hmm c hc

/-- Same first action on both sides (it does not read the cursor). -/
theorem Stab.bind_same {β γ : Type} {e2 : γ → γ} {m : Except Err β}
    {k k' : β → Except Err γ}
    (hk : ∀ b, m = .ok b → Stab e2 (k b) (k' b)) : Stab e2 (m >>= k) (m >>= k') := by
  intro c hc
  cases hmm : m with
  | error er => rw [hmm] at hc; cases hc
  | ok b =>
    rw [hmm] at hc
    exact hk b hmm c hc

theorem Stab.apply {β : Type} {e : β → β} {m m' : Except Err β} (h : Stab e m m') {b : β}
    (hb : m = .ok b) : m' = .ok (e b) := h b hb

/-! ### Token tests under extension -/

theorem isToken_ext {s : PState} (x : Bytes) (t : UInt8) (h : s.rest ≠ []) :
    isToken (ext s x) t = isToken s t := by
  unfold isToken
  cases hr : s.rest with
  | nil => exact absurd hr h
  | cons b r => simp [hr]

theorem isToken_ext_of_true {s : PState} (x : Bytes) {t : UInt8} (h : isToken s t = true) :
    isToken (ext s x) t = true := by
  rw [isToken_ext x t (isToken_ne_nil h)]; exact h

theorem peekAt_ext_zero {s : PState} (x : Bytes) (h : s.rest ≠ []) :
    peekAt (ext s x) 0 = peekAt s 0 := by
  unfold peekAt
  cases hr : s.rest with
  | nil => exact absurd hr h
  | cons b r => simp [hr]

theorem isString_ext {s : PState} (x : Bytes) (h : s.rest ≠ []) : isString (ext s x) = isString s := by
  simp only [isString, isToken_ext x _ h]

theorem isLiteral_ext {s : PState} (x : Bytes) (h : s.rest ≠ []) : isLiteral (ext s x) = isLiteral s := by
  simp only [isLiteral, isToken_ext x _ h]

/-- Enough look-ahead for `is_extension` / `is_attr_value`: three bytes, or a first byte that is not
    `SWITCH_PAGE`. -/
def LA (s : PState) : Prop := 3 ≤ s.rest.length ∨ ∃ b r, s.rest = b :: r ∧ b ≠ 0

theorem LA.ne_nil {s : PState} (h : LA s) : s.rest ≠ [] := by
  rcases h with h | ⟨b, r, hr, _⟩
  · intro hn; rw [hn] at h; simp at h
  · rw [hr]; simp

theorem LA.of_isToken {s : PState} {t : UInt8} (h : isToken s t = true) (ht : t ≠ 0) : LA s := by
  obtain ⟨r, hr⟩ := isToken_iff.1 h
  exact Or.inr ⟨t, r, hr, ht⟩

/-- The three input shapes without enough look-ahead. -/
theorem not_LA {s : PState} (h : ¬ LA s) : s.rest = [] ∨ s.rest = [0] ∨ ∃ p, s.rest = [0, p] := by
  cases hr : s.rest with
  | nil => exact Or.inl rfl
  | cons b r =>
    have hb : b = 0 := by
      apply Classical.byContradiction
      intro hb; exact h (Or.inr ⟨b, r, hr, hb⟩)
    subst hb
    cases r with
    | nil => exact Or.inr (Or.inl rfl)
    | cons p r' =>
      cases r' with
      | nil => exact Or.inr (Or.inr ⟨p, rfl⟩)
      | cons q r'' => exact absurd (Or.inl (by simp [hr])) h

theorem isExtension_ext {s : PState} (x : Bytes) (h : LA s) : isExtension (ext s x) = isExtension s := by
  have hne := h.ne_nil
  unfold isExtension
  rw [isToken_ext x _ hne, peekAt_ext_zero x hne]
  rcases h with h | ⟨b, r, hr, hb⟩
  · have : peekAt (ext s x) 2 = peekAt s 2 := by
      unfold peekAt
      simp only [ext_rest]
      rw [List.getElem?_append_left (by omega)]
    rw [this]
  · have : isToken s 0 = false := by
      unfold isToken; rw [hr]
      simp only [List.head?_cons]
      cases hbb : (some b == some (0 : UInt8)) with
      | false => rfl
      | true => exact absurd (by simpa using hbb) hb
    simp only [this, Bool.false_eq_true, if_false]

theorem isAttrValue_ext {s : PState} (x : Bytes) (h : LA s) : isAttrValue (ext s x) = isAttrValue s := by
  have hne := h.ne_nil
  unfold isAttrValue
  rw [isToken_ext x _ hne, isToken_ext x _ hne, isToken_ext x _ hne, peekAt_ext_zero x hne,
    isString_ext x hne, isExtension_ext x h]
  rcases h with h | ⟨b, r, hr, hb⟩
  · have : peekAt (ext s x) 2 = peekAt s 2 := by
      unfold peekAt
      simp only [ext_rest]
      rw [List.getElem?_append_left (by omega)]
    rw [this]
  · have : isToken s 0 = false := by
      unfold isToken; rw [hr]
      simp only [List.head?_cons]
      cases hbb : (some b == some (0 : UInt8)) with
      | false => rfl
      | true => exact absurd (by simpa using hbb) hb
    simp only [this, Bool.false_eq_true, if_false]

/-- A positive `is_attr_value` had enough look-ahead. -/
theorem LA.of_isAttrValue {s : PState} (h : isAttrValue s = true) : LA s := by
  apply Classical.byContradiction
  intro hn
  rcases not_LA hn with hr | hr | ⟨p, hr⟩
  · simp [isAttrValue, peekAt, hr] at h
  · simp [isAttrValue, peekAt, isToken, hr] at h
  · simp [isAttrValue, peekAt, isToken, hr] at h

/-! ### Leaf functions -/

theorem skip1_stab (what : String) (s : PState) (x : Bytes) :
    Stab (fun s' => ext s' x) (skip1 what s) (skip1 what (ext s x)) := by
  unfold skip1
  cases hr : s.rest with
  | nil => exact Stab.error
  | cons b r =>
    simp only [ext_rest, hr, List.cons_append]
    exact Stab.ok_rfl

theorem parseU8_stab (s : PState) (x : Bytes) :
    Stab (extP x) (parseU8 s) (parseU8 (ext s x)) := by
  unfold parseU8
  cases hr : s.rest with
  | nil => exact Stab.error
  | cons b r =>
    simp only [ext_rest, hr, List.cons_append]
    exact Stab.ok_rfl

theorem mbLoop_stab (x : Bytes) : ∀ (n acc : Nat) (bs : Bytes),
    Stab (fun p => (p.1, p.2 ++ x)) (mbLoop n acc bs) (mbLoop n acc (bs ++ x))
  | 0, _, _ => Stab.error
  | n + 1, acc, [] => Stab.error
  | n + 1, acc, b :: r => by
    simp only [mbLoop, List.cons_append]
    split
    · exact Stab.ok_rfl
    · exact mbLoop_stab x n _ r

theorem parseMb_stab (s : PState) (x : Bytes) :
    Stab (extP x) (parseMb s) (parseMb (ext s x)) := by
  unfold parseMb
  refine Stab.bind (mbLoop_stab x 5 0 s.rest) ?_
  rintro ⟨v, r⟩ _
  exact Stab.pure_rfl

theorem cstrLen_le : ∀ (bs : Bytes), cstrLen bs ≤ bs.length
  | [] => Nat.le_refl _
  | b :: r => by
    simp only [cstrLen]
    split
    · omega
    · have := cstrLen_le r; simp only [List.length_cons]; omega

/-- A terminator inside `bs` is found whatever follows. -/
theorem cstrLen_append : ∀ (bs x : Bytes), cstrLen bs < bs.length → cstrLen (bs ++ x) = cstrLen bs
  | [], _, h => by simp at h
  | b :: r, x, h => by
    simp only [cstrLen, List.cons_append] at h ⊢
    split
    · rfl
    · rename_i hb
      simp only [hb, Bool.false_eq_true, if_false, List.length_cons] at h
      rw [cstrLen_append r x (by omega)]

theorem convTerm_stab (cs : Nat) (avail x : Bytes) :
    Stab id (convTerm cs avail) (convTerm cs (avail ++ x)) := by
  unfold convTerm
  split
  · split <;> exact Stab.error
  · simp only
    split
    · exact Stab.error
    · rename_i hn
      have hlt : cstrLen avail < avail.length := by omega
      rw [cstrLen_append avail x hlt]
      have h2 : ¬ (cstrLen avail + 1 > (avail ++ x).length) := by
        simp only [List.length_append]; omega
      simp only [h2, if_false]
      split
      · rw [List.take_append_of_le_length (by omega)]
        exact Stab.ok_rfl
      · exact Stab.error

theorem parseTermstr_stab (s : PState) (x : Bytes) :
    Stab (extP x) (parseTermstr s) (parseTermstr (ext s x)) := by
  unfold parseTermstr
  simp only [ext_rest, ext_charset]
  refine Stab.bind (convTerm_stab s.charset s.rest x) ?_
  rintro ⟨str, used⟩ h
  have hu := (convTerm_safe s.charset s.rest).of_ok h
  simp only [id]
  intro b hb
  cases hb
  simp only [pure, Except.pure, extP, ext]
  rw [List.drop_append_of_le_length hu.2]

@[simp] theorem strtblRef_ext (s : PState) (x : Bytes) (i : Nat) : strtblRef (ext s x) i = strtblRef s i := rfl

/-! ### Token-level functions -/

syntax "bind_stab " term " with " rintroPat ppSpace rintroPat : tactic
macro_rules
  | `(tactic| bind_stab $t with $p $h) =>
    `(tactic| (refine Stab.bind $t ?_; rintro $p $h; try dsimp only [extP, ext_lang, ext_attrPage, ext_tagPage, ext_curTag, ext_charset, ext_strtbl, strtblRef_ext]))

theorem parseSwitchPage_stab (ts : Bool) (s : PState) (x : Bytes) :
    Stab (fun s' => ext s' x) (parseSwitchPage ts s) (parseSwitchPage ts (ext s x)) := by
  unfold parseSwitchPage
  bind_stab (skip1_stab _ s x) with s1 h1
  bind_stab (parseU8_stab s1 x) with ⟨p, s2⟩ h2
  cases ts <;> exact Stab.pure_rfl

theorem optSwitch_stab {γ : Type} {e2 : γ → γ} (ts : Bool) (s : PState) (x : Bytes)
    {jp jp' : PState → Except Err γ}
    (hnil : s.rest = [] → ∀ b, jp s ≠ .ok b)
    (hjp : ∀ s1, Stab e2 (jp s1) (jp' (ext s1 x))) :
    Stab e2 (if isToken s 0x00 = true then parseSwitchPage ts s >>= jp else pure s >>= jp)
      (if isToken (ext s x) 0x00 = true then parseSwitchPage ts (ext s x) >>= jp'
       else pure (ext s x) >>= jp') := by
  by_cases hr : s.rest = []
  · rw [isToken_nil hr]
    simp only [Bool.false_eq_true, if_false]
    exact Stab.of_not_ok (hnil hr)
  · rw [isToken_ext x _ hr]
    split
    · exact Stab.bind (parseSwitchPage_stab ts s x) fun s1 _ => hjp s1
    · exact hjp s

theorem parseExtension_stab (ts : Bool) (s : PState) (x : Bytes) :
    Stab (extP x) (parseExtension ts s) (parseExtension ts (ext s x)) := by
  unfold parseExtension
  refine optSwitch_stab ts s x ?_ ?_
  · intro hr b
    simp only [parseU8, hr, bind, Except.bind]
    intro h; cases h
  · intro s1
    bind_stab (parseU8_stab s1 x) with ⟨tok, s2⟩ h2
    split
    · exact Stab.error
    · split
      · split
        · exact Stab.pure_rfl
        · split
          · exact Stab.error
          · split
            · bind_stab (parseTermstr_stab s2 x) with ⟨v, s3⟩ h3
              exact Stab.pure_rfl
            · bind_stab (parseMb_stab s2 x) with ⟨idx, s3⟩ h3
              refine Stab.bind_same ?_; intro v _
              exact Stab.pure_rfl
      · split
        · split
          · exact Stab.pure_rfl
          · bind_stab (parseMb_stab s2 x) with ⟨v, s3⟩ h3
            split
            · exact Stab.error
            · split <;> exact Stab.pure_rfl
        · exact Stab.pure_rfl

theorem bind_eq_ok {β γ : Type} {m : Except Err β} {k : β → Except Err γ} {c : γ}
    (h : m >>= k = .ok c) : ∃ b, m = .ok b ∧ k b = .ok c := by
  cases hm : m with
  | error e => rw [hm] at h; cases h
  | ok b => rw [hm] at h; exact ⟨b, rfl, h⟩

theorem bind_not_ok {β γ : Type} {m : Except Err β} {k : β → Except Err γ}
    (h : ∀ b, m ≠ .ok b) : ∀ c, m >>= k ≠ .ok c := by
  intro c hc
  obtain ⟨b, hb, _⟩ := bind_eq_ok hc
  exact h b hb

/-- A function that consumes at least one byte does not succeed on the empty input. -/
theorem not_ok_of_nil {α : Type} {s : PState} {m : PRes(α)} (hm : Ok (fun p => Adv 1 s p.2) m)
    (hr : s.rest = []) : ∀ b, m ≠ .ok b := by
  intro b hb
  have := (hm.of_ok hb).len
  rw [hr] at this
  simp at this

theorem parseEntity_stab (s : PState) (x : Bytes) :
    Stab (extP x) (parseEntity s) (parseEntity (ext s x)) := by
  unfold parseEntity
  bind_stab (skip1_stab _ s x) with s1 h1
  bind_stab (parseMb_stab s1 x) with ⟨code, s2⟩ h2
  refine Stab.bind_same ?_; intro bs _
  exact Stab.pure_rfl

theorem parseString_stab (s : PState) (x : Bytes) :
    Stab (extP x) (parseString s) (parseString (ext s x)) := by
  by_cases hr : s.rest = []
  · exact Stab.of_not_ok (not_ok_of_nil (parseString_ok s) hr)
  · unfold parseString
    rw [isToken_ext x _ hr, isToken_ext x _ hr]
    split
    · bind_stab (skip1_stab _ s x) with s1 h1
      exact parseTermstr_stab s1 x
    · split
      · bind_stab (skip1_stab _ s x) with s1 h1
        bind_stab (parseMb_stab s1 x) with ⟨idx, s2⟩ h2
        refine Stab.bind_same ?_; intro v _
        exact Stab.pure_rfl
      · exact Stab.error

theorem parseOpaque_stab (s : PState) (x : Bytes) :
    Stab (extP x) (parseOpaque s) (parseOpaque (ext s x)) := by
  unfold parseOpaque
  bind_stab (skip1_stab _ s x) with s1 h1
  bind_stab (parseMb_stab s1 x) with ⟨len, s2⟩ h2
  split
  · exact Stab.error
  · rename_i hlen
    have h2' : ¬ len > (ext s2 x).rest.length := by
      simp only [ext_rest, List.length_append]; omega
    rw [if_neg h2']
    simp only [ext_rest]
    rw [List.take_append_of_le_length (by omega), List.drop_append_of_le_length (by omega)]
    exact Stab.pure_rfl

theorem parseLiteral_stab (s : PState) (x : Bytes) :
    Stab (extP x) (parseLiteral s) (parseLiteral (ext s x)) := by
  unfold parseLiteral
  bind_stab (parseU8_stab s x) with ⟨tok, s1⟩ h1
  bind_stab (parseMb_stab s1 x) with ⟨idx, s2⟩ h2
  refine Stab.bind_same ?_; intro v _
  repeat' split
  all_goals first | exact Stab.pure_rfl | exact Stab.error

theorem parseAttrStart_stab (s : PState) (x : Bytes) :
    Stab (extP x) (parseAttrStart s) (parseAttrStart (ext s x)) := by
  by_cases hr : s.rest = []
  · exact Stab.of_not_ok (not_ok_of_nil (parseAttrStart_ok s) hr)
  · unfold parseAttrStart
    rw [isToken_ext x _ hr]
    split
    · bind_stab (parseLiteral_stab s x) with ⟨⟨m, str⟩, s1⟩ h1
      exact Stab.pure_rfl
    · refine optSwitch_stab false s x (fun h => absurd h hr) ?_
      intro s1
      bind_stab (parseU8_stab s1 x) with ⟨tag, s2⟩ h2
      repeat' split
      all_goals first | exact Stab.pure_rfl | exact Stab.error


/-- A successful `parse_attr_value` had its look-ahead inside the input. -/
theorem parseAttrValue_LA {s : PState} {r : Option Bytes × PState} (h : parseAttrValue s = .ok r) : LA s := by
  apply Classical.byContradiction
  intro hn
  rcases not_LA hn with hr | hr | ⟨p, hr⟩
  · simp [parseAttrValue, isExtension, isToken, peekAt, isString, hr, parseU8, bind, Except.bind, pure, Except.pure] at h
  · simp [parseAttrValue, isExtension, isToken, peekAt, isString, hr, parseSwitchPage, skip1, parseU8,
      bind, Except.bind] at h
  · simp [parseAttrValue, isExtension, isToken, peekAt, isString, hr, parseSwitchPage, skip1, parseU8,
      bind, Except.bind, pure, Except.pure] at h

theorem parseAttrStart_LA {s : PState} {r : (AName × Option Bytes) × PState} (h : parseAttrStart s = .ok r) : LA s := by
  apply Classical.byContradiction
  intro hn
  rcases not_LA hn with hr | hr | ⟨p, hr⟩
  · simp [parseAttrStart, isToken, hr, parseU8, bind, Except.bind, pure, Except.pure] at h
  · simp [parseAttrStart, isToken, hr, parseSwitchPage, skip1, parseU8, bind, Except.bind] at h
  · simp [parseAttrStart, isToken, hr, parseSwitchPage, skip1, parseU8, bind, Except.bind, pure, Except.pure] at h

theorem parseAttrValue_stab (s : PState) (x : Bytes) :
    Stab (extP x) (parseAttrValue s) (parseAttrValue (ext s x)) := by
  by_cases hla : LA s
  · have hr := hla.ne_nil
    unfold parseAttrValue
    rw [isExtension_ext x hla, isToken_ext x _ hr, isToken_ext x _ hr, isString_ext x hr]
    split
    · exact parseExtension_stab false s x
    · split
      · bind_stab (parseEntity_stab s x) with ⟨b, s1⟩ h1
        exact Stab.pure_rfl
      · split
        · bind_stab (parseString_stab s x) with ⟨b, s1⟩ h1
          exact Stab.pure_rfl
        · split
          · bind_stab (parseOpaque_stab s x) with ⟨d, s1⟩ h1
            split
            · exact Stab.error
            · refine Stab.bind_same ?_; intro d' _
              exact Stab.pure_rfl
          · refine optSwitch_stab false s x (fun h => absurd h hr) ?_
            intro s1
            bind_stab (parseU8_stab s1 x) with ⟨tag, s2⟩ h2
            repeat' split
            all_goals first | exact Stab.pure_rfl | exact Stab.error
  · exact Stab.of_not_ok fun b hb => hla (parseAttrValue_LA hb)

/-! ### Flat loops -/

theorem attrValueLoop_stab (x : Bytes) : ∀ (f f' : Nat) (acc : Bytes) (s : PState), f ≤ f' →
    ∀ (v : Bytes) (s' : PState), attrValueLoop f acc s = .ok (v, s') → LA s' →
      attrValueLoop f' acc (ext s x) = .ok (v, ext s' x)
  | 0, _, _, _, _, _, _, h, _ => by simp [attrValueLoop] at h
  | f + 1, 0, _, _, hf, _, _, _, _ => by omega
  | f + 1, f' + 1, acc, s, hf, v, s', h, hla => by
    simp only [attrValueLoop] at h ⊢
    by_cases hav : isAttrValue s = true
    · rw [isAttrValue_ext x (LA.of_isAttrValue hav)]
      simp only [hav, if_true] at h ⊢
      obtain ⟨⟨v1, s1⟩, h1, h2⟩ := bind_eq_ok h
      rw [(parseAttrValue_stab s x).apply h1]
      exact attrValueLoop_stab x f f' _ s1 (by omega) v s' h2 hla
    · simp only [hav] at h
      cases h
      rw [isAttrValue_ext x hla]
      simp only [hav]
      rfl

theorem parseAttribute_stab (x : Bytes) (s : PState) (a : Attr) (s' : PState)
    (h : parseAttribute s = .ok (a, s')) (hla : LA s') :
    parseAttribute (ext s x) = .ok (a, ext s' x) := by
  unfold parseAttribute at h ⊢
  obtain ⟨⟨⟨name, pre⟩, s1⟩, h1, h⟩ := bind_eq_ok h
  rw [(parseAttrStart_stab s x).apply h1]
  obtain ⟨⟨v, s2⟩, h2, h⟩ := bind_eq_ok h
  obtain ⟨v', h3, h⟩ := bind_eq_ok h
  simp only [pure, Except.pure, Except.ok.injEq, Prod.mk.injEq] at h
  obtain ⟨ha, hs⟩ := h
  subst hs; subst ha
  have := attrValueLoop_stab x (s1.rest.length + 1) ((ext s1 x).rest.length + 1) (pre.getD []) s1
    (by simp) v s2 h2 hla
  simp only [bind, Except.bind, this, ext_lang] at h3 ⊢
  rw [h3]
  rfl

theorem parseAttribute_start {s : PState} {r : Attr × PState} (h : parseAttribute s = .ok r) :
    ∃ q, parseAttrStart s = .ok q := by
  unfold parseAttribute at h
  obtain ⟨q, h1, _⟩ := bind_eq_ok h
  exact ⟨q, h1⟩

theorem attrsLoop_LA : ∀ {f : Nat} {acc : List Attr} {s : PState} {r : List Attr × PState},
    attrsLoop f acc s = .ok r → LA s
  | 0, _, _, _, h => by simp [attrsLoop] at h
  | f + 1, acc, s, r, h => by
    simp only [attrsLoop] at h
    obtain ⟨q, h1, _⟩ := bind_eq_ok h
    obtain ⟨q', h2⟩ := parseAttribute_start h1
    exact parseAttrStart_LA h2

theorem attrsLoop_stab (x : Bytes) : ∀ (f f' : Nat) (acc : List Attr) (s : PState), f ≤ f' →
    Stab (extP x) (attrsLoop f acc s) (attrsLoop f' acc (ext s x))
  | 0, _, _, _, _ => by simp only [attrsLoop]; exact Stab.error
  | f + 1, 0, _, _, hf => by omega
  | f + 1, f' + 1, acc, s, hf => by
    rintro ⟨as, s'⟩ h
    simp only [attrsLoop] at h ⊢
    obtain ⟨⟨a, s1⟩, h1, h⟩ := bind_eq_ok h
    dsimp only at h
    by_cases ht : isToken s1 0x01 = true
    · rw [parseAttribute_stab x s a s1 h1 (LA.of_isToken ht (by decide))]
      simp only [ht, if_true] at h
      cases h
      simp only [bind, Except.bind, isToken_ext_of_true x ht, if_true]
      rfl
    · simp only [ht] at h
      have hla := attrsLoop_LA h
      rw [parseAttribute_stab x s a s1 h1 hla]
      simp only [bind, Except.bind, isToken_ext x _ hla.ne_nil, ht]
      exact attrsLoop_stab x f f' _ s1 (by omega) _ h

theorem piValueLoop_stab (x : Bytes) : ∀ (f f' : Nat) (acc : Bytes) (s : PState), f ≤ f' →
    Stab (extP x) (piValueLoop f acc s) (piValueLoop f' acc (ext s x))
  | 0, _, _, _, _ => by simp only [piValueLoop]; exact Stab.error
  | f + 1, 0, _, _, hf => by omega
  | f + 1, f' + 1, acc, s, hf => by
    simp only [piValueLoop]
    by_cases ht : isToken s 0x01 = true
    · simp only [ht, isToken_ext_of_true x ht, if_true]
      exact Stab.pure_rfl
    · simp only [ht]
      intro b hb
      obtain ⟨⟨v, s1⟩, h1, h2⟩ := bind_eq_ok hb
      have hla := parseAttrValue_LA h1
      simp only [isToken_ext x _ hla.ne_nil, ht]
      rw [(parseAttrValue_stab s x).apply h1]
      exact piValueLoop_stab x f f' _ s1 (by omega) b h2

theorem parsePi_stab (s : PState) (x : Bytes) :
    Stab (extP x) (parsePi s) (parsePi (ext s x)) := by
  unfold parsePi
  bind_stab (skip1_stab _ s x) with s1 h1
  bind_stab (parseAttrStart_stab s1 x) with ⟨⟨name, pre⟩, s2⟩ h2
  bind_stab (piValueLoop_stab x _ _ _ s2 (by simp)) with ⟨v, s3⟩ h3
  bind_stab (skip1_stab _ s3 x) with s4 h4
  exact Stab.pure_rfl

theorem parseTag_stab (s : PState) (x : Bytes) :
    Stab (extP x) (parseTag s) (parseTag (ext s x)) := by
  unfold parseTag
  bind_stab (parseU8_stab s x) with ⟨tag, s1⟩ h1
  repeat' split
  all_goals first | exact Stab.pure_rfl | exact Stab.error

theorem parseStag_stab (s : PState) (x : Bytes) :
    Stab (extP x) (parseStag s) (parseStag (ext s x)) := by
  by_cases hr : s.rest = []
  · exact Stab.of_not_ok (not_ok_of_nil (parseStag_ok s) hr)
  · unfold parseStag
    rw [isLiteral_ext x hr]
    split
    · bind_stab (parseLiteral_stab s x) with ⟨⟨m, str⟩, s1⟩ h1
      exact Stab.pure_rfl
    · exact parseTag_stab s x

theorem piLoop_stab (x : Bytes) : ∀ (f f' : Nat) (ev : List Event) (s : PState), f ≤ f' →
    ∀ (ev' : List Event) (s' : PState), piLoop f ev s = .ok (ev', s') → s'.rest ≠ [] →
      piLoop f' ev (ext s x) = .ok (ev', ext s' x)
  | 0, _, _, _, _, _, _, h, _ => by simp [piLoop] at h
  | f + 1, 0, _, _, hf, _, _, _, _ => by omega
  | f + 1, f' + 1, ev, s, hf, ev', s', h, hne => by
    simp only [piLoop] at h ⊢
    by_cases ht : isToken s 0x43 = true
    · simp only [ht, isToken_ext_of_true x ht, if_true] at h ⊢
      obtain ⟨⟨e, s1⟩, h1, h2⟩ := bind_eq_ok h
      rw [(parsePi_stab s x).apply h1]
      exact piLoop_stab x f f' _ s1 (by omega) ev' s' h2 hne
    · simp only [ht] at h
      cases h
      simp only [isToken_ext x _ hne, ht]
      rfl

/-! ### Elements and content -/

theorem contentLoop_ne_nil {f : Nat} {ev : List Event} {s : PState} {r : List Event × PState}
    (h : contentLoop f ev s = .ok r) : s.rest ≠ [] := by
  intro hr
  cases f with
  | zero => simp [contentLoop] at h
  | succ f => simp [contentLoop, isToken_nil hr, peekAt, hr] at h

/-- A successful round of the content loop had its look-ahead inside the input. -/
theorem contentLoop_LA {f : Nat} {ev : List Event} {s : PState} {r : List Event × PState}
    (h : contentLoop f ev s = .ok r) : LA s := by
  apply Classical.byContradiction
  intro hn
  rcases not_LA hn with hr | hr | ⟨p, hr⟩
  · exact contentLoop_ne_nil h hr
  · cases f with
    | zero => simp [contentLoop] at h
    | succ f =>
      simp [contentLoop, isExtension, isToken, peekAt, isString, hr, parseSwitchPage, skip1, parseU8,
        bind, Except.bind] at h
  · cases f with
    | zero => simp [contentLoop] at h
    | succ f =>
      simp only [contentLoop, isExtension, isToken, peekAt, isString, hr, parseSwitchPage, skip1, parseU8,
        bind, Except.bind, pure, Except.pure] at h
      simp at h
      exact contentLoop_ne_nil h rfl


theorem elemAttrs_stab (tag : UInt8) (s : PState) (x : Bytes) :
    Stab (extP x)
      (if (tag.toNat &&& 0x80 != 0) = true then do
          let (as, s) ← attrsLoop (s.rest.length + 1) [] s
          let s ← skip1 "END of attributes" s
          pure (as, s)
        else pure (([] : List Attr), s))
      (if (tag.toNat &&& 0x80 != 0) = true then do
          let (as, s) ← attrsLoop ((ext s x).rest.length + 1) [] (ext s x)
          let s ← skip1 "END of attributes" s
          pure (as, s)
        else pure (([] : List Attr), ext s x)) := by
  split
  · bind_stab (attrsLoop_stab x _ _ [] s (by simp)) with ⟨as, s1⟩ h1
    bind_stab (skip1_stab _ s1 x) with s2 h2
    exact Stab.pure_rfl
  · exact Stab.pure_rfl

theorem elem_content_stab (x : Bytes) : ∀ (f : Nat),
    (∀ (f' : Nat) (ev : List Event) (s : PState), f ≤ f' →
        Stab (extP x) (parseElement f ev s) (parseElement f' ev (ext s x))) ∧
    (∀ (f' : Nat) (ev : List Event) (s : PState), f ≤ f' →
        Stab (extP x) (contentLoop f ev s) (contentLoop f' ev (ext s x)))
  | 0 => ⟨fun _ _ _ _ => by rw [parseElement]; exact Stab.error,
          fun _ _ _ _ => by rw [contentLoop]; exact Stab.error⟩
  | f + 1 => by
    obtain ⟨ihE, ihC⟩ := elem_content_stab x f
    constructor
    · intro f' ev s hf
      cases f' with
      | zero => omega
      | succ f' =>
      have hf' : f ≤ f' := by omega
      rw [parseElement, parseElement]
      refine optSwitch_stab true s x ?_ ?_
      · intro hr
        exact bind_not_ok (not_ok_of_nil (parseStag_ok s) hr)
      · intro s1
        bind_stab (parseStag_stab s1 x) with ⟨⟨tag, name⟩, s2⟩ h2
        cases name with
        | token r =>
          dsimp only
          bind_stab (elemAttrs_stab tag { s2 with curTag := some r } x) with ⟨attrs, s4⟩ h4
          refine Stab.bind (e := extP x) ?_ ?_
          · split
            · bind_stab (ihC f' _ s4 hf') with ⟨ev', s5⟩ h5
              bind_stab (skip1_stab _ s5 x) with s6 h6
              exact Stab.pure_rfl
            · exact Stab.pure_rfl
          · rintro ⟨ev', s5⟩ _
            exact Stab.pure_rfl
        | literal l =>
          dsimp only
          bind_stab (elemAttrs_stab tag s2 x) with ⟨attrs, s4⟩ h4
          refine Stab.bind (e := extP x) ?_ ?_
          · split
            · bind_stab (ihC f' _ s4 hf') with ⟨ev', s5⟩ h5
              bind_stab (skip1_stab _ s5 x) with s6 h6
              exact Stab.pure_rfl
            · exact Stab.pure_rfl
          · rintro ⟨ev', s5⟩ _
            exact Stab.pure_rfl
    · intro f' ev s hf
      cases f' with
      | zero => omega
      | succ f' =>
      have hf' : f ≤ f' := by omega
      by_cases hla : LA s
      · have hr := hla.ne_nil
        rw [contentLoop, contentLoop]
        rw [isExtension_ext x hla, isToken_ext x _ hr, isToken_ext x _ hr, isToken_ext x _ hr,
          isToken_ext x _ hr, isToken_ext x _ hr, isString_ext x hr, peekAt_ext_zero x hr]
        split
        · exact Stab.pure_rfl
        · split
          · exact Stab.error
          · split
            · bind_stab (parseExtension_stab true s x) with ⟨r, s1⟩ h1
              exact ihC f' _ s1 hf'
            · split
              · bind_stab (parseEntity_stab s x) with ⟨b, s1⟩ h1
                exact ihC f' _ s1 hf'
              · split
                · bind_stab (parseString_stab s x) with ⟨b, s1⟩ h1
                  exact ihC f' _ s1 hf'
                · split
                  · bind_stab (parseOpaque_stab s x) with ⟨d, s1⟩ h1
                    split
                    · exact Stab.error
                    · refine Stab.bind_same ?_; intro d' _
                      exact ihC f' _ s1 hf'
                  · split
                    · bind_stab (parsePi_stab s x) with ⟨e, s1⟩ h1
                      exact ihC f' _ s1 hf'
                    · split
                      · bind_stab (parseSwitchPage_stab true s x) with s1 h1
                        exact ihC f' _ s1 hf'
                      · bind_stab (ihE f' ev s hf') with ⟨ev', s1⟩ h1
                        exact ihC f' _ s1 hf'
      · exact Stab.of_not_ok fun b hb => hla (contentLoop_LA hb)

theorem parseElement_stab (x : Bytes) {f f' : Nat} (ev : List Event) (s : PState) (hf : f ≤ f') :
    Stab (extP x) (parseElement f ev s) (parseElement f' ev (ext s x)) :=
  (elem_content_stab x f).1 f' ev s hf

/-! ### Header -/

theorem parseStrtbl_stab (s : PState) (x : Bytes) :
    Stab (fun s' => ext s' x) (parseStrtbl s) (parseStrtbl (ext s x)) := by
  unfold parseStrtbl
  simp only [ext_rest]
  cases hm : mbLoop 5 0 s.rest with
  | error e => exact Stab.error
  | ok p =>
    obtain ⟨len, r⟩ := p
    rw [(mbLoop_stab x 5 0 s.rest).apply hm]
    dsimp only
    split
    · exact Stab.ok_rfl
    · split
      · exact Stab.error
      · rename_i hlen
        have h2 : ¬ len > (r ++ x).length := by simp only [List.length_append]; omega
        rw [if_neg h2, List.take_append_of_le_length (by omega), List.drop_append_of_le_length (by omega)]
        exact Stab.ok_rfl

@[simp] theorem checkPublicId_ext (cfg : PCfg) (s : PState) (x : Bytes) (pid : Nat) (idx : Option Nat) :
    checkPublicId cfg (ext s x) pid idx = checkPublicId cfg s pid idx := rfl

theorem headerPre_stab (cfg : PCfg) (bs x : Bytes) :
    Stab (fun q => (q.1, q.2.1, ext q.2.2 x)) (headerPre cfg bs) (headerPre cfg (bs ++ x)) := by
  unfold headerPre
  bind_stab (parseU8_stab { rest := bs } x) with ⟨ver, s1⟩ h1
  refine Stab.bind (e := fun q => (q.1, q.2.1, ext q.2.2 x)) ?_ ?_
  · simp only [ext_rest]
    cases hr : s1.rest with
    | nil => exact Stab.error
    | cons b r =>
      simp only [List.cons_append]
      split
      · bind_stab (parseMb_stab { s1 with rest := r, version := ver.toNat } x) with ⟨i, s2⟩ h2
        exact Stab.pure_rfl
      · bind_stab (parseMb_stab { s1 with rest := b :: r, version := ver.toNat } x) with ⟨p, s2⟩ h2
        exact Stab.pure_rfl
  · rintro ⟨pubId, pubIdx, s2⟩ _
    dsimp only [ext_version]
    refine Stab.bind (e := fun s' => ext s' x) ?_ ?_
    · by_cases hv : (s2.version != 0) = true
      · simp only [hv, if_true]
        bind_stab (parseMb_stab s2 x) with ⟨cs, s3⟩ h3
        repeat' split
        all_goals first | exact Stab.pure_rfl | exact Stab.error
      · simp only [hv]
        exact Stab.pure_rfl
    · intro s3 _
      dsimp only [ext_charset]
      by_cases hc : (s3.charset == 0) = true
      · simp only [hc, if_true]
        split <;> exact Stab.pure_rfl
      · simp only [hc]
        split <;> exact Stab.pure_rfl

theorem parseHeader_stab (cfg : PCfg) (bs x : Bytes) :
    Stab (fun p => (ext p.1 x, p.2)) (parseHeader cfg bs) (parseHeader cfg (bs ++ x)) := by
  rw [parseHeader_eq, parseHeader_eq]
  cases bs with
  | nil => exact Stab.error
  | cons b r =>
    have h1 : (b :: r).isEmpty = false := rfl
    have h2 : (b :: r ++ x).isEmpty = false := rfl
    rw [h1, h2]
    simp only [Bool.false_eq_true, if_false]
    bind_stab (headerPre_stab cfg (b :: r) x) with ⟨pid, idx, s1⟩ hh
    bind_stab (parseStrtbl_stab s1 x) with s2 h2
    rw [checkPublicId_ext]
    split
    · exact Stab.error
    · exact Stab.pure_rfl


/-! ### Root end, truncation, trailing bytes -/

theorem piLoop_exit : ∀ {f : Nat} {ev : List Event} {s : PState} {ev' : List Event} {s' : PState},
    piLoop f ev s = .ok (ev', s') → isToken s' 0x43 = false
  | 0, _, _, _, _, h => by simp [piLoop] at h
  | f + 1, ev, s, ev', s', h => by
    simp only [piLoop] at h
    by_cases ht : isToken s 0x43 = true
    · simp only [ht, if_true] at h
      obtain ⟨⟨e, s1⟩, _, h2⟩ := bind_eq_ok h
      exact piLoop_exit h2
    · simp only [ht] at h
      cases h
      simpa using ht

/-- `piLoop` under extension when the appended bytes do not make the exit test succeed. -/
theorem piLoop_stab' (x : Bytes) : ∀ (f f' : Nat) (ev : List Event) (s : PState), f ≤ f' →
    ∀ (ev' : List Event) (s' : PState), piLoop f ev s = .ok (ev', s') → isToken (ext s' x) 0x43 = false →
      piLoop f' ev (ext s x) = .ok (ev', ext s' x)
  | 0, _, _, _, _, _, _, h, _ => by simp [piLoop] at h
  | f + 1, 0, _, _, hf, _, _, _, _ => by omega
  | f + 1, f' + 1, ev, s, hf, ev', s', h, hne => by
    simp only [piLoop] at h ⊢
    by_cases ht : isToken s 0x43 = true
    · simp only [ht, isToken_ext_of_true x ht, if_true] at h ⊢
      obtain ⟨⟨e, s1⟩, h1, h2⟩ := bind_eq_ok h
      rw [(parsePi_stab s x).apply h1]
      exact piLoop_stab' x f f' _ s1 (by omega) ev' s' h2 hne
    · simp only [ht] at h
      cases h
      simp only [hne, Bool.false_eq_true, if_false]
      rfl

/-- Offset just past the end of the root element — header, leading PIs and root element parsed —
    if the run gets that far. -/
def rootEnd (cfg : PCfg) (bs : Bytes) : Option Nat :=
  match parseHeader cfg bs with
  | .error _ => none
  | .ok (s, l) =>
    match piLoop (s.rest.length + 1) [Event.startDoc s.charset l.id] s with
    | .error _ => none
    | .ok (ev, s1) =>
      match parseElement (2 * s1.rest.length + 2) ev s1 with
      | .error _ => none
      | .ok (_, s2) => some (bs.length - s2.rest.length)

/-- What `rootEnd = some e` means. -/
theorem rootEnd_eq_some {cfg : PCfg} {bs : Bytes} {e : Nat} (h : rootEnd cfg bs = some e) :
    ∃ s l ev s1 ev2 s2, parseHeader cfg bs = .ok (s, l) ∧
      piLoop (s.rest.length + 1) [Event.startDoc s.charset l.id] s = .ok (ev, s1) ∧
      parseElement (2 * s1.rest.length + 2) ev s1 = .ok (ev2, s2) ∧
      e = bs.length - s2.rest.length ∧ s2.rest <:+ bs ∧ s2.rest.length + 4 ≤ bs.length ∧
      s1.lang ≠ none := by
  unfold rootEnd at h
  split at h
  · cases h
  · rename_i s l hh
    split at h
    · cases h
    · rename_i ev s1 hp
      split at h
      · cases h
      · rename_i ev2 s2 he
        have ⟨hl, hsuf, hlen⟩ := (parseHeader_ok cfg bs).of_ok hh
        dsimp only at hl hsuf hlen
        have hl0 : s.lang ≠ none := by rw [hl]; simp
        have a1 := (piLoop_ok _ _ s hl0 (Nat.lt_succ_self _)).of_ok hp
        dsimp only at a1
        have hl1 : s1.lang ≠ none := by rw [a1.lang]; exact hl0
        have a2 := (parseElement_ok (ev := ev) hl1 (Nat.le_refl _)).of_ok he
        dsimp only at a2
        refine ⟨s, l, ev, s1, ev2, s2, hh, hp, he, ?_, (a2.suffix.trans a1.suffix).trans hsuf, ?_, hl1⟩
        · simpa using h.symm
        · have := a1.len; have := a2.len; omega

/-- A successful run got past the root element, which ends no later than the run consumed. -/
theorem rootEnd_of_parse_ok {cfg : PCfg} {bs : Bytes} (h : (parse cfg bs).result = .ok ()) :
    ∃ e, rootEnd cfg bs = some e ∧ e ≤ (parse cfg bs).consumed := by
  rcases parse_anatomy cfg bs with ⟨c, _, h', _⟩ | ⟨s, l, c, _, _, h', _⟩ | ⟨s, l, ev, s', hh, hb, _, _, hc, hsuf, hlen⟩
  · rw [h'] at h; cases h
  · rw [h'] at h; cases h
  · unfold parseBody at hb
    obtain ⟨⟨ev1, s1⟩, h1, hb⟩ := bind_eq_ok hb
    obtain ⟨⟨ev2, s2⟩, h2, h3⟩ := bind_eq_ok hb
    dsimp only at h2 h3
    have ⟨hl, _, _⟩ := (parseHeader_ok cfg bs).of_ok hh
    dsimp only at hl
    have hl0 : s.lang ≠ none := by rw [hl]; simp
    have a1 := (piLoop_ok _ _ s hl0 (Nat.lt_succ_self _)).of_ok h1
    dsimp only at a1
    have hl1 : s1.lang ≠ none := by rw [a1.lang]; exact hl0
    have a2 := (parseElement_ok (ev := ev1) hl1 (Nat.le_refl _)).of_ok h2
    dsimp only at a2
    have hl2 : s2.lang ≠ none := by rw [a2.lang]; exact hl1
    have a3 := (piLoop_ok _ _ s2 hl2 (Nat.lt_succ_self _)).of_ok h3
    dsimp only at a3
    refine ⟨bs.length - s2.rest.length, ?_, ?_⟩
    · simp only [rootEnd, hh, h1, h2]
    · rw [hc]; have := a3.len; omega

/-- The root element's extent does not depend on what follows the input. -/
theorem rootEnd_ext {cfg : PCfg} {p : Bytes} {e : Nat} (x : Bytes) (h : rootEnd cfg p = some e) :
    rootEnd cfg (p ++ x) = some e ∧ e ≤ p.length := by
  obtain ⟨s, l, ev, s1, ev2, s2, hh, hp, he, hE, hsuf, hlen, hl1⟩ := rootEnd_eq_some h
  have hne1 : s1.rest ≠ [] := fun hr =>
    not_ok_of_nil (parseElement_ok (ev := ev) hl1 (Nat.le_refl _)) hr _ he
  have hx : isToken (ext s1 x) 0x43 = false := by
    rw [isToken_ext x _ hne1]; exact piLoop_exit hp
  have hh' := (parseHeader_stab cfg p x).apply hh
  have hp' := piLoop_stab' x (s.rest.length + 1) ((ext s x).rest.length + 1) _ s (by simp) ev s1 hp hx
  have he' := (parseElement_stab x (f' := 2 * (ext s1 x).rest.length + 2) ev s1 (by simp; omega)).apply he
  refine ⟨?_, by omega⟩
  unfold rootEnd
  rw [hh']
  dsimp only [ext_charset]
  rw [hp']
  dsimp only
  rw [he']
  dsimp only [extP]
  simp only [ext_rest, List.length_append]
  congr 1
  have := hsuf.length_le
  omega

/-- **Truncation.** If the root element of `bs` ends at offset `e`, no cut of `bs` before `e` is
    accepted. -/
theorem take_not_ok {cfg : PCfg} {bs : Bytes} {e k : Nat} (h : rootEnd cfg bs = some e) (hk : k < e) :
    (parse cfg (bs.take k)).result ≠ .ok () := by
  intro hok
  obtain ⟨e', he', hle⟩ := rootEnd_of_parse_ok hok
  have ⟨h2, hlen⟩ := rootEnd_ext (bs.drop k) he'
  rw [List.take_append_drop, h] at h2
  cases h2
  have : (bs.take k).length ≤ k := by simp [List.length_take]; omega
  omega

/-- No cut inside the header is accepted by the header stage. -/
theorem header_take_not_ok {cfg : PCfg} {bs : Bytes} {s : PState} {l : Lang} {k : Nat}
    (h : parseHeader cfg bs = .ok (s, l)) (hk : k < bs.length - s.rest.length) :
    ∀ r, parseHeader cfg (bs.take k) ≠ .ok r := by
  rintro ⟨s', l'⟩ h'
  have h2 := (parseHeader_stab cfg (bs.take k) (bs.drop k)).apply h'
  rw [List.take_append_drop, h] at h2
  simp only [Except.ok.injEq, Prod.mk.injEq] at h2
  have hs : s.rest = s'.rest ++ bs.drop k := by rw [h2.1]; rfl
  have := ((parseHeader_ok cfg (bs.take k)).of_ok h').2.1.length_le
  simp only [List.length_take] at this
  have hl : s.rest.length = s'.rest.length + (bs.length - k) := by rw [hs]; simp
  omega

/-- Bytes after the document are ignored: appending `y` to an accepted input changes nothing,
    provided `y` cannot be taken for one more trailing processing instruction (that is only possible
    when the run consumed the whole input and `y` starts with the `PI` token 0x43). -/
theorem parse_append {cfg : PCfg} {bs : Bytes} (y : Bytes) (h : (parse cfg bs).result = .ok ())
    (hy : (parse cfg bs).consumed = bs.length → y.head? ≠ some 0x43) :
    (parse cfg (bs ++ y)).result = .ok () ∧ (parse cfg (bs ++ y)).events = (parse cfg bs).events ∧
    (parse cfg (bs ++ y)).consumed = (parse cfg bs).consumed := by
  rcases parse_anatomy cfg bs with ⟨c, _, h', _⟩ | ⟨s, l, c, _, _, h', _⟩ | ⟨s, l, ev, s', hh, hb, _, hev, hc, hsuf, hlen⟩
  · rw [h'] at h; cases h
  · rw [h'] at h; cases h
  · have hb0 := hb
    unfold parseBody at hb
    obtain ⟨⟨ev1, s1⟩, h1, hb⟩ := bind_eq_ok hb
    obtain ⟨⟨ev2, s2⟩, h2, h3⟩ := bind_eq_ok hb
    dsimp only at h2 h3
    have ⟨hl, _, _⟩ := (parseHeader_ok cfg bs).of_ok hh
    dsimp only at hl
    have hl0 : s.lang ≠ none := by rw [hl]; simp
    have a1 := (piLoop_ok _ _ s hl0 (Nat.lt_succ_self _)).of_ok h1
    dsimp only at a1
    have hl1 : s1.lang ≠ none := by rw [a1.lang]; exact hl0
    have hne1 : s1.rest ≠ [] := fun hr =>
      not_ok_of_nil (parseElement_ok (ev := ev1) hl1 (Nat.le_refl _)) hr _ h2
    have hx1 : isToken (ext s1 y) 0x43 = false := by
      rw [isToken_ext y _ hne1]; exact piLoop_exit h1
    have hx3 : isToken (ext s' y) 0x43 = false := by
      by_cases hr : s'.rest = []
      · have hcons : (parse cfg bs).consumed = bs.length := by rw [hc, hr]; simp
        have := hy hcons
        unfold isToken
        simp only [ext_rest, hr, List.nil_append]
        cases hyy : (y.head? == some (0x43 : UInt8)) with
        | false => rfl
        | true => exact absurd (by simpa using hyy) this
      · rw [isToken_ext y _ hr]; exact piLoop_exit h3
    have hh' := (parseHeader_stab cfg bs y).apply hh
    have h1' := piLoop_stab' y (s.rest.length + 1) ((ext s y).rest.length + 1) _ s (by simp) ev1 s1 h1 hx1
    have h2' := (parseElement_stab y (f' := 2 * (ext s1 y).rest.length + 2) ev1 s1 (by simp; omega)).apply h2
    have h3' := piLoop_stab' y (s2.rest.length + 1) ((ext s2 y).rest.length + 1) _ s2 (by simp) ev s' h3 hx3
    have hb' : parseBody [Event.startDoc s.charset l.id] (ext s y) = .ok (ev, ext s' y) := by
      unfold parseBody
      rw [h1']
      simp only [bind, Except.bind]
      rw [h2']
      dsimp only
      rw [h3']
    have hlen' := hsuf.length_le
    unfold parse
    rw [hh']
    simp only [ext_charset, hb', hh, hb0, ext_rest, List.length_append, true_and]
    omega

end Wbxml.Lemmas.ParserSafe
