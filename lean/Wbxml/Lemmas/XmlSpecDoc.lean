/-
  Whole documents: the prolog `xml_fill_header` writes is read as the XML declaration and the language's
  DOCTYPE (`document_read`), and `treeToXml` on a representable tree is read back as the tree's view
  (`treeToXml_read`).
-/
import Wbxml.Lemmas.XmlSpecMain
namespace Wbxml.Lemmas.XmlSpec
open Wbxml Wbxml.Model Wbxml.Spec Wbxml.Spec.Xml Wbxml.Lemmas.EncW Wbxml.Lemmas.XmlPrint Wbxml.Lemmas.XmlNs

/-! ## Prolog -/

theorem literal_read (p : UInt8 → Bool) (s rest : Bytes) (hq : s.all (· != 34) = true) (hp : s.all p = true) :
    literal p 34 (s ++ 34 :: rest) = some (s, rest) := by
  have htw : (s ++ 34 :: rest).takeWhile (· != 34) = s := by
    rw [List.takeWhile_append_of_pos (by simpa using hq)]
    simp [List.takeWhile]
  simp [literal, htw, hp]

theorem xmlDecl_read (r : Bytes) : xmlDecl (b!" version=\"1.0\"?>" ++ r) = some (b!"1.0", r) := by
  have hl := literal_read (fun _ => true) b!"1.0" (b!"?>" ++ r) (by decide) (by decide)
  simp only [List.cons_append, List.nil_append] at hl
  simp [xmlDecl, reqS, skipS, isS, strip, Spec.Xml.eq, quoted, hl]

/-- The precondition on the language entry: a root name that is a Name, a public identifier made of
    PubidChars, a DTD location without a double quote. -/
def langOk (lang : Lang) : Bool :=
  (match lang.pub.root with
   | some r => isName r
   | none => false) &&
  (match lang.pub.xmlId with
   | some p => p.all isPubidChar && xmlChars p
   | none => true) &&
  (lang.pub.dtd.getD []).all (· != 34) && xmlChars (lang.pub.dtd.getD [])

/-- ` SYSTEM` or ` PUBLIC "<public id>"`. -/
def hdrId (lang : Lang) : Bytes :=
  match lang.pub.xmlId with
  | some p => if p.isEmpty then b!" SYSTEM" else b!" PUBLIC \"" ++ p ++ b!"\""
  | none => b!" SYSTEM"

theorem xmlHeader_eq (lang : Lang) (gen : Nat) :
    xmlHeader lang gen = b!"<?xml version=\"1.0\"?>" ++ (if gen == 1 then newLine else []) ++ b!"<!DOCTYPE " ++
      lang.pub.root.getD [] ++ hdrId lang ++ b!" \"" ++ lang.pub.dtd.getD [] ++ b!"\">" ++ (if gen == 1 then newLine else []) := by
  unfold xmlHeader hdrId
  cases lang.pub.xmlId <;> rfl

/-- The document type declaration `xml_fill_header` writes, as a reader sees it. -/
def xdoctype (lang : Lang) : XDoctype :=
  { name := lang.pub.root.getD [],
    pubid := (match lang.pub.xmlId with
      | some p => if p.isEmpty then none else some p
      | none => none),
    sysid := some (lang.pub.dtd.getD []) }

theorem pubid_no_quote (p : Bytes) (h : p.all isPubidChar = true) : p.all (· != 34) = true := by
  rw [List.all_eq_true] at h ⊢
  intro b hb
  have := h b hb
  simp only [bne_iff_ne, ne_eq]
  intro e; subst e
  simp [isPubidChar, isDigit] at this

theorem doctype_system (root : Bytes) (hr : isName root = true) (D : Bytes) (hd : D.all (· != 34) = true) (E : Bytes) :
    doctypeDecl (32 :: (root ++ (b!" SYSTEM \"" ++ (D ++ (b!"\">" ++ E))))) =
      some ({ name := root, pubid := none, sysid := some D }, E) := by
  obtain ⟨a, n', hn', ha⟩ := isName_head root hr
  obtain ⟨_, _, _, hS⟩ := nameStartByte_facts a ha
  have hlitD := literal_read (fun _ => true) D (62 :: E) hd (by simp)
  have hsk : skipS (root ++ (b!" SYSTEM \"" ++ (D ++ (b!"\">" ++ E)))) = root ++ (b!" SYSTEM \"" ++ (D ++ (b!"\">" ++ E))) := by
    rw [hn', List.cons_append, skipS_cons_of_not _ _ hS]
  have hname := name_append root (b!" SYSTEM \"" ++ (D ++ (b!"\">" ++ E))) hr
    (by intro b r hbr; simp at hbr; obtain ⟨rfl, _⟩ := hbr; decide)
  simp only [doctypeDecl, reqS, show isS 32 = true by decide, ↓reduceIte, hsk, bind, Option.bind, hname]
  simp [skipS, isS, strip, reqS, externalId, quoted, hlitD]

theorem doctype_public (root : Bytes) (hr : isName root = true) (p : Bytes) (hp : p.all isPubidChar = true)
    (D : Bytes) (hd : D.all (· != 34) = true) (E : Bytes) :
    doctypeDecl (32 :: (root ++ (b!" PUBLIC \"" ++ (p ++ (b!"\" \"" ++ (D ++ (b!"\">" ++ E))))))) =
      some ({ name := root, pubid := some p, sysid := some D }, E) := by
  obtain ⟨a, n', hn', ha⟩ := isName_head root hr
  obtain ⟨_, _, _, hS⟩ := nameStartByte_facts a ha
  have hlitD := literal_read (fun _ => true) D (62 :: E) hd (by simp)
  have hlitP := literal_read isPubidChar p (32 :: 34 :: (D ++ 34 :: 62 :: E)) (pubid_no_quote p hp) hp
  have hsk : ∀ Q, skipS (root ++ Q) = root ++ Q := by
    intro Q; rw [hn', List.cons_append, skipS_cons_of_not _ _ hS]
  have hname := name_append root (b!" PUBLIC \"" ++ (p ++ (b!"\" \"" ++ (D ++ (b!"\">" ++ E))))) hr
    (by intro b r hbr; simp at hbr; obtain ⟨rfl, _⟩ := hbr; decide)
  simp only [doctypeDecl, reqS, show isS 32 = true by decide, ↓reduceIte, hsk, bind, Option.bind, hname]
  simp [skipS, isS, strip, reqS, externalId, quoted, hlitD, hlitP]

theorem doctype_read (lang : Lang) (hl : langOk lang = true) (E : Bytes) :
    doctypeDecl (32 :: (lang.pub.root.getD [] ++
      hdrId lang ++ b!" \"" ++ lang.pub.dtd.getD [] ++ b!"\">" ++ E)) = some (xdoctype lang, E) := by
  simp only [langOk, Bool.and_eq_true] at hl
  obtain ⟨⟨⟨hr, hp⟩, hd⟩, _⟩ := hl
  cases hroot : lang.pub.root with
  | none => simp [hroot] at hr
  | some root =>
    simp only [hroot] at hr
    obtain ⟨a, n', hn', ha⟩ := isName_head root hr
    obtain ⟨_, _, _, hS⟩ := nameStartByte_facts a ha
    generalize hD : lang.pub.dtd.getD [] = D at hd ⊢
    unfold hdrId
    cases hx : lang.pub.xmlId with
    | none =>
      have := doctype_system root hr D hd E
      simpa [xdoctype, hroot, hx, hD] using this
    | some p =>
      simp only [hx, Bool.and_eq_true] at hp
      by_cases hpe : p.isEmpty = true
      · have := doctype_system root hr D hd E
        simpa [xdoctype, hroot, hx, hD, hpe] using this
      · have := doctype_public root hr p hp.1 D hd E
        simpa [xdoctype, hroot, hx, hD, hpe] using this


/-- **Header and root element**: the document `wbxml_tree_to_xml` assembles is read as a document with
    the XML declaration, the language's DOCTYPE and the root element. -/
theorem document_read (lang : Lang) (hl : langOk lang = true) (gen : Nat) (hgen : (gen == 1) = false)
    (E' : Bytes) (e : XItem) (hE : EPiece (60 :: E') e) :
    document (xmlHeader lang gen ++ 60 :: E') =
      some { version := some b!"1.0", doctype := some (xdoctype lang), root := e } := by
  have hdt := doctype_read lang hl (60 :: E')
  have hdecl := xmlDecl_read (b!"<!DOCTYPE " ++ (lang.pub.root.getD [] ++
      hdrId lang ++ b!" \"" ++ lang.pub.dtd.getD [] ++ b!"\">" ++ 60 :: E'))
  have hel := hE [] ((60 :: E').length + 1) (by simp)
  simp only [List.append_nil] at hel
  have hhdr : xmlHeader lang gen ++ 60 :: E' = b!"<?xml" ++ (b!" version=\"1.0\"?>" ++ (b!"<!DOCTYPE " ++ (lang.pub.root.getD [] ++
      hdrId lang ++ b!" \"" ++ lang.pub.dtd.getD [] ++ b!"\">" ++ 60 :: E'))) := by
    simp [xmlHeader_eq, hgen]
  rw [hhdr]
  simp only [document, strip_append, hdecl, Option.map_some, bind, Option.bind, pure]
  have hs1 : ∀ Z, skipS (60 :: Z) = 60 :: Z := fun Z => skipS_cons_of_not 60 Z (by decide)
  have e2 : ∀ Z : Bytes, b!"<!DOCTYPE " ++ Z = b!"<!DOCTYPE" ++ (32 :: Z) := fun Z => rfl
  rw [show ∀ Z : Bytes, skipS (b!"<!DOCTYPE " ++ Z) = b!"<!DOCTYPE" ++ (32 :: Z) from fun Z => hs1 _, strip_append]
  simp only [hdt, Option.map_some, hs1, hel]
  simp [skipS]

theorem xmlChars_header (lang : Lang) (hl : langOk lang = true) (gen : Nat) : xmlChars (xmlHeader lang gen) = true := by
  simp only [langOk, Bool.and_eq_true] at hl
  obtain ⟨⟨⟨hr, hp⟩, _⟩, hd⟩ := hl
  have hnl : xmlChars (if gen == 1 then newLine else []) = true := by
    cases (gen == 1) <;> decide
  have hroot : xmlChars (lang.pub.root.getD []) = true := by
    cases h : lang.pub.root with
    | none => rfl
    | some r => simp only [h] at hr; exact isName_xmlChars r hr
  have hpub : xmlChars (hdrId lang) = true := by
    unfold hdrId
    cases h : lang.pub.xmlId with
    | none => decide
    | some p =>
      simp only [h, Bool.and_eq_true] at hp
      simp only []
      cases p.isEmpty with
      | true => simp only [↓reduceIte]; decide
      | false =>
        simp only [Bool.false_eq_true, ↓reduceIte]
        have h1 : xmlChars b!" PUBLIC \"" = true := by decide
        have h2 : xmlChars b!"\"" = true := by decide
        exact xmlChars_append _ _ (xmlChars_append _ _ h1 hp.2) h2
  rw [xmlHeader_eq]
  repeat' apply xmlChars_append
  all_goals first | assumption | decide


theorem element_head (f : Nat) (bs : Bytes) (x : XItem × Bytes) (h : element f bs = some x) : ∃ r, bs = 60 :: r := by
  cases f with
  | zero => simp [element] at h
  | succ f =>
    cases bs with
    | nil => simp [element, strip] at h
    | cons b r =>
      by_cases hb : b = 60
      · exact ⟨r, by rw [hb]⟩
      · have : ((60 : UInt8) == b) = false := by simpa using fun e => hb e.symm
        simp [element, strip, this] at h

/-! ## Whole trees -/

/-- **The precondition of C05 as a decidable predicate** (for the configuration the tree is printed
    with): the tree has a language whose registered root name is a Name, whose public identifier
    consists of PubidChars and whose DTD location has no double quote; its root is an element; every
    element name and (in a language with an attribute table) every attribute name is a Name; attribute
    values (as C strings) and the character data written for text nodes are UTF-8 for XML characters;
    no start tag carries the same attribute name twice (the namespace declaration counts as `xmlns`),
    namespace names contain no `"`, `<`, `&`, TAB, LF, CR; a CDATA node holds at most one text node; an
    embedded document has a language and a root, which satisfies the same conditions (under its own
    language) — and does not sit inside a CDATA node. -/
def xmlRepresentable (cfg : W2XCfg) (t : Tree) : Bool :=
  match t.lang, t.root with
  | some lang, some (.elt name attrs kids) =>
    langOk lang && okNode (xcfgOf cfg lang) .none none (.elt name attrs kids)
  | _, _ => false

/-- **What the tree denotes**, as the printer model writes it under `cfg`. -/
def xview (cfg : W2XCfg) (t : Tree) : XItem :=
  match t.lang, t.root with
  | some lang, some (.elt name attrs kids) => xelem (xcfgOf cfg lang) .none name attrs kids
  | _, _ => .text []

theorem treeToXml_read (cfg : W2XCfg) (hgen : (cfg.gen == 1) = false) (fuel : Nat) (t : Tree) (xml : Bytes)
    (hrep : xmlRepresentable cfg t = true) (h : treeToXml cfg fuel t = .ok xml) :
    ∃ lang, t.lang = some lang ∧
      Spec.Xml.read xml = some { version := some b!"1.0", doctype := some (xdoctype lang), root := xview cfg t } := by
  rw [treeToXml_eq] at h
  unfold xmlRepresentable at hrep
  unfold xview
  cases hl : t.lang with
  | none => simp [hl] at hrep
  | some lang =>
    cases hr : t.root with
    | none => simp [hl, hr] at hrep
    | some root =>
      cases root with
      | elt name attrs kids =>
        simp only [hl, hr, Bool.and_eq_true] at hrep h
        refine ⟨lang, rfl, ?_⟩
        cases hx : xmlNode (xcfgOf cfg lang) .none fuel (.elt name attrs kids) {} with
        | error e => rw [hx] at h; cases h
        | ok st =>
          rw [hx] at h
          simp only [bind, Except.bind, pure, Except.pure, Except.ok.injEq] at h
          subst h
          have hg : ((xcfgOf cfg lang).gen == 1) = false := hgen
          obtain ⟨_, _, P, ho, hp, hE⟩ := (piece_nodes fuel (xcfgOf cfg lang) hg).1 .none _ {} st rfl hrep.2 hx
          have hE' := hE name attrs kids rfl
          obtain ⟨E', hP⟩ := element_head _ _ _ (hE' [] (P ++ []).length (Nat.le_refl _))
          simp only [List.append_nil] at hP
          have hout : st.out = P := by rw [ho]; rfl
          rw [hout, hP]
          rw [hP] at hE' hp
          unfold Spec.Xml.read
          rw [xmlChars_append _ _ (xmlChars_header lang hrep.1 cfg.gen) hp.chars]
          exact document_read lang hrep.1 cfg.gen hgen E' _ hE'
      | text s => simp [hl, hr] at hrep
      | cdata k => simp [hl, hr] at hrep
      | tree a b c => simp [hl, hr] at hrep

end Wbxml.Lemmas.XmlSpec
