/-
  C02: the fuel of the embedded-document recursion of `treeOfXml`. The result does not depend on the
  fuel once it exceeds the nesting rank of the document (`treeOfXml_fuel_irrelevant`), where a rank
  is any measure that decreases from a document to every embedded document the builder asks for.
-/
import Wbxml.Lemmas.X2WMain
namespace Wbxml.Lemmas.X2W
open Wbxml Wbxml.Model

/-! ### The end-element callback, factored through the one question it may ask -/

/-- The embedded document the second stage of the end-element callback asks `sub` for, if any. -/
def queryTail (main : List Lang) (input : Bytes) (b : XBState) (name : Bytes) (idx : Nat) : Option Bytes :=
  if b.error.isSome then none
  else if b.skipLvl > 1 then none
  else if b.skipLvl == 1 then
    if name == devinfName || name == mgmtName then
      let isMgmt := name == mgmtName
      match b.lang with
      | none => none
      | some outer =>
        if isMgmt && outer.id != 2201 then none
        else
          let subId : Option Nat :=
            if outer.id == 2001 then some 2002 else if outer.id == 2101 then some 2102
            else if outer.id == 2201 then (if isMgmt then some 2204 else some 2202) else none
          match subId with
          | none => none
          | some sid =>
            match main.find? (fun (l : Lang) => l.id == sid) with
            | none => none
            | some sl => some (embeddedDoc input b.skipStart idx isMgmt sl)
    else none
  else none

def endTailNQ (b : XBState) (name : Bytes) : XBState :=
  if b.error.isSome then b
  else if b.skipLvl > 1 then { b with skipLvl := b.skipLvl - 1 }
  else if b.skipLvl == 1 then
    if name == devinfName || name == mgmtName then { b with error := some 101 }
    else b
  else xPop b

def answer (b : XBState) (doc : Bytes) : Option (Except Nat Tree) → XBState
  | none => { b with need := some doc }
  | some (.error e) => { b with error := some e }
  | some (.ok t) => ({ b with skipLvl := 0 } : XBState).attach (.tree t.lang t.origCharset t.root)

theorem endTail_eq (main : List Lang) (input : Bytes) (sub : Bytes → Option (Except Nat Tree))
    (b : XBState) (name : Bytes) (idx : Nat) :
    endTail main input sub b name idx =
      (match queryTail main input b name idx with
       | some doc => answer b doc (sub doc)
       | none => endTailNQ b name) := by
  unfold endTail queryTail endTailNQ
  by_cases h1 : b.error.isSome = true
  · simp only [h1, ↓reduceIte]
  simp only [h1, Bool.false_eq_true, ↓reduceIte]
  by_cases h2 : b.skipLvl > 1
  · simp only [h2, ↓reduceIte]
  simp only [h2, ↓reduceIte]
  by_cases h3 : (b.skipLvl == 1) = true
  · simp only [h3, ↓reduceIte]
    by_cases h4 : (name == devinfName || name == mgmtName) = true
    · simp only [h4, ↓reduceIte]
      cases hl : b.lang with
      | none => rfl
      | some outer =>
        simp only
        by_cases h5 : (name == mgmtName && outer.id != 2201) = true
        · simp only [h5, ↓reduceIte]
        · simp only [h5, Bool.false_eq_true, ↓reduceIte]
          split
          · rename_i hq; simp only [hq]
          · rename_i sid hq
            simp only [hq]
            split
            · rename_i hf; simp only [hf]
            · rename_i sl hf
              simp only [hf, answer]
              split <;> simp_all
    · simp only [h4, Bool.false_eq_true, ↓reduceIte]
  · simp only [h3, Bool.false_eq_true, ↓reduceIte]

/-- The document one callback asks for. -/
def queryOf (main : List Lang) (input : Bytes) (b : XBState) : XEvent → Option Bytes
  | .endElt name idx => if b.need.isSome then none else queryTail main input (decodeTop b) name idx
  | _ => none

theorem step_congr (main : List Lang) (input : Bytes) (sub sub' : Bytes → Option (Except Nat Tree))
    (b : XBState) (e : XEvent) (h : ∀ d, queryOf main input b e = some d → sub d = sub' d) :
    xbuildStep main input sub b e = xbuildStep main input sub' b e := by
  by_cases hneed : b.need.isSome = true
  · rw [step_need _ _ _ _ _ hneed, step_need _ _ _ _ _ hneed]
  have hnone : b.need = none := by cases hb : b.need with | none => rfl | some d => simp [hb] at hneed
  cases e with
  | endElt name idx =>
    rw [step_endElt _ _ _ _ _ _ hnone, step_endElt _ _ _ _ _ _ hnone, endTail_eq, endTail_eq]
    cases hq : queryTail main input (decodeTop b) name idx with
    | none => rfl
    | some doc =>
      simp only
      rw [h doc (by simp only [queryOf, hnone, Option.isSome_none, Bool.false_eq_true, ↓reduceIte]; exact hq)]
  | _ => rfl

/-- All documents asked for along a run. -/
def queries (main : List Lang) (input : Bytes) (sub : Bytes → Option (Except Nat Tree)) :
    List XEvent → XBState → List Bytes
  | [], _ => []
  | e :: evs, b =>
    (match queryOf main input b e with
     | some d => [d]
     | none => []) ++ queries main input sub evs (xbuildStep main input sub b e)

theorem fold_congr (main : List Lang) (input : Bytes) (sub sub' : Bytes → Option (Except Nat Tree)) :
    ∀ (evs : List XEvent) (b : XBState), (∀ d ∈ queries main input sub evs b, sub d = sub' d) →
      evs.foldl (xbuildStep main input sub) b = evs.foldl (xbuildStep main input sub') b ∧
      queries main input sub evs b = queries main input sub' evs b
  | [], _, _ => ⟨rfl, rfl⟩
  | e :: evs, b, h => by
    have hs : xbuildStep main input sub b e = xbuildStep main input sub' b e := by
      apply step_congr
      intro d hd
      apply h
      simp [queries, hd]
    have ih := fold_congr main input sub sub' evs (xbuildStep main input sub b e) (by
      intro d hd
      apply h
      simp only [queries, List.mem_append]
      exact Or.inr hd)
    simp only [List.foldl_cons, queries]
    rw [← hs]
    exact ⟨ih.1, by rw [ih.2]⟩

theorem endTailNQ_need (b : XBState) (name : Bytes) : (endTailNQ b name).need = b.need := by
  unfold endTailNQ
  split
  · rfl
  · split
    · rfl
    · split
      · split <;> rfl
      · exact xPop_need b

theorem fold_stay (main : List Lang) (input : Bytes) (sub : Bytes → Option (Except Nat Tree)) :
    ∀ (evs : List XEvent) (b : XBState), b.need.isSome = true → evs.foldl (xbuildStep main input sub) b = b
  | [], _, _ => rfl
  | e :: evs, b, h => by
    rw [List.foldl_cons, step_need _ _ _ _ _ h]
    exact fold_stay main input sub evs b h

/-- The pending request, if any, is one of the documents asked for. -/
theorem need_mem_queries (main : List Lang) (input : Bytes) (sub : Bytes → Option (Except Nat Tree)) :
    ∀ (evs : List XEvent) (b : XBState), b.need = none →
      ∀ d, (evs.foldl (xbuildStep main input sub) b).need = some d → d ∈ queries main input sub evs b
  | [], b, hb, d, hd => by rw [List.foldl_nil, hb] at hd; cases hd
  | e :: evs, b, hb, d, hd => by
    simp only [List.foldl_cons] at hd
    simp only [queries, List.mem_append]
    cases hn : (xbuildStep main input sub b e).need with
    | none => exact Or.inr (need_mem_queries main input sub evs _ hn d hd)
    | some d1 =>
      rw [fold_stay main input sub evs _ (by rw [hn]; rfl), hn] at hd
      simp only [Option.some.injEq] at hd
      subst hd
      left
      cases e with
      | endElt name idx =>
        rw [step_endElt _ _ _ _ _ _ hb, endTail_eq] at hn
        simp only [queryOf, hb, Option.isSome_none, Bool.false_eq_true, ↓reduceIte]
        have hdn : (decodeTop b).need = none := by rw [decodeTop_need]; exact hb
        cases hq : queryTail main input (decodeTop b) name idx with
        | none =>
          rw [hq] at hn
          simp only at hn
          rw [endTailNQ_need, hdn] at hn
          cases hn
        | some doc =>
          rw [hq] at hn
          simp only at hn
          cases hs : sub doc with
          | none =>
            rw [hs] at hn
            simp only [answer, Option.some.injEq] at hn
            subst hn
            simp
          | some r =>
            rw [hs] at hn
            cases r with
            | error e =>
              simp only [answer] at hn
              rw [hdn] at hn
              cases hn
            | ok t =>
              simp only [answer] at hn
              rw [attach_need] at hn
              simp only at hn
              rw [hdn] at hn
              cases hn
      | _ =>
        rw [step_need_other main input sub b _ rfl, hb] at hn
        cases hn

/-! ### Fuel above the nesting rank is irrelevant -/

/-- `rank` decreases from every document of `env` to every embedded document the builder asks for
    while processing it (whatever the embedded documents answered, i.e. for every remaining fuel). -/
def Ranked (main : List Lang) (env : List (Bytes × ExpatRun)) (rank : Bytes → Nat) : Prop :=
  ∀ (f : Nat) (d k : Bytes) (xr : ExpatRun), env.find? (fun p => p.1 == d) = some (k, xr) →
    ∀ d' ∈ queries main d (subOf main env f) xr.events {}, rank d' < rank d

theorem treeOfXml_fuel_step (main : List Lang) (env : List (Bytes × ExpatRun)) (rank : Bytes → Nat)
    (hr : Ranked main env rank) (xml : Bytes) (f g : Nat)
    (hall : ∀ d', rank d' < rank xml → treeOfXml main env f d' = treeOfXml main env g d') :
    treeOfXml main env (f + 1) xml = treeOfXml main env (g + 1) xml := by
  rw [treeOfXml_succ, treeOfXml_succ]
  split
  · rfl
  · cases hfind : env.find? (fun p => p.1 == xml) with
    | none => rfl
    | some p =>
      obtain ⟨k, xr⟩ := p
      simp only
      have hq := hr f xml k xr hfind
      have hsub : ∀ d ∈ queries main xml (subOf main env f) xr.events {}, subOf main env f d = subOf main env g d := by
        intro d hd
        unfold subOf
        rw [hall d (hq d hd)]
      obtain ⟨hfold, _⟩ := fold_congr main xml (subOf main env f) (subOf main env g) xr.events {} hsub
      rw [← hfold]
      cases hn : (xr.events.foldl (xbuildStep main xml (subOf main env f)) {}).need with
      | none => rfl
      | some d =>
        simp only
        have hd := need_mem_queries main xml (subOf main env f) xr.events {} rfl d hn
        rw [hall d (hq d hd)]

/-- **Fuel irrelevance**: under a rank, any two amounts of fuel above the rank of the document give the
    same tree / error / request — in particular the fuel clause (error 13) is not what answered. -/
theorem treeOfXml_fuel_irrelevant (main : List Lang) (env : List (Bytes × ExpatRun)) (rank : Bytes → Nat)
    (hr : Ranked main env rank) :
    ∀ (n : Nat) (xml : Bytes), rank xml ≤ n → ∀ f g, n < f → n < g →
      treeOfXml main env f xml = treeOfXml main env g xml := by
  intro n
  induction n with
  | zero =>
    intro xml hx f g hf hg
    obtain ⟨f', rfl⟩ : ∃ f', f = f' + 1 := ⟨f - 1, by omega⟩
    obtain ⟨g', rfl⟩ : ∃ g', g = g' + 1 := ⟨g - 1, by omega⟩
    exact treeOfXml_fuel_step main env rank hr xml f' g' (fun d' hd => by omega)
  | succ m ih =>
    intro xml hx f g hf hg
    obtain ⟨f', rfl⟩ : ∃ f', f = f' + 1 := ⟨f - 1, by omega⟩
    obtain ⟨g', rfl⟩ : ∃ g', g = g' + 1 := ⟨g - 1, by omega⟩
    exact treeOfXml_fuel_step main env rank hr xml f' g' (fun d' hd => ih d' (by omega) f' g' (by omega) (by omega))

/-- The fuel `xml2wbxml` supplies suffices when no chain of embedded documents is longer than the
    number of documents in `env` (plus the document itself). -/
theorem treeOfXml_fuel_sufficient (main : List Lang) (env : List (Bytes × ExpatRun)) (rank : Bytes → Nat)
    (hr : Ranked main env rank) (hb : ∀ d, rank d ≤ env.length + 1) (xml : Bytes) (k : Nat) :
    treeOfXml main env (env.length + 2 + k) xml = treeOfXml main env (env.length + 2) xml :=
  treeOfXml_fuel_irrelevant main env rank hr (env.length + 1) xml (hb xml) _ _ (by omega) (by omega)

end Wbxml.Lemmas.X2W
