/-
  C16 — parser main loop on the ledger, part A: the per-item buffers of `parse_content`
  (`parse_string` / `parse_entity` / `parse_opaque`, `parse_extension` for the WML variables,
  `parse_opaque` + `decode_base64_value`), the `characters` delivery, and the unwinding of the open
  `parse_element` frames.
-/
import Wbxml.Model.AllocParseLoop
import Wbxml.Lemmas.AllocParse
import Wbxml.Lemmas.AllocTreeD
namespace Wbxml.Model.Alloc
open Wbxml
set_option linter.unusedSimpArgs false
set_option linter.unusedVariables false
set_option linter.unnecessarySimpa false

/-- Both footprints up to order. -/
theorem Clean.perm_both {s s' : Ledger} {A A' B B' : List Nat} (c : Clean s s' A B) (pa : A'.Perm A) (pb : B.Perm B') :
    Clean s s' A' B' :=
  (c.cons_congr (fun i => pa.mem_iff)).prod_perm pb

theorem name_destroys : Destroys AName.owned (fun e => nameDestroy (some e)) :=
  fun e s wf own => nameDestroy_spec (some e) s wf own

/-- The blocks of the tags held by the open `parse_element` frames. -/
def stackOwned (st : List AName) : List Nat := st.flatMap AName.owned

theorem stackOwned_cons (e : AName) (st : List AName) : stackOwned (e :: st) = e.owned ++ stackOwned st := by
  simp [stackOwned]

/-- An error return through the open frames releases exactly their tags. -/
theorem unwind_spec (st : List AName) (s : Ledger) (wf : s.WF) (own : Owns s (stackOwned st)) :
    Good (unwind st) s (fun _ s' => Clean s s' (stackOwned st) [] ∧ s'.hits = s.hits ∧ s'.next = s.next) :=
  forM_destroys_spec AName.owned _ name_destroys st s wf own

/-- What every producer of a content buffer guarantees: the buffer is the only thing left
    allocated, it comes with `WBXML_OK` only, and a failed request is reported. -/
def RefSpec (s : Ledger) (r : Nat × Option ABuf) (s' : Ledger) : Prop :=
  Clean s s' [] (ownedBufOpt r.2) ∧ (r.1 ≠ OK → r.2 = none) ∧ (s.hits < s'.hits → r.1 ≠ OK)

theorem parseExtWml_spec (var : Piece) (suffix : Bytes) (s : Ledger) (wf : s.WF) :
    Good (parseExtWml var suffix) s (RefSpec s) := by
  unfold parseExtWml
  simp only [bind_eq, pure_eq]
  refine Good.bind (parseAttrValue_spec var s wf) ?_
  intro r s1 ⟨c1, e1, h1⟩
  obtain ⟨ret, v⟩ := r
  simp only at c1 e1 h1 ⊢
  cases v with
  | none => exact good_ret.2 ⟨c1, fun _ => rfl, h1⟩
  | some v =>
    simp only
    have hh1 := c1.hits
    have c1' : Clean s s1 [] v.owned := by simpa [ownedBufOpt] using c1
    refine Good.bind (malloc_spec s1 c1.wf) ?_
    intro ext s2 ⟨c2, h2⟩
    have hh2 := c2.hits
    have cX2 : Clean s s2 [] (v.owned ++ ext.toList) := Clean.trans_prod c1' c2
    cases ext with
    | none =>
      simp only
      have cX2' : Clean s s2 [] v.owned := by simpa using cX2
      refine Good.bind (bufDestroy_spec (some v) s2 c2.wf (by simpa [ownedBufOpt] using cX2'.owns)) ?_
      intro _ s3 ⟨d3, hd3, _⟩
      have d3' : Clean s2 s3 v.owned [] := d3
      exact good_ret.2 ⟨by simpa [ownedBufOpt] using Clean.trans_recycle wf cX2' d3', fun _ => rfl, fun _ => by simp [ENOMEM, OK]⟩
    | some x =>
      simp only [Option.toList] at cX2 ⊢
      have hx2 : x ∈ s2.live := cX2.owns.2 x (by simp)
      have hv2 : v.hdr ∈ s2.live := cX2.owns.2 v.hdr (by simp [ABuf.owned])
      refine Good.bind (deref_spec x s2 hx2) ?_
      intro _ s2' e2'; have e2'' := e2'.symm; subst e2''
      refine Good.bind (deref_spec v.hdr s2 hv2) ?_
      intro _ s2' e2'; have e2'' := e2'.symm; subst e2''
      refine Good.bind (bufDestroy_spec (some v) s2 c2.wf (by simpa [ownedBufOpt] using cX2.owns.left)) ?_
      intro _ s3 ⟨d3, hd3, _⟩
      have d3' : Clean s2 s3 v.owned [] := d3
      have cX3 : Clean s s3 [] ([x] ++ []) := by simpa using Clean.step_r [x] wf cX2 d3'
      refine Good.bind (bufCreate_spec _ _ s3 d3.wf) ?_
      intro r s4 ⟨c4, h4, _, _⟩
      have hh4 := c4.hits
      have cX4 : Clean s s4 [] ([x] ++ ownedBufOpt r) := Clean.step_l [x] wf cX3 c4
      refine Good.bind (free_spec (some x) s4 c4.wf (by intro a ha; cases ha; exact cX4.owns.2 x (by simp))) ?_
      intro _ s5 ⟨d5, hd5, _⟩
      have d5' : Clean s4 s5 [x] [] := by simpa using d5
      have cX5 : Clean s s5 [] (ownedBufOpt r) := by simpa using Clean.step_r (ownedBufOpt r) wf cX4 d5'
      cases r with
      | none => exact good_ret.2 ⟨cX5, fun _ => rfl, fun _ => by simp [ENOMEM, OK]⟩
      | some r =>
        refine good_ret.2 ⟨cX5, fun h => absurd rfl h, fun hh => ?_⟩
        exfalso
        have hret : ret = OK := by
          by_cases h : ret = OK
          · exact h
          · have := e1 h; simp at this
        have a1 : ¬ s.hits < s1.hits := fun h => h1 h hret
        have a2 : ¬ s1.hits < s2.hits := by intro h; have := h2 h; simp at this
        have a4 : ¬ s3.hits < s4.hits := by intro h; have := h4 h; simp at this
        omega

theorem parseOpaqueB64_spec (bytes encoded : Bytes) (s : Ledger) (wf : s.WF) :
    Good (parseOpaqueB64 bytes encoded) s (RefSpec s) := by
  unfold parseOpaqueB64
  simp only [bind_eq, pure_eq]
  refine Good.bind (bufCreate_spec (some bytes) bytes.length s wf) ?_
  intro b s1 ⟨c1, h1, hs1, hk1⟩
  have hh1 := c1.hits
  cases b with
  | none => exact good_ret.2 ⟨by simpa using c1, fun _ => rfl, fun _ => by simp [ENOMEM, OK]⟩
  | some b =>
    simp only
    have c1' : Clean s s1 [] b.owned := by simpa [ownedBufOpt] using c1
    have hno1 : ¬ s.hits < s1.hits := by intro h; have := h1 h; simp at this
    refine Good.bind (deref_spec b.hdr s1 (c1'.owns.2 _ (by simp [ABuf.owned]))) ?_
    intro _ s1' e1'; have e1'' := e1'.symm; subst e1''
    -- wbxml_base64_encode
    have henc : Good (b64Encode b.len) s1 (fun r s' => Clean s1 s' [] r.toList ∧ (s1.hits < s'.hits → r = none)) := by
      unfold b64Encode
      split
      · exact good_ret.2 ⟨Clean.rfl c1.wf, fun _ => rfl⟩
      · exact malloc_spec s1 c1.wf
    refine Good.bind henc ?_
    intro r s2 ⟨c2, h2⟩
    have hh2 := c2.hits
    have cX2 : Clean s s2 [] (b.owned ++ r.toList) := Clean.trans_prod c1' c2
    cases r with
    | none =>
      simp only
      have cX2' : Clean s s2 [] b.owned := by simpa using cX2
      refine Good.bind (bufDestroy_spec (some b) s2 c2.wf (by simpa [ownedBufOpt] using cX2'.owns)) ?_
      intro _ s3 ⟨d3, hd3, _⟩
      have d3' : Clean s2 s3 b.owned [] := d3
      exact good_ret.2 ⟨by simpa [ownedBufOpt] using Clean.trans_recycle wf cX2' d3', fun _ => rfl, fun _ => by simp [EB64ENC, OK]⟩
    | some x =>
      simp only [Option.toList] at cX2 ⊢
      have hno2 : ¬ s1.hits < s2.hits := by intro h; have := h2 h; simp at this
      -- the emptied buffer is the same object
      have hown0 : ({ b with bytes := [] } : ABuf).owned = b.owned := rfl
      have hok0 : ({ b with bytes := [] } : ABuf).ok := by
        intro hs hd
        exact ⟨(hk1 b rfl hs hd).1, rfl⟩
      refine Good.bind (bufAppendData_spec { b with bytes := [] } (some encoded) s2 c2.wf (by rw [hown0]; exact cX2.owns.left) hok0) ?_
      intro r3 s3 ⟨_, _, c3, h3, _⟩
      obtain ⟨b3, ok⟩ := r3
      simp only at c3 h3 ⊢
      rw [hown0] at c3
      have hh3 := c3.hits
      have cX3 : Clean s s3 [] (b3.owned ++ [x]) := Clean.step_r [x] wf cX2 c3
      refine Good.bind (free_spec (some x) s3 c3.wf (by intro a ha; cases ha; exact cX3.owns.2 x (by simp))) ?_
      intro _ s4 ⟨d4, hd4, _⟩
      have d4' : Clean s3 s4 [x] [] := by simpa using d4
      have cX4 : Clean s s4 [] b3.owned := by simpa using Clean.step_l b3.owned wf cX3 d4'
      cases ok with
      | false =>
        simp only [Bool.not_false, if_true]
        refine Good.bind (bufDestroy_spec (some b3) s4 d4.wf (by simpa [ownedBufOpt] using cX4.owns)) ?_
        intro _ s5 ⟨d5, hd5, _⟩
        have d5' : Clean s4 s5 b3.owned [] := d5
        exact good_ret.2 ⟨by simpa [ownedBufOpt] using Clean.trans_recycle wf cX4 d5', fun _ => rfl, fun _ => by simp [ENOMEM, OK]⟩
      | true =>
        simp only [Bool.not_true, Bool.false_eq_true, if_false]
        refine good_ret.2 ⟨by simpa [ownedBufOpt] using cX4, fun h => absurd rfl h, fun hh => ?_⟩
        exfalso
        have a3 : ¬ s2.hits < s3.hits := by intro h; have := h3 h; simp at this
        omega

theorem parseContent_spec (ci : Content) (s : Ledger) (wf : s.WF) : Good (parseContent ci) s (RefSpec s) := by
  cases ci with
  | ref p => exact parseAttrValue_spec p s wf
  | ext var suffix => exact parseExtWml_spec var suffix s wf
  | opqB64 bytes encoded => exact parseOpaqueB64_spec bytes encoded s wf

/-- The `characters` call-back on the content in hand: the content stays the parser's. -/
theorem deliverChars_spec (c : TCtx) (content : Option ABuf) (cd : Bool) (s : Ledger) (wf : s.WF) (hok : c.ok)
    (own : Owns s c.owned) (hc : ∀ b, content = some b → b.hdr ∈ s.live) :
    Good (deliverChars c content cd) s (CbStep c s) := by
  unfold deliverChars
  cases content with
  | none => exact good_ret.2 (CbStep.refl wf hok own)
  | some b =>
    simp only [bind_eq, pure_eq]
    refine Good.bind (deref_spec b.hdr s (hc b rfl)) ?_
    intro _ s0 e0; subst e0
    split
    · exact good_ret.2 (CbStep.refl wf hok own)
    · exact clbCharacters_spec c b.bytes cd s0 wf hok own

end Wbxml.Model.Alloc
