/-
  C18 lemmas, part 19: the simulation over a whole event list (induction over the list), and the
  result: on `plainEvents`, the API history of the events, run on the empty tree of the selected
  language, ends in a state whose abstraction is the tree the XML front end built.
-/
import Wbxml.Lemmas.TreeHeapXmlSim
set_option linter.unusedSimpArgs false
set_option linter.unusedVariables false
namespace Wbxml.Model.TreeHeap
open Wbxml Wbxml.Model

variable (main : List Lang) (input : Bytes) (sub : Bytes → Option (Except Nat Tree))

/-! ### DOCTYPE events occur in the prolog only -/

theorem plainStep_not_prolog {L : Lang} {ph ph' : PPhase} {e : XEvent} (hph : ph ≠ .prolog)
    (h : plainStep L ph e = some ph') : ph' ≠ .prolog ∧ isDoctypeEv e = false := by
  cases ph with
  | prolog => exact absurd rfl hph
  | epilog =>
    cases e with
    | pi => simp only [plainStep, Option.some.injEq] at h; subst h; exact ⟨hph, rfl⟩
    | xmlDecl v enc => simp only [plainStep, Option.some.injEq] at h; subst h; exact ⟨hph, rfl⟩
    | doctype sid pid => simp [plainStep] at h
    | startElt name attrs idx => simp [plainStep] at h
    | endElt name idx => simp [plainStep] at h
    | startCdata => simp [plainStep] at h
    | endCdata => simp [plainStep] at h
    | chars t => simp [plainStep] at h
  | body stk =>
    cases e with
    | pi => simp only [plainStep, Option.some.injEq] at h; subst h; exact ⟨hph, rfl⟩
    | xmlDecl v enc => simp only [plainStep, Option.some.injEq] at h; subst h; exact ⟨hph, rfl⟩
    | doctype sid pid => simp [plainStep] at h
    | startElt name attrs idx =>
      obtain ⟨ok, r, _, _, _, e⟩ := plainStep_start_body h
      subst e; exact ⟨(by intro hc; cases hc), rfl⟩
    | endElt name idx =>
      obtain ⟨ok, ⟨_, e⟩ | ⟨p, r, _, e⟩⟩ := plainStep_end_body h
      · subst e; exact ⟨(by intro hc; cases hc), rfl⟩
      · subst e; exact ⟨(by intro hc; cases hc), rfl⟩
    | startCdata =>
      obtain ⟨ok, r, _, e⟩ := plainStep_startCdata_body h
      subst e; exact ⟨(by intro hc; cases hc), rfl⟩
    | endCdata =>
      obtain ⟨p, r, _, e⟩ := plainStep_endCdata_body h
      subst e; exact ⟨(by intro hc; cases hc), rfl⟩
    | chars t =>
      obtain ⟨_, e⟩ := plainStep_chars_body h
      subst e; exact ⟨(by intro hc; cases hc), rfl⟩

theorem plainFrom_noDoctype {L : Lang} : ∀ (es : List XEvent) (ph : PPhase), ph ≠ .prolog → plainFrom L ph es = true →
    es.all (fun e => !isDoctypeEv e) = true
  | [], _, _, _ => rfl
  | e :: es, ph, hph, h => by
    simp only [plainFrom] at h
    cases hps : plainStep L ph e with
    | none => rw [hps] at h; cases h
    | some ph' =>
      rw [hps] at h
      obtain ⟨h1, h2⟩ := plainStep_not_prolog hph hps
      simp only [List.all_cons, h2, Bool.not_false, Bool.true_and]
      exact plainFrom_noDoctype es ph' h1 h

/-! ### After the root element -/

theorem sim_epilog {L : Lang} : ∀ (es : List XEvent) (b : XBState) (s : St) (cnt : Nat) (ps : List Nat),
    Done b s → plainFrom L .epilog es = true →
    run s (histGo cnt ps es) = .ok s ∧ Done (es.foldl (xbuildStep main input sub) b) s
  | [], b, s, _, _, hD, _ => ⟨rfl, hD⟩
  | e :: es, b, s, cnt, ps, hD, hp => by
    simp only [plainFrom] at hp
    cases hps : plainStep L .epilog e with
    | none => rw [hps] at hp; cases hp
    | some ph' =>
      rw [hps] at hp
      simp only [List.foldl_cons]
      cases e with
      | pi =>
        simp only [plainStep, Option.some.injEq] at hps; subst hps
        rw [xstep_pi]
        simp only [histGo]
        exact sim_epilog es b s cnt ps hD hp
      | xmlDecl v enc =>
        simp only [plainStep, Option.some.injEq] at hps; subst hps
        obtain ⟨cs, e1⟩ := xstep_xmlDecl main input sub b v enc
        rw [e1]
        simp only [histGo]
        exact sim_epilog es _ s cnt ps ⟨hD.ex, hD.stack, ⟨hD.quiet.err, hD.quiet.skip, hD.quiet.need⟩⟩ hp
      | doctype sid pid => simp [plainStep] at hps
      | startElt name attrs idx => simp [plainStep] at hps
      | endElt name idx => simp [plainStep] at hps
      | startCdata => simp [plainStep] at hps
      | endCdata => simp [plainStep] at hps
      | chars t => simp [plainStep] at hps

/-! ### Inside the root element -/

theorem sim_body {L : Lang} : ∀ (es : List XEvent) (b : XBState) (s : St) (stk : List POpen) (frames : List (Nat × BT)),
    Open L b s stk frames → plainFrom L (.body stk) es = true →
    ∃ s', run s (histGo s.heap.length (frames.map (·.1)) es) = .ok s' ∧
      Done (es.foldl (xbuildStep main input sub) b) s' ∧ s'.lang = s.lang ∧ s'.charset = s.charset
  | [], b, s, stk, frames, _, hp => by simp [plainFrom] at hp
  | e :: es, b, s, stk, frames, hO, hp => by
    simp only [plainFrom] at hp
    cases hps : plainStep L (.body stk) e with
    | none => rw [hps] at hp; cases hp
    | some ph' =>
      rw [hps] at hp
      simp only [List.foldl_cons]
      cases e with
      | pi =>
        simp only [plainStep, Option.some.injEq] at hps; subst hps
        obtain ⟨⟨h1, _, _⟩, hO1⟩ := open_pi main input sub hO
        rw [h1 es]
        exact sim_body es _ s stk frames hO1 hp
      | xmlDecl v enc =>
        simp only [plainStep, Option.some.injEq] at hps; subst hps
        obtain ⟨⟨h1, _, _⟩, hO1⟩ := open_xmlDecl main input sub hO v enc
        rw [h1 es]
        exact sim_body es _ s stk frames hO1 hp
      | doctype sid pid => simp [plainStep] at hps
      | startElt name attrs idx =>
        obtain ⟨ok, r, hst, hne, hat, e⟩ := plainStep_start_body hps
        subst hst; subst e
        obtain ⟨s1, frames1, ⟨h1, hl1, hc1⟩, hO1⟩ := open_start main input sub hO name attrs idx hne hat
        obtain ⟨s', hr, hD, hl', hc'⟩ := sim_body es _ s1 _ frames1 hO1 hp
        exact ⟨s', by rw [h1 es]; exact hr, hD, hl'.trans hl1, hc'.trans hc1⟩
      | endElt name idx =>
        obtain ⟨ok, ⟨hst, e⟩ | ⟨p, r, hst, e⟩⟩ := plainStep_end_body hps
        · -- the root is closed
          subst hst; subst e
          obtain ⟨f, fs, a, C, rs, cP, hs, hfr, hf, _⟩ := hO.top
          obtain ⟨n, at', hk, _⟩ := hf.kind
          have hD := open_close_root hO (xbuildStep main input sub b (.endElt name idx)) (by
            intro f' fs' hs'
            rw [hs] at hs'; injection hs' with h1 h2; subst h1; subst h2
            exact xstep_end_elt main input sub hO.quiet hs hf.content hk name idx)
          obtain ⟨hr, hD'⟩ := sim_epilog main input sub es _ s s.heap.length (frames.map (·.1)).tail hD hp
          refine ⟨s, ?_, hD', rfl, rfl⟩
          simp only [histGo]; exact hr
        · subst hst; subst e
          obtain ⟨f, fs, a, C, rs, cP, hs, hfr, hf, _⟩ := hO.top
          obtain ⟨n, at', hk, _⟩ := hf.kind
          obtain ⟨frames1, hfm, hO1⟩ := open_close hO (xbuildStep main input sub b (.endElt name idx)) (by
            intro f' fs' hs'
            rw [hs] at hs'; injection hs' with h1 h2; subst h1; subst h2
            exact xstep_end_elt main input sub hO.quiet hs hf.content hk name idx)
          obtain ⟨s', hr, hD, hl', hc'⟩ := sim_body es _ s _ frames1 hO1 hp
          refine ⟨s', ?_, hD, hl', hc'⟩
          simp only [histGo, ← List.map_tail, hfm]; exact hr
      | startCdata =>
        obtain ⟨ok, r, hst, e⟩ := plainStep_startCdata_body hps
        subst hst; subst e
        obtain ⟨s1, frames1, ⟨h1, hl1, hc1⟩, hO1⟩ := open_startCdata main input sub hO
        obtain ⟨s', hr, hD, hl', hc'⟩ := sim_body es _ s1 _ frames1 hO1 hp
        exact ⟨s', by rw [h1 es]; exact hr, hD, hl'.trans hl1, hc'.trans hc1⟩
      | endCdata =>
        obtain ⟨p, r, hst, e⟩ := plainStep_endCdata_body hps
        subst hst; subst e
        obtain ⟨frames1, hfm, hO1⟩ := open_close hO (xbuildStep main input sub b .endCdata) (by
          intro f' fs' hs'
          exact xstep_endCdata main input sub hO.quiet hs')
        obtain ⟨s', hr, hD, hl', hc'⟩ := sim_body es _ s _ frames1 hO1 hp
        refine ⟨s', ?_, hD, hl', hc'⟩
        simp only [histGo, ← List.map_tail, hfm]; exact hr
      | chars t =>
        obtain ⟨hc, e⟩ := plainStep_chars_body hps
        subst e
        obtain ⟨s1, frames1, ⟨h1, hl1, hc1⟩, hO1⟩ := open_chars main input sub hO hc t
        obtain ⟨s', hr, hD, hl', hc'⟩ := sim_body es _ s1 _ frames1 hO1 hp
        exact ⟨s', by rw [h1 es]; exact hr, hD, hl'.trans hl1, hc'.trans hc1⟩

/-! ### From the start -/

theorem prolog_abs {L : Lang} {b : XBState} {s : St} (hP : Prolog L b s) :
    Inv s ∧ absTree s = .ok { lang := s.lang, origCharset := s.charset, root := b.root } := by
  refine ⟨⟨.nil, trivial, by simp, ?_, ?_⟩, ?_⟩
  · intro i c hc
    simp [St.cellAt, hP.heap] at hc
  · intro r hr; rw [hP.sroot] at hr; cases hr
  · unfold absTree
    rw [hP.sroot, hP.broot]

theorem sim_prolog {L : Lang} : ∀ (es : List XEvent) (b : XBState) (s : St),
    Prolog L b s → plainFrom L .prolog es = true →
    (es.foldl (xbuildStep main input sub) b).error = none →
    (es.foldl (xbuildStep main input sub) b).lang = some L →
    ∃ s', run s (histGo 0 [] es) = .ok s' ∧ Inv s' ∧
      absTree s' = .ok { lang := s.lang, origCharset := s.charset,
                         root := (es.foldl (xbuildStep main input sub) b).root }
  | [], b, s, hP, _, _, _ => ⟨s, rfl, (prolog_abs hP).1, (prolog_abs hP).2⟩
  | e :: es, b, s, hP, hp, herr, hlang => by
    simp only [plainFrom] at hp
    cases hps : plainStep L .prolog e with
    | none => rw [hps] at hp; cases hp
    | some ph' =>
      rw [hps] at hp
      simp only [List.foldl_cons] at herr hlang ⊢
      cases e with
      | pi =>
        simp only [plainStep, Option.some.injEq] at hps; subst hps
        rw [xstep_pi] at herr hlang ⊢
        simp only [histGo]
        exact sim_prolog es b s hP hp herr hlang
      | xmlDecl v enc =>
        simp only [plainStep, Option.some.injEq] at hps; subst hps
        obtain ⟨cs, e1⟩ := xstep_xmlDecl main input sub b v enc
        rw [e1] at herr hlang ⊢
        simp only [histGo]
        exact sim_prolog es _ s ⟨hP.heap, hP.sroot, hP.slang, hP.stack, hP.broot,
          ⟨hP.quiet.err, hP.quiet.skip, hP.quiet.need⟩⟩ hp herr hlang
      | doctype sid pid =>
        simp only [plainStep, Option.some.injEq] at hps; subst hps
        obtain ⟨l, e1⟩ := xstep_doctype main input sub b sid pid
        rw [e1] at herr hlang ⊢
        simp only [histGo]
        exact sim_prolog es _ s ⟨hP.heap, hP.sroot, hP.slang, hP.stack, hP.broot,
          ⟨hP.quiet.err, hP.quiet.skip, hP.quiet.need⟩⟩ hp herr hlang
      | startElt name attrs idx =>
        obtain ⟨hat, e⟩ := plainStep_start_prolog hps
        subst e
        · have herr1 := xfold_error_none main input sub es _ herr
          have hnd := plainFrom_noDoctype es _ (by intro hc; cases hc) hp
          -- the language selected at the root start tag is the final one
          have hsome : (xbuildStep main input sub b (.startElt name attrs idx)).lang.isSome = true := by
            obtain ⟨L', e1⟩ := xstep_start_root main input sub hP.quiet hP.stack hP.broot name attrs idx herr1
            rw [e1]; rfl
          have hlang1 : (xbuildStep main input sub b (.startElt name attrs idx)).lang = some L := by
            rw [← xfold_lang main input sub es _ hsome hnd]; exact hlang
          obtain ⟨s1, frames1, ⟨h1, hl1, hc1⟩, hO1⟩ := prolog_start main input sub hP name attrs idx hat hlang1 herr1
          obtain ⟨s', hr, hD, hl', hc'⟩ := sim_body main input sub es _ s1 _ frames1 hO1 hp
          have hlen : s.heap.length = 0 := by rw [hP.heap]; rfl
          have h1' := h1 es
          simp only [List.map_nil, hlen] at h1'
          refine ⟨s', by rw [h1']; exact hr, hD.abs.1, ?_⟩
          rw [hD.abs.2, hl', hc', hl1, hc1]
      | endElt name idx => simp [plainStep] at hps
      | startCdata => simp [plainStep] at hps
      | endCdata => simp [plainStep] at hps
      | chars t => simp [plainStep] at hps

/-- The events of `plainEvents`, run through the XML front end without error and through the API
    history on the empty tree of the language the front end selected: same tree. -/
theorem api_history_abs {L : Lang} (es : List XEvent) (cs : Nat) (hp : plainEvents L es = true)
    (herr : (es.foldl (xbuildStep main input sub) {}).error = none)
    (hlang : (es.foldl (xbuildStep main input sub) {}).lang = some L) :
    ∃ s', run { lang := some L, charset := cs } (apiHistoryOf es) = .ok s' ∧ Inv s' ∧
      absTree s' = .ok { lang := some L, origCharset := cs,
                         root := (es.foldl (xbuildStep main input sub) {}).root } :=
  sim_prolog main input sub es {} { lang := some L, charset := cs }
    ⟨rfl, rfl, rfl, rfl, rfl, ⟨rfl, rfl, rfl⟩⟩ hp herr hlang

/-! ### `wbxml_tree_from_xml` answering a tree -/

/-- What a successful `treeOfXml` says about the run of the document's events. -/
theorem treeOfXml_ok_inv {main : List Lang} {env : List (Bytes × ExpatRun)} {fuel : Nat} {xml key : Bytes}
    {r : ExpatRun} {t : Tree} (henv : env.find? (fun p => p.1 == xml) = some (key, r))
    (h : treeOfXml main env fuel xml = .ok t) :
    ∃ sub, r.ok = true ∧ (r.events.foldl (xbuildStep main xml sub) {}).need = none ∧
      (r.events.foldl (xbuildStep main xml sub) {}).error = none ∧
      t = { lang := (r.events.foldl (xbuildStep main xml sub) {}).lang,
            origCharset := (r.events.foldl (xbuildStep main xml sub) {}).charset,
            root := (r.events.foldl (xbuildStep main xml sub) {}).root } := by
  cases fuel with
  | zero => simp [treeOfXml] at h
  | succ f =>
    unfold treeOfXml at h
    by_cases hemp : xml.isEmpty = true
    · simp [hemp] at h
    · simp only [hemp, if_false, henv, Bool.false_eq_true] at h
      split at h
      · split at h <;> cases h
      · rename_i hneed
        split at h
        · cases h
        · rename_i hnok
          split at h
          · cases h
          · rename_i herr
            injection h with h
            refine ⟨_, ?_, hneed, herr, h.symm⟩
            cases hr : r.ok with
            | true => rfl
            | false => rw [hr] at hnok; exact absurd rfl hnok

end Wbxml.Model.TreeHeap
