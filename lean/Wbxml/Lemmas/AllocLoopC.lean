/-
  C16 — parser main loop on the ledger, part C: the two halves of `parse_element` around its content
  loop — tag, attribute table, `start_element` call-back, release of the table; `end_element`
  call-back, release of the tag.
-/
import Wbxml.Lemmas.AllocLoopB
namespace Wbxml.Model.Alloc
open Wbxml
set_option linter.unusedSimpArgs false
set_option linter.unusedVariables false
set_option linter.unnecessarySimpa false

theorem Owns.flatMap_mem {ι : Type} {s : Ledger} (f : ι → List Nat) {xs : List ι} (h : Owns s (xs.flatMap f))
    {x : ι} (hx : x ∈ xs) : Owns s (f x) := by
  induction xs with
  | nil => cases hx
  | cons y ys ih =>
    simp only [List.flatMap_cons] at h
    rcases List.mem_cons.1 hx with rfl | hx
    · exact h.left
    · exact ih h.right hx

/-- What the start of `parse_element` guarantees: the tag (NULL exactly on the error exits, which
    leave the context alone) and the context are all that is left; the call-back keeps the context
    consistent; a failed request is an error code here or in the context. -/
def StartPost (c : TCtx) (s : Ledger) (r : Nat × Option AName × TCtx) (s' : Ledger) : Prop :=
  r.2.2.tree = c.tree ∧ r.2.2.ok ∧ Clean s s' c.owned (ownedNameOpt r.2.1 ++ r.2.2.owned) ∧
  (r.2.1 = none → r.1 ≠ OK ∧ r.2.2 = c) ∧ (r.2.1.isSome → r.1 = OK) ∧
  (s.hits < s'.hits → r.1 ≠ OK ∨ r.2.2.error ≠ OK) ∧ (c.error ≠ OK → r.2.2.error ≠ OK)

theorem startElement_spec (c : TCtx) (t : TagShape) (ht : t.wf) (attrs : List AttrShape)
    (hshape : ∀ a ∈ attrs, a.start.wf) (s : Ledger) (wf : s.WF) (hok : c.ok) (own : Owns s c.owned) :
    Good (startElement c t attrs) s (StartPost c s) := by
  unfold startElement
  simp only [bind_eq, pure_eq]
  refine Good.bind (parseStag_spec t ht s wf) ?_
  intro r s1 ⟨c1, e1, k1, h1⟩
  obtain ⟨ret, element⟩ := r
  simp only at c1 e1 k1 h1 ⊢
  have hh1 := c1.hits
  have cX1 : Clean s s1 c.owned (c.owned ++ ownedNameOpt element) := by
    simpa using Clean.frame_l c.owned wf c1 (by simpa using own)
  by_cases hret : ret = OK
  · subst hret
    simp only [bne_self_eq_false, Bool.false_eq_true, if_false]
    obtain ⟨e, he⟩ : ∃ e, element = some e := by
      cases element with
      | none => simp at k1
      | some e => exact ⟨e, rfl⟩
    subst he
    have hno1 : ¬ s.hits < s1.hits := fun hh => h1 hh rfl
    simp only [Option.map_some]
    refine Good.bind (deref_spec e.hdr s1 (cX1.owns.2 _ (by simp [ownedNameOpt, AName.owned]))) ?_
    intro _ s1' e1'; have e1'' := e1'.symm; subst e1''
    have own1 : Owns s1 (ownedNameOpt (some e) ++ ((none : Ptr).toList ++ ([] : List AAttr).flatMap AAttr.owned)) := by
      simpa using cX1.owns.right
    refine Good.bind (attrTableLoop_spec (some e) attrs hshape none [] s1 c1.wf own1 (by simp)) ?_
    intro r2 s2 ⟨c2, e2, h2⟩
    obtain ⟨ret2, tbl, entries⟩ := r2
    simp only at c2 e2 h2 ⊢
    have hh2 := c2.hits
    have hnil : ((none : Ptr).toList ++ ([] : List AAttr).flatMap AAttr.owned) = [] := rfl
    rw [hnil, List.append_nil] at c2
    have cX2 := Clean.step_l c.owned wf cX1 c2
    by_cases hret2 : ret2 = OK
    · subst hret2
      simp only [bne_self_eq_false, Bool.false_eq_true, if_false, if_true] at cX2 ⊢
      have hno2 : ¬ s1.hits < s2.hits := fun hh => h2 hh rfl
      obtain ⟨oC, oR, dCR⟩ := Owns.append_iff.1 cX2.owns
      have hat : ∀ a ∈ entries, Owns s2 a.owned ∧ ∀ i ∈ a.owned, i ∉ c.owned := by
        intro a ha
        refine ⟨oR.right.right.flatMap_mem AAttr.owned ha, fun i hi hm => dCR i hm ?_⟩
        exact List.mem_append_right _ (List.mem_append_right _ (List.mem_flatMap.2 ⟨a, ha, hi⟩))
      refine Good.bind (clbStartElement_spec c e entries s2 c2.wf hok oC oR.left hat) ?_
      intro c3 s3 ⟨t3, ok3, cl3, e3, p3⟩
      have hh3 := cl3.hits
      have cX3 := Clean.step_r _ wf cX2 cl3
      refine Good.bind (freeAttrsTable_spec tbl entries s3 cl3.wf cX3.owns.right.right e2) ?_
      intro _ s4 ⟨d4, hd4, _⟩
      have cX3' : Clean s s3 c.owned ((ownedNameOpt (some e) ++ c3.owned) ++ (tbl.toList ++ entries.flatMap AAttr.owned)) := by
        refine cX3.prod_perm ?_
        perm_count
      have cX4 : Clean s s4 c.owned (ownedNameOpt (some e) ++ c3.owned) := by
        simpa using Clean.step_l _ wf cX3' d4
      refine good_ret.2 ⟨t3, ok3, cX4, fun h => (by cases h), fun _ => rfl, fun hh => Or.inr (e3 (by omega)), p3⟩
    · have hb : (ret2 != OK) = true := by simpa using hret2
      simp only [hb, if_true]
      simp only [hret2, if_false, List.append_nil] at cX2
      exact good_ret.2 ⟨rfl, hok, by simpa [ownedNameOpt] using cX2, fun _ => ⟨hret2, rfl⟩, fun h => (by simp at h),
        fun _ => Or.inl hret2, id⟩
  · have hb : (ret != OK) = true := by simpa using hret
    simp only [hb, if_true]
    have := e1 hret; subst this
    exact good_ret.2 ⟨rfl, hok, by simpa [ownedNameOpt] using cX1, fun _ => ⟨hret, rfl⟩, fun h => (by simp at h),
      fun _ => Or.inl hret, id⟩

/-- The end of `parse_element`: the tag is released, the context moves up. -/
theorem closeElement_spec (c : TCtx) (e : AName) (s : Ledger) (wf : s.WF) (hok : c.ok) (own : Owns s (e.owned ++ c.owned)) :
    Good (closeElement c e) s (fun c' s' => c'.tree = c.tree ∧ c'.ok ∧ Clean s s' (e.owned ++ c.owned) c'.owned ∧
      (s.hits < s'.hits → c'.error ≠ OK) ∧ (c.error ≠ OK → c'.error ≠ OK)) := by
  unfold closeElement
  simp only [bind_eq, pure_eq]
  refine Good.bind (clbEndElement_spec c s wf hok own.right) ?_
  intro c1 s1 ⟨t1, ok1, cl1, e1, p1⟩
  have hh1 := cl1.hits
  have cX1 := Clean.frame_l e.owned wf cl1 own
  refine Good.bind (nameDestroy_spec (some e) s1 cl1.wf (by simpa [ownedNameOpt] using cX1.owns.left)) ?_
  intro _ s2 ⟨d2, hd2, _⟩
  have d2' : Clean s1 s2 e.owned [] := d2
  have cX2 : Clean s s2 (e.owned ++ c.owned) c1.owned := by simpa using Clean.step_r c1.owned wf cX1 d2'
  exact good_ret.2 ⟨t1, ok1, cX2, fun hh => e1 (by omega), p1⟩

end Wbxml.Model.Alloc
