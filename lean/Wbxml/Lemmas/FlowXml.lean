/-
  The XML instance of the flow model (`xmlEnc`) and the XML generation model (`xmlNode` / `xmlNodes`):
  fuel, independence of the bytes already in the output, CDATA flag, and batch = `xmlNodes`.
-/
import Wbxml.Lemmas.Flow
namespace Wbxml.Model.Flow
open Wbxml Wbxml.Model

/-! ## One unfolding step of `xmlNode` / `xmlNodes`, `do` notation removed -/

/-- Start tag, attributes and end of the attribute list of an element. -/
def xmlOpen (c : XCfg) (p : Parent) (name : Name) (attrs : List Attr) (kids : List Node) (st : XSt) : XSt :=
  xmlEndAttrs c kids
    (if c.lang.attrs.isSome then attrs.foldl (fun st a => xmlAttr c a st) (xmlTag c p name st) else xmlTag c p name st)

theorem xmlNode_zero (c : XCfg) (p : Parent) (n : Node) (st : XSt) : xmlNode c p 0 n st = .error .fuel := by
  simp only [xmlNode]

theorem xmlNodes_zero (c : XCfg) (p : Parent) (ns : List Node) (st : XSt) : xmlNodes c p 0 ns st = .error .fuel := by
  simp only [xmlNodes]

theorem xmlNode_elt (c : XCfg) (p : Parent) (f : Nat) (name attrs kids) (st : XSt) :
    xmlNode c p (f + 1) (.elt name attrs kids) st =
      (match xmlNodes c (childScope p name) f kids (xmlOpen c p name attrs kids st) with
       | .ok st1 => .ok { (if kids.isEmpty then st1 else xmlEndTag c name kids st1) with curTag := none }
       | .error e => .error e) := by
  simp only [xmlNode, xmlOpen]
  cases xmlNodes c (childScope p name) f kids _ <;> rfl

theorem xmlNode_text (c : XCfg) (p : Parent) (f : Nat) (s : Bytes) (st : XSt) :
    xmlNode c p (f + 1) (.text s) st =
      (match xmlText c s st with
       | .ok st1 => .ok { st1 with curTag := none }
       | .error e => .error e) := by
  simp only [xmlNode]
  cases xmlText c s st <;> rfl

theorem xmlNode_cdata (c : XCfg) (p : Parent) (f : Nat) (kids : List Node) (st : XSt) :
    xmlNode c p (f + 1) (.cdata kids) st =
      (match xmlNodes c p f kids { st with inCdata := true, out := st.out ++ b!"<![CDATA[" } with
       | .ok st1 => .ok { st1 with inCdata := false, out := st1.out ++ b!"]]>", curTag := none }
       | .error e => .error e) := by
  simp only [xmlNode]
  cases xmlNodes c p f kids _ <;> rfl

theorem xmlNode_tree_none (c : XCfg) (p : Parent) (f : Nat) (cs : Nat) (root : Option Node) (st : XSt) :
    xmlNode c p (f + 1) (.tree none cs root) st = .error (.code 12) := by
  simp only [xmlNode]

theorem xmlNode_tree_noroot (c : XCfg) (p : Parent) (f : Nat) (l : Lang) (cs : Nat) (st : XSt) :
    xmlNode c p (f + 1) (.tree (some l) cs none) st = .error (.ub "nested tree without root") := by
  simp only [xmlNode]

theorem xmlNode_tree (c : XCfg) (p : Parent) (f : Nat) (l : Lang) (cs : Nat) (r : Node) (st : XSt) :
    xmlNode c p (f + 1) (.tree (some l) cs (some r)) st =
      (match xmlNode { c with lang := l } .none f r { indent := st.indent } with
       | .ok st' => .ok { st with out := st.out ++ cstrOf st'.out, curTag := none }
       | .error e => .error e) := by
  simp only [xmlNode]
  cases xmlNode { c with lang := l } .none f r { indent := st.indent } <;> rfl

theorem xmlNodes_nil (c : XCfg) (p : Parent) (f : Nat) (st : XSt) : xmlNodes c p (f + 1) [] st = .ok st := by
  simp only [xmlNodes]

theorem xmlNodes_cons (c : XCfg) (p : Parent) (f : Nat) (n : Node) (rest : List Node) (st : XSt) :
    xmlNodes c p (f + 1) (n :: rest) st =
      (match xmlNode c p f n st with
       | .ok st1 => xmlNodes c p f rest st1
       | .error e => .error e) := by
  simp only [xmlNodes]
  cases xmlNode c p f n st <;> rfl

theorem needNode_pos (n : Node) : 1 ≤ needNode n := by
  cases n with
  | elt a b k => simp only [needNode]; omega
  | text s => simp only [needNode]; omega
  | cdata k => simp only [needNode]; omega
  | tree l c r => cases r <;> simp only [needNode] <;> omega

theorem needList_pos (ns : List Node) : 1 ≤ needList ns := by
  cases ns <;> simp only [needList] <;> omega

/-! ## Fuel: enough is as good as more, and enough never runs out -/

theorem xml_fuel_mono (f : Nat) :
    (∀ (c : XCfg) (p : Parent) (n : Node) (st : XSt) (g : Nat), needNode n ≤ f → needNode n ≤ g →
        xmlNode c p f n st = xmlNode c p g n st) ∧
    (∀ (c : XCfg) (p : Parent) (ns : List Node) (st : XSt) (g : Nat), needList ns ≤ f → needList ns ≤ g →
        xmlNodes c p f ns st = xmlNodes c p g ns st) := by
  induction f with
  | zero =>
    exact ⟨fun c p n st g hf _ => by have := needNode_pos n; omega,
           fun c p ns st g hf _ => by have := needList_pos ns; omega⟩
  | succ f ih =>
    refine ⟨?_, ?_⟩
    · intro c p n st g hf hg
      cases g with
      | zero => have := needNode_pos n; omega
      | succ g =>
        cases n with
        | elt name attrs kids =>
          simp only [needNode] at hf hg
          rw [xmlNode_elt, xmlNode_elt, ih.2 c _ kids _ g (by omega) (by omega)]
        | text s => rw [xmlNode_text, xmlNode_text]
        | cdata kids =>
          simp only [needNode] at hf hg
          rw [xmlNode_cdata, xmlNode_cdata, ih.2 c _ kids _ g (by omega) (by omega)]
        | tree l cs r =>
          cases l with
          | none => rw [xmlNode_tree_none, xmlNode_tree_none]
          | some l =>
            cases r with
            | none => rw [xmlNode_tree_noroot, xmlNode_tree_noroot]
            | some r =>
              simp only [needNode] at hf hg
              rw [xmlNode_tree, xmlNode_tree, ih.1 _ _ r _ g (by omega) (by omega)]
    · intro c p ns st g hf hg
      cases g with
      | zero => have := needList_pos ns; omega
      | succ g =>
        cases ns with
        | nil => rw [xmlNodes_nil, xmlNodes_nil]
        | cons n rest =>
          simp only [needList] at hf hg
          rw [xmlNodes_cons, xmlNodes_cons, ih.1 c p n st g (by omega) (by omega)]
          cases xmlNode c p g n st with
          | error e => rfl
          | ok st1 => exact ih.2 c p rest st1 g (by omega) (by omega)

theorem xmlNode_mono (c : XCfg) (p : Parent) (n : Node) (st : XSt) (f : Nat) (h : needNode n ≤ f) :
    xmlNode c p f n st = xmlNode c p (needNode n) n st :=
  (xml_fuel_mono f).1 c p n st _ h (Nat.le_refl _)

theorem xmlNodes_mono (c : XCfg) (p : Parent) (ns : List Node) (st : XSt) (f : Nat) (h : needList ns ≤ f) :
    xmlNodes c p f ns st = xmlNodes c p (needList ns) ns st :=
  (xml_fuel_mono f).2 c p ns st _ h (Nat.le_refl _)

theorem xmlText_not_fuel (c : XCfg) (s : Bytes) (st : XSt) : xmlText c s st ≠ .error .fuel := by
  simp only [xmlText]
  repeat' split
  all_goals (intro h; cases h)

theorem xml_fuel_enough (f : Nat) :
    (∀ (c : XCfg) (p : Parent) (n : Node) (st : XSt), needNode n ≤ f → xmlNode c p f n st ≠ .error .fuel) ∧
    (∀ (c : XCfg) (p : Parent) (ns : List Node) (st : XSt), needList ns ≤ f → xmlNodes c p f ns st ≠ .error .fuel) := by
  induction f with
  | zero =>
    exact ⟨fun c p n st hf => by have := needNode_pos n; omega,
           fun c p ns st hf => by have := needList_pos ns; omega⟩
  | succ f ih =>
    refine ⟨?_, ?_⟩
    · intro c p n st hf
      cases n with
      | elt name attrs kids =>
        simp only [needNode] at hf
        rw [xmlNode_elt]
        have := ih.2 c (childScope p name) kids (xmlOpen c p name attrs kids st) (by omega)
        cases hk : xmlNodes c (childScope p name) f kids (xmlOpen c p name attrs kids st) with
        | error e => rw [hk] at this; intro h; cases h; exact this rfl
        | ok st1 => intro h; cases h
      | text s =>
        rw [xmlNode_text]
        have := xmlText_not_fuel c s st
        cases hk : xmlText c s st with
        | error e => rw [hk] at this; intro h; cases h; exact this rfl
        | ok st1 => intro h; cases h
      | cdata kids =>
        simp only [needNode] at hf
        rw [xmlNode_cdata]
        have := ih.2 c p kids { st with inCdata := true, out := st.out ++ b!"<![CDATA[" } (by omega)
        cases hk : xmlNodes c p f kids { st with inCdata := true, out := st.out ++ b!"<![CDATA[" } with
        | error e => rw [hk] at this; intro h; cases h; exact this rfl
        | ok st1 => intro h; cases h
      | tree l cs r =>
        cases l with
        | none => rw [xmlNode_tree_none]; intro h; cases h
        | some l =>
          cases r with
          | none => rw [xmlNode_tree_noroot]; intro h; cases h
          | some r =>
            simp only [needNode] at hf
            rw [xmlNode_tree]
            have := ih.1 { c with lang := l } .none r { indent := st.indent } (by omega)
            cases hk : xmlNode { c with lang := l } .none f r { indent := st.indent } with
            | error e => rw [hk] at this; intro h; cases h; exact this rfl
            | ok st1 => intro h; cases h
    · intro c p ns st hf
      cases ns with
      | nil => rw [xmlNodes_nil]; intro h; cases h
      | cons n rest =>
        simp only [needList] at hf
        rw [xmlNodes_cons]
        have h1 := ih.1 c p n st (by omega)
        cases hk : xmlNode c p f n st with
        | error e => rw [hk] at h1; intro h; cases h; exact h1 rfl
        | ok st1 => exact ih.2 c p rest st1 (by omega)

theorem xmlNode_fuel (c : XCfg) (p : Parent) (n : Node) (st : XSt) {f : Nat} (h : needNode n ≤ f) :
    xmlNode c p f n st ≠ .error .fuel := (xml_fuel_enough f).1 c p n st h

/-! ## The bytes already in the output are not looked at -/

/-- Put `o` in front of the output. -/
def sh (o : Bytes) (st : XSt) : XSt := { st with out := o ++ st.out }

def shE (o : Bytes) : Except Err XSt → Except Err XSt
  | .ok st => .ok (sh o st)
  | .error e => .error e

theorem xmlTag_sh (c : XCfg) (p : Parent) (name : Name) (o : Bytes) (st : XSt) :
    xmlTag c p name (sh o st) = sh o (xmlTag c p name st) := by
  simp only [xmlTag, sh]
  repeat' split
  all_goals (first | (simp [List.append_assoc]; done) | (simp_all [List.append_assoc]; done) |
                     (simp_all only [Option.some.injEq]; split <;> simp [List.append_assoc]))

theorem xmlAttr_sh (c : XCfg) (a : Attr) (o : Bytes) (st : XSt) :
    xmlAttr c a (sh o st) = sh o (xmlAttr c a st) := by
  simp [xmlAttr, sh, List.append_assoc]

theorem xmlAttrs_sh (c : XCfg) (attrs : List Attr) (o : Bytes) (st : XSt) :
    attrs.foldl (fun st a => xmlAttr c a st) (sh o st) = sh o (attrs.foldl (fun st a => xmlAttr c a st) st) := by
  induction attrs generalizing st with
  | nil => rfl
  | cons a rest ih => simp only [List.foldl_cons, xmlAttr_sh, ih]

theorem xmlEndAttrs_sh (c : XCfg) (kids : List Node) (o : Bytes) (st : XSt) :
    xmlEndAttrs c kids (sh o st) = sh o (xmlEndAttrs c kids st) := by
  simp only [xmlEndAttrs, sh]
  split
  · simp [List.append_assoc]
  · split <;> simp [List.append_assoc]

theorem xmlEndTag_sh (c : XCfg) (name : Name) (kids : List Node) (o : Bytes) (st : XSt) :
    xmlEndTag c name kids (sh o st) = sh o (xmlEndTag c name kids st) := by
  by_cases h : (c.gen == 1 && haveChildElt kids) = true <;> cases hc : st.inContent <;>
    simp [xmlEndTag, sh, h, hc, List.append_assoc]

theorem xmlOpen_sh (c : XCfg) (p : Parent) (name : Name) (attrs : List Attr) (kids : List Node) (o : Bytes) (st : XSt) :
    xmlOpen c p name attrs kids (sh o st) = sh o (xmlOpen c p name attrs kids st) := by
  simp only [xmlOpen]
  split
  · rw [xmlTag_sh, xmlAttrs_sh, xmlEndAttrs_sh]
  · rw [xmlTag_sh, xmlEndAttrs_sh]

theorem shE_ite (o : Bytes) (c : Prop) [Decidable c] (a b : Except Err XSt) :
    shE o (if c then a else b) = if c then shE o a else shE o b := by split <;> rfl

theorem xmlText_sh (c : XCfg) (s : Bytes) (o : Bytes) (st : XSt) :
    xmlText c s (sh o st) = shE o (xmlText c s st) := by
  unfold xmlText
  simp only [shE_ite]
  have h1 : (sh o st).inCdata = st.inCdata := rfl
  have h2 : (sh o st).curTag = st.curTag := rfl
  simp only [h1, h2]
  repeat' split
  all_goals (first | rfl | simp only [shE, sh, List.append_assoc])

theorem xml_sh (f : Nat) :
    (∀ (c : XCfg) (p : Parent) (n : Node) (o : Bytes) (st : XSt),
        xmlNode c p f n (sh o st) = shE o (xmlNode c p f n st)) ∧
    (∀ (c : XCfg) (p : Parent) (ns : List Node) (o : Bytes) (st : XSt),
        xmlNodes c p f ns (sh o st) = shE o (xmlNodes c p f ns st)) := by
  induction f with
  | zero => exact ⟨fun c p n o st => by simp only [xmlNode_zero, shE], fun c p ns o st => by simp only [xmlNodes_zero, shE]⟩
  | succ f ih =>
    refine ⟨?_, ?_⟩
    · intro c p n o st
      cases n with
      | elt name attrs kids =>
        rw [xmlNode_elt, xmlNode_elt, xmlOpen_sh, ih.2]
        cases xmlNodes c (childScope p name) f kids (xmlOpen c p name attrs kids st) with
        | error e => rfl
        | ok st1 =>
          simp only [shE]
          split
          · simp [sh]
          · rw [xmlEndTag_sh]; simp [sh]
      | text s =>
        rw [xmlNode_text, xmlNode_text, xmlText_sh]
        cases xmlText c s st with
        | error e => rfl
        | ok st1 => simp [shE, sh]
      | cdata kids =>
        rw [xmlNode_cdata, xmlNode_cdata]
        have : ({ sh o st with inCdata := true, out := (sh o st).out ++ b!"<![CDATA[" } : XSt)
            = sh o { st with inCdata := true, out := st.out ++ b!"<![CDATA[" } := by simp [sh, List.append_assoc]
        rw [this, ih.2]
        cases xmlNodes c p f kids { st with inCdata := true, out := st.out ++ b!"<![CDATA[" } with
        | error e => rfl
        | ok st1 => simp [shE, sh, List.append_assoc]
      | tree l cs r =>
        cases l with
        | none => simp only [xmlNode_tree_none, shE]
        | some l =>
          cases r with
          | none => simp only [xmlNode_tree_noroot, shE]
          | some r =>
            rw [xmlNode_tree, xmlNode_tree]
            have : (sh o st).indent = st.indent := rfl
            rw [this]
            cases xmlNode { c with lang := l } .none f r { indent := st.indent } with
            | error e => rfl
            | ok st' => simp [shE, sh, List.append_assoc]
    · intro c p ns o st
      cases ns with
      | nil => simp only [xmlNodes_nil, shE]
      | cons n rest =>
        rw [xmlNodes_cons, xmlNodes_cons, ih.1]
        cases xmlNode c p f n st with
        | error e => rfl
        | ok st1 => simp only [shE]; exact ih.2 c p rest o st1

/-! ## The CDATA flag is FALSE between two calls -/

theorem xmlOpen_inCdata (c : XCfg) (p : Parent) (name : Name) (attrs : List Attr) (kids : List Node) (st : XSt) :
    (xmlOpen c p name attrs kids st).inCdata = st.inCdata := by
  have hattrs : ∀ (attrs : List Attr) (st : XSt), (attrs.foldl (fun st a => xmlAttr c a st) st).inCdata = st.inCdata := by
    intro attrs
    induction attrs with
    | nil => intro st; rfl
    | cons a rest ih => intro st; simp only [List.foldl_cons, ih]; rfl
  have htag : (xmlTag c p name st).inCdata = st.inCdata := by simp only [xmlTag]
  have hend : ∀ st : XSt, (xmlEndAttrs c kids st).inCdata = st.inCdata := by
    intro st; simp only [xmlEndAttrs]; split
    · rfl
    · split <;> rfl
  simp only [xmlOpen]
  split
  · rw [hend, hattrs, htag]
  · rw [hend, htag]

theorem xmlEndTag_inCdata (c : XCfg) (name : Name) (kids : List Node) (st : XSt) :
    (xmlEndTag c name kids st).inCdata = st.inCdata := by
  simp only [xmlEndTag]
  split
  · split <;> rfl
  · rfl

theorem xmlText_inCdata (c : XCfg) (s : Bytes) (st st' : XSt) (h : xmlText c s st = .ok st') :
    st'.inCdata = st.inCdata := by
  simp only [xmlText] at h
  repeat' split at h
  all_goals (first | (cases h; rfl) | cases h)

theorem xml_inCdata (f : Nat) :
    (∀ (c : XCfg) (p : Parent) (n : Node) (st st' : XSt), st.inCdata = false →
        xmlNode c p f n st = .ok st' → st'.inCdata = false) ∧
    (∀ (c : XCfg) (p : Parent) (ns : List Node) (st st' : XSt), st.inCdata = false →
        xmlNodes c p f ns st = .ok st' → st'.inCdata = false) := by
  induction f with
  | zero =>
    exact ⟨fun c p n st st' _ h => (by rw [xmlNode_zero] at h; cases h),
           fun c p ns st st' _ h => (by rw [xmlNodes_zero] at h; cases h)⟩
  | succ f ih =>
    refine ⟨?_, ?_⟩
    · intro c p n st st' hst h
      cases n with
      | elt name attrs kids =>
        rw [xmlNode_elt] at h
        cases hk : xmlNodes c (childScope p name) f kids (xmlOpen c p name attrs kids st) with
        | error e => rw [hk] at h; cases h
        | ok st1 =>
          rw [hk] at h
          have h1 := ih.2 c _ kids _ st1 (by rw [xmlOpen_inCdata]; exact hst) hk
          cases h
          split
          · exact h1
          · simp only; rw [xmlEndTag_inCdata]; exact h1
      | text s =>
        rw [xmlNode_text] at h
        cases hk : xmlText c s st with
        | error e => rw [hk] at h; cases h
        | ok st1 => rw [hk] at h; cases h; simp only; rw [xmlText_inCdata c s st st1 hk]; exact hst
      | cdata kids =>
        rw [xmlNode_cdata] at h
        cases hk : xmlNodes c p f kids { st with inCdata := true, out := st.out ++ b!"<![CDATA[" } with
        | error e => rw [hk] at h; cases h
        | ok st1 => rw [hk] at h; cases h; rfl
      | tree l cs r =>
        cases l with
        | none => rw [xmlNode_tree_none] at h; cases h
        | some l =>
          cases r with
          | none => rw [xmlNode_tree_noroot] at h; cases h
          | some r =>
            rw [xmlNode_tree] at h
            cases hk : xmlNode { c with lang := l } .none f r { indent := st.indent } with
            | error e => rw [hk] at h; cases h
            | ok st1 => rw [hk] at h; cases h; exact hst
    · intro c p ns st st' hst h
      cases ns with
      | nil => rw [xmlNodes_nil] at h; cases h; exact hst
      | cons n rest =>
        rw [xmlNodes_cons] at h
        cases hk : xmlNode c p f n st with
        | error e => rw [hk] at h; cases h
        | ok st1 =>
          rw [hk] at h
          exact ih.2 c p rest st1 st' (ih.1 c p n st st1 hst hk) h

/-! ## Batch encoding of whole nodes by `xmlEnc` = `xmlNodes` over the sibling list -/

theorem toXSt_ofXSt (st : XSt) (h : st.inCdata = false) : sh st.out (XFl.ofXSt st).toXSt = st := by
  cases st
  simp only [XFl.toXSt, XFl.ofXSt, sh, List.append_nil] at h ⊢
  simp only [h]

theorem ofXSt_sh (o : Bytes) (st : XSt) : XFl.ofXSt (sh o st) = XFl.ofXSt st := rfl

/-- From any state between two calls: the sibling list run on one encoder is batch encoding, put
    behind what is already in the output. -/
theorem xmlNodes_batch (c : XCfg) (ns : List Node) (st : XSt) (hst : st.inCdata = false) :
    xmlNodes c .none (needList ns) ns st =
      (match batch (xmlEnc c) (XFl.ofXSt st) (ns.map (fun n => Item.node n true)) with
       | .ok (b, x) => .ok (sh (st.out ++ b) x.toXSt)
       | .error e => .error e) := by
  induction ns generalizing st with
  | nil =>
    simp only [needList, xmlNodes_nil, List.map_nil, batch, List.append_nil]
    rw [toXSt_ofXSt st hst]
  | cons n rest ih =>
    simp only [needList, List.map_cons]
    rw [xmlNodes_cons, xmlNode_mono c .none n st _ (Nat.le_max_left _ _)]
    -- the node, started behind an empty output
    have hsh : xmlNode c .none (needNode n) n st = shE st.out (xmlNode c .none (needNode n) n (XFl.ofXSt st).toXSt) := by
      rw [← (xml_sh (needNode n)).1 c .none n st.out (XFl.ofXSt st).toXSt, toXSt_ofXSt st hst]
    rw [hsh]
    cases hk : xmlNode c .none (needNode n) n (XFl.ofXSt st).toXSt with
    | error e =>
      have hi : (xmlEnc c).item (XFl.ofXSt st) (.node n true) = .error e := by
        simp only [xmlEnc, xmlItemSt, hk]
      simp only [shE, batch_cons_err (xmlEnc c) _ _ _ hi]
    | ok st1 =>
      have hi : (xmlEnc c).item (XFl.ofXSt st) (.node n true) = .ok (st1.out, XFl.ofXSt st1) := by
        simp only [xmlEnc, xmlItemSt, hk]
      have hc1 : st1.inCdata = false := (xml_inCdata _).1 c .none n _ st1 rfl hk
      have hc1' : (sh st.out st1).inCdata = false := hc1
      simp only [shE]
      rw [xmlNodes_mono c .none rest _ _ (Nat.le_max_right _ _), ih (sh st.out st1) hc1',
          batch_cons_ok (xmlEnc c) _ _ _ hi, ofXSt_sh]
      cases batch (xmlEnc c) (XFl.ofXSt st1) (rest.map (fun n => Item.node n true)) with
      | error e => rfl
      | ok r => obtain ⟨b', x⟩ := r; simp [sh, List.append_assoc]

theorem batch_xmlNodes (c : XCfg) (ns : List Node) :
    batch (xmlEnc c) {} (ns.map (fun n => Item.node n true))
      = (match xmlNodes c .none (needList ns) ns {} with
         | .ok st => .ok (st.out, XFl.ofXSt st)
         | .error e => .error e) := by
  have h := xmlNodes_batch c ns {} rfl
  rw [h]
  have h0 : XFl.ofXSt ({} : XSt) = ({} : XFl) := rfl
  rw [h0]
  cases batch (xmlEnc c) {} (ns.map (fun n => Item.node n true)) with
  | error e => rfl
  | ok r =>
    obtain ⟨b, x⟩ := r
    simp [sh, XFl.toXSt, XFl.ofXSt]

end Wbxml.Model.Flow
